import XzVerif.Codec.Rc
import Mathlib.Tactic.Ring
import Mathlib.Tactic.Linarith

/-! Proofs about the range coder (L1 of DESIGN.md): the Nat-level encoder's output, read by the
    Nat-level decoder, reproduces every decision; `tree_sync` lifts this to decision trees. -/

namespace Rc

@[simp] theorem num_nil : num [] = 0 := rfl
theorem num_append_single (l : List Nat) (d : Nat) : num (l ++ [d]) = num l * 256 + d := by
  simp [num, List.foldl_append]

theorem emit_length (out : List Nat) (a b n : Nat) : (emit out a b n).length = out.length + n := by
  induction n generalizing out a with
  | zero => simp [emit]
  | succ n ih => simp [emit, ih]; omega

theorem num_emit_ff (out : List Nat) (c n : Nat) :
    num (emit out c 255 (n+1)) = num out * 256 ^ (n+1) + pend c (n+1) := by
  induction n generalizing out c with
  | zero => simp [emit, num_append_single, pend]
  | succ n ih =>
    rw [emit, ih (out ++ [c]) 255, num_append_single]
    simp only [pend, Nat.add_sub_cancel]
    have h1 : 0 < 256 ^ n := Nat.pow_pos (by omega)
    have h2 : 256 ^ (n+1) = 256 ^ n * 256 := by ring
    have h3 : 256 ^ (n+1+1) = 256 ^ n * 256 * 256 := by ring
    rw [h3, h2]
    generalize 256 ^ n = P at *
    have e1 : (num out * 256 + c) * (P * 256) = num out * (P * 256 * 256) + c * (P*256) := by ring
    omega

theorem num_emit_00 (out : List Nat) (c n : Nat) :
    num (emit out c 0 (n+1)) = (num out * 256 + c) * 256 ^ n := by
  induction n generalizing out c with
  | zero => simp [emit, num_append_single]
  | succ n ih =>
    rw [emit, ih (out ++ [c]) 0, num_append_single]
    ring

theorem mem_emit (out : List Nat) (a b n : Nat) (ha : a < 256) (hb : b < 256)
    (ho : ∀ x ∈ out, x < 256) : ∀ x ∈ emit out a b n, x < 256 := by
  induction n generalizing out a with
  | zero => simpa [emit] using ho
  | succ n ih =>
    rw [emit]
    apply ih _ _ hb
    intro x hx
    rcases List.mem_append.mp hx with h | h
    · exact ho x h
    · simp at h; omega

theorem shiftLow_T (e : Enc) (h : e.Inv) : e.shiftLow.T = 256 * e.T := by
  obtain ⟨hcl, hc, hl, hff⟩ := h
  unfold Enc.shiftLow
  split
  · -- emission
    rename_i hcond
    obtain ⟨n, hn⟩ : ∃ n, e.cacheLen = n + 1 := ⟨e.cacheLen - 1, by omega⟩
    simp only [Enc.T, hn]
    by_cases hcarry : e.low / 2 ^ 32 = 0
    · -- no carry
      have hlow : e.low < 2 ^ 32 := by omega
      rw [hcarry]
      have : (e.cache + 0) % 256 = e.cache := by omega
      rw [this]
      have : (255 + 0) % 256 = 255 := by omega
      rw [this, num_emit_ff]
      simp only [pend, Nat.add_sub_cancel, Nat.sub_self, Nat.pow_zero, Nat.mul_one, Nat.pow_one]
      generalize num e.out * 256 ^ (n+1) + (e.cache * 256 ^ n + (256 ^ n - 1)) = D
      omega
    · -- carry
      have hc1 : e.low / 2 ^ 32 = 1 := by omega
      have hne : e.cache ≠ 255 := by
        intro h255; have := hff h255; omega
      rw [hc1]
      have : (e.cache + 1) % 256 = e.cache + 1 := by omega
      rw [this]
      have : (255 + 1) % 256 = 0 := by omega
      rw [this, num_emit_00]
      simp only [pend, Nat.add_sub_cancel, Nat.sub_self, Nat.pow_zero, Nat.mul_one, Nat.pow_one]
      have h1 : 0 < 256 ^ n := Nat.pow_pos (by omega)
      have h2 : 256 ^ (n+1) = 256 ^ n * 256 := by ring
      rw [h2]
      generalize 256 ^ n = P at *
      have e1 : (num e.out * 256 + (e.cache + 1)) * P = num e.out * (P * 256) + e.cache * P + P := by ring
      rw [e1]
      generalize num e.out * (P * 256) = A
      have e2 : e.cache * P + (P - 1) + 1 = e.cache * P + P := by omega
      omega
  · -- no emission: top byte is ff and no carry
    rename_i hcond
    simp only [Enc.T]
    have hlow : e.low < 2 ^ 32 := by omega
    have htop : 0xff000000 ≤ e.low := by omega
    obtain ⟨n, hn⟩ : ∃ n, e.cacheLen = n + 1 := ⟨e.cacheLen - 1, by omega⟩
    simp only [hn, pend, Nat.add_sub_cancel]
    have h1 : 0 < 256 ^ n := Nat.pow_pos (by omega)
    have h2 : 256 ^ (n+1) = 256 ^ n * 256 := by ring
    have h3 : 256 ^ (n+1+1) = 256 ^ n * 256 * 256 := by ring
    rw [h3, h2]
    generalize 256 ^ n = P at *
    have e1 : num e.out * (P * 256 * 256) = (num e.out * (P * 256)) * 256 := by ring
    have e2 : e.cache * (P * 256) = (e.cache * P) * 256 := by ring
    rw [e1, e2]
    generalize num e.out * (P * 256) = A
    generalize e.cache * P = B
    omega

theorem shiftLow_digits (e : Enc) : e.shiftLow.digits = e.digits + 1 := by
  unfold Enc.shiftLow Enc.digits
  split <;> simp [emit_length] <;> omega

theorem shiftLow_range (e : Enc) : e.shiftLow.range = e.range := by
  unfold Enc.shiftLow; split <;> rfl

theorem shiftLow_inv (e : Enc) (h : e.Inv) : e.shiftLow.Inv := by
  obtain ⟨hcl, hc, hl, hff⟩ := h
  unfold Enc.shiftLow
  split
  · exact ⟨by simp, by simp; omega, by simp; omega, by simp; omega⟩
  · exact ⟨by simp, by simpa using hc, by simp; omega, by simp; omega⟩

/-- the key step: normalisation keeps the rest invariant, multiplies T by the scale -/
theorem norm_spec (e : Enc) (h : e.Mid) (hr : 2 ^ 16 ≤ e.range) :
    e.norm.Rest ∧
    ((e.norm.digits = e.digits ∧ e.norm.T = e.T ∧ e.norm.range = e.range) ∨
     (e.range < 2 ^ 24 ∧ e.norm.digits = e.digits + 1 ∧ e.norm.T = 256 * e.T ∧ e.norm.range = 256 * e.range)) := by
  obtain ⟨⟨hcl, hc, hl, hff⟩, hpos, hhi, hsum, hffs⟩ := h
  unfold Enc.norm
  split
  · rename_i hlt
    have hinv' : ({ e with range := e.range * 256 } : Enc).Inv := ⟨hcl, hc, hl, hff⟩
    refine ⟨?_, Or.inr ⟨hlt, ?_, ?_, ?_⟩⟩
    · refine ⟨shiftLow_inv _ hinv', ?_, ?_, ?_, ?_⟩
      · rw [shiftLow_range]; simp; omega
      · rw [shiftLow_range]; simp; omega
      · unfold Enc.shiftLow; split <;> simp <;> omega
      · unfold Enc.shiftLow
        split
        · rename_i hcond
          dsimp only at hcond ⊢
          intro h255
          by_cases hcarry : e.low / 2 ^ 32 = 0
          · omega
          · omega
        · rename_i hcond
          dsimp only at hcond ⊢
          intro h255
          have := hffs h255
          omega
    · rw [shiftLow_digits]; rfl
    · rw [shiftLow_T _ hinv']; rfl
    · rw [shiftLow_range]; simp; omega
  · rename_i hge
    exact ⟨⟨⟨hcl, hc, hl, hff⟩, by omega, hhi, hsum, hffs⟩, Or.inl ⟨rfl, rfl, rfl⟩⟩

theorem apply_spec (e : Enc) (h : e.Rest) (dn : Decn) (hp : dn.ok) :
    (e.apply dn).Mid ∧ 2 ^ 16 ≤ (e.apply dn).range ∧ (e.apply dn).digits = e.digits ∧
    e.T ≤ (e.apply dn).T ∧ (e.apply dn).T + (e.apply dn).range ≤ e.T + e.range := by
  obtain ⟨⟨hcl, hc, hl, hff⟩, hlo, hhi, hsum, hffs⟩ := h
  unfold Enc.apply
  rcases hdp : dn.p with _ | p
  · -- direct
    simp only
    cases dn.b <;>
      refine ⟨⟨⟨hcl, hc, ?_, ?_⟩, ?_, ?_, ?_, ?_⟩, ?_, ?_, ?_, ?_⟩ <;>
      (try simp only [Enc.T, Enc.digits, Bool.false_eq_true, ↓reduceIte]) <;> omega
  · obtain ⟨hp1, hp2⟩ := hp p hdp
    simp only
    have hb1 : 2 ^ 16 ≤ e.range / 2048 * p := by
      have : 2 ^ 13 ≤ e.range / 2048 := by omega
      calc 2 ^ 16 ≤ 2 ^ 13 * 31 := by norm_num
        _ ≤ e.range / 2048 * p := Nat.mul_le_mul this hp1
    have hb2 : e.range / 2048 * p + 2 ^ 16 ≤ e.range := by
      have h1 : e.range / 2048 * p ≤ e.range / 2048 * 2017 := Nat.mul_le_mul_left _ hp2
      have h2 : 2 ^ 13 ≤ e.range / 2048 := by omega
      omega
    generalize e.range / 2048 * p = bound at *
    cases dn.b <;>
      refine ⟨⟨⟨hcl, hc, ?_, ?_⟩, ?_, ?_, ?_, ?_⟩, ?_, ?_, ?_, ?_⟩ <;>
      (try simp only [Enc.T, Enc.digits, Bool.false_eq_true, ↓reduceIte]) <;> omega

/-- interval nesting across `norm` -/
theorem norm_nest (m : Enc) (h : m.Mid) (hr : 2 ^ 16 ≤ m.range) :
    m.norm.Rest ∧ m.digits ≤ m.norm.digits ∧
    m.norm.T = m.T * 256 ^ (m.norm.digits - m.digits) ∧
    m.norm.range = m.range * 256 ^ (m.norm.digits - m.digits) ∧
    (m.norm.digits = m.digits ∨ (m.range < 2 ^ 24 ∧ m.norm.digits = m.digits + 1)) := by
  obtain ⟨hrest, h1 | h2⟩ := norm_spec m h hr
  · obtain ⟨hd, hT, hR⟩ := h1
    refine ⟨hrest, by omega, ?_, ?_, Or.inl hd⟩ <;> simp [hd, hT, hR]
  · obtain ⟨hlt, hd, hT, hR⟩ := h2
    refine ⟨hrest, by omega, ?_, ?_, Or.inr ⟨hlt, hd⟩⟩
    · rw [hd, hT]; simp; ring
    · rw [hd, hR]; simp; ring

/-- nesting over a whole list of decisions, starting from a mid state followed by norm -/
theorem encodeAll_nest (e : Enc) (h : e.Rest) (ds : List Decn) (hp : ∀ dn ∈ ds, dn.ok) :
    (e.encodeAll ds).Rest ∧ e.digits ≤ (e.encodeAll ds).digits ∧
    e.T * 256 ^ ((e.encodeAll ds).digits - e.digits) ≤ (e.encodeAll ds).T ∧
    (e.encodeAll ds).T + (e.encodeAll ds).range ≤ (e.T + e.range) * 256 ^ ((e.encodeAll ds).digits - e.digits) := by
  induction ds generalizing e with
  | nil => simp [Enc.encodeAll, h]
  | cons dn ds ih =>
    have hok : dn.ok := hp dn (by simp)
    obtain ⟨hmid, hr16, hdig, hT1, hT2⟩ := apply_spec e h dn hok
    obtain ⟨hrest, hdle, hnT, hnR, _⟩ := norm_nest _ hmid hr16
    have ih' := ih ((e.apply dn).norm) hrest (fun d hd => hp d (by simp [hd]))
    obtain ⟨hf, hfd, hfT, hfR⟩ := ih'
    have heq : e.encodeAll (dn :: ds) = ((e.apply dn).norm).encodeAll ds := rfl
    rw [heq]
    generalize ((e.apply dn).norm).encodeAll ds = f at *
    generalize e.apply dn = m at *
    refine ⟨hf, by omega, ?_, ?_⟩
    · -- e.T * 256^(f.d - e.d) ≤ f.T
      have hsplit : 256 ^ (f.digits - e.digits) = 256 ^ (m.norm.digits - m.digits) * 256 ^ (f.digits - m.norm.digits) := by
        rw [← Nat.pow_add]; congr 1; omega
      rw [hsplit]
      calc e.T * (256 ^ (m.norm.digits - m.digits) * 256 ^ (f.digits - m.norm.digits))
          ≤ m.T * (256 ^ (m.norm.digits - m.digits) * 256 ^ (f.digits - m.norm.digits)) :=
            Nat.mul_le_mul_right _ hT1
        _ = m.norm.T * 256 ^ (f.digits - m.norm.digits) := by rw [hnT]; ring
        _ ≤ f.T := hfT
    · have hsplit : 256 ^ (f.digits - e.digits) = 256 ^ (m.norm.digits - m.digits) * 256 ^ (f.digits - m.norm.digits) := by
        rw [← Nat.pow_add]; congr 1; omega
      rw [hsplit]
      calc f.T + f.range ≤ (m.norm.T + m.norm.range) * 256 ^ (f.digits - m.norm.digits) := hfR
        _ = (m.T + m.range) * (256 ^ (m.norm.digits - m.digits) * 256 ^ (f.digits - m.norm.digits)) := by
            rw [hnT, hnR]; ring
        _ ≤ (e.T + e.range) * (256 ^ (m.norm.digits - m.digits) * 256 ^ (f.digits - m.norm.digits)) :=
            Nat.mul_le_mul_right _ hT2

theorem shiftLow_dig (e : Enc) (h : e.Dig) : e.shiftLow.Dig := by
  unfold Enc.shiftLow Enc.Dig
  split
  · exact mem_emit _ _ _ _ (Nat.mod_lt _ (by omega)) (Nat.mod_lt _ (by omega)) h
  · exact h

theorem shiftLow_low (e : Enc) : e.shiftLow.low = (e.low % 2 ^ 24) * 256 := by
  unfold Enc.shiftLow; split <;> rfl

theorem close_spec (e : Enc) (h : e.Inv) (hd : e.Dig) :
    num e.close = e.T ∧ e.close.length + 1 = e.digits + 5 ∧ ∀ x ∈ e.close, x < 256 := by
  unfold Enc.close
  have i1 := shiftLow_inv e h
  have i2 := shiftLow_inv _ i1
  have i3 := shiftLow_inv _ i2
  have i4 := shiftLow_inv _ i3
  have t1 := shiftLow_T e h
  have t2 := shiftLow_T _ i1
  have t3 := shiftLow_T _ i2
  have t4 := shiftLow_T _ i3
  have t5 := shiftLow_T _ i4
  have l1 := shiftLow_low e
  have l2 := shiftLow_low e.shiftLow
  have l3 := shiftLow_low e.shiftLow.shiftLow
  have l4 := shiftLow_low e.shiftLow.shiftLow.shiftLow
  have hl4 : e.shiftLow.shiftLow.shiftLow.shiftLow.low = 0 := by
    have := h.low
    omega
  have d5 : e.shiftLow.shiftLow.shiftLow.shiftLow.shiftLow.digits = e.digits + 5 := by
    simp only [shiftLow_digits]
  have g5 : e.shiftLow.shiftLow.shiftLow.shiftLow.shiftLow.Dig :=
    shiftLow_dig _ (shiftLow_dig _ (shiftLow_dig _ (shiftLow_dig _ (shiftLow_dig _ hd))))
  generalize e.shiftLow.shiftLow.shiftLow.shiftLow = e4 at *
  -- the fifth shift, with low = 0, takes the emission branch
  have hT5 : e4.shiftLow.T = num e4.shiftLow.out * 256 * 2 ^ 32 ∧ e4.shiftLow.cacheLen = 1 := by
    unfold Enc.shiftLow
    rw [hl4]
    simp [Enc.T, pend]
  refine ⟨?_, ?_, g5⟩
  · have : e4.shiftLow.T = 256 * (256 * (256 * (256 * (256 * e.T)))) := by
      rw [t5, t4, t3, t2, t1]
    omega
  · have := hT5.2
    simp only [Enc.digits] at d5 ⊢
    omega

theorem foldl_acc (b : List Nat) (acc : Nat) :
    b.foldl (fun a d => a * 256 + d) acc = acc * 256 ^ b.length + num b := by
  induction b generalizing acc with
  | nil => simp [num]
  | cons x b ih =>
    simp only [List.foldl_cons, List.length_cons, num]
    rw [ih, ih (0 * 256 + x)]
    simp [Nat.pow_succ]; ring

theorem num_append (a b : List Nat) : num (a ++ b) = num a * 256 ^ b.length + num b := by
  unfold num
  rw [List.foldl_append, foldl_acc]
  rfl

theorem num_lt (l : List Nat) (h : ∀ x ∈ l, x < 256) : num l < 256 ^ l.length := by
  induction l with
  | nil => simp
  | cons x l ih =>
    have hx : x < 256 := h x (by simp)
    have := ih (fun y hy => h y (by simp [hy]))
    have e : num (x :: l) = x * 256 ^ l.length + num l := by
      have := num_append [x] l
      simpa [num] using this
    rw [e]
    simp only [List.length_cons, Nat.pow_succ]
    have : x * 256 ^ l.length ≤ 255 * 256 ^ l.length := Nat.mul_le_mul_right _ (by omega)
    omega

theorem step_dig (e : Enc) (dn : Decn) (h : e.Dig) : (e.step dn).Dig := by
  have h1 : (e.apply dn).Dig := by
    unfold Enc.apply Enc.Dig
    rcases dn.p with _ | p <;> simp only <;> (try split) <;> exact h
  unfold Enc.step Enc.norm
  split
  · exact shiftLow_dig _ h1
  · exact h1

theorem encodeAll_dig (e : Enc) (ds : List Decn) (h : e.Dig) : (e.encodeAll ds).Dig := by
  induction ds generalizing e with
  | nil => exact h
  | cons dn ds ih => exact ih _ (step_dig e dn h)

/-- sandwich: from  a*S ≤ b*S + r < c*S  with r < S conclude a ≤ b < c -/
theorem sandwich (a b c r S : Nat) (h1 : a * S ≤ b * S + r) (h2 : b * S + r < c * S) (hr : r < S) :
    a ≤ b ∧ b < c := by
  constructor
  · by_contra hlt
    have : b + 1 ≤ a := by omega
    have : (b + 1) * S ≤ a * S := Nat.mul_le_mul_right _ this
    have : (b + 1) * S = b * S + S := by ring
    omega
  · by_contra hge
    have : c ≤ b := by omega
    have : c * S ≤ b * S := Nat.mul_le_mul_right _ this
    omega

/-- the decoder takes the same branch as the encoder, given that the final value lies in the
    encoder's interval after the bit was applied -/
theorem apply_sync (e : Enc) (dn : Decn) (d : Dec) (N : Nat) (hrhi : e.range < 2 ^ 32)
    (hr : d.range = e.range) (hcode : N = e.T + d.code)
    (hlo : (e.apply dn).T ≤ N) (hhi : N < (e.apply dn).T + (e.apply dn).range) :
    ∃ dm : Dec, d.step dn.p = dm.norm.map (fun d' => (dn.b, d')) ∧
      dm.range = (e.apply dn).range ∧ N = (e.apply dn).T + dm.code ∧ dm.inp = d.inp := by
  unfold Enc.apply at *
  unfold Dec.step
  rcases hdp : dn.p with _ | p
  · simp only [hdp] at hlo hhi ⊢
    rcases hb : dn.b with _ | _
    · simp only [hb, Enc.T, Bool.false_eq_true, ↓reduceIte] at hlo hhi ⊢
      have hlt : d.code < d.range / 2 := by simp only [Enc.T] at hcode; omega
      have hs : 2 ^ 31 ≤ (2 ^ 32 + d.code - d.range / 2) % 2 ^ 32 := by rw [hr] at hlt ⊢; omega
      rw [if_pos hs]
      exact ⟨_, rfl, by simp [hr], by simp only [Enc.T] at hcode; omega, rfl⟩
    · simp only [hb, Enc.T, ↓reduceIte] at hlo hhi ⊢
      have hge : ¬ d.code < d.range / 2 := by simp only [Enc.T] at hcode; rw [hr]; omega
      have hlt2 : d.code < d.range / 2 + d.range / 2 := by simp only [Enc.T] at hcode; rw [hr]; omega
      have hc : (2 ^ 32 + d.code - d.range / 2) % 2 ^ 32 = d.code - d.range / 2 := by
        rw [hr] at hge hlt2 ⊢; omega
      have hs : ¬ 2 ^ 31 ≤ (2 ^ 32 + d.code - d.range / 2) % 2 ^ 32 := by
        rw [hc]; rw [hr] at hge hlt2 ⊢; omega
      rw [if_neg hs, hc]
      refine ⟨_, rfl, by simp [hr], ?_, rfl⟩
      simp only [Enc.T] at hcode
      rw [hr]; dsimp only; omega
  · simp only [hdp] at hlo hhi ⊢
    rcases hb : dn.b with _ | _
    · simp only [hb, Enc.T, Bool.false_eq_true, ↓reduceIte] at hlo hhi ⊢
      have hlt : d.code < d.range / 2048 * p := by simp only [Enc.T] at hcode; rw [hr]; omega
      rw [if_pos hlt]
      exact ⟨_, rfl, by simp [hr], by simp only [Enc.T] at hcode; omega, rfl⟩
    · simp only [hb, Enc.T, ↓reduceIte] at hlo hhi ⊢
      have hge : ¬ d.code < d.range / 2048 * p := by simp only [Enc.T] at hcode; rw [hr]; omega
      rw [if_neg hge]
      refine ⟨_, rfl, by simp [hr], ?_, rfl⟩
      simp only [Enc.T] at hcode
      rw [hr]; dsimp only; omega

theorem norm_sync (m : Enc) (hm : m.Inv) (dm : Dec) (pre inp : List Nat) (F : Nat)
    (hr : dm.range = m.range) (hcode : num pre = m.T + dm.code) (hinp : dm.inp = inp)
    (hlen : inp.length + m.digits = F) (hF : m.norm.digits ≤ F)
    (hc : dm.code < dm.range) (hx : ∀ x ∈ inp, x < 256) :
    ∃ d1 pre1 inp1, dm.norm = some d1 ∧ pre ++ inp = pre1 ++ inp1 ∧ d1.range = m.norm.range ∧
      num pre1 = m.norm.T + d1.code ∧ d1.inp = inp1 ∧ inp1.length + m.norm.digits = F := by
  unfold Enc.norm at hF ⊢
  unfold Dec.norm
  by_cases hlt : m.range < 2 ^ 24
  · rw [if_pos hlt] at hF ⊢
    rw [if_pos (by rw [hr]; exact hlt)]
    have hinv' : ({ m with range := m.range * 256 } : Enc).Inv := ⟨hm.cl, hm.cache, hm.low, hm.ff⟩
    have hd := shiftLow_digits { m with range := m.range * 256 }
    have hT := shiftLow_T _ hinv'
    have hR := shiftLow_range { m with range := m.range * 256 }
    have hdm : ({ m with range := m.range * 256 } : Enc).digits = m.digits := rfl
    have hTm : ({ m with range := m.range * 256 } : Enc).T = m.T := rfl
    rw [hdm] at hd
    rw [hTm] at hT
    rw [hd] at hF
    rcases inp with _ | ⟨x, r⟩
    · simp at hlen; omega
    · rw [hinp]
      have hx256 : x < 256 := hx x (by simp)
      have hmod : (dm.code * 256 + x) % 2 ^ 32 = dm.code * 256 + x := by
        apply Nat.mod_eq_of_lt; omega
      refine ⟨_, pre ++ [x], r, rfl, by simp, ?_, ?_, rfl, ?_⟩
      · rw [hR, hr]
      · rw [num_append_single, hT, hcode]; dsimp only; rw [hmod]; ring
      · rw [hd]; simp at hlen; omega
  · rw [if_neg hlt] at hF ⊢
    rw [if_neg (by rw [hr]; exact hlt)]
    exact ⟨dm, pre, inp, rfl, rfl, hr, hcode, hinp, hlen⟩

/-- one decision: the decoder recovers the bit and stays in sync, whatever follows -/
theorem step_sync (e : Enc) (he : e.Rest) (hdig : e.Dig) (dn : Decn) (hok : dn.ok)
    (ds : List Decn) (hp' : ∀ d ∈ ds, d.ok) (d : Dec) (pre inp : List Nat)
    (hs : Sync e d ((e.step dn).encodeAll ds).close pre inp ((e.step dn).encodeAll ds).digits) :
    ∃ d1 pre1 inp1, d.step dn.p = some (dn.b, d1) ∧
      Sync (e.step dn) d1 ((e.step dn).encodeAll ds).close pre1 inp1 ((e.step dn).encodeAll ds).digits := by
  obtain ⟨hW, hlen, hr, hcode, hinp⟩ := hs
  obtain ⟨hmid, hr16, hdig_m, hT1, hT2⟩ := apply_spec e he dn hok
  obtain ⟨hrest, hdle, hnT, hnR, _⟩ := norm_nest _ hmid hr16
  obtain ⟨hf, hfd, hfT, hfR⟩ := encodeAll_nest _ hrest ds hp'
  have hstep : e.step dn = (e.apply dn).norm := rfl
  rw [hstep] at hW hlen ⊢
  have hdig1 : ((e.apply dn).norm).Dig := step_dig e dn hdig
  have hdigf := encodeAll_dig _ ds hdig1
  obtain ⟨hnum, _, hall⟩ := close_spec _ hf.toInv hdigf
  rw [hW, num_append] at hnum
  have hinlt : num inp < 256 ^ inp.length :=
    num_lt inp (fun x hx => hall x (by rw [hW]; simp [hx]))
  have hS : 256 ^ inp.length =
      256 ^ ((e.apply dn).norm.digits - (e.apply dn).digits) *
      256 ^ ((((e.apply dn).norm).encodeAll ds).digits - (e.apply dn).norm.digits) := by
    rw [← Nat.pow_add]; congr 1; omega
  have hlo : (e.apply dn).T * 256 ^ inp.length ≤ num pre * 256 ^ inp.length + num inp := by
    rw [hnum, hS]
    calc (e.apply dn).T * (_ * _) = (e.apply dn).norm.T * _ := by rw [hnT]; ring
      _ ≤ _ := hfT
  have hhi : num pre * 256 ^ inp.length + num inp <
      ((e.apply dn).T + (e.apply dn).range) * 256 ^ inp.length := by
    rw [hnum, hS]
    have hpos : 0 < (((e.apply dn).norm).encodeAll ds).range := by have := hf.rlo; omega
    calc _ < _ + (((e.apply dn).norm).encodeAll ds).range := by omega
      _ ≤ ((e.apply dn).norm.T + (e.apply dn).norm.range) * _ := hfR
      _ = _ := by rw [hnT, hnR]; ring
  obtain ⟨hA, hB⟩ := sandwich _ _ _ _ _ hlo hhi hinlt
  obtain ⟨dm, hstepd, hdmr, hdmc, hdmi⟩ := apply_sync e dn d (num pre) he.rhi hr hcode hA hB
  obtain ⟨d1, pre1, inp1, hnorm, hsplit, hd1r, hd1c, hd1i, hlen1⟩ :=
    norm_sync (e.apply dn) hmid.toInv dm pre inp _ hdmr hdmc (hdmi.trans hinp)
      (by omega) hfd (by omega) (fun x hx => hall x (by rw [hW]; simp [hx]))
  refine ⟨d1, pre1, inp1, ?_, ⟨by rw [hW, hsplit], hlen1, hd1r, hd1c, hd1i⟩⟩
  simp only [hstepd, hnorm, Option.map_some]

/-- at the end of the decision list the decoder has consumed everything and `code = 0` -/
theorem end_sync (e : Enc) (he : e.Rest) (hdig : e.Dig) (d : Dec) (pre inp : List Nat)
    (hs : Sync e d e.close pre inp e.digits) : d.code = 0 ∧ d.inp = [] := by
  obtain ⟨hW, hlen, _, hcode, hinp⟩ := hs
  have : inp = [] := by
    have : inp.length = 0 := by omega
    exact List.length_eq_zero_iff.mp this
  subst this
  simp only [List.append_nil] at hW
  obtain ⟨hnum, _, _⟩ := close_spec e he.toInv hdig
  rw [hW] at hnum
  exact ⟨by omega, hinp⟩

theorem step_rest (e : Enc) (he : e.Rest) (dn : Decn) (hok : dn.ok) : (e.step dn).Rest := by
  obtain ⟨hmid, hr16, _⟩ := apply_spec e he dn hok
  exact (norm_nest _ hmid hr16).1

theorem roundtrip (ds : List Decn) : ∀ (e : Enc) (_he : e.Rest) (_hdig : e.Dig) (_hp : ∀ dn ∈ ds, dn.ok)
    (pre inp : List Nat) (d : Dec)
    (_hs : Sync e d (e.encodeAll ds).close pre inp (e.encodeAll ds).digits),
    ∃ d', d.decodeAll (ds.map (·.p)) = some (ds.map (·.b), d') ∧ d'.code = 0 ∧ d'.inp = [] := by
  induction ds with
  | nil =>
    intro e he hdig _ pre inp d hs
    obtain ⟨h1, h2⟩ := end_sync e he hdig d pre inp hs
    exact ⟨d, rfl, h1, h2⟩
  | cons dn ds ih =>
    intro e he hdig hp pre inp d hs
    have hok : dn.ok := hp dn (by simp)
    have hp' : ∀ d ∈ ds, d.ok := fun d hd => hp d (by simp [hd])
    obtain ⟨d1, pre1, inp1, hstep, hs1⟩ := step_sync e he hdig dn hok ds hp' d pre inp hs
    obtain ⟨d', hdec, hc0, hi0⟩ := ih _ (step_rest e he dn hok) (step_dig e dn hdig) hp' pre1 inp1 d1 hs1
    refine ⟨d', ?_, hc0, hi0⟩
    simp only [List.map_cons, Dec.decodeAll, hstep, hdec]

theorem init_rest : Enc.init.Rest := by
  refine ⟨⟨?_, ?_, ?_, ?_⟩, ?_, ?_, ?_, ?_⟩ <;> simp [Enc.init]

theorem init_T : Enc.init.T = 0 := by simp [Enc.init, Enc.T, pend]

/-- Top level: decoding the encoder's output recovers every bit, consumes exactly all bytes and
    ends with code = 0 (`possiblyAtEnd`). -/
theorem rc_roundtrip (ds : List Decn) (hp : ∀ dn ∈ ds, dn.ok) :
    ∃ d0 d', Dec.init (encode ds) = some d0 ∧
      d0.decodeAll (ds.map (·.p)) = some (ds.map (·.b), d') ∧ d'.code = 0 ∧ d'.inp = [] := by
  have hdig0 : Enc.init.Dig := by simp [Enc.Dig, Enc.init]
  obtain ⟨hf, hfd, hfT, hfR⟩ := encodeAll_nest _ init_rest ds hp
  have hdigf := encodeAll_dig _ ds hdig0
  obtain ⟨hnum, hlenW, hall⟩ := close_spec _ hf.toInv hdigf
  have hd0 : Enc.init.digits = 1 := by simp [Enc.digits, Enc.init]
  -- split the output into the first five bytes and the rest
  have hlen5 : 5 ≤ (encode ds).length := by unfold encode; omega
  obtain ⟨b0, b1, b2, b3, b4, r, hW⟩ : ∃ b0 b1 b2 b3 b4 r, encode ds = b0 :: b1 :: b2 :: b3 :: b4 :: r := by
    rcases h : encode ds with _ | ⟨b0, _ | ⟨b1, _ | ⟨b2, _ | ⟨b3, _ | ⟨b4, r⟩⟩⟩⟩⟩ <;>
      simp [h] at hlen5
    exact ⟨_, _, _, _, _, _, rfl⟩
  have hWs : encode ds = [b0, b1, b2, b3, b4] ++ r := by simp [hW]
  have hrlen : r.length + Enc.init.digits = (Enc.init.encodeAll ds).digits := by
    have : (encode ds).length = r.length + 5 := by simp [hW]
    unfold encode at this
    omega
  have hb : ∀ x ∈ [b0, b1, b2, b3, b4], x < 256 := by
    intro x hx
    apply hall x
    show x ∈ encode ds
    rw [hWs]; exact List.mem_append_left _ hx
  have hpre : num [b0, b1, b2, b3, b4] = (((b0 * 256 + b1) * 256 + b2) * 256 + b3) * 256 + b4 := by
    simp [num]
  have hrl : num r < 256 ^ r.length := num_lt r (fun x hx => hall x (by
    show x ∈ encode ds
    rw [hWs]; exact List.mem_append_right _ hx))
  -- value bound from nesting
  have hval : num [b0, b1, b2, b3, b4] * 256 ^ r.length + num r < (2 ^ 32 - 1) * 256 ^ r.length := by
    have h1 : num (encode ds) = num [b0, b1, b2, b3, b4] * 256 ^ r.length + num r := by
      rw [hWs, num_append]
    have h2 : num (encode ds) = (Enc.init.encodeAll ds).T := hnum
    have h3 : (Enc.init.encodeAll ds).digits - Enc.init.digits = r.length := by omega
    rw [init_T, h3] at hfR
    have : (Enc.init).range = 2 ^ 32 - 1 := rfl
    rw [this] at hfR
    have hpos : 0 < (Enc.init.encodeAll ds).range := by have := hf.rlo; omega
    simp only [Nat.zero_add] at hfR
    omega
  have hlt : num [b0, b1, b2, b3, b4] < 2 ^ 32 - 1 := by
    by_contra hge
    have : (2 ^ 32 - 1) * 256 ^ r.length ≤ num [b0, b1, b2, b3, b4] * 256 ^ r.length :=
      Nat.mul_le_mul_right _ (by omega)
    omega
  have hb0 : b0 = 0 := by
    rw [hpre] at hlt
    have := hb b1 (by simp); have := hb b2 (by simp); have := hb b3 (by simp); have := hb b4 (by simp)
    omega
  subst hb0
  let d0 : Dec := { range := 2 ^ 32 - 1, code := ((b1 * 256 + b2) * 256 + b3) * 256 + b4, inp := r }
  have hinit : Dec.init (encode ds) = some d0 := by
    rw [hW]
    simp only [Dec.init, ne_eq, not_true_eq_false, ↓reduceIte]
    rw [hpre] at hlt
    simp only [Nat.zero_mul, Nat.zero_add] at hlt
    rw [if_neg (by omega)]
  obtain ⟨d', hdec, hc, hi⟩ := roundtrip ds Enc.init init_rest hdig0 hp [0, b1, b2, b3, b4] r d0
    ⟨by unfold encode at hWs; exact hWs, hrlen, rfl, by rw [hpre, init_T]; simp [d0], rfl⟩
  exact ⟨d0, d', hinit, hdec, hc, hi⟩

theorem Tbl.get_upd (t : Tbl) (c v i : Nat) :
    (t.upd c v).get i = if i = c ∧ c < t.size then v else t.get i := by
  unfold Tbl.upd Tbl.get
  simp only [Array.getD_eq_getD_getElem?, Array.getElem?_setIfInBounds]
  by_cases h : c = i
  · subst h; by_cases h2 : c < t.size <;> simp [h2]
  · have : ¬ i = c := fun e => h e.symm
    simp [h, this]

theorem Tbl.upd_ok (t : Tbl) (ht : t.ok) (c v : Nat) (hv : POk v) : (t.upd c v).ok := by
  intro i; rw [Tbl.get_upd]; split
  · exact hv
  · exact ht i

theorem toDecns_ok (pm : PM) (π : Path) : ∀ (t : Tbl), t.ok → ∀ dn ∈ toDecns pm t π, dn.ok := by
  induction π with
  | nil => intro t _ dn h; simp [toDecns] at h
  | cons qb π ih =>
    intro t ht dn h
    obtain ⟨q, b⟩ := qb
    cases q with
    | adaptive c =>
      simp only [toDecns, List.mem_cons] at h
      rcases h with rfl | h
      · intro p hp; simp at hp; subst hp; exact ht c
      · exact ih _ (t.upd_ok ht c _ (pm.ok _ _ (ht c))) dn h
    | direct =>
      simp only [toDecns, List.mem_cons] at h
      rcases h with rfl | h
      · intro p hp; simp at hp
      · exact ih _ ht dn h

/-- Bridging theorem: if the (pure) decision tree `t` follows the encoder's path `π` to the answer
    `a`, then interpreting `t` with the range decoder over the range-encoded path returns `a`,
    and encoder/decoder stay in sync for whatever follows (`rest`). -/
theorem tree_sync {α : Type} (pm : PM) (t : DecTree α) :
    ∀ (π rest : Path) (a : α), t.follow π = some (a, rest) →
    ∀ (tbl : Tbl), tbl.ok → ∀ (e : Enc), e.Rest → e.Dig → ∀ (d : Dec) (pre inp : List Nat),
    Sync e d (e.encodeAll (toDecns pm tbl π)).close pre inp (e.encodeAll (toDecns pm tbl π)).digits →
    ∃ tbl' e' d1 pre1 inp1, decTree pm t tbl d = some (a, tbl', d1) ∧ tbl'.ok ∧ e'.Rest ∧ e'.Dig ∧
      e.encodeAll (toDecns pm tbl π) = e'.encodeAll (toDecns pm tbl' rest) ∧
      Sync e' d1 (e'.encodeAll (toDecns pm tbl' rest)).close pre1 inp1
        (e'.encodeAll (toDecns pm tbl' rest)).digits := by
  induction t with
  | ret a0 =>
    intro π rest a hf tbl htbl e he hdig d pre inp hs
    simp only [DecTree.follow, Option.some.injEq, Prod.mk.injEq] at hf
    obtain ⟨rfl, rfl⟩ := hf
    exact ⟨tbl, e, d, pre, inp, rfl, htbl, he, hdig, rfl, hs⟩
  | ask q k ih =>
    intro π rest a hf tbl htbl e he hdig d pre inp hs
    rcases π with _ | ⟨⟨q', b⟩, π'⟩
    · simp [DecTree.follow] at hf
    · simp only [DecTree.follow] at hf
      split at hf
      · rename_i hq
        subst hq
        cases q with
        | adaptive c =>
          have hdn : (⟨some (tbl.get c), b⟩ : Decn).ok := by
            intro p hp; simp at hp; subst hp; exact htbl c
          have htbl1 := tbl.upd_ok htbl c _ (pm.ok _ b (htbl c))
          have hp' := toDecns_ok pm π' _ htbl1
          simp only [toDecns] at hs ⊢
          have heq : ∀ l, e.encodeAll (⟨some (tbl.get c), b⟩ :: l) = (e.step ⟨some (tbl.get c), b⟩).encodeAll l :=
            fun _ => rfl
          rw [heq] at hs ⊢
          obtain ⟨d1, pre1, inp1, hstep, hs1⟩ := step_sync e he hdig _ hdn _ hp' d pre inp hs
          obtain ⟨tbl', e', d2, pre2, inp2, hdec, h1, h2, h3, h4, h5⟩ :=
            ih b π' rest a hf _ htbl1 _ (step_rest e he _ hdn) (step_dig e _ hdig) d1 pre1 inp1 hs1
          refine ⟨tbl', e', d2, pre2, inp2, ?_, h1, h2, h3, h4, h5⟩
          simp only [decTree]
          simp only at hstep
          rw [hstep]
          exact hdec
        | direct =>
          have hdn : (⟨none, b⟩ : Decn).ok := by intro p hp; simp at hp
          have hp' := toDecns_ok pm π' _ htbl
          simp only [toDecns] at hs ⊢
          have heq : ∀ l, e.encodeAll (⟨none, b⟩ :: l) = (e.step ⟨none, b⟩).encodeAll l :=
            fun _ => rfl
          rw [heq] at hs ⊢
          obtain ⟨d1, pre1, inp1, hstep, hs1⟩ := step_sync e he hdig _ hdn _ hp' d pre inp hs
          obtain ⟨tbl', e', d2, pre2, inp2, hdec, h1, h2, h3, h4, h5⟩ :=
            ih b π' rest a hf _ htbl _ (step_rest e he _ hdn) (step_dig e _ hdig) d1 pre1 inp1 hs1
          refine ⟨tbl', e', d2, pre2, inp2, ?_, h1, h2, h3, h4, h5⟩
          simp only [decTree]
          simp only at hstep
          rw [hstep]
          exact hdec
      · simp at hf

theorem follow_bind {α β : Type} (t : DecTree α) (f : α → DecTree β) :
    ∀ (π r : Path) (a : α), t.follow π = some (a, r) → (t.bind f).follow π = (f a).follow r := by
  induction t with
  | ret a0 =>
    intro π r a h
    simp only [DecTree.follow, Option.some.injEq, Prod.mk.injEq] at h
    obtain ⟨rfl, rfl⟩ := h
    rfl
  | ask q k ih =>
    intro π r a h
    rcases π with _ | ⟨⟨q', b⟩, π'⟩
    · simp [DecTree.follow] at h
    · simp only [DecTree.follow, DecTree.bind] at h ⊢
      split
      · rename_i hq
        rw [if_pos hq] at h
        exact ih b π' r a h
      · rename_i hq
        rw [if_neg hq] at h
        simp at h

theorem tree_mirror (base : Nat) : ∀ (n m v : Nat) (rest : Path),
    (treeDecGo base n m).follow (treeEncGo base n m v ++ rest) = some (m * 2 ^ n + v % 2 ^ n, rest) := by
  intro n
  induction n with
  | zero => intro m v rest; simp [treeDecGo, treeEncGo, DecTree.follow, Nat.mod_one]
  | succ n ih =>
    intro m v rest
    simp only [treeDecGo, treeEncGo, List.cons_append, DecTree.follow, ↓reduceIte,
      decide_eq_true_eq]
    rw [ih]
    congr 2
    have h1 : v % 2 ^ (n + 1) = (v / 2 ^ n % 2) * 2 ^ n + v % 2 ^ n := by
      rw [Nat.pow_succ, Nat.mod_mul]; ring
    rw [h1]
    by_cases hb : v / 2 ^ n % 2 = 1
    · simp [hb]; ring
    · have : v / 2 ^ n % 2 = 0 := by omega
      simp [this]; ring

end Rc
