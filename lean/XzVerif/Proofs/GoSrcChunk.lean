import XzVerif.Gen.GoSrc
import XzVerif.Gen.Tables
import XzVerif.Gen.Consts
import XzVerif.Model.Ring
import XzVerif.Proofs.GoSrcRing
/-
  Proofs.GoSrcChunk — the REGENERATED translation of lzma/header2.go (`chunkState.next`, `defaultChunkType`,
  `headerChunkType`, `headerLen`, `chunkHeader.UnmarshalBinary` with its size-field arithmetic, `uint16BE`) against the
  regenerated GRAPHS of the same functions (Gen/Tables.lean, obtained by CALLING them — the two regenerated artefacts must
  agree) and an explicit description of the header fields; and of more ring operations (`buffer.Buffered`, `addIndex`,
  `Discard`, `WriteByte`, `decoderDict.WriteByte`, `encoderDict.DictLen` / `Available` / `Buffered`) against Model/Ring.lean.
  Statements are fixed; only proofs may change.
-/
namespace GoSrcP
open GoSrc

/-- `chunkState.next` of the source on every (state, chunk type) of the graph: the same successor, or an error (errChunkType; errState
    for a state that is none of S L R U T) with the state unchanged -/
theorem chunkState_next_graph :
    Gen.chunkNext.all (fun r =>
      let res := chunkState_next (BitVec.ofNat 8 r.1) (BitVec.ofNat 8 r.2.1)
      match r.2.2 with
      | some s' => res == (Go.Err.nil, BitVec.ofNat 8 s')
      | none => res.1 != Go.Err.nil && res.2 == BitVec.ofNat 8 r.1) = true := by
  decide +kernel

theorem defaultChunkType_graph :
    Gen.defaultChunkType.all (fun r => (chunkState_defaultChunkType (BitVec.ofNat 8 r.1)).toNat == r.2) = true := by
  decide +kernel

theorem headerChunkType_graph :
    (List.range 256).map (fun b =>
      match headerChunkType (BitVec.ofNat 8 b) with
      | (c, Go.Err.nil) => some c.toNat
      | _ => none) = Gen.headerChunkType := by
  decide +kernel

theorem headerLen_graph :
    (List.range 8).map (fun c =>
      match headerLen (BitVec.ofNat 8 c) with
      | Go.Res.ok n => some n.toNat
      | _ => none) = Gen.headerLen := by
  decide +kernel

/-! ### helpers for `chunkHeader_Unmarshal_spec` -/

theorem chunk_hct_table : ∀ b : BitVec 8,
    (Gen.headerChunkType.getD b.toNat none = none ∧ headerChunkType b = (0#8, Go.Err.named "errHeaderByte")) ∨
    (∃ c, c < 7 ∧ Gen.headerChunkType.getD b.toNat none = some c ∧ headerChunkType b = (BitVec.ofNat 8 c, Go.Err.nil)) := by
  decide +kernel

theorem chunk_and_not224 : ∀ b : BitVec 8, (b &&& ~~~(224#8)).toNat = b.toNat % 32 := by
  decide +kernel

theorem chunk_u16_lemma (a b : BitVec 8) :
    ((BitVec.shiftLeft (BitVec.setWidth 16 a) 8) ||| (BitVec.setWidth 16 b)).toNat = a.toNat * 256 + b.toNat := by
  have ha := a.isLt; have hb := b.isLt
  simp only [BitVec.shiftLeft_eq, BitVec.toNat_or, BitVec.toNat_shiftLeft, BitVec.toNat_setWidth]
  rw [Nat.mod_eq_of_lt (by omega : a.toNat < 2 ^ 16), Nat.mod_eq_of_lt (by omega : b.toNat < 2 ^ 16)]
  rw [Nat.shiftLeft_eq, Nat.mod_eq_of_lt (by omega)]
  rw [← Nat.shiftLeft_eq, ← Nat.shiftLeft_add_eq_or_of_lt (by omega), Nat.shiftLeft_eq]

theorem chunk_unc_lemma (r : BitVec 16) (b : BitVec 8) :
    (BitVec.setWidth 32 r ||| (BitVec.shiftLeft (BitVec.setWidth 32 (b &&& ~~~(224#8))) 16)).toNat
      = r.toNat + (b.toNat % 32) * 65536 := by
  have hr := r.isLt; have hb := b.isLt
  have h32 := chunk_and_not224 b
  simp only [BitVec.shiftLeft_eq, BitVec.toNat_or, BitVec.toNat_shiftLeft, BitVec.toNat_setWidth, h32]
  rw [Nat.mod_eq_of_lt (by omega : r.toNat < 2 ^ 32), Nat.mod_eq_of_lt (by omega : b.toNat % 32 < 2 ^ 32)]
  rw [Nat.shiftLeft_eq, Nat.mod_eq_of_lt (by omega)]
  rw [← Nat.shiftLeft_eq, Nat.or_comm, ← Nat.shiftLeft_add_eq_or_of_lt (by omega), Nat.shiftLeft_eq]
  omega

theorem chunk_extract_getD (data : Array (BitVec 8)) (lo hi i : Nat) (h : hi ≤ data.size) (hi' : lo + i < hi) :
    (data.extract lo hi).getD i 0#8 = data.getD (lo + i) 0#8 := by
  simp only [Array.getD_eq_getD_getElem?, Array.getElem?_extract]
  rw [if_pos (by omega)]

theorem uint16BE_extract (data : Array (BitVec 8)) (lo : Nat) (h : lo + 2 ≤ data.size) :
    ∃ r, uint16BE (data.extract lo (lo + 2)) = Go.Res.ok r ∧
      r.toNat = (data.getD lo 0#8).toNat * 256 + (data.getD (lo + 1) 0#8).toNat := by
  have hs : (data.extract lo (lo + 2)).size = 2 := by rw [Array.size_extract]; omega
  unfold uint16BE
  have e0 : (0#64).toInt = 0 := rfl
  have e1 : (1#64).toInt = 1 := rfl
  simp only [e0, e1, hs]
  rw [if_neg (by decide), if_neg (by decide)]
  refine ⟨_, rfl, ?_⟩
  rw [chunk_u16_lemma, chunk_extract_getD _ _ _ _ h (by simp), chunk_extract_getD _ _ _ _ h (by simp)]
  rfl

/-- `chunkHeader.UnmarshalBinary`: the fields of a chunk header of exactly the right length — 16-bit big-endian sizes,
    bits 16…20 of the uncompressed size from the control byte, the properties byte of LRN / LRND chunks -/
theorem chunkHeader_Unmarshal_spec (h : T_chunkHeader) (data : Array (BitVec 8)) (hne : data.size ≠ 0)
    (hsz : data.size < 2 ^ 62) :
    let b0 := (data.getD 0 0#8).toNat
    let u16 (i : Nat) : Nat := (data.getD i 0#8).toNat * 256 + (data.getD (i + 1) 0#8).toNat
    match Gen.headerChunkType.getD b0 none with
    | none => chunkHeader_UnmarshalBinary h data = Go.Res.ok (Go.Err.named "errHeaderByte", h)
    | some c =>
      let n := (Gen.headerLen.getD c none).getD 0
      if data.size < n then chunkHeader_UnmarshalBinary h data = Go.Res.ok (Go.Err.new "incomplete data", h)
      else if n < data.size then chunkHeader_UnmarshalBinary h data = Go.Res.ok (Go.Err.new "invalid data length", h)
      else ∃ err h', chunkHeader_UnmarshalBinary h data = Go.Res.ok (err, h') ∧
        h'.ctype.toNat = c ∧
        h'.uncompressed.toNat = (if c = Gen.lzma_cEOS then 0 else u16 1 + (if c > Gen.lzma_cU then (b0 % 32) * 65536 else 0)) ∧
        h'.compressed.toNat = (if c > Gen.lzma_cU then u16 3 else 0) ∧
        (c > Gen.lzma_cLR → (h'.props, err) = PropertiesForCode (data.getD 5 0#8)) ∧
        (c ≤ Gen.lzma_cLR → err = Go.Err.nil) := by
  intro b0 u16
  have hnn : (BitVec.ofNat 64 data.size).toNat = data.size := by rw [BitVec.toNat_ofNat]; omega
  have hz : (BitVec.ofNat 64 data.size == 0#64) = false := by
    rw [beq_eq_false_iff_ne]; intro hc; rw [hc] at hnn; exact hne hnn.symm
  have e0 : (0#64).toInt = 0 := rfl
  have e5 : (5#64).toInt = 5 := rfl
  have e5' : Int.toNat 5 = 5 := rfl
  have hslt1 : ∀ n : BitVec 64, n.toNat < 2 ^ 62 → (BitVec.ofNat 64 data.size).slt n = decide (data.size < n.toNat) := by
    intro n hn
    rw [Bool.eq_iff_iff]
    simp only [BitVec.slt, BitVec.toInt_eq_toNat_cond, decide_eq_true_iff]; omega
  have hslt2 : ∀ n : BitVec 64, n.toNat < 2 ^ 62 → n.slt (BitVec.ofNat 64 data.size) = decide (n.toNat < data.size) := by
    intro n hn
    rw [Bool.eq_iff_iff]
    simp only [BitVec.slt, BitVec.toInt_eq_toNat_cond, decide_eq_true_iff]; omega
  generalize hR : chunkHeader_UnmarshalBinary h data = R
  unfold chunkHeader_UnmarshalBinary at hR
  simp only [hz, Bool.false_eq_true, if_false, e0, e5, Int.toNat_zero] at hR
  rw [if_neg (by omega)] at hR
  rcases chunk_hct_table (data.getD 0 0#8) with ⟨ht, hf⟩ | ⟨c, hc7, ht, hf⟩
  · simp only [hf] at hR
    simp only [b0, ht]; rw [← hR]; rfl
  · simp only [hf] at hR
    simp only [b0, ht]
    have hcs : c = 0 ∨ c = 1 ∨ c = 2 ∨ c = 3 ∨ c = 4 ∨ c = 5 ∨ c = 6 := by omega
    have hu1 : data.size ≥ 3 → ∃ r, uint16BE (data.extract 1 3) = Go.Res.ok r ∧ r.toNat = u16 1 :=
      fun hh => uint16BE_extract data 1 hh
    have hu3 : data.size ≥ 5 → ∃ r, uint16BE (data.extract 3 5) = Go.Res.ok r ∧ r.toNat = u16 3 :=
      fun hh => uint16BE_extract data 3 hh
    rcases hcs with rfl | rfl | rfl | rfl | rfl | rfl | rfl
    · have hl : headerLen (BitVec.ofNat 8 0) = Go.Res.ok 1#64 := by decide
      have hl2 : (Gen.headerLen.getD 0 none).getD 0 = 1 := by decide
      simp only [hl, hl2, Go.Res.bind_ok, hslt1 1#64 (by decide), hslt2 1#64 (by decide)] at hR ⊢
      simp only [bne_self_eq_false, Bool.false_eq_true, if_false, if_true, decide_eq_true_iff,
        BitVec.reduceToNat, BitVec.reduceBEq, BitVec.reduceULE] at hR
      by_cases h1 : data.size < 1
      · simp only [h1, if_true] at hR ⊢; exact hR.symm
      by_cases h2 : 1 < data.size
      · simp only [h1, h2, if_true, if_false] at hR ⊢; exact hR.symm
      simp only [h1, h2, if_false] at hR ⊢
      subst hR
      exact ⟨_, _, rfl, rfl, rfl, rfl, fun hh => absurd hh (by decide), fun _ => rfl⟩
    · have hl : headerLen (BitVec.ofNat 8 1) = Go.Res.ok 3#64 := by decide
      have hl2 : (Gen.headerLen.getD 1 none).getD 0 = 3 := by decide
      simp only [hl, hl2, Go.Res.bind_ok, hslt1 3#64 (by decide), hslt2 3#64 (by decide)] at hR ⊢
      simp only [bne_self_eq_false, Bool.false_eq_true, if_false, if_true, decide_eq_true_iff,
        BitVec.reduceToNat, BitVec.reduceBEq, BitVec.reduceULE] at hR
      by_cases h1 : data.size < 3
      · simp only [h1, if_true] at hR ⊢; exact hR.symm
      by_cases h2 : 3 < data.size
      · simp only [h1, h2, if_true, if_false] at hR ⊢; exact hR.symm
      simp only [h1, h2, if_false] at hR ⊢
      obtain ⟨r1, hr1, hr1v⟩ := hu1 (by omega)
      have hr1lt := r1.isLt
      have hsize : data.size = 3 := by omega
      simp only [hr1, Go.Res.bind_ok, Nat.reduceLT, or_self, if_false] at hR
      subst hR
      refine ⟨_, _, rfl, rfl, ?_, rfl, fun hh => absurd hh (by decide), fun _ => rfl⟩
      show (BitVec.setWidth 32 r1).toNat = u16 1 + 0
      have hm : r1.toNat % 2 ^ 32 = r1.toNat := Nat.mod_eq_of_lt (by omega)
      rw [BitVec.toNat_setWidth, hm, hr1v, Nat.add_zero]
    · have hl : headerLen (BitVec.ofNat 8 2) = Go.Res.ok 3#64 := by decide
      have hl2 : (Gen.headerLen.getD 2 none).getD 0 = 3 := by decide
      simp only [hl, hl2, Go.Res.bind_ok, hslt1 3#64 (by decide), hslt2 3#64 (by decide)] at hR ⊢
      simp only [bne_self_eq_false, Bool.false_eq_true, if_false, if_true, decide_eq_true_iff,
        BitVec.reduceToNat, BitVec.reduceBEq, BitVec.reduceULE] at hR
      by_cases h1 : data.size < 3
      · simp only [h1, if_true] at hR ⊢; exact hR.symm
      by_cases h2 : 3 < data.size
      · simp only [h1, h2, if_true, if_false] at hR ⊢; exact hR.symm
      simp only [h1, h2, if_false] at hR ⊢
      obtain ⟨r1, hr1, hr1v⟩ := hu1 (by omega)
      have hr1lt := r1.isLt
      have hsize : data.size = 3 := by omega
      simp only [hr1, Go.Res.bind_ok, Nat.reduceLT, or_self, if_false] at hR
      subst hR
      refine ⟨_, _, rfl, rfl, ?_, rfl, fun hh => absurd hh (by decide), fun _ => rfl⟩
      show (BitVec.setWidth 32 r1).toNat = u16 1 + 0
      have hm : r1.toNat % 2 ^ 32 = r1.toNat := Nat.mod_eq_of_lt (by omega)
      rw [BitVec.toNat_setWidth, hm, hr1v, Nat.add_zero]
    · have hl : headerLen (BitVec.ofNat 8 3) = Go.Res.ok 5#64 := by decide
      have hl2 : (Gen.headerLen.getD 3 none).getD 0 = 5 := by decide
      simp only [hl, hl2, Go.Res.bind_ok, hslt1 5#64 (by decide), hslt2 5#64 (by decide)] at hR ⊢
      simp only [bne_self_eq_false, Bool.false_eq_true, if_false, if_true, decide_eq_true_iff,
        BitVec.reduceToNat, BitVec.reduceBEq, BitVec.reduceULE] at hR
      by_cases h1 : data.size < 5
      · simp only [h1, if_true] at hR ⊢; exact hR.symm
      by_cases h2 : 5 < data.size
      · simp only [h1, h2, if_true, if_false] at hR ⊢; exact hR.symm
      simp only [h1, h2, if_false] at hR ⊢
      obtain ⟨r1, hr1, hr1v⟩ := hu1 (by omega)
      have hr1lt := r1.isLt
      obtain ⟨r3, hr3, hr3v⟩ := hu3 (by omega)
      have hsize : data.size = 5 := by omega
      simp only [hsize, hr1, hr3, Go.Res.bind_ok, Nat.reduceLT, or_self, if_false] at hR
      subst hR
      refine ⟨_, _, rfl, rfl, ?_, hr3v, fun hh => absurd hh (by decide), fun _ => rfl⟩
      show _ = u16 1 + b0 % 32 * 65536
      rw [chunk_unc_lemma, hr1v]
    · have hl : headerLen (BitVec.ofNat 8 4) = Go.Res.ok 5#64 := by decide
      have hl2 : (Gen.headerLen.getD 4 none).getD 0 = 5 := by decide
      simp only [hl, hl2, Go.Res.bind_ok, hslt1 5#64 (by decide), hslt2 5#64 (by decide)] at hR ⊢
      simp only [bne_self_eq_false, Bool.false_eq_true, if_false, if_true, decide_eq_true_iff,
        BitVec.reduceToNat, BitVec.reduceBEq, BitVec.reduceULE] at hR
      by_cases h1 : data.size < 5
      · simp only [h1, if_true] at hR ⊢; exact hR.symm
      by_cases h2 : 5 < data.size
      · simp only [h1, h2, if_true, if_false] at hR ⊢; exact hR.symm
      simp only [h1, h2, if_false] at hR ⊢
      obtain ⟨r1, hr1, hr1v⟩ := hu1 (by omega)
      have hr1lt := r1.isLt
      obtain ⟨r3, hr3, hr3v⟩ := hu3 (by omega)
      have hsize : data.size = 5 := by omega
      simp only [hsize, hr1, hr3, Go.Res.bind_ok, Nat.reduceLT, or_self, if_false] at hR
      subst hR
      refine ⟨_, _, rfl, rfl, ?_, hr3v, fun hh => absurd hh (by decide), fun _ => rfl⟩
      show _ = u16 1 + b0 % 32 * 65536
      rw [chunk_unc_lemma, hr1v]
    · have hl : headerLen (BitVec.ofNat 8 5) = Go.Res.ok 6#64 := by decide
      have hl2 : (Gen.headerLen.getD 5 none).getD 0 = 6 := by decide
      simp only [hl, hl2, Go.Res.bind_ok, hslt1 6#64 (by decide), hslt2 6#64 (by decide)] at hR ⊢
      simp only [bne_self_eq_false, Bool.false_eq_true, if_false, decide_eq_true_iff,
        BitVec.reduceToNat, BitVec.reduceBEq, BitVec.reduceULE, e5'] at hR
      by_cases h1 : data.size < 6
      · simp only [h1, if_true] at hR ⊢; exact hR.symm
      by_cases h2 : 6 < data.size
      · simp only [h1, h2, if_true, if_false] at hR ⊢; exact hR.symm
      simp only [h1, h2, if_false] at hR ⊢
      obtain ⟨r1, hr1, hr1v⟩ := hu1 (by omega)
      have hr1lt := r1.isLt
      obtain ⟨r3, hr3, hr3v⟩ := hu3 (by omega)
      have hsize : data.size = 6 := by omega
      simp only [hsize, hr1, hr3, Go.Res.bind_ok, Nat.reduceLT, Nat.reduceLeDiff, Int.reduceLT, or_self, if_false] at hR
      subst hR
      refine ⟨_, _, rfl, rfl, ?_, hr3v, fun _ => rfl, fun hh => absurd hh (by decide)⟩
      show _ = u16 1 + b0 % 32 * 65536
      rw [chunk_unc_lemma, hr1v]
    · have hl : headerLen (BitVec.ofNat 8 6) = Go.Res.ok 6#64 := by decide
      have hl2 : (Gen.headerLen.getD 6 none).getD 0 = 6 := by decide
      simp only [hl, hl2, Go.Res.bind_ok, hslt1 6#64 (by decide), hslt2 6#64 (by decide)] at hR ⊢
      simp only [bne_self_eq_false, Bool.false_eq_true, if_false, decide_eq_true_iff,
        BitVec.reduceToNat, BitVec.reduceBEq, BitVec.reduceULE, e5'] at hR
      by_cases h1 : data.size < 6
      · simp only [h1, if_true] at hR ⊢; exact hR.symm
      by_cases h2 : 6 < data.size
      · simp only [h1, h2, if_true, if_false] at hR ⊢; exact hR.symm
      simp only [h1, h2, if_false] at hR ⊢
      obtain ⟨r1, hr1, hr1v⟩ := hu1 (by omega)
      have hr1lt := r1.isLt
      obtain ⟨r3, hr3, hr3v⟩ := hu3 (by omega)
      have hsize : data.size = 6 := by omega
      simp only [hsize, hr1, hr3, Go.Res.bind_ok, Nat.reduceLT, Nat.reduceLeDiff, Int.reduceLT, or_self, if_false] at hR
      subst hR
      refine ⟨_, _, rfl, rfl, ?_, hr3v, fun _ => rfl, fun hh => absurd hh (by decide)⟩
      show _ = u16 1 + b0 % 32 * 65536
      rw [chunk_unc_lemma, hr1v]

/-! ### more of the ring -/

theorem buffer_Buffered_ring (g : T_buffer) (m : Ring.Buf) (h : BufRel g m) :
    (buffer_Buffered g).toNat = m.buffered := by
  obtain ⟨hs, -, hf, hr, hsm, hfi, hri⟩ := h
  have hnn : (BitVec.ofNat 64 g.data.size).toNat = m.data.size := by
    rw [BitVec.toNat_ofNat]; omega
  unfold buffer_Buffered Ring.Buf.buffered Ring.Buf.len
  generalize BitVec.ofNat 64 g.data.size = nb at *
  by_cases hc : m.rear ≤ m.front
  · have h1 : BitVec.slt (g.front - g.rear) 0#64 = false := by
      simp only [BitVec.slt, BitVec.toInt_eq_toNat_cond, decide_eq_false_iff_not]; bv_omega
    simp only [h1, if_pos hc, Bool.false_eq_true, if_false]
    bv_omega
  · have h1 : BitVec.slt (g.front - g.rear) 0#64 = true := by
      simp only [BitVec.slt, BitVec.toInt_eq_toNat_cond, decide_eq_true_iff]; bv_omega
    simp only [h1, if_neg hc, if_true]
    bv_omega

theorem chunk_addIndex_core (nb i n : BitVec 64) (sz : Nat) (hnn : nb.toNat = sz) (hsz : sz < 2 ^ 62)
    (hi : i.toNat < sz) (hn : n.toNat ≤ sz) :
    (let i := (i + (n - nb))
     if (BitVec.slt i (0#64)) then i + nb else i).toNat
    = if sz ≤ i.toNat + n.toNat then i.toNat + n.toNat - sz else i.toNat + n.toNat := by
  by_cases hc : sz ≤ i.toNat + n.toNat
  · have h1 : BitVec.slt (i + (n - nb)) 0#64 = false := by
      simp only [BitVec.slt, BitVec.toInt_eq_toNat_cond, decide_eq_false_iff_not]; bv_omega
    simp only [h1, if_pos hc, Bool.false_eq_true, if_false]
    bv_omega
  · have h1 : BitVec.slt (i + (n - nb)) 0#64 = true := by
      simp only [BitVec.slt, BitVec.toInt_eq_toNat_cond, decide_eq_true_iff]; bv_omega
    simp only [h1, if_neg hc, if_true]
    bv_omega

theorem buffer_addIndex_bv (g : T_buffer) (m : Ring.Buf) (h : BufRel g m) (i n : BitVec 64)
    (hi : i.toNat < m.data.size) (hn : n.toNat ≤ m.data.size) :
    (buffer_addIndex g i n).toNat = m.addIndex i.toNat n.toNat := by
  obtain ⟨hs, -, hf, hr, hsm, hfi, hri⟩ := h
  have hnn : (BitVec.ofNat 64 g.data.size).toNat = m.data.size := by
    rw [BitVec.toNat_ofNat]; omega
  unfold buffer_addIndex Ring.Buf.addIndex Ring.Buf.len
  exact chunk_addIndex_core _ i n _ hnn hsm hi hn

theorem buffer_addIndex_ring (g : T_buffer) (m : Ring.Buf) (h : BufRel g m) (i n : Nat)
    (hi : i < m.data.size) (hn : n ≤ m.data.size) :
    (buffer_addIndex g (BitVec.ofNat 64 i) (BitVec.ofNat 64 n)).toNat = m.addIndex i n := by
  have hsm := h.small
  have h1 : (BitVec.ofNat 64 i).toNat = i := by rw [BitVec.toNat_ofNat]; omega
  have h2 : (BitVec.ofNat 64 n).toNat = n := by rw [BitVec.toNat_ofNat]; omega
  have := buffer_addIndex_bv g m h (BitVec.ofNat 64 i) (BitVec.ofNat 64 n) (by omega) (by omega)
  rw [h1, h2] at this; exact this

theorem chunk_toInt_small (x : BitVec 64) (h : x.toNat < 2 ^ 62) : x.toInt = (x.toNat : Int) := by
  simp only [BitVec.toInt_eq_toNat_cond]; split <;> omega

theorem buffer_addIndex_sz (g : T_buffer) (sz : Nat) (hs : g.data.size = sz) (hsm : sz < 2 ^ 62) (i n : BitVec 64)
    (hi : i.toNat < sz) (hn : n.toNat ≤ sz) :
    (buffer_addIndex g i n).toNat = if sz ≤ i.toNat + n.toNat then i.toNat + n.toNat - sz else i.toNat + n.toNat := by
  have hnn : (BitVec.ofNat 64 g.data.size).toNat = sz := by
    rw [BitVec.toNat_ofNat]; omega
  unfold buffer_addIndex
  exact chunk_addIndex_core _ i n _ hnn hsm hi hn

theorem chunk_addIndex_lt (m : Ring.Buf) (i n : Nat) (hi : i < m.data.size) (hn : n ≤ m.data.size) :
    m.addIndex i n < m.data.size := by
  unfold Ring.Buf.addIndex Ring.Buf.len; split <;> omega

/-- `WriteByte`: ErrNoSpace exactly when the model refuses; otherwise the byte is stored at `front` and `front` advances -/
theorem buffer_WriteByte_ring (g : T_buffer) (m : Ring.Buf) (h : BufRel g m) (c : BitVec 8) :
    match m.writeByte (UInt8.ofNat c.toNat) with
    | none => buffer_WriteByte g c = Go.Res.ok (Go.Err.named "ErrNoSpace", g)
    | some m' => ∃ g', buffer_WriteByte g c = Go.Res.ok (Go.Err.nil, g') ∧ BufRel g' m' := by
  have hav := (buffer_Available_ring g m h).1
  have havle : m.available ≤ m.data.size - 1 := by
    have := h.fin; have := h.rin
    unfold Ring.Buf.available Ring.Buf.len; split <;> omega
  have hsm := h.small
  unfold buffer_WriteByte Ring.Buf.writeByte
  by_cases hc : m.available < 1
  · have h1 : BitVec.slt (buffer_Available g) 1#64 = true := by
      simp only [BitVec.slt, BitVec.toInt_eq_toNat_cond, decide_eq_true_iff]; bv_omega
    simp only [h1, if_pos hc, if_true]
  · have h1 : BitVec.slt (buffer_Available g) 1#64 = false := by
      simp only [BitVec.slt, BitVec.toInt_eq_toNat_cond, decide_eq_false_iff_not]; bv_omega
    have hf := h.front; have hfi := h.fin; have hs := h.size
    have h2 : g.front.toInt = (m.front : Int) := by rw [chunk_toInt_small _ (by omega), hf]
    simp only [h1, if_neg hc, Bool.false_eq_true, if_false, h2, Int.toNat_natCast]
    rw [if_neg (by omega)]
    refine ⟨_, rfl, ?_⟩
    have h1m : (1#64).toNat ≤ m.data.size := by simp; omega
    have hai := buffer_addIndex_bv g m h g.front 1#64 (by omega) h1m
    have hsz' : (m.data.set! m.front (UInt8.ofNat c.toNat)).size = m.data.size := Ring.size_set! _ _ _
    refine ⟨?_, ?_, ?_, h.rear, ?_, ?_, ?_⟩
    · simp only [Array.size_setIfInBounds, Ring.size_set!]; exact hs
    · intro i hi
      simp only [Ring.size_set!] at hi
      rw [Ring.get!_set! _ _ _ _ hfi]
      simp only [Array.getD_eq_getD_getElem?, Array.getElem?_setIfInBounds]
      by_cases hif : i = m.front
      · subst hif
        simp only [if_true, hs, hfi, Option.getD_some]
        simp
      · rw [if_neg (fun h' => hif h'.symm), if_neg hif]
        have := h.data i hi
        simpa only [Array.getD_eq_getD_getElem?] using this
    · show (buffer_addIndex _ g.front 1#64).toNat = m.addIndex m.front 1
      rw [buffer_addIndex_sz _ m.data.size (by simp only [Array.size_setIfInBounds]; exact hs) hsm _ _ (by omega) h1m, hf]
      rfl
    · simp only [hsz']; exact hsm
    · simp only [hsz']; exact chunk_addIndex_lt m _ _ hfi (by omega)
    · simp only [hsz']; exact h.rin

theorem decoderDict_WriteByte_ring (g : T_decoderDict) (m : Ring.DDict) (hb : BufRel g.buf m.buf)
    (hh : g.head.toNat = m.head) (hhl : m.head < 2 ^ 62) (c : BitVec 8) :
    match m.writeByte (UInt8.ofNat c.toNat) with
    | none => decoderDict_WriteByte g c = Go.Res.ok (Go.Err.named "ErrNoSpace", g)
    | some m' => ∃ g', decoderDict_WriteByte g c = Go.Res.ok (Go.Err.nil, g') ∧ BufRel g'.buf m'.buf
                 ∧ g'.head.toNat = m'.head := by
  have hw := buffer_WriteByte_ring g.buf m.buf hb c
  unfold decoderDict_WriteByte Ring.DDict.writeByte
  cases hm : m.buf.writeByte (UInt8.ofNat c.toNat) with
  | none =>
    rw [hm] at hw
    simp only [hw, Go.Res.bind_ok]
    rfl
  | some b =>
    rw [hm] at hw
    obtain ⟨g', hg', hrel⟩ := hw
    simp only [hg', Go.Res.bind_ok]
    refine ⟨_, rfl, hrel, ?_⟩
    show (g.head + 1#64).toNat = m.head + 1
    bv_omega

/-- `Discard(n)` for `0 ≤ n`: the count, whether less was discarded than requested (an error), the new `rear` -/
theorem buffer_Discard_ring (g : T_buffer) (m : Ring.Buf) (h : BufRel g m) (n : Nat) (hn : n < 2 ^ 62) :
    let r := buffer_Discard g (BitVec.ofNat 64 n)
    r.1.toNat = (m.discard n).2.1 ∧ (r.2.1 = Go.Err.nil ↔ (m.discard n).2.2 = false) ∧ BufRel r.2.2 (m.discard n).1 := by
  have hbf := buffer_Buffered_ring g m h
  have hsm := h.small
  have hble : m.buffered ≤ m.data.size - 1 := by
    have := h.fin; have := h.rin
    unfold Ring.Buf.buffered Ring.Buf.len; split <;> omega
  have hnn : (BitVec.ofNat 64 n).toNat = n := by rw [BitVec.toNat_ofNat]; omega
  generalize BitVec.ofNat 64 n = nb at *
  have h0 : BitVec.slt nb 0#64 = false := by
    simp only [BitVec.slt, BitVec.toInt_eq_toNat_cond, decide_eq_false_iff_not]; bv_omega
  have hrel : ∀ k : BitVec 64, k.toNat ≤ m.data.size - 1 →
      BufRel { g with rear := buffer_addIndex g g.rear k } { m with rear := m.addIndex m.rear k.toNat } := by
    intro k hk
    have := h.rin
    refine ⟨h.size, h.data, h.front, ?_, h.small, h.fin, chunk_addIndex_lt m _ _ h.rin (by omega)⟩
    show (buffer_addIndex g g.rear k).toNat = _
    rw [buffer_addIndex_bv g m h _ _ (by rw [h.rear]; exact h.rin) (by omega), h.rear]
  unfold buffer_Discard Ring.Buf.discard
  simp only [h0, Bool.false_eq_true, if_false]
  by_cases hc : m.buffered < n
  · have h1 : BitVec.slt (buffer_Buffered g) nb = true := by
      simp only [BitVec.slt, BitVec.toInt_eq_toNat_cond, decide_eq_true_iff]; bv_omega
    have hmin : min n m.buffered = m.buffered := by omega
    simp only [h1, if_true, hmin, hc, decide_true]
    refine ⟨hbf, by simp, ?_⟩
    have := hrel (buffer_Buffered g) (by omega)
    rw [hbf] at this; exact this
  · have h1 : BitVec.slt (buffer_Buffered g) nb = false := by
      simp only [BitVec.slt, BitVec.toInt_eq_toNat_cond, decide_eq_false_iff_not]; bv_omega
    have hmin : min n m.buffered = n := by omega
    simp only [h1, Bool.false_eq_true, if_false, hmin, hc, decide_false]
    refine ⟨hnn, by simp, ?_⟩
    have := hrel nb (by omega)
    rw [hnn] at this; exact this

theorem encoderDict_sizes_ring (g : T_encoderDict) (m : Ring.EDict) (hb : BufRel g.buf m.buf)
    (hh : g.head.toNat = m.head) (hhl : m.head < 2 ^ 62) (hc : g.capacity.toNat = m.capacity) (hcl : m.capacity < 2 ^ 62) :
    (encoderDict_DictLen g).toNat = m.dictLen ∧ (encoderDict_Buffered g).toNat = m.buffered
    ∧ (m.dictLen ≤ m.buf.available → (encoderDict_Available g).toNat = m.available) := by
  have hd : (encoderDict_DictLen g).toNat = m.dictLen := by
    unfold encoderDict_DictLen Ring.EDict.dictLen
    by_cases h : m.head < m.capacity
    · have h1 : BitVec.slt g.head g.capacity = true := by
        simp only [BitVec.slt, BitVec.toInt_eq_toNat_cond, decide_eq_true_iff]; bv_omega
      simp only [h1, if_true, if_pos h, hh]
    · have h1 : BitVec.slt g.head g.capacity = false := by
        simp only [BitVec.slt, BitVec.toInt_eq_toNat_cond, decide_eq_false_iff_not]; bv_omega
      simp only [h1, Bool.false_eq_true, if_false, if_neg h, hc]
  refine ⟨hd, buffer_Buffered_ring _ _ hb, ?_⟩
  intro hle
  have hav := (buffer_Available_ring _ _ hb).1
  unfold encoderDict_Available Ring.EDict.available
  rw [BitVec.toNat_sub_of_le (by rw [BitVec.le_def, hd, hav]; exact hle), hd, hav]

end GoSrcP
