import XzVerif.Model.BinTree
import XzVerif.Proofs.HashTable
import XzVerif.Proofs.BinTreeLemmas

/-!
  The complete BinaryTree match finder model (`BT.BT4`: binary search tree + ring-level selection, lazily
  synchronised) satisfies `W2.MatcherInv`: every Writer2 theorem holds for it without any hypothesis about the
  match finder.  No invariant of the tree is needed: every candidate distance is at least 3 by construction of
  `Tree.distance`, and the selection verifies every candidate against the ring.
-/
namespace BT
open Ring W2 Sel

/-- the match finder state is in sync with an earlier stage `(h0, l0)` of the dictionary that `(hist, look)` extends -/
def Synced (c : W2.Cfg) (s : St) (hist look : ByteArray) : Prop :=
  ∃ h0 l0 : ByteArray,
    s.d.Rel ⟨(h0 ++ l0).data.toList, h0.size⟩ c.dictCap c.bufSize ∧
    s.wlen = (h0 ++ l0).size ∧ s.rlen = h0.size ∧
    h0.size ≤ hist.size ∧ (h0 ++ l0).size ≤ (hist ++ look).size ∧
    (hist ++ look).extract 0 (h0 ++ l0).size = h0 ++ l0 ∧
    l0.size + min h0.size c.dictCap ≤ c.dictCap + c.bufSize

/-! ## helper lemma -/

/-- after `sync` the state is in sync with every split `(hist', look')` of `hist ++ look` behind `hist` -/
theorem synced_of_sync (c : W2.Cfg) (s : St) (hist look hist' look' : ByteArray) (h : Synced c s hist look)
    (hroom : look.size + min hist.size c.dictCap ≤ c.dictCap + c.bufSize)
    (he : hist' ++ look' = hist ++ look) (hs : hist.size ≤ hist'.size) :
    Synced c (s.sync hist look) hist' look' := by
  obtain ⟨h0, l0, hrel, hw, hrl, hle1, hle2, hext, hroom0⟩ := h
  refine ⟨hist, look, ring_sync c.dictCap c.bufSize s.d s.wlen hist look h0 l0 hrel hw hle2 hext hroom, ?_, rfl,
    hs, by rw [he], ?_, hroom⟩
  · rw [ByteArray.size_append]; rfl
  · rw [he, HT.extract_self]

/-! ## statements to prove (do not change them) -/

theorem synced_new (c : W2.Cfg) : Synced c (St.new c.dictCap c.bufSize) ByteArray.empty ByteArray.empty := by
  refine ⟨ByteArray.empty, ByteArray.empty, ⟨?_, rfl, rfl, ?_⟩, rfl, rfl, Nat.le_refl _, Nat.le_refl _, ?_, ?_⟩
  · exact new_rel (c.dictCap + c.bufSize)
  · show 0 + min 0 c.dictCap ≤ _
    omega
  · rfl
  · show 0 + min 0 c.dictCap ≤ _
    omega

/-- every candidate the tree iterators deliver is a distance of at least 3 -/
theorem cands_pos (t : Tree) (data : ByteArray) :
    (∀ x ∈ (t.cands data).2.1, 1 ≤ x) ∧ (∀ x ∈ (t.cands data).2.2, 1 ≤ x) := by
  exact cands_pos' t data

theorem sync_rel (c : W2.Cfg) (s : St) (hist look : ByteArray) (h : Synced c s hist look)
    (hroom : look.size + min hist.size c.dictCap ≤ c.dictCap + c.bufSize) :
    (s.sync hist look).d.Rel ⟨(hist ++ look).data.toList, hist.size⟩ c.dictCap c.bufSize ∧
    (s.sync hist look).wlen = (hist ++ look).size ∧ (s.sync hist look).rlen = hist.size := by
  obtain ⟨h0, l0, hrel, hw, hrl, hle1, hle2, hext, hroom0⟩ := h
  refine ⟨ring_sync c.dictCap c.bufSize s.d s.wlen hist look h0 l0 hrel hw hle2 hext hroom, ?_, rfl⟩
  rw [ByteArray.size_append]; rfl

/-- **BinaryTree is an applicable, self-synchronising match finder.** -/
theorem bt4_matcherInv (c : W2.Cfg) : W2.MatcherInv c BT4 (Synced c) := by
  refine ⟨?_, ?_, ?_, ?_⟩
  · intro s hist look st hI h1 hroom
    obtain ⟨r1, _, _⟩ := sync_rel c s hist look hI hroom
    have hbuf : hist.size < (hist ++ look).data.toList.length := by
      rw [length_toList, ByteArray.size_append]; omega
    obtain ⟨hca, hcb⟩ := cands_pos (s.sync hist look).tree ((s.sync hist look).d.buf.peek 273)
    have hnp := nextOpBT_no_panic (s.sync hist look).d _ _ _ r1 hbuf
      ((s.sync hist look).tree.cands ((s.sync hist look).d.buf.peek 273)).1
      ((s.sync hist look).tree.cands ((s.sync hist look).d.buf.peek 273)).2.1
      ((s.sync hist look).tree.cands ((s.sync hist look).d.buf.peek 273)).2.2 st.r0
    simp only [BT4]
    split
    · rename_i g hgo
      have hok := nextOpBT_sound _ _ _ _ r1 _ _ _ _ g hca hcb hgo
      apply opOkAbs_goOpOk ⟨(hist ++ look).data.toList, hist.size⟩ c hist look st g
      · simp only; rw [HT.toList_append, ← length_toList, List.take_left]
      · simp only; rw [HT.toList_append, ← length_toList, List.drop_left]
      · exact Nat.le_of_lt hbuf
      · exact hok
    · rename_i hp; exact absurd hp hnp
  · intro s hist look st hI h1 hroom
    rw [next_snd]
    apply synced_of_sync c s hist look _ _ hI hroom
    · rw [ByteArray.append_assoc, HT.split_look]
    · rw [ByteArray.size_append]; omega
  · intro s hist look st hI h1 hroom
    rw [next_snd]
    exact synced_of_sync c s hist look _ _ hI hroom rfl (Nat.le_refl _)
  · intro s hist look x hI hroom
    obtain ⟨h0, l0, hrel, hw, hrl, hle1, hle2, hext, hroom0⟩ := hI
    refine ⟨h0, l0, hrel, hw, hrl, hle1, ?_, ?_, hroom0⟩
    · simp only [ByteArray.size_append] at hle2 ⊢; omega
    · refine Eq.trans ?_ hext
      apply HT.ba_ext
      rw [HT.toList_extract0, HT.toList_extract0, ← ByteArray.append_assoc, HT.toList_append (hist ++ look) x,
        List.take_append_of_le_length (by rw [length_toList]; exact hle2)]

end BT

#print axioms BT.synced_new
#print axioms BT.cands_pos
#print axioms BT.sync_rel
#print axioms BT.bt4_matcherInv
