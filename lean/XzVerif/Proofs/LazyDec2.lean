import XzVerif.Model.LazyDec2
import XzVerif.Proofs.LazyDec
import XzVerif.Proofs.LazyDec2Lemmas
/-!
  The lazy LZMA2 reader (Model/LazyDec2.lean: chunk by chunk, ring level, stored error) refines the batch LZMA2 reader
  (Codec/Lzma2.lean `decode false`, the Go reader's rules), for EVERY input and EVERY schedule of buffer lengths.
-/
namespace LazyDec2
open Lzma Rc Ring LazyDec

/-- the batch reader on the same input with the same dictionary capacity -/
def batch (cfgCap : Nat) (inp : ByteArray) : Lzma2.RState × Status :=
  Lzma2.decode false (effCap cfgCap) inp 0 ByteArray.empty

/-- the schedule facts against `batch` -/
theorem schedule_batch (cfgCap : Nat) (hcap : 4096 ≤ effCap cfgCap) (inp : ByteArray) (lens : List Nat) :
    SeqPost2 0 (batch cfgCap inp) ByteArray.empty lens (readSeq (newReader2 cfgCap inp) lens) :=
  schedule2_spec cfgCap hcap inp 0 ByteArray.empty lens

/-- T1. the ring never lacks space, no length is out of range, nothing panics -/
theorem never_noSpace (cfgCap : Nat) (hcap : 4096 ≤ effCap cfgCap) (inp : ByteArray) (lens : List Nat) :
    ∀ r ∈ readSeq (newReader2 cfgCap inp) lens, r.2 ≠ .err .noSpace ∧ r.2 ≠ .err .lenRange ∧ r.2 ≠ .err .panic := by
  exact (schedule_batch cfgCap hcap inp lens).1

/-- T2. Read contract per call -/
theorem call_sizes (cfgCap : Nat) (hcap : 4096 ≤ effCap cfgCap) (inp : ByteArray) (lens : List Nat) :
    (readSeq (newReader2 cfgCap inp) lens).length ≤ lens.length ∧
    ∀ i (hi : i < (readSeq (newReader2 cfgCap inp) lens).length),
      ((readSeq (newReader2 cfgCap inp) lens)[i]).1.size ≤ lens[i]! ∧
      (((readSeq (newReader2 cfgCap inp) lens)[i]).2 = .ok → ((readSeq (newReader2 cfgCap inp) lens)[i]).1.size = lens[i]!) := by
  exact (schedule_batch cfgCap hcap inp lens).2.1

/-- T3. the delivered bytes are a prefix of what the batch reader decodes -/
theorem delivered_prefix (cfgCap : Nat) (hcap : 4096 ≤ effCap cfgCap) (inp : ByteArray) (lens : List Nat)
    (hfuel : (batch cfgCap inp).2 ≠ .err "fuel exhausted") :
    let out := (batch cfgCap inp).1.h.out
    (delivered (readSeq (newReader2 cfgCap inp) lens)).size ≤ out.size ∧
    delivered (readSeq (newReader2 cfgCap inp) lens) = out.extract 0 (delivered (readSeq (newReader2 cfgCap inp) lens)).size := by
  have hs := schedule_batch cfgCap hcap inp lens
  have hp := hs.2.2.1 hfuel
  rw [ByteArray.empty_append, List.drop_zero] at hp
  have hlen := congrArg List.length hp
  rw [length_toList, List.length_take, length_toList] at hlen
  show (delivered (readSeq (newReader2 cfgCap inp) lens)).size ≤ (batch cfgCap inp).1.h.out.size ∧
    delivered (readSeq (newReader2 cfgCap inp) lens) =
      (batch cfgCap inp).1.h.out.extract 0 (delivered (readSeq (newReader2 cfgCap inp) lens)).size
  refine ⟨by omega, ?_⟩
  apply ba_ext
  rw [LazyDec.toList_extract0]; exact hp

/-- T4. a schedule that ends with io.EOF has delivered everything, and the batch reader ends cleanly -/
theorem eof_complete (cfgCap : Nat) (hcap : 4096 ≤ effCap cfgCap) (inp : ByteArray) (lens : List Nat)
    (hfuel : (batch cfgCap inp).2 ≠ .err "fuel exhausted")
    (he : lastStat (readSeq (newReader2 cfgCap inp) lens) = .eof) :
    (batch cfgCap inp).2 = .eof ∧ delivered (readSeq (newReader2 cfgCap inp) lens) = (batch cfgCap inp).1.h.out := by
  have hs := schedule_batch cfgCap hcap inp lens
  obtain ⟨a1, a2⟩ := hs.2.2.2.1 he hfuel
  rw [ByteArray.empty_append, List.drop_zero] at a2
  exact ⟨a1, ba_ext a2⟩

/-- T5. a schedule that ends with an error: the batch reader fails with an error of the same class -/
theorem err_agrees (cfgCap : Nat) (hcap : 4096 ≤ effCap cfgCap) (inp : ByteArray) (lens : List Nat)
    (hfuel : (batch cfgCap inp).2 ≠ .err "fuel exhausted")
    (e : Err) (he : lastStat (readSeq (newReader2 cfgCap inp) lens) = .err e) :
    (batch cfgCap inp).2.cls = (statusOf e).cls := by
  have hs := schedule_batch cfgCap hcap inp lens
  exact hs.2.2.2.2.1 e he hfuel

/-- T6. progress: when the batch reader ends cleanly, a schedule asking for more than the content reaches io.EOF -/
theorem reaches_eof (cfgCap : Nat) (hcap : 4096 ≤ effCap cfgCap) (inp : ByteArray) (lens : List Nat)
    (hclean : (batch cfgCap inp).2 = .eof) (hsum : (batch cfgCap inp).1.h.out.size < lens.sum) :
    lastStat (readSeq (newReader2 cfgCap inp) lens) = .eof := by
  have hs := schedule_batch cfgCap hcap inp lens
  have hK : KB (batch cfgCap inp) := by rw [KB, hclean]; intro hh; cases hh
  have hp := hs.2.2.1 hK
  rw [ByteArray.empty_append, List.drop_zero] at hp
  have hlen := congrArg List.length hp
  rw [length_toList, List.length_take, length_toList] at hlen
  cases hl : lastStat (readSeq (newReader2 cfgCap inp) lens) with
  | eof => rfl
  | ok =>
    have := hs.2.2.2.2.2 hl
    omega
  | err e =>
    have := hs.2.2.2.2.1 e hl hK
    rw [hclean] at this
    cases e <;> simp [Status.cls, statusOf] at this

end LazyDec2

#print axioms LazyDec2.never_noSpace
#print axioms LazyDec2.call_sizes
#print axioms LazyDec2.delivered_prefix
#print axioms LazyDec2.eof_complete
#print axioms LazyDec2.err_agrees
#print axioms LazyDec2.reaches_eof
