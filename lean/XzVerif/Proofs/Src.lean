import XzVerif.Model.Src
import XzVerif.Proofs.SrcLemmas
/-
  Proofs.Src — the source access layer (Model/Src.lean) is insensitive to fragmentation: `io.ReadFull`,
  `ByteReader.ReadByte`, `io.CopyN` and the doubly limited copy, run as the Go standard library runs them on a source
  that hands out its bytes in ANY fragmentation (`frag`), reports its end alone or together with the last bytes
  (`together`) and ends with io.EOF or an error of its own (`ends`), return exactly what the reader models assume
  (`view…`: a function of the bytes, the position and `ends` only).  One exception, stated: the doubly limited copy
  when a FAILING source hands out its error together with the last bytes of the limited region.

  STATEMENTS ARE FIXED.  If one is false, report the counterexample instead of changing it.
-/
namespace Src

/-- what an access leaves unchanged, and that the position only moves forward inside the data -/
def Same (s s' : S) : Prop :=
  s'.data = s.data ∧ s'.ends = s.ends ∧ s'.frag = s.frag ∧ s'.together = s.together ∧
  s.pos ≤ s'.pos ∧ s'.pos ≤ s'.data.size

theorem readFull_view (s : S) (n : Nat) (h : s.pos ≤ s.data.size) :
    ((readFull s n).1.pos, (readFull s n).2.1, (readFull s n).2.2) = viewReadFull s.data s.pos s.ends n ∧
    Same s (readFull s n).1 := by
  have hrf : readFull s n = readFullLoop n (n + 1) s ByteArray.empty := rfl
  obtain ⟨h1, h2⟩ := readFullLoop_spec n (n + 1) s ByteArray.empty _ h
    (by rw [ByteArray.size_empty]; omega) rfl
  rw [← hrf] at h1 h2
  rw [ByteArray.size_empty, Nat.sub_zero] at h2
  refine ⟨?_, h1⟩
  unfold viewReadFull
  dsimp only
  by_cases hfit : n ≤ s.data.size - s.pos
  · rw [if_pos hfit] at h2 ⊢
    obtain ⟨a, b, c⟩ := h2
    rw [a, b, c, ByteArray.empty_append]
  · rw [if_neg hfit] at h2 ⊢
    obtain ⟨a, b, c⟩ := h2
    refine Prod.ext a (Prod.ext ?_ ?_)
    · show (readFull s n).2.1 = _
      rw [b, ByteArray.empty_append]
    · show (readFull s n).2.2 = _
      rw [c]
      cases s.ends with
      | eof =>
        dsimp only
        rw [Nat.zero_add]
      | fail => rfl

theorem readByte_view (s : S) (h : s.pos ≤ s.data.size) :
    ((readByte s).1.pos, (readByte s).2.1, (readByte s).2.2) = viewReadByte s.data s.pos s.ends ∧
    Same s (readByte s).1 := by
  obtain ⟨k, hk1, hk2, hk3, hpos, hsame, hchunk, hst⟩ := read_spec s 1 h
  unfold readByte viewReadByte
  rcases hrd : s.read 1 with ⟨s', chunk, st⟩
  rw [hrd] at hpos hsame hchunk hst
  dsimp only at hpos hsame hchunk hst ⊢
  by_cases hlt : s.pos < s.data.size
  · have hk : k = 1 := by have := hk3 (by omega) hlt; omega
    subst hk
    have hcs : chunk.size = 1 := by rw [hchunk, ext_size _ _ _ hk2]; omega
    rw [if_neg (by omega), if_pos hlt]
    dsimp only
    refine ⟨?_, hsame⟩
    rw [hpos, hchunk, get!_extract _ _ hlt]
  · have hk : k = 0 := by omega
    subst hk
    have hcs : chunk.size = 0 := by rw [hchunk, ext_size _ _ _ hk2]; omega
    rw [if_pos (by omega), if_neg hlt]
    dsimp only
    refine ⟨?_, hsame⟩
    rw [if_pos ⟨by omega, Or.inl (by omega)⟩] at hst
    have hne := endSt_ne_ok s
    rw [← hst] at hne
    rw [if_neg hne, hpos, hst, Nat.add_zero]
    unfold S.endSt
    cases s.ends <;> rfl

theorem copyN_view (s : S) (n : Nat) (h : s.pos ≤ s.data.size) :
    ((copyN s n).1.pos, (copyN s n).2.1, (copyN s n).2.2) = viewCopyN s.data s.pos s.ends n ∧
    Same s (copyN s n).1 := by
  unfold copyN
  dsimp only
  generalize hB : (if n < 32 * 1024 then (if n < 1 then 1 else n) else 32 * 1024) = B
  have hB1 : 1 ≤ B := by
    rw [← hB]; split
    · split <;> omega
    · omega
  rcases hr : copyLoop B (n + 2) s n ByteArray.empty with ⟨s', N', acc, st⟩
  obtain ⟨h1, h2⟩ := copyLoop_spec B hB1 (n + 2) s n ByteArray.empty _ h (by omega) hr
  dsimp only at h1 h2 ⊢
  unfold viewCopyN
  dsimp only
  by_cases hfit : n ≤ s.data.size - s.pos
  · rw [if_pos hfit] at h2 ⊢
    obtain ⟨a, b⟩ := h2
    rw [ByteArray.empty_append] at b
    have hsz : acc.size = n := by rw [b, ext_size _ _ _ (by omega)]; omega
    rw [if_pos hsz]
    dsimp only
    exact ⟨by rw [a, b], h1⟩
  · rw [if_neg hfit] at h2 ⊢
    obtain ⟨a, b, c⟩ := h2
    rw [ByteArray.empty_append] at b
    have hsz : acc.size ≠ n := by rw [b, ext_size _ _ _ (Nat.le_refl _)]; omega
    rw [if_neg hsz]
    cases he : s.ends with
    | eof =>
      rw [he] at c
      dsimp only at c
      subst c
      rw [if_pos rfl]
      dsimp only
      exact ⟨by rw [a, b], h1⟩
    | fail =>
      rw [he] at c
      dsimp only at c
      subst c
      rw [if_neg (by simp)]
      dsimp only
      exact ⟨by rw [a, b], h1⟩

/-- the one configuration in which the fragmentation shows: a failing source, its error delivered together with its
    last bytes, and those are exactly the last bytes of the inner limit while the outer limit asks for more -/
def LimException (s : S) (N want : Nat) : Prop :=
  s.ends = .fail ∧ s.together = true ∧ 0 < N ∧ N = s.avail ∧ N < want

theorem copyLim_view (s : S) (N want : Nat) (h : s.pos ≤ s.data.size) (hx : ¬ LimException s N want) :
    ((copyLim s N want).1.pos, (copyLim s N want).2.1, (copyLim s N want).2.2.1, (copyLim s N want).2.2.2) =
      viewCopyLim s.data s.pos s.ends N want ∧
    Same s (copyLim s N want).1 := by
  unfold copyLim
  dsimp only
  generalize hB : (if want < 32 * 1024 then (if want < 1 then 1 else want) else 32 * 1024) = B
  have hB1 : 1 ≤ B := by
    rw [← hB]; split
    · split <;> omega
    · omega
  rcases hr : copyLim.loop B (want + 2) s N want ByteArray.empty with ⟨s', N', acc, st⟩
  obtain ⟨h1, h2, h3, h4, h5⟩ := limLoop_spec B hB1 (want + 2) s N want ByteArray.empty _ h (by omega) hr
  dsimp only at h1 h2 h3 h4 h5 ⊢
  rw [ByteArray.empty_append] at h4
  have hsz : acc.size = min want (min N (s.data.size - s.pos)) := by
    rw [h4, ext_size _ _ _ (by omega)]; omega
  have hx' : ¬ Exc s N want := hx
  unfold viewCopyLim
  dsimp only
  by_cases hK : min want (min N (s.data.size - s.pos)) = want
  · rw [if_pos (by rw [hsz]; exact hK), if_pos hK]
    dsimp only
    exact ⟨by rw [h2, h3, h4], h1⟩
  · rw [if_neg (by rw [hsz]; exact hK), if_neg hK]
    have hst := h5 (by omega)
    rw [if_neg hx'] at hst
    by_cases hy : s.ends = .fail ∧ s.data.size - s.pos < min want N
    · rw [if_pos hy] at hst ⊢
      subst hst
      rw [if_neg (by simp)]
      dsimp only
      exact ⟨by rw [h2, h3, h4], h1⟩
    · rw [if_neg hy] at hst ⊢
      subst hst
      rw [if_pos rfl]
      dsimp only
      exact ⟨by rw [h2, h3, h4], h1⟩

/-- in the exceptional configuration the bytes are the same and the status is the source's error (never a clean one) -/
theorem copyLim_exception (s : S) (N want : Nat) (h : s.pos ≤ s.data.size) (hx : LimException s N want) :
    ((copyLim s N want).1.pos, (copyLim s N want).2.1, (copyLim s N want).2.2.1, (copyLim s N want).2.2.2) =
      (s.pos + N, 0, s.data.extract s.pos (s.pos + N), St.src) ∧
    Same s (copyLim s N want).1 := by
  unfold copyLim
  dsimp only
  generalize hB : (if want < 32 * 1024 then (if want < 1 then 1 else want) else 32 * 1024) = B
  have hB1 : 1 ≤ B := by
    rw [← hB]; split
    · split <;> omega
    · omega
  rcases hr : copyLim.loop B (want + 2) s N want ByteArray.empty with ⟨s', N', acc, st⟩
  obtain ⟨h1, h2, h3, h4, h5⟩ := limLoop_spec B hB1 (want + 2) s N want ByteArray.empty _ h (by omega) hr
  dsimp only at h1 h2 h3 h4 h5 ⊢
  rw [ByteArray.empty_append] at h4
  have hsz : acc.size = min want (min N (s.data.size - s.pos)) := by
    rw [h4, ext_size _ _ _ (by omega)]; omega
  have hx' : Exc s N want := hx
  have hxE := hx'
  obtain ⟨_, _, e3, e4, e5⟩ := hx'
  have hK : min want (min N (s.data.size - s.pos)) = N := by omega
  rw [hK] at h2 h3 h4 h5 hsz
  have hst := h5 e5
  rw [if_pos hxE] at hst
  subst hst
  rw [if_neg (by omega), if_neg (by simp)]
  dsimp only
  refine ⟨?_, h1⟩
  rw [h2, h3, h4, Nat.sub_self]

/-! ### fragmentation independence, as corollaries -/

/-- two sources with the same bytes, position and kind of end — fragmenting in any two ways -/
def SameView (a b : S) : Prop := a.data = b.data ∧ a.pos = b.pos ∧ a.ends = b.ends

theorem readFull_frag_independent (a b : S) (n : Nat) (ha : a.pos ≤ a.data.size) (hab : SameView a b) :
    (readFull a n).2 = (readFull b n).2 ∧ SameView (readFull a n).1 (readFull b n).1 := by
  obtain ⟨hd, hp, he⟩ := hab
  obtain ⟨va, sa⟩ := readFull_view a n ha
  obtain ⟨vb, sb⟩ := readFull_view b n (by rw [← hd, ← hp]; exact ha)
  rw [hd, hp, he, ← vb] at va
  simp only [Prod.mk.injEq] at va
  exact ⟨Prod.ext va.2.1 va.2.2, by rw [sa.1, sb.1]; exact hd, va.1, by rw [sa.2.1, sb.2.1]; exact he⟩

theorem readByte_frag_independent (a b : S) (ha : a.pos ≤ a.data.size) (hab : SameView a b) :
    (readByte a).2 = (readByte b).2 ∧ SameView (readByte a).1 (readByte b).1 := by
  obtain ⟨hd, hp, he⟩ := hab
  obtain ⟨va, sa⟩ := readByte_view a ha
  obtain ⟨vb, sb⟩ := readByte_view b (by rw [← hd, ← hp]; exact ha)
  rw [hd, hp, he, ← vb] at va
  simp only [Prod.mk.injEq] at va
  exact ⟨Prod.ext va.2.1 va.2.2, by rw [sa.1, sb.1]; exact hd, va.1, by rw [sa.2.1, sb.2.1]; exact he⟩

theorem copyN_frag_independent (a b : S) (n : Nat) (ha : a.pos ≤ a.data.size) (hab : SameView a b) :
    (copyN a n).2 = (copyN b n).2 ∧ SameView (copyN a n).1 (copyN b n).1 := by
  obtain ⟨hd, hp, he⟩ := hab
  obtain ⟨va, sa⟩ := copyN_view a n ha
  obtain ⟨vb, sb⟩ := copyN_view b n (by rw [← hd, ← hp]; exact ha)
  rw [hd, hp, he, ← vb] at va
  simp only [Prod.mk.injEq] at va
  exact ⟨Prod.ext va.2.1 va.2.2, by rw [sa.1, sb.1]; exact hd, va.1, by rw [sa.2.1, sb.2.1]; exact he⟩

theorem copyLim_frag_independent (a b : S) (N want : Nat) (ha : a.pos ≤ a.data.size) (hab : SameView a b)
    (hxa : ¬ LimException a N want) (hxb : ¬ LimException b N want) :
    (copyLim a N want).2 = (copyLim b N want).2 ∧ SameView (copyLim a N want).1 (copyLim b N want).1 := by
  obtain ⟨hd, hp, he⟩ := hab
  obtain ⟨va, sa⟩ := copyLim_view a N want ha hxa
  obtain ⟨vb, sb⟩ := copyLim_view b N want (by rw [← hd, ← hp]; exact ha) hxb
  rw [hd, hp, he, ← vb] at va
  simp only [Prod.mk.injEq] at va
  exact ⟨Prod.ext va.2.1 (Prod.ext va.2.2.1 va.2.2.2), by rw [sa.1, sb.1]; exact hd, va.1,
    by rw [sa.2.1, sb.2.1]; exact he⟩

/-- a source that ends with io.EOF: no exception at all -/
theorem copyLim_frag_independent_eof (a b : S) (N want : Nat) (ha : a.pos ≤ a.data.size) (hab : SameView a b)
    (he : a.ends = .eof) :
    (copyLim a N want).2 = (copyLim b N want).2 ∧ SameView (copyLim a N want).1 (copyLim b N want).1 := by
  apply copyLim_frag_independent a b N want ha hab
  · intro hx
    have := hx.1
    rw [he] at this
    cases this
  · intro hx
    have := hx.1
    rw [← hab.2.2, he] at this
    cases this

/-! ### the statements are not vacuous -/

def exSrc (frag : Nat → Nat) (together : Bool) (ends : End) : S :=
  { data := ⟨#[1, 2, 3, 4, 5, 6, 7]⟩, frag := frag, together := together, ends := ends }

#guard (readFull (exSrc (fun _ => 1) true .eof) 5).2.2 == .ok
#guard (readFull (exSrc (fun i => i + 1) false .eof) 9).2.2 == .unexpectedEOF
#guard (readFull (exSrc (fun _ => 2) true .fail) 9).2.2 == .src
#guard (copyLim (exSrc (fun _ => 3) true .fail) 7 10).2.2.2 == .src      -- the exception
#guard (copyLim (exSrc (fun _ => 3) false .fail) 7 10).2.2.2 == .eof
#guard (copyLim (exSrc (fun _ => 3) true .eof) 7 10).2.2.2 == .eof

#print axioms Src.readFull_view
#print axioms Src.readByte_view
#print axioms Src.copyN_view
#print axioms Src.copyLim_view
#print axioms Src.copyLim_exception
#print axioms Src.readFull_frag_independent
#print axioms Src.readByte_frag_independent
#print axioms Src.copyN_frag_independent
#print axioms Src.copyLim_frag_independent
#print axioms Src.copyLim_frag_independent_eof

end Src
