import XzVerif.Proofs.RunKStep
import XzVerif.Proofs.RunHInv

/-!
  Proofs/RunGInv.lean with the second potential (Proofs/RunPot2.lean):
  the cost invariant through `compress` and `encoder.Write`.
-/

set_option linter.unusedSimpArgs false
set_option linter.unusedVariables false
set_option maxRecDepth 8000

namespace RunCost
open Lzma Rc W2

variable {σ : Type}

/-- the range coder of the open chunk stays far below the compressed-size limit -/
theorem locK_digits (c : Cfg) (hd : 65536 ≤ c.dictCap) (dbt : Lzma.St → Nat → Nat) (hdb : ∀ s hs, dbt s hs ≤ 504)
    (w : WSt σ) (hi : Inv c w) {X E A : Nat} (hA : A ≤ 504) (hloc : LocK c dbt w X E A) : w.digits ≤ 6000 := by
  have hr : w.e.range ≤ Enc.init.range := by
    have := hi.erest.rhi
    rw [init_range]; omega
  have hst := S2_ge w.tbl hi.tblok
  have hss := S2_le w.snapTbl hi.snapok
  by_cases hD : w.digits = 0
  · omega
  have hli := hloc.li
  have hsplit : 256 ^ w.digits = 256 ^ (w.digits - 1) * 256 := by
    rw [← Nat.pow_succ]; congr 1; omega
  rw [hsplit] at hli
  have hRpos : 0 < Enc.init.range * 256 := by rw [init_range]; decide
  have h1 : S2 w.tbl * LR ^ X * 256 ^ (w.digits - 1) ≤ S2 w.snapTbl * KR ^ X * 2 ^ E := by
    apply Nat.le_of_mul_le_mul_right _ hRpos
    calc S2 w.tbl * LR ^ X * 256 ^ (w.digits - 1) * (Enc.init.range * 256)
        = Enc.init.range * S2 w.tbl * LR ^ X * (256 ^ (w.digits - 1) * 256) := by ring
      _ ≤ w.e.range * S2 w.snapTbl * KR ^ X * 2 ^ E * 256 := hli
      _ ≤ Enc.init.range * S2 w.snapTbl * KR ^ X * 2 ^ E * 256 :=
          Nat.mul_le_mul_right _ (Nat.mul_le_mul_right _ (Nat.mul_le_mul_right _ (Nat.mul_le_mul_right _ hr)))
      _ = _ := by ring
  have hlog := core_log2 _ _ X E (w.digits - 1) SmaxB hst hss h1
  have hx := hloc.x
  have hy := hloc.y
  have hwr := hi.wr
  have hs := hi.start
  have hLpos : 0 < Lc c := by unfold Lc; omega
  have hdd := div_diff w.hist.size w.start (Lc c) hLpos hs
  have hdl : (w.hist.size - w.start) / Lc c ≤ (w.hist.size - w.start) / 65536 :=
    Nat.div_le_div_left (by unfold Lc; omega) (by omega)
  have hd3 := hdb w.snapS w.start
  unfold WSt.written WSt.compressed Gen.lzma_maxUncompressed at hwr
  have hB : SmaxB = 3212 := rfl
  omega

/-! ### the global part of the invariant -/

/-- closed chunks: `P` = range-coder digits, `m` chunks, `X0` expected decisions, `E0` bits of irregular
    operations; `F` = bytes by which the closed chunks may fall short of `m` full chunks; `D` = initial debt -/
structure GlobK (c : Cfg) (dbt : Lzma.St → Nat → Nat) (D : Nat) (w : WSt σ) (P X0 E0 m F : Nat) : Prop where
  gi : 256 ^ P * S2 w.snapTbl * LR ^ X0 ≤ S2 (initTable c.props.lc c.props.lp) * KR ^ X0 * 2 ^ E0
  out : w.out.size ≤ P + 11 * m
  x0 : X0 * 273 ≤ w.start
  y0 : E0 + dbt w.snapS w.start ≤ 455 * (w.start / Lc c) + 504 * m + D
  full : Gen.lzma_maxUncompressed * m ≤ w.start + F

/-- what is left of it when the potential of the table is not tracked any more -/
structure FinK (c : Cfg) (D : Nat) (w : WSt σ) (P X E m F J : Nat) : Prop where
  gi : 256 ^ P * Smin * LR ^ X ≤ S2 (initTable c.props.lc c.props.lp) * KR ^ X * 2 ^ E
  out : w.out.size ≤ P + 11 * m
  x : X * 273 ≤ w.hist.size
  y : E + J ≤ 455 * (w.hist.size / Lc c) + 504 * m + D
  full : Gen.lzma_maxUncompressed * m ≤ w.hist.size + F

theorem GlobK.frame {c : Cfg} {dbt : Lzma.St → Nat → Nat} {D : Nat} {w w' : WSt σ} {d : ByteArray}
    {P X0 E0 m F : Nat} (h : GlobK c dbt D w P X0 E0 m F) (hf : Frame w w' d) : GlobK c dbt D w' P X0 E0 m F :=
  ⟨by rw [hf.snapTbl]; exact h.gi, by rw [hf.out]; exact h.out, by rw [hf.start]; exact h.x0,
   by rw [hf.start, hf.snapS]; exact h.y0, by rw [hf.start]; exact h.full⟩

theorem GlobK.fin {c : Cfg} {dbt : Lzma.St → Nat → Nat} {D : Nat} {w : WSt σ} {P X0 E0 m F : Nat}
    (h : GlobK c dbt D w P X0 E0 m F) (hi : Inv c w) : FinK c D w P X0 E0 m F 0 := by
  have hs := hi.start
  refine ⟨?_, h.out, ?_, ?_, ?_⟩
  · calc 256 ^ P * Smin * LR ^ X0 ≤ 256 ^ P * S2 w.snapTbl * LR ^ X0 :=
          Nat.mul_le_mul_right _ (Nat.mul_le_mul_left _ (S2_ge _ hi.snapok))
      _ ≤ _ := h.gi
  · have := h.x0; omega
  · have := h.y0
    have : w.start / Lc c ≤ w.hist.size / Lc c := Nat.div_le_div_right hs
    omega
  · have := h.full; omega

theorem LocK.mono {c : Cfg} {dbt : Lzma.St → Nat → Nat} {w : WSt σ} {X E A A' : Nat} (h : LocK c dbt w X E A)
    (hA : A ≤ A') : LocK c dbt w X E A' :=
  ⟨h.li, h.x, by have := h.y; omega, h.yf, h.tsz⟩

/-! ### `compress` -/

def CompK (c : Cfg) (b : UInt8) (dbt : Lzma.St → Nat → Nat) (all : Bool) : OpRes σ → Prop
  | .ok w' => RunA b w' ∧ ∃ X E, LocK c dbt w' X E (if all then 504 else 0)
  | _ => False

theorem compress_k (c : Cfg) (hc : CfgOk c) (hd : 65536 ≤ c.dictCap) (b : UInt8) (M : Matcher σ)
    (I : σ → ByteArray → ByteArray → Prop) (hMIo : MatcherInv c M I) (dbt : Lzma.St → Nat → Nat)
    (hdb : ∀ s hs, dbt s hs ≤ 504) (hstep : OpStepK c b M I dbt) (all : Bool) :
    ∀ (fuel : Nat) (w : WSt σ), InvI c I w → RunA b w → (∃ X E, LocK c dbt w X E 0) →
      w.look.size < fuel → CompK c b dbt all (compress c M all fuel w) := by
  have hMI := matcherInv' hMIo
  have hc' := cfgOk' hc
  intro fuel
  induction fuel with
  | zero => intro w _ _ _ h; omega
  | succ fuel ih =>
    intro w hi hb hloc hf
    obtain ⟨X, E, hloc⟩ := hloc
    unfold compress
    by_cases hl : w.look.size > thr all
    · have hl' : w.look.size > (if all = true then 0 else Gen.lzma_maxMatchLen - 1) := hl
      rw [if_pos hl']
      have hl1 : 1 ≤ w.look.size := by omega
      have hi1 := hi.toInv.setM (M.next w.m w.hist w.look w.s).2
      have hcons := hMI.consume w.m w.hist w.look w.s hi.sync hl1 hi.space
      have hg := hMI.ok w.m w.hist w.look w.s hi.sync hl1 hi.space
      have hdig := locK_digits c hd dbt hdb w hi.toInv (by omega) hloc
      have hm := margin_le
      have hdig1 : ({ w with m := (M.next w.m w.hist w.look w.s).2 } : WSt σ).digits = w.digits := rfl
      have hadm : w.digits + 4 + Gen.lzma_opLenMargin ≤ Gen.lzma_maxCompressed := by
        unfold Gen.lzma_maxCompressed; omega
      simp only []
      rw [if_neg (by rw [hdig1]; omega)]
      have hop := encodeOp_spec c hc' _ _ hi1 hg (by rw [hdig1]; exact hadm)
      cases hr : encodeOp c { w with m := (M.next w.m w.hist w.look w.s).2 }
          (M.next w.m w.hist w.look w.s).1 with
      | ok w' =>
        rw [hr] at hop
        obtain ⟨h1, h2, h3, hm', hh, hl2⟩ := hop
        have hi' : InvI c I w' := ⟨h1, by rw [hm', hh, hl2]; exact hcons⟩
        obtain ⟨hb', X', E', hcase⟩ := hstep w w' X E hi hb hl1 hadm hloc hr
        simp only []
        rcases hcase with hloc' | ⟨hs1, hs2, hloc'⟩
        · exact ih w' hi' hb' ⟨X', E', hloc'⟩ (by
            have : w'.look.size + 1 ≤ w.look.size := h3
            omega)
        · -- the short operation that empties the look-ahead
          have hall : all = true := by
            cases all with
            | true => rfl
            | false =>
              unfold thr Gen.lzma_maxMatchLen at hl
              simp only [Bool.false_eq_true, if_false] at hl
              omega
          subst hall
          have hstop : compress c M true fuel w' = .ok w' := by
            cases fuel with
            | zero => rfl
            | succ f =>
              unfold compress
              rw [if_neg (by simp only [if_true]; omega)]
          rw [hstop]
          exact ⟨hb', X', E', hloc'⟩
      | limit w' => rw [hr] at hop; exact absurd hop id
      | broken w' => rw [hr] at hop; exact absurd hmargin hop
      | bad w' s => rw [hr] at hop; exact absurd hop id
    · have hl' : ¬ w.look.size > (if all = true then 0 else Gen.lzma_maxMatchLen - 1) := hl
      rw [if_neg hl']
      exact ⟨hb, X, E, hloc.mono (by split <;> omega)⟩

/-! ### `encoder.Write` -/

def EWK (c : Cfg) (b : UInt8) (dbt : Lzma.St → Nat → Nat) : OpRes σ × Nat → Prop
  | (.ok w', _) => RunA b w' ∧ ∃ X E, LocK c dbt w' X E 0
  | _ => False

theorem LocK.dictWrite {c : Cfg} {dbt : Lzma.St → Nat → Nat} {w : WSt σ} {X E A : Nat} (h : LocK c dbt w X E A)
    (p : ByteArray) (n : Nat) : LocK c dbt (w.dictWrite c p n).1 X E A := ⟨h.li, h.x, h.y, h.yf, h.tsz⟩

theorem encWrite_k (c : Cfg) (hc : CfgOk c) (hd : 65536 ≤ c.dictCap) (b : UInt8) (M : Matcher σ)
    (I : σ → ByteArray → ByteArray → Prop) (hMIo : MatcherInv c M I) (dbt : Lzma.St → Nat → Nat)
    (hdb : ∀ s hs, dbt s hs ≤ 504) (hstep : OpStepK c b M I dbt) (p : ByteArray) (hp : AllB b p) :
    ∀ (fuel : Nat) (w : WSt σ) (n : Nat), InvI c I w → RunA b w → (∃ X E, LocK c dbt w X E 0) →
      n ≤ p.size → w.written + (p.size - n) ≤ Gen.lzma_maxUncompressed →
      (p.size - n) + (if 1 ≤ w.dictAvail c then 1 else 2) ≤ fuel →
      EWK c b dbt (encWrite c M p fuel w n) := by
  have hMI := matcherInv' hMIo
  have hc' := cfgOk' hc
  intro fuel
  induction fuel with
  | zero => intro w n _ _ _ _ _ h; split at h <;> omega
  | succ fuel ih =>
    intro w n hi hb hloc hn hwr hf
    obtain ⟨X, E, hloc⟩ := hloc
    obtain ⟨h1, h2, h3, h4, h5, h6⟩ := dictWrite_spec c w p n hi.toInv hn hwr
    have h1I : InvI c I (w.dictWrite c p n).1 := by
      refine ⟨h1, ?_⟩
      have hsp := h1.space
      rw [h6] at hsp
      rw [h4, h5, h6]
      exact hMI.grow _ _ _ _ hi.sync hsp
    have hb1 := hb.dictWrite (c := c) p n hp
    have hloc1 := hloc.dictWrite p n
    unfold encWrite
    simp only []
    have hw1 := h2.written hi.start
    generalize (w.dictWrite c p n).1 = w1 at *
    generalize (w.dictWrite c p n).2 = k at *
    have hex : (p.extract n (n + k)).size = k := by
      rw [ByteArray.size_extract]; omega
    by_cases hlt : n + k < p.size
    · rw [if_pos hlt]
      have hcs := compress_spec c hc' M I hMI false (w1.look.size + 1) w1 h1I (by omega)
      have hcr := compress_k c hc hd b M I hMIo dbt hdb hstep false (w1.look.size + 1) w1 h1I hb1
        ⟨X, E, hloc1⟩ (by omega)
      cases hr : compress c M false (w1.look.size + 1) w1 with
      | ok w2 =>
        rw [hr] at hcs hcr
        obtain ⟨a1, a2, a3⟩ := hcs
        obtain ⟨b1, b2⟩ := hcr
        simp only []
        have hw2 := a2.written h1.start
        have hav : 1 ≤ w2.dictAvail c := by
          have hbb := hc'.2.2.2.2
          unfold thr Gen.lzma_maxMatchLen at a3
          unfold Gen.lzma_maxMatchLen at hbb
          simp only [Bool.false_eq_true, if_false] at a3
          unfold WSt.dictAvail WSt.bufAvail WSt.dictLen ringCap
          omega
        apply ih w2 (n + k) a1 b1 (by simpa using b2) (by omega)
        · rw [hw2, hw1, hex, ByteArray.size_empty]; omega
        · rw [if_pos hav]
          split at hf <;> omega
      | limit w2 => rw [hr] at hcr; exact hcr
      | broken w2 => rw [hr] at hcr; exact hcr
      | bad w2 s => rw [hr] at hcr; exact hcr
    · rw [if_neg hlt]
      exact ⟨hb1, X, E, hloc1⟩

end RunCost
