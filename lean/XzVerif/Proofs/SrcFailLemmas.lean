import XzVerif.Model.LazyXz
import XzVerif.Proofs.LazyDec
import XzVerif.Proofs.LazyDec2Lemmas
import XzVerif.Proofs.LazyXzLemmas

/-! The proofs behind Proofs/SrcFail.lean.  `plainL … plainX` are defined here exactly as there (the statements file
    cannot be imported from here), so the theorems transfer by definitional unfolding. -/

namespace SrcFailL
open Lzma Rc LazyDec LazyDec2 LazyXz

def plainL (l : LSt) : LSt := { l with srcEnd := false }

def plainR (r : R2) : R2 := { r with srcErr := false, l := plainL r.l }

def plainB (b : Blk) : Blk := { b with r2 := plainR b.r2 }

def plainS (sr : Sr) : Sr := { sr with br := sr.br.map plainB }

def plainX (x : X) : X := { x with srcErr := false, sr := x.sr.map plainS }

/-! ### classic reader -/

def plainO : OpRes → OpRes
  | .op o l => .op o (plainL l)
  | .marker l => .marker (plainL l)
  | .dry l => .dry (plainL l)

def plainD : DRes → DRes
  | .more l => .more (plainL l)
  | .eof l => .eof (plainL l)
  | .err l e => .err (plainL l) e

def plainE : Except Err LSt → Except Err LSt
  | .ok l => .ok (plainL l)
  | .error e => .error e

def isSrc (d : DRes) : Prop := ∃ l, d = .err l .src

theorem readOp_plain (l : LSt) : readOp (plainL l) = plainO (readOp l) := by
  have e : decTree pm (opDec (plainL l).ctx) (plainL l).tbl (plainL l).rd = decTree pm (opDec l.ctx) l.tbl l.rd := rfl
  unfold readOp
  rw [e]
  cases hdt : decTree pm (opDec l.ctx) l.tbl l.rd with
  | none => rfl
  | some x =>
    obtain ⟨o, tbl', rd'⟩ := x
    simp only
    cases o with
    | mtch len dd => simp only; split_ifs <;> rfl
    | lit b => rfl
    | rep g len => rfl
    | shortRep => rfl

theorem apply_plain (l : LSt) (o : RawOp) : apply (plainL l) o = plainE (apply l o) := by
  have hwm : ∀ dist len,
      (match (plainL l).dict.writeMatch dist len with
        | .ok d => Except.ok { plainL l with dict := d }
        | .distRange => Except.error Err.distRange
        | .lenRange => .error .lenRange
        | .noSpace => .error .noSpace
        | .panic => .error .panic) =
      plainE (match l.dict.writeMatch dist len with
        | .ok d => Except.ok { l with dict := d }
        | .distRange => Except.error Err.distRange
        | .lenRange => .error .lenRange
        | .noSpace => .error .noSpace
        | .panic => .error .panic) := by
    intro dist len
    have : (plainL l).dict = l.dict := rfl
    rw [this]
    cases l.dict.writeMatch dist len <;> rfl
  unfold apply
  cases o with
  | lit b =>
    simp only
    have : (plainL l).dict = l.dict := rfl
    rw [this]
    cases l.dict.writeByte b.toUInt8 <;> rfl
  | mtch len dd => exact hwm _ _
  | rep g len => exact hwm _ _
  | shortRep => exact hwm _ _

theorem tail_sim (l : LSt) : isSrc (tail l) ∨ tail (plainL l) = plainD (tail l) := by
  unfold tail
  have hc : (plainL l).rd.code = l.rd.code := rfl
  rw [hc, readOp_plain]
  by_cases h0 : l.rd.code = 0
  · rw [if_pos h0, if_pos h0]; exact Or.inr rfl
  rw [if_neg h0, if_neg h0]
  cases readOp l with
  | op o l' => exact Or.inr rfl
  | marker l' => exact Or.inr rfl
  | dry l' =>
    simp only [plainO]
    cases hb : l'.srcEnd with
    | true => exact Or.inl ⟨l', by simp⟩
    | false => exact Or.inr rfl

/-- the fields of `plainL l` -/
theorem plainL_f (l : LSt) :
    (plainL l).p = l.p ∧ (plainL l).s = l.s ∧ (plainL l).tbl = l.tbl ∧ (plainL l).rd = l.rd ∧ (plainL l).dict = l.dict ∧
    (plainL l).start = l.start ∧ (plainL l).size = l.size ∧ (plainL l).eos = l.eos ∧
    (plainL l).eosMarker = l.eosMarker ∧ (plainL l).srcEnd = false ∧ (plainL l).decompressed = l.decompressed :=
  ⟨rfl, rfl, rfl, rfl, rfl, rfl, rfl, rfl, rfl, rfl, rfl⟩

/-- decide the `if`s whose condition is (the negation of) the proposition proved / refuted by `c` — through `simp`,
    because the `Decidable` instances inside unfolded model terms are not syntactically the canonical ones -/
macro "ifp " c:ident : tactic =>
  `(tactic| simp only [eq_true $c, ne_eq, not_true_eq_false, not_false_eq_true, if_true, if_false])
macro "ifn " c:ident : tactic =>
  `(tactic| simp only [eq_false $c, ne_eq, not_true_eq_false, not_false_eq_true, if_true, if_false])
macro "closeR" : tactic => `(tactic| first | done | exact Or.inr rfl | exact Or.inr trivial)
macro "closeL" : tactic => `(tactic| first | done | exact Or.inl rfl | exact Or.inl trivial)

theorem fill_sim : ∀ (fuel : Nat) (l : LSt), isSrc (fill fuel l) ∨ fill fuel (plainL l) = plainD (fill fuel l) := by
  intro fuel
  induction fuel with
  | zero => intro l; exact Or.inr rfl
  | succ fuel ih =>
    intro l
    rw [fill, fill]
    have hd : (plainL l).dict = l.dict := rfl
    rw [hd, readOp_plain]
    by_cases hav : l.dict.buf.available ≥ 273
    swap
    · rw [if_neg hav, if_neg hav]; exact Or.inr rfl
    rw [if_pos hav, if_pos hav]
    cases readOp l with
    | dry l' =>
      simp only [plainO]
      cases hb : l'.srcEnd with
      | true => exact Or.inl ⟨l', by simp⟩
      | false => exact Or.inr rfl
    | marker l' =>
      refine Or.inr ?_
      obtain ⟨p, s, tbl, rd, dict, start, size, eos, eosMarker, srcEnd⟩ := l'
      dsimp only [plainO, plainL, LSt.decompressed]
      by_cases c1 : rd.code = 0
      · ifp c1
        cases size with
        | none => rfl
        | some sz =>
          dsimp only
          by_cases c2 : sz = dict.head - start
          · ifp c2; rfl
          · ifn c2; rfl
      · ifn c1; rfl
    | op o l' =>
      simp only [plainO]
      rw [apply_plain]
      cases apply l' o with
      | error e => exact Or.inr rfl
      | ok l'' =>
        obtain ⟨p, s, tbl, rd, dict, start, size, eos, eosMarker, srcEnd⟩ := l''
        cases size with
        | none => exact ih _
        | some sz =>
          have ht := tail_sim ⟨p, s, tbl, rd, dict, start, some sz, true, eosMarker, srcEnd⟩
          have hi := ih ⟨p, s, tbl, rd, dict, start, some sz, eos, eosMarker, srcEnd⟩
          dsimp only [plainE, plainL, LSt.decompressed] at ht hi ⊢
          by_cases c1 : dict.head - start ≥ sz
          · ifp c1
            by_cases c2 : dict.head - start > sz
            · ifp c2; exact Or.inr rfl
            · ifn c2; exact ht
          · ifn c1; exact hi

theorem decompress_sim (l : LSt) : isSrc (decompress l) ∨ decompress (plainL l) = plainD (decompress l) := by
  obtain ⟨p, s, tbl, rd, dict, start, size, eos, eosMarker, srcEnd⟩ := l
  have ht := tail_sim ⟨p, s, tbl, rd, dict, start, size, true, eosMarker, srcEnd⟩
  have hf := fill_sim (dict.buf.available + 1) ⟨p, s, tbl, rd, dict, start, size, eos, eosMarker, srcEnd⟩
  unfold decompress
  dsimp only [plainL, LSt.decompressed] at ht hf ⊢
  cases eos with
  | true => exact Or.inr rfl
  | false =>
    simp only [Bool.false_eq_true, if_false]
    by_cases c2 : size = some 0 ∧ dict.head - start = 0
    · ifp c2; exact ht
    · ifn c2; exact hf

theorem readLoop_sim (len : Nat) : ∀ (fuel : Nat) (l : LSt) (acc : ByteArray),
    (LazyDec.readLoop len fuel l acc).2.2 = .err .src ∨
    LazyDec.readLoop len fuel (plainL l) acc =
      (plainL (LazyDec.readLoop len fuel l acc).1, (LazyDec.readLoop len fuel l acc).2.1,
        (LazyDec.readLoop len fuel l acc).2.2) := by
  intro fuel
  induction fuel with
  | zero => intro l acc; exact Or.inr rfl
  | succ fuel ih =>
    intro l acc
    obtain ⟨p, s, tbl, rd, dict, start, size, eos, eosMarker, srcEnd⟩ := l
    rw [LazyDec.readLoop, LazyDec.readLoop]
    have hd : (plainL ⟨p, s, tbl, rd, dict, start, size, eos, eosMarker, srcEnd⟩).dict = dict := rfl
    rw [hd]
    rcases hrd : dict.read (len - acc.size) with ⟨d', chunk⟩
    dsimp only [plainL]
    by_cases c1 : chunk.size = 0 ∧ eos = true
    · ifp c1; first | exact Or.inr rfl | exact Or.inr trivial
    ifn c1
    by_cases c2 : (acc ++ chunk).size ≥ len
    · ifp c2; first | exact Or.inr rfl | exact Or.inr trivial
    ifn c2
    have hs := decompress_sim ⟨p, s, tbl, rd, d', start, size, eos, eosMarker, srcEnd⟩
    dsimp only [plainL] at hs
    rcases hs with ⟨l', hs⟩ | hs
    · rw [hs]; exact Or.inl rfl
    · rw [hs]
      cases decompress ⟨p, s, tbl, rd, d', start, size, eos, eosMarker, srcEnd⟩ with
      | err l' e => exact Or.inr rfl
      | more l' => exact ih l' _
      | eof l' => exact ih l' _

theorem lazy_read_sim (l : LSt) (len : Nat) (l' : LSt) (out : ByteArray) (st : RStat)
    (h : LazyDec.read l len = (l', out, st)) (hst : st ≠ .err .src) :
    LazyDec.read (plainL l) len = (plainL l', out, st) := by
  unfold LazyDec.read at h ⊢
  by_cases h0 : len = 0
  · rw [if_pos h0] at h ⊢
    cases h; rfl
  · rw [if_neg h0] at h ⊢
    rcases readLoop_sim len (len + 3) l ByteArray.empty with hs | hs
    · rw [h] at hs; exact absurd hs hst
    · rw [hs, h]

theorem initErr_cases (seg : List Nat) : initErr seg true = .src ∨ initErr seg true = initErr seg false := by
  unfold initErr
  cases seg with
  | nil => exact Or.inl rfl
  | cons b0 t =>
    simp only [if_true, Bool.false_eq_true, if_false]
    split_ifs
    · exact Or.inr rfl
    · exact Or.inl rfl
    · exact Or.inr rfl

theorem lazy_open_sim (cfgCap : Nat) (inp : ByteArray) :
    (∀ l, LazyDec.newReaderE true cfgCap inp = .ok l → LazyDec.newReader cfgCap inp = .ok (plainL l)) ∧
    (∀ e, LazyDec.newReaderE true cfgCap inp = .error e → e = .src ∨ LazyDec.newReader cfgCap inp = .error e) := by
  unfold LazyDec.newReader LazyDec.newReaderE
  by_cases c1 : inp.size < 13
  · rw [if_pos c1, if_pos c1]
    exact ⟨(fun l h => by cases h), (fun e h => by cases h; exact Or.inl rfl)⟩
  rw [if_neg c1, if_neg c1]
  cases Lzma2.propsOfByte (Lzma2.get inp 0) with
  | none => exact ⟨(fun l h => by cases h), fun e h => Or.inr h⟩
  | some p =>
    simp only
    by_cases c2 : Lzma1.le inp 5 8 ≠ 2 ^ 64 - 1 ∧ Lzma1.le inp 5 8 ≥ 2 ^ 63
    · rw [if_pos c2, if_pos c2]
      exact ⟨(fun l h => by cases h), fun e h => Or.inr h⟩
    rw [if_neg c2, if_neg c2]
    cases Dec.init (bytesToList inp 13 inp.size) with
    | none =>
      simp only
      refine ⟨(fun l h => by cases h), fun e h => ?_⟩
      cases h
      rcases initErr_cases (bytesToList inp 13 inp.size) with h | h
      · exact Or.inl h
      · exact Or.inr (by rw [h])
    | some rd =>
      simp only
      exact ⟨(fun l h => by cases h; rfl), (fun e h => by cases h)⟩

theorem lazy_seq_sim (lens : List Nat) : ∀ (l : LSt),
    (∀ r ∈ LazyDec.readSeq l lens, r.2 ≠ .err .src) →
    LazyDec.readSeq (plainL l) lens = LazyDec.readSeq l lens := by
  induction lens with
  | nil => intro l _; rfl
  | cons len rest ih =>
    intro l h
    rw [LazyDec.readSeq] at h ⊢
    rw [LazyDec.readSeq]
    rcases hrd : LazyDec.read l len with ⟨l', out, st⟩
    rw [hrd] at h
    simp only at h ⊢
    have hst : st ≠ .err .src := by
      cases st with
      | ok => intro hh; cases hh
      | eof => intro hh; cases hh
      | err e => exact h (out, .err e) (by simp)
    rw [lazy_read_sim l len l' out st hrd hst]
    simp only
    cases st with
    | ok =>
      simp only at h ⊢
      rw [ih l' (fun r hr => h r (List.mem_cons_of_mem _ hr))]
    | eof => rfl
    | err e => rfl

theorem readSeq_cons_ne_nil (l : LSt) (len : Nat) (rest : List Nat) : LazyDec.readSeq l (len :: rest) ≠ [] := by
  rw [LazyDec.readSeq]
  rcases LazyDec.read l len with ⟨l', out, st⟩
  cases st <;> simp

theorem lazy_seq_prefix (lens : List Nat) : ∀ (l : LSt),
    LazyDec.readSeq l lens = LazyDec.readSeq (plainL l) lens ∨
    ∃ pre out, LazyDec.readSeq l lens = pre ++ [(out, .err .src)] ∧
      ∃ rest, LazyDec.readSeq (plainL l) lens = pre ++ rest ∧ rest ≠ [] := by
  induction lens with
  | nil => intro l; exact Or.inl rfl
  | cons len rest ih =>
    intro l
    by_cases hsrc : (LazyDec.read l len).2.2 = .err .src
    · refine Or.inr ⟨[], (LazyDec.read l len).2.1, ?_, LazyDec.readSeq (plainL l) (len :: rest), rfl,
        readSeq_cons_ne_nil _ _ _⟩
      rw [LazyDec.readSeq]
      rcases hrd : LazyDec.read l len with ⟨l', out, st⟩
      rw [hrd] at hsrc
      simp only at hsrc
      subst hsrc
      rfl
    · rcases hrd : LazyDec.read l len with ⟨l', out, st⟩
      rw [hrd] at hsrc
      have hp := lazy_read_sim l len l' out st hrd hsrc
      rw [LazyDec.readSeq, LazyDec.readSeq, hrd, hp]
      simp only
      cases st with
      | eof => exact Or.inl rfl
      | err e => exact Or.inl rfl
      | ok =>
        simp only
        rcases ih l' with h | ⟨pre, o, h1, rs, h2, h3⟩
        · exact Or.inl (by rw [h])
        · exact Or.inr ⟨(out, .ok) :: pre, o, by rw [h1]; rfl, rs, by rw [h2]; rfl, h3⟩

theorem lazy_srcfail_no_panic (cfgCap : Nat) (inp : ByteArray) (l : LSt) (lens : List Nat)
    (h : LazyDec.newReaderE true cfgCap inp = .ok l) :
    ∀ q ∈ LazyDec.readSeq l lens, q.2 ≠ .err .panic ∧ q.2 ≠ .err .noSpace := by
  have hp := (lazy_open_sim cfgCap inp).1 l h
  have hn := LazyDec.never_noSpace cfgCap inp (plainL l) hp lens
  intro q hq
  rcases lazy_seq_prefix lens l with he | ⟨pre, out, h1, rest, h2, _⟩
  · rw [he] at hq
    exact ⟨(hn q hq).2.2, (hn q hq).1⟩
  · rw [h1] at hq
    rcases List.mem_append.mp hq with hq | hq
    · have := hn q (by rw [h2]; exact List.mem_append_left _ hq)
      exact ⟨this.2.2, this.1⟩
    · have : q = (out, .err .src) := by simpa using hq
      subst this
      exact ⟨(fun hh => by cases hh), (fun hh => by cases hh)⟩

/-! ### LZMA2 reader -/

theorem endE_cases (r : R2) : r.endE = .err .src ∨ (r.srcErr = false ∧ r.endE = .err .unexpectedEOF) := by
  unfold R2.endE
  cases r.srcErr with
  | true => exact Or.inl rfl
  | false => exact Or.inr ⟨rfl, rfl⟩

theorem startBody_sim (r : R2) (kind : Spec.ChunkKind) (hp : Option Props) (cs' : Nat) :
    (startBody r kind hp cs').2 = .err .src ∨
    startBody (plainR r) kind hp cs' = (plainR (startBody r kind hp cs').1, (startBody r kind hp cs').2) := by
  obtain ⟨inp, pos, l, hasDec, segEnd, cstate, cur, uN, uEof, uErr, err, srcErr⟩ := r
  obtain ⟨p, s, tbl, rd, dict, start, size, eos, eosMarker, srcEnd⟩ := l
  unfold startBody
  dsimp only [plainR, plainL]
  by_cases c1 : cs' = Gen.lzma_stateStop
  · ifp c1; closeR
  ifn c1
  by_cases c2 : kind = .ud ∨ kind = .u
  · ifp c2; closeR
  ifn c2
  cases hdi : Dec.init (bytesToList inp (pos + hlenOf kind) (pos + hlenOf kind +
      min (Lzma2.get inp (pos + 3) * 256 + Lzma2.get inp (pos + 4) + 1) (inp.size - (pos + hlenOf kind)))) with
  | none =>
    dsimp only
    cases srcErr with
    | false => closeR
    | true =>
      by_cases c3 : min (Lzma2.get inp (pos + 3) * 256 + Lzma2.get inp (pos + 4) + 1) (inp.size - (pos + hlenOf kind)) <
          Lzma2.get inp (pos + 3) * 256 + Lzma2.get inp (pos + 4) + 1
      · simp only [c3, decide_true, Bool.and_true]
        rcases initErr_cases (bytesToList inp (pos + hlenOf kind) (pos + hlenOf kind +
          min (Lzma2.get inp (pos + 3) * 256 + Lzma2.get inp (pos + 4) + 1) (inp.size - (pos + hlenOf kind)))) with h | h
        · exact Or.inl (by rw [h])
        · exact Or.inr (by rw [h])
      · simp only [c3, decide_false, Bool.and_false]
        closeR
  | some rd' =>
    dsimp only
    refine Or.inr ?_
    simp only [Bool.false_and]

theorem startChunk_sim (r : R2) :
    (startChunk r).2 = .err .src ∨ startChunk (plainR r) = (plainR (startChunk r).1, (startChunk r).2) := by
  have hb := fun (kind : Spec.ChunkKind) (hp : Option Props) (cs' : Nat) => startBody_sim r kind hp cs'
  rw [startChunk_eq r, startChunk_eq (plainR r)]
  obtain ⟨inp, pos, l, hasDec, segEnd, cstate, cur, uN, uEof, uErr, err, srcErr⟩ := r
  dsimp only [plainR] at hb ⊢
  by_cases c1 : pos ≥ inp.size
  · ifp c1
    cases srcErr with
    | true => closeL
    | false => closeR
  ifn c1
  cases hk : Spec.ctrl (Lzma2.get inp pos) with
  | none => closeR
  | some kind =>
    dsimp only
    by_cases c2 : pos + hlenOf kind > inp.size
    · ifp c2
      cases srcErr with
      | true => closeL
      | false => closeR
    ifn c2
    cases hhp : hpropsOf inp pos kind with
    | none => closeR
    | some hp =>
      dsimp only
      cases hcn : Model.chunkNext cstate (Model.ctypeOf kind) with
      | none => closeR
      | some cs' => exact hb kind hp cs'

theorem ufill_eqE (r : R2) : ufill r =
    if r.uEof then (r, if r.uN ≠ 0 then .err .unexpectedEOF else .eof)
    else
      let want := r.l.dict.buf.available
      let k := min want (min r.uN (r.inp.size - r.pos))
      let r' : R2 := { r with l := { r.l with dict := (r.l.dict.write (r.inp.extract r.pos (r.pos + k))).1 },
                              pos := r.pos + k, uN := r.uN - k }
      if k = want then (r', .ok)
      else if r.srcErr = true ∧ r.inp.size - r.pos < min want r.uN then (r', .err .src)
      else if k > 0 then ({ r' with uEof := true }, .ok)
      else if r.uN - k ≠ 0 then ({ r' with uEof := true }, .err .unexpectedEOF)
      else ({ r' with uEof := true }, .eof) := by
  unfold ufill
  cases hE : r.uEof with
  | true =>
    simp only [Bool.not_true, Bool.false_eq_true, if_false, if_true]
    split_ifs <;> simp_all
  | false =>
    simp only [Bool.not_false, if_true, Bool.false_eq_true, if_false]
    split_ifs <;> simp_all

theorem ufill_sim (r : R2) :
    (ufill r).2 = .err .src ∨ ufill (plainR r) = (plainR (ufill r).1, (ufill r).2) := by
  rw [ufill_eqE r, ufill_eqE (plainR r)]
  obtain ⟨inp, pos, l, hasDec, segEnd, cstate, cur, uN, uEof, uErr, err, srcErr⟩ := r
  obtain ⟨p, s, tbl, rd, dict, start, size, eos, eosMarker, srcEnd⟩ := l
  dsimp only [plainR, plainL]
  cases uEof with
  | true =>
    simp only [if_true]
    by_cases c : uN = 0
    · ifp c; closeR
    · ifn c; closeR
  | false =>
    simp only [Bool.false_eq_true, if_false, false_and]
    by_cases c1 : min dict.buf.available (min uN (inp.size - pos)) = dict.buf.available
    · ifp c1; closeR
    ifn c1
    by_cases c2 : srcErr = true ∧ inp.size - pos < min dict.buf.available uN
    · ifp c2; closeL
    ifn c2
    by_cases c3 : min dict.buf.available (min uN (inp.size - pos)) > 0
    · ifp c3; closeR
    ifn c3
    by_cases c4 : uN - min dict.buf.available (min uN (inp.size - pos)) = 0
    · ifp c4; closeR
    · ifn c4; closeR

theorem uread_sim (len : Nat) : ∀ (fuel : Nat) (r : R2) (acc : ByteArray),
    (uread len fuel r acc).2.2 = .err .src ∨
    uread len fuel (plainR r) acc = (plainR (uread len fuel r acc).1, (uread len fuel r acc).2.1,
      (uread len fuel r acc).2.2) := by
  intro fuel
  induction fuel with
  | zero => intro r acc; exact Or.inr rfl
  | succ fuel ih =>
    intro r acc
    obtain ⟨inp, pos, l, hasDec, segEnd, cstate, cur, uN, uEof, uErr, err, srcErr⟩ := r
    obtain ⟨p, s, tbl, rd, dict, start, size, eos, eosMarker, srcEnd⟩ := l
    rw [uread, uread]
    dsimp only [plainR, plainL]
    cases uErr with
    | some e => exact Or.inr rfl
    | none =>
      dsimp only
      rcases hrd : dict.read (len - acc.size) with ⟨d', chunk⟩
      dsimp only
      by_cases c : (acc ++ chunk).size ≥ len
      · ifp c; closeR
      ifn c
      have hs := ufill_sim ⟨inp, pos, ⟨p, s, tbl, rd, d', start, size, eos, eosMarker, srcEnd⟩, hasDec, segEnd, cstate,
        cur, uN, uEof, none, err, srcErr⟩
      dsimp only [plainR, plainL] at hs
      rcases hs with hs | hs
      · left
        rcases huf : ufill ⟨inp, pos, ⟨p, s, tbl, rd, d', start, size, eos, eosMarker, srcEnd⟩, hasDec, segEnd, cstate,
          cur, uN, uEof, none, err, srcErr⟩ with ⟨r', st⟩
        rw [huf] at hs
        simp only at hs
        subst hs
        rfl
      · rw [hs]
        rcases huf : ufill ⟨inp, pos, ⟨p, s, tbl, rd, d', start, size, eos, eosMarker, srcEnd⟩, hasDec, segEnd, cstate,
          cur, uN, uEof, none, err, srcErr⟩ with ⟨r', st⟩
        cases st with
        | ok => exact ih r' _
        | eof => exact Or.inr rfl
        | err e => exact Or.inr rfl

theorem chunkRead_sim (r : R2) (len : Nat) :
    (chunkRead r len).2.2 = .err .src ∨
    chunkRead (plainR r) len = (plainR (chunkRead r len).1, (chunkRead r len).2.1, (chunkRead r len).2.2) := by
  unfold chunkRead
  have hc : (plainR r).cur = r.cur := rfl
  rw [hc]
  cases r.cur with
  | none => exact Or.inr rfl
  | unc => exact uread_sim len _ r _
  | lz =>
    dsimp only
    have hl : (plainR r).l = plainL r.l := rfl
    rw [hl]
    rcases hrd : LazyDec.read r.l len with ⟨l', out, st⟩
    by_cases hst : st = .err .src
    · exact Or.inl hst
    · rw [lazy_read_sim r.l len l' out st hrd hst]
      exact Or.inr rfl

theorem readLoop2_sim (len : Nat) : ∀ (fuel : Nat) (r : R2) (acc : ByteArray),
    (LazyDec2.readLoop len fuel r acc).2.2 = .err .src ∨
    LazyDec2.readLoop len fuel (plainR r) acc =
      (plainR (LazyDec2.readLoop len fuel r acc).1, (LazyDec2.readLoop len fuel r acc).2.1,
        (LazyDec2.readLoop len fuel r acc).2.2) := by
  intro fuel
  induction fuel with
  | zero => intro r acc; exact Or.inr rfl
  | succ fuel ih =>
    intro r acc
    rw [LazyDec2.readLoop, LazyDec2.readLoop]
    by_cases c : acc.size < len
    swap
    · rw [if_neg c, if_neg c]; exact Or.inr rfl
    rw [if_pos c, if_pos c]
    rcases chunkRead_sim r (len - acc.size) with hs | hs
    · left
      rcases hcr : chunkRead r (len - acc.size) with ⟨r1, chunk, st⟩
      rw [hcr] at hs
      simp only at hs
      subst hs
      rfl
    · rw [hs]
      rcases hcr : chunkRead r (len - acc.size) with ⟨r1, chunk, st⟩
      dsimp only
      cases st with
      | ok =>
        dsimp only
        by_cases c0 : chunk.size = 0
        · rw [if_pos c0, if_pos c0]; exact Or.inr rfl
        · rw [if_neg c0, if_neg c0]; exact ih r1 _
      | err e => exact Or.inr rfl
      | eof =>
        dsimp only
        have h2 : (if (plainR r1).cur = .lz then
            { plainR r1 with pos := (plainR r1).segEnd - (plainR r1).l.rd.inp.length } else plainR r1) =
            plainR (if r1.cur = .lz then { r1 with pos := r1.segEnd - r1.l.rd.inp.length } else r1) := by
          have hc : (plainR r1).cur = r1.cur := rfl
          rw [hc]
          split_ifs <;> rfl
        rw [h2]
        generalize (if r1.cur = .lz then { r1 with pos := r1.segEnd - r1.l.rd.inp.length } else r1) = r2
        rcases startChunk_sim r2 with hs2 | hs2
        · left
          rcases hsc : startChunk r2 with ⟨r3, st'⟩
          rw [hsc] at hs2
          simp only at hs2
          subst hs2
          rfl
        · rw [hs2]
          rcases hsc : startChunk r2 with ⟨r3, st'⟩
          cases st' with
          | ok => exact ih r3 _
          | eof => exact Or.inr rfl
          | err e => exact Or.inr rfl

theorem lazy2_read_sim (r : R2) (len : Nat) (r' : R2) (out : ByteArray) (st : RStat)
    (h : LazyDec2.read r len = (r', out, st)) (hst : st ≠ .err .src) :
    LazyDec2.read (plainR r) len = (plainR r', out, st) := by
  unfold LazyDec2.read at h ⊢
  have he : (plainR r).err = r.err := rfl
  have hi : (plainR r).inp = r.inp := rfl
  rw [he, hi]
  cases hre : r.err with
  | some e =>
    rw [hre] at h
    cases h
    rfl
  | none =>
    rw [hre] at h
    dsimp only at h ⊢
    rcases readLoop2_sim len (2 * len + r.inp.size + 4) r ByteArray.empty with hs | hs
    · rw [h] at hs; exact absurd hs hst
    · rw [hs, h]

theorem initErr_false_ne_src (seg : List Nat) : initErr seg false ≠ .src := by
  unfold initErr
  cases seg with
  | nil => intro h; cases h
  | cons b0 t =>
    simp only [Bool.false_eq_true, if_false]
    split_ifs <;> (intro h; cases h)

theorem startChunk_src (r : R2) (h : (startChunk r).2 = .err .src) : r.srcErr = true := by
  cases hb : r.srcErr with
  | true => rfl
  | false =>
    exfalso
    have hE : r.endE = .err .unexpectedEOF := by unfold R2.endE; rw [hb]; rfl
    rw [startChunk_eq] at h
    by_cases c1 : r.pos ≥ r.inp.size
    · rw [if_pos c1, hE] at h; cases h
    rw [if_neg c1] at h
    cases hk : Spec.ctrl (Lzma2.get r.inp r.pos) with
    | none => rw [hk] at h; cases h
    | some kind =>
      rw [hk] at h
      dsimp only at h
      by_cases c2 : r.pos + hlenOf kind > r.inp.size
      · rw [if_pos c2, hE] at h; cases h
      rw [if_neg c2] at h
      cases hhp : hpropsOf r.inp r.pos kind with
      | none => rw [hhp] at h; cases h
      | some hp =>
        rw [hhp] at h
        dsimp only at h
        cases hcn : Model.chunkNext r.cstate (Model.ctypeOf kind) with
        | none => rw [hcn] at h; cases h
        | some cs' =>
          rw [hcn] at h
          dsimp only at h
          unfold startBody at h
          dsimp only at h
          by_cases c3 : cs' = Gen.lzma_stateStop
          · rw [if_pos c3] at h; cases h
          rw [if_neg c3] at h
          by_cases c4 : kind = .ud ∨ kind = .u
          · rw [if_pos c4] at h; cases h
          rw [if_neg c4] at h
          split at h
          · rw [hb] at h
            simp only [Bool.false_and] at h
            exact initErr_false_ne_src _ (by injection h)
          · cases h

theorem plainR_id (r : R2) (h1 : r.srcErr = false) (h2 : r.l.srcEnd = false) : plainR r = r := by
  obtain ⟨inp, pos, l, hasDec, segEnd, cstate, cur, uN, uEof, uErr, err, srcErr⟩ := r
  obtain ⟨p, s, tbl, rd, dict, start, size, eos, eosMarker, srcEnd⟩ := l
  simp only at h1 h2
  subst h1; subst h2
  rfl

def r2I (b : Bool) (cfgCap : Nat) (inp : ByteArray) (pos : Nat) : R2 :=
  { inp := inp, pos := pos,
    l := { p := ⟨0, 0, 0⟩, tbl := #[], rd := { range := 0, code := 0, inp := [] },
           dict := Ring.DDict.new (if cfgCap = 0 then 8 * 1024 * 1024 else cfgCap), size := none },
    srcErr := b }

theorem newReader2AtE_eq (b : Bool) (cfgCap : Nat) (inp : ByteArray) (pos : Nat) :
    newReader2AtE b cfgCap inp pos =
      match startChunk (r2I b cfgCap inp pos) with
      | (r', .ok) => r'
      | (r', st) => { r' with err := some st } := rfl

theorem startChunk_errf (r : R2) : (startChunk r).1.err = r.err := by
  rw [startChunk_eq]
  by_cases c1 : r.pos ≥ r.inp.size
  · rw [if_pos c1]
  rw [if_neg c1]
  cases Spec.ctrl (Lzma2.get r.inp r.pos) with
  | none => rfl
  | some kind =>
    dsimp only
    by_cases c2 : r.pos + hlenOf kind > r.inp.size
    · rw [if_pos c2]
    rw [if_neg c2]
    cases hpropsOf r.inp r.pos kind with
    | none => rfl
    | some hp =>
      dsimp only
      cases Model.chunkNext r.cstate (Model.ctypeOf kind) with
      | none => rfl
      | some cs' =>
        dsimp only
        unfold startBody
        dsimp only
        by_cases c3 : cs' = Gen.lzma_stateStop
        · rw [if_pos c3]
        rw [if_neg c3]
        by_cases c4 : kind = .ud ∨ kind = .u
        · rw [if_pos c4]
        rw [if_neg c4]
        split <;> rfl

/-- `NewReader2` for either kind of source, seen through `plainR` -/
theorem open2_sim (b : Bool) (cfgCap : Nat) (inp : ByteArray) (pos : Nat) :
    (newReader2AtE b cfgCap inp pos).err ≠ some (.err .src) →
    plainR (newReader2AtE b cfgCap inp pos) = newReader2At cfgCap inp pos := by
  intro hne
  unfold newReader2At
  rw [newReader2AtE_eq] at hne ⊢
  rw [newReader2AtE_eq]
  have hp : plainR (r2I b cfgCap inp pos) = r2I false cfgCap inp pos := rfl
  rw [← hp]
  rcases startChunk_sim (r2I b cfgCap inp pos) with hs | hs
  · exfalso
    rcases hsc : startChunk (r2I b cfgCap inp pos) with ⟨r', st⟩
    rw [hsc] at hs hne
    simp only at hs
    subst hs
    exact hne rfl
  · rw [hs]
    rcases hsc : startChunk (r2I b cfgCap inp pos) with ⟨r', st⟩
    cases st <;> rfl

theorem lazy2_open_sim (cfgCap : Nat) (inp : ByteArray) (pos : Nat) :
    (newReader2AtE true cfgCap inp pos).err ≠ some (.err .src) →
    plainR (newReader2AtE true cfgCap inp pos) = newReader2At cfgCap inp pos :=
  open2_sim true cfgCap inp pos

theorem newReader2At_err (cfgCap : Nat) (inp : ByteArray) (pos : Nat) :
    (newReader2At cfgCap inp pos).err ≠ some (.err .src) := by
  unfold newReader2At
  rw [newReader2AtE_eq]
  intro h
  have hsrc := startChunk_src (r2I false cfgCap inp pos)
  have herr := startChunk_errf (r2I false cfgCap inp pos)
  rcases hsc : startChunk (r2I false cfgCap inp pos) with ⟨r', st⟩
  rw [hsc] at h hsrc herr
  cases st with
  | ok =>
    simp only at h herr
    rw [herr] at h; cases h
  | eof => simp only at h; cases h
  | err e =>
    simp only at h hsrc
    have : e = .src := by injection h with h; injection h
    subst this
    exact absurd (hsrc rfl) (by simp [r2I])

theorem lazy2_seq_sim (lens : List Nat) : ∀ (r : R2),
    (∀ q ∈ LazyDec2.readSeq r lens, q.2 ≠ .err .src) →
    LazyDec2.readSeq (plainR r) lens = LazyDec2.readSeq r lens := by
  induction lens with
  | nil => intro r _; rfl
  | cons len rest ih =>
    intro r h
    rw [LazyDec2.readSeq] at h ⊢
    rw [LazyDec2.readSeq]
    rcases hrd : LazyDec2.read r len with ⟨r', out, st⟩
    rw [hrd] at h
    simp only at h ⊢
    have hst : st ≠ .err .src := by
      cases st with
      | ok => intro hh; cases hh
      | eof => intro hh; cases hh
      | err e => exact h (out, .err e) (by simp)
    rw [lazy2_read_sim r len r' out st hrd hst]
    simp only
    cases st with
    | ok =>
      simp only at h ⊢
      rw [ih r' (fun q hq => h q (List.mem_cons_of_mem _ hq))]
    | eof => rfl
    | err e => rfl

theorem readSeq2_cons_ne_nil (r : R2) (len : Nat) (rest : List Nat) : LazyDec2.readSeq r (len :: rest) ≠ [] := by
  rw [LazyDec2.readSeq]
  rcases LazyDec2.read r len with ⟨r', out, st⟩
  cases st <;> simp

theorem lazy2_seq_prefix (lens : List Nat) : ∀ (r : R2),
    LazyDec2.readSeq r lens = LazyDec2.readSeq (plainR r) lens ∨
    ∃ pre out, LazyDec2.readSeq r lens = pre ++ [(out, .err .src)] ∧
      ∃ rest, LazyDec2.readSeq (plainR r) lens = pre ++ rest ∧ rest ≠ [] := by
  induction lens with
  | nil => intro r; exact Or.inl rfl
  | cons len rest ih =>
    intro r
    by_cases hsrc : (LazyDec2.read r len).2.2 = .err .src
    · refine Or.inr ⟨[], (LazyDec2.read r len).2.1, ?_, LazyDec2.readSeq (plainR r) (len :: rest), rfl,
        readSeq2_cons_ne_nil _ _ _⟩
      rw [LazyDec2.readSeq]
      rcases hrd : LazyDec2.read r len with ⟨r', out, st⟩
      rw [hrd] at hsrc
      simp only at hsrc
      subst hsrc
      rfl
    · rcases hrd : LazyDec2.read r len with ⟨r', out, st⟩
      rw [hrd] at hsrc
      have hp := lazy2_read_sim r len r' out st hrd hsrc
      rw [LazyDec2.readSeq, LazyDec2.readSeq, hrd, hp]
      simp only
      cases st with
      | eof => exact Or.inl rfl
      | err e => exact Or.inl rfl
      | ok =>
        simp only
        rcases ih r' with h | ⟨pre, o, h1, rs, h2, h3⟩
        · exact Or.inl (by rw [h])
        · exact Or.inr ⟨(out, .ok) :: pre, o, by rw [h1]; rfl, rs, by rw [h2]; rfl, h3⟩

/-! ### xz reader -/

def okEof (st : RStat) : Prop := st = .ok ∨ st = .eof

theorem plainR_srcPos (r : R2) : (plainR r).srcPos = r.srcPos := rfl

/-- a block read that succeeds: the LZMA2 reader did not hand on the source's error -/
theorem blockRead_inner (x : X) (sr : Sr) (b : Blk) (len : Nat) (h : okEof (blockRead x sr b len).2.2.2) :
    okEof (LazyDec2.read b.r2 len).2.2 := by
  rw [blockRead_eq] at h
  rcases hR : LazyDec2.read b.r2 len with ⟨r2', out, st⟩
  rw [hR] at h
  dsimp only at h ⊢
  by_cases c1 : tooBig b.hdr.usize (b.n + out.size) = true
  · rw [if_pos c1] at h; rcases h with h | h <;> cases h
  rw [if_neg c1] at h
  by_cases c2 : tooBig b.hdr.csize (r2'.srcPos - b.start) = true
  · rw [if_pos c2] at h; rcases h with h | h <;> cases h
  rw [if_neg c2] at h
  by_cases c3 : st ≠ .eof
  · rw [if_pos c3] at h; exact h
  · exact Or.inr (by simpa using c3)

theorem ofStatusE_okEof (b : Bool) (st : Status) (h : okEof (ofStatusE b st)) : ofStatusE false st = ofStatusE b st := by
  cases b with
  | false => rfl
  | true =>
    cases st with
    | eof => rfl
    | err w => rfl
    | unexpectedEOF => rcases h with h | h <;> cases h

theorem plainX_f (x : X) : (plainX x).inp = x.inp ∧ (plainX x).pos = x.pos ∧ (plainX x).srcErr = false ∧
    (plainX x).single = x.single ∧ (plainX x).cfgCap = x.cfgCap :=
  ⟨rfl, rfl, rfl, rfl, rfl⟩

theorem plainS_f (sr : Sr) : (plainS sr).flags = sr.flags ∧ (plainS sr).index = sr.index := ⟨rfl, rfl⟩

theorem plainB_f (b : Blk) : (plainB b).hdr = b.hdr ∧ (plainB b).start = b.start ∧ (plainB b).n = b.n ∧
    (plainB b).data = b.data ∧ (plainB b).r2 = plainR b.r2 :=
  ⟨rfl, rfl, rfl, rfl, rfl⟩

theorem blockRead_sim (x : X) (sr : Sr) (b : Blk) (len : Nat) (h : okEof (blockRead x sr b len).2.2.2) :
    blockRead (plainX x) (plainS sr) (plainB b) len =
      (plainX (blockRead x sr b len).1, plainS (blockRead x sr b len).2.1, (blockRead x sr b len).2.2.1,
        (blockRead x sr b len).2.2.2) := by
  have hin := blockRead_inner x sr b len h
  rcases hR : LazyDec2.read b.r2 len with ⟨r2', out, st⟩
  rw [hR] at hin
  have hst : st ≠ .err .src := by
    rcases hin with hh | hh <;> (dsimp only at hh; rw [hh]; intro h'; cases h')
  have hP : LazyDec2.read (plainR b.r2) len = (plainR r2', out, st) := lazy2_read_sim b.r2 len r2' out st hR hst
  rw [blockRead_eq (plainX x)]
  simp only [plainX_f, plainS_f, plainB_f, hP, plainR_srcPos, Bool.false_eq_true, if_false]
  rw [blockRead_eq x, hR] at h ⊢
  dsimp only at h ⊢
  by_cases c1 : tooBig b.hdr.usize (b.n + out.size) = true
  · rw [if_pos c1] at h; rcases h with h | h <;> cases h
  rw [if_neg c1] at h ⊢
  ifn c1
  by_cases c2 : tooBig b.hdr.csize (r2'.srcPos - b.start) = true
  · rw [if_pos c2] at h; rcases h with h | h <;> cases h
  rw [if_neg c2] at h ⊢
  ifn c2
  by_cases c3 : st = .eof
  swap
  · rw [if_pos c3]
    ifn c3
    rfl
  rw [if_neg (not_not.mpr c3)] at h ⊢
  ifp c3
  by_cases c4 : (tooShort b.hdr.usize (b.n + out.size) || tooShort b.hdr.csize (r2'.srcPos - b.start)) = true
  · rw [if_pos c4] at h; rcases h with h | h <;> cases h
  rw [if_neg c4] at h ⊢
  ifn c4
  by_cases c5 : r2'.srcPos + Xz.padLen (r2'.srcPos - b.start) + (Xz.checkSize sr.flags).getD 0 > x.inp.size
  · rw [if_pos c5] at h
    exfalso
    rcases h with h | h <;> (dsimp only at h; split_ifs at h)
  rw [if_neg c5] at h ⊢
  ifn c5
  by_cases c6 : (!Xz.allZero x.inp r2'.srcPos (r2'.srcPos + Xz.padLen (r2'.srcPos - b.start))) = true
  · rw [if_pos c6] at h; rcases h with h | h <;> cases h
  rw [if_neg c6] at h ⊢
  ifn c6
  by_cases c7 : (x.inp.extract (r2'.srcPos + Xz.padLen (r2'.srcPos - b.start))
            (r2'.srcPos + Xz.padLen (r2'.srcPos - b.start) + (Xz.checkSize sr.flags).getD 0)).toList ≠
          (Xz.checkValue sr.flags (b.data ++ out) 0 (b.data ++ out).size).toList
  · rw [if_pos c7] at h; rcases h with h | h <;> cases h
  rw [if_neg c7]
  ifn c7
  rfl

theorem blockRead_srcErr (x : X) (sr : Sr) (b : Blk) (len : Nat) : (blockRead x sr b len).1.srcErr = x.srcErr := by
  rw [blockRead_eq]
  split_ifs <;> rfl

/-- a block reader whose LZMA2 reader has stored an error fails -/
theorem blockRead_r2err (x : X) (sr : Sr) (b : Blk) (len : Nat) (e : Err) (he : b.r2.err = some (.err e)) :
    ¬ okEof (blockRead x sr b len).2.2.2 := by
  intro h
  have := blockRead_inner x sr b len h
  unfold LazyDec2.read at this
  rw [he] at this
  rcases this with h | h <;> cases h

theorem not_okEof_err (e : Err) : ¬ okEof (.err e) := by
  rintro (h | h) <;> cases h

/-- a stream read that finds a block reader whose LZMA2 reader has stored an error fails -/
theorem streamRead_r2err (len fuel : Nat) (x : X) (sr : Sr) (acc : ByteArray) (b : Blk) (e : Err)
    (hbr : sr.br = some b) (he : b.r2.err = some (.err e)) (hlt : acc.size < len) :
    ¬ okEof (streamRead len fuel x sr acc).2.2.2 := by
  cases fuel with
  | zero => exact not_okEof_err _
  | succ fuel =>
    rw [streamRead, if_pos hlt, hbr]
    dsimp only
    have hb := blockRead_r2err x sr b (len - acc.size) e he
    rcases hbrd : blockRead x sr b (len - acc.size) with ⟨x', sr', out, st⟩
    rw [hbrd] at hb
    dsimp only at hb ⊢
    cases st with
    | ok => exact absurd (Or.inl rfl) hb
    | eof => exact absurd (Or.inr rfl) hb
    | err e' => exact not_okEof_err _

theorem streamRead_sim (len : Nat) : ∀ (fuel : Nat) (x : X) (sr : Sr) (acc : ByteArray),
    okEof (streamRead len fuel x sr acc).2.2.2 →
    streamRead len fuel (plainX x) (plainS sr) acc =
      (plainX (streamRead len fuel x sr acc).1, plainS (streamRead len fuel x sr acc).2.1,
        (streamRead len fuel x sr acc).2.2.1, (streamRead len fuel x sr acc).2.2.2) := by
  intro fuel
  induction fuel with
  | zero => intro x sr acc h; exact absurd h (not_okEof_err _)
  | succ fuel ih =>
    intro x sr acc h
    rw [streamRead] at h ⊢
    rw [streamRead]
    by_cases hlt : acc.size < len
    swap
    · rw [if_neg hlt, if_neg hlt]
    rw [if_pos hlt] at h ⊢
    rw [if_pos hlt]
    have hbrp : (plainS sr).br = sr.br.map plainB := rfl
    rw [hbrp]
    cases hbr : sr.br with
    | none =>
      rw [hbr] at h
      dsimp only [Option.map] at h ⊢
      have hi : (plainX x).inp = x.inp := rfl
      have hpz : (plainX x).pos = x.pos := rfl
      have hse : (plainX x).srcErr = false := rfl
      have hcc : (plainX x).cfgCap = x.cfgCap := rfl
      rw [hi, hpz, hse, hcc]
      cases hh : Xz.readBlockHeader false x.inp x.pos with
      | fail st =>
        rw [hh] at h
        dsimp only at h ⊢
        rw [ofStatusE_okEof x.srcErr st h]
      | index =>
        rw [hh] at h
        dsimp only at h ⊢
        have hfl : (plainS sr).flags = sr.flags := rfl
        have hix : (plainS sr).index = sr.index := rfl
        rw [hfl, hix]
        rcases hrt : Xz.readTail sr.flags sr.index { inp := x.inp, pos := x.pos, out := ByteArray.empty } with ⟨rd, st⟩
        rw [hrt] at h
        dsimp only at h ⊢
        by_cases hte : st = .eof
        · rw [if_pos hte, if_pos hte]; rfl
        · rw [if_neg hte] at h
          rw [if_neg hte, if_neg hte]
          rw [ofStatusE_okEof x.srcErr st h]
      | ok hdr =>
        rw [hh] at h
        dsimp only at h ⊢
        by_cases hne : (newReader2AtE x.srcErr (max x.cfgCap (Xz.dictSize hdr.dictCode)) x.inp (x.pos + hdr.len)).err =
            some (.err .src)
        · exfalso
          exact streamRead_r2err len fuel x _ acc _ .src rfl hne hlt h
        · have hopen := open2_sim x.srcErr (max x.cfgCap (Xz.dictSize hdr.dictCode)) x.inp (x.pos + hdr.len) hne
          have := ih x _ acc h
          rw [← this]
          unfold newReader2At at hopen
          rw [← hopen]
          rfl
    | some b =>
      rw [hbr] at h
      dsimp only [Option.map] at h ⊢
      rcases hbrd : blockRead x sr b (len - acc.size) with ⟨x', sr', out, st⟩
      rw [hbrd] at h
      dsimp only at h
      have hbs : okEof st → blockRead (plainX x) (plainS sr) (plainB b) (len - acc.size) =
          (plainX x', plainS sr', out, st) := by
        intro hst
        have := blockRead_sim x sr b (len - acc.size) (by rw [hbrd]; exact hst)
        rw [hbrd] at this
        exact this
      cases st with
      | ok =>
        rw [hbs (Or.inl rfl)]
        dsimp only at h ⊢
        exact ih x' sr' _ h
      | eof =>
        rw [hbs (Or.inr rfl)]
        dsimp only at h ⊢
        exact ih x' sr' _ h
      | err e => exact absurd h (not_okEof_err _)

theorem streamRead_srcErr (len : Nat) : ∀ (fuel : Nat) (x : X) (sr : Sr) (acc : ByteArray),
    (streamRead len fuel x sr acc).1.srcErr = x.srcErr := by
  intro fuel
  induction fuel with
  | zero => intro x sr acc; rfl
  | succ fuel ih =>
    intro x sr acc
    rw [streamRead]
    by_cases hlt : acc.size < len
    swap
    · rw [if_neg hlt]
    rw [if_pos hlt]
    cases hbr : sr.br with
    | none =>
      dsimp only
      cases Xz.readBlockHeader false x.inp x.pos with
      | fail st => rfl
      | index =>
        dsimp only
        split_ifs <;> rfl
      | ok hdr => exact ih _ _ _
    | some b =>
      dsimp only
      have hb := blockRead_srcErr x sr b (len - acc.size)
      rcases hbrd : blockRead x sr b (len - acc.size) with ⟨x', sr', out, st⟩
      rw [hbrd] at hb
      dsimp only at hb ⊢
      cases st with
      | ok => rw [ih]; exact hb
      | eof => rw [ih]; exact hb
      | err e => exact hb

/-- the padding skipper depends on the state only through the input and the flag -/
theorem skip_sim (x : X) : ∀ (f p : Nat),
    match readLoop.skip x f p with
    | .ok sr pos => readLoop.skip (plainX x) f p = .ok sr pos ∧ plainS sr = sr
    | .fail st => okEof st → readLoop.skip (plainX x) f p = .fail st
    | .padding _ => True := by
  intro f
  induction f with
  | zero => intro p; rw [readLoop.skip.eq_1]; trivial
  | succ f ih =>
    intro p
    rw [readLoop.skip.eq_2, readLoop.skip.eq_2]
    have hi : (plainX x).inp = x.inp := rfl
    have hse : (plainX x).srcErr = false := rfl
    rw [hi, hse]
    unfold newStreamReaderE
    cases hh : Xz.readStreamHeader x.inp p with
    | cleanEnd =>
      dsimp only
      intro h
      cases hb : x.srcErr with
      | false => rfl
      | true => rw [hb] at h; exact absurd h (not_okEof_err _)
    | padding => dsimp only; exact ih (p + 4)
    | ok flags => dsimp only; exact ⟨rfl, rfl⟩
    | fail st =>
      dsimp only
      intro h
      rw [ofStatusE_okEof x.srcErr st h]

theorem readLoopX_sim (len : Nat) : ∀ (fuel : Nat) (x : X) (acc : ByteArray),
    okEof (LazyXz.readLoop len fuel x acc).2.2 →
    LazyXz.readLoop len fuel (plainX x) acc =
      (plainX (LazyXz.readLoop len fuel x acc).1, (LazyXz.readLoop len fuel x acc).2.1,
        (LazyXz.readLoop len fuel x acc).2.2) := by
  intro fuel
  induction fuel with
  | zero => intro x acc h; exact absurd h (not_okEof_err _)
  | succ fuel ih =>
    intro x acc h
    rw [LazyXz.readLoop] at h ⊢
    rw [LazyXz.readLoop]
    by_cases hlt : acc.size < len
    swap
    · rw [if_neg hlt, if_neg hlt]
    rw [if_pos hlt] at h ⊢
    rw [if_pos hlt]
    have hsrp : (plainX x).sr = x.sr.map plainS := rfl
    rw [hsrp]
    cases hsr : x.sr with
    | none =>
      rw [hsr] at h
      dsimp only [Option.map] at h ⊢
      have hi : (plainX x).inp = x.inp := rfl
      have hpz : (plainX x).pos = x.pos := rfl
      have hse : (plainX x).srcErr = false := rfl
      have hsg : (plainX x).single = x.single := rfl
      rw [hi, hpz, hse, hsg]
      by_cases hs : x.single = true
      · rw [if_pos hs] at h ⊢
        rw [if_pos hs]
        by_cases hp : x.pos < x.inp.size
        · rw [if_pos hp] at h; exact absurd h (not_okEof_err _)
        · rw [if_neg hp] at h ⊢
          rw [if_neg hp]
          cases hb : x.srcErr with
          | false => rfl
          | true => rw [hb] at h; exact absurd h (not_okEof_err _)
      · rw [if_neg hs] at h ⊢
        rw [if_neg hs]
        have hsk := skip_sim x (x.inp.size / 4 + 2) x.pos
        cases hskr : readLoop.skip x (x.inp.size / 4 + 2) x.pos with
        | ok sr pos =>
          rw [hskr] at h hsk
          dsimp only at h hsk ⊢
          rw [hsk.1]
          dsimp only
          have := ih _ acc h
          rw [← this]
          have hx : plainX { x with pos := pos, sr := some sr } = { plainX x with pos := pos, sr := some sr } := by
            simp only [plainX, Option.map, hsk.2]
          rw [hx]
          rfl
        | fail st =>
          rw [hskr] at h hsk
          dsimp only at h hsk ⊢
          rw [hsk h]
        | padding p => rw [hskr] at h; exact absurd h (not_okEof_err _)
    | some sr =>
      rw [hsr] at h
      dsimp only [Option.map] at h ⊢
      have hi : (plainX x).inp = x.inp := rfl
      rw [hi]
      rcases hst : streamRead (len - acc.size) (len - acc.size + x.inp.size + 4) x sr ByteArray.empty
        with ⟨x', sr', out, st⟩
      rw [hst] at h
      dsimp only at h
      have hss : okEof st → streamRead (len - acc.size) (len - acc.size + x.inp.size + 4) (plainX x) (plainS sr)
          ByteArray.empty = (plainX x', plainS sr', out, st) := by
        intro hok
        have := streamRead_sim (len - acc.size) (len - acc.size + x.inp.size + 4) x sr ByteArray.empty
          (by rw [hst]; exact hok)
        rw [hst] at this
        exact this
      cases st with
      | ok =>
        rw [hss (Or.inl rfl)]
        dsimp only at h ⊢
        exact ih _ _ h
      | eof =>
        rw [hss (Or.inr rfl)]
        dsimp only at h ⊢
        exact ih _ _ h
      | err e => exact absurd h (not_okEof_err _)

theorem lazyxz_read_sim (x : X) (len : Nat) (x' : X) (out : ByteArray) (st : RStat)
    (h : LazyXz.read x len = (x', out, st)) (hst : st = .ok ∨ st = .eof) :
    LazyXz.read (plainX x) len = (plainX x', out, st) := by
  unfold LazyXz.read at h ⊢
  have hi : (plainX x).inp = x.inp := rfl
  rw [hi]
  have := readLoopX_sim len (len + x.inp.size + 4) x ByteArray.empty (by rw [h]; exact hst)
  rw [this, h]

theorem readLoopX_srcErr (len : Nat) : ∀ (fuel : Nat) (x : X) (acc : ByteArray),
    (LazyXz.readLoop len fuel x acc).1.srcErr = x.srcErr := by
  intro fuel
  induction fuel with
  | zero => intro x acc; rfl
  | succ fuel ih =>
    intro x acc
    rw [LazyXz.readLoop]
    by_cases hlt : acc.size < len
    swap
    · rw [if_neg hlt]
    rw [if_pos hlt]
    cases hsr : x.sr with
    | none =>
      dsimp only
      by_cases hs : x.single = true
      · rw [if_pos hs]
        split_ifs <;> rfl
      · rw [if_neg hs]
        cases readLoop.skip x (x.inp.size / 4 + 2) x.pos with
        | ok sr pos => dsimp only; rw [ih]
        | fail st => rfl
        | padding p => rfl
    | some sr =>
      dsimp only
      have hs := streamRead_srcErr (len - acc.size) (len - acc.size + x.inp.size + 4) x sr ByteArray.empty
      rcases hst : streamRead (len - acc.size) (len - acc.size + x.inp.size + 4) x sr ByteArray.empty
        with ⟨x', sr', out, st⟩
      rw [hst] at hs
      dsimp only at hs ⊢
      cases st with
      | ok => rw [ih]; exact hs
      | eof => rw [ih]; exact hs
      | err e => exact hs

theorem lazyxz_read_srcErr (x : X) (len : Nat) : (LazyXz.read x len).1.srcErr = x.srcErr :=
  readLoopX_srcErr _ _ _ _

theorem readLoopX_never_eof (len : Nat) : ∀ (fuel : Nat) (x : X) (acc : ByteArray), x.srcErr = true →
    (LazyXz.readLoop len fuel x acc).2.2 ≠ .eof := by
  intro fuel
  induction fuel with
  | zero => intro x acc _ h; cases h
  | succ fuel ih =>
    intro x acc hx
    rw [LazyXz.readLoop]
    by_cases hlt : acc.size < len
    swap
    · rw [if_neg hlt]; intro h; cases h
    rw [if_pos hlt]
    cases hsr : x.sr with
    | none =>
      dsimp only
      by_cases hs : x.single = true
      · rw [if_pos hs]
        by_cases hp : x.pos < x.inp.size
        · rw [if_pos hp]; intro h; cases h
        · rw [if_neg hp, hx]; intro h; cases h
      · rw [if_neg hs]
        cases hsk : readLoop.skip x (x.inp.size / 4 + 2) x.pos with
        | ok sr pos => dsimp only; exact ih _ _ hx
        | fail st =>
          dsimp only
          intro h
          subst h
          have := skip_fail_eof x _ _ hsk
          rw [hx] at this; cases this
        | padding p => intro h; cases h
    | some sr =>
      dsimp only
      have hs := streamRead_srcErr (len - acc.size) (len - acc.size + x.inp.size + 4) x sr ByteArray.empty
      rcases hst : streamRead (len - acc.size) (len - acc.size + x.inp.size + 4) x sr ByteArray.empty
        with ⟨x', sr', out, st⟩
      rw [hst] at hs
      dsimp only at hs ⊢
      cases st with
      | ok => exact ih _ _ (by show x'.srcErr = true; rw [hs]; exact hx)
      | eof => exact ih _ _ (by show x'.srcErr = true; rw [hs]; exact hx)
      | err e => intro h; cases h

theorem lazyxz_never_eof (x : X) (len : Nat) (hx : x.srcErr = true) : (LazyXz.read x len).2.2 ≠ .eof :=
  readLoopX_never_eof _ _ _ _ hx

theorem lazyxz_seq_never_eof (lens : List Nat) : ∀ (x : X), x.srcErr = true →
    ∀ q ∈ LazyXz.readSeq x lens, q.2 ≠ .eof := by
  induction lens with
  | nil => intro x _ q hq; simp [LazyXz.readSeq] at hq
  | cons len rest ih =>
    intro x hx q hq
    rw [LazyXz.readSeq] at hq
    have hne := lazyxz_never_eof x len hx
    have hse := lazyxz_read_srcErr x len
    rcases hrd : LazyXz.read x len with ⟨x', out, st⟩
    rw [hrd] at hq hne hse
    dsimp only at hq hne hse
    cases st with
    | ok =>
      dsimp only at hq
      rcases List.mem_cons.mp hq with rfl | hq
      · intro h; cases h
      · exact ih x' (by rw [hse]; exact hx) q hq
    | eof => exact absurd rfl hne
    | err e =>
      dsimp only at hq
      have : q = (out, .err e) := by simpa using hq
      subst this
      intro h; cases h

theorem lazyxz_seq_sim (lens : List Nat) : ∀ (x : X),
    (∀ q ∈ LazyXz.readSeq x lens, q.2 = .ok ∨ q.2 = .eof) →
    LazyXz.readSeq (plainX x) lens = LazyXz.readSeq x lens := by
  induction lens with
  | nil => intro x _; rfl
  | cons len rest ih =>
    intro x h
    rw [LazyXz.readSeq] at h ⊢
    rw [LazyXz.readSeq]
    rcases hrd : LazyXz.read x len with ⟨x', out, st⟩
    rw [hrd] at h
    dsimp only at h ⊢
    have hst : st = .ok ∨ st = .eof := by
      cases st with
      | ok => exact Or.inl rfl
      | eof => exact Or.inr rfl
      | err e => exact h (out, .err e) (by simp)
    rw [lazyxz_read_sim x len x' out st hrd hst]
    dsimp only
    cases st with
    | ok =>
      dsimp only at h ⊢
      rw [ih x' (fun q hq => h q (List.mem_cons_of_mem _ hq))]
    | eof => rfl
    | err e => rfl

theorem lazyxz_open_sim (cfgCap : Nat) (single : Bool) (inp : ByteArray) :
    (∀ x, LazyXz.newReaderE true cfgCap single inp = .ok x →
        x.srcErr = true ∧ LazyXz.newReader cfgCap single inp = .ok (plainX x)) ∧
    (∀ st, LazyXz.newReaderE true cfgCap single inp = .error st →
        st ≠ .eof ∧ (st = .err .src ∨ LazyXz.newReader cfgCap single inp = .error st)) := by
  unfold LazyXz.newReader LazyXz.newReaderE
  by_cases hc : cfgCap ≠ 0 ∧ (cfgCap < 4096 ∨ cfgCap > 2 ^ 32 - 1)
  · rw [if_pos hc, if_pos hc]
    exact ⟨(fun x h => by cases h), (fun st h => by cases h; exact ⟨(fun hh => by cases hh), Or.inr rfl⟩)⟩
  rw [if_neg hc, if_neg hc]
  unfold newStreamReaderE
  cases hh : Xz.readStreamHeader inp 0 with
  | cleanEnd =>
    dsimp only
    exact ⟨(fun x h => by cases h), (fun st h => by cases h; exact ⟨(fun hh => by cases hh), Or.inl rfl⟩)⟩
  | padding =>
    dsimp only
    exact ⟨(fun x h => by cases h), (fun st h => by cases h; exact ⟨(fun hh => by cases hh), Or.inr rfl⟩)⟩
  | ok flags =>
    dsimp only
    exact ⟨(fun x h => by cases h; exact ⟨rfl, rfl⟩), (fun st h => by cases h)⟩
  | fail st0 =>
    dsimp only
    cases st0 with
    | eof =>
      exact ⟨(fun x h => by cases h), (fun st h => by cases h; exact ⟨(fun hh => by cases hh), Or.inr rfl⟩)⟩
    | unexpectedEOF =>
      exact ⟨(fun x h => by cases h), (fun st h => by cases h; exact ⟨(fun hh => by cases hh), Or.inl rfl⟩)⟩
    | err w =>
      exact ⟨(fun x h => by cases h), (fun st h => by cases h; exact ⟨(fun hh => by cases hh), Or.inr rfl⟩)⟩

end SrcFailL
