import XzVerif.Proofs.XzRoundTrip
import XzVerif.Proofs.XzSound
import XzVerif.Proofs.PrefixLzma2

/-! The .xz container reader on truncated input. -/

set_option linter.unusedSimpArgs false
set_option linter.unusedVariables false

namespace Xz
open Lzma Lzma2 Rc Spec

/-! ### extension stability of the variable-length integers and of the index record loop -/

theorem readUvarint_go_ext (b y : ByteArray) (pos lim lim' : Nat) (hl : lim ≤ b.size) (hl' : lim ≤ lim') :
    ∀ (fuel i x s v n : Nat), readUvarint.go b pos lim fuel i x s = .ok v n →
      readUvarint.go (b ++ y) pos lim' fuel i x s = .ok v n := by
  intro fuel
  induction fuel with
  | zero => intro i x s v n h; simp [readUvarint.go] at h
  | succ f ih =>
    intro i x s v n h
    rw [readUvarint.go] at h ⊢
    by_cases h1 : pos + i ≥ lim
    · rw [if_pos h1] at h; simp at h
    · rw [if_neg h1] at h
      rw [if_neg (by omega)]
      by_cases h10 : i ≥ 10
      · rw [if_pos h10] at h; simp at h
      rw [if_neg h10] at h ⊢
      have hg : get (b ++ y) (pos + i) = get b (pos + i) := get_append_left (by omega)
      simp only at h ⊢
      rw [hg]
      by_cases h2 : get b (pos + i) < 0x80
      · rw [if_pos h2] at h ⊢
        exact h
      · rw [if_neg h2] at h ⊢
        exact ih _ _ _ _ _ h

theorem readUvarint_ext (b y : ByteArray) (pos lim lim' v n : Nat) (hl : lim ≤ b.size) (hl' : lim ≤ lim')
    (h : readUvarint b pos lim = .ok v n) : readUvarint (b ++ y) pos lim' = .ok v n := by
  unfold readUvarint at h ⊢
  exact readUvarint_go_ext b y pos lim lim' hl hl' _ _ _ _ _ _ h

theorem recLoop_ext (inp y : ByteArray) :
    ∀ (n p : Nat) (acc : Array (Nat × Nat)) (p1 : Nat) (parsed : Array (Nat × Nat)),
      readTail.recLoop inp n p acc = some (p1, .eof, parsed) →
      readTail.recLoop (inp ++ y) n p acc = some (p1, .eof, parsed) := by
  have hsz : inp.size ≤ (inp ++ y).size := by rw [ByteArray.size_append]; omega
  intro n
  induction n with
  | zero =>
    intro p acc p1 parsed h
    rw [readTail.recLoop.eq_1] at h ⊢
    exact h
  | succ n ih =>
    intro p acc p1 parsed h
    rw [readTail.recLoop.eq_2] at h ⊢
    cases hu1 : readUvarint inp p inp.size with
    | eof _ => rw [hu1] at h; simp at h
    | overflow => rw [hu1] at h; simp at h
    | ok a ka =>
      rw [hu1] at h
      rw [readUvarint_ext inp y p inp.size _ a ka (Nat.le_refl _) hsz hu1]
      simp only at h ⊢
      by_cases ha : a ≥ 2 ^ 63
      · rw [if_pos ha] at h; simp at h
      rw [if_neg ha] at h ⊢
      cases hu2 : readUvarint inp (p + ka) inp.size with
      | eof _ => rw [hu2] at h; simp at h
      | overflow => rw [hu2] at h; simp at h
      | ok b kb =>
        rw [hu2] at h
        rw [readUvarint_ext inp y (p + ka) inp.size _ b kb (Nat.le_refl _) hsz hu2]
        simp only at h ⊢
        by_cases hb : b ≥ 2 ^ 63
        · rw [if_pos hb] at h; simp at h
        rw [if_neg hb] at h ⊢
        exact ih _ _ _ _ h

/-! ### index and footer cut short -/

theorem readTail_trunc (flags : Nat) (recs : Array (Nat × Nat))
    (hrec : ∀ x ∈ recs.toList, x.1 < 2 ^ 63 ∧ x.2 < 2 ^ 63) (hn : recs.size < 2 ^ 63)
    (hisz : (indexBytes recs.toList).size / 4 - 1 < 2 ^ 32) (hfl : (checkSize flags).isSome = true)
    (r : RdState) (pre T rest : ByteArray)
    (hsplit : indexBytes recs.toList ++ footerBytes flags (indexBytes recs.toList).size = T ++ rest)
    (hrest : 0 < rest.size) (hinp : r.inp = pre ++ T) (hpos : r.pos = pre.size) :
    (readTail flags recs r).2 ≠ .eof := by
  intro hcl
  obtain ⟨r', hr'⟩ : ∃ r', readTail flags recs r = (r', .eof) := ⟨(readTail flags recs r).1, by rw [← hcl]⟩
  obtain ⟨_, _, _, s4, s5, _, _, _, _, _, _, _, k, p1, parsed, su, sl, _, sp, _⟩ := readTail_sound flags recs r r' hr'
  -- the run on the full input
  let rF : RdState := { r with inp := r.inp ++ rest }
  have hF : rF.inp = pre ++ (indexBytes recs.toList ++ footerBytes flags (indexBytes recs.toList).size) ++
      ByteArray.empty := by
    show r.inp ++ rest = _
    rw [hinp, hsplit, ByteArray.append_empty, ByteArray.append_assoc]
  have hrF := readTail_emit flags recs hrec hn hisz hfl rF pre ByteArray.empty hF hpos
  obtain ⟨_, _, _, t4, t5, _, _, _, _, _, _, _, kF, p1F, parsedF, tu, tl, _, tp, _⟩ := readTail_sound flags recs rF _ hrF
  have hszF : rF.inp.size = r.inp.size + rest.size := ByteArray.size_append
  have e1 := readUvarint_ext r.inp rest (r.pos + 1) r.inp.size rF.inp.size _ _ (Nat.le_refl _) (by omega) su
  have hk : k = kF := by
    have : UvRes.ok recs.size k = UvRes.ok recs.size kF := by rw [← e1]; exact tu
    simp only [UvRes.ok.injEq, true_and] at this
    exact this
  subst hk
  have e2 := recLoop_ext r.inp rest _ _ _ _ _ sl
  have hp1 : p1 = p1F := by
    have : some (p1, Status.eof, parsed) = some (p1F, Status.eof, parsedF) := by rw [← e2]; exact tl
    simp only [Option.some.injEq, Prod.mk.injEq, true_and] at this
    exact this.1
  subst hp1
  dsimp only at t4 t5 tp
  have hTs : (indexBytes recs.toList ++ footerBytes flags (indexBytes recs.toList).size).size = T.size + rest.size := by
    rw [hsplit, ByteArray.size_append]
  rw [ByteArray.size_append, footerBytes_size] at hTs
  have hs := size_trunc hinp
  have t4' : r.pos + 20 ≤ pre.size + (indexBytes recs.toList).size + 12 := t4
  have tp' : pre.size + (indexBytes recs.toList).size + 12 - 16 = p1 + padLen (p1 - r.pos) := tp
  clear t4 t5 tp tu tl e1 e2 su sl hrF hF
  generalize padLen (p1 - r.pos) = pl at *
  generalize (indexBytes recs.toList).size = ix at *
  omega

/-! ### LZMA2 data of a block cut short -/

theorem decode_trunc_shift (strict : Bool) (cap : Nat) (cs : List Chunk)
    (hok : ChunksOk strict (e0 cap) .init cs) (inp pre T rest out : ByteArray)
    (hsplit : chunksBytes (e0 cap) cs ++ ByteArray.empty.push 0 = T ++ rest) (hrest : 0 < rest.size)
    (hinp : inp = pre ++ T) :
    (Lzma2.decode strict cap inp pre.size out).2 ≠ .eof := by
  obtain ⟨hok', hbytes, hfin⟩ := chunks_shift strict out cs (e0 cap) .init hok
  unfold Lzma2.decode
  let r0 : RState := { inp := inp, pos := pre.size, h := { out := out, dictStart := out.size, cap := cap } }
  have hm : Matches r0 (shiftE out (e0 cap)) .init := by
    refine ⟨?_, rfl, rfl, rfl, rfl, empty_tbl_ok⟩
    show (⟨out, out.size, cap⟩ : Hist) = Hist.shift out _
    unfold Hist.shift e0
    simp only [ByteArray.append_empty, Nat.add_zero]
  exact (readAll_trunc strict cs (shiftE out (e0 cap)) .init r0 pre T rest (inp.size - pre.size + 2) hm
    (by simp [SeqState.init]) hok' (by rw [hbytes]; exact hsplit) hrest hinp rfl).1

theorem ite_triple {α β γ : Type} {c : Prop} [Decidable c] {a : α} {s : β} {n : γ} {x y : α × β × γ}
    (h : (if c then (a, s, n) else x) = y) : (c ∧ y.2.1 = s) ∨ (¬c ∧ x = y) := by
  by_cases hc : c
  · rw [if_pos hc] at h; subst h; exact Or.inl ⟨hc, rfl⟩
  · rw [if_neg hc] at h; exact Or.inr ⟨hc, h⟩

/-- a block is accepted only if its LZMA2 layer ended cleanly and padding and check fit into the input -/
theorem readBlock_eof_facts (strict : Bool) (cfgCap flags : Nat) (hdr : BlockHeader) (r : RdState)
    (h : (readBlock strict cfgCap flags hdr r).2.1 = .eof) :
    (Lzma2.decode strict (if strict = true then dictSize hdr.dictCode else max cfgCap (dictSize hdr.dictCode))
      r.inp r.pos r.out).2 = .eof ∧
    (Lzma2.decode strict (if strict = true then dictSize hdr.dictCode else max cfgCap (dictSize hdr.dictCode))
        r.inp r.pos r.out).1.pos +
      padLen ((Lzma2.decode strict (if strict = true then dictSize hdr.dictCode else max cfgCap (dictSize hdr.dictCode))
        r.inp r.pos r.out).1.pos - r.pos) + (checkSize flags).getD 0 ≤ r.inp.size := by
  generalize hy : readBlock strict cfgCap flags hdr r = y at h
  unfold readBlock at hy
  simp only [] at hy
  generalize Lzma2.decode strict _ r.inp r.pos r.out = dres at hy ⊢
  obtain ⟨l2, dst⟩ := dres
  simp only at hy ⊢
  rcases ite_triple hy with ⟨_, h1⟩ | ⟨_, hy⟩
  · rw [h1] at h; simp at h
  rcases ite_triple hy with ⟨_, h1⟩ | ⟨_, hy⟩
  · rw [h1] at h; simp at h
  rcases ite_triple hy with ⟨c3, h1⟩ | ⟨c3, hy⟩
  · rw [h1] at h; exact absurd h c3
  rcases ite_triple hy with ⟨_, h1⟩ | ⟨_, hy⟩
  · rw [h1] at h; simp at h
  rcases ite_triple hy with ⟨_, h1⟩ | ⟨c5, hy⟩
  · rw [h1] at h; simp at h
  exact ⟨not_not.mp c3, by omega⟩


theorem readBlock_trunc (strict : Bool) (cfgCap flags : Nat) (hdr : BlockHeader) (cs : List Chunk)
    (hok : ChunksOk strict (e0 (dictSize hdr.dictCode)) .init cs)
    (hcap : strict = false → cfgCap ≤ dictSize hdr.dictCode)
    (hfl : (checkSize flags).isSome = true)
    (r : RdState) (pre T rest : ByteArray)
    (hsplit : blockBody flags hdr.dictCode cs = T ++ rest) (hrest : 0 < rest.size)
    (hinp : r.inp = pre ++ T) (hpos : r.pos = pre.size) :
    (readBlock strict cfgCap flags hdr r).2.1 ≠ .eof := by
  intro h
  obtain ⟨h1, h2⟩ := readBlock_eof_facts strict cfgCap flags hdr r h
  generalize hdc : hdr.dictCode = dc at *
  have hcapEq : (if strict = true then dictSize dc else max cfgCap (dictSize dc)) = dictSize dc := by
    cases strict with
    | true => rfl
    | false =>
      have := hcap rfl
      simp only [Bool.false_eq_true, if_false]
      omega
  rw [hcapEq, hpos] at h1 h2
  generalize hL : lzBytes dc cs = L at *
  generalize hC : lzContent dc cs = C at *
  generalize hK : checkValue flags C 0 C.size = K at *
  have hKs : K.size = (checkSize flags).getD 0 := by rw [← hK]; exact checkValue_size flags hfl _ _ _
  have hbb : blockBody flags dc cs = L ++ (zeros (padLen L.size) ++ K) := by
    unfold blockBody; rw [hL, hC, hK, ByteArray.append_assoc]
  rw [hbb] at hsplit
  have hsz := size_trunc hinp
  have hLdef : chunksBytes (e0 (dictSize dc)) cs ++ ByteArray.empty.push 0 = L := by rw [← hL]; rfl
  by_cases hfit : L.size ≤ T.size
  · obtain ⟨T3, hT, hrem⟩ := append_split hsplit.symm hfit
    have hrs := congrArg ByteArray.size hrem
    simp only [ByteArray.size_append, zeros_size] at hrs
    obtain ⟨r', hdec, _, hpos', _⟩ := decode_emit_shift strict (dictSize dc) cs hok r.inp pre T3 r.out
      (by rw [hinp, hT, hLdef, ByteArray.append_assoc])
    rw [hdec] at h2
    dsimp only at h2
    have hLs : (chunksBytes (e0 (dictSize dc)) cs).size + 1 = L.size := by
      rw [← hLdef, ByteArray.size_append]; rfl
    rw [hpos'] at h2
    have hTs : T.size = L.size + T3.size := by rw [hT, ByteArray.size_append]
    have e : pre.size + (chunksBytes (e0 (dictSize dc)) cs).size + 1 - pre.size = L.size := by omega
    rw [e] at h2
    omega
  · obtain ⟨m, hLm, hrem⟩ := append_split hsplit (by omega)
    have hm0 : 0 < m.size := by
      have := congrArg ByteArray.size hLm
      rw [ByteArray.size_append] at this
      omega
    exact decode_trunc_shift strict (dictSize dc) cs hok r.inp pre T m r.out (by rw [hLdef]; exact hLm) hm0 hinp h1

/-! ### block header cut short -/

theorem readBlockHeader_trunc (strict : Bool) (h : BlockHeader) (hok : HdrOk h)
    (hs : strict = true → h.csize ≠ some 0) (inp pre T rest : ByteArray)
    (hsplit : blockHeaderBytes h = T ++ rest) (hrest : 0 < rest.size) (hinp : inp = pre ++ T) :
    readBlockHeader strict inp pre.size = .fail .unexpectedEOF := by
  have hsz := size_trunc hinp
  obtain ⟨hlen, _⟩ := hdrBody_size h hok
  have hTs : (blockHeaderBytes h).size = T.size + rest.size := by rw [hsplit, ByteArray.size_append]
  by_cases h0 : T.size = 0
  · unfold readBlockHeader
    rw [if_pos (by omega)]
  have hF : pre ++ blockHeaderBytes h ++ ByteArray.empty = pre ++ blockHeaderBytes h ++ ByteArray.empty := rfl
  have hrF := readBlockHeader_emit strict h hok hs _ pre ByteArray.empty hF
  obtain ⟨_, f2, f3, _⟩ := readBlockHeader_ok_sound strict _ pre.size h hrF
  have hg : get inp pre.size = get (pre ++ blockHeaderBytes h ++ ByteArray.empty) pre.size := by
    have e1 := get_trunc (i := 0) hinp hsplit (by omega)
    have e2 := get_of_eq (i := 0) hF (by omega)
    rw [Nat.add_zero] at e1 e2
    rw [e1, e2]
  rw [← hg] at f2 f3
  unfold readBlockHeader
  rw [if_neg (by omega)]
  simp only []
  rw [if_neg f3, if_pos (by omega)]

/-! ### the block loop cut short -/

theorem readBlockHeader_index' (strict : Bool) (inp : ByteArray) (pos : Nat) (h1 : pos < inp.size)
    (h2 : get inp pos = 0) : readBlockHeader strict inp pos = .index := by
  unfold readBlockHeader
  rw [if_neg (by omega)]
  simp only [h2, if_true]

theorem indexBytes_get0 (recs : List (Nat × Nat)) : get (indexBytes recs) 0 = 0 ∧ 1 ≤ (indexBytes recs).size := by
  obtain ⟨g0, h1⟩ := indexBody_get0 recs
  unfold indexBytes indexPadded
  constructor
  · rw [ByteArray.append_assoc, get_append_left (by omega)]
    exact g0
  · simp only [ByteArray.size_append]; omega

theorem readBlocks_trunc (strict : Bool) (cfgCap flags : Nat) (hfl : (checkSize flags).isSome = true) :
    ∀ (bs : List Block) (fuel : Nat) (r : RdState) (acc : Array Block) (recs : Array (Nat × Nat))
      (pre T rest : ByteArray),
      (∀ b ∈ bs, BlockOk strict flags b) →
      (strict = false → ∀ b ∈ bs, cfgCap ≤ dictSize b.hdr.dictCode) →
      (∀ x ∈ recs.toList, x.1 < 2 ^ 63 ∧ x.2 < 2 ^ 63) →
      recs.size + bs.length < 2 ^ 63 →
      (indexBytes (recs.toList ++ bs.map (blockRec flags))).size / 4 - 1 < 2 ^ 32 →
      blocksBytes flags bs ++ indexBytes (recs.toList ++ bs.map (blockRec flags)) ++
        footerBytes flags (indexBytes (recs.toList ++ bs.map (blockRec flags))).size = T ++ rest →
      0 < rest.size → r.inp = pre ++ T → r.pos = pre.size →
      (readBlocks strict cfgCap flags fuel r acc recs).2.1 ≠ .eof := by
  intro bs
  induction bs with
  | nil =>
    intro fuel r acc recs pre T rest _ _ hrecs hn hisz hsplit hrest hinp hpos
    cases fuel with
    | zero => simp [readBlocks]
    | succ f =>
    simp only [List.map_nil, List.append_nil, blocksBytes, ByteArray.empty_append, List.length_nil,
      Nat.add_zero] at *
    have hsz := size_trunc hinp
    rw [readBlocks, hpos]
    by_cases h0 : T.size = 0
    · have : readBlockHeader strict r.inp pre.size = .fail .unexpectedEOF := by
        unfold readBlockHeader; rw [if_pos (by omega)]
      rw [this]
      simp
    · obtain ⟨g0, _⟩ := indexBytes_get0 recs.toList
      have hg : get r.inp pre.size = 0 := by
        have e1 := get_trunc (i := 0) hinp hsplit (by omega)
        rw [Nat.add_zero] at e1
        rw [e1, get_append_left (by omega)]
        exact g0
      rw [readBlockHeader_index' strict r.inp pre.size (by omega) hg]
      simp only []
      exact readTail_trunc flags recs hrecs hn hisz hfl r pre T rest hsplit hrest hinp hpos
  | cons b bs ih =>
    intro fuel r acc recs pre T rest hbs hcap hrecs hn hisz hsplit hrest hinp hpos
    cases fuel with
    | zero => simp [readBlocks]
    | succ f =>
    have hb := hbs b (List.mem_cons_self)
    obtain ⟨cs, hch, hcs⟩ := hb.chunks
    obtain ⟨hE1, hE2⟩ := blockE_eq b cs hch
    obtain ⟨hhs, hh12⟩ := hdrBody_size b.hdr hb.hdr
    have hbb := blockBytes_eq flags b cs hch
    generalize hIX : indexBytes (recs.toList ++ (b :: bs).map (blockRec flags)) = IX at *
    generalize hFB : footerBytes flags IX.size = FB at *
    have hsz := size_trunc hinp
    have hs0 : strict = true → b.hdr.csize ≠ some 0 := by
      intro _ h0
      have := hb.csize 0 h0
      rw [hE1] at this
      have := lzBytes_size_pos b.hdr.dictCode cs
      omega
    have hsplit1 : blockHeaderBytes b.hdr ++ (blockBody flags b.hdr.dictCode cs ++ (blocksBytes flags bs ++ IX ++ FB)) =
        T ++ rest := by
      rw [← hsplit]; simp only [blocksBytes, hbb, ByteArray.append_assoc]
    rw [readBlocks, hpos]
    by_cases hA : (blockHeaderBytes b.hdr).size ≤ T.size
    · obtain ⟨T2, hT, hrem⟩ := append_split hsplit1.symm hA
      have d1 : r.inp = pre ++ blockHeaderBytes b.hdr ++ T2 := by rw [hinp, hT, ByteArray.append_assoc]
      rw [readBlockHeader_emit strict b.hdr hb.hdr hs0 r.inp pre _ d1]
      simp only []
      by_cases hB : (blockBody flags b.hdr.dictCode cs).size ≤ T2.size
      · obtain ⟨T', hT2, hrem'⟩ := append_split hrem.symm hB
        have d2 : r.inp = (pre ++ blockHeaderBytes b.hdr) ++ blockBody flags b.hdr.dictCode cs ++ T' := by
          rw [d1, hT2]; simp only [ByteArray.append_assoc]
        obtain ⟨blk, hrb, hbc, hbu⟩ := readBlock_emit strict cfgCap flags b.hdr cs hcs
          (fun h => hcap h b (List.mem_cons_self)) hfl
          (by intro c hc; rw [← hE1]; exact hb.csize c hc) (by intro u hu; rw [← hE2]; exact hb.usize u hu)
          { r with pos := pre.size + b.hdr.len } (pre ++ blockHeaderBytes b.hdr) _ d2
          (by show pre.size + b.hdr.len = _; rw [ByteArray.size_append, hhs])
        rw [hrb]
        simp only []
        rw [hbc, hbu, ← hE1, ← hE2]
        have hrec : (b.hdr.len + (blockE b).out.size + (checkSize flags).getD 0, (blockE b).h.out.size) =
            blockRec flags b := rfl
        rw [hrec]
        have hl : (recs.push (blockRec flags b)).toList ++ bs.map (blockRec flags) =
            recs.toList ++ (b :: bs).map (blockRec flags) := by
          simp only [Array.toList_push, List.map_cons, List.append_assoc, List.cons_append, List.nil_append]
        exact ih f
          { r with pos := (pre ++ blockHeaderBytes b.hdr).size + (blockBody flags b.hdr.dictCode cs).size,
                   out := r.out ++ (blockE b).h.out }
          (acc.push blk) (recs.push (blockRec flags b)) (pre ++ blockBytes flags b) T' rest
          (fun x hx => hbs x (List.mem_cons_of_mem _ hx))
          (fun h x hx => hcap h x (List.mem_cons_of_mem _ hx))
          (by
            intro x hx
            rw [Array.toList_push, List.mem_append, List.mem_singleton] at hx
            rcases hx with hx | rfl
            · exact hrecs x hx
            · exact ⟨hb.unpadded, hb.usizeLt⟩)
          (by rw [Array.size_push]; simp only [List.length_cons] at hn; omega)
          (by rw [hl, hIX]; exact hisz)
          (by rw [hl, hIX, hFB]; exact hrem')
          hrest
          (by show r.inp = _; rw [d2, hbb]; simp only [ByteArray.append_assoc])
          (by show _ = (pre ++ blockBytes flags b).size; rw [hbb]; simp only [ByteArray.size_append]; omega)
      · obtain ⟨m, hbm, _⟩ := append_split hrem (by omega)
        have hm0 : 0 < m.size := by
          have := congrArg ByteArray.size hbm
          rw [ByteArray.size_append] at this
          omega
        have hne := readBlock_trunc strict cfgCap flags b.hdr cs hcs (fun h => hcap h b (List.mem_cons_self)) hfl
          { r with pos := pre.size + b.hdr.len } (pre ++ blockHeaderBytes b.hdr) T2 m hbm hm0
          (by show r.inp = _; rw [d1])
          (by show pre.size + b.hdr.len = _; rw [ByteArray.size_append, hhs])
        generalize readBlock strict cfgCap flags b.hdr { r with pos := pre.size + b.hdr.len } = rb at hne ⊢
        obtain ⟨r1, st, blk⟩ := rb
        simp only at hne ⊢
        split
        · exact absurd rfl hne
        · rw [if_neg hne]; exact hne
    · obtain ⟨m, hbm, _⟩ := append_split hsplit1 (by omega)
      have hm0 : 0 < m.size := by
        have := congrArg ByteArray.size hbm
        rw [ByteArray.size_append] at this
        omega
      rw [readBlockHeader_trunc strict b.hdr hb.hdr hs0 r.inp pre T m hbm hm0 hinp]
      simp

/-! ### one stream cut short -/

theorem streamHeader_get0 (flags : Nat) : get (streamHeader flags) 0 = 0xFD := by
  rw [streamHeader_eq, streamHdrB_eq, ByteArray.append_assoc, get_append_left (by rw [headerMagicBytes_size]; omega)]
  rfl

theorem readStreamHeader_trunc (flags : Nat) (inp pre T rest : ByteArray)
    (hsplit : streamHeader flags = T ++ rest) (hrest : 0 < rest.size) (h0 : 0 < T.size) (hinp : inp = pre ++ T) :
    readStreamHeader inp pre.size = .fail .unexpectedEOF := by
  have hsz := size_trunc hinp
  have hTs : (streamHeader flags).size = T.size + rest.size := by rw [hsplit, ByteArray.size_append]
  rw [streamHeader_size] at hTs
  have g0 : get inp pre.size = 0xFD := by
    have e1 := get_trunc (i := 0) hinp hsplit h0
    rw [Nat.add_zero] at e1
    rw [e1, streamHeader_get0]
  unfold readStreamHeader
  rw [if_neg (by omega)]
  by_cases h4 : pre.size + 4 > inp.size
  · rw [if_pos h4]
  · rw [if_neg h4, allZero_false _ _ _ (by omega) (by rw [g0]; omega)]
    simp only [Bool.false_eq_true, if_false]
    rw [if_pos (by omega)]

/-- a stream whose bytes (without stream padding) are cut short is never read to a clean end; the only cut that
    ends cleanly is the one in front of the stream, when an earlier stream has been read -/
theorem readStreams_trunc_core (strict : Bool) (cfgCap : Nat) (single : Bool) (s : Stream) (hok : StreamOk strict s)
    (hcap : CapOk strict cfgCap s) (fuel : Nat) (first : Bool) (r : RdState) (pre T rest : ByteArray)
    (hsplit : streamCore s = T ++ rest) (hrest : 0 < rest.size) (hinp : r.inp = pre ++ T) (hpos : r.pos = pre.size)
    (hft : first = true ∨ 0 < T.size) :
    (readStreams strict cfgCap single fuel first r).2 ≠ .eof := by
  cases fuel with
  | zero => simp [readStreams]
  | succ fuel =>
  have hsz := size_trunc hinp
  generalize hIX : indexBytes (streamRecs s) = IX at *
  have hcore : streamCore s = streamHeader s.flags ++ (blocksBytes s.flags s.blocks.toList ++ IX ++
      footerBytes s.flags IX.size) := by unfold streamCore; rw [hIX]; simp only [ByteArray.append_assoc]
  rw [hcore] at hsplit
  rw [readStreams, hpos]
  by_cases h0 : T.size = 0
  · have hf : first = true := by
      rcases hft with h | h
      · exact h
      · omega
    have : readStreamHeader r.inp pre.size = .cleanEnd := by
      unfold readStreamHeader; rw [if_pos (by omega)]
    rw [this, hf]
    simp
  by_cases hA : (streamHeader s.flags).size ≤ T.size
  · obtain ⟨T2, hT, hrem⟩ := append_split hsplit.symm hA
    have d1 : r.inp = pre ++ streamHeader s.flags ++ T2 := by rw [hinp, hT, ByteArray.append_assoc]
    rw [readStreamHeader_emit s.flags hok.flags r.inp pre _ d1]
    simp only []
    have hnb : s.blocks.toList.length < 2 ^ 63 := by
      have := indexBytes_size_ge (streamRecs s)
      have h2 := hok.indexSize
      rw [hIX] at this h2
      unfold streamRecs at this
      rw [List.length_map] at this
      omega
    have hne := readBlocks_trunc strict cfgCap s.flags hok.flags s.blocks.toList
      (r.inp.size - pre.size + 2) { r with pos := pre.size + 12 } #[] #[] (pre ++ streamHeader s.flags) T2 rest
      hok.blocks hcap (by intro x hx; simp at hx) (by simpa using hnb)
      (by simp only [Array.toList_empty, List.nil_append]; show (indexBytes (streamRecs s)).size / 4 - 1 < _
          have h2 := hok.indexSize
          rw [hIX] at h2 ⊢; exact h2)
      (by simp only [Array.toList_empty, List.nil_append]
          rw [show List.map (blockRec s.flags) s.blocks.toList = streamRecs s from rfl, hIX]
          exact hrem)
      hrest
      (by show r.inp = _; rw [d1])
      (by show pre.size + 12 = _; rw [ByteArray.size_append, streamHeader_size])
    generalize readBlocks strict cfgCap s.flags (r.inp.size - pre.size + 2) { r with pos := pre.size + 12 } #[] #[] = rb
      at hne ⊢
    obtain ⟨r1, st, bs⟩ := rb
    simp only at hne ⊢
    rw [if_pos hne]
    exact hne
  · obtain ⟨m, hbm, _⟩ := append_split hsplit (by omega)
    have hm0 : 0 < m.size := by
      have := congrArg ByteArray.size hbm
      rw [ByteArray.size_append] at this
      omega
    rw [readStreamHeader_trunc s.flags r.inp pre T m hbm hm0 (by omega) hinp]
    simp

/-- **.xz, single stream.** -/
theorem read_trunc_stream (strict : Bool) (cfgCap : Nat) (single : Bool) (s : Stream) (hok : StreamOk strict s)
    (hcap : CapOk strict cfgCap s) (hpad : s.padAfter = 0) (k : Nat) (hk : k < (emitStream s).size) :
    (read strict cfgCap single ((emitStream s).extract 0 k)).status ≠ .eof := by
  have hes : emitStream s = streamCore s := by
    rw [emitStream_eq, hpad]; exact ByteArray.append_empty
  rw [hes] at hk ⊢
  have hsp := Lzma2.extract_split (streamCore s) k (by omega)
  have hrs : 0 < ((streamCore s).extract k (streamCore s).size).size := by rw [ByteArray.size_extract]; omega
  unfold read
  simp only []
  exact readStreams_trunc_core strict cfgCap single s hok hcap _ true
    { inp := (streamCore s).extract 0 k, pos := 0, out := .empty } ByteArray.empty _ _ hsp hrs
    (by show (streamCore s).extract 0 k = _; rw [ByteArray.empty_append]) rfl (Or.inl rfl)

#print axioms Xz.read_trunc_stream

/-! ### chains of streams with padding -/

theorem foldl_push0_len (b : ByteArray) : ∀ (l l' : List Nat), l.length = l'.length →
    l.foldl (fun a _ => a.push 0) b = l'.foldl (fun a _ => a.push 0) b := by
  intro l
  induction l generalizing b with
  | nil =>
    intro l' h
    cases l' with
    | nil => rfl
    | cons _ _ => simp at h
  | cons x l ih =>
    intro l' h
    cases l' with
    | nil => simp at h
    | cons y l' =>
      simp only [List.foldl_cons]
      exact ih _ l' (by simpa using h)

theorem zeros_add (a b : Nat) : zeros (a + b) = zeros a ++ zeros b := by
  unfold zeros
  rw [foldl_push0_len ByteArray.empty (List.range (a + b)) (List.range a ++ List.range b) (by simp),
    List.foldl_append, foldl_push0_zeros b]
  rfl

theorem zeros_prefix (n : Nat) (T m : ByteArray) (h : zeros n = T ++ m) : T = zeros T.size := by
  have hs : n = T.size + m.size := by
    have := congrArg ByteArray.size h
    rw [zeros_size, ByteArray.size_append] at this
    exact this
  rw [hs, zeros_add] at h
  exact (ByteArray.append_inj_left h (by rw [zeros_size])).symm

theorem readStreams_zeros (strict : Bool) (cfgCap : Nat) (single : Bool) :
    ∀ (fuel j : Nat) (r : RdState), (∀ i, i < j → get r.inp (r.pos + i) = 0) → r.pos + j = r.inp.size →
      (readStreams strict cfgCap single fuel false r).2 = .eof → j % 4 = 0 := by
  intro fuel
  induction fuel with
  | zero => intro j r _ _ h; simp [readStreams] at h
  | succ f ih =>
    intro j r hz hsz h
    by_cases h0 : j = 0
    · subst h0; rfl
    by_cases h4 : j < 4
    · exfalso
      rw [readStreams] at h
      have : readStreamHeader r.inp r.pos = .fail .unexpectedEOF := by
        unfold readStreamHeader
        rw [if_neg (by omega), if_pos (by omega)]
      rw [this] at h
      simp at h
    · rw [readStreams, readStreamHeader_padding r.inp r.pos (by omega) (fun i hi => hz i (by omega))] at h
      simp only [Bool.false_eq_true, if_false] at h
      have aux : ∀ r1 : RdState, r1.inp = r.inp → r1.pos = r.pos + 4 →
          (readStreams strict cfgCap single f false r1).2 = .eof → j % 4 = 0 := by
        intro r1 h1 h2 h3
        have := ih (j - 4) r1 (by
          intro i hi
          rw [h1, h2, show r.pos + 4 + i = r.pos + (4 + i) by omega]
          exact hz (4 + i) (by omega)) (by rw [h1, h2]; omega) h3
        omega
      rcases hb : r.streams.back? with _ | s0
      all_goals
        rw [hb] at h
        simp only [] at h
        exact aux _ (by rfl) (by rfl) h

theorem readStreams_pad_steps (strict : Bool) (cfgCap : Nat) (single : Bool) :
    ∀ (m fuel : Nat) (r : RdState), (∀ j, j < 4 * m → get r.inp (r.pos + j) = 0) → r.pos + 4 * m ≤ r.inp.size →
      (readStreams strict cfgCap single fuel false r).2 = .eof →
      ∃ f' r', (readStreams strict cfgCap single f' false r').2 = .eof ∧ r'.inp = r.inp ∧ r'.pos = r.pos + 4 * m := by
  intro m
  induction m with
  | zero => intro fuel r _ _ h; exact ⟨fuel, r, h, rfl, rfl⟩
  | succ m ih =>
    intro fuel r hz hsz h
    cases fuel with
    | zero => simp [readStreams] at h
    | succ f =>
      rw [readStreams, readStreamHeader_padding r.inp r.pos (by omega) (fun j hj => hz j (by omega))] at h
      simp only [Bool.false_eq_true, if_false] at h
      have aux : ∀ r1 : RdState, r1.inp = r.inp → r1.pos = r.pos + 4 →
          (readStreams strict cfgCap single f false r1).2 = .eof →
          ∃ f' r', (readStreams strict cfgCap single f' false r').2 = .eof ∧ r'.inp = r.inp ∧
            r'.pos = r.pos + 4 * (m + 1) := by
        intro r1 h1 h2 h3
        obtain ⟨f', r', g1, g2, g3⟩ := ih f r1 (by
          intro j hj
          rw [h1, h2, show r.pos + 4 + j = r.pos + (4 + j) by omega]
          exact hz (4 + j) (by omega)) (by rw [h1, h2]; omega) h3
        exact ⟨f', r', g1, by rw [g2, h1], by rw [g3, h2]; omega⟩
      rcases hb : r.streams.back? with _ | s0
      all_goals
        rw [hb] at h
        simp only [] at h
        exact aux _ (by rfl) (by rfl) h

theorem readStreams_chain (strict : Bool) (cfgCap : Nat) :
    ∀ (ss : List Stream) (fuel : Nat) (first : Bool) (r : RdState) (pre T rest : ByteArray),
      (∀ s ∈ ss, StreamOk strict s ∧ CapOk strict cfgCap s) →
      emitL ss = T ++ rest → r.inp = pre ++ T → r.pos = pre.size →
      (readStreams strict cfgCap false fuel first r).2 = .eof →
      ∃ ss' : List Stream, (∀ s ∈ ss', StreamOk strict s ∧ CapOk strict cfgCap s) ∧ T = emitL ss' ∧
        ss'.length ≤ ss.length ∧ (first = true → ss' ≠ []) := by
  intro ss
  induction ss with
  | nil =>
    intro fuel first r pre T rest _ hsplit hinp hpos h
    have hT0 : T.size = 0 := by
      have := congrArg ByteArray.size hsplit
      simp only [emitL, ByteArray.size_append, ByteArray.size_empty] at this
      omega
    have hsz := size_trunc hinp
    refine ⟨[], by intro s hs; simp at hs, byteArray_size_zero T hT0, Nat.le_refl _, ?_⟩
    intro hf
    exfalso
    cases fuel with
    | zero => simp [readStreams] at h
    | succ f =>
      rw [readStreams] at h
      have : readStreamHeader r.inp r.pos = .cleanEnd := by
        unfold readStreamHeader; rw [if_pos (by omega)]
      rw [this, hf] at h
      simp at h
  | cons s ss ih =>
    intro fuel first r pre T rest hss hsplit hinp hpos h
    obtain ⟨hok, hcap⟩ := hss s (List.mem_cons_self)
    have hsz := size_trunc hinp
    obtain ⟨m, hm⟩ : ∃ m, s.padAfter = 4 * m := ⟨s.padAfter / 4, by have := hok.pad; omega⟩
    have hes : emitL (s :: ss) = streamCore s ++ (zeros (4 * m) ++ emitL ss) := by
      simp only [emitL]; rw [emitStream_eq, hm, ByteArray.append_assoc]
    rw [hes] at hsplit
    by_cases hA : (streamCore s).size ≤ T.size
    · obtain ⟨T1, hT, hrem⟩ := append_split hsplit.symm hA
      cases fuel with
      | zero => simp [readStreams] at h
      | succ f =>
      have d1 : r.inp = pre ++ streamCore s ++ T1 := by rw [hinp, hT, ByteArray.append_assoc]
      obtain ⟨bsOut, h1⟩ := readStreams_stream strict cfgCap false s hok hcap f first r pre T1 d1 hpos
      simp only [Bool.false_eq_true, if_false] at h1
      rw [h1] at h
      generalize hr2 : (⟨r.inp, pre.size + (streamCore s).size, r.out ++ content s, r.streams.push { flags := s.flags, blocks := bsOut }⟩ : RdState) = r2 at h
      have hr2i : r2.inp = r.inp := by rw [← hr2]
      have hr2p : r2.pos = pre.size + (streamCore s).size := by rw [← hr2]
      have hT1s : T.size = (streamCore s).size + T1.size := by rw [hT, ByteArray.size_append]
      have hgz : ∀ (Z c : ByteArray), T1 = Z ++ c → ∀ i, i < Z.size → (∀ i, get Z i = 0) →
          get r2.inp (r2.pos + i) = 0 := by
        intro Z c hZ i hi hz0
        have d2 : r.inp = (pre ++ streamCore s) ++ Z ++ c := by rw [d1, hZ]; simp only [ByteArray.append_assoc]
        rw [hr2i, hr2p, show pre.size + (streamCore s).size = (pre ++ streamCore s).size by rw [ByteArray.size_append],
          get_of_eq d2 hi]
        exact hz0 i
      by_cases hB : (zeros (4 * m)).size ≤ T1.size
      · -- the whole padding is there
        obtain ⟨T', hT1, hrem'⟩ := append_split hrem.symm hB
        have hT1sz : T1.size = 4 * m + T'.size := by rw [hT1, ByteArray.size_append, zeros_size]
        obtain ⟨f', r3, g1, g2, g3⟩ := readStreams_pad_steps strict cfgCap false m f r2
          (fun j hj => hgz (zeros (4 * m)) T' hT1 j (by rw [zeros_size]; exact hj) (fun i => get_zeros _ i))
          (by rw [hr2i, hr2p, hsz]; omega) h
        obtain ⟨ss'', k1, k2, k3, _⟩ := ih f' false r3 (pre ++ streamCore s ++ zeros (4 * m)) T' rest
          (fun x hx => hss x (List.mem_cons_of_mem _ hx)) hrem'
          (by rw [g2, hr2i, d1, hT1]; simp only [ByteArray.append_assoc])
          (by rw [g3, hr2p]; simp only [ByteArray.size_append, zeros_size]) g1
        refine ⟨s :: ss'', ?_, ?_, by simp only [List.length_cons]; omega, by intro _; simp⟩
        · intro x hx
          rcases List.mem_cons.mp hx with rfl | hx
          · exact ⟨hok, hcap⟩
          · exact k1 x hx
        · simp only [emitL]
          rw [emitStream_eq, hm, hT, hT1, k2]
          simp only [ByteArray.append_assoc]
      · -- the cut falls into the padding
        obtain ⟨m2, hzm, _⟩ := append_split hrem (by omega)
        have hT1z := zeros_prefix _ T1 m2 hzm
        have hj : T1.size % 4 = 0 := by
          refine readStreams_zeros strict cfgCap false f T1.size r2 ?_ (by rw [hr2i, hr2p, hsz]; omega) h
          intro i hi
          refine hgz T1 ByteArray.empty (by rw [ByteArray.append_empty]) i hi ?_
          intro i
          rw [hT1z]; exact get_zeros _ i
        let s' : Stream := { s with padAfter := T1.size }
        have hok' : StreamOk strict s' := ⟨hok.flags, hok.blocks, hj, hok.indexSize⟩
        refine ⟨[s'], ?_, ?_, by simp, by intro _; simp⟩
        · intro x hx
          rw [List.mem_singleton] at hx
          subst hx
          exact ⟨hok', hcap⟩
        · simp only [emitL, ByteArray.append_empty]
          rw [emitStream_eq]
          show T = streamCore s ++ zeros T1.size
          rw [← hT1z]
          exact hT
    · -- the cut falls into the stream itself: only the empty cut is possible
      obtain ⟨m', hcm, _⟩ := append_split hsplit (by omega)
      have hm0 : 0 < m'.size := by
        have := congrArg ByteArray.size hcm
        rw [ByteArray.size_append] at this
        omega
      by_cases hft : first = true ∨ 0 < T.size
      · exact absurd h (readStreams_trunc_core strict cfgCap false s hok hcap fuel first r pre T m' hcm hm0 hinp hpos hft)
      · have hT0 : T.size = 0 := by omega
        refine ⟨[], by intro s hs; simp at hs, byteArray_size_zero T hT0, by simp, ?_⟩
        intro hf
        exact absurd (Or.inl hf) hft

/-- **.xz, chains.** -/
theorem read_chain_prefix (strict : Bool) (cfgCap : Nat) (ss : List Stream)
    (hok : ∀ s ∈ ss, StreamOk strict s ∧ CapOk strict cfgCap s) (k : Nat) (hk : k ≤ (emitL ss).size)
    (hclean : (read strict cfgCap false ((emitL ss).extract 0 k)).status = .eof) :
    ∃ ss' : List Stream, ss' ≠ [] ∧ (∀ s ∈ ss', StreamOk strict s ∧ CapOk strict cfgCap s) ∧
      (emitL ss).extract 0 k = emitL ss' ∧ ss'.length ≤ ss.length := by
  have hsp := Lzma2.extract_split (emitL ss) k hk
  unfold read at hclean
  simp only [] at hclean
  obtain ⟨ss', h1, h2, h3, h4⟩ := readStreams_chain strict cfgCap ss _ true
    { inp := (emitL ss).extract 0 k, pos := 0, out := .empty } ByteArray.empty _ _ hok hsp
    (by show (emitL ss).extract 0 k = _; rw [ByteArray.empty_append]) rfl hclean
  exact ⟨ss', h4 rfl, h1, h2, h3⟩

#print axioms Xz.read_chain_prefix

end Xz
