import XzVerif.Model.Writer2F
import XzVerif.Proofs.Writer2
import XzVerif.Proofs.Writer2Size

/-!
  Helper lemmas for Proofs/Writer2F.lean, part 1 (no invariant needed): the sink (`sinkWrite`, `sinkWrites`,
  `segments`), the ghost flag `hit`, and the independence of the encoder part of Model/Writer2.lean from the
  sink bytes `out`.
-/

set_option linter.unusedSimpArgs false
set_option linter.unusedVariables false

namespace W2F
open W2 Lzma Rc Lzma2 Spec

variable {σ : Type}

/-! ### the sink -/

def cat : List ByteArray → ByteArray
  | [] => ByteArray.empty
  | p :: ps => p ++ cat ps

/-- the writer state without the sink bytes -/
def er (w : WSt σ) : WSt σ := { w with out := ByteArray.empty }

theorem sinkWrite_spec (F : Plan) (s : FSt σ) (p : ByteArray) :
    er (sinkWrite F s p).1.w = er s.w ∧ (sinkWrite F s p).1.err = s.err ∧
    (s.hit = true → (sinkWrite F s p).1.hit = true) ∧
    ((sinkWrite F s p).2 = true → (sinkWrite F s p).1.hit = s.hit ∧ (sinkWrite F s p).1.w.out = s.w.out ++ p) ∧
    ((sinkWrite F s p).2 = false → (sinkWrite F s p).1.hit = true) := by
  unfold sinkWrite
  cases F s.calls with
  | none =>
    dsimp only
    exact ⟨rfl, rfl, fun h => h, fun _ => ⟨rfl, rfl⟩, fun h => Bool.noConfusion h⟩
  | some g =>
    dsimp only
    exact ⟨rfl, rfl, fun _ => rfl, fun h => Bool.noConfusion h, fun _ => rfl⟩

theorem sinkWrites_spec (F : Plan) : ∀ (ps : List ByteArray) (s : FSt σ),
    er (sinkWrites F s ps).1.w = er s.w ∧ (sinkWrites F s ps).1.err = s.err ∧
    (s.hit = true → (sinkWrites F s ps).1.hit = true) ∧
    ((sinkWrites F s ps).2 = true →
      (sinkWrites F s ps).1.hit = s.hit ∧ (sinkWrites F s ps).1.w.out = s.w.out ++ cat ps) ∧
    ((sinkWrites F s ps).2 = false → (sinkWrites F s ps).1.hit = true) := by
  intro ps
  induction ps with
  | nil =>
    intro s
    exact ⟨rfl, rfl, fun h => h, fun _ => ⟨rfl, by simp only [sinkWrites, cat, ByteArray.append_empty]⟩,
      fun h => Bool.noConfusion h⟩
  | cons p ps ih =>
    intro s
    obtain ⟨a1, a2, a3, a4, a5⟩ := sinkWrite_spec F s p
    unfold sinkWrites
    rcases hsw : sinkWrite F s p with ⟨s', b⟩
    rw [hsw] at a1 a2 a3 a4 a5
    cases b with
    | false =>
      dsimp only at a1 a2 a3 a4 a5 ⊢
      exact ⟨a1, a2, a3, fun h => Bool.noConfusion h, fun _ => a5 rfl⟩
    | true =>
      dsimp only at a1 a2 a3 a4 a5 ⊢
      obtain ⟨b1, b2, b3, b4, b5⟩ := ih s'
      obtain ⟨c1, c2⟩ := a4 rfl
      refine ⟨b1.trans a1, b2.trans a2, fun h => b3 (a3 h), fun h => ?_, b5⟩
      obtain ⟨d1, d2⟩ := b4 h
      exact ⟨d1.trans c1, by rw [d2, c2, ByteArray.append_assoc]; rfl⟩

theorem extract_split' (a : ByteArray) (k : Nat) : a.extract 0 k ++ a.extract k a.size = a := by
  rw [ByteArray.extract_append_extract, Nat.min_eq_left (Nat.zero_le _)]
  exact ByteArray.extract_zero_max_size

theorem cat_segments (c : Cfg) (w w2 : WSt σ) :
    cat (segments c w w2) = w2.out.extract w.out.size w2.out.size := by
  unfold segments
  simp only []
  generalize w2.out.extract w.out.size w2.out.size = nb
  split
  · split
    · simp only [cat, ByteArray.append_empty]
      rw [extract_split' (nb.extract 3 nb.size), extract_split']
    · simp only [cat, ByteArray.append_empty]
      rw [extract_split']
  · simp only [cat, ByteArray.append_empty]
    rw [extract_split']

/-- `writeChunk` only appends to the sink bytes -/
theorem writeChunk_out (c : Cfg) (w1 w2 : WSt σ) (h : writeChunk c w1 = .ok w2) :
    w2.out = w1.out ++ w2.out.extract w1.out.size w2.out.size := by
  have key : ∀ x : ByteArray, (w1.out ++ x) = w1.out ++ (w1.out ++ x).extract w1.out.size (w1.out ++ x).size := by
    intro x
    rw [ByteArray.extract_append_eq_right rfl (by rw [ByteArray.size_append])]
  unfold writeChunk at h
  simp only [] at h
  split at h
  · unfold writeRaw at h
    simp only [] at h
    split at h
    · cases h
    · split at h
      · cases h
      · have := (Except.ok.inj h).symm
        subst this
        dsimp only
        rw [ByteArray.append_assoc]
        exact key _
  · unfold writeLz at h
    simp only [] at h
    split at h
    · cases h
    · have := (Except.ok.inj h).symm
      subst this
      dsimp only
      rw [ByteArray.append_assoc]
      exact key _

/-! ### the ghost flag `hit` -/

def Res.st : Res σ → FSt σ
  | .ok s => s
  | .err s _ => s
  | .panic s => s

def HitPost (s : FSt σ) : Res σ → Prop
  | .ok s' => s'.hit = s.hit
  | .err _ _ => True
  | .panic s' => s'.hit = s.hit

theorem flushChunk_hit (c : Cfg) (M : Matcher σ) (F : Plan) (s : FSt σ) :
    HitPost s (flushChunk c M F s) ∧ (s.hit = true → (flushChunk c M F s).st.hit = true) := by
  unfold flushChunk
  by_cases hw : s.w.written = 0
  · rw [if_pos hw]; exact ⟨rfl, fun h => h⟩
  · rw [if_neg hw]
    cases encClose c M s.w with
    | error e => exact ⟨trivial, fun h => h⟩
    | ok w1 =>
      dsimp only
      by_cases hp : panics c w1 = true
      · rw [if_pos hp]; exact ⟨rfl, fun h => h⟩
      · rw [if_neg hp]
        cases writeChunk c w1 with
        | error e => exact ⟨trivial, fun h => h⟩
        | ok w2 =>
          dsimp only
          obtain ⟨a1, a2, a3, a4, a5⟩ := sinkWrites_spec F (segments c w1 w2) { s with w := w1 }
          rcases hsw : sinkWrites F { s with w := w1 } (segments c w1 w2) with ⟨s', b⟩
          rw [hsw] at a1 a2 a3 a4 a5
          cases b with
          | false => exact ⟨trivial, fun h => a3 h⟩
          | true =>
            dsimp only at a3 a4 ⊢
            cases Model.chunkNext w2.cstate w2.ctype with
            | none => exact ⟨trivial, fun h => a3 h⟩
            | some cs' => exact ⟨(a4 rfl).1, fun h => a3 h⟩

theorem write_hit (c : Cfg) (M : Matcher σ) (F : Plan) (p : ByteArray) : ∀ (fuel : Nat) (s : FSt σ) (n : Nat),
    ((write c M F p fuel s n).s.hit = s.hit ∨ (write c M F p fuel s n).err ≠ none) ∧
    (s.hit = true → (write c M F p fuel s n).s.hit = true) := by
  intro fuel
  induction fuel with
  | zero => intro s n; exact ⟨Or.inl rfl, fun h => h⟩
  | succ fuel ih =>
    intro s n
    unfold write
    by_cases hlt : n < p.size
    · rw [if_pos hlt]
      simp only []
      split
      · exact ⟨Or.inl rfl, fun h => h⟩
      · generalize (p.extract n _) = q
        rcases encWrite c M q (q.size + 2) s.w 0 with ⟨res, k⟩
        have hfc : ∀ w' : WSt σ,
            ((match flushChunk c M F { s with w := w' } with
              | .err s' e => ({ s := s', n := n + k, err := some e } : WRes σ)
              | .panic s' => { s := s', n := n + k, panic := true }
              | .ok s' => write c M F p fuel s' (n + k)).s.hit = s.hit ∨
             (match flushChunk c M F { s with w := w' } with
              | .err s' e => ({ s := s', n := n + k, err := some e } : WRes σ)
              | .panic s' => { s := s', n := n + k, panic := true }
              | .ok s' => write c M F p fuel s' (n + k)).err ≠ none) ∧
            (s.hit = true →
              (match flushChunk c M F { s with w := w' } with
              | .err s' e => ({ s := s', n := n + k, err := some e } : WRes σ)
              | .panic s' => { s := s', n := n + k, panic := true }
              | .ok s' => write c M F p fuel s' (n + k)).s.hit = true) := by
          intro w'
          obtain ⟨b1, b2⟩ := flushChunk_hit c M F { s with w := w' }
          cases hf : flushChunk c M F { s with w := w' } with
          | ok s' =>
            rw [hf] at b1 b2
            obtain ⟨c1, c2⟩ := ih s' (n + k)
            have e1 : s'.hit = s.hit := b1
            refine ⟨?_, fun h => c2 (b2 h)⟩
            rcases c1 with h | h
            · exact Or.inl (h.trans e1)
            · exact Or.inr h
          | err s' e =>
            rw [hf] at b2
            exact ⟨Or.inr (by simp), fun h => b2 h⟩
          | panic s' =>
            rw [hf] at b1 b2
            exact ⟨Or.inl b1, fun h => b2 h⟩
        cases res with
        | bad w' what => exact ⟨Or.inl rfl, fun h => h⟩
        | broken w' => exact ⟨Or.inl rfl, fun h => h⟩
        | limit w' => exact hfc w'
        | ok w' =>
          dsimp only
          split
          · exact hfc w'
          · exact ih { s with w := w' } (n + k)
    · rw [if_neg hlt]
      exact ⟨Or.inl rfl, fun h => h⟩

theorem flushLoop_hit (c : Cfg) (M : Matcher σ) (F : Plan) : ∀ (fuel : Nat) (s : FSt σ),
    HitPost s (flushLoop c M F fuel s) ∧ (s.hit = true → (flushLoop c M F fuel s).st.hit = true) := by
  intro fuel
  induction fuel with
  | zero => intro s; exact ⟨trivial, fun h => h⟩
  | succ fuel ih =>
    intro s
    unfold flushLoop
    by_cases hw : s.w.written > 0
    · rw [if_pos hw]
      obtain ⟨b1, b2⟩ := flushChunk_hit c M F s
      cases hf : flushChunk c M F s with
      | ok s' =>
        rw [hf] at b1 b2
        dsimp only
        obtain ⟨c1, c2⟩ := ih s'
        have e1 : s'.hit = s.hit := b1
        refine ⟨?_, fun h => c2 (b2 h)⟩
        cases hr : flushLoop c M F fuel s' with
        | ok s'' => rw [hr] at c1; exact (show s''.hit = s'.hit from c1).trans e1
        | err s'' e => trivial
        | panic s'' => rw [hr] at c1; exact (show s''.hit = s'.hit from c1).trans e1
      | err s' e =>
        rw [hf] at b2
        exact ⟨trivial, b2⟩
      | panic s' =>
        rw [hf] at b1 b2
        exact ⟨b1, b2⟩
    · rw [if_neg hw]
      exact ⟨rfl, fun h => h⟩

theorem step_hit_aux (c : Cfg) (M : Matcher σ) (F : Plan) (s : FSt σ) (call : Call) :
    ((step c M F s call).1.hit = s.hit ∨ (step c M F s call).2.err ≠ none) ∧
    (s.hit = true → (step c M F s call).1.hit = true) := by
  cases call with
  | write p =>
    simp only [step]
    by_cases hcl : s.w.closed = true
    · rw [if_pos hcl]; exact ⟨Or.inl rfl, fun h => h⟩
    · rw [if_neg hcl]
      cases he : s.err with
      | some e => exact ⟨Or.inl rfl, fun h => h⟩
      | none => exact write_hit c M F p _ s 0
  | flush =>
    simp only [step]
    by_cases hcl : s.w.closed = true
    · rw [if_pos hcl]; exact ⟨Or.inl rfl, fun h => h⟩
    · rw [if_neg hcl]
      cases he : s.err with
      | some e => exact ⟨Or.inl rfl, fun h => h⟩
      | none =>
        dsimp only
        obtain ⟨b1, b2⟩ := flushLoop_hit c M F (s.w.written + 1) s
        cases hr : flushLoop c M F (s.w.written + 1) s with
        | ok s' => rw [hr] at b1 b2; exact ⟨Or.inl b1, b2⟩
        | err s' e => rw [hr] at b2; exact ⟨Or.inr (by simp), b2⟩
        | panic s' => rw [hr] at b1 b2; exact ⟨Or.inl b1, b2⟩
  | close =>
    simp only [step]
    by_cases hcl : s.w.closed = true
    · rw [if_pos hcl]; exact ⟨Or.inl rfl, fun h => h⟩
    · rw [if_neg hcl]
      cases he : s.err with
      | some e => exact ⟨Or.inl rfl, fun h => h⟩
      | none =>
        dsimp only
        obtain ⟨b1, b2⟩ := flushLoop_hit c M F (s.w.written + 1) s
        cases hr : flushLoop c M F (s.w.written + 1) s with
        | ok s' =>
          rw [hr] at b1 b2
          dsimp only
          obtain ⟨a1, a2, a3, a4, a5⟩ := sinkWrite_spec F s' (ByteArray.empty.push 0)
          rcases hsw : sinkWrite F s' (ByteArray.empty.push 0) with ⟨s'', b⟩
          rw [hsw] at a1 a2 a3 a4 a5
          have e1 : s'.hit = s.hit := b1
          cases b with
          | false => exact ⟨Or.inr (by simp), fun h => a3 (b2 h)⟩
          | true => exact ⟨Or.inl ((a4 rfl).1.trans e1), fun h => a3 (b2 h)⟩
        | err s' e => rw [hr] at b2; exact ⟨Or.inr (by simp), b2⟩
        | panic s' => rw [hr] at b1 b2; exact ⟨Or.inl b1, b2⟩

theorem run_cons (c : Cfg) (M : Matcher σ) (F : Plan) (s : FSt σ) (call : Call) (rest : List Call) :
    run c M F s (call :: rest) =
      ((run c M F (step c M F s call).1 rest).1,
       ((step c M F s call).2, (step c M F s call).1.w.out.size) :: (run c M F (step c M F s call).1 rest).2) := rfl

theorem run_hit_mono (c : Cfg) (M : Matcher σ) (F : Plan) : ∀ (calls : List Call) (s : FSt σ),
    s.hit = true → (run c M F s calls).1.hit = true := by
  intro calls
  induction calls with
  | nil => intro s h; exact h
  | cons call rest ih =>
    intro s h
    rw [run_cons]
    exact ih _ ((step_hit_aux c M F s call).2 h)

/-! ### the encoder does not look at the sink bytes -/

def setOut (w : WSt σ) (o : ByteArray) : WSt σ := { w with out := o }

def opSetOut : OpRes σ → ByteArray → OpRes σ
  | .ok w, o => .ok (setOut w o)
  | .limit w, o => .limit (setOut w o)
  | .broken w, o => .broken (setOut w o)
  | .bad w s, o => .bad (setOut w o) s

def exSetOut : Except Err (WSt σ) → ByteArray → Except Err (WSt σ)
  | .ok w, o => .ok (setOut w o)
  | .error e, _ => .error e

def exEr : Except Err (WSt σ) → Except Err (WSt σ)
  | .ok w => .ok (er w)
  | .error e => .error e

theorem er_eq {a b : WSt σ} (h : er a = er b) : a = setOut b a.out := by
  cases a; cases b
  simp only [er, setOut, WSt.mk.injEq] at h ⊢
  obtain ⟨_, h2, h3, h4, h5, h6, h7, h8, h9, h10, h11, h12, h13, h14, h15⟩ := h
  exact ⟨trivial, h2, h3, h4, h5, h6, h7, h8, h9, h10, h11, h12, h13, h14, h15⟩

theorem er_setOut (w : WSt σ) (o : ByteArray) : er (setOut w o) = er w := rfl

theorem setOut_self (w : WSt σ) : setOut w w.out = w := rfl

theorem encodeOp_setOut (c : Cfg) (w : WSt σ) (o : ByteArray) (g : GoOp) :
    encodeOp c (setOut w o) g = opSetOut (encodeOp c w g) o := by
  have hctx : (setOut w o).ctx c = w.ctx c := rfl
  unfold encodeOp
  simp only [show (setOut w o).s = w.s from rfl, show (setOut w o).look = w.look from rfl,
    show (setOut w o).body = w.body from rfl, show (setOut w o).tbl = w.tbl from rfl,
    show (setOut w o).e = w.e from rfl, hctx]
  by_cases henc : (!g.encodable w.s w.look.size) = true
  · rw [if_pos henc, if_pos henc]; rfl
  · rw [if_neg henc, if_neg henc]
    cases encPathChk w.body.size w.tbl w.e (opEnc (w.ctx c) (classify w.s g)) with
    | none => rfl
    | some r => rfl

theorem compress_succ (c : Cfg) (M : Matcher σ) (all : Bool) (fuel : Nat) (w : WSt σ) :
    compress c M all (fuel + 1) w =
      if w.look.size > (if all then 0 else Gen.lzma_maxMatchLen - 1) then
        (if Gen.lzma_maxCompressed <
            ({ w with m := (M.next w.m w.hist w.look w.s).2 } : WSt σ).digits + 4 + Gen.lzma_opLenMargin then
          .limit { w with m := (M.next w.m w.hist w.look w.s).2 }
        else
          match encodeOp c { w with m := (M.next w.m w.hist w.look w.s).2 } (M.next w.m w.hist w.look w.s).1 with
          | .ok w' => compress c M all fuel w'
          | .limit w' => .limit w'
          | .broken w' => .broken w'
          | .bad w' s => .bad w' s)
      else .ok w := by
  rw [compress]
  rcases hnx : M.next w.m w.hist w.look w.s with ⟨g, m'⟩
  dsimp only
  by_cases h1 : w.look.size > (if all = true then 0 else Gen.lzma_maxMatchLen - 1)
  · rw [if_pos h1, if_pos h1]
    generalize ({ w with m := m' } : WSt σ) = w1
    by_cases h2 : Gen.lzma_maxCompressed < w1.digits + 4 + Gen.lzma_opLenMargin
    · rw [if_pos h2, if_pos h2]
    · rw [if_neg h2, if_neg h2]
      cases encodeOp c w1 g <;> rfl
  · rw [if_neg h1, if_neg h1]

theorem compress_setOut (c : Cfg) (M : Matcher σ) (all : Bool) (o : ByteArray) : ∀ (fuel : Nat) (w : WSt σ),
    compress c M all fuel (setOut w o) = opSetOut (compress c M all fuel w) o := by
  intro fuel
  induction fuel with
  | zero => intro w; rfl
  | succ fuel ih =>
    intro w
    rw [compress_succ, compress_succ]
    have h1 : (setOut w o).look = w.look := rfl
    have h2 : M.next (setOut w o).m (setOut w o).hist (setOut w o).look (setOut w o).s =
        M.next w.m w.hist w.look w.s := rfl
    rw [h2]
    have hw1 : ({ setOut w o with m := (M.next w.m w.hist w.look w.s).2 } : WSt σ) =
        setOut { w with m := (M.next w.m w.hist w.look w.s).2 } o := rfl
    rw [hw1, h1]
    generalize ({ w with m := (M.next w.m w.hist w.look w.s).2 } : WSt σ) = w1
    generalize (M.next w.m w.hist w.look w.s).1 = g
    have hd : (setOut w1 o).digits = w1.digits := rfl
    rw [hd, encodeOp_setOut]
    by_cases hl : w.look.size > (if all = true then 0 else Gen.lzma_maxMatchLen - 1)
    · rw [if_pos hl, if_pos hl]
      by_cases hlim : Gen.lzma_maxCompressed < w1.digits + 4 + Gen.lzma_opLenMargin
      · rw [if_pos hlim, if_pos hlim]; rfl
      · rw [if_neg hlim, if_neg hlim]
        cases encodeOp c w1 g with
        | ok w' => exact ih w'
        | limit w' => rfl
        | broken w' => rfl
        | bad w' s => rfl
    · rw [if_neg hl, if_neg hl]; rfl

theorem encWrite_setOut (c : Cfg) (M : Matcher σ) (p : ByteArray) (o : ByteArray) :
    ∀ (fuel : Nat) (w : WSt σ) (n : Nat),
    encWrite c M p fuel (setOut w o) n = (opSetOut (encWrite c M p fuel w n).1 o, (encWrite c M p fuel w n).2) := by
  intro fuel
  induction fuel with
  | zero => intro w n; rfl
  | succ fuel ih =>
    intro w n
    have hdw : (setOut w o).dictWrite c p n = (setOut (w.dictWrite c p n).1 o, (w.dictWrite c p n).2) := rfl
    unfold encWrite
    simp only []
    rw [hdw]
    dsimp only
    generalize (w.dictWrite c p n).1 = w1
    generalize (w.dictWrite c p n).2 = k
    by_cases hlt : n + k < p.size
    · rw [if_pos hlt, if_pos hlt]
      rw [show (setOut w1 o).look = w1.look from rfl, compress_setOut]
      cases compress c M false (w1.look.size + 1) w1 with
      | ok w2 => exact ih w2 (n + k)
      | limit w2 => rfl
      | broken w2 => rfl
      | bad w2 s => rfl
    · rw [if_neg hlt, if_neg hlt]; rfl

theorem encClose_setOut (c : Cfg) (M : Matcher σ) (w : WSt σ) (o : ByteArray) :
    W2.encClose c M (setOut w o) = exSetOut (W2.encClose c M w) o := by
  unfold W2.encClose
  simp only []
  rw [show (setOut w o).look = w.look from rfl, compress_setOut]
  have hfin : ∀ w' : WSt σ,
      (match closeChk (setOut w' o).body.size 5 (setOut w' o).e with
        | none => (Except.error Err.limit : Except Err (WSt σ))
        | some e' => .ok { setOut w' o with e := (flushOut e' (setOut w' o).body).1,
                                            body := (flushOut e' (setOut w' o).body).2 }) =
      exSetOut (match closeChk w'.body.size 5 w'.e with
        | none => (Except.error Err.limit : Except Err (WSt σ))
        | some e' => .ok { w' with e := (flushOut e' w'.body).1, body := (flushOut e' w'.body).2 }) o := by
    intro w'
    rw [show (setOut w' o).body = w'.body from rfl, show (setOut w' o).e = w'.e from rfl]
    cases closeChk w'.body.size 5 w'.e with
    | none => rfl
    | some e' => rfl
  cases compress c M true (w.look.size + 1) w with
  | ok w' => exact hfin w'
  | limit w' => exact hfin w'
  | broken w' => rfl
  | bad w' s => rfl

theorem writeChunk_setOut (c : Cfg) (w : WSt σ) (o : ByteArray) :
    exEr (writeChunk c (setOut w o)) = exEr (writeChunk c w) := by
  unfold writeChunk
  simp only [show (setOut w o).compressed = w.compressed from rfl, show (setOut w o).ctype = w.ctype from rfl,
    show (setOut w o).body = w.body from rfl, show (setOut w o).lenE c = w.lenE c from rfl]
  split
  · unfold writeRaw
    simp only [show (setOut w o).compressed = w.compressed from rfl, show (setOut w o).lenE c = w.lenE c from rfl]
    split
    · rfl
    · split
      · rfl
      · rfl
  · unfold writeLz
    simp only [show (setOut w o).compressed = w.compressed from rfl]
    split
    · rfl
    · rfl

theorem flushChunk_setOut (c : Cfg) (M : Matcher σ) (w : WSt σ) (o : ByteArray) :
    exEr (W2.flushChunk c M (setOut w o)) = exEr (W2.flushChunk c M w) := by
  unfold W2.flushChunk
  rw [show (setOut w o).written = w.written from rfl]
  by_cases hw : w.written = 0
  · rw [if_pos hw, if_pos hw]; rfl
  · rw [if_neg hw, if_neg hw, encClose_setOut]
    cases W2.encClose c M w with
    | error e => rfl
    | ok w1 =>
      have hwc := writeChunk_setOut c w1 o
      simp only [exSetOut]
      cases h1 : writeChunk c w1 with
      | error e =>
        rw [h1] at hwc
        cases h2 : writeChunk c (setOut w1 o) with
        | error e' => rw [h2] at hwc; simp only [exEr, Except.error.injEq] at hwc; subst hwc; rfl
        | ok w2' => rw [h2] at hwc; simp [exEr] at hwc
      | ok w2 =>
        rw [h1] at hwc
        cases h2 : writeChunk c (setOut w1 o) with
        | error e' => rw [h2] at hwc; simp [exEr] at hwc
        | ok w2' =>
          rw [h2] at hwc
          simp only [exEr, Except.ok.injEq] at hwc
          have := er_eq hwc
          rw [this]
          simp only [show (setOut w2 w2'.out).cstate = w2.cstate from rfl,
            show (setOut w2 w2'.out).ctype = w2.ctype from rfl]
          cases Model.chunkNext w2.cstate w2.ctype with
          | none => rfl
          | some cs' => rfl

end W2F
