import XzVerif.Model.Select
import XzVerif.Proofs.Ring

/-! helper lemmas for Proofs/Select.lean -/
namespace Sel
open Ring W2

/-! ### `matchLen`: bounds that hold for every distance -/

theorem matchLen_le {b : Buf} (hr : b.rear ≤ b.len) (dist : Nat) (p : ByteArray) :
    b.matchLen dist p ≤ p.size := by
  unfold Buf.matchLen
  simp only
  split_ifs with hc hn
  · obtain ⟨_, i2, _, _⟩ := prefixLen_spec p 0 b.data (b.rear - dist) b.len p.size 0 (by omega) (by omega)
    omega
  · obtain ⟨_, i2, _, _⟩ :=
      prefixLen_spec p 0 b.data (b.len - (dist - b.rear)) b.len p.size 0 (by omega) (by omega)
    omega
  · obtain ⟨_, i2, _, _⟩ :=
      prefixLen_spec p 0 b.data (b.len - (dist - b.rear)) b.len p.size 0 (by omega) (by omega)
    generalize prefixLen p 0 b.data (b.len - (dist - b.rear)) b.len p.size 0 = n1 at *
    obtain ⟨_, j2, _, _⟩ := prefixLen_spec p n1 b.data 0 b.len p.size 0 (by omega) (by omega)
    omega

/-- `matchLen` stops at the physical end of the array -/
theorem matchLen_phys {b : Buf} (hr : b.rear ≤ b.len) (dist : Nat) (p : ByteArray) :
    b.rear + b.matchLen dist p ≤ dist + b.len := by
  unfold Buf.matchLen
  simp only
  split_ifs with hc hn
  · obtain ⟨_, _, i3, _⟩ := prefixLen_spec p 0 b.data (b.rear - dist) b.len p.size 0 (by omega) (by omega)
    omega
  · omega
  · obtain ⟨_, i2, i3, _⟩ :=
      prefixLen_spec p 0 b.data (b.len - (dist - b.rear)) b.len p.size 0 (by omega) (by omega)
    generalize prefixLen p 0 b.data (b.len - (dist - b.rear)) b.len p.size 0 = n1 at *
    obtain ⟨_, _, j3, _⟩ := prefixLen_spec p n1 b.data 0 b.len p.size 0 (by omega) (by omega)
    omega

/-! ### the look-ahead -/

theorem peek_size {d : EDict} {a : Abs} {dc bs : Nat} (h : d.Rel a dc bs) (l : Nat) :
    (d.buf.peek l).size = min l (a.W.length - a.r) := by
  rw [← length_toList, peek_eq d.buf a _ h.buf l, List.length_take, List.length_drop]

theorem peek_get {d : EDict} {a : Abs} {dc bs : Nat} (h : d.Rel a dc bs) (l k : Nat)
    (hk : k < (d.buf.peek l).size) : (d.buf.peek l).get! k = a.W[a.r + k]! := by
  rw [peek_size h] at hk
  rw [← get!_toList, peek_eq d.buf a _ h.buf l, getElem!_take _ _ _ (by omega), getElem!_drop]

/-! ### the invariant of the candidate loops -/

/-- the current best `m = (distance, length)` is nothing or an applicable match -/
def Inv (a : Abs) (dc rep0 : Nat) (data : ByteArray) (m : Nat × Nat) : Prop :=
  m.2 = 0 ∨ (1 ≤ m.1 ∧ m.1 ≤ min a.r dc ∧ m.2 ≤ data.size ∧ (2 ≤ m.2 ∨ (m.2 = 1 ∧ m.1 - 1 = rep0)) ∧
    ∀ k, k < m.2 → data.get! k = a.W[a.r - m.1 + k]!)

theorem inv_step {d : EDict} {a : Abs} {dc bs : Nat} (h : d.Rel a dc bs) (l dist rep0 : Nat)
    (h1 : 1 ≤ dist) (h2 : ¬ dist > d.dictLen)
    (hn1 : ¬ (d.buf.matchLen dist (d.buf.peek l) = 1 ∧ dist - 1 ≠ rep0))
    (hn0 : ¬ d.buf.matchLen dist (d.buf.peek l) = 0) :
    Inv a dc rep0 (d.buf.peek l) (dist, d.buf.matchLen dist (d.buf.peek l)) := by
  rw [h.dictLen_eq] at h2
  obtain ⟨e1, e2⟩ := edict_matchLen_sound d a dc bs h dist l h1 (by omega)
  right
  refine ⟨h1, by simp only; omega, e1, ?_, e2⟩
  simp only
  omega

theorem htLoop_inv {d : EDict} {a : Abs} {dc bs : Nat} (h : d.Rel a dc bs) (l rep0 : Nat) :
    ∀ (dists : List Nat), (∀ x ∈ dists, 1 ≤ x) → ∀ (m m' : Nat × Nat),
      Inv a dc rep0 (d.buf.peek l) m → htLoop d (d.buf.peek l) rep0 dists m = some m' →
      Inv a dc rep0 (d.buf.peek l) m' := by
  intro dists
  induction dists with
  | nil =>
    intro _ m m' hm hres
    simp only [htLoop, Option.some.injEq] at hres
    exact hres ▸ hm
  | cons dist rest ih =>
    intro hpos m m' hm hres
    have hp1 : 1 ≤ dist := hpos dist (List.mem_cons_self ..)
    have hrest : ∀ x ∈ rest, 1 ≤ x := fun x hx => hpos x (List.mem_cons_of_mem _ hx)
    rw [htLoop] at hres
    split_ifs at hres with hc
    · exact ih hrest m m' hm hres
    · split at hres
      · cases hres
      · simp only at hres
        split_ifs at hres with c1 c2 c3 c4 c5
        · exact ih hrest m m' hm hres
        · exact ih hrest m m' hm hres
        · exact ih hrest m m' hm hres
        · cases hres
          exact inv_step h l dist rep0 hp1 hc c3 c2
        · exact ih hrest _ m' (inv_step h l dist rep0 hp1 hc c3 c2) hres
        · exact ih hrest m m' hm hres

theorem btMatch_inv {d : EDict} {a : Abs} {dc bs : Nat} (h : d.Rel a dc bs) (l : Nat) (p : BTParams) :
    ∀ (dists : List Nat), (∀ x ∈ dists, 1 ≤ x) → ∀ (m : Nat × Nat) (checked : Nat)
      (res : (Nat × Nat) × Nat × Bool),
      Inv a dc p.rep0 (d.buf.peek l) m → btMatch d (d.buf.peek l) p dists m checked = some res →
      Inv a dc p.rep0 (d.buf.peek l) res.1 := by
  intro dists
  induction dists with
  | nil =>
    intro _ m checked res hm hres
    rw [btMatch] at hres
    split_ifs at hres <;> cases hres <;> exact hm
  | cons dist rest ih =>
    intro hpos m checked res hm hres
    have hp1 : 1 ≤ dist := hpos dist (List.mem_cons_self ..)
    have hrest : ∀ x ∈ rest, 1 ≤ x := fun x hx => hpos x (List.mem_cons_of_mem _ hx)
    rw [btMatch] at hres
    by_cases c0 : checked ≥ p.check
    · rw [if_pos c0] at hres; cases hres; exact hm
    rw [if_neg c0] at hres
    simp only at hres
    by_cases c1 : dist > d.dictLen
    · rw [if_pos c1] at hres; exact ih hrest m _ res hm hres
    rw [if_neg c1] at hres
    split at hres
    · cases hres
    · split_ifs at hres
      · cases hres; exact hm
      · exact ih hrest m _ res hm hres
    · split_ifs at hres with c2 c3 c4 c5 c6
      · cases hres; exact hm
      · exact ih hrest m _ res hm hres
      · exact ih hrest m _ res hm hres
      · exact ih hrest m _ res hm hres
      · cases hres; exact inv_step h l dist p.rep0 hp1 c1 c4 c2
      · exact ih hrest _ _ res (inv_step h l dist p.rep0 hp1 c1 c4 c2) hres
/-! ### no index panic -/

theorem byteBT_ne_none {d : EDict} {a : Abs} {dc bs : Nat} (h : d.Rel a dc bs) (dist off : Nat)
    (hd : ¬ dist > d.dictLen) (hoff : off < a.W.length - a.r) : byteBT d dist off ≠ none := by
  have hroom := h.room
  have hl := h.buf.len_eq
  have hrl := h.buf.rear_lt
  rw [h.dictLen_eq] at hd
  unfold byteBT
  simp only
  rw [if_pos]
  · exact Option.some_ne_none _
  · split_ifs <;> omega

theorem btMatch_ne_none {d : EDict} {a : Abs} {dc bs : Nat} (h : d.Rel a dc bs) (l : Nat) (p : BTParams) :
    ∀ (dists : List Nat) (m : Nat × Nat) (checked : Nat), m.2 ≤ (d.buf.peek l).size →
      ∃ res, btMatch d (d.buf.peek l) p dists m checked = some res ∧ res.1.2 ≤ (d.buf.peek l).size := by
  have hrl : d.buf.rear ≤ d.buf.len := by
    have := h.buf.rear_lt; have := h.buf.len_eq; omega
  have hs := peek_size h l
  intro dists
  induction dists with
  | nil =>
    intro m checked hm
    rw [btMatch]
    split_ifs <;> exact ⟨_, rfl, hm⟩
  | cons dist rest ih =>
    intro m checked hm
    rw [btMatch]
    by_cases c0 : checked ≥ p.check
    · rw [if_pos c0]; exact ⟨_, rfl, hm⟩
    rw [if_neg c0]
    simp only
    by_cases c1 : dist > d.dictLen
    · rw [if_pos c1]; exact ih m _ hm
    rw [if_neg c1]
    have hn := matchLen_le hrl dist (d.buf.peek l)
    split
    · rename_i hq
      split_ifs at hq with c2
      split at hq
      · rename_i hb
        exact absurd hb (byteBT_ne_none h dist (m.2 - 1) c1 (by omega))
      · cases hq
    · split_ifs
      · exact ⟨_, rfl, hm⟩
      · exact ih m _ hm
    · split_ifs
      · exact ⟨_, rfl, hm⟩
      · exact ih m _ hm
      · exact ih m _ hm
      · exact ih m _ hm
      · exact ⟨_, rfl, hn⟩
      · exact ih _ _ hn

theorem byteHT_ne_none {d : EDict} (hr : d.buf.rear < d.buf.len) (dist off : Nat)
    (hoff : off = 0 ∨ ∃ dm, dm < dist ∧ d.buf.rear + off ≤ dm + d.buf.len) : byteHT d dist off ≠ none := by
  unfold byteHT
  simp only
  rw [if_pos]
  · exact Option.some_ne_none _
  · rcases hoff with hoff | ⟨dm, h1, h2⟩ <;> split_ifs <;> omega

theorem htLoop_ne_none {d : EDict} (hr : d.buf.rear < d.buf.len) (data : ByteArray) (rep0 : Nat) :
    ∀ (dists : List Nat), dists.Pairwise (· < ·) → ∀ (m : Nat × Nat),
      (m.2 = 0 ∨ (d.buf.rear + m.2 ≤ m.1 + d.buf.len ∧ ∀ x ∈ dists, m.1 < x)) →
      htLoop d data rep0 dists m ≠ none := by
  intro dists
  induction dists with
  | nil => intro _ m _; simp [htLoop]
  | cons dist rest ih =>
    intro hpw m hm
    obtain ⟨hlt, hpw'⟩ := List.pairwise_cons.mp hpw
    have hm' : m.2 = 0 ∨ (d.buf.rear + m.2 ≤ m.1 + d.buf.len ∧ ∀ x ∈ rest, m.1 < x) := by
      rcases hm with hm | ⟨h1, h2⟩
      · exact Or.inl hm
      · exact Or.inr ⟨h1, fun x hx => h2 x (List.mem_cons_of_mem _ hx)⟩
    have hnew : d.buf.rear + (d.buf.matchLen dist data) ≤ dist + d.buf.len ∧ ∀ x ∈ rest, dist < x :=
      ⟨matchLen_phys (by omega) dist data, hlt⟩
    rw [htLoop]
    split_ifs with hc
    · exact ih hpw' m hm'
    · split
      · rename_i hb
        refine absurd hb (byteHT_ne_none hr dist m.2 ?_)
        rcases hm with hm | ⟨h1, h2⟩
        · exact Or.inl hm
        · exact Or.inr ⟨m.1, h2 dist (List.mem_cons_self ..), h1⟩
      · simp only
        split_ifs
        · exact ih hpw' m hm'
        · exact ih hpw' m hm'
        · exact ih hpw' m hm'
        · exact Option.some_ne_none _
        · exact ih hpw' _ (Or.inr hnew)
        · exact ih hpw' m hm'
end Sel
