import XzVerif.Spec.DictCap
import XzVerif.Model.DictCap

/-! Helper lemmas for C18: monotonicity of the size table and correctness of the binary search. -/

namespace Proofs.DictCap
open Spec Model

theorem dictSize_lt : ∀ b, b < 41 → ∀ a, a < b → dictSize a < dictSize b := by decide

theorem dictSize_strictMono : ∀ c, c < 40 → dictSize c < dictSize (c + 1) := by
  intro c h; exact dictSize_lt (c + 1) (by omega) c (by omega)

theorem dictSize_le {a b : Nat} (hab : a ≤ b) (hb : b ≤ 40) : dictSize a ≤ dictSize b := by
  rcases Nat.lt_or_eq_of_le hab with h | h
  · exact Nat.le_of_lt (dictSize_lt b (by omega) a h)
  · subst h; exact Nat.le_refl _

theorem raw_eq : ∀ c, c < 40 → decodeDictCapRaw c = dictSize c := by decide

theorem loop_spec : ∀ (fuel a b n : Nat), a ≤ b → b ≤ 40 → b - a ≤ fuel →
    (∀ c, c < a → dictSize c < n) → n ≤ dictSize b →
    encodeLoop fuel a b n ≤ 40 ∧ n ≤ dictSize (encodeLoop fuel a b n) ∧
      ∀ c', c' < encodeLoop fuel a b n → dictSize c' < n := by
  intro fuel
  induction fuel with
  | zero =>
    intro a b n hab hb hf hlo hhi
    have : a = b := by omega
    subst this
    simp only [encodeLoop]
    exact ⟨hb, hhi, hlo⟩
  | succ fuel ih =>
    intro a b n hab hb hf hlo hhi
    unfold encodeLoop
    by_cases hlt : a < b
    · simp only [hlt, if_true]
      have hc : a + (b - a) / 2 < b := by omega
      have hca : a ≤ a + (b - a) / 2 := by omega
      generalize hcdef : a + (b - a) / 2 = c at *
      have hc40 : c < 40 := by omega
      rw [raw_eq c hc40]
      by_cases hle : n ≤ dictSize c
      · simp only [hle, if_true]
        by_cases heq : n = dictSize c
        · simp only [heq, if_true]
          refine ⟨by omega, Nat.le_refl _, ?_⟩
          intro c' hc'
          exact dictSize_lt c (by omega) c' hc'
        · simp only [heq, if_false]
          exact ih a c n hca (by omega) (by omega) hlo hle
      · simp only [hle, if_false]
        refine ih (c + 1) b n (by omega) hb (by omega) ?_ hhi
        intro c' hc'
        have := dictSize_le (a := c') (b := c) (by omega) (by omega)
        omega
    · have : a = b := by omega
      subst this
      simp only [Nat.lt_irrefl, if_false]
      exact ⟨hb, hhi, hlo⟩

theorem encode_least (n : Nat) (_h1 : 1 ≤ n) (h2 : n ≤ 2 ^ 32 - 1) :
    let c := encodeDictCap n
    c ≤ 40 ∧ n ≤ dictSize c ∧ ∀ c', c' ≤ 40 → n ≤ dictSize c' → c ≤ c' := by
  have h40 : dictSize 40 = 2 ^ 32 - 1 := by decide
  obtain ⟨ha, hb, hc⟩ := loop_spec 41 0 40 n (by omega) (by omega) (by omega)
    (by intro c hc; omega) (by omega)
  refine ⟨ha, hb, ?_⟩
  intro c' _ hn
  apply Nat.le_of_not_lt
  intro hlt
  have := hc c' hlt
  omega

theorem encode_smallest_size (n : Nat) (h1 : 1 ≤ n) (h2 : n ≤ 2 ^ 32 - 1) :
    ∀ c', c' ≤ 40 → n ≤ dictSize c' → dictSize (encodeDictCap n) ≤ dictSize c' := by
  intro c' hc' hn
  obtain ⟨_, _, hmin⟩ := encode_least n h1 h2
  exact dictSize_le (hmin c' hc' hn) hc'

end Proofs.DictCap
