import XzVerif.Gen.GoSrc
import XzVerif.Codec.LzmaDec
import XzVerif.Proofs.GoSrcEnc
/-
  Proofs.GoSrcTreeEnc — the REGENERATED translation of lzma/treecodecs.go (treeCodec.Encode, treeReverseCodec.Encode:
  loops over the bits of a value, node index `m = (m << 1) | b`, the probability slice indexed by `m` with Go's bounds
  check) and lzma/directcodec.go (directCodec.Encode) refines the PATHS of Codec/Lzma.lean (`treeEnc`, `rtreeEnc`,
  `directEnc`) run through the Nat-level range encoder, including the byte limit.  No index panic, no fuel exhaustion.
  Statements are fixed; only proofs may change.
-/
namespace GoSrcP
open GoSrc Rc Lzma

/-- a path through the Nat-level encoder under the byte limit `L` (`none` = ErrLimit somewhere on the way) -/
def encPathL (L : Nat) : Tbl → Enc → Path → Option (Tbl × Enc)
  | t, e, [] => some (t, e)
  | t, e, (.adaptive a, b) :: π =>
    let e' := e.step ⟨some (t.get a), b⟩
    if e'.out.length > e.out.length ∧ noRoom e L then none
    else encPathL L (t.upd a (pm.next (t.get a) b)) e' π
  | t, e, (.direct, b) :: π =>
    let e' := e.step ⟨none, b⟩
    if e'.out.length > e.out.length ∧ noRoom e L then none
    else encPathL L t e' π

/-- without a limit in reach `encPathL` is `encPath` -/
theorem encPathL_eq_encPath (L : Nat) (t : Tbl) (e : Enc) (π : Path) (t' : Tbl) (e' : Enc)
    (h : encPathL L t e π = some (t', e')) : encPath t e π = (t', e') := by
  induction π generalizing t e with
  | nil =>
    simp only [encPathL, Option.some.injEq] at h
    simp only [encPath]; exact h
  | cons qb π ih =>
    obtain ⟨q, b⟩ := qb
    cases q with
    | adaptive a =>
      simp only [encPathL] at h
      split at h
      · cases h
      · simp only [encPath]; exact ih _ _ h
    | direct =>
      simp only [encPathL] at h
      split at h
      · cases h
      · simp only [encPath]; exact ih _ _ h

/-! ### helper facts -/

theorem step_cacheLen_le (e : Enc) (dn : Decn) (h : 1 ≤ e.cacheLen) : (e.step dn).cacheLen ≤ e.cacheLen + 1 := by
  unfold Enc.step Enc.norm
  split
  · refine Nat.le_trans (shiftLow_cacheLen_le _ ?_) ?_
    · show 1 ≤ (e.apply dn).cacheLen
      rw [apply_cacheLen]; exact h
    · show (e.apply dn).cacheLen + 1 ≤ e.cacheLen + 1
      rw [apply_cacheLen]
  · rw [apply_cacheLen]; omega

theorem bit_facts (v : BitVec 32) (j : Nat) :
    ((BitVec.ushiftRight v j) &&& 1#32).getLsbD 0 = decide ((v.toNat / 2 ^ j) % 2 = 1)
    ∧ ((BitVec.ushiftRight v j) &&& 1#32).toNat = (v.toNat / 2 ^ j) % 2 := by
  have h2 : ((BitVec.ushiftRight v j) &&& 1#32).toNat = (v.toNat / 2 ^ j) % 2 := by
    simp only [BitVec.ushiftRight_eq, BitVec.toNat_and, BitVec.toNat_ushiftRight, BitVec.toNat_ofNat,
      Nat.shiftRight_eq_div_pow]
    exact Nat.and_one_is_mod _
  refine ⟨?_, h2⟩
  simp only [BitVec.getLsbD, Nat.testBit_zero, h2, Nat.mod_mod]

theorem shl_or_toNat (m b : BitVec 32) (hm : m.toNat < 2 ^ 31) (hb : b.toNat ≤ 1) :
    ((BitVec.shiftLeft m 1) ||| b).toNat = 2 * m.toNat + b.toNat := by
  simp only [BitVec.shiftLeft_eq, BitVec.toNat_or, BitVec.toNat_shiftLeft]
  have h1 : m.toNat <<< 1 % 2 ^ 32 = m.toNat <<< 1 := by
    rw [Nat.shiftLeft_eq]; omega
  rw [h1, ← Nat.shiftLeft_add_eq_or_of_lt (by omega : b.toNat < 2 ^ 1), Nat.shiftLeft_eq]
  omega

/-- the probability slice of a Go tree codec is the segment `[base, base + n)` of the model's flat table -/
structure TreeRel (probs : Array (BitVec 16)) (tbl : Tbl) (base n : Nat) : Prop where
  size : probs.size = n
  inb : base + n ≤ tbl.size
  val : ∀ m, m < n → (probs.getD m 0#16).toNat = tbl.get (base + m)

/-- one adaptive bit coded with the slice element `m` of a Go tree codec -/
theorem tree_step (fuel : Nat) (probs : Array (BitVec 16)) (g : T_rangeEncoder) (e : Enc) (L : Nat) (b : BitVec 32)
    (tbl : Tbl) (base N m : Nat)
    (rel : EncRel g e L) (rest : e.Rest) (htbl : tbl.ok) (tr : TreeRel probs tbl base N) (hm : m < N)
    (hcl : e.cacheLen < 2 ^ 62) (hL : L < 2 ^ 63) (hfuel : e.cacheLen ≤ fuel) :
    if (e.step ⟨some (tbl.get (base + m)), b.getLsbD 0⟩).out.length > e.out.length ∧ noRoom e L then
      ∃ g' p', rangeEncoder_EncodeBit fuel g b (probs.getD m 0#16) = Go.Res.ok (Go.Err.named "ErrLimit", g', p')
    else
      ∃ g' p', rangeEncoder_EncodeBit fuel g b (probs.getD m 0#16) = Go.Res.ok (Go.Err.nil, g', p')
        ∧ EncRel g' (e.step ⟨some (tbl.get (base + m)), b.getLsbD 0⟩) L
        ∧ (e.step ⟨some (tbl.get (base + m)), b.getLsbD 0⟩).Rest
        ∧ (e.step ⟨some (tbl.get (base + m)), b.getLsbD 0⟩).cacheLen ≤ e.cacheLen + 1
        ∧ (tbl.upd (base + m) (pm.next (tbl.get (base + m)) (b.getLsbD 0))).ok
        ∧ TreeRel (probs.setIfInBounds m p') (tbl.upd (base + m) (pm.next (tbl.get (base + m)) (b.getLsbD 0))) base N := by
  have hv := tr.val m hm
  have hpok : POk (probs.getD m 0#16).toNat := by rw [hv]; exact htbl _
  have h := EncodeBit_refines fuel g e L b (probs.getD m 0#16) rel rest hpok hcl hL hfuel
  simp only [hv] at h
  split
  · rename_i hc
    rw [if_pos hc] at h
    exact h
  · rename_i hc
    rw [if_neg hc] at h
    obtain ⟨g', hg', rel', rest'⟩ := h
    have hnext : POk (probNext (tbl.get (base + m)) (b.getLsbD 0)) := pm.ok _ _ (htbl _)
    refine ⟨g', _, hg', rel', rest', step_cacheLen_le _ _ rest.cl, Tbl.upd_ok _ htbl _ _ hnext, ?_⟩
    refine ⟨by rw [Array.size_setIfInBounds]; exact tr.size, by unfold Tbl.upd; rw [Array.size_setIfInBounds]; exact tr.inb, ?_⟩
    intro m' hm'
    rw [Tbl.get_upd]
    have hsz := tr.size
    have hinb := tr.inb
    by_cases heq : m' = m
    · subst heq
      rw [if_pos ⟨rfl, by omega⟩]
      simp only [Array.getD_eq_getD_getElem?, Array.getElem?_setIfInBounds_self_of_lt (show m' < probs.size by omega),
        Option.getD_some, BitVec.toNat_ofNat]
      have := hnext.2
      show _ = probNext _ _
      omega
    · rw [if_neg (fun hh => heq (by omega))]
      simp only [Array.getD_eq_getD_getElem?, Array.getElem?_setIfInBounds_ne (Ne.symm heq)]
      have := tr.val m' hm'
      simpa only [Array.getD_eq_getD_getElem?] using this

theorem treeEnc_loop (L : Nat) (v : BitVec 32) (base bits : Nat) (hb2 : bits ≤ 32) (hL : L < 2 ^ 63) (n : Nat) :
    ∀ (fuel : Nat) (tc : T_treeCodec) (g : T_rangeEncoder) (e : Enc) (tbl : Tbl) (err : Go.Err) (m : BitVec 32)
      (i : BitVec 64) (k : Nat),
      k + n = bits + 1 → (0 < n → m.toNat < 2 ^ k) → (i + 1#64).toNat = n →
      EncRel g e L → e.Rest → tbl.ok → TreeRel tc.probTree.probs tbl base (2 ^ bits) →
      e.cacheLen + n < 2 ^ 62 → e.cacheLen + 2 * n + 1 ≤ fuel →
      match encPathL L tbl e (treeEncGo base n m.toNat v.toNat) with
      | none => ∃ tc' g', treeCodec_Encode_loop1 fuel tc g v err m i
                  = Go.Res.ok (Sum.inl (Go.Err.named "ErrLimit", tc', g'))
      | some (tbl', e') => ∃ tc' g' m' i', treeCodec_Encode_loop1 fuel tc g v err m i
                  = Go.Res.ok (Sum.inr (tc', g', v, err, m', i'))
          ∧ EncRel g' e' L ∧ e'.Rest ∧ tbl'.ok ∧ e'.cacheLen ≤ e.cacheLen + n
          ∧ tc'.probTree.bits = tc.probTree.bits ∧ TreeRel tc'.probTree.probs tbl' base (2 ^ bits) := by
  induction n with
  | zero =>
    intro fuel tc g e tbl err m i k hk hm hi rel rest htbl tr hcl hf
    obtain ⟨f, rfl⟩ : ∃ f, fuel = f + 1 := ⟨fuel - 1, by omega⟩
    have hsle : BitVec.sle 0#64 i = false := by
      simp only [BitVec.sle, BitVec.toInt_eq_toNat_cond, decide_eq_false_iff_not]; bv_omega
    unfold treeCodec_Encode_loop1
    simp only [hsle, Bool.false_eq_true, if_false, treeEncGo, encPathL]
    exact ⟨_, _, _, _, rfl, rel, rest, htbl, by omega, rfl, tr⟩
  | succ n ih =>
    intro fuel tc g e tbl err m i k hk hm hi rel rest htbl tr hcl hf
    obtain ⟨f, rfl⟩ : ∃ f, fuel = f + 1 := ⟨fuel - 1, by omega⟩
    have hsle : BitVec.sle 0#64 i = true := by
      simp only [BitVec.sle, BitVec.toInt_eq_toNat_cond, decide_eq_true_eq]; bv_omega
    have hin : i.toNat = n := by bv_omega
    have hmk := hm (by omega)
    have hk2 : 2 ^ k ≤ 2 ^ bits := Nat.pow_le_pow_right (by omega) (by omega)
    obtain ⟨hbit, hbn⟩ := bit_facts v n
    have hstep := tree_step f tc.probTree.probs g e L ((BitVec.ushiftRight v n) &&& 1#32) tbl base (2 ^ bits)
      m.toNat rel rest htbl tr (by omega) (by omega) hL (by omega)
    rw [hbit] at hstep
    have hsize : ¬ tc.probTree.probs.size ≤ m.toNat := by rw [tr.size]; omega
    simp only [treeEncGo, encPathL]
    by_cases hc : (e.step ⟨some (tbl.get (base + m.toNat)), decide (v.toNat / 2 ^ n % 2 = 1)⟩).out.length
        > e.out.length ∧ noRoom e L
    · rw [if_pos hc] at hstep ⊢
      obtain ⟨g', p', hg'⟩ := hstep
      simp only
      unfold treeCodec_Encode_loop1
      simp only [hsle, if_true, hin, hsize, if_false, hg', Go.Res.bind_ok, errLimit_bne]
      exact ⟨_, _, rfl⟩
    · rw [if_neg hc] at hstep ⊢
      obtain ⟨g', p', hg', rel', rest', hcl', htbl', tr'⟩ := hstep
      have hstepeq : treeCodec_Encode_loop1 (f + 1) tc g v err m i
          = treeCodec_Encode_loop1 f
              { tc with probTree := { tc.probTree with probs := tc.probTree.probs.setIfInBounds m.toNat p' } }
              g' v err ((BitVec.shiftLeft m 1) ||| ((BitVec.ushiftRight v n) &&& 1#32)) (i - 1#64) := by
        rw [treeCodec_Encode_loop1]
        simp only [hsle, if_true, hin, hsize, if_false, hg', Go.Res.bind_ok, bne_self_eq_false, Bool.false_eq_true]
      have hm' : treeEncGo base n ((BitVec.shiftLeft m 1) ||| ((BitVec.ushiftRight v n) &&& 1#32)).toNat v.toNat
          = treeEncGo base n (2 * m.toNat + if v.toNat / 2 ^ n % 2 = 1 then 1 else 0) v.toNat := by
        cases n with
        | zero => rfl
        | succ n' =>
          have : 2 ^ k ≤ 2 ^ 31 := Nat.pow_le_pow_right (by omega) (by omega)
          rw [shl_or_toNat _ _ (by omega) (by omega), hbn]
          congr 2
          split <;> omega
      have IH := ih f { tc with probTree := { tc.probTree with probs := tc.probTree.probs.setIfInBounds m.toNat p' } }
        g' _ _ err ((BitVec.shiftLeft m 1) ||| ((BitVec.ushiftRight v n) &&& 1#32)) (i - 1#64) (k + 1) (by omega)
        (fun hn => by
          have : 2 ^ k ≤ 2 ^ 31 := Nat.pow_le_pow_right (by omega) (by omega)
          rw [shl_or_toNat _ _ (by omega) (by omega), hbn, Nat.pow_succ]
          omega)
        (by bv_omega) rel' rest' htbl' tr' (by omega) (by omega)
      rw [hm'] at IH
      rw [hstepeq]
      rcases hp : encPathL L (tbl.upd (base + m.toNat) (pm.next (tbl.get (base + m.toNat)) (decide (v.toNat / 2 ^ n % 2 = 1))))
        (e.step ⟨some (tbl.get (base + m.toNat)), decide (v.toNat / 2 ^ n % 2 = 1)⟩)
        (treeEncGo base n (2 * m.toNat + if v.toNat / 2 ^ n % 2 = 1 then 1 else 0) v.toNat) with _ | ⟨tbl2, e2⟩
      · rw [hp] at IH; exact IH
      · rw [hp] at IH
        obtain ⟨tc2, g2, m2, i2, h1, h2, h3, h4, h5, h6, h7⟩ := IH
        exact ⟨tc2, g2, m2, i2, h1, h2, h3, h4, by omega, by rw [h6], h7⟩

theorem treeCodec_Encode_refines (fuel : Nat) (tc : T_treeCodec) (g : T_rangeEncoder) (e : Enc) (L : Nat) (v : BitVec 32)
    (tbl : Tbl) (base bits : Nat)
    (rel : EncRel g e L) (rest : e.Rest) (htbl : tbl.ok) (hb1 : 1 ≤ bits) (hb2 : bits ≤ 32)
    (hbits : tc.probTree.bits.toNat = bits) (tr : TreeRel tc.probTree.probs tbl base (2 ^ bits))
    (hcl : e.cacheLen + 80 < 2 ^ 62) (hL : L < 2 ^ 63) (hfuel : e.cacheLen + 80 ≤ fuel) :
    match encPathL L tbl e (treeEnc base bits v.toNat) with
    | none => ∃ tc' g', treeCodec_Encode fuel tc g v = Go.Res.ok (Go.Err.named "ErrLimit", tc', g')
    | some (tbl', e') =>
      ∃ tc' g', treeCodec_Encode fuel tc g v = Go.Res.ok (Go.Err.nil, tc', g')
        ∧ EncRel g' e' L ∧ e'.Rest ∧ tbl'.ok ∧ e'.cacheLen ≤ e.cacheLen + bits
        ∧ tc'.probTree.bits = tc.probTree.bits ∧ TreeRel tc'.probTree.probs tbl' base (2 ^ bits) := by
  have hi : (BitVec.setWidth 64 tc.probTree.bits - 1#64 + 1#64).toNat = bits := by
    have := tc.probTree.bits.isLt
    rw [BitVec.sub_add_cancel, BitVec.toNat_setWidth, hbits]; omega
  have h := treeEnc_loop L v base bits hb2 hL bits fuel tc g e tbl Go.Err.nil 1#32
    (BitVec.setWidth 64 tc.probTree.bits - 1#64) 1 (by omega) (fun _ => by decide) hi rel rest htbl tr
    (by omega) (by omega)
  have h1 : (1#32).toNat = 1 := rfl
  rw [h1] at h
  unfold treeCodec_Encode treeEnc
  rcases hp : encPathL L tbl e (treeEncGo base bits 1 v.toNat) with _ | ⟨tbl', e'⟩
  · rw [hp] at h
    obtain ⟨tc', g', hg⟩ := h
    simp only [hg, Go.Res.bind_ok]
    exact ⟨_, _, rfl⟩
  · rw [hp] at h
    obtain ⟨tc', g', m', i', hg, h2, h3, h4, h5, h6, h7⟩ := h
    simp only [hg, Go.Res.bind_ok]
    exact ⟨_, _, rfl, h2, h3, h4, h5, h6, h7⟩

theorem rtreeEnc_loop (L : Nat) (v : BitVec 32) (base bits : Nat) (hb2 : bits ≤ 32) (hL : L < 2 ^ 63) (n : Nat) :
    ∀ (fuel : Nat) (tc : T_treeReverseCodec) (g : T_rangeEncoder) (e : Enc) (tbl : Tbl) (err : Go.Err) (m : BitVec 32)
      (i : BitVec 64) (k : Nat),
      k + n = bits + 1 → (0 < n → m.toNat < 2 ^ k) → i.toNat + n = bits → tc.probTree.bits.toNat = bits →
      EncRel g e L → e.Rest → tbl.ok → TreeRel tc.probTree.probs tbl base (2 ^ bits) →
      e.cacheLen + n < 2 ^ 62 → e.cacheLen + 2 * n + 1 ≤ fuel →
      match encPathL L tbl e (rtreeEncGo base n m.toNat (v.toNat / 2 ^ i.toNat)) with
      | none => ∃ tc' g', treeReverseCodec_Encode_loop1 fuel tc v g err m i
                  = Go.Res.ok (Sum.inl (Go.Err.named "ErrLimit", tc', g'))
      | some (tbl', e') => ∃ tc' g' m' i', treeReverseCodec_Encode_loop1 fuel tc v g err m i
                  = Go.Res.ok (Sum.inr (tc', v, g', err, m', i'))
          ∧ EncRel g' e' L ∧ e'.Rest ∧ tbl'.ok ∧ e'.cacheLen ≤ e.cacheLen + n
          ∧ tc'.probTree.bits = tc.probTree.bits ∧ TreeRel tc'.probTree.probs tbl' base (2 ^ bits) := by
  induction n with
  | zero =>
    intro fuel tc g e tbl err m i k hk hm hi hbits rel rest htbl tr hcl hf
    obtain ⟨f, rfl⟩ : ∃ f, fuel = f + 1 := ⟨fuel - 1, by omega⟩
    have hult : BitVec.ult i (BitVec.setWidth 64 tc.probTree.bits) = false := by
      simp only [BitVec.ult, BitVec.toNat_setWidth, decide_eq_false_iff_not]; omega
    unfold treeReverseCodec_Encode_loop1
    simp only [hult, Bool.false_eq_true, if_false, rtreeEncGo, encPathL]
    exact ⟨_, _, _, _, rfl, rel, rest, htbl, by omega, rfl, tr⟩
  | succ n ih =>
    intro fuel tc g e tbl err m i k hk hm hi hbits rel rest htbl tr hcl hf
    obtain ⟨f, rfl⟩ : ∃ f, fuel = f + 1 := ⟨fuel - 1, by omega⟩
    have hult : BitVec.ult i (BitVec.setWidth 64 tc.probTree.bits) = true := by
      simp only [BitVec.ult, BitVec.toNat_setWidth, decide_eq_true_eq]; omega
    have hmk := hm (by omega)
    have hk2 : 2 ^ k ≤ 2 ^ bits := Nat.pow_le_pow_right (by omega) (by omega)
    obtain ⟨hbit, hbn⟩ := bit_facts v i.toNat
    have hstep := tree_step f tc.probTree.probs g e L ((BitVec.ushiftRight v i.toNat) &&& 1#32) tbl base (2 ^ bits)
      m.toNat rel rest htbl tr (by omega) (by omega) hL (by omega)
    rw [hbit] at hstep
    have hsize : ¬ tc.probTree.probs.size ≤ m.toNat := by rw [tr.size]; omega
    simp only [rtreeEncGo, encPathL]
    have hi1 : (i + 1#64).toNat = i.toNat + 1 := by bv_omega
    by_cases hc : (e.step ⟨some (tbl.get (base + m.toNat)), decide (v.toNat / 2 ^ i.toNat % 2 = 1)⟩).out.length
        > e.out.length ∧ noRoom e L
    · rw [if_pos hc] at hstep ⊢
      obtain ⟨g', p', hg'⟩ := hstep
      simp only
      unfold treeReverseCodec_Encode_loop1
      simp only [hult, if_true, hsize, if_false, hg', Go.Res.bind_ok, errLimit_bne]
      exact ⟨_, _, rfl⟩
    · rw [if_neg hc] at hstep ⊢
      obtain ⟨g', p', hg', rel', rest', hcl', htbl', tr'⟩ := hstep
      have hstepeq : treeReverseCodec_Encode_loop1 (f + 1) tc v g err m i
          = treeReverseCodec_Encode_loop1 f
              { tc with probTree := { tc.probTree with probs := tc.probTree.probs.setIfInBounds m.toNat p' } }
              v g' err ((BitVec.shiftLeft m 1) ||| ((BitVec.ushiftRight v i.toNat) &&& 1#32)) (i + 1#64) := by
        rw [treeReverseCodec_Encode_loop1]
        simp only [hult, if_true, hsize, if_false, hg', Go.Res.bind_ok, bne_self_eq_false, Bool.false_eq_true]
      have hv' : v.toNat / 2 ^ (i + 1#64).toNat = v.toNat / 2 ^ i.toNat / 2 := by
        rw [hi1, Nat.pow_succ, Nat.div_div_eq_div_mul]
      have hm' : rtreeEncGo base n ((BitVec.shiftLeft m 1) ||| ((BitVec.ushiftRight v i.toNat) &&& 1#32)).toNat
            (v.toNat / 2 ^ (i + 1#64).toNat)
          = rtreeEncGo base n (2 * m.toNat + bitOf (decide (v.toNat / 2 ^ i.toNat % 2 = 1)))
              (v.toNat / 2 ^ i.toNat / 2) := by
        rw [hv']
        cases n with
        | zero => rfl
        | succ n' =>
          have : 2 ^ k ≤ 2 ^ 31 := Nat.pow_le_pow_right (by omega) (by omega)
          rw [shl_or_toNat _ _ (by omega) (by omega), hbn]
          congr 2
          unfold bitOf
          by_cases hb : v.toNat / 2 ^ i.toNat % 2 = 1
          · simp only [hb, decide_true, if_true]
          · simp only [hb, decide_false, Bool.false_eq_true, if_false]; omega
      have IH := ih f { tc with probTree := { tc.probTree with probs := tc.probTree.probs.setIfInBounds m.toNat p' } }
        g' _ _ err ((BitVec.shiftLeft m 1) ||| ((BitVec.ushiftRight v i.toNat) &&& 1#32)) (i + 1#64) (k + 1) (by omega)
        (fun hn => by
          have : 2 ^ k ≤ 2 ^ 31 := Nat.pow_le_pow_right (by omega) (by omega)
          rw [shl_or_toNat _ _ (by omega) (by omega), hbn, Nat.pow_succ]
          omega)
        (by omega) hbits rel' rest' htbl' tr' (by omega) (by omega)
      rw [hm'] at IH
      rw [hstepeq]
      rcases hp : encPathL L (tbl.upd (base + m.toNat) (pm.next (tbl.get (base + m.toNat)) (decide (v.toNat / 2 ^ i.toNat % 2 = 1))))
        (e.step ⟨some (tbl.get (base + m.toNat)), decide (v.toNat / 2 ^ i.toNat % 2 = 1)⟩)
        (rtreeEncGo base n (2 * m.toNat + bitOf (decide (v.toNat / 2 ^ i.toNat % 2 = 1)))
          (v.toNat / 2 ^ i.toNat / 2)) with _ | ⟨tbl2, e2⟩
      · rw [hp] at IH; exact IH
      · rw [hp] at IH
        obtain ⟨tc2, g2, m2, i2, h1, h2, h3, h4, h5, h6, h7⟩ := IH
        exact ⟨tc2, g2, m2, i2, h1, h2, h3, h4, by omega, by rw [h6], h7⟩

theorem treeReverseCodec_Encode_refines (fuel : Nat) (tc : T_treeReverseCodec) (g : T_rangeEncoder) (e : Enc) (L : Nat)
    (v : BitVec 32) (tbl : Tbl) (base bits : Nat)
    (rel : EncRel g e L) (rest : e.Rest) (htbl : tbl.ok) (hb1 : 1 ≤ bits) (hb2 : bits ≤ 32)
    (hbits : tc.probTree.bits.toNat = bits) (tr : TreeRel tc.probTree.probs tbl base (2 ^ bits))
    (hcl : e.cacheLen + 80 < 2 ^ 62) (hL : L < 2 ^ 63) (hfuel : e.cacheLen + 80 ≤ fuel) :
    match encPathL L tbl e (rtreeEnc base bits v.toNat) with
    | none => ∃ tc' g', treeReverseCodec_Encode fuel tc v g = Go.Res.ok (Go.Err.named "ErrLimit", tc', g')
    | some (tbl', e') =>
      ∃ tc' g', treeReverseCodec_Encode fuel tc v g = Go.Res.ok (Go.Err.nil, tc', g')
        ∧ EncRel g' e' L ∧ e'.Rest ∧ tbl'.ok ∧ e'.cacheLen ≤ e.cacheLen + bits
        ∧ tc'.probTree.bits = tc.probTree.bits ∧ TreeRel tc'.probTree.probs tbl' base (2 ^ bits) := by
  have h := rtreeEnc_loop L v base bits hb2 hL bits fuel tc g e tbl Go.Err.nil 1#32
    0#64 1 (by omega) (fun _ => by decide) (by simp) hbits rel rest htbl tr
    (by omega) (by omega)
  have h1 : (1#32).toNat = 1 := rfl
  have h0 : v.toNat / 2 ^ (0#64).toNat = v.toNat := by simp
  rw [h1, h0] at h
  unfold treeReverseCodec_Encode rtreeEnc
  rcases hp : encPathL L tbl e (rtreeEncGo base bits 1 v.toNat) with _ | ⟨tbl', e'⟩
  · rw [hp] at h
    obtain ⟨tc', g', hg⟩ := h
    simp only [hg, Go.Res.bind_ok]
    exact ⟨_, _, rfl⟩
  · rw [hp] at h
    obtain ⟨tc', g', m', i', hg, h2, h3, h4, h5, h6, h7⟩ := h
    simp only [hg, Go.Res.bind_ok]
    exact ⟨_, _, rfl, h2, h3, h4, h5, h6, h7⟩

theorem shr_lsb (v : BitVec 32) (j : Nat) :
    (BitVec.ushiftRight v j).getLsbD 0 = decide ((v.toNat / 2 ^ j) % 2 = 1) := by
  simp only [BitVec.getLsbD, Nat.testBit_zero, BitVec.ushiftRight_eq, BitVec.toNat_ushiftRight,
    Nat.shiftRight_eq_div_pow]

theorem directEnc_loop (L : Nat) (v : BitVec 32) (dc : BitVec 8) (tbl : Tbl) (hL : L < 2 ^ 63) (n : Nat) :
    ∀ (fuel : Nat) (g : T_rangeEncoder) (e : Enc) (i : BitVec 64),
      (i + 1#64).toNat = n → n ≤ 32 → EncRel g e L → e.Rest →
      e.cacheLen + n < 2 ^ 62 → e.cacheLen + 2 * n + 1 ≤ fuel →
      match encPathL L tbl e (directEnc n v.toNat) with
      | none => ∃ g', directCodec_Encode_loop1 fuel dc g v i = Go.Res.ok (Sum.inl (Go.Err.named "ErrLimit", g'))
      | some (tbl', e') => ∃ g' i', directCodec_Encode_loop1 fuel dc g v i = Go.Res.ok (Sum.inr (dc, g', v, i'))
          ∧ tbl' = tbl ∧ EncRel g' e' L ∧ e'.Rest ∧ e'.cacheLen ≤ e.cacheLen + n := by
  induction n with
  | zero =>
    intro fuel g e i hi hn rel rest hcl hf
    obtain ⟨f, rfl⟩ : ∃ f, fuel = f + 1 := ⟨fuel - 1, by omega⟩
    have hsle : BitVec.sle 0#64 i = false := by
      simp only [BitVec.sle, BitVec.toInt_eq_toNat_cond, decide_eq_false_iff_not]; bv_omega
    unfold directCodec_Encode_loop1
    simp only [hsle, Bool.false_eq_true, if_false, directEnc, encPathL]
    exact ⟨_, _, rfl, trivial, rel, rest, by omega⟩
  | succ n ih =>
    intro fuel g e i hi hn rel rest hcl hf
    obtain ⟨f, rfl⟩ : ∃ f, fuel = f + 1 := ⟨fuel - 1, by omega⟩
    have hsle : BitVec.sle 0#64 i = true := by
      simp only [BitVec.sle, BitVec.toInt_eq_toNat_cond, decide_eq_true_eq]; bv_omega
    have hin : i.toNat = n := by bv_omega
    have hstep := DirectEncodeBit_refines f g e L (BitVec.ushiftRight v n) rel rest (by omega) hL (by omega)
    simp only [shr_lsb] at hstep
    simp only [directEnc, encPathL]
    by_cases hc : (e.step ⟨none, decide (v.toNat / 2 ^ n % 2 = 1)⟩).out.length > e.out.length ∧ noRoom e L
    · rw [if_pos hc] at hstep ⊢
      obtain ⟨g', hg'⟩ := hstep
      simp only
      unfold directCodec_Encode_loop1
      simp only [hsle, if_true, hin, hg', Go.Res.bind_ok, errLimit_bne]
      exact ⟨_, rfl⟩
    · rw [if_neg hc] at hstep ⊢
      obtain ⟨g', hg', rel', rest'⟩ := hstep
      have hcl' := step_cacheLen_le e ⟨none, decide (v.toNat / 2 ^ n % 2 = 1)⟩ rest.cl
      have hstepeq : directCodec_Encode_loop1 (f + 1) dc g v i = directCodec_Encode_loop1 f dc g' v (i - 1#64) := by
        rw [directCodec_Encode_loop1]
        simp only [hsle, if_true, hin, hg', Go.Res.bind_ok, bne_self_eq_false, Bool.false_eq_true, if_false]
      have IH := ih f g' _ (i - 1#64) (by bv_omega) (by omega) rel' rest' (by omega) (by omega)
      rw [hstepeq]
      rcases hp : encPathL L tbl (e.step ⟨none, decide (v.toNat / 2 ^ n % 2 = 1)⟩) (directEnc n v.toNat)
        with _ | ⟨tbl2, e2⟩
      · rw [hp] at IH; exact IH
      · rw [hp] at IH
        obtain ⟨g2, i2, h1, h2, h3, h4, h5⟩ := IH
        exact ⟨g2, i2, h1, h2, h3, h4, by omega⟩

theorem directCodec_Encode_refines (fuel : Nat) (dc : BitVec 8) (g : T_rangeEncoder) (e : Enc) (L : Nat) (v : BitVec 32)
    (tbl : Tbl) (rel : EncRel g e L) (rest : e.Rest) (hdc : dc.toNat ≤ 32)
    (hcl : e.cacheLen + 80 < 2 ^ 62) (hL : L < 2 ^ 63) (hfuel : e.cacheLen + 80 ≤ fuel) :
    match encPathL L tbl e (directEnc dc.toNat v.toNat) with
    | none => ∃ g', directCodec_Encode fuel dc g v = Go.Res.ok (Go.Err.named "ErrLimit", g')
    | some (tbl', e') =>
      ∃ g', directCodec_Encode fuel dc g v = Go.Res.ok (Go.Err.nil, g')
        ∧ tbl' = tbl ∧ EncRel g' e' L ∧ e'.Rest ∧ e'.cacheLen ≤ e.cacheLen + dc.toNat := by
  have hi : (BitVec.setWidth 64 dc - 1#64 + 1#64).toNat = dc.toNat := by
    have := dc.isLt
    rw [BitVec.sub_add_cancel, BitVec.toNat_setWidth]; omega
  have h := directEnc_loop L v dc tbl hL dc.toNat fuel g e (BitVec.setWidth 64 dc - 1#64) hi hdc rel rest
    (by omega) (by omega)
  unfold directCodec_Encode
  rcases hp : encPathL L tbl e (directEnc dc.toNat v.toNat) with _ | ⟨tbl', e'⟩
  · rw [hp] at h
    obtain ⟨g', hg⟩ := h
    simp only [hg, Go.Res.bind_ok]
    exact ⟨_, rfl⟩
  · rw [hp] at h
    obtain ⟨g', i', hg, h2, h3, h4, h5⟩ := h
    simp only [hg, Go.Res.bind_ok]
    exact ⟨_, rfl, h2, h3, h4, h5⟩

end GoSrcP
