import XzVerif.Model.XzWF
import XzVerif.Proofs.Writer2F
import XzVerif.Proofs.XzW
import XzVerif.Proofs.XzWFLemmas
import XzVerif.Proofs.XzWFSim
/-!
  Proofs about Model/XzWF.lean (the xz writer call by call on a failing sink): the call during which a sink call fails
  returns an error; no call of any history panics, whatever the fault plan; a run during which no sink call failed
  produces exactly the stream of the batch model Model/XzW.lean, so "NewWriter and every call returned nil" implies
  "the sink holds the complete valid stream of the data written" (with `XzW.xz_writer_roundtrip`).
-/
namespace XzWF
open W2 W2F

variable {σ : Type}

def allOk (rs : List (CallRes × Nat)) : Prop := ∀ r ∈ rs, r.1.err = none

/-- the Write calls of a history -/
def writesOf : List Call → List ByteArray
  | [] => []
  | .write p :: r => p :: writesOf r
  | .close :: r => writesOf r

/-- T1. the call during which a sink call fails for the first time returns a non-nil error (no hypothesis) -/
theorem step_hit (c : XzW.Cfg) (M : Matcher σ) (F : Plan) (m0 : σ) (s : St σ) (call : Call)
    (h0 : s.f.hit = false) (h1 : (step c M F m0 s call).1.f.hit = true) :
    (step c M F m0 s call).2.err ≠ none := by
  rcases step_hitOk c M F m0 s call with h | ⟨h, _⟩
  · rw [h, h0] at h1; cases h1
  · exact h

/-- T1'. NewWriter: a failing sink call makes NewWriter fail -/
theorem new_ok_no_hit (c : XzW.Cfg) (F : Plan) (m0 : σ) (s : St σ) (h : new c F m0 = .ok s) : s.f.hit = false := by
  unfold new at h
  simp only [] at h
  obtain ⟨a1, a2, a3, a4, a5⟩ := sinkWrite_spec F (W2F.init c.w2 m0) (Xz.streamHeader c.flags)
  rcases hsw : sinkWrite F (W2F.init c.w2 m0) (Xz.streamHeader c.flags) with ⟨f1, b⟩
  rw [hsw] at h a4
  cases b with
  | false => cases h
  | true =>
    dsimp only at h
    have hh := newBlock_hit c F m0 ({ f := f1, blockStart := f1.w.out.size } : St σ)
    rcases hn : newBlock c F m0 ({ f := f1, blockStart := f1.w.out.size } : St σ) with ⟨s', ok⟩
    rw [hn] at h hh
    cases ok with
    | false => cases h
    | true =>
      have := (Except.ok.inj h)
      subst this
      exact (hh rfl).trans (a4 rfl).1

/-- T2. a failure of the sink is never masked -/
theorem hit_surfaces (c : XzW.Cfg) (M : Matcher σ) (F : Plan) (m0 : σ) (s0 : St σ) (h : new c F m0 = .ok s0)
    (calls : List Call) (hh : (run c M F m0 s0 calls).1.f.hit = true) :
    ∃ r ∈ (run c M F m0 s0 calls).2, r.1.err ≠ none := by
  have key : ∀ (calls : List Call) (s : St σ), s.f.hit = false → (run c M F m0 s calls).1.f.hit = true →
      ∃ r ∈ (run c M F m0 s calls).2, r.1.err ≠ none := by
    intro calls
    induction calls with
    | nil => intro s h0 h1; rw [show (run c M F m0 s []).1 = s from rfl, h0] at h1; cases h1
    | cons call rest ih =>
      intro s h0 h1
      rw [run_cons] at h1 ⊢
      cases hb : (step c M F m0 s call).1.f.hit with
      | true => exact ⟨_, List.mem_cons_self, step_hit c M F m0 s call h0 hb⟩
      | false =>
        obtain ⟨r, hr, he⟩ := ih _ hb h1
        exact ⟨r, List.mem_cons_of_mem _ hr, he⟩
  exact key calls s0 (new_ok_no_hit c F m0 s0 h) hh

/-- T3. no call of any history panics: every valid configuration, every self-synchronising match finder, EVERY fault
    plan, every call history -/
theorem no_panic (c : XzW.Cfg) (hc : XzW.CfgOk c) (M : Matcher σ) (I : σ → ByteArray → ByteArray → Prop)
    (hI : MatcherInv c.w2 M I) (m0 : σ) (h0 : I m0 ByteArray.empty ByteArray.empty) (F : Plan)
    (s0 : St σ) (h : new c F m0 = .ok s0) (calls : List Call) :
    ∀ r ∈ (run c M F m0 s0 calls).2, r.1.panic = false := by
  have key : ∀ (calls : List Call) (s : St σ), Good c I s → ∀ r ∈ (run c M F m0 s calls).2, r.1.panic = false := by
    intro calls
    induction calls with
    | nil => intro s _ r hr; cases hr
    | cons call rest ih =>
      intro s hg r hr
      rw [run_cons] at hr
      obtain ⟨h1, h2⟩ := step_good c hc.1 M I hI F m0 h0 s call hg
      rcases List.mem_cons.mp hr with rfl | hr
      · exact h1
      · exact ih _ h2 r hr
  exact key calls s0 (new_good c I F m0 h0 s0 h).1

/-- T4. a run during which no sink call failed writes exactly the stream of the batch model of the xz writer, and every
    call succeeds taking all its bytes -/
theorem run_no_hit (c : XzW.Cfg) (hc : XzW.CfgOk c) (M : Matcher σ) (I : σ → ByteArray → ByteArray → Prop)
    (hI : MatcherInv c.w2 M I) (m0 : σ) (h0 : I m0 ByteArray.empty ByteArray.empty) (F : Plan)
    (s0 : St σ) (h : new c F m0 = .ok s0) (writes : List ByteArray)
    (hh : (run c M F m0 s0 (writes.map .write ++ [.close])).1.f.hit = false) :
    (run c M F m0 s0 (writes.map .write ++ [.close])).1.f.w.out = XzW.run c M m0 writes ∧
    allOk (run c M F m0 s0 (writes.map .write ++ [.close])).2 := by
  obtain ⟨hw2, hbs, _⟩ := hc
  obtain ⟨hsim, hcl⟩ := new_sim c M F m0 s0 h
  have hn0 : s0.n = 0 := hsim.n
  obtain ⟨h1, h2⟩ := run_sim c hw2 hbs M I hI F m0 h0 writes s0 [] [] hsim hcl (by omega) hh
  rw [hn0] at h1
  refine ⟨?_, h2⟩
  rw [h1, xzw_run_eq c hw2 M I hI m0 h0 writes]
  rfl

/-- T5. success is reported only when the sink accepted the complete valid stream: NewWriter and every call of
    Write* Close returned nil ⇒ the sink decodes (strict rules and Go rules) to exactly the data written -/
theorem all_nil_means_valid_stream (strict : Bool) (c : XzW.Cfg) (hc : XzW.CfgOk c) (M : Matcher σ)
    (I : σ → ByteArray → ByteArray → Prop) (hI : MatcherInv c.w2 M I) (m0 : σ) (h0 : I m0 ByteArray.empty ByteArray.empty)
    (F : Plan) (s0 : St σ) (h : new c F m0 = .ok s0) (writes : List ByteArray)
    (hsize : (XzW.written writes).size < 2 ^ 40) (hblocks : (XzW.split c.blockSize writes).length < 2 ^ 28)
    (cfgCap : Nat) (hcap : strict = false → cfgCap ≤ Xz.dictSize (Model.encodeDictCap c.w2.dictCap))
    (hok : allOk (run c M F m0 s0 (writes.map .write ++ [.close])).2) :
    let out := (run c M F m0 s0 (writes.map .write ++ [.close])).1.f.w.out
    (Xz.read strict cfgCap false out).status = .eof ∧ (Xz.read strict cfgCap false out).out = XzW.written writes := by
  intro out
  have hh : (run c M F m0 s0 (writes.map .write ++ [.close])).1.f.hit = false := by
    cases hb : (run c M F m0 s0 (writes.map .write ++ [.close])).1.f.hit with
    | false => rfl
    | true =>
      obtain ⟨r, hr, he⟩ := hit_surfaces c M F m0 s0 h _ hb
      exact absurd (hok r hr) he
  obtain ⟨h1, _⟩ := run_no_hit c hc M I hI m0 h0 F s0 h writes hh
  have := XzW.xz_writer_roundtrip strict c hc M I hI m0 h0 writes hsize hblocks cfgCap hcap
  have hout : out = XzW.run c M m0 writes := h1
  rw [hout]
  exact this

#print axioms XzWF.step_hit
#print axioms XzWF.new_ok_no_hit
#print axioms XzWF.hit_surfaces
#print axioms XzWF.no_panic
#print axioms XzWF.run_no_hit
#print axioms XzWF.all_nil_means_valid_stream

end XzWF
