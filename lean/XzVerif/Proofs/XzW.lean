import XzVerif.Model.XzW
import XzVerif.Proofs.Writer2
import XzVerif.Proofs.XzRoundTrip
import XzVerif.Proofs.DictCap
import XzVerif.Proofs.XzWriter
import XzVerif.Proofs.XzWSplit
import XzVerif.Proofs.XzWCap
import XzVerif.Proofs.XzWRun

/-!
  End-to-end theorem for the xz writer model (Model/XzW.lean): whatever is written, in whatever pieces, with whatever
  valid configuration and self-synchronising match finder, the emitted .xz stream is read back by the reader model
  (format rules and Go rules) to exactly the bytes written, with a clean end.
-/
namespace XzW
open W2 Lzma Lzma2

variable {σ : Type}

/-- configurations `xz.WriterConfig.Verify` accepts -/
def CfgOk (c : Cfg) : Prop :=
  W2.CfgOk c.w2 ∧ 1 ≤ c.blockSize ∧ (Xz.checkSize c.flags).isSome = true

/-- all bytes written -/
def written : List ByteArray → ByteArray
  | [] => ByteArray.empty
  | p :: ps => p ++ written ps

/-! ## helper lemmas -/

theorem written_eq : written = cat := by
  funext l
  induction l with
  | nil => rfl
  | cons p ps ih => simp only [written, cat, ih]

theorem cat_mem_le (ps : List ByteArray) : ∀ L : List (List ByteArray), ps ∈ L →
    (cat ps).size ≤ (cat L.flatten).size := by
  intro L
  induction L with
  | nil => intro h; cases h
  | cons x L ih =>
    intro h
    rw [List.flatten_cons, cat_append, ByteArray.size_append]
    rcases List.mem_cons.mp h with rfl | h
    · omega
    · have := ih h; omega

theorem foldl_contents (f : List ByteArray → Xz.BlockSpec) : ∀ (L : List (List ByteArray)) (acc : ByteArray),
    (∀ ps ∈ L, (Xz.specE (f ps)).h.out = cat ps) →
    ((L.map f).map (fun b => (Xz.specE b).h.out)).foldl (· ++ ·) acc = acc ++ cat L.flatten := by
  intro L
  induction L with
  | nil => intro acc _; simp only [List.map_nil, List.foldl_nil, List.flatten_nil, cat, ByteArray.append_empty]
  | cons x L ih =>
    intro acc h
    simp only [List.map_cons, List.foldl_cons, List.flatten_cons]
    rw [ih _ (fun ps hps => h ps (List.mem_cons_of_mem _ hps)), h x (List.mem_cons_self), cat_append,
      ByteArray.append_assoc]

/-! ## statements to prove (do not change them) -/

/-- the pieces handed to the block writers are exactly the bytes written, in order; every block but the last
    receives exactly `blockSize` bytes, the last at most `blockSize` -/
theorem split_spec (bs : Nat) (hbs : 1 ≤ bs) (writes : List ByteArray) :
    written ((split bs writes).flatten) = written writes ∧
    (∀ b ∈ (split bs writes).dropLast, (written b).size = bs) ∧
    (∀ b, (split bs writes).getLast? = some b → (written b).size ≤ bs) ∧
    split bs writes ≠ [] := by
  rw [written_eq]
  exact split_cat bs hbs writes

/-- **C01 for the writer model.** The stream decodes to exactly what was written. -/
theorem xz_writer_roundtrip (strict : Bool) (c : Cfg) (hc : CfgOk c) (M : Matcher σ)
    (I : σ → ByteArray → ByteArray → Prop) (hI : MatcherInv c.w2 M I) (m0 : σ) (h0 : I m0 ByteArray.empty ByteArray.empty)
    (writes : List ByteArray) (hsize : (written writes).size < 2 ^ 40)
    (hblocks : (split c.blockSize writes).length < 2 ^ 28)
    (cfgCap : Nat) (hcap : strict = false → cfgCap ≤ Xz.dictSize (Model.encodeDictCap c.w2.dictCap)) :
    (Xz.read strict cfgCap false (run c M m0 writes)).status = .eof ∧
    (Xz.read strict cfgCap false (run c M m0 writes)).out = written writes := by
  obtain ⟨hw2, hbs, hfl⟩ := hc
  rw [written_eq] at hsize ⊢
  obtain ⟨s1, _, _, _⟩ := split_cat c.blockSize hbs writes
  have hmem : ∀ ps ∈ split c.blockSize writes, (cat ps).size < 2 ^ 40 := by
    intro ps hps
    have := cat_mem_le ps _ hps
    rw [s1] at this
    omega
  have hfl32 : (Xz.checkSize c.flags).getD 0 ≤ 32 := by
    rcases Xz.checkSize_cases c.flags hfl with h | h | h | h <;> rw [h] <;> decide
  have hblk : ∀ ps ∈ split c.blockSize writes,
      Xz.BlockSpecOk strict c.flags (blockSpec c (runBlock c M m0 ps)) ∧
      (Xz.specE (blockSpec c (runBlock c M m0 ps))).h.out = cat ps :=
    fun ps hps => blockSpec_ok strict c hw2 c.flags hfl32 M I hI m0 h0 ps (hmem ps hps)
  unfold run
  simp only []
  obtain ⟨r1, r2⟩ := Xz.read_buildStream strict cfgCap c.flags
    ((split c.blockSize writes).map (fun pieces => blockSpec c (runBlock c M m0 pieces))).toArray 0 hfl
    (by
      intro b hb
      simp only [List.mem_map] at hb
      obtain ⟨ps, hps, rfl⟩ := hb
      exact (hblk ps hps).1)
    rfl (by simpa using hblocks)
    (by
      intro hs b hb
      simp only [List.mem_map] at hb
      obtain ⟨ps, hps, rfl⟩ := hb
      exact hcap hs)
  refine ⟨r1, ?_⟩
  rw [r2]
  simp only []
  rw [foldl_contents _ _ _ (fun ps hps => (hblk ps hps).2), ByteArray.empty_append, s1]

end XzW

#print axioms XzW.split_spec
#print axioms XzW.xz_writer_roundtrip
