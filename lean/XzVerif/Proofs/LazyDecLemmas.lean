import XzVerif.Model.LazyDec
import XzVerif.Proofs.RingD
import Mathlib.Tactic.Ring

/-! helper lemmas for Proofs/LazyDec.lean -/
namespace LazyDec
open Lzma Rc Ring

/-! ### what a decision tree can return -/

/-- every leaf of the tree satisfies `P` -/
def All {α : Type} (P : α → Prop) : DecTree α → Prop
  | .ret a => P a
  | .ask _ k => ∀ b, All P (k b)

theorem decTree_all {α : Type} (P : α → Prop) : ∀ (t : DecTree α) (tbl : Tbl) (rd : Dec) (a : α) (tbl' : Tbl)
    (rd' : Dec), All P t → decTree pm t tbl rd = some (a, tbl', rd') → P a := by
  intro t
  induction t with
  | ret a0 =>
    intro tbl rd a tbl' rd' h he
    simp only [decTree, Option.some.injEq, Prod.mk.injEq] at he
    exact he.1 ▸ h
  | ask q k ih =>
    intro tbl rd a tbl' rd' h he
    cases q with
    | adaptive c =>
      simp only [decTree] at he
      split at he
      · cases he
      · exact ih _ _ _ _ _ _ (h _) he
    | direct =>
      simp only [decTree] at he
      split at he
      · cases he
      · exact ih _ _ _ _ _ _ (h _) he

theorem all_mono {α : Type} {P Q : α → Prop} (hpq : ∀ a, P a → Q a) : ∀ (t : DecTree α), All P t → All Q t := by
  intro t
  induction t with
  | ret a => exact hpq a
  | ask q k ih => intro h b; exact ih b (h b)

theorem all_of_forall {α : Type} {P : α → Prop} (hp : ∀ a, P a) : ∀ (t : DecTree α), All P t := by
  intro t
  induction t with
  | ret a => exact hp a
  | ask q k ih => intro b; exact ih b

theorem all_bind {α β : Type} {P : β → Prop} (f : α → DecTree β) :
    ∀ (t : DecTree α), All (fun a => All P (f a)) t → All P (t.bind f) := by
  intro t
  induction t with
  | ret a => intro h; exact h
  | ask q k ih => intro h b; exact ih b (h b)

theorem all_map {α β : Type} {P : β → Prop} (f : α → β) (t : DecTree α) (h : All (fun a => P (f a)) t) :
    All P (DecTree.map t f) :=
  all_bind _ t h

theorem treeDecGo_all (base : Nat) : ∀ (n m : Nat), All (fun v => v + 1 ≤ (m + 1) * 2 ^ n) (treeDecGo base n m) := by
  intro n
  induction n with
  | zero => intro m; show m + 1 ≤ (m + 1) * 2 ^ 0; omega
  | succ n ih =>
    intro m b
    refine all_mono ?_ _ (ih (2 * m + if b then 1 else 0))
    intro v hv
    have h2 : (2 * m + (if b then 1 else 0) + 1) * 2 ^ n ≤ (m + 1) * 2 ^ (n + 1) := by
      have : (m + 1) * 2 ^ (n + 1) = (2 * m + 2) * 2 ^ n := by ring
      rw [this]
      apply Nat.mul_le_mul_right
      split <;> omega
    omega

theorem treeDec_all (base bits : Nat) : All (fun v => v < 2 ^ bits) (treeDec base bits) := by
  apply all_map
  refine all_mono ?_ _ (treeDecGo_all base bits 1)
  intro v hv
  have : (1 + 1) * 2 ^ bits = 2 ^ bits + 2 ^ bits := by ring
  have hp : 0 < 2 ^ bits := Nat.pow_pos (by omega)
  omega

theorem lenDec_all (L ps : Nat) : All (fun n => n < 272) (lenDec L ps) := by
  intro b0
  cases b0
  · exact all_mono (fun v hv => by have : (2:Nat) ^ 3 = 8 := rfl; omega) _ (treeDec_all _ 3)
  · intro b1
    cases b1
    · apply all_map
      exact all_mono (fun v hv => by have : (2:Nat) ^ 3 = 8 := rfl; omega) _ (treeDec_all _ 3)
    · apply all_map
      exact all_mono (fun v hv => by have : (2:Nat) ^ 8 = 256 := rfl; omega) _ (treeDec_all _ 8)

/-- match and rep lengths are within 2 … 273 -/
def OpLenOk : RawOp → Prop
  | .mtch len _ => 2 ≤ len ∧ len ≤ 273
  | .rep _ len => 2 ≤ len ∧ len ≤ 273
  | _ => True

theorem repLenDec_all (c : Ctx) (g : Nat) : All OpLenOk (repLenDec c g) := by
  apply all_map
  exact all_mono (fun n hn => by show 2 ≤ n + 2 ∧ n + 2 ≤ 273; omega) _ (lenDec_all _ _)

theorem opDec_all (c : Ctx) : All OpLenOk (opDec c) := by
  intro b
  cases b
  · apply all_map
    exact all_of_forall (fun _ => trivial) _
  · intro b
    cases b
    · apply all_bind
      refine all_mono ?_ _ (lenDec_all _ _)
      intro n hn
      apply all_map
      exact all_of_forall (fun d => by show 2 ≤ n + 2 ∧ n + 2 ≤ 273; omega) _
    · intro b
      cases b
      · intro b
        cases b
        · exact trivial
        · exact repLenDec_all c 0
      · intro b
        cases b
        · exact repLenDec_all c 1
        · intro b
          cases b
          · exact repLenDec_all c 2
          · exact repLenDec_all c 3

theorem opDec_len (c : Ctx) (tbl : Tbl) (rd : Dec) (o : RawOp) (tbl' : Tbl) (rd' : Dec)
    (h : decTree pm (opDec c) tbl rd = some (o, tbl', rd')) : OpLenOk o :=
  decTree_all OpLenOk _ _ _ _ _ _ (opDec_all c) h

/-! ### the unbounded history against the list level -/

theorem push_toList (h : Hist) (b : Nat) : (h.push b).out.data.toList = h.out.data.toList ++ [b.toUInt8] := by
  simp [Hist.push, ByteArray.data_push]

theorem copyMatch_toList (dist : Nat) : ∀ (n : Nat) (h : Hist),
    (h.copyMatch dist n).out.data.toList = copyMatchList h.out.data.toList dist n ∧
    (h.copyMatch dist n).dictStart = h.dictStart ∧ (h.copyMatch dist n).cap = h.cap := by
  intro n
  induction n with
  | zero => intro h; exact ⟨rfl, rfl, rfl⟩
  | succ n ih =>
    intro h
    rw [Hist.copyMatch, copyMatchList]
    obtain ⟨e1, e2, e3⟩ := ih { h with out := h.out.push (h.out.get! (h.out.size - dist)) }
    refine ⟨?_, e2, e3⟩
    rw [e1]
    simp only [ByteArray.data_push, Array.toList_push, get!_toList, length_toList]

/-! ### the simulation relation -/

/-- the lazy state `l` and the batch state `d` have decoded the same operations; `r` bytes were delivered.
    `startB` = output length at the start of the segment, `off` = output produced before this ring existed
    (an xz block's predecessors), `d.h.dictStart` = output length at the last dictionary reset -/
structure Sim (p : Props) (size : Option Nat) (cap startB off : Nat) (l : LSt) (d : DecSt) (r : Nat) : Prop where
  s : l.s = d.s
  tbl : l.tbl = d.tbl
  rd : l.rd = d.rd
  p : l.p = p
  start : l.start + d.h.dictStart = startB
  size : l.size = size
  offle : off ≤ d.h.dictStart
  dsle : d.h.dictStart ≤ d.h.out.size
  rel : l.dict.RelB ⟨d.h.out.data.toList.drop off, r⟩ cap (d.h.dictStart - off)
  cap : d.h.cap = cap
  src : l.srcEnd = false

variable {p : Props} {size : Option Nat} {cap startB off : Nat}

theorem Sim.wlen {l : LSt} {d : DecSt} {r : Nat} (_h : Sim p size cap startB off l d r) :
    (d.h.out.data.toList.drop off).length = d.h.out.size - off := by
  rw [List.length_drop, length_toList]

theorem Sim.head {l : LSt} {d : DecSt} {r : Nat} (h : Sim p size cap startB off l d r) :
    l.dict.head = d.h.out.size - d.h.dictStart := by
  have h1 := h.rel.head
  have h2 := h.offle
  have h3 := h.dsle
  simp only [h.wlen] at h1
  omega

theorem Sim.rle {l : LSt} {d : DecSt} {r : Nat} (h : Sim p size cap startB off l d r) : r ≤ d.h.out.size - off := by
  have := h.rel.buf.rle
  simp only [h.wlen] at this
  exact this

theorem Sim.byteAt {l : LSt} {d : DecSt} {r : Nat} (h : Sim p size cap startB off l d r) (dist : Nat) :
    (l.dict.byteAt dist).toNat = d.h.byteAt dist := by
  have h2 := h.offle
  have h3 := h.dsle
  rw [relB_byteAt l.dict _ cap _ h.rel dist, Hist.byteAt, Hist.dictLen, Hist.pos, h.cap]
  simp only [h.wlen]
  rw [show d.h.out.size - off - (d.h.dictStart - off) = d.h.out.size - d.h.dictStart by omega]
  split_ifs with hc
  · rw [getElem!_drop, show off + (d.h.out.size - off - dist) = d.h.out.size - dist by omega, get!_toList]
  · rfl

theorem Sim.ctx {l : LSt} {d : DecSt} {r : Nat} (h : Sim p size cap startB off l d r) : l.ctx = mkCtx p d.s d.h := by
  simp only [LSt.ctx, mkCtx, h.byteAt, h.head, Hist.pos, h.s, h.p]

theorem Sim.decompressed {l : LSt} {d : DecSt} {r : Nat} (h : Sim p size cap startB off l d r) :
    l.decompressed = d.h.out.size - startB := by
  have h1 := h.start
  have h3 := h.dsle
  rw [LSt.decompressed, h.head]
  omega

theorem Sim.available {l : LSt} {d : DecSt} {r : Nat} (h : Sim p size cap startB off l d r) :
    l.dict.buf.available = cap - (d.h.out.size - off - r) := by
  rw [available_eq _ _ _ h.rel.buf, h.wlen]

theorem Sim.dictLen {l : LSt} {d : DecSt} {r : Nat} (h : Sim p size cap startB off l d r) :
    d.h.dictLen = min (d.h.out.size - d.h.dictStart) cap := by
  rw [Hist.dictLen, Hist.pos, h.cap]

theorem copyMatchList_drop (dist off : Nat) : ∀ (n : Nat) (W : List UInt8), 1 ≤ dist → dist + off ≤ W.length →
    copyMatchList (W.drop off) dist n = (copyMatchList W dist n).drop off := by
  intro n
  induction n with
  | zero => intro W _ _; rfl
  | succ n ih =>
    intro W h1 h2
    rw [copyMatchList, copyMatchList, ← ih _ h1 (by rw [List.length_append, List.length_singleton]; omega)]
    congr 1
    rw [List.drop_append_of_le_length (by omega), List.length_drop, getElem!_drop]
    congr 3
    omega

theorem copyMatchList_prefix (dist : Nat) : ∀ (n : Nat) (W : List UInt8), W <+: copyMatchList W dist n := by
  intro n
  induction n with
  | zero => intro W; exact List.prefix_refl _
  | succ n ih =>
    intro W
    rw [copyMatchList]
    exact List.IsPrefix.trans (List.prefix_append _ _) (ih _)

/-- lazy and batch state after decoding `o`, before its effect on the dictionary -/
def lAfter (l : LSt) (o : RawOp) (tbl' : Tbl) (rd' : Dec) : LSt := { l with s := l.s.apply o, tbl := tbl', rd := rd' }
def dAfter (d : DecSt) (o : RawOp) (tbl' : Tbl) (rd' : Dec) : DecSt :=
  { s := d.s.apply o, tbl := tbl', rd := rd', h := d.h, ops := d.ops.push o }

theorem Sim.after {l : LSt} {d : DecSt} {r : Nat} (h : Sim p size cap startB off l d r) (o : RawOp) (tbl' : Tbl) (rd' : Dec) :
    Sim p size cap startB off (lAfter l o tbl' rd') (dAfter d o tbl' rd') r :=
  ⟨by simp only [lAfter, dAfter, h.s], rfl, rfl, h.p, h.start, h.size, h.offle, h.dsle, h.rel, h.cap, h.src⟩

/-- the effect of a decoded operation (not the end marker) on the batch state -/
def bstep (d : DecSt) : RawOp → StepRes
  | .lit b => .cont { d with h := d.h.push b }
  | .mtch len dd => d.copy (dd + 1) len
  | .rep _ len => d.copy (d.s.r0 + 1) len
  | .shortRep => d.copy (d.s.r0 + 1) 1

def isMarker : RawOp → Bool
  | .mtch _ dd => dd = eosDist
  | _ => false

theorem readOp_none (l : LSt) (h : decTree pm (opDec l.ctx) l.tbl l.rd = none) : readOp l = .dry l := by
  simp only [readOp, h]

theorem readOp_some (l : LSt) (o : RawOp) (tbl' : Tbl) (rd' : Dec)
    (h : decTree pm (opDec l.ctx) l.tbl l.rd = some (o, tbl', rd')) :
    readOp l = if isMarker o then .marker { lAfter l o tbl' rd' with eosMarker := true }
      else .op o (lAfter l o tbl' rd') := by
  simp only [readOp, h]
  cases o with
  | mtch len dd =>
    simp only [isMarker, decide_eq_true_eq]
    split_ifs <;> rfl
  | lit b => rfl
  | rep g len => rfl
  | shortRep => rfl

theorem decStep_none (d : DecSt) (h : decTree pm (opDec (mkCtx p d.s d.h)) d.tbl d.rd = none) :
    ∃ d', decStep p d = .fail d' .unexpectedEOF ∧ d'.h = d.h := by
  obtain ⟨s, tbl, rd, hh, ops⟩ := d
  simp only at h
  simp only [decStep, h]
  exact ⟨_, rfl, rfl⟩

theorem decStep_some (d : DecSt) (o : RawOp) (tbl' : Tbl) (rd' : Dec)
    (h : decTree pm (opDec (mkCtx p d.s d.h)) d.tbl d.rd = some (o, tbl', rd')) :
    decStep p d = if isMarker o then .marker (dAfter d o tbl' rd') else bstep (dAfter d o tbl' rd') o := by
  obtain ⟨s, tbl, rd, hh, ops⟩ := d
  simp only at h
  simp only [decStep, h]
  cases o with
  | mtch len dd =>
    simp only [isMarker, decide_eq_true_eq]
    split_ifs <;> rfl
  | lit b => rfl
  | rep g len => rfl
  | shortRep => rfl

/-- `apply` for a match-like operation -/
def wmRes (l : LSt) (dist len : Nat) : Except Err LSt :=
  match l.dict.writeMatch dist len with
  | .ok d => .ok { l with dict := d }
  | .distRange => .error .distRange
  | .lenRange => .error .lenRange
  | .noSpace => .error .noSpace
  | .panic => .error .panic

theorem apply_mtch (l : LSt) (len dd : Nat) : apply l (.mtch len dd) = wmRes l (dd + 1) len := rfl
theorem apply_rep (l : LSt) (g len : Nat) : apply l (.rep g len) = wmRes l (l.s.r0 + 1) len := rfl
theorem apply_shortRep (l : LSt) : apply l .shortRep = wmRes l (l.s.r0 + 1) 1 := rfl

/-- the effect of a decoded operation on the ring is its effect on the batch history, as long as the ring has
    room for a maximal match -/
theorem apply_sim {l : LSt} {d : DecSt} {r : Nat} (h : Sim p size cap startB off l d r) (o : RawOp) (hlen : OpLenOk o)
    (hav : 273 ≤ l.dict.buf.available) :
    (∃ d' l', bstep d o = .cont d' ∧ apply l o = .ok l' ∧ Sim p size cap startB off l' d' r ∧ l'.eos = l.eos ∧
      d.h.out.data.toList <+: d'.h.out.data.toList ∧ d.h.out.size < d'.h.out.size ∧
      d'.h.out.size ≤ d.h.out.size + 273 ∧ d'.rd = d.rd ∧ l'.rd = l.rd) ∨
    (∃ w, bstep d o = .fail d (.err w) ∧ apply l o = .error .distRange) := by
  have hav' := h.available
  have hrle := h.rle
  have hol := h.offle
  have hdl := h.dsle
  have hwl := h.wlen
  have hwm : ∀ dist len, 1 ≤ len → len ≤ 273 →
      (∃ d' l', d.copy dist len = .cont d' ∧
        wmRes l dist len = Except.ok l' ∧ Sim p size cap startB off l' d' r ∧ l'.eos = l.eos ∧
        d.h.out.data.toList <+: d'.h.out.data.toList ∧ d.h.out.size < d'.h.out.size ∧
        d'.h.out.size ≤ d.h.out.size + 273 ∧ d'.rd = d.rd ∧ l'.rd = l.rd) ∨
      (∃ w, d.copy dist len = .fail d (.err w) ∧
        wmRes l dist len = Except.error Err.distRange) := by
    intro dist len hl1 hl2
    obtain ⟨w1, w4⟩ := relB_writeMatch l.dict _ cap _ h.rel dist len
    simp only [hwl] at w1 w4
    rw [show d.h.out.size - off - (d.h.dictStart - off) = d.h.out.size - d.h.dictStart by omega] at w1 w4
    by_cases hc : 0 < dist ∧ dist ≤ min (d.h.out.size - d.h.dictStart) cap
    · left
      obtain ⟨dd, e1, e2⟩ := w4 hc ⟨by omega, hl2⟩ (by omega)
      obtain ⟨c1, c2, c3⟩ := copyMatch_toList dist len d.h
      have hsz : (d.h.copyMatch dist len).out.size = d.h.out.size + len := by
        have := congrArg List.length c1
        rw [copyMatchList_length, length_toList, length_toList] at this
        exact this
      refine ⟨{ d with h := d.h.copyMatch dist len }, { l with dict := dd }, ?_, by rw [wmRes, e1], ?_, rfl, ?_, ?_, ?_,
        rfl, rfl⟩
      · rw [DecSt.copy, if_pos (by rw [h.dictLen]; exact hc)]
      · refine ⟨h.s, h.tbl, h.rd, h.p, by simp only [c2]; exact h.start, h.size, by simp only [c2]; exact hol,
          by simp only [c2, hsz]; omega, ?_, by rw [c3]; exact h.cap, h.src⟩
        simp only [c1, c2]
        rw [← copyMatchList_drop dist off len _ (by omega) (by rw [length_toList]; omega)]
        exact e2
      · simp only [c1]; exact copyMatchList_prefix _ _ _
      · simp only [hsz]; omega
      · simp only [hsz]; omega
    · right
      refine ⟨"distance out of range", ?_, by rw [wmRes, w1 hc]⟩
      rw [DecSt.copy, if_neg (by rw [h.dictLen]; exact hc)]
  cases o with
  | lit b =>
    left
    obtain ⟨dd, e1, e2⟩ := relB_writeByte l.dict _ cap _ h.rel b.toUInt8 (by simp only [hwl]; omega)
    refine ⟨{ d with h := d.h.push b }, { l with dict := dd }, rfl, by simp only [apply, e1], ?_, rfl, ?_, ?_, ?_,
      rfl, rfl⟩
    · refine ⟨h.s, h.tbl, h.rd, h.p, h.start, h.size, hol, ?_, ?_, h.cap, h.src⟩
      · simp only [Hist.push, ByteArray.size_push]; omega
      · simp only [push_toList]
        rw [List.drop_append_of_le_length (by rw [length_toList]; omega)]
        exact e2
    · simp only [push_toList]; exact List.prefix_append _ _
    · simp only [Hist.push, ByteArray.size_push]; omega
    · simp only [Hist.push, ByteArray.size_push]; omega
  | mtch len dd =>
    have := hwm (dd + 1) len (by have := hlen.1; omega) hlen.2
    simpa only [bstep, apply_mtch] using this
  | rep g len =>
    have := hwm (d.s.r0 + 1) len (by have := hlen.1; omega) hlen.2
    simpa only [bstep, apply_rep, h.s] using this
  | shortRep =>
    have := hwm (d.s.r0 + 1) 1 (by omega) (by omega)
    simpa only [bstep, apply_shortRep, h.s] using this

/-! ### the batch loop -/

theorem bstep_cases (d : DecSt) (o : RawOp) :
    (∃ d', bstep d o = .cont d' ∧ d.h.out.data.toList <+: d'.h.out.data.toList) ∨
    (∃ w, bstep d o = .fail d (.err w)) := by
  have hc : ∀ dist len, (∃ d', d.copy dist len = .cont d' ∧ d.h.out.data.toList <+: d'.h.out.data.toList) ∨
      (∃ w, d.copy dist len = .fail d (.err w)) := by
    intro dist len
    unfold DecSt.copy
    split_ifs
    · left
      refine ⟨_, rfl, ?_⟩
      simp only [(copyMatch_toList dist len d.h).1]
      exact copyMatchList_prefix _ _ _
    · right; exact ⟨_, rfl⟩
  cases o with
  | lit b => left; exact ⟨_, rfl, by simp only [push_toList]; exact List.prefix_append _ _⟩
  | mtch len dd => exact hc _ _
  | rep g len => exact hc _ _
  | shortRep => exact hc _ _

def stepD : StepRes → DecSt
  | .cont d => d
  | .marker d => d
  | .fail d _ => d

theorem decStep_prefix (p : Props) (d : DecSt) : d.h.out.data.toList <+: (stepD (decStep p d)).h.out.data.toList := by
  cases hres : decTree pm (opDec (mkCtx p d.s d.h)) d.tbl d.rd with
  | none =>
    obtain ⟨d', e1, e2⟩ := decStep_none (p := p) d hres
    rw [e1]; simp only [stepD, e2]; exact List.prefix_refl _
  | some x =>
    obtain ⟨o, tbl', rd'⟩ := x
    rw [decStep_some d o tbl' rd' hres]
    split_ifs
    · exact List.prefix_refl _
    · rcases bstep_cases (dAfter d o tbl' rd') o with ⟨d', e1, e2⟩ | ⟨w, e1⟩
      · rw [e1]; exact e2
      · rw [e1]; exact List.prefix_refl _

theorem finish_prefix (p : Props) (snm : Bool) (d : DecSt) :
    d.h.out.data.toList <+: (decSegment.finish p snm d).d.h.out.data.toList := by
  unfold decSegment.finish
  split_ifs
  · exact List.prefix_refl _
  · exact List.prefix_refl _
  · have := decStep_prefix p d
    split <;> rename_i he <;> rw [he] at this <;> exact this

theorem decSegment_prefix (p : Props) (size : Option Nat) (start : Nat) (snm : Bool) : ∀ (fb : Nat) (d : DecSt),
    d.h.out.data.toList <+: (decSegment p size start snm fb d).d.h.out.data.toList := by
  intro fb
  induction fb with
  | zero => intro d; exact List.prefix_refl _
  | succ fb ih =>
    intro d
    rw [decSegment]
    by_cases h0 : size = some (d.h.out.size - start)
    · rw [if_pos h0]; exact finish_prefix p snm d
    rw [if_neg h0]
    have hs := decStep_prefix p d
    cases he : decStep p d with
    | fail d' st => rw [he] at hs; exact hs
    | marker d' =>
      rw [he] at hs
      simp only [stepD] at hs
      simp only
      split_ifs
      · exact hs
      · exact hs
      · split
        · split_ifs <;> exact hs
        · exact hs
    | cont d' =>
      rw [he] at hs
      simp only [stepD] at hs
      simp only
      split
      · exact List.IsPrefix.trans hs (ih _)
      · split_ifs
        · exact hs
        · exact List.IsPrefix.trans hs (finish_prefix p snm _)
        · exact List.IsPrefix.trans hs (ih _)

/-! ### the range decoder only consumes input -/

theorem norm_inp_le (d d' : Dec) (h : d.norm = some d') : d'.inp.length ≤ d.inp.length := by
  unfold Dec.norm at h
  split_ifs at h
  · split at h
    · cases h
    · rename_i x r hx
      cases h
      rw [hx]; simp
  · cases h; exact Nat.le_refl _

theorem step_inp_le (d : Dec) (q : Option Nat) (b : Bool) (d' : Dec) (h : d.step q = some (b, d')) :
    d'.inp.length ≤ d.inp.length := by
  unfold Dec.step at h
  cases q with
  | some q =>
    simp only at h
    split_ifs at h
    all_goals
      simp only [Option.map_eq_some_iff, Prod.mk.injEq] at h
      obtain ⟨x, hx, _, rfl⟩ := h
      have := norm_inp_le _ _ hx
      exact this
  | none =>
    simp only at h
    split_ifs at h
    all_goals
      simp only [Option.map_eq_some_iff, Prod.mk.injEq] at h
      obtain ⟨x, hx, _, rfl⟩ := h
      have := norm_inp_le _ _ hx
      exact this

theorem decTree_inp_le {α : Type} : ∀ (t : DecTree α) (tbl : Tbl) (rd : Dec) (a : α) (tbl' : Tbl) (rd' : Dec),
    decTree pm t tbl rd = some (a, tbl', rd') → rd'.inp.length ≤ rd.inp.length := by
  intro t
  induction t with
  | ret a0 =>
    intro tbl rd a tbl' rd' he
    simp only [decTree, Option.some.injEq, Prod.mk.injEq] at he
    rw [he.2.2]
  | ask q k ih =>
    intro tbl rd a tbl' rd' he
    cases q with
    | adaptive c =>
      simp only [decTree] at he
      split at he
      · cases he
      · rename_i b d1 hs
        exact Nat.le_trans (ih _ _ _ _ _ _ he) (step_inp_le _ _ _ _ hs)
    | direct =>
      simp only [decTree] at he
      split at he
      · cases he
      · rename_i b d1 hs
        exact Nat.le_trans (ih _ _ _ _ _ _ he) (step_inp_le _ _ _ _ hs)

/-! ### `tail` against `finish` -/

/-- agreement of an error of the lazy reader with the batch status (under the hypothesis `K`) -/
def GoodErr (K : Prop) (e : Err) (st : Status) : Prop :=
  (e = .unexpectedEOF ∧ (K → st = .unexpectedEOF)) ∨
  ((e = .dataAfterEOS ∨ e = .size ∨ e = .distRange) ∧ (K → ∃ w, st = .err w))

def TailPost (p : Props) (size : Option Nat) (cap startB off : Nat) (l : LSt) (d : DecSt) (r : Nat) : DRes → Prop
  | .more _ => False
  | .eof l' => l'.eos = true ∧ l'.rd.inp.length ≤ l.rd.inp.length ∧
      ∃ d', Sim p size cap startB off l' d' r ∧ d'.h = d.h ∧
      (decSegment.finish p false d).status = .eof ∧ (decSegment.finish p false d).d = d'
  | .err _ e => GoodErr True e (decSegment.finish p false d).status

theorem finish_code0 (p : Props) (d : DecSt) (hc : d.rd.code = 0) :
    decSegment.finish p false d = ⟨d, .eof, false⟩ := by
  rw [decSegment.finish, if_pos hc]

theorem finish_ne (p : Props) (d : DecSt) (hc : ¬ d.rd.code = 0) :
    decSegment.finish p false d = match decStep p d with
      | .fail d' st => ⟨d', st, false⟩
      | .marker d' => ⟨d', .eof, true⟩
      | .cont d' => ⟨d', .err "wrong uncompressed size", false⟩ := by
  rw [decSegment.finish, if_neg hc]
  simp only [Bool.false_eq_true, if_false]
  cases decStep p d <;> rfl

theorem tail_spec {l : LSt} {d : DecSt} {r : Nat} (h : Sim p size cap startB off l d r) (he : l.eos = true) :
    TailPost p size cap startB off l d r (tail l) := by
  unfold tail
  rw [h.rd]
  by_cases hc : d.rd.code = 0
  · rw [if_pos hc]
    simp only [TailPost, finish_code0 p d hc]
    exact ⟨he, Nat.le_refl _, d, h, by trivial, by trivial, by trivial⟩
  rw [if_neg hc]
  cases hres : decTree pm (opDec l.ctx) l.tbl l.rd with
  | none =>
    rw [readOp_none l hres]
    rw [h.ctx, h.tbl, h.rd] at hres
    obtain ⟨d', e1, e2⟩ := decStep_none (p := p) d hres
    simp only [TailPost, finish_ne p d hc, e1, h.src, Bool.false_eq_true, if_false]
    exact Or.inl ⟨rfl, fun _ => rfl⟩
  | some x =>
    obtain ⟨o, tbl', rd'⟩ := x
    have hle := decTree_inp_le _ _ _ _ _ _ hres
    rw [readOp_some l o tbl' rd' hres]
    rw [h.ctx, h.tbl, h.rd] at hres
    have hd := decStep_some d o tbl' rd' hres
    by_cases hm : isMarker o = true
    · rw [if_pos hm] at hd ⊢
      simp only [TailPost, finish_ne p d hc, hd]
      refine ⟨he, hle, dAfter d o tbl' rd', ?_, by trivial, by trivial, by trivial⟩
      have := h.after o tbl' rd'
      exact ⟨this.s, this.tbl, this.rd, this.p, this.start, this.size, this.offle, this.dsle, this.rel, this.cap, this.src⟩
    · rw [if_neg hm] at hd ⊢
      rcases bstep_cases (dAfter d o tbl' rd') o with ⟨d', e1, _⟩ | ⟨w, e1⟩
      · rw [e1] at hd
        simp only [TailPost, finish_ne p d hc, hd]
        exact Or.inr ⟨Or.inr (Or.inl rfl), fun _ => ⟨_, rfl⟩⟩
      · rw [e1] at hd
        simp only [TailPost, finish_ne p d hc, hd]
        exact Or.inr ⟨Or.inr (Or.inl rfl), fun _ => ⟨_, rfl⟩⟩

/-! ### `fill` against `decSegment` -/

/-- the batch run did not stop for lack of fuel -/
def K (R : SegRes) : Prop := R.status ≠ .err "fuel exhausted"

/-- the batch run `R` passes through the state `d` -/
def Tracks (p : Props) (size : Option Nat) (startB : Nat) (R : SegRes) (d : DecSt) : Prop :=
  K R → ∃ fb, decSegment p size startB false fb d = R

def NotDone (size : Option Nat) (startB : Nat) (d : DecSt) : Prop :=
  ∀ sz, size = some sz → d.h.out.size - startB < sz

theorem tracks_succ {R : SegRes} {d : DecSt} (ht : Tracks p size startB R d) (hK : K R) :
    ∃ fb, decSegment p size startB false (fb + 1) d = R := by
  obtain ⟨fb, hfb⟩ := ht hK
  cases fb with
  | zero =>
    exfalso
    apply hK
    rw [← hfb]; rfl
  | succ fb => exact ⟨fb, hfb⟩

theorem seg_fail {d d' : DecSt} {st : Status} (hnd : NotDone size startB d) (fb : Nat)
    (hs : decStep p d = .fail d' st) :
    decSegment p size startB false (fb + 1) d = ⟨d', st, false⟩ := by
  rw [decSegment, if_neg, hs]
  intro h0
  have := hnd _ h0
  omega

/-- what the batch loop returns when it meets the end marker in the state `d'` -/
def markerRes (size : Option Nat) (startB : Nat) (d' : DecSt) : SegRes :=
  if d'.rd.code ≠ 0 then ⟨d', .err "data after end of stream marker", true⟩
  else match size with
    | some sz => if sz ≠ d'.h.out.size - startB then ⟨d', .err "wrong uncompressed size", true⟩ else ⟨d', .eof, true⟩
    | none => ⟨d', .eof, true⟩

/-- how the batch loop goes on after an operation has been applied -/
def contRes (p : Props) (size : Option Nat) (startB : Nat) (fb : Nat) (d' : DecSt) : SegRes :=
  match size with
  | none => decSegment p size startB false fb d'
  | some sz =>
    if d'.h.out.size - startB ≥ sz then
      (if d'.h.out.size - startB > sz then ⟨d', .err "wrong uncompressed size", false⟩
       else decSegment.finish p false d')
    else decSegment p size startB false fb d'

theorem seg_marker {d d' : DecSt} (hnd : NotDone size startB d) (fb : Nat) (hs : decStep p d = .marker d') :
    decSegment p size startB false (fb + 1) d = markerRes size startB d' := by
  rw [decSegment, if_neg, hs]
  · simp only [Bool.false_eq_true, if_false, markerRes]
    cases size <;> rfl
  · intro h0
    have := hnd _ h0
    omega

theorem seg_cont {d d' : DecSt} (hnd : NotDone size startB d) (fb : Nat) (hs : decStep p d = .cont d') :
    decSegment p size startB false (fb + 1) d = contRes p size startB fb d' := by
  rw [decSegment, if_neg, hs]
  · simp only [contRes]
    cases size <;> rfl
  · intro h0
    have := hnd _ h0
    omega

def FillPost (p : Props) (size : Option Nat) (cap startB off : Nat) (R : SegRes) (l : LSt) (d : DecSt)
    (r fuelL : Nat) : DRes → Prop
  | .more l' => l'.eos = false ∧ l'.rd.inp.length ≤ l.rd.inp.length ∧
      (l'.dict.buf.available < 273 ∨ l'.dict.buf.available + fuelL ≤ l.dict.buf.available) ∧
      ∃ d', Sim p size cap startB off l' d' r ∧ NotDone size startB d' ∧ Tracks p size startB R d' ∧
        d.h.out.data.toList <+: d'.h.out.data.toList
  | .eof l' => l'.eos = true ∧ l'.rd.inp.length ≤ l.rd.inp.length ∧
      ∃ d', Sim p size cap startB off l' d' r ∧ d.h.out.data.toList <+: d'.h.out.data.toList ∧
      (K R → R.status = .eof ∧ R.d = d')
  | .err _ e => GoodErr (K R) e R.status

theorem fillPost_step {R : SegRes} {l l2 : LSt} {d d2 : DecSt} {r fuel : Nat} {res : DRes}
    (hp : FillPost p size cap startB off R l2 d2 r fuel res) (hpre : d.h.out.data.toList <+: d2.h.out.data.toList)
    (hav : l2.dict.buf.available + 1 ≤ l.dict.buf.available) (hrd : l2.rd.inp.length ≤ l.rd.inp.length) :
    FillPost p size cap startB off R l d r (fuel + 1) res := by
  cases res with
  | more l' =>
    obtain ⟨a1, a0, a2, d', a3, a4, a5, a6⟩ := hp
    exact ⟨a1, by omega, by omega, d', a3, a4, a5, hpre.trans a6⟩
  | eof l' =>
    obtain ⟨a1, a0, d', a3, a4, a5⟩ := hp
    exact ⟨a1, by omega, d', a3, hpre.trans a4, a5⟩
  | err l' e => exact hp

theorem tailPost_fill {R : SegRes} {l l2 : LSt} {d d2 : DecSt} {r fuelL : Nat} {res : DRes}
    (hp : TailPost p size cap startB off l2 d2 r res) (hpre : d.h.out.data.toList <+: d2.h.out.data.toList)
    (hrd : l2.rd.inp.length ≤ l.rd.inp.length)
    (hR : K R → R = decSegment.finish p false d2) : FillPost p size cap startB off R l d r fuelL res := by
  cases res with
  | more l' => exact hp.elim
  | eof l' =>
    obtain ⟨a1, a0, d', a2, a3, a4, a5⟩ := hp
    refine ⟨a1, by omega, d', a2, by rw [a3]; exact hpre, fun hK => ?_⟩
    rw [hR hK]; exact ⟨a4, a5⟩
  | err l' e =>
    rcases hp with ⟨a1, a2⟩ | ⟨a1, a2⟩
    · exact Or.inl ⟨a1, fun hK => by rw [hR hK]; exact a2 trivial⟩
    · exact Or.inr ⟨a1, fun hK => by rw [hR hK]; exact a2 trivial⟩

theorem fill_spec (R : SegRes) : ∀ (fuelL : Nat) (l : LSt) (d : DecSt) (r : Nat),
    Sim p size cap startB off l d r → NotDone size startB d → Tracks p size startB R d → l.eos = false →
    FillPost p size cap startB off R l d r fuelL (fill fuelL l) := by
  intro fuelL
  induction fuelL with
  | zero =>
    intro l d r h hnd ht he
    simp only [fill, FillPost]
    exact ⟨he, Nat.le_refl _, Or.inr (by omega), d, h, hnd, ht, List.prefix_refl _⟩
  | succ fuel ih =>
    intro l d r h hnd ht he
    rw [fill]
    by_cases hav : l.dict.buf.available ≥ 273
    swap
    · rw [if_neg hav]
      simp only [FillPost]
      exact ⟨he, Nat.le_refl _, Or.inl (by omega), d, h, hnd, ht, List.prefix_refl _⟩
    rw [if_pos hav]
    cases hres : decTree pm (opDec l.ctx) l.tbl l.rd with
    | none =>
      rw [readOp_none l hres]
      simp only [FillPost, h.src, Bool.false_eq_true, if_false]
      rw [h.ctx, h.tbl, h.rd] at hres
      obtain ⟨d', e1, e2⟩ := decStep_none (p := p) d hres
      refine Or.inl ⟨rfl, fun hK => ?_⟩
      obtain ⟨fb, hfb⟩ := tracks_succ ht hK
      rw [← hfb, seg_fail hnd fb e1]
    | some x =>
      obtain ⟨o, tbl', rd'⟩ := x
      have hlen := opDec_len _ _ _ _ _ _ hres
      have hrdle := decTree_inp_le _ _ _ _ _ _ hres
      rw [readOp_some l o tbl' rd' hres]
      rw [h.ctx, h.tbl, h.rd] at hres
      have hd := decStep_some d o tbl' rd' hres
      have hsim := h.after o tbl' rd'
      by_cases hm : isMarker o = true
      · rw [if_pos hm] at hd ⊢
        simp only
        have hsimM : Sim p size cap startB off
            { ({ lAfter l o tbl' rd' with eosMarker := true } : LSt) with eos := true } (dAfter d o tbl' rd') r :=
          ⟨hsim.s, hsim.tbl, hsim.rd, hsim.p, hsim.start, hsim.size, hsim.offle, hsim.dsle, hsim.rel, hsim.cap, hsim.src⟩
        have hlmE : ({ ({ lAfter l o tbl' rd' with eosMarker := true } : LSt) with eos := true } : LSt).eos = true := rfl
        have hlmR : ({ ({ lAfter l o tbl' rd' with eosMarker := true } : LSt) with eos := true } : LSt).rd.inp.length
            ≤ l.rd.inp.length := hrdle
        generalize ({ ({ lAfter l o tbl' rd' with eosMarker := true } : LSt) with eos := true } : LSt) = lm
          at hsimM hlmE hlmR ⊢
        have e1 : (lAfter l o tbl' rd').rd = (dAfter d o tbl' rd').rd := rfl
        rw [e1, hsim.size, hsimM.decompressed]
        have hK1 : K R → R = markerRes size startB (dAfter d o tbl' rd') := by
          intro hK
          obtain ⟨fb, hfb⟩ := tracks_succ ht hK
          rw [← hfb, seg_marker hnd fb hd]
        unfold markerRes at hK1
        by_cases hc : (dAfter d o tbl' rd').rd.code ≠ 0
        · rw [if_pos hc]
          rw [if_pos hc] at hK1
          simp only [FillPost]
          exact Or.inr ⟨Or.inl rfl, fun hK => ⟨_, by rw [hK1 hK]⟩⟩
        · rw [if_neg hc]
          rw [if_neg hc] at hK1
          cases size with
          | none =>
            simp only [FillPost]
            exact ⟨hlmE, hlmR, _, hsimM, List.prefix_refl _, fun hK => by rw [hK1 hK]; exact ⟨rfl, rfl⟩⟩
          | some sz =>
            simp only at hK1 ⊢
            by_cases hz : sz ≠ (dAfter d o tbl' rd').h.out.size - startB
            · rw [if_pos hz]
              rw [if_pos hz] at hK1
              simp only [FillPost]
              exact Or.inr ⟨Or.inr (Or.inl rfl), fun hK => ⟨_, by rw [hK1 hK]⟩⟩
            · rw [if_neg hz]
              rw [if_neg hz] at hK1
              simp only [FillPost]
              exact ⟨hlmE, hlmR, _, hsimM, List.prefix_refl _, fun hK => by rw [hK1 hK]; exact ⟨rfl, rfl⟩⟩
      · rw [if_neg hm] at hd ⊢
        simp only
        have hav1 : 273 ≤ (lAfter l o tbl' rd').dict.buf.available := hav
        rcases apply_sim hsim o hlen hav1 with ⟨d', l'', b1, b2, b3, b4, b5, b6, b7, b8, b9⟩ | ⟨w, b1, b2⟩
        · rw [b1] at hd
          rw [b2]
          simp only
          have hK1 : K R → ∃ fb, R = contRes p size startB fb d' := by
            intro hK
            obtain ⟨fb, hfb⟩ := tracks_succ ht hK
            exact ⟨fb, by rw [← hfb, seg_cont hnd fb hd]⟩
          have hrle := h.rle
          have hav0 := h.available
          have hav2 : l''.dict.buf.available + 1 ≤ l.dict.buf.available := by
            rw [b3.available, h.available]
            have : (dAfter d o tbl' rd').h.out.size = d.h.out.size := rfl
            have := h.offle
            have := h.dsle
            omega
          have hle : l''.eos = false := by rw [b4]; exact he
          have hpre : d.h.out.data.toList <+: d'.h.out.data.toList := b5
          have hrd2 : l''.rd.inp.length ≤ l.rd.inp.length := by rw [b9]; exact hrdle
          rw [b3.size]
          cases size with
          | none =>
            simp only
            have ht' : Tracks p none startB R d' := by
              intro hK
              obtain ⟨fb, hfb⟩ := hK1 hK
              exact ⟨fb, by rw [hfb]; rfl⟩
            exact fillPost_step (ih l'' d' r b3 (fun sz hsz => by cases hsz) ht' hle) hpre hav2 hrd2
          | some sz =>
            simp only
            have hdc := b3.decompressed
            simp only [LSt.decompressed] at hdc ⊢
            simp only [hdc]
            by_cases hge : d'.h.out.size - startB ≥ sz
            · rw [if_pos hge]
              by_cases hgt : d'.h.out.size - startB > sz
              · rw [if_pos hgt]
                simp only [FillPost]
                refine Or.inr ⟨Or.inr (Or.inl rfl), fun hK => ?_⟩
                obtain ⟨fb, hfb⟩ := hK1 hK
                rw [hfb, contRes]
                simp only [if_pos hge, if_pos hgt]
                exact ⟨_, rfl⟩
              · rw [if_neg hgt]
                have hs3 : Sim p (some sz) cap startB off ({ l'' with size := some sz, eos := true } : LSt) d' r :=
                  ⟨b3.s, b3.tbl, b3.rd, b3.p, b3.start, rfl, b3.offle, b3.dsle, b3.rel, b3.cap, b3.src⟩
                refine tailPost_fill (tail_spec hs3 rfl) hpre hrd2 (fun hK => ?_)
                obtain ⟨fb, hfb⟩ := hK1 hK
                rw [hfb, contRes]
                simp only [if_pos hge, if_neg hgt]
            · rw [if_neg hge]
              have ht' : Tracks p (some sz) startB R d' := by
                intro hK
                obtain ⟨fb, hfb⟩ := hK1 hK
                refine ⟨fb, ?_⟩
                rw [hfb, contRes]
                simp only [if_neg hge]
              refine fillPost_step (ih l'' d' r b3 ?_ ht' hle) hpre hav2 hrd2
              intro sz' hsz'
              cases hsz'
              omega
        · rw [b1] at hd
          rw [b2]
          simp only [FillPost]
          refine Or.inr ⟨Or.inr (Or.inr rfl), fun hK => ?_⟩
          obtain ⟨fb, hfb⟩ := tracks_succ ht hK
          exact ⟨w, by rw [← hfb, seg_fail hnd fb hd]⟩

/-! ### `decompress` and the invariant between calls -/

/-- invariant between calls; `D` = everything this ring has delivered so far, `d` = the batch state reached -/
def GId (p : Props) (size : Option Nat) (cap startB off : Nat) (R : SegRes) (l : LSt) (D : ByteArray)
    (d : DecSt) : Prop :=
  Sim p size cap startB off l d D.size ∧ D.data.toList = (d.h.out.data.toList.drop off).take D.size ∧
    (l.eos = false → Tracks p size startB R d ∧
      ∀ sz, size = some sz → d.h.out.size - startB < sz ∨ (sz = 0 ∧ d.h.out.size - startB = 0)) ∧
    (l.eos = true → K R → R.status = .eof ∧ R.d = d)

def GI (p : Props) (size : Option Nat) (cap startB off : Nat) (R : SegRes) (l : LSt) (D : ByteArray) : Prop :=
  ∃ d, GId p size cap startB off R l D d

theorem GId.congr {R : SegRes} {l : LSt} {D D' : ByteArray} {d : DecSt} (h : GId p size cap startB off R l D d)
    (he : D'.data.toList = D.data.toList) : GId p size cap startB off R l D' d := by
  have hs : D'.size = D.size := by rw [← length_toList, he, length_toList]
  obtain ⟨a, b, c, e⟩ := h
  exact ⟨by rw [hs]; exact a, by rw [hs, he]; exact b, c, e⟩

def DecPost (p : Props) (size : Option Nat) (cap startB off : Nat) (R : SegRes) (l : LSt) (D : ByteArray) :
    DRes → Prop
  | .more l' => l'.eos = false ∧ l'.rd.inp.length ≤ l.rd.inp.length ∧ l'.dict.buf.available < 273 ∧
      GI p size cap startB off R l' D
  | .eof l' => l'.eos = true ∧ l'.rd.inp.length ≤ l.rd.inp.length ∧ GI p size cap startB off R l' D
  | .err _ e => GoodErr (K R) e R.status

theorem take_of_prefix {W W' : List UInt8} (h : W <+: W') (n : Nat) (hn : n ≤ W.length) : W'.take n = W.take n := by
  obtain ⟨t, rfl⟩ := h
  exact List.take_append_of_le_length hn

theorem drop_prefix {W W' : List UInt8} (h : W <+: W') (off : Nat) (ho : off ≤ W.length) :
    W.drop off <+: W'.drop off := by
  obtain ⟨t, rfl⟩ := h
  rw [List.drop_append_of_le_length ho]
  exact List.prefix_append _ _

theorem seg_zero {d : DecSt} (fb : Nat) (h0 : size = some (d.h.out.size - startB)) :
    decSegment p size startB false (fb + 1) d = decSegment.finish p false d := by
  rw [decSegment, if_pos h0]

theorem decompress_spec {R : SegRes} {l : LSt} {D : ByteArray} (hg : GI p size cap startB off R l D) :
    DecPost p size cap startB off R l D (decompress l) := by
  obtain ⟨d, hs, hD, h1, h2⟩ := hg
  have hrle := hs.rle
  have hol := hs.offle
  have hdl := hs.dsle
  unfold decompress
  by_cases he : l.eos = true
  · rw [if_pos he]
    exact ⟨he, Nat.le_refl _, d, hs, hD, h1, h2⟩
  rw [if_neg he]
  have he' : l.eos = false := by simpa using he
  obtain ⟨ht, hnd⟩ := h1 he'
  have hcond : (l.size = some 0 ∧ l.decompressed = 0) ↔ (size = some 0 ∧ d.h.out.size - startB = 0) := by
    rw [hs.size, hs.decompressed]
  have htk : ∀ d' : DecSt, d.h.out.data.toList <+: d'.h.out.data.toList →
      D.data.toList = (d'.h.out.data.toList.drop off).take D.size := by
    intro d' hp
    rw [take_of_prefix (drop_prefix hp off (by rw [length_toList]; omega)) _
      (by rw [List.length_drop, length_toList]; exact hrle)]
    exact hD
  by_cases hz' : l.size = some 0 ∧ l.decompressed = 0
  · rw [if_pos hz']
    have hz := hcond.mp hz'
    have hs3 : Sim p size cap startB off ({ l with eos := true } : LSt) d D.size :=
      ⟨hs.s, hs.tbl, hs.rd, hs.p, hs.start, hs.size, hs.offle, hs.dsle, hs.rel, hs.cap, hs.src⟩
    have hR : K R → R = decSegment.finish p false d := by
      intro hK
      obtain ⟨fb, hfb⟩ := tracks_succ ht hK
      rw [← hfb, seg_zero fb (by rw [hz.1, hz.2])]
    have := tail_spec hs3 rfl
    cases hres : tail ({ l with eos := true } : LSt) with
    | more l' => rw [hres] at this; exact this.elim
    | eof l' =>
      rw [hres] at this
      obtain ⟨a1, a0, d', a2, a3, a4, a5⟩ := this
      simp only [DecPost]
      refine ⟨a1, a0, d', a2, ?_, ?_, ?_⟩
      · rw [a3]; exact hD
      · intro hf; rw [a1] at hf; cases hf
      · intro _ hK
        rw [hR hK]; exact ⟨a4, a5⟩
    | err l' e =>
      rw [hres] at this
      simp only [DecPost]
      rcases this with ⟨a1, a2⟩ | ⟨a1, a2⟩
      · exact Or.inl ⟨a1, fun hK => by rw [hR hK]; exact a2 trivial⟩
      · exact Or.inr ⟨a1, fun hK => by rw [hR hK]; exact a2 trivial⟩
  · rw [if_neg hz']
    have hz := fun hh => hz' (hcond.mpr hh)
    have hnd' : NotDone size startB d := by
      intro sz hsz
      rcases hnd sz hsz with h | ⟨h, h'⟩
      · exact h
      · exact absurd ⟨by rw [hsz, h], h'⟩ hz
    have := fill_spec R (l.dict.buf.available + 1) l d D.size hs hnd' ht he'
    cases hres : fill (l.dict.buf.available + 1) l with
    | more l' =>
      rw [hres] at this
      obtain ⟨a1, a0, a2, d', a3, a4, a5, a6⟩ := this
      simp only [DecPost]
      refine ⟨a1, a0, by omega, d', a3, htk d' a6, fun _ => ⟨a5, fun sz hsz => Or.inl (a4 sz hsz)⟩, ?_⟩
      intro hf; rw [a1] at hf; cases hf
    | eof l' =>
      rw [hres] at this
      obtain ⟨a1, a0, d', a3, a4, a5⟩ := this
      simp only [DecPost]
      refine ⟨a1, a0, d', a3, htk d' a4, ?_, fun _ hK => a5 hK⟩
      intro hf; rw [a1] at hf; cases hf
    | err l' e =>
      rw [hres] at this
      exact this

/-! ### `Read` -/

/-- the delivered bytes are a prefix of the batch output (behind the first `off` bytes) -/
def Pre (off : Nat) (R : SegRes) (X : ByteArray) : Prop :=
  K R → X.data.toList = (R.d.h.out.data.toList.drop off).take X.size

theorem GI.pre {R : SegRes} {l : LSt} {D : ByteArray} (hg : GI p size cap startB off R l D) : Pre off R D := by
  intro hK
  obtain ⟨d, hs, hD, h1, h2⟩ := hg
  have hrle := hs.rle
  have hol := hs.offle
  have hdl := hs.dsle
  cases he : l.eos with
  | false =>
    obtain ⟨fb, hfb⟩ := (h1 he).1 hK
    have := decSegment_prefix p size startB false fb d
    rw [hfb] at this
    rw [take_of_prefix (drop_prefix this off (by rw [length_toList]; omega)) _
      (by rw [List.length_drop, length_toList]; exact hrle)]
    exact hD
  | true =>
    rw [(h2 he hK).2]; exact hD

def StatPost (p : Props) (size : Option Nat) (cap startB off : Nat) (R : SegRes) (n0 : Nat) (l' : LSt)
    (X : ByteArray) : RStat → Prop
  | .ok => l'.rd.inp.length ≤ n0 ∧ GI p size cap startB off R l' X
  | .eof => l'.rd.inp.length ≤ n0 ∧ l'.eos = true ∧
      ∃ d, GId p size cap startB off R l' X d ∧ X.size = d.h.out.size - off
  | .err e => GoodErr (K R) e R.status

def LoopPost (p : Props) (size : Option Nat) (cap startB off : Nat) (R : SegRes) (n0 len : Nat) (D0 : ByteArray)
    (x : LSt × ByteArray × RStat) : Prop :=
  x.2.1.size ≤ len ∧ (x.2.2 = .ok → x.2.1.size = len) ∧ Pre off R (D0 ++ x.2.1) ∧
  StatPost p size cap startB off R n0 x.1 (D0 ++ x.2.1) x.2.2

/-- fuel the loop of `Read` needs from the state `l` with `acc` bytes copied -/
def need (len : Nat) (l : LSt) (acc : ByteArray) : Nat :=
  if l.eos then (if l.dict.buf.buffered = 0 then 1 else 2)
  else (len - acc.size) + (if l.dict.buf.buffered = 0 then 3 else 2)

theorem readLoop_spec (R : SegRes) (hcap : 274 ≤ cap) (n0 len : Nat) (D0 : ByteArray) :
    ∀ (fuel : Nat) (l : LSt) (acc : ByteArray), GI p size cap startB off R l (D0 ++ acc) → acc.size < len →
      l.rd.inp.length ≤ n0 →
      need len l acc ≤ fuel → LoopPost p size cap startB off R n0 len D0 (readLoop len fuel l acc) := by
  intro fuel
  induction fuel with
  | zero =>
    intro l acc hg hlt hn0 hn
    exfalso
    unfold need at hn
    split_ifs at hn <;> omega
  | succ fuel ih =>
    intro l acc hg hlt hn0 hn
    rw [readLoop]
    obtain ⟨d, hs, hD, h1, h2⟩ := hg
    have hrle := hs.rle
    have hfit := hs.rel.buf.fit
    have hwl := hs.wlen
    simp only [hwl, ByteArray.size_append] at hrle hfit
    have hbuf := buffered_eq _ _ _ hs.rel.buf
    simp only [hwl, ByteArray.size_append] at hbuf
    obtain ⟨r1, r2⟩ := relB_read l.dict _ cap _ hs.rel (len - acc.size)
    simp only [hwl, ByteArray.size_append] at r1 r2
    rcases hrd : l.dict.read (len - acc.size) with ⟨d', chunk⟩
    rw [hrd] at r1 r2
    simp only at r1 r2 ⊢
    -- the chunk handed out
    have hcs : chunk.size = min (len - acc.size) (d.h.out.size - off - (D0.size + acc.size)) := by
      rw [← length_toList, r1, List.length_take, List.length_drop, hwl]
    have hsize' : (D0 ++ (acc ++ chunk)).size = D0.size + acc.size + chunk.size := by
      simp only [ByteArray.size_append]; omega
    have hD' : (D0 ++ (acc ++ chunk)).data.toList =
        (d.h.out.data.toList.drop off).take (D0 ++ (acc ++ chunk)).size := by
      rw [hsize', ← ByteArray.append_assoc, ByteArray.data_append, Array.toList_append, hD, r1,
        ByteArray.size_append]
      conv_rhs => rw [List.take_add]
      congr 1
      rw [List.take_eq_take_iff, List.length_drop, hwl, hcs]
      omega
    have hs1 : Sim p size cap startB off ({ l with dict := d' } : LSt) d (D0 ++ (acc ++ chunk)).size := by
      refine ⟨hs.s, hs.tbl, hs.rd, hs.p, hs.start, hs.size, hs.offle, hs.dsle, ?_, hs.cap, hs.src⟩
      rw [hsize', hcs]; exact r2
    have hgd1 : GId p size cap startB off R ({ l with dict := d' } : LSt) (D0 ++ (acc ++ chunk)) d :=
      ⟨hs1, hD', h1, h2⟩
    have hg1 : GI p size cap startB off R ({ l with dict := d' } : LSt) (D0 ++ (acc ++ chunk)) := ⟨d, hgd1⟩
    have hbuf1 : d'.buf.buffered = d.h.out.size - off - (D0.size + acc.size + chunk.size) := by
      have := buffered_eq _ _ _ hs1.rel.buf
      simp only [hwl, hsize'] at this
      exact this
    have hsz2 : (acc ++ chunk).size = acc.size + chunk.size := ByteArray.size_append
    by_cases c1 : chunk.size = 0 ∧ l.eos = true
    · rw [if_pos c1]
      have hgA : GI p size cap startB off R l (D0 ++ acc) := ⟨d, hs, hD, h1, h2⟩
      have hce : chunk.data.toList = [] := List.eq_nil_of_length_eq_zero (by rw [length_toList]; exact c1.1)
      simp only [LoopPost]
      refine ⟨Nat.le_of_lt hlt, (fun h => by cases h), hgA.pre, ?_⟩
      simp only [StatPost]
      refine ⟨hn0, c1.2, d, hgd1.congr ?_, ?_⟩
      · simp only [ByteArray.data_append, Array.toList_append, hce, List.append_nil]
      · rw [ByteArray.size_append]
        have := c1.1
        omega
    rw [if_neg c1]
    by_cases c2 : (acc ++ chunk).size ≥ len
    · rw [if_pos c2]
      simp only [LoopPost]
      exact ⟨by omega, fun _ => by omega, hg1.pre, hn0, hg1⟩
    rw [if_neg c2]
    by_cases hE : l.eos = true
    · have hdc : decompress ({ l with dict := d' } : LSt) = .eof ({ l with dict := d' } : LSt) := by
        rw [decompress, if_pos hE]
      rw [hdc]
      simp only
      apply ih _ _ hg1 (by omega) hn0
      unfold need at hn ⊢
      rw [if_pos hE] at hn
      simp only
      rw [if_pos hE, if_pos (by omega)]
      have : chunk.size ≠ 0 := fun h0 => c1 ⟨h0, hE⟩
      rw [if_neg (by omega)] at hn
      omega
    · have hdp := decompress_spec hg1
      have hE' : l.eos = false := by simpa using hE
      unfold need at hn
      rw [hE', if_neg (by simp)] at hn
      cases hres : decompress ({ l with dict := d' } : LSt) with
      | err l' e =>
        rw [hres] at hdp
        simp only [LoopPost]
        exact ⟨by omega, (fun h => by cases h), hg1.pre, hdp⟩
      | more l' =>
        rw [hres] at hdp
        obtain ⟨a1, a0, a2, a3⟩ := hdp
        simp only
        apply ih l' _ a3 (by omega) (Nat.le_trans a0 hn0)
        obtain ⟨d2, s2, _, _, _⟩ := a3
        have hb2 := buffered_eq _ _ _ s2.rel.buf
        have ha2 := available_eq _ _ _ s2.rel.buf
        have hf2 := s2.rel.buf.fit
        unfold need
        rw [a1, if_neg (by simp), if_neg (by omega)]
        split_ifs at hn <;> omega
      | eof l' =>
        rw [hres] at hdp
        obtain ⟨a1, a0, a3⟩ := hdp
        simp only
        apply ih l' _ a3 (by omega) (Nat.le_trans a0 hn0)
        unfold need
        rw [a1, if_pos rfl]
        split_ifs at hn ⊢ <;> omega

theorem read_spec (R : SegRes) (hcap : 274 ≤ cap) {l : LSt} {D : ByteArray} (hg : GI p size cap startB off R l D)
    (len : Nat) (hlen : 0 < len) :
    LoopPost p size cap startB off R l.rd.inp.length len D (read l len) := by
  unfold read
  have he : D ++ ByteArray.empty = D := ByteArray.append_empty
  rw [if_neg (by omega)]
  apply readLoop_spec R hcap _ len D _ _ _ (by rw [he]; exact hg)
  · show 0 < len; omega
  · exact Nat.le_refl _
  · unfold need
    have : ByteArray.empty.size = 0 := rfl
    split_ifs <;> omega

theorem read_spec' (R : SegRes) (hcap : 274 ≤ cap) {l : LSt} {D : ByteArray} (hg : GI p size cap startB off R l D)
    (len : Nat) : LoopPost p size cap startB off R l.rd.inp.length len D (read l len) := by
  by_cases h0 : len = 0
  · have he : D ++ ByteArray.empty = D := ByteArray.append_empty
    unfold read
    rw [if_pos h0]
    simp only [LoopPost, he]
    exact ⟨by rw [h0]; exact Nat.le_refl _, fun _ => by rw [h0]; rfl, hg.pre, Nat.le_refl _, hg⟩
  · exact read_spec R hcap hg len (by omega)

/-- the state a successful `NewReader` returns is in step with the start of the batch run -/
theorem newReader_init (cfgCap : Nat) (inp : ByteArray) (l : LSt) (h : newReader cfgCap inp = .ok l) :
    ∃ (p : Props) (size : Option Nat) (cap : Nat) (R : SegRes), 274 ≤ cap ∧ GI p size cap 0 0 R l ByteArray.empty ∧
      (Lzma1.read (if cfgCap = 0 then 8 * 1024 * 1024 else cfgCap) inp).out = R.d.h.out ∧
      (Lzma1.read (if cfgCap = 0 then 8 * 1024 * 1024 else cfgCap) inp).status = R.status := by
  unfold newReader newReaderE at h
  unfold Lzma1.read
  by_cases c1 : inp.size < 13
  · rw [if_pos c1] at h; cases h
  rw [if_neg c1] at h
  rw [if_neg c1]
  cases hp : Lzma2.propsOfByte (Lzma2.get inp 0) with
  | none => rw [hp] at h; cases h
  | some p =>
    rw [hp] at h
    simp only at h ⊢
    by_cases c2 : Lzma1.le inp 5 8 ≠ 2 ^ 64 - 1 ∧ Lzma1.le inp 5 8 ≥ 2 ^ 63
    · rw [if_pos c2] at h; cases h
    rw [if_neg c2] at h
    rw [if_neg c2]
    cases hi : Dec.init (bytesToList inp 13 inp.size) with
    | none => rw [hi] at h; cases h
    | some rd =>
      rw [hi] at h
      simp only at h ⊢
      cases h
      have hc : 274 ≤ max (if cfgCap = 0 then 8 * 1024 * 1024 else cfgCap)
          (max (Lzma1.le inp 1 4) Lzma1.minDictCap) := by
        unfold Lzma1.minDictCap; omega
      generalize (if Lzma1.le inp 5 8 = 2 ^ 64 - 1 then none else some (Lzma1.le inp 5 8) : Option Nat) = size
      generalize max (if cfgCap = 0 then 8 * 1024 * 1024 else cfgCap)
          (max (Lzma1.le inp 1 4) Lzma1.minDictCap) = cap at hc ⊢
      refine ⟨p, size, cap, _, hc, ?_, rfl, rfl⟩
      refine ⟨{ s := {}, tbl := initTable p.lc p.lp, rd := rd, h := { out := ByteArray.empty, dictStart := 0, cap := cap } },
        ⟨rfl, rfl, rfl, rfl, rfl, rfl, Nat.le_refl _, Nat.le_refl _, ⟨new_rel cap, rfl, by omega⟩, rfl, rfl⟩, rfl, ?_, ?_⟩
      · intro _
        refine ⟨fun _ => ⟨_, rfl⟩, fun sz hsz => ?_⟩
        show 0 - 0 < sz ∨ sz = 0 ∧ 0 - 0 = 0
        omega
      · intro hf; cases hf

end LazyDec
