import XzVerif.Model.HashTable
import XzVerif.Proofs.HashTable

/-!
  What HashTable4 proposes inside a run of one byte value (ring level): distance 1 is tried first and
  `buffer.matchLen` finds the whole look-ahead unless the match source runs into the PHYSICAL end of the array.
-/
namespace RunCost
open Ring W2 Sel HT

theorem prefixLen_ge (a : ByteArray) (ao : Nat) (b : ByteArray) (bo bhi : Nat) :
    ∀ (fuel acc : Nat), acc ≤ prefixLen a ao b bo bhi fuel acc := by
  intro fuel
  induction fuel with
  | zero => intro acc; simp only [prefixLen]; exact Nat.le_refl _
  | succ fuel ih =>
    intro acc
    simp only [prefixLen]
    split_ifs
    · exact Nat.le_trans (Nat.le_succ _) (ih (acc + 1))
    · exact Nat.le_refl _

/-- completeness of `prefixLen`: as long as the bytes agree and both slices go on, it keeps counting -/
theorem prefixLen_full (a : ByteArray) (ao : Nat) (b : ByteArray) (bo bhi n : Nat) :
    ∀ (fuel acc : Nat), n ≤ acc + fuel →
    (∀ k, acc ≤ k → k < n → ao + k < a.size ∧ bo + k < bhi ∧ a.get! (ao + k) = b.get! (bo + k)) →
    n ≤ prefixLen a ao b bo bhi fuel acc := by
  intro fuel
  induction fuel with
  | zero => intro acc h1 _; simp only [prefixLen]; omega
  | succ fuel ih =>
    intro acc h1 h2
    by_cases hn : n ≤ acc
    · exact Nat.le_trans hn (prefixLen_ge ..)
    · simp only [prefixLen]
      rw [if_pos (h2 acc (Nat.le_refl _) (by omega))]
      exact ih (acc + 1) (by omega) (fun k hk1 hk2 => h2 k (by omega) hk2)

/-- `matchLen` at distance 1 inside a run: complete when the read position is at the physical beginning, and
    otherwise complete up to the physical end of the array -/
theorem matchLen_one {d : EDict} {a : Abs} {dc bs : Nat} (h : d.Rel a dc bs) (b : UInt8) (l : Nat)
    (hr1 : 1 ≤ a.r) (hW : ∀ j, a.r - 1 ≤ j → j < a.W.length → a.W[j]! = b) :
    (d.buf.rear = 0 → d.buf.matchLen 1 (d.buf.peek l) = (d.buf.peek l).size) ∧
    (1 ≤ d.buf.rear → min (d.buf.peek l).size (dc + bs + 2 - d.buf.rear) ≤ d.buf.matchLen 1 (d.buf.peek l)) := by
  have hl := h.buf.len_eq
  have hrle := h.buf.rle
  have hfit := h.buf.fit
  have hrear := h.buf.rear
  have hrlt := h.buf.rear_lt
  have hL : 0 < dc + bs + 1 := by omega
  have hps := peek_size h l
  have hpg : ∀ k, k < (d.buf.peek l).size → (d.buf.peek l).get! k = b := by
    intro k hk
    rw [peek_get h l k hk]
    exact hW _ (by omega) (by rw [hps] at hk; omega)
  have hle : d.buf.matchLen 1 (d.buf.peek l) ≤ (d.buf.peek l).size := matchLen_le (by omega) 1 _
  generalize d.buf.peek l = p at *
  constructor
  · intro h0
    by_cases hp0 : p.size = 0
    · omega
    · have e : d.buf.matchLen 1 p =
          (let n := prefixLen p 0 d.buf.data (d.buf.len - 1) d.buf.len p.size 0
           if n < 1 then n else n + prefixLen p n d.buf.data 0 d.buf.len p.size 0) := by
        unfold Buf.matchLen
        rw [if_neg (by omega), h0]
      have hlast : d.buf.data.get! (dc + bs) = b := by
        have hk := h.buf.kept (a.r - 1) (by omega) (by omega)
        have e0 : (a.r - 1) % (dc + bs + 1) = a.r % (dc + bs + 1) + (dc + bs + 1) - 1 :=
          mod_sub_eq1 (dc + bs + 1) a.r 1 hL (by omega) hr1 (by omega)
        rw [e0, ← hrear, h0] at hk
        rw [show 0 + (dc + bs + 1) - 1 = dc + bs by omega] at hk
        rw [hk]; exact hW _ (Nat.le_refl _) (by omega)
      have n1lo : 1 ≤ prefixLen p 0 d.buf.data (d.buf.len - 1) d.buf.len p.size 0 := by
        apply prefixLen_full _ _ _ _ _ 1 _ _ (by omega)
        intro k hk1 hk2
        have hk : k = 0 := by omega
        subst hk
        refine ⟨by omega, by omega, ?_⟩
        rw [hpg 0 (by omega), hl, show dc + bs + 1 - 1 + 0 = dc + bs by omega, hlast]
      obtain ⟨_, _, n1hi, _⟩ :=
        prefixLen_spec p 0 d.buf.data (d.buf.len - 1) d.buf.len p.size 0 (by omega) (by omega)
      have n1 : prefixLen p 0 d.buf.data (d.buf.len - 1) d.buf.len p.size 0 = 1 := by omega
      rw [n1] at e
      simp only [Nat.lt_irrefl, if_false] at e
      have n2 : p.size - 1 ≤ prefixLen p 1 d.buf.data 0 d.buf.len p.size 0 := by
        apply prefixLen_full _ _ _ _ _ (p.size - 1) _ _ (by omega)
        intro k _ hk2
        refine ⟨by omega, by omega, ?_⟩
        rw [hpg (1 + k) (by omega)]
        have hk := h.buf.kept (a.r + k) (by omega) (by omega)
        rw [mod_add_eq (dc + bs + 1) a.r k k 0 (by omega) (by omega)] at hk
        rw [Nat.zero_add, hk]
        exact (hW _ (by omega) (by omega)).symm
      omega
  · intro h1
    have e : d.buf.matchLen 1 p = prefixLen p 0 d.buf.data (d.buf.rear - 1) d.buf.len p.size 0 := by
      unfold Buf.matchLen
      rw [if_pos h1]
    rw [e]
    apply prefixLen_full _ _ _ _ _ _ _ _ (by omega)
    intro k _ hk2
    refine ⟨by omega, by omega, ?_⟩
    rw [Nat.zero_add, hpg k (by omega)]
    have hk := h.buf.kept (a.r - 1 + k) (by omega) (by omega)
    have e0 : (a.r - 1) % (dc + bs + 1) = d.buf.rear - 1 := by
      rw [mod_sub_eq0 (dc + bs + 1) a.r 1 hL (by omega), ← hrear]
    rw [mod_add_eq (dc + bs + 1) (a.r - 1) k (d.buf.rear - 1 + k) 0 (by omega) (by omega)] at hk
    rw [hk]
    exact (hW _ (by omega) (by omega)).symm

/-- the best match never gets shorter along the candidate loop -/
theorem htLoop_mono (d : EDict) (data : ByteArray) (rep0 : Nat) :
    ∀ (dists : List Nat) (m m' : Nat × Nat), htLoop d data rep0 dists m = some m' → m.2 ≤ m'.2 := by
  intro dists
  induction dists with
  | nil =>
    intro m m' hres
    simp only [htLoop, Option.some.injEq] at hres
    subst hres; exact Nat.le_refl _
  | cons dist rest ih =>
    intro m m' hres
    rw [htLoop] at hres
    split_ifs at hres with hc
    · exact ih m m' hres
    · split at hres
      · cases hres
      · simp only at hres
        split_ifs at hres with c1 c2 c3 c4 c5
        · exact ih m m' hres
        · exact ih m m' hres
        · exact ih m m' hres
        · cases hres
          exact Nat.le_of_lt c4
        · exact Nat.le_trans (Nat.le_of_lt c4) (ih _ m' hres)
        · exact ih m m' hres

/-- the first candidate (distance 1) inside a run, starting from "nothing found" -/
theorem htLoop_one {d : EDict} {a : Abs} {dc bs : Nat} (h : d.Rel a dc bs) (b : UInt8) (rep0 : Nat)
    (rest : List Nat) (hr1 : 1 ≤ a.r) (hdc : 1 ≤ dc) (hbuf : a.r < a.W.length)
    (hW : ∀ j, a.r - 1 ≤ j → j < a.W.length → a.W[j]! = b)
    (hn : 2 ≤ d.buf.matchLen 1 (d.buf.peek 273) ∨ rep0 = 0) :
    htLoop d (d.buf.peek 273) rep0 (1 :: rest) (0, 0) =
      if d.buf.matchLen 1 (d.buf.peek 273) = (d.buf.peek 273).size then some (1, (d.buf.peek 273).size)
      else htLoop d (d.buf.peek 273) rep0 rest (1, d.buf.matchLen 1 (d.buf.peek 273)) := by
  have hl := h.buf.len_eq
  have hrle := h.buf.rle
  have hrear := h.buf.rear
  have hrlt := h.buf.rear_lt
  have hL : 0 < dc + bs + 1 := by omega
  have hfit := h.buf.fit
  have hps := peek_size h 273
  have hp0 : (d.buf.peek 273).get! 0 = b := by
    rw [peek_get h 273 0 (by omega)]
    exact hW _ (by omega) (by omega)
  have hdl : ¬ 1 > d.dictLen := by rw [h.dictLen_eq]; omega
  have hbyte : byteHT d 1 0 = some b := by
    unfold byteHT
    simp only [Nat.add_zero]
    have hidx := h.buf.back_index_rear 1 hr1 (by omega)
    rw [hidx, if_pos (by rw [hl]; exact Nat.mod_lt _ hL)]
    rw [h.buf.kept (a.r - 1) (by omega) (by omega)]
    exact congrArg some (hW _ (Nat.le_refl _) (by omega))
  have hm1 := (matchLen_one h b 273 hr1 hW)
  have hpos : 1 ≤ d.buf.matchLen 1 (d.buf.peek 273) := by
    by_cases h0 : d.buf.rear = 0
    · rw [hm1.1 h0]; omega
    · have := hm1.2 (by omega); omega
  rw [htLoop, if_neg hdl, hbyte]
  simp only
  have hn1 : ¬ (d.buf.matchLen 1 (d.buf.peek 273) = 1 ∧ 1 - 1 ≠ rep0) := by
    intro hh
    rcases hn with hn | hn
    · omega
    · exact hh.2 hn.symm
  rw [if_neg (by rw [hp0]; exact fun hh => hh rfl), if_neg (by omega), if_neg hn1, if_pos (by omega)]
  split_ifs with hf
  · rw [hf]
  · rfl

/-- **proposal inside a run, no physical wrap of the match source**: `(1, N)` -/
theorem nextOpHT_run {d : EDict} {a : Abs} {dc bs : Nat} (h : d.Rel a dc bs) (b : UInt8) (cands : List Nat)
    (rep0 : Nat) (hr1 : 1 ≤ a.r) (hdc : 1 ≤ dc) (hbuf : a.r < a.W.length)
    (hW : ∀ j, a.r - 1 ≤ j → j < a.W.length → a.W[j]! = b)
    (hphys : d.buf.rear = 0 ∨ d.buf.rear + min 273 (a.W.length - a.r) ≤ dc + bs + 2)
    (hn : 2 ≤ min 273 (a.W.length - a.r) ∨ rep0 = 0) :
    nextOpHT d cands rep0 = .op (.mtch 1 (min 273 (a.W.length - a.r))) := by
  have hps := peek_size h 273
  have hm1 := matchLen_one h b 273 hr1 hW
  have hle : d.buf.matchLen 1 (d.buf.peek 273) ≤ (d.buf.peek 273).size :=
    matchLen_le (by have := h.buf.rear_lt; have := h.buf.len_eq; omega) 1 _
  have hfull : d.buf.matchLen 1 (d.buf.peek 273) = (d.buf.peek 273).size := by
    by_cases h0 : d.buf.rear = 0
    · exact hm1.1 h0
    · have := hm1.2 (by omega); omega
  unfold nextOpHT
  simp only
  rw [if_neg (by omega)]
  rw [show ([1, 2, 3, 4, 5, 6, 7, 8] ++ cands.filter (fun x => decide (x > 8))) =
      1 :: ([2, 3, 4, 5, 6, 7, 8] ++ cands.filter (fun x => decide (x > 8))) from rfl]
  rw [htLoop_one h b rep0 _ hr1 hdc hbuf hW (by rw [hfull, hps]; exact hn), if_pos hfull]
  simp only
  rw [if_neg (by omega), hps]

/-- **proposal inside a run when the match source hits the physical end**: some match that reaches at least the
    physical end -/
theorem nextOpHT_wrap {d : EDict} {a : Abs} {dc bs : Nat} (h : d.Rel a dc bs) (b : UInt8) (cands : List Nat)
    (hasc : ((cands.filter (fun x => x > 8))).Pairwise (· < ·))
    (rep0 : Nat) (hr1 : 1 ≤ a.r) (hdc : 1 ≤ dc) (hbuf : a.r < a.W.length)
    (hW : ∀ j, a.r - 1 ≤ j → j < a.W.length → a.W[j]! = b)
    (hphys : 1 ≤ d.buf.rear ∧ dc + bs + 2 < d.buf.rear + min 273 (a.W.length - a.r)) :
    ∃ dist n, nextOpHT d cands rep0 = .op (.mtch dist n) ∧ dc + bs + 2 - d.buf.rear ≤ n := by
  have hps := peek_size h 273
  have hrlt := h.buf.rear_lt
  have hm1 := (matchLen_one h b 273 hr1 hW).2 hphys.1
  have hlo : dc + bs + 2 - d.buf.rear ≤ d.buf.matchLen 1 (d.buf.peek 273) := by omega
  have hnp := nextOpHT_no_panic d a dc bs h hbuf cands hasc rep0
  unfold nextOpHT at hnp ⊢
  simp only at hnp ⊢
  rw [if_neg (by omega)] at hnp ⊢
  rw [show ([1, 2, 3, 4, 5, 6, 7, 8] ++ cands.filter (fun x => decide (x > 8))) =
      1 :: ([2, 3, 4, 5, 6, 7, 8] ++ cands.filter (fun x => decide (x > 8))) from rfl] at hnp ⊢
  rw [htLoop_one h b rep0 _ hr1 hdc hbuf hW (Or.inl (by omega))] at hnp ⊢
  split_ifs at hnp ⊢ with hfull
  · simp only
    rw [if_neg (by omega)]
    exact ⟨1, _, rfl, by omega⟩
  · cases hres : htLoop d (d.buf.peek 273) rep0
        ([2, 3, 4, 5, 6, 7, 8] ++ cands.filter (fun x => decide (x > 8))) (1, d.buf.matchLen 1 (d.buf.peek 273)) with
    | none => rw [hres] at hnp; exact absurd rfl hnp
    | some m' =>
      have hmono := htLoop_mono d _ rep0 _ _ _ hres
      simp only at hmono
      obtain ⟨dist, n⟩ := m'
      simp only
      rw [if_neg (by simp only at hmono; omega)]
      exact ⟨dist, n, rfl, by simp only at hmono; omega⟩

/-- the abstract dictionary content inside a run -/
theorem run_W (b : UInt8) (hist look : ByteArray) (hh : 1 ≤ hist.size)
    (hlast : hist.get! (hist.size - 1) = b) (hall : ∀ i, i < look.size → look.get! i = b) :
    ∀ j, hist.size - 1 ≤ j → j < (hist ++ look).data.toList.length → (hist ++ look).data.toList[j]! = b := by
  intro j hj1 hj2
  rw [length_toList, ByteArray.size_append] at hj2
  rw [toList_append, getElem!_append, length_toList]
  split_ifs with hlt
  · rw [get!_toList, show j = hist.size - 1 by omega]; exact hlast
  · rw [get!_toList]; exact hall _ (by omega)

/-- **HashTable4 inside a run** (corrected `run_proposal`): distance 1 with the whole look-ahead (capped at 273),
    provided the match source does not run into the physical end of the ring array -/
theorem ht4_run (c : Cfg) (hc : CfgOk c) (b : UInt8) (m : HT.St) (hist look : ByteArray) (s : Lzma.St)
    (hI : HT.Synced c m hist look) (hh : 1 ≤ hist.size) (hl : 1 ≤ look.size)
    (hsp : look.size + min hist.size c.dictCap ≤ c.dictCap + c.bufSize)
    (hlast : hist.get! (hist.size - 1) = b) (hall : ∀ i, i < look.size → look.get! i = b)
    (hphys : hist.size % (c.dictCap + c.bufSize + 1) = 0 ∨
      hist.size % (c.dictCap + c.bufSize + 1) + min 273 look.size ≤ c.dictCap + c.bufSize + 2)
    (hn : 2 ≤ min 273 look.size ∨ s.r0 = 0) :
    (HT.HT4.next m hist look s).1 = .mtch 1 (min 273 look.size) := by
  obtain ⟨r1, _, _, _, _⟩ := sync_rel_wf c m hist look hI hsp
  have hlen : (hist ++ look).data.toList.length - hist.size = look.size := by
    rw [length_toList, ByteArray.size_append]; omega
  have hrear := r1.buf.rear
  have hres := nextOpHT_run r1 b ((m.sync hist look).tab.cands look) s.r0 hh hc.2.2.1
    (by show hist.size < (hist ++ look).data.toList.length
        rw [length_toList, ByteArray.size_append]; omega) (run_W b hist look hh hlast hall)
    (by rw [hrear]; simp only [hlen]; exact hphys) (by simp only [hlen]; exact hn)
  simp only [hlen] at hres
  simp only [HT4]
  rw [hres]

/-- **HashTable4 inside a run at the physical end of the ring**: some match reaching at least the physical end -/
theorem ht4_wrap (c : Cfg) (hc : CfgOk c) (b : UInt8) (m : HT.St) (hist look : ByteArray) (s : Lzma.St)
    (hI : HT.Synced c m hist look) (hh : 1 ≤ hist.size) (hl : 1 ≤ look.size)
    (hsp : look.size + min hist.size c.dictCap ≤ c.dictCap + c.bufSize)
    (hlast : hist.get! (hist.size - 1) = b) (hall : ∀ i, i < look.size → look.get! i = b)
    (hphys : 1 ≤ hist.size % (c.dictCap + c.bufSize + 1) ∧
      c.dictCap + c.bufSize + 2 < hist.size % (c.dictCap + c.bufSize + 1) + min 273 look.size) :
    ∃ dist n, (HT.HT4.next m hist look s).1 = .mtch dist n ∧
      c.dictCap + c.bufSize + 2 - hist.size % (c.dictCap + c.bufSize + 1) ≤ n := by
  obtain ⟨r1, _, _, _, r5⟩ := sync_rel_wf c m hist look hI hsp
  have hlen : (hist ++ look).data.toList.length - hist.size = look.size := by
    rw [length_toList, ByteArray.size_append]; omega
  have hrear := r1.buf.rear
  have hasc := (cands_ascending' (m.sync hist look).tab r5 look).filter (fun x => decide (x > 8))
  obtain ⟨dist, n, hres, hn⟩ := nextOpHT_wrap r1 b ((m.sync hist look).tab.cands look) hasc s.r0 hh hc.2.2.1
    (by show hist.size < (hist ++ look).data.toList.length
        rw [length_toList, ByteArray.size_append]; omega) (run_W b hist look hh hlast hall)
    (by rw [hrear]; simp only [hlen]; exact hphys)
  refine ⟨dist, n, ?_, by rw [hrear] at hn; exact hn⟩
  simp only [HT4]
  rw [hres]

end RunCost

#print axioms RunCost.ht4_run
#print axioms RunCost.ht4_wrap
