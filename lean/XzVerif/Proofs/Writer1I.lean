import XzVerif.Proofs.Writer1
import XzVerif.Proofs.HashTable
import XzVerif.Proofs.BinTree
import XzVerif.Proofs.Writer1ILemmas
/-!
  The classic-writer theorems of Proofs/Writer1.lean for STATEFUL match finders that keep themselves in sync with the
  dictionary (`W2.MatcherInv`), so that they apply to the HashTable4 and BinaryTree models without any hypothesis
  about the match finder.
-/
namespace W1
open W2 Lzma Rc

variable {σ : Type}

theorem writes_spec_I (c : Cfg) (hc : CfgOk c) (M : Matcher σ) (I : σ → ByteArray → ByteArray → Prop)
    (hI : MatcherInv c.w2 M I) (m0 : σ) (h0 : I m0 ByteArray.empty ByteArray.empty) (ps : List ByteArray) :
    (run c M (init c m0) (ps.map .write ++ [.close])).1.take ps.length = specWrites c.size 0 ps := by
  exact writes_I c hc M I (W2.matcherInv' hI) m0 h0 ps

theorem close_spec_I (c : Cfg) (hc : CfgOk c) (M : Matcher σ) (I : σ → ByteArray → ByteArray → Prop)
    (hI : MatcherInv c.w2 M I) (m0 : σ) (h0 : I m0 ByteArray.empty ByteArray.empty)
    (ps : List ByteArray) (cfgCap : Nat) (hcap : cfgCap ≤ max c.dictCap 4096) :
    let res := run c M (init c m0) (ps.map .write ++ [.close])
    let data := acceptedData c.size 0 ps
    ((match c.size with
      | some sz => data.size ≠ sz
      | none => False) →
      (res.1.drop ps.length = [(0, some .size)] ∧ res.2 = none))
    ∧
    ((match c.size with
      | some sz => data.size = sz
      | none => True) →
      res.1.drop ps.length = [(0, none)] ∧
      ∃ o, res.2 = some o ∧ o.extract 0 13 = Lzma1.headerBytes c.header ∧
        (Lzma1.read cfgCap o).status = .eof ∧ (Lzma1.read cfgCap o).out = data ∧
        (Lzma1.read cfgCap o).consumed = o.size ∧ (Lzma1.read cfgCap o).marker = c.marker ∧
        (Lzma1.read cfgCap o).openError = false) := by
  have _ := hcap   -- not needed: `Lzma1.read_encode_*` hold for every reader capacity
  exact closes_I c hc M I (W2.matcherInv' hI) m0 h0 ps cfgCap

#print axioms W1.writes_spec_I
#print axioms W1.close_spec_I

end W1
