import XzVerif.Gen.GoSrc
import XzVerif.Model.BinTree
import XzVerif.Proofs.GoSrcTree2
/-
  Proofs.GoSrcTree3 — the REGENERATED translation of lzma/bintree.go `pred` / `succ` (the rightmost node of the left subtree
  resp. the leftmost of the right subtree, else climb the parent links until coming up from a right resp. left child) refines
  `Tree.pred` / `Tree.succ` of Model/BinTree.lean on a tree whose parent links are acyclic (a rank decreases towards the root).
  Statements are fixed; only proofs may change.
-/
namespace GoSrcP
open GoSrc

theorem max_go_lt (t : BT.Tree) (wr : ∀ i, i < t.node.size → (t.nd i).r = BT.null ∨ (t.nd i).r < t.node.size) :
    ∀ (k v : Nat), v < t.node.size → BT.Tree.max.go t k v < t.node.size := by
  intro k
  induction k with
  | zero => intro v hv; simpa only [BT.Tree.max.go] using hv
  | succ k ih =>
    intro v hv
    simp only [BT.Tree.max.go]
    by_cases hn : (t.nd v).r = BT.null
    · rw [if_pos hn]; exact hv
    · rw [if_neg hn]
      rcases wr v hv with h | h
      · exact absurd h hn
      · exact ih _ h

theorem max_null_or_lt (t : BT.Tree) (wr : ∀ i, i < t.node.size → (t.nd i).r = BT.null ∨ (t.nd i).r < t.node.size)
    (v : Nat) (hv : v = BT.null ∨ v < t.node.size) : t.max v = BT.null ∨ t.max v < t.node.size := by
  unfold BT.Tree.max
  by_cases hn : v = BT.null
  · left; rw [if_pos hn]
  · right; rw [if_neg hn]
    rcases hv with h | h
    · exact absurd h hn
    · exact max_go_lt t wr _ v h

theorem binTree_pred_loop (g : T_binTree) (t : BT.Tree) (rel : BTRel g t) (u : BitVec 32)
    (wp : ∀ i, i < t.node.size → (t.nd i).p = BT.null ∨ (t.nd i).p < t.node.size)
    (rank : Nat → Nat)
    (hrank : ∀ i, i < t.node.size → (t.nd i).p ≠ BT.null → rank (t.nd i).p < rank i) :
    ∀ (k fuel : Nat) (v : BitVec 32), v.toNat < t.node.size → rank v.toNat + 1 ≤ k → k ≤ fuel →
      binTree_pred_loop1 fuel g v u = Go.Res.ok (Sum.inl (BitVec.ofNat 32 (BT.Tree.pred.go t k v.toNat))) := by
  intro k
  induction k with
  | zero => intro fuel v hv hk; omega
  | succ k ih =>
    intro fuel v hv hk hfuel
    obtain ⟨fuel, rfl⟩ : ∃ f, fuel = f + 1 := ⟨fuel - 1, by omega⟩
    unfold binTree_pred_loop1
    have hsz := rel.size
    have hsmall := rel.small
    have hp := rel.p v.toNat hv
    rw [if_neg (by omega)]
    simp only [BT.Tree.pred.go]
    by_cases hn : (t.nd v.toNat).p = BT.null
    · rw [if_pos hn]
      have hq : (g.node.getD v.toNat default).p = 4294967295#32 := by
        apply BitVec.eq_of_toNat_eq
        rw [hp, hn]; rfl
      simp only [hq, beq_self_eq_true, if_true]
      rfl
    · rw [if_neg hn]
      have hq : ((g.node.getD v.toNat default).p == 4294967295#32) = false := by
        rw [beq_eq_false_iff_ne]
        intro h
        apply hn
        rw [← hp, h]; rfl
      simp only [hq, Bool.false_eq_true, if_false]
      have hw : (t.nd v.toNat).p < t.node.size := by
        rcases wp v.toNat hv with h | h
        · exact absurd h hn
        · exact h
      have hw' : (g.node.getD v.toNat default).p.toNat < t.node.size := by rw [hp]; exact hw
      rw [if_neg (by omega)]
      have hr := rel.r _ hw'
      by_cases hc : (t.nd (t.nd v.toNat).p).r = v.toNat
      · rw [if_pos hc]
        have hq2 : (g.node.getD (g.node.getD v.toNat default).p.toNat default).r = v := by
          apply BitVec.eq_of_toNat_eq
          rw [hr, hp, hc]
        simp only [hq2, beq_self_eq_true, if_true]
        rw [← hp, BitVec.ofNat_toNat, BitVec.setWidth_eq]
      · rw [if_neg hc]
        have hq2 : ((g.node.getD (g.node.getD v.toNat default).p.toNat default).r == v) = false := by
          rw [beq_eq_false_iff_ne]
          intro h
          apply hc
          rw [← hp, ← hr, h]
        simp only [hq2, Bool.false_eq_true, if_false]
        have hrk := hrank v.toNat hv hn
        have := ih fuel (g.node.getD v.toNat default).p hw' (by rw [hp]; omega) (by omega)
        rw [this, hp]

theorem binTree_pred_spec (fuel : Nat) (g : T_binTree) (t : BT.Tree) (rel : BTRel g t) (v : BitVec 32)
    (hv : v.toNat = BT.null ∨ v.toNat < t.node.size) (hfuel : t.node.size + 3 ≤ fuel)
    (wp : ∀ i, i < t.node.size → (t.nd i).p = BT.null ∨ (t.nd i).p < t.node.size)
    (rank : Nat → Nat) (hrb : ∀ i, rank i ≤ t.node.size)
    (hrank : ∀ i, i < t.node.size → (t.nd i).p ≠ BT.null → rank (t.nd i).p < rank i)
    (hterm : ∀ u, u < t.node.size → (t.nd (t.max u)).r = BT.null) :
    binTree_pred fuel g v = Go.Res.ok (BitVec.ofNat 32 (t.pred v.toNat)) := by
  unfold binTree_pred BT.Tree.pred
  by_cases hn : v.toNat = BT.null
  · have hq : v = 4294967295#32 := by
      apply BitVec.eq_of_toNat_eq
      rw [hn]; rfl
    subst hq
    simp only [beq_self_eq_true, if_true, hn]
    rfl
  · have hq : (v == 4294967295#32) = false := by
      rw [beq_eq_false_iff_ne]
      intro h
      apply hn
      rw [h]; rfl
    have hv' : v.toNat < t.node.size := by
      rcases hv with h | h
      · exact absurd h hn
      · exact h
    have hsz := rel.size
    have hsmall := rel.small
    have hl := rel.l v.toNat hv'
    have hwl := rel.wl v.toNat hv'
    simp only [hq, Bool.false_eq_true, if_false, hn]
    rw [if_neg (by omega)]
    rw [binTree_max_spec fuel g t rel (g.node.getD v.toNat default).l (by rw [hl]; exact hwl) (by omega)
      (by
        intro hne
        rw [hl] at hne ⊢
        rcases hwl with h | h
        · exact absurd h hne
        · exact hterm _ h)]
    rw [hl]
    simp only [Go.Res.bind_ok]
    rcases max_null_or_lt t rel.wr (t.nd v.toNat).l hwl with hm | hm
    · rw [hm]
      have h1 : ((BitVec.ofNat 32 BT.null) != 4294967295#32) = false := by decide
      simp only [h1, Bool.false_eq_true, if_false, ne_eq, not_true_eq_false]
      rw [binTree_pred_loop g t rel _ wp rank hrank (t.node.size + 1) fuel v hv'
        (by have := hrb v.toNat; omega) (by omega)]
      rfl
    · have h1 : ((BitVec.ofNat 32 (t.max (t.nd v.toNat).l)) != 4294967295#32) = true := by
        rw [bne_iff_ne]
        intro h
        have := congrArg BitVec.toNat h
        simp only [BitVec.toNat_ofNat] at this
        omega
      have h2 : t.max (t.nd v.toNat).l ≠ BT.null := by
        unfold BT.null; omega
      simp only [h1, if_true, h2, ne_eq, not_false_eq_true]

theorem min_go_lt (t : BT.Tree) (wr : ∀ i, i < t.node.size → (t.nd i).l = BT.null ∨ (t.nd i).l < t.node.size) :
    ∀ (k v : Nat), v < t.node.size → BT.Tree.min.go t k v < t.node.size := by
  intro k
  induction k with
  | zero => intro v hv; simpa only [BT.Tree.min.go] using hv
  | succ k ih =>
    intro v hv
    simp only [BT.Tree.min.go]
    by_cases hn : (t.nd v).l = BT.null
    · rw [if_pos hn]; exact hv
    · rw [if_neg hn]
      rcases wr v hv with h | h
      · exact absurd h hn
      · exact ih _ h

theorem min_null_or_lt (t : BT.Tree) (wr : ∀ i, i < t.node.size → (t.nd i).l = BT.null ∨ (t.nd i).l < t.node.size)
    (v : Nat) (hv : v = BT.null ∨ v < t.node.size) : t.min v = BT.null ∨ t.min v < t.node.size := by
  unfold BT.Tree.min
  by_cases hn : v = BT.null
  · left; rw [if_pos hn]
  · right; rw [if_neg hn]
    rcases hv with h | h
    · exact absurd h hn
    · exact min_go_lt t wr _ v h

theorem binTree_succ_loop (g : T_binTree) (t : BT.Tree) (rel : BTRel g t) (u : BitVec 32)
    (wp : ∀ i, i < t.node.size → (t.nd i).p = BT.null ∨ (t.nd i).p < t.node.size)
    (rank : Nat → Nat)
    (hrank : ∀ i, i < t.node.size → (t.nd i).p ≠ BT.null → rank (t.nd i).p < rank i) :
    ∀ (k fuel : Nat) (v : BitVec 32), v.toNat < t.node.size → rank v.toNat + 1 ≤ k → k ≤ fuel →
      binTree_succ_loop1 fuel g v u = Go.Res.ok (Sum.inl (BitVec.ofNat 32 (BT.Tree.succ.go t k v.toNat))) := by
  intro k
  induction k with
  | zero => intro fuel v hv hk; omega
  | succ k ih =>
    intro fuel v hv hk hfuel
    obtain ⟨fuel, rfl⟩ : ∃ f, fuel = f + 1 := ⟨fuel - 1, by omega⟩
    unfold binTree_succ_loop1
    have hsz := rel.size
    have hsmall := rel.small
    have hp := rel.p v.toNat hv
    rw [if_neg (by omega)]
    simp only [BT.Tree.succ.go]
    by_cases hn : (t.nd v.toNat).p = BT.null
    · rw [if_pos hn]
      have hq : (g.node.getD v.toNat default).p = 4294967295#32 := by
        apply BitVec.eq_of_toNat_eq
        rw [hp, hn]; rfl
      simp only [hq, beq_self_eq_true, if_true]
      rfl
    · rw [if_neg hn]
      have hq : ((g.node.getD v.toNat default).p == 4294967295#32) = false := by
        rw [beq_eq_false_iff_ne]
        intro h
        apply hn
        rw [← hp, h]; rfl
      simp only [hq, Bool.false_eq_true, if_false]
      have hw : (t.nd v.toNat).p < t.node.size := by
        rcases wp v.toNat hv with h | h
        · exact absurd h hn
        · exact h
      have hw' : (g.node.getD v.toNat default).p.toNat < t.node.size := by rw [hp]; exact hw
      rw [if_neg (by omega)]
      have hr := rel.l _ hw'
      by_cases hc : (t.nd (t.nd v.toNat).p).l = v.toNat
      · rw [if_pos hc]
        have hq2 : (g.node.getD (g.node.getD v.toNat default).p.toNat default).l = v := by
          apply BitVec.eq_of_toNat_eq
          rw [hr, hp, hc]
        simp only [hq2, beq_self_eq_true, if_true]
        rw [← hp, BitVec.ofNat_toNat, BitVec.setWidth_eq]
      · rw [if_neg hc]
        have hq2 : ((g.node.getD (g.node.getD v.toNat default).p.toNat default).l == v) = false := by
          rw [beq_eq_false_iff_ne]
          intro h
          apply hc
          rw [← hp, ← hr, h]
        simp only [hq2, Bool.false_eq_true, if_false]
        have hrk := hrank v.toNat hv hn
        have := ih fuel (g.node.getD v.toNat default).p hw' (by rw [hp]; omega) (by omega)
        rw [this, hp]

theorem binTree_succ_spec (fuel : Nat) (g : T_binTree) (t : BT.Tree) (rel : BTRel g t) (v : BitVec 32)
    (hv : v.toNat = BT.null ∨ v.toNat < t.node.size) (hfuel : t.node.size + 3 ≤ fuel)
    (wp : ∀ i, i < t.node.size → (t.nd i).p = BT.null ∨ (t.nd i).p < t.node.size)
    (rank : Nat → Nat) (hrb : ∀ i, rank i ≤ t.node.size)
    (hrank : ∀ i, i < t.node.size → (t.nd i).p ≠ BT.null → rank (t.nd i).p < rank i)
    (hterm : ∀ u, u < t.node.size → (t.nd (t.min u)).l = BT.null) :
    binTree_succ fuel g v = Go.Res.ok (BitVec.ofNat 32 (t.succ v.toNat)) := by
  unfold binTree_succ BT.Tree.succ
  by_cases hn : v.toNat = BT.null
  · have hq : v = 4294967295#32 := by
      apply BitVec.eq_of_toNat_eq
      rw [hn]; rfl
    subst hq
    simp only [beq_self_eq_true, if_true, hn]
    rfl
  · have hq : (v == 4294967295#32) = false := by
      rw [beq_eq_false_iff_ne]
      intro h
      apply hn
      rw [h]; rfl
    have hv' : v.toNat < t.node.size := by
      rcases hv with h | h
      · exact absurd h hn
      · exact h
    have hsz := rel.size
    have hsmall := rel.small
    have hl := rel.r v.toNat hv'
    have hwl := rel.wr v.toNat hv'
    simp only [hq, Bool.false_eq_true, if_false, hn]
    rw [if_neg (by omega)]
    rw [binTree_min_spec fuel g t rel (g.node.getD v.toNat default).r (by rw [hl]; exact hwl) (by omega)
      (by
        intro hne
        rw [hl] at hne ⊢
        rcases hwl with h | h
        · exact absurd h hne
        · exact hterm _ h)]
    rw [hl]
    simp only [Go.Res.bind_ok]
    rcases min_null_or_lt t rel.wl (t.nd v.toNat).r hwl with hm | hm
    · rw [hm]
      have h1 : ((BitVec.ofNat 32 BT.null) != 4294967295#32) = false := by decide
      simp only [h1, Bool.false_eq_true, if_false, ne_eq, not_true_eq_false]
      rw [binTree_succ_loop g t rel _ wp rank hrank (t.node.size + 1) fuel v hv'
        (by have := hrb v.toNat; omega) (by omega)]
      rfl
    · have h1 : ((BitVec.ofNat 32 (t.min (t.nd v.toNat).r)) != 4294967295#32) = true := by
        rw [bne_iff_ne]
        intro h
        have := congrArg BitVec.toNat h
        simp only [BitVec.toNat_ofNat] at this
        omega
      have h2 : t.min (t.nd v.toNat).r ≠ BT.null := by
        unfold BT.null; omega
      simp only [h1, if_true, h2, ne_eq, not_false_eq_true]

end GoSrcP
