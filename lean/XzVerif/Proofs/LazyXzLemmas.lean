import XzVerif.Model.LazyXz
import XzVerif.Proofs.LazyDec2Pos
import XzVerif.Proofs.XzRoundTrip

/-! helper lemmas for Proofs/LazyXz.lean -/
namespace LazyXz
open Lzma Xz LazyDec LazyDec2 Ring

/-! ### the parsers of Model/Xz.lean: positions -/

theorem rbh_ok (inp : ByteArray) (pos : Nat) (hdr : BlockHeader) (h : readBlockHeader false inp pos = .ok hdr) :
    pos + hdr.len ≤ inp.size ∧ 4 ≤ hdr.len := by
  unfold readBlockHeader at h
  by_cases c1 : pos ≥ inp.size
  · rw [if_pos c1] at h; cases h
  rw [if_neg c1] at h
  simp only at h
  by_cases c2 : Lzma2.get inp pos = 0
  · rw [if_pos c2] at h; cases h
  rw [if_neg c2] at h
  by_cases c3 : pos + (Lzma2.get inp pos + 1) * 4 > inp.size
  · rw [if_pos c3] at h; cases h
  rw [if_neg c3] at h
  have key : hdr.len = (Lzma2.get inp pos + 1) * 4 := by
    repeat' (split at h)
    all_goals (first | (cases h; done) | (cases h; rfl))
  rw [key]
  omega

theorem recLoop_mono (inp : ByteArray) : ∀ (n p : Nat) (acc : Array (Nat × Nat)) (p' : Nat) (st : Status)
    (parsed : Array (Nat × Nat)), readTail.recLoop inp n p acc = some (p', st, parsed) → p ≤ p' :=
  Xz.recLoop_mono inp

theorem ite_ind {α : Type} {P : α → Prop} {c : Prop} [Decidable c] {a b : α} (ha : P a) (hb : P b) :
    P (if c then a else b) := by
  split_ifs <;> assumption

def TP (r : RdState) (x : RdState × Status) : Prop :=
  x.1.out = r.out ∧ x.1.inp = r.inp ∧ (x.2 = .eof → r.pos ≤ x.1.pos)

theorem readTail_props (flags : Nat) (recs : Array (Nat × Nat)) (r : RdState) : TP r (readTail flags recs r) := by
  unfold readTail
  simp only
  split
  · exact ⟨rfl, rfl, fun h => by cases h⟩
  · exact ⟨rfl, rfl, fun h => by cases h⟩
  · rename_i cnt k huv
    by_cases c0 : cnt ≠ recs.size
    · rw [if_pos c0]; exact ⟨rfl, rfl, fun h => by cases h⟩
    rw [if_neg c0]
    cases hrl : readTail.recLoop r.inp cnt (r.pos + 1 + k) #[] with
    | none => exact ⟨rfl, rfl, fun h => by cases h⟩
    | some x =>
      obtain ⟨p1, st, parsed⟩ := x
      have hm := recLoop_mono _ _ _ _ _ _ _ hrl
      cases st with
      | unexpectedEOF => exact ⟨rfl, rfl, fun h => by cases h⟩
      | err w => exact ⟨rfl, rfl, fun h => by cases h⟩
      | eof =>
        show TP r (if _ then _ else _)
        repeat' (apply ite_ind)
        all_goals first
          | (refine ⟨rfl, rfl, fun _ => ?_⟩
             show r.pos ≤ p1 + padLen (p1 - (r.pos + 1) + 1) + 4 + 12
             omega)
          | exact ⟨rfl, rfl, fun h => by cases h⟩

/-! ### the batch reader, cut into the pieces the lazy reader goes through -/

theorem rsh_ok (inp : ByteArray) (pos flags : Nat) (h : readStreamHeader inp pos = .ok flags) : pos + 12 ≤ inp.size := by
  unfold readStreamHeader at h
  split_ifs at h
  all_goals first | cases h | omega

theorem rsh_pad (inp : ByteArray) (pos : Nat) (h : readStreamHeader inp pos = .padding) : pos + 4 ≤ inp.size := by
  unfold readStreamHeader at h
  split_ifs at h <;> omega

/-- what `readBlock false` does with the result of the LZMA2 layer -/
def blkOut (flags : Nat) (hdr : BlockHeader) (r : RdState) (B2 : Lzma2.RState × Status) :
    RdState × Status × Option Block :=
  let start := r.pos
  let ostart := r.out.size
  let r1 := { r with pos := B2.1.pos, out := B2.1.h.out }
  let usz := r1.out.size - ostart
  let csz := r1.pos - start
  let tooBigU : Bool := match hdr.usize with | some u => decide (usz > u) | none => false
  let tooBigC : Bool := match hdr.csize with | some c => decide (csz > c) | none => false
  if tooBigU then (r1, .err "wrong uncompressed size for block", none)
  else if tooBigC then (r1, .err "wrong compressed size for block", none)
  else if B2.2 ≠ .eof then (r1, B2.2, none)
  else
  let shortU : Bool := match hdr.usize with | some u => decide (usz < u) | none => false
  let shortC : Bool := match hdr.csize with | some c => decide (csz < c) | none => false
  if shortU || shortC then (r1, .unexpectedEOF, none) else
  let s := (checkSize flags).getD 0
  let k := padLen csz
  if r1.pos + k + s > r1.inp.size then (r1, .unexpectedEOF, none) else
  if !allZero r1.inp r1.pos (r1.pos + k) then (r1, .err "non-zero block padding", none) else
  let stored := r1.inp.extract (r1.pos + k) (r1.pos + k + s)
  let computed := checkValue flags r1.out ostart r1.out.size
  if stored.toList ≠ computed.toList then (r1, .err "checksum error for block", none) else
  ({ r1 with pos := r1.pos + k + s }, .eof,
   some { hdr := hdr, chunks := B2.1.chunks, usize := usz, csize := csz, check := stored })

theorem readBlock_eq (capX flags : Nat) (hdr : BlockHeader) (r : RdState) :
    readBlock false capX flags hdr r =
      blkOut flags hdr r (Lzma2.decode false (max capX (dictSize hdr.dictCode)) r.inp r.pos r.out) := by
  unfold readBlock blkOut
  simp only [Bool.false_eq_true, if_false]
  rfl

/-- how `readBlocks` goes on after a block -/
def contB (capX flags f : Nat) (hdr : BlockHeader) (bs : Array Block) (recs : Array (Nat × Nat))
    (res : RdState × Status × Option Block) : RdState × Status × Array Block :=
  match res.2.1, res.2.2 with
  | .eof, some b =>
    readBlocks false capX flags f res.1 (bs.push b) (recs.push (hdr.len + b.csize + (checkSize flags).getD 0, b.usize))
  | st, _ => (res.1, if st = .eof then .err "unreachable" else st, bs)

theorem readBlocks_ok (capX flags f : Nat) (r : RdState) (bs : Array Block) (recs : Array (Nat × Nat))
    (hdr : BlockHeader) (h : readBlockHeader false r.inp r.pos = .ok hdr) :
    readBlocks false capX flags (f + 1) r bs recs =
      contB capX flags f hdr bs recs (readBlock false capX flags hdr { r with pos := r.pos + hdr.len }) := by
  rw [readBlocks, h]
  simp only [contB]
  rcases readBlock false capX flags hdr { r with pos := r.pos + hdr.len } with ⟨r1, st, blk⟩
  rfl

theorem readBlocks_fail (capX flags f : Nat) (r : RdState) (bs : Array Block) (recs : Array (Nat × Nat))
    (st : Status) (h : readBlockHeader false r.inp r.pos = .fail st) :
    readBlocks false capX flags (f + 1) r bs recs = (r, st, bs) := by
  rw [readBlocks, h]

theorem readBlocks_index (capX flags f : Nat) (r : RdState) (bs : Array Block) (recs : Array (Nat × Nat))
    (h : readBlockHeader false r.inp r.pos = .index) :
    readBlocks false capX flags (f + 1) r bs recs = ((readTail flags recs r).1, (readTail flags recs r).2, bs) := by
  rw [readBlocks, h]

/-- how `readStreams` goes on after the blocks of a stream -/
def contS (capX : Nat) (single : Bool) (f flags : Nat) (res : RdState × Status × Array Block) : RdState × Status :=
  if res.2.1 ≠ .eof then (res.1, res.2.1) else
  let r2 : RdState := { res.1 with streams := res.1.streams.push { flags := flags, blocks := res.2.2 } }
  if single then (if r2.pos < r2.inp.size then (r2, .err "unexpected data after stream") else (r2, .eof))
  else readStreams false capX single f false r2

theorem readStreams_ok (capX : Nat) (single : Bool) (f : Nat) (first : Bool) (r : RdState) (flags : Nat)
    (h : readStreamHeader r.inp r.pos = .ok flags) :
    readStreams false capX single (f + 1) first r =
      contS capX single f flags
        (readBlocks false capX flags (r.inp.size - r.pos + 2) { r with pos := r.pos + 12 } #[] #[]) := by
  rw [readStreams, h]
  simp only [contS]

theorem readStreams_clean (capX : Nat) (single : Bool) (f : Nat) (first : Bool) (r : RdState)
    (h : readStreamHeader r.inp r.pos = .cleanEnd) :
    readStreams false capX single (f + 1) first r = if first then (r, .unexpectedEOF) else (r, .eof) := by
  rw [readStreams, h]

theorem readStreams_fail (capX : Nat) (single : Bool) (f : Nat) (first : Bool) (r : RdState) (st : Status)
    (h : readStreamHeader r.inp r.pos = .fail st) :
    readStreams false capX single (f + 1) first r = (r, st) := by
  rw [readStreams, h]

/-- the state after four bytes of stream padding -/
def padAdj (r : RdState) : RdState :=
  match ({ r with pos := r.pos + 4 } : RdState).streams.back? with
  | some s => { ({ r with pos := r.pos + 4 } : RdState) with
      streams := ({ r with pos := r.pos + 4 } : RdState).streams.pop.push { s with padAfter := s.padAfter + 4 } }
  | none => { r with pos := r.pos + 4 }

theorem padAdj_props (r : RdState) : (padAdj r).pos = r.pos + 4 ∧ (padAdj r).inp = r.inp ∧ (padAdj r).out = r.out := by
  unfold padAdj
  split <;> exact ⟨rfl, rfl, rfl⟩

theorem readStreams_pad (capX : Nat) (single : Bool) (f : Nat) (r : RdState)
    (h : readStreamHeader r.inp r.pos = .padding) :
    readStreams false capX single (f + 1) false r = readStreams false capX single f false (padAdj r) := by
  rw [readStreams, h]
  rfl

theorem readStreams_pad_first (capX : Nat) (single : Bool) (f : Nat) (r : RdState)
    (h : readStreamHeader r.inp r.pos = .padding) :
    readStreams false capX single (f + 1) true r = (r, .err "padding encountered") := by
  rw [readStreams, h]
  rfl

/-! ### the batch output only grows -/

def Ext (r r' : RdState) : Prop := r'.inp = r.inp ∧ r.out.data.toList <+: r'.out.data.toList

theorem Ext.refl (r : RdState) : Ext r r := ⟨rfl, List.prefix_refl _⟩

theorem Ext.trans {a b c : RdState} (h1 : Ext a b) (h2 : Ext b c) : Ext a c :=
  ⟨h2.1.trans h1.1, h1.2.trans h2.2⟩

theorem decode_prefix (cap : Nat) (inp : ByteArray) (pos : Nat) (out : ByteArray) :
    out.data.toList <+: (Lzma2.decode false cap inp pos out).1.h.out.data.toList := by
  unfold Lzma2.decode
  exact readAll_prefix _ { inp := inp, pos := pos, h := { out := out, dictStart := out.size, cap := cap } }

theorem blkOut_ext (flags : Nat) (hdr : BlockHeader) (r : RdState) (B2 : Lzma2.RState × Status)
    (h : r.out.data.toList <+: B2.1.h.out.data.toList) : Ext r (blkOut flags hdr r B2).1 := by
  unfold blkOut
  simp only
  repeat' (apply ite_ind (P := fun x : RdState × Status × Option Block => Ext r x.1))
  all_goals exact ⟨rfl, h⟩

theorem readBlock_ext (capX flags : Nat) (hdr : BlockHeader) (r : RdState) :
    Ext r (readBlock false capX flags hdr r).1 := by
  rw [readBlock_eq]
  exact blkOut_ext flags hdr r _ (decode_prefix _ _ _ _)

theorem readTail_ext (flags : Nat) (recs : Array (Nat × Nat)) (r : RdState) : Ext r (readTail flags recs r).1 := by
  obtain ⟨h1, h2, _⟩ := readTail_props flags recs r
  exact ⟨h2, by rw [h1]; exact List.prefix_refl _⟩

theorem readBlocks_ext (capX flags : Nat) : ∀ (f : Nat) (r : RdState) (bs : Array Block) (recs : Array (Nat × Nat)),
    Ext r (readBlocks false capX flags f r bs recs).1 := by
  intro f
  induction f with
  | zero => intro r bs recs; exact Ext.refl r
  | succ f ih =>
    intro r bs recs
    cases hh : readBlockHeader false r.inp r.pos with
    | fail st => rw [readBlocks_fail _ _ _ _ _ _ _ hh]; exact Ext.refl r
    | index => rw [readBlocks_index _ _ _ _ _ _ hh]; exact readTail_ext _ _ _
    | ok hdr =>
      rw [readBlocks_ok _ _ _ _ _ _ _ hh]
      have hb := readBlock_ext capX flags hdr { r with pos := r.pos + hdr.len }
      have h0 : Ext r { r with pos := r.pos + hdr.len } := ⟨rfl, List.prefix_refl _⟩
      generalize readBlock false capX flags hdr { r with pos := r.pos + hdr.len } = res at hb ⊢
      obtain ⟨r1, st, blk⟩ := res
      unfold contB
      simp only at hb ⊢
      split
      · exact (h0.trans hb).trans (ih _ _ _)
      · exact h0.trans hb

theorem contS_ext (capX : Nat) (single : Bool) (f flags : Nat) (res : RdState × Status × Array Block)
    (ih : ∀ r, Ext r (readStreams false capX single f false r).1) : Ext res.1 (contS capX single f flags res).1 := by
  unfold contS
  simp only
  by_cases c1 : res.2.1 ≠ .eof
  · rw [if_pos c1]; exact Ext.refl _
  rw [if_neg c1]
  by_cases c2 : single = true
  · rw [if_pos c2]
    split_ifs <;> exact ⟨rfl, List.prefix_refl _⟩
  · rw [if_neg c2]
    have := ih { res.1 with streams := res.1.streams.push { flags := flags, blocks := res.2.2 } }
    exact ⟨this.1, this.2⟩

theorem readStreams_ext (capX : Nat) (single : Bool) : ∀ (f : Nat) (first : Bool) (r : RdState),
    Ext r (readStreams false capX single f first r).1 := by
  intro f
  induction f with
  | zero => intro first r; exact Ext.refl r
  | succ f ih =>
    intro first r
    cases hh : readStreamHeader r.inp r.pos with
    | cleanEnd => rw [readStreams_clean _ _ _ _ _ hh]; split_ifs <;> exact Ext.refl r
    | fail st => rw [readStreams_fail _ _ _ _ _ _ hh]; exact Ext.refl r
    | padding =>
      cases first with
      | true => rw [readStreams_pad_first _ _ _ _ hh]; exact Ext.refl r
      | false =>
        rw [readStreams_pad _ _ _ _ hh]
        have := padAdj_props r
        exact Ext.trans ⟨this.2.1, by rw [this.2.2]; exact List.prefix_refl _⟩ (ih false _)
    | ok flags =>
      rw [readStreams_ok _ _ _ _ _ _ hh]
      have h0 : Ext r { r with pos := r.pos + 12 } := ⟨rfl, List.prefix_refl _⟩
      exact (h0.trans (readBlocks_ext capX flags _ _ _ _)).trans (contS_ext capX single f flags _ (ih false))

theorem contB_ext (capX flags f : Nat) (hdr : BlockHeader) (bs : Array Block) (recs : Array (Nat × Nat))
    (res : RdState × Status × Option Block) : Ext res.1 (contB capX flags f hdr bs recs res).1 := by
  unfold contB
  split
  · exact readBlocks_ext _ _ _ _ _ _
  · exact Ext.refl _

theorem contS_ext' (capX : Nat) (single : Bool) (f flags : Nat) (res : RdState × Status × Array Block) :
    Ext res.1 (contS capX single f flags res).1 :=
  contS_ext capX single f flags res (fun r => readStreams_ext capX single f false r)

/-! ### when a block is accepted -/

def tooBig (o : Option Nat) (v : Nat) : Bool := match o with | some u => decide (v > u) | none => false
def tooShort (o : Option Nat) (v : Nat) : Bool := match o with | some u => decide (v < u) | none => false

theorem blkOut_eq (flags : Nat) (hdr : BlockHeader) (r : RdState) (B2 : Lzma2.RState × Status) :
    blkOut flags hdr r B2 =
      if tooBig hdr.usize (B2.1.h.out.size - r.out.size) then
        ({ r with pos := B2.1.pos, out := B2.1.h.out }, .err "wrong uncompressed size for block", none)
      else if tooBig hdr.csize (B2.1.pos - r.pos) then
        ({ r with pos := B2.1.pos, out := B2.1.h.out }, .err "wrong compressed size for block", none)
      else if B2.2 ≠ .eof then ({ r with pos := B2.1.pos, out := B2.1.h.out }, B2.2, none)
      else if tooShort hdr.usize (B2.1.h.out.size - r.out.size) || tooShort hdr.csize (B2.1.pos - r.pos) then
        ({ r with pos := B2.1.pos, out := B2.1.h.out }, .unexpectedEOF, none)
      else if B2.1.pos + padLen (B2.1.pos - r.pos) + (checkSize flags).getD 0 > r.inp.size then
        ({ r with pos := B2.1.pos, out := B2.1.h.out }, .unexpectedEOF, none)
      else if !allZero r.inp B2.1.pos (B2.1.pos + padLen (B2.1.pos - r.pos)) then
        ({ r with pos := B2.1.pos, out := B2.1.h.out }, .err "non-zero block padding", none)
      else if (r.inp.extract (B2.1.pos + padLen (B2.1.pos - r.pos))
            (B2.1.pos + padLen (B2.1.pos - r.pos) + (checkSize flags).getD 0)).toList ≠
          (checkValue flags B2.1.h.out r.out.size B2.1.h.out.size).toList then
        ({ r with pos := B2.1.pos, out := B2.1.h.out }, .err "checksum error for block", none)
      else
        ({ r with pos := B2.1.pos + padLen (B2.1.pos - r.pos) + (checkSize flags).getD 0, out := B2.1.h.out }, .eof,
          some { hdr := hdr, chunks := B2.1.chunks, usize := B2.1.h.out.size - r.out.size,
                 csize := B2.1.pos - r.pos,
                 check := r.inp.extract (B2.1.pos + padLen (B2.1.pos - r.pos))
                   (B2.1.pos + padLen (B2.1.pos - r.pos) + (checkSize flags).getD 0) }) := by
  unfold blkOut tooBig tooShort
  rfl

/-- the block with the result of this call's `Reader2.Read` -/
def blkAfter (b : Blk) (rr : R2 × ByteArray × RStat) : Blk :=
  { b with r2 := rr.1, n := b.n + rr.2.1.size, data := b.data ++ rr.2.1 }

theorem blockRead_eq (x : X) (sr : Sr) (b : Blk) (len : Nat) :
    blockRead x sr b len =
      if tooBig b.hdr.usize (b.n + (LazyDec2.read b.r2 len).2.1.size) then
        (x, { sr with br := some (blkAfter b (LazyDec2.read b.r2 len)) }, (LazyDec2.read b.r2 len).2.1,
          oerr "wrong uncompressed size for block")
      else if tooBig b.hdr.csize ((LazyDec2.read b.r2 len).1.srcPos - b.start) then
        (x, { sr with br := some (blkAfter b (LazyDec2.read b.r2 len)) }, (LazyDec2.read b.r2 len).2.1,
          oerr "wrong compressed size for block")
      else if (LazyDec2.read b.r2 len).2.2 ≠ .eof then
        (x, { sr with br := some (blkAfter b (LazyDec2.read b.r2 len)) }, (LazyDec2.read b.r2 len).2.1,
          (LazyDec2.read b.r2 len).2.2)
      else if tooShort b.hdr.usize (b.n + (LazyDec2.read b.r2 len).2.1.size) ||
          tooShort b.hdr.csize ((LazyDec2.read b.r2 len).1.srcPos - b.start) then
        (x, { sr with br := some (blkAfter b (LazyDec2.read b.r2 len)) }, (LazyDec2.read b.r2 len).2.1,
          .err .unexpectedEOF)
      else if (LazyDec2.read b.r2 len).1.srcPos + padLen ((LazyDec2.read b.r2 len).1.srcPos - b.start) +
          (checkSize sr.flags).getD 0 > x.inp.size then
        (x, { sr with br := some (blkAfter b (LazyDec2.read b.r2 len)) }, (LazyDec2.read b.r2 len).2.1,
          if x.srcErr then .err .src else .err .unexpectedEOF)
      else if !allZero x.inp (LazyDec2.read b.r2 len).1.srcPos
          ((LazyDec2.read b.r2 len).1.srcPos + padLen ((LazyDec2.read b.r2 len).1.srcPos - b.start)) then
        (x, { sr with br := some (blkAfter b (LazyDec2.read b.r2 len)) }, (LazyDec2.read b.r2 len).2.1,
          oerr "non-zero block padding")
      else if (x.inp.extract ((LazyDec2.read b.r2 len).1.srcPos + padLen ((LazyDec2.read b.r2 len).1.srcPos - b.start))
            ((LazyDec2.read b.r2 len).1.srcPos + padLen ((LazyDec2.read b.r2 len).1.srcPos - b.start) +
              (checkSize sr.flags).getD 0)).toList ≠
          (checkValue sr.flags (b.data ++ (LazyDec2.read b.r2 len).2.1) 0
            (b.data ++ (LazyDec2.read b.r2 len).2.1).size).toList then
        (x, { sr with br := some (blkAfter b (LazyDec2.read b.r2 len)) }, (LazyDec2.read b.r2 len).2.1,
          oerr "checksum error for block")
      else
        ({ x with pos := (LazyDec2.read b.r2 len).1.srcPos + padLen ((LazyDec2.read b.r2 len).1.srcPos - b.start) +
            (checkSize sr.flags).getD 0 },
         { sr with br := none,
                   index := sr.index.push (b.hdr.len + ((LazyDec2.read b.r2 len).1.srcPos - b.start) +
                     (checkSize sr.flags).getD 0, b.n + (LazyDec2.read b.r2 len).2.1.size) },
         (LazyDec2.read b.r2 len).2.1, .eof) := by
  unfold blockRead tooBig tooShort blkAfter
  rfl

/-! ### invariants of the lazy xz reader -/

def KX (BX : RdState × Status) : Prop := BX.2 ≠ .err "fuel exhausted"

theorem ofStatusE_false (st : Status) : ofStatusE false st = ofStatus st := by cases st <;> rfl

theorem ite_src {α : Type} {b : Bool} (h : b = false) (u v : α) : (if b = true then u else v) = v := by
  rw [h]; rfl

/-- what a final status of the lazy xz reader means for the batch run; `X` = everything delivered -/
def XFin (BX : RdState × Status) (X : ByteArray) (st : RStat) : Prop :=
  NotBad st ∧ (KX BX → X.data.toList <+: BX.1.out.data.toList) ∧
  (st = .eof → KX BX → BX.2 = .eof ∧ X.data.toList = BX.1.out.data.toList) ∧
  (∀ e, st = .err e → BX.2 ≠ .eof)

section
variable (capX : Nat) (single : Bool) (inp : ByteArray) (BX : RdState × Status)

/-- inside a stream, between two blocks -/
def StreamInv (x : X) (sr : Sr) (D : ByteArray) : Prop :=
  x.inp = inp ∧ x.cfgCap = capX ∧ x.single = single ∧ x.srcErr = false ∧ sr.br = none ∧
  (KX BX → ∃ (rs : RdState) (bs : Array Block) (fB fS : Nat), rs.inp = inp ∧ rs.pos = x.pos ∧ rs.out = D ∧
    contS capX single fS sr.flags (readBlocks false capX sr.flags fB rs bs sr.index) = BX)

/-- inside a block -/
def BlockInv (x : X) (sr : Sr) (b : Blk) (D : ByteArray) : Prop :=
  x.inp = inp ∧ x.cfgCap = capX ∧ x.single = single ∧ x.srcErr = false ∧ sr.br = some b ∧
  ∃ D0 Dblk : ByteArray, D = D0 ++ Dblk ∧ b.data = Dblk ∧ b.n = Dblk.size ∧
    b.start = x.pos + b.hdr.len ∧ b.start ≤ inp.size ∧ 1 ≤ b.hdr.len ∧
    R2Inv (max capX (dictSize b.hdr.dictCode)) inp D0.size
      (Lzma2.decode false (max capX (dictSize b.hdr.dictCode)) inp b.start D0) b.start b.r2 Dblk ∧
    (KX BX → ∃ (rs : RdState) (bs : Array Block) (fB fS : Nat), rs.inp = inp ∧ rs.pos = x.pos ∧ rs.out = D0 ∧
      contS capX single fS sr.flags (contB capX sr.flags fB b.hdr bs sr.index
        (blkOut sr.flags b.hdr { rs with pos := b.start }
          (Lzma2.decode false (max capX (dictSize b.hdr.dictCode)) inp b.start D0))) = BX)

/-- between two streams -/
def GapInv (x : X) (D : ByteArray) : Prop :=
  x.inp = inp ∧ x.cfgCap = capX ∧ x.single = single ∧ x.srcErr = false ∧ x.sr = none ∧
  (KX BX → ∃ (rs : RdState) (f : Nat), rs.inp = inp ∧ rs.pos = x.pos ∧ rs.out = D ∧ readStreams false capX single f false rs = BX)

end

variable {capX : Nat} {single : Bool} {inp : ByteArray} {BX : RdState × Status}

def BlockPost (capX : Nat) (single : Bool) (inp : ByteArray) (BX : RdState × Status) (x : X) (b : Blk)
    (D : ByteArray) (len : Nat) (res : X × Sr × ByteArray × RStat) : Prop :=
  res.2.2.1.size ≤ len ∧
  (res.2.2.2 = .ok → res.2.2.1.size = len ∧ res.1 = x ∧
    ∃ b', BlockInv capX single inp BX res.1 res.2.1 b' (D ++ res.2.2.1) ∧ b'.start = b.start) ∧
  (res.2.2.2 = .eof → StreamInv capX single inp BX res.1 res.2.1 (D ++ res.2.2.1) ∧ b.start ≤ res.1.pos) ∧
  (∀ e, res.2.2.2 = .err e → XFin BX (D ++ res.2.2.1) (.err e))

/-- a status other than `.eof` of the block ends the batch run with that status -/
theorem bx_of_blk_err {fS flags fB : Nat} {hdr : BlockHeader} {bs : Array Block} {recs : Array (Nat × Nat)}
    {res : RdState × Status × Option Block} (hne : res.2.1 ≠ .eof)
    (hBX : contS capX single fS flags (contB capX flags fB hdr bs recs res) = BX) : BX.2 ≠ .eof := by
  rw [← hBX]
  unfold contB
  split
  · rename_i h1 _; exact absurd h1 hne
  · rename_i st _ _
    unfold contS
    simp only
    have h1 : (if res.2.1 = Status.eof then Status.err "unreachable" else res.2.1) = res.2.1 := if_neg hne
    rw [h1, if_pos hne]
    exact hne

theorem tooBig_mono (o : Option Nat) (v w : Nat) (h : v ≤ w) (ht : tooBig o v = true) : tooBig o w = true := by
  unfold tooBig at *
  cases o with
  | none => cases ht
  | some u => simp only [decide_eq_true_eq] at *; omega

theorem blkOut_out (flags : Nat) (hdr : BlockHeader) (r : RdState) (B2 : Lzma2.RState × Status) :
    (blkOut flags hdr r B2).1.out = B2.1.h.out ∧ (blkOut flags hdr r B2).1.inp = r.inp := by
  rw [blkOut_eq]
  repeat' (apply ite_ind (P := fun x : RdState × Status × Option Block => x.1.out = B2.1.h.out ∧ x.1.inp = r.inp))
  all_goals exact ⟨rfl, rfl⟩

/-- the block is accepted only if every check of `readBlock` passes -/
theorem blkOut_eof_imp (flags : Nat) (hdr : BlockHeader) (r : RdState) (B2 : Lzma2.RState × Status)
    (h : (blkOut flags hdr r B2).2.1 = .eof) :
    tooBig hdr.usize (B2.1.h.out.size - r.out.size) = false ∧ tooBig hdr.csize (B2.1.pos - r.pos) = false ∧
    B2.2 = .eof ∧ tooShort hdr.usize (B2.1.h.out.size - r.out.size) = false ∧
    tooShort hdr.csize (B2.1.pos - r.pos) = false ∧
    B2.1.pos + padLen (B2.1.pos - r.pos) + (checkSize flags).getD 0 ≤ r.inp.size ∧
    allZero r.inp B2.1.pos (B2.1.pos + padLen (B2.1.pos - r.pos)) = true ∧
    (r.inp.extract (B2.1.pos + padLen (B2.1.pos - r.pos))
        (B2.1.pos + padLen (B2.1.pos - r.pos) + (checkSize flags).getD 0)).toList =
      (checkValue flags B2.1.h.out r.out.size B2.1.h.out.size).toList := by
  rw [blkOut_eq] at h
  split_ifs at h with c1 c2 c3 c4 c5 c6 c7
  · exact absurd h c3
  · simp only [Bool.or_eq_true, not_or, Bool.not_eq_true] at c4
    simp only [Bool.not_eq_true, Bool.not_eq_eq_eq_not, Bool.not_true] at c1 c2 c6
    exact ⟨c1, c2, by simpa using c3, c4.1, c4.2, by omega, by simpa using c6, by simpa using c7⟩

theorem blkOut_ok (flags : Nat) (hdr : BlockHeader) (r : RdState) (B2 : Lzma2.RState × Status)
    (h1 : tooBig hdr.usize (B2.1.h.out.size - r.out.size) = false)
    (h2 : tooBig hdr.csize (B2.1.pos - r.pos) = false) (h3 : B2.2 = .eof)
    (h4 : tooShort hdr.usize (B2.1.h.out.size - r.out.size) = false)
    (h5 : tooShort hdr.csize (B2.1.pos - r.pos) = false)
    (h6 : B2.1.pos + padLen (B2.1.pos - r.pos) + (checkSize flags).getD 0 ≤ r.inp.size)
    (h7 : allZero r.inp B2.1.pos (B2.1.pos + padLen (B2.1.pos - r.pos)) = true)
    (h8 : (r.inp.extract (B2.1.pos + padLen (B2.1.pos - r.pos))
        (B2.1.pos + padLen (B2.1.pos - r.pos) + (checkSize flags).getD 0)).toList =
      (checkValue flags B2.1.h.out r.out.size B2.1.h.out.size).toList) :
    blkOut flags hdr r B2 =
      ({ r with pos := B2.1.pos + padLen (B2.1.pos - r.pos) + (checkSize flags).getD 0, out := B2.1.h.out }, .eof,
        some { hdr := hdr, chunks := B2.1.chunks, usize := B2.1.h.out.size - r.out.size,
               csize := B2.1.pos - r.pos,
               check := r.inp.extract (B2.1.pos + padLen (B2.1.pos - r.pos))
                 (B2.1.pos + padLen (B2.1.pos - r.pos) + (checkSize flags).getD 0) }) := by
  rw [blkOut_eq, h1, h2, h4, h5, h7]
  simp only [Bool.false_eq_true, if_false, Bool.or_self, Bool.not_true]
  rw [if_neg (by rw [h3]; simp), if_neg (by omega), if_neg (by rw [h8]; simp)]

theorem xfin_err {X : ByteArray} {e : Err} (hnb : NotBad (.err e))
    (hpre : KX BX → X.data.toList <+: BX.1.out.data.toList) (hne : KX BX → BX.2 ≠ .eof) : XFin BX X (.err e) := by
  refine ⟨hnb, hpre, (fun h => by cases h), fun _ _ => ?_⟩
  by_cases hK : KX BX
  · exact hne hK
  · unfold KX at hK
    simp only [ne_eq, not_not] at hK
    rw [hK]; intro h; cases h

theorem nb_oerr (w : String) : NotBad (oerr w) := nb_other w

theorem dictSize_ge (c : Nat) : 4096 ≤ dictSize c := by
  unfold dictSize
  split_ifs
  · omega
  · have h1 : 2 ^ 11 ≤ 2 ^ (c / 2 + 11) := Nat.pow_le_pow_right (by omega) (by omega)
    have h2 : 2 * 2 ^ 11 ≤ (2 + c % 2) * 2 ^ (c / 2 + 11) := Nat.mul_le_mul (by omega) h1
    omega

theorem blockRead_spec {x : X} {sr : Sr} {b : Blk} {D : ByteArray}
    (h : BlockInv capX single inp BX x sr b D) (len : Nat) :
    BlockPost capX single inp BX x b D len (blockRead x sr b len) := by
  obtain ⟨hxi, hxc, hxs, hxe, hbr, D0, Dblk, hD, hdata, hn, hstart, hsle, hhl, hR2, hKX⟩ := h
  have hcapB : 274 ≤ max capX (dictSize b.hdr.dictCode) := by
    have := dictSize_ge b.hdr.dictCode
    omega
  generalize hB2 : Lzma2.decode false (max capX (dictSize b.hdr.dictCode)) inp b.start D0 = B2 at hR2 hKX
  have hKB2 : KB B2 := by rw [← hB2]; exact decode_fuel _ _ _ _
  have hpre0 : D0.data.toList <+: B2.1.h.out.data.toList := by rw [← hB2]; exact decode_prefix _ _ _ _
  have hri := read2_inv hcapB hR2 len
  rw [blockRead_eq]
  rcases hrd : LazyDec2.read b.r2 len with ⟨r2', out, st⟩
  rw [hrd] at hri
  obtain ⟨q1, q2, q3, q4⟩ := hri
  simp only at q1 q2 q3 q4 ⊢
  -- what has been delivered of this block is a prefix of what the batch LZMA2 reader decodes
  have hpre : (Dblk ++ out).data.toList = (B2.1.h.out.data.toList.drop D0.size).take (Dblk ++ out).size := by
    by_cases hs : st = .ok
    · exact (q2 hs).2.2.2.pre hKB2
    · exact (q3 hs).2 hKB2
  have hDout : D ++ out = D0 ++ (Dblk ++ out) := by rw [hD, ByteArray.append_assoc]
  have hl0 : D0.size ≤ B2.1.h.out.size := by
    have := hpre0.length_le
    rw [length_toList, length_toList] at this
    exact this
  have hlen1 : (Dblk ++ out).size ≤ B2.1.h.out.size - D0.size := by
    have := congrArg List.length hpre
    rw [length_toList, List.length_take, List.length_drop, length_toList] at this
    omega
  have hfull : (D ++ out).data.toList <+: B2.1.h.out.data.toList := by
    rw [hDout, ByteArray.data_append, Array.toList_append, hpre]
    obtain ⟨t, ht⟩ := hpre0
    rw [← ht, List.drop_left' (by rw [length_toList])]
    exact (List.prefix_append_right_inj _).mpr (List.take_prefix _ _)
  have hszB : (Dblk ++ out).size = b.n + out.size := by rw [ByteArray.size_append, hn]
  have hbdata : b.data ++ out = Dblk ++ out := by rw [hdata]
  -- the batch run behind this block
  have hprefix : KX BX → (D ++ out).data.toList <+: BX.1.out.data.toList := by
    intro hK
    obtain ⟨rs, bs, fB, fS, e1, e2, e3, e4⟩ := hKX hK
    have hx := (contB_ext capX sr.flags fB b.hdr bs sr.index
      (blkOut sr.flags b.hdr { rs with pos := b.start } B2)).trans (contS_ext' capX single fS sr.flags _)
    rw [e4] at hx
    have := hx.2
    rw [(blkOut_out _ _ _ _).1] at this
    exact hfull.trans this
  have hne_of : (∀ rs : RdState, rs.inp = inp → rs.out = D0 →
      (blkOut sr.flags b.hdr { rs with pos := b.start } B2).2.1 ≠ .eof) → KX BX → BX.2 ≠ .eof := by
    intro hh hK
    obtain ⟨rs, bs, fB, fS, e1, e2, e3, e4⟩ := hKX hK
    exact bx_of_blk_err (hh rs e1 e3) e4
  -- the checks on every call
  by_cases cU : tooBig b.hdr.usize (b.n + out.size) = true
  · rw [if_pos cU]
    refine ⟨q1, (fun h => by cases h), (fun h => by cases h), fun e he => ?_⟩
    cases he
    refine xfin_err (nb_oerr _) hprefix (hne_of (fun rs e1 e3 hst => ?_))
    have := (blkOut_eof_imp _ _ _ _ hst).1
    simp only [e3] at this
    have hm := tooBig_mono b.hdr.usize _ (B2.1.h.out.size - D0.size) (by omega) cU
    rw [hm] at this; cases this
  rw [if_neg cU]
  by_cases cC : tooBig b.hdr.csize (r2'.srcPos - b.start) = true
  · rw [if_pos cC]
    refine ⟨q1, (fun h => by cases h), (fun h => by cases h), fun e he => ?_⟩
    cases he
    refine xfin_err (nb_oerr _) hprefix (hne_of (fun rs e1 e3 hst => ?_))
    obtain ⟨_, g2, g3, _⟩ := blkOut_eof_imp _ _ _ _ hst
    simp only at g2
    -- the lazy position is not ahead of the batch position unless the LZMA2 layer failed
    have hposle : r2'.srcPos ≤ B2.1.pos := by
      cases st with
      | ok => exact (q2 rfl).2.2.2.pos_le hKB2
      | eof => rw [((q3 (by intro h; cases h)).1 hKB2).2.2]
      | err e =>
        exfalso
        have := ((q3 (by intro h; cases h)).1).2.1 hKB2
        rw [g3] at this
        cases e <;> simp [Status.cls, statusOf] at this
    have hm := tooBig_mono b.hdr.csize _ (B2.1.pos - b.start) (by omega) cC
    rw [hm] at g2; cases g2
  rw [if_neg cC]
  by_cases cE : st ≠ .eof
  · rw [if_pos cE]
    refine ⟨q1, fun hs => ?_, (fun hs => absurd hs cE), fun e he => ?_⟩
    · -- the block goes on
      simp only at hs
      obtain ⟨a1, a2, a3, a4⟩ := q2 hs
      refine ⟨a1, rfl, blkAfter b (r2', out, st), ⟨hxi, hxc, hxs, hxe, rfl, D0, Dblk ++ out, hDout, hbdata, hszB.symm ▸ rfl,
        hstart, hsle, hhl, ?_, ?_⟩, rfl⟩
      · show R2Inv (max capX (dictSize b.hdr.dictCode)) inp D0.size
          (Lzma2.decode false (max capX (dictSize b.hdr.dictCode)) inp b.start D0) b.start r2' (Dblk ++ out)
        rw [hB2]; exact a2
      · intro hK
        obtain ⟨rs, bs, fB, fS, e1, e2, e3, e4⟩ := hKX hK
        refine ⟨rs, bs, fB, fS, e1, e2, e3, ?_⟩
        show contS capX single fS sr.flags (contB capX sr.flags fB b.hdr bs sr.index
          (blkOut sr.flags b.hdr { rs with pos := b.start }
            (Lzma2.decode false (max capX (dictSize b.hdr.dictCode)) inp b.start D0))) = BX
        rw [hB2]; exact e4
    · simp only at he
      subst he
      obtain ⟨f1, f2⟩ := q3 (by intro h; cases h)
      refine xfin_err f1.1 hprefix (hne_of (fun rs e1 e3 hst => ?_))
      obtain ⟨_, _, g3, _⟩ := blkOut_eof_imp _ _ _ _ hst
      have := f1.2.1 hKB2
      rw [g3] at this
      cases e <;> simp [Status.cls, statusOf] at this
  rw [if_neg cE]
  have hst : st = .eof := by simpa using cE
  subst hst
  -- the LZMA2 stream of the block has ended: both readers make the same final checks
  obtain ⟨f1, f2⟩ := q3 (by intro h; cases h)
  obtain ⟨g1, g2, g3⟩ := f1 hKB2
  have hp0 := q4 rfl
  have hout : B2.1.h.out = D0 ++ (Dblk ++ out) := by
    apply LazyDec.ba_ext
    rw [ByteArray.data_append, Array.toList_append, g2]
    obtain ⟨t, ht⟩ := hpre0
    rw [← ht, List.drop_left' (by rw [length_toList])]
  have husz : B2.1.h.out.size - D0.size = b.n + out.size := by
    rw [hout, ByteArray.size_append, hszB]; omega
  have hcv : checkValue sr.flags B2.1.h.out D0.size B2.1.h.out.size =
      checkValue sr.flags (b.data ++ out) 0 (b.data ++ out).size := by
    rw [hout, hbdata]
    exact Xz.checkValue_append sr.flags D0 (Dblk ++ out)
  -- what an accepted block means on the batch side, in the lazy reader's terms
  have himp : ∀ rs : RdState, rs.inp = inp → rs.out = D0 →
      (blkOut sr.flags b.hdr { rs with pos := b.start } B2).2.1 = .eof →
      tooShort b.hdr.usize (b.n + out.size) = false ∧ tooShort b.hdr.csize (r2'.srcPos - b.start) = false ∧
      r2'.srcPos + padLen (r2'.srcPos - b.start) + (checkSize sr.flags).getD 0 ≤ x.inp.size ∧
      allZero x.inp r2'.srcPos (r2'.srcPos + padLen (r2'.srcPos - b.start)) = true ∧
      (x.inp.extract (r2'.srcPos + padLen (r2'.srcPos - b.start))
          (r2'.srcPos + padLen (r2'.srcPos - b.start) + (checkSize sr.flags).getD 0)).toList =
        (checkValue sr.flags (b.data ++ out) 0 (b.data ++ out).size).toList := by
    intro rs e1 e3 hst
    obtain ⟨_, _, _, k4, k5, k6, k7, k8⟩ := blkOut_eof_imp _ _ _ _ hst
    simp only [e1, e3, husz, g3, hcv, ← hxi] at k4 k5 k6 k7 k8
    exact ⟨k4, k5, k6, k7, k8⟩
  by_cases c1 : (tooShort b.hdr.usize (b.n + out.size) || tooShort b.hdr.csize (r2'.srcPos - b.start)) = true
  · rw [if_pos c1]
    refine ⟨q1, (fun h => by cases h), (fun h => by cases h), fun e he => ?_⟩
    cases he
    refine xfin_err nb_ueof hprefix (hne_of (fun rs e1 e3 hst => ?_))
    obtain ⟨k4, k5, _⟩ := himp rs e1 e3 hst
    rw [k4, k5] at c1; cases c1
  rw [if_neg c1]
  by_cases c2 : r2'.srcPos + padLen (r2'.srcPos - b.start) + (checkSize sr.flags).getD 0 > x.inp.size
  · rw [if_pos c2, ite_src hxe]
    refine ⟨q1, (fun h => by cases h), (fun h => by cases h), fun e he => ?_⟩
    cases he
    refine xfin_err nb_ueof hprefix (hne_of (fun rs e1 e3 hst => ?_))
    obtain ⟨_, _, k6, _⟩ := himp rs e1 e3 hst
    omega
  rw [if_neg c2]
  by_cases c3 : (!allZero x.inp r2'.srcPos (r2'.srcPos + padLen (r2'.srcPos - b.start))) = true
  · rw [if_pos c3]
    refine ⟨q1, (fun h => by cases h), (fun h => by cases h), fun e he => ?_⟩
    cases he
    refine xfin_err (nb_oerr _) hprefix (hne_of (fun rs e1 e3 hst => ?_))
    obtain ⟨_, _, _, k7, _⟩ := himp rs e1 e3 hst
    rw [k7] at c3; cases c3
  rw [if_neg c3]
  by_cases c4 : (x.inp.extract (r2'.srcPos + padLen (r2'.srcPos - b.start))
      (r2'.srcPos + padLen (r2'.srcPos - b.start) + (checkSize sr.flags).getD 0)).toList ≠
      (checkValue sr.flags (b.data ++ out) 0 (b.data ++ out).size).toList
  · rw [if_pos c4]
    refine ⟨q1, (fun h => by cases h), (fun h => by cases h), fun e he => ?_⟩
    cases he
    refine xfin_err (nb_oerr _) hprefix (hne_of (fun rs e1 e3 hst => ?_))
    obtain ⟨_, _, _, _, k8⟩ := himp rs e1 e3 hst
    exact c4 k8
  rw [if_neg c4]
  -- the block is accepted
  refine ⟨q1, (fun h => by cases h), fun _ => ⟨⟨hxi, hxc, hxs, hxe, rfl, fun hK => ?_⟩, by simp only; omega⟩,
    (fun e he => by cases he)⟩
  obtain ⟨rs, bs, fB, fS, e1, e2, e3, e4⟩ := hKX hK
  simp only [Bool.or_eq_true, not_or, Bool.not_eq_true] at c1
  have hc3 : allZero x.inp r2'.srcPos (r2'.srcPos + padLen (r2'.srcPos - b.start)) = true := by
    simpa using c3
  have hc4 := not_not.mp c4
  have hok := blkOut_ok sr.flags b.hdr { rs with pos := b.start } B2
    (by simp only [e3, husz]; simpa using cU) (by simp only [g3]; simpa using cC) g1
    (by simp only [e3, husz]; exact c1.1) (by simp only [g3]; exact c1.2)
    (by simp only [e1, g3, ← hxi]; omega) (by simp only [e1, g3, ← hxi]; exact hc3)
    (by simp only [e1, e3, g3, hcv, ← hxi]; exact hc4)
  rw [hok] at e4
  unfold contB at e4
  simp only [g3, e3, husz] at e4
  exact ⟨{ rs with pos := r2'.srcPos + padLen (r2'.srcPos - b.start) + (checkSize sr.flags).getD 0,
                   out := B2.1.h.out }, _, _, fS, e1, rfl, by simp only [hout, hDout], e4⟩

theorem ite_rel2 {α β : Type} (R : α → β → Prop) {c : Prop} [Decidable c] {a a' : α} {b b' : β}
    (h1 : R a b) (h2 : R a' b') : R (if c then a else a') (if c then b else b') := by
  split_ifs <;> assumption

def TR (x y : RdState × Status) : Prop := x.2 = y.2 ∧ x.1.pos = y.1.pos

/-- `readTail` looks only at the input and the position -/
theorem readTail_frame (flags : Nat) (recs : Array (Nat × Nat)) (r r0 : RdState) (e1 : r0.inp = r.inp)
    (e2 : r0.pos = r.pos) : TR (readTail flags recs r) (readTail flags recs r0) := by
  unfold readTail
  simp only [e1, e2]
  split
  · exact ⟨rfl, e2.symm⟩
  · exact ⟨rfl, e2.symm⟩
  · apply ite_rel2 TR
    · exact ⟨rfl, e2.symm⟩
    · split
      all_goals first
        | exact ⟨rfl, e2.symm⟩
        | (repeat' (apply ite_rel2 TR)
           all_goals first | exact ⟨rfl, e2.symm⟩ | exact ⟨rfl, rfl⟩)

variable {capX : Nat} {single : Bool} {inp : ByteArray} {BX : RdState × Status}

/-! ### `streamReader.Read` -/

def xp (x : X) (sr : Sr) : Nat :=
  match sr.br with
  | none => x.pos
  | some b => b.start

def SInv (capX : Nat) (single : Bool) (inp : ByteArray) (BX : RdState × Status) (x : X) (sr : Sr) (D : ByteArray) : Prop :=
  StreamInv capX single inp BX x sr D ∨ ∃ b, BlockInv capX single inp BX x sr b D

/-- after the tail of a stream -/
def AfterInv (capX : Nat) (single : Bool) (inp : ByteArray) (BX : RdState × Status) (x : X) (D : ByteArray) : Prop :=
  x.inp = inp ∧ x.cfgCap = capX ∧ x.single = single ∧ x.srcErr = false ∧
  (KX BX → ∃ (rs : RdState) (fS : Nat), rs.inp = inp ∧ rs.pos = x.pos ∧ rs.out = D ∧
    (if single then (if rs.pos < rs.inp.size then (rs, Status.err "unexpected data after stream") else (rs, Status.eof))
     else readStreams false capX single fS false rs) = BX)

def StreamPost (capX : Nat) (single : Bool) (inp : ByteArray) (BX : RdState × Status) (p0 len : Nat) (D0 : ByteArray)
    (res : X × Sr × ByteArray × RStat) : Prop :=
  res.2.2.1.size ≤ len ∧
  (res.2.2.2 = .ok → res.2.2.1.size = len ∧ SInv capX single inp BX res.1 res.2.1 (D0 ++ res.2.2.1) ∧
    p0 ≤ xp res.1 res.2.1) ∧
  (res.2.2.2 = .eof → AfterInv capX single inp BX res.1 (D0 ++ res.2.2.1) ∧ p0 ≤ res.1.pos) ∧
  (∀ e, res.2.2.2 = .err e → XFin BX (D0 ++ res.2.2.1) (.err e))

theorem kx_fuel_blocks {fS flags fB : Nat} {rs : RdState} {bs : Array Block} {recs : Array (Nat × Nat)}
    (hK : KX BX) (h : contS capX single fS flags (readBlocks false capX flags fB rs bs recs) = BX) :
    ∃ f, fB = f + 1 := by
  cases fB with
  | zero =>
    exfalso
    apply hK
    rw [← h]
    rfl
  | succ f => exact ⟨f, rfl⟩

theorem contS_err {fS flags : Nat} {r : RdState} {st : Status} {bs : Array Block} (hne : st ≠ .eof) :
    contS capX single fS flags (r, st, bs) = (r, st) := by
  unfold contS
  simp only
  rw [if_pos hne]

theorem contS_eof {fS flags : Nat} {r : RdState} {bs : Array Block} :
    contS capX single fS flags (r, .eof, bs) =
      (if single then
        (if r.pos < r.inp.size then
          (({ r with streams := r.streams.push { flags := flags, blocks := bs } } : RdState),
            Status.err "unexpected data after stream")
         else (({ r with streams := r.streams.push { flags := flags, blocks := bs } } : RdState), Status.eof))
       else readStreams false capX single fS false { r with streams := r.streams.push { flags := flags, blocks := bs } }) := by
  unfold contS
  simp only [ne_eq, not_true_eq_false, if_false]

theorem nb_ofStatus (st : Status) : NotBad (ofStatus st) := by
  cases st with
  | eof => exact nb_eof
  | unexpectedEOF => exact nb_ueof
  | err w => exact nb_other w

theorem streamRead_spec (p0 len : Nat) (D0 : ByteArray) :
    ∀ (fuel : Nat) (x : X) (sr : Sr) (acc : ByteArray),
    SInv capX single inp BX x sr (D0 ++ acc) → acc.size ≤ len → p0 ≤ xp x sr →
    (if acc.size < len then (inp.size - xp x sr) + (if sr.br = none then 2 else 3) else 1) ≤ fuel →
    StreamPost capX single inp BX p0 len D0 (streamRead len fuel x sr acc) := by
  intro fuel
  induction fuel with
  | zero => intro x sr acc _ _ _ hn; exfalso; split_ifs at hn <;> omega
  | succ fuel ih =>
    intro x sr acc hinv hle hp0 hn
    rw [streamRead]
    by_cases hlt : acc.size < len
    swap
    · rw [if_neg hlt]
      exact ⟨hle, fun _ => ⟨by simp only; omega, hinv, hp0⟩, (fun h => by cases h), (fun e he => by cases he)⟩
    rw [if_pos hlt]
    rw [if_pos hlt] at hn
    rcases hinv with hinv | ⟨b, hinv⟩
    · -- between two blocks
      obtain ⟨hxi, hxc, hxs, hxe, hbr, hKX⟩ := hinv
      have hE : ∀ st, ofStatusE x.srcErr st = ofStatus st := fun st => by rw [hxe, ofStatusE_false]
      have hxp : xp x sr = x.pos := by unfold xp; rw [hbr]
      rw [hbr] at hn ⊢
      simp only [if_true] at hn ⊢
      rw [hxp] at hn hp0
      have hprefix : KX BX → (D0 ++ acc).data.toList <+: BX.1.out.data.toList := by
        intro hK
        obtain ⟨rs, bs, fB, fS, e1, e2, e3, e4⟩ := hKX hK
        have := (readBlocks_ext capX sr.flags fB rs bs sr.index).trans (contS_ext' capX single fS sr.flags _)
        rw [e4] at this
        have h2 := this.2
        rw [e3] at h2
        exact h2
      cases hh : readBlockHeader false x.inp x.pos with
      | fail st =>
        simp only
        rw [hE]
        have hb : KX BX → ∃ (rs : RdState) (fS : Nat) (bs : Array Block), rs.inp = inp ∧ rs.pos = x.pos ∧
            rs.out = D0 ++ acc ∧ contS capX single fS sr.flags (rs, st, bs) = BX := by
          intro hK
          obtain ⟨rs, bs, fB, fS, e1, e2, e3, e4⟩ := hKX hK
          obtain ⟨f, rfl⟩ := kx_fuel_blocks hK e4
          rw [readBlocks_fail _ _ _ _ _ _ _ (by rw [e1, e2, ← hxi]; exact hh)] at e4
          exact ⟨rs, fS, bs, e1, e2, e3, e4⟩
        cases st with
        | eof =>
          refine ⟨Nat.le_of_lt hlt, (fun h => by cases h), fun _ => ⟨⟨hxi, hxc, hxs, hxe, fun hK => ?_⟩, hp0⟩,
            (fun e he => by cases he)⟩
          obtain ⟨rs, fS, bs, e1, e2, e3, e4⟩ := hb hK
          rw [contS_eof] at e4
          exact ⟨{ rs with streams := rs.streams.push { flags := sr.flags, blocks := bs } }, fS, e1, e2, e3, e4⟩
        | unexpectedEOF =>
          refine ⟨Nat.le_of_lt hlt, (fun h => by cases h), (fun h => by cases h), fun e he => ?_⟩
          cases he
          refine xfin_err nb_ueof hprefix (fun hK => ?_)
          obtain ⟨rs, fS, bs, e1, e2, e3, e4⟩ := hb hK
          rw [contS_err (by intro h; cases h)] at e4
          rw [← e4]; intro h; cases h
        | err w =>
          refine ⟨Nat.le_of_lt hlt, (fun h => by cases h), (fun h => by cases h), fun e he => ?_⟩
          cases he
          refine xfin_err (nb_other _) hprefix (fun hK => ?_)
          obtain ⟨rs, fS, bs, e1, e2, e3, e4⟩ := hb hK
          rw [contS_err (by intro h; cases h)] at e4
          rw [← e4]; intro h; cases h
      | index =>
        simp only
        generalize hrt : readTail sr.flags sr.index { inp := x.inp, pos := x.pos, out := ByteArray.empty } = rt
        have hb : KX BX → ∃ (rs : RdState) (fS : Nat) (bs : Array Block), rs.inp = inp ∧ rs.pos = rt.1.pos ∧
            rs.out = D0 ++ acc ∧ contS capX single fS sr.flags (rs, rt.2, bs) = BX := by
          intro hK
          obtain ⟨rs, bs, fB, fS, e1, e2, e3, e4⟩ := hKX hK
          obtain ⟨f, rfl⟩ := kx_fuel_blocks hK e4
          rw [readBlocks_index _ _ _ _ _ _ (by rw [e1, e2, ← hxi]; exact hh)] at e4
          obtain ⟨t1, t2⟩ := readTail_frame sr.flags sr.index rs
            { inp := x.inp, pos := x.pos, out := ByteArray.empty } (by rw [e1, hxi]) e2.symm
          obtain ⟨u1, u2, _⟩ := readTail_props sr.flags sr.index rs
          rw [hrt] at t1 t2
          refine ⟨(readTail sr.flags sr.index rs).1, fS, bs, by rw [u2, e1], t2, by rw [u1, e3], ?_⟩
          rw [← t1]; exact e4
        have hmono : rt.2 = .eof → x.pos ≤ rt.1.pos := by
          rw [← hrt]; exact (readTail_props _ _ _).2.2
        by_cases hte : rt.2 = .eof
        · rw [if_pos hte]
          refine ⟨Nat.le_of_lt hlt, (fun h => by cases h), fun _ => ⟨⟨hxi, hxc, hxs, hxe, fun hK => ?_⟩, ?_⟩,
            (fun e he => by cases he)⟩
          · obtain ⟨rs, fS, bs, e1, e2, e3, e4⟩ := hb hK
            rw [hte, contS_eof] at e4
            exact ⟨{ rs with streams := rs.streams.push { flags := sr.flags, blocks := bs } }, fS, e1, e2, e3, e4⟩
          · have := hmono hte
            simp only; omega
        · rw [if_neg hte, hE]
          have hfin : ∀ e, ofStatus rt.2 = .err e → XFin BX (D0 ++ acc) (.err e) := by
            intro e he
            have hnb : NotBad (.err e) := by rw [← he]; exact nb_ofStatus _
            refine xfin_err hnb hprefix (fun hK => ?_)
            obtain ⟨rs, fS, bs, e1, e2, e3, e4⟩ := hb hK
            rw [contS_err hte] at e4
            rw [← e4]; exact hte
          refine ⟨Nat.le_of_lt hlt, fun h => ?_, fun h => ?_, fun e he => hfin e he⟩
          · exfalso; simp only at h; cases hs : rt.2 <;> rw [hs] at h <;> simp [ofStatus] at h
          · exfalso; simp only at h; cases hs : rt.2 <;> rw [hs] at h <;> simp [ofStatus] at h
            exact hte hs
      | ok hdr =>
        simp only
        rw [show newReader2AtE x.srcErr = newReader2At from by rw [hxe]; rfl]
        obtain ⟨hb1, hb2⟩ := rbh_ok _ _ _ hh
        rw [hxi] at hb1
        -- the new block reader
        have hcap0 : max x.cfgCap (dictSize hdr.dictCode) ≠ 0 := by
          have := dictSize_ge hdr.dictCode
          omega
        have hinit := init_inv (max x.cfgCap (dictSize hdr.dictCode)) inp (x.pos + hdr.len) (D0 ++ acc)
        rw [if_neg hcap0, hxc] at hinit
        have hE : D0 ++ acc ++ ByteArray.empty = D0 ++ acc := ByteArray.append_empty
        refine ih x _ acc (Or.inr ⟨_, hxi, hxc, hxs, hxe, rfl, D0 ++ acc, ByteArray.empty, hE.symm, rfl, rfl, rfl, hb1,
          by show 1 ≤ hdr.len; omega, ?_, fun hK => ?_⟩) hle (by unfold xp; simp only; omega)
          (by rw [if_pos hlt]; unfold xp; simp only [reduceCtorEq, if_false]; omega)
        · show R2Inv (max capX (dictSize hdr.dictCode)) inp (D0 ++ acc).size
            (Lzma2.decode false (max capX (dictSize hdr.dictCode)) inp (x.pos + hdr.len) (D0 ++ acc)) (x.pos + hdr.len)
            (newReader2At (max x.cfgCap (dictSize hdr.dictCode)) x.inp (x.pos + hdr.len)) ByteArray.empty
          rw [hxc, hxi]; exact hinit
        · obtain ⟨rs, bs, fB, fS, e1, e2, e3, e4⟩ := hKX hK
          obtain ⟨f, rfl⟩ := kx_fuel_blocks hK e4
          rw [readBlocks_ok _ _ _ _ _ _ _ (by rw [e1, e2, ← hxi]; exact hh), readBlock_eq] at e4
          refine ⟨rs, bs, f, fS, e1, e2, e3, ?_⟩
          simp only [e1, e2, e3] at e4 ⊢
          exact e4
    · -- inside a block
      have hbr : sr.br = some b := hinv.2.2.2.2.1
      have hstart : b.start ≤ inp.size := hinv.2.2.2.2.2.choose_spec.choose_spec.2.2.2.2.1
      have hxp : xp x sr = b.start := by unfold xp; rw [hbr]
      rw [hbr] at hn ⊢
      simp only [if_false, reduceCtorEq] at hn ⊢
      rw [hxp] at hn hp0
      have hbp := blockRead_spec hinv (len - acc.size)
      rcases hbrd : blockRead x sr b (len - acc.size) with ⟨x', sr', out, st⟩
      rw [hbrd] at hbp
      obtain ⟨q1, q2, q3, q4⟩ := hbp
      simp only at q1 q2 q3 q4 ⊢
      have hsz : (acc ++ out).size = acc.size + out.size := ByteArray.size_append
      have hasm : D0 ++ acc ++ out = D0 ++ (acc ++ out) := ByteArray.append_assoc
      cases st with
      | ok =>
        simp only
        obtain ⟨o1, o2, b', o3, o4⟩ := q2 rfl
        rw [hasm] at o3
        have hxp' : xp x' sr' = b.start := by unfold xp; rw [o3.2.2.2.2.1]; exact o4
        exact ih x' sr' (acc ++ out) (Or.inr ⟨b', o3⟩) (by omega) (by rw [hxp']; exact hp0)
          (by rw [if_neg (by omega)]; omega)
      | eof =>
        simp only
        obtain ⟨e1, e2⟩ := q3 rfl
        rw [hasm] at e1
        have hxp' : xp x' sr' = x'.pos := by unfold xp; rw [e1.2.2.2.2.1]
        refine ih x' sr' (acc ++ out) (Or.inl e1) (by omega) (by rw [hxp']; omega) ?_
        rw [hxp', e1.2.2.2.2.1]
        simp only [if_true]
        split_ifs <;> omega
      | err e =>
        simp only
        have := q4 e rfl
        rw [hasm] at this
        exact ⟨by simp only; omega, (fun h => by cases h), (fun h => by cases h),
          fun e' he' => by cases he'; exact this⟩

/-! ### `Reader.Read` -/

theorem kx_fuel_streams {f : Nat} {first : Bool} {rs : RdState} (hK : KX BX)
    (h : readStreams false capX single f first rs = BX) : ∃ f', f = f' + 1 := by
  cases f with
  | zero => exfalso; apply hK; rw [← h]; rfl
  | succ f => exact ⟨f, rfl⟩

/-- between two streams of a multi-stream file: the batch run continues with `readStreams … false` -/
def GapAt (capX : Nat) (single : Bool) (inp : ByteArray) (BX : RdState × Status) (p : Nat) (D : ByteArray) : Prop :=
  KX BX → ∃ (rs : RdState) (fS : Nat), rs.inp = inp ∧ rs.pos = p ∧ rs.out = D ∧
    readStreams false capX single fS false rs = BX

def SkipPost (capX : Nat) (single : Bool) (inp : ByteArray) (BX : RdState × Status) (x : X) (p0 : Nat) (D : ByteArray) :
    NS → Prop
  | .ok sr pos => p0 + 12 ≤ pos ∧ pos ≤ inp.size ∧
      StreamInv capX single inp BX { x with pos := pos, sr := some sr } sr D
  | .fail st => XFin BX D st ∧ st ≠ .ok
  | .padding _ => False

theorem skip_spec {x : X} {D : ByteArray} (hxi : x.inp = inp) (hxc : x.cfgCap = capX) (hxs : x.single = single)
    (hxe : x.srcErr = false) :
    ∀ (f p : Nat), GapAt capX single inp BX p D → (inp.size - p) / 4 + 1 ≤ f → x.pos ≤ p →
    SkipPost capX single inp BX x x.pos D (readLoop.skip x f p) := by
  intro f
  induction f with
  | zero => intro p _ hf _; omega
  | succ f ih =>
    intro p hg hf hp
    rw [readLoop.skip.eq_2, hxe]
    unfold newStreamReaderE
    simp only [Bool.false_eq_true, if_false, ofStatusE_false]
    have hprefix : KX BX → D.data.toList <+: BX.1.out.data.toList := by
      intro hK
      obtain ⟨rs, fS, e1, e2, e3, e4⟩ := hg hK
      have := (readStreams_ext capX single fS false rs).2
      rw [e4, e3] at this
      exact this
    cases hh : readStreamHeader x.inp p with
    | cleanEnd =>
      simp only
      refine ⟨⟨nb_eof, hprefix, fun _ hK => ?_, (fun e he => by cases he)⟩, (by intro h; cases h)⟩
      obtain ⟨rs, fS, e1, e2, e3, e4⟩ := hg hK
      obtain ⟨f', rfl⟩ := kx_fuel_streams hK e4
      rw [readStreams_clean _ _ _ _ _ (by rw [e1, e2, ← hxi]; exact hh)] at e4
      simp only [Bool.false_eq_true, if_false] at e4
      rw [← e4]
      exact ⟨rfl, by rw [e3]⟩
    | padding =>
      simp only
      have hb := rsh_pad _ _ hh
      rw [hxi] at hb
      refine ih (p + 4) (fun hK => ?_) (by omega) (by omega)
      obtain ⟨rs, fS, e1, e2, e3, e4⟩ := hg hK
      obtain ⟨f', rfl⟩ := kx_fuel_streams hK e4
      rw [readStreams_pad _ _ _ _ (by rw [e1, e2, ← hxi]; exact hh)] at e4
      obtain ⟨a1, a2, a3⟩ := padAdj_props rs
      exact ⟨padAdj rs, f', by rw [a2, e1], by rw [a1, e2], by rw [a3, e3], e4⟩
    | fail st =>
      simp only
      have hb : KX BX → BX.2 = st := by
        intro hK
        obtain ⟨rs, fS, e1, e2, e3, e4⟩ := hg hK
        obtain ⟨f', rfl⟩ := kx_fuel_streams hK e4
        rw [readStreams_fail _ _ _ _ _ _ (by rw [e1, e2, ← hxi]; exact hh)] at e4
        rw [← e4]
      have hbo : KX BX → D.data.toList = BX.1.out.data.toList := by
        intro hK
        obtain ⟨rs, fS, e1, e2, e3, e4⟩ := hg hK
        obtain ⟨f', rfl⟩ := kx_fuel_streams hK e4
        rw [readStreams_fail _ _ _ _ _ _ (by rw [e1, e2, ← hxi]; exact hh)] at e4
        rw [← e4, e3]
      cases st with
      | eof =>
        exact ⟨⟨nb_eof, hprefix, fun _ hK => ⟨hb hK, hbo hK⟩, (fun e he => by cases he)⟩, (by intro h; cases h)⟩
      | unexpectedEOF =>
        refine ⟨xfin_err nb_ueof hprefix (fun hK => by rw [hb hK]; intro h; cases h), (by intro h; cases h)⟩
      | err w =>
        refine ⟨xfin_err (nb_other _) hprefix (fun hK => by rw [hb hK]; intro h; cases h), (by intro h; cases h)⟩
    | ok flags =>
      simp only
      have hb := rsh_ok _ _ _ hh
      rw [hxi] at hb
      refine ⟨by omega, hb, hxi, hxc, hxs, hxe, rfl, fun hK => ?_⟩
      obtain ⟨rs, fS, e1, e2, e3, e4⟩ := hg hK
      obtain ⟨f', rfl⟩ := kx_fuel_streams hK e4
      rw [readStreams_ok _ _ _ _ _ _ (by rw [e1, e2, ← hxi]; exact hh)] at e4
      exact ⟨{ rs with pos := rs.pos + 12 }, #[], _, f', e1, by simp only [e2], e3, e4⟩

def XInv (capX : Nat) (single : Bool) (inp : ByteArray) (BX : RdState × Status) (x : X) (D : ByteArray) : Prop :=
  (∃ sr, x.sr = some sr ∧ SInv capX single inp BX x sr D) ∨ (x.sr = none ∧ AfterInv capX single inp BX x D)

def xpR (x : X) : Nat :=
  match x.sr with
  | none => x.pos
  | some sr => xp x sr

def ReadPost (capX : Nat) (single : Bool) (inp : ByteArray) (BX : RdState × Status) (len : Nat) (D0 : ByteArray)
    (res : X × ByteArray × RStat) : Prop :=
  res.2.1.size ≤ len ∧
  (res.2.2 = .ok → res.2.1.size = len ∧ XInv capX single inp BX res.1 (D0 ++ res.2.1)) ∧
  (res.2.2 ≠ .ok → XFin BX (D0 ++ res.2.1) res.2.2)

theorem SInv.congr {x x' : X} {sr : Sr} {D : ByteArray} (h : SInv capX single inp BX x sr D)
    (h1 : x'.inp = x.inp) (h2 : x'.pos = x.pos) (h3 : x'.cfgCap = x.cfgCap) (h4 : x'.single = x.single)
    (h5 : x'.srcErr = x.srcErr) :
    SInv capX single inp BX x' sr D := by
  rcases h with ⟨a1, a2, a3, a0, a4, a5⟩ | ⟨b, a1, a2, a3, a0, a4, D0, Dblk, c1, c2, c3, c4, c5, c6, c7, c8⟩
  · exact Or.inl ⟨by rw [h1]; exact a1, by rw [h3]; exact a2, by rw [h4]; exact a3, by rw [h5]; exact a0, a4,
      by rw [h2]; exact a5⟩
  · exact Or.inr ⟨b, by rw [h1]; exact a1, by rw [h3]; exact a2, by rw [h4]; exact a3, by rw [h5]; exact a0, a4, D0, Dblk, c1, c2, c3,
      by rw [h2]; exact c4, c5, c6, c7, by rw [h2]; exact c8⟩

theorem xfin_ok_absurd {X : ByteArray} : XFin BX X .ok → True := fun _ => trivial

theorem readLoopX_spec (len : Nat) (D0 : ByteArray) :
    ∀ (fuel : Nat) (x : X) (acc : ByteArray),
    XInv capX single inp BX x (D0 ++ acc) → acc.size ≤ len →
    (if acc.size < len then (inp.size - xpR x) + (if x.sr = none then 2 else 3) else 1) ≤ fuel →
    ReadPost capX single inp BX len D0 (readLoop len fuel x acc) := by
  intro fuel
  induction fuel with
  | zero => intro x acc _ _ hn; exfalso; split_ifs at hn <;> omega
  | succ fuel ih =>
    intro x acc hinv hle hn
    rw [readLoop]
    by_cases hlt : acc.size < len
    swap
    · rw [if_neg hlt]
      exact ⟨hle, fun _ => ⟨by simp only; omega, hinv⟩, (fun h => absurd rfl h)⟩
    rw [if_pos hlt]
    rw [if_pos hlt] at hn
    rcases hinv with ⟨sr, hsr, hinv⟩ | ⟨hsr, hxi, hxc, hxs, hxe, hKX⟩
    · -- inside a stream
      have hxi : x.inp = inp := by
        rcases hinv with h | ⟨b, h⟩
        · exact h.1
        · exact h.1
      have hxpR : xpR x = xp x sr := by unfold xpR; rw [hsr]
      rw [hsr] at hn ⊢
      simp only [reduceCtorEq, if_false] at hn ⊢
      rw [hxpR] at hn
      have hE : D0 ++ acc ++ ByteArray.empty = D0 ++ acc := ByteArray.append_empty
      have hsp := streamRead_spec (xp x sr) (len - acc.size) (D0 ++ acc)
        (len - acc.size + x.inp.size + 4) x sr ByteArray.empty (by rw [hE]; exact hinv) (Nat.zero_le _)
        (Nat.le_refl _)
        (by have : ByteArray.empty.size = 0 := rfl
            rw [hxi]; split_ifs <;> omega)
      rcases hsr' : streamRead (len - acc.size) (len - acc.size + x.inp.size + 4) x sr ByteArray.empty
        with ⟨x', sr', out, st⟩
      rw [hsr'] at hsp
      obtain ⟨q1, q2, q3, q4⟩ := hsp
      simp only at q1 q2 q3 q4 ⊢
      have hsz : (acc ++ out).size = acc.size + out.size := ByteArray.size_append
      have hasm : D0 ++ acc ++ out = D0 ++ (acc ++ out) := ByteArray.append_assoc
      cases st with
      | ok =>
        simp only
        obtain ⟨o1, o2, o3⟩ := q2 rfl
        rw [hasm] at o2
        refine ih _ (acc ++ out) (Or.inl ⟨sr', rfl, o2.congr rfl rfl rfl rfl rfl⟩) (by omega)
          (by rw [if_neg (by omega)]; omega)
      | eof =>
        simp only
        obtain ⟨e1, e2⟩ := q3 rfl
        rw [hasm] at e1
        refine ih _ (acc ++ out) (Or.inr ⟨rfl, e1.1, e1.2.1, e1.2.2.1, e1.2.2.2⟩) (by omega) ?_
        have : xpR ({ x' with sr := none } : X) = x'.pos := rfl
        rw [this]
        simp only [if_true]
        split_ifs <;> omega
      | err e =>
        simp only
        have := q4 e rfl
        rw [hasm] at this
        exact ⟨by simp only; omega, (fun h => by cases h), fun _ => this⟩
    · -- between two streams
      have hxpR : xpR x = x.pos := by unfold xpR; rw [hsr]
      rw [hsr] at hn ⊢
      simp only [if_true] at hn ⊢
      rw [hxpR] at hn
      have hprefix : KX BX → (D0 ++ acc).data.toList <+: BX.1.out.data.toList := by
        intro hK
        obtain ⟨rs, fS, e1, e2, e3, e4⟩ := hKX hK
        cases hsg : single with
        | true =>
          rw [hsg] at e4
          simp only [if_true] at e4
          split_ifs at e4 <;> (rw [← e4, e3]; exact List.prefix_refl _)
        | false =>
          rw [hsg] at e4
          simp only [Bool.false_eq_true, if_false] at e4
          have := (readStreams_ext capX false fS false rs).2
          rw [e4, e3] at this
          exact this
      by_cases hs1 : x.single = true
      · rw [if_pos hs1]
        have hsg : single = true := by rw [← hxs]; exact hs1
        by_cases hps : x.pos < x.inp.size
        · rw [if_pos hps]
          refine ⟨Nat.le_of_lt hlt, (fun h => by cases h), fun _ => ?_⟩
          refine xfin_err (nb_oerr _) hprefix (fun hK => ?_)
          obtain ⟨rs, fS, e1, e2, e3, e4⟩ := hKX hK
          rw [hsg] at e4
          simp only [if_true] at e4
          rw [if_pos (by rw [e1, e2, ← hxi]; exact hps)] at e4
          rw [← e4]; intro h; cases h
        · rw [if_neg hps, ite_src hxe]
          refine ⟨Nat.le_of_lt hlt, (fun h => by cases h), fun _ => ⟨nb_eof, hprefix, fun _ hK => ?_,
            (fun e he => by cases he)⟩⟩
          obtain ⟨rs, fS, e1, e2, e3, e4⟩ := hKX hK
          rw [hsg] at e4
          simp only [if_true] at e4
          rw [if_neg (by rw [e1, e2, ← hxi]; exact hps)] at e4
          rw [← e4]
          exact ⟨rfl, by rw [e3]⟩
      · rw [if_neg hs1]
        have hsg : single = false := by rw [← hxs]; simpa using hs1
        have hgap : GapAt capX single inp BX x.pos (D0 ++ acc) := by
          intro hK
          obtain ⟨rs, fS, e1, e2, e3, e4⟩ := hKX hK
          rw [hsg] at e4
          simp only [Bool.false_eq_true, if_false] at e4
          rw [hsg]
          exact ⟨rs, fS, e1, e2, e3, e4⟩
        have hsk := skip_spec (BX := BX) hxi hxc hxs hxe (x.inp.size / 4 + 2) x.pos hgap
          (by rw [hxi]; omega) (Nat.le_refl _)
        cases hskr : readLoop.skip x (x.inp.size / 4 + 2) x.pos with
        | ok sr' pos' =>
          rw [hskr] at hsk
          obtain ⟨k1, k2, k3⟩ := hsk
          simp only
          refine ih _ acc (Or.inl ⟨sr', rfl, Or.inl k3⟩) hle ?_
          have : xpR ({ x with pos := pos', sr := some sr' } : X) = pos' := by
            unfold xpR xp
            simp only [k3.2.2.2.2.1]
          rw [this, if_pos hlt]
          simp only [reduceCtorEq, if_false]
          omega
        | fail st =>
          rw [hskr] at hsk
          simp only
          exact ⟨Nat.le_of_lt hlt, fun h => absurd h hsk.2, fun _ => hsk.1⟩
        | padding p =>
          rw [hskr] at hsk
          exact hsk.elim

theorem readX_spec {x : X} {D : ByteArray} (h : XInv capX single inp BX x D) (len : Nat) :
    ReadPost capX single inp BX len D (read x len) := by
  unfold read
  have hE : D ++ ByteArray.empty = D := ByteArray.append_empty
  have hxi : x.inp = inp := by
    rcases h with ⟨sr, _, h | ⟨b, h⟩⟩ | ⟨_, h⟩
    · exact h.1
    · exact h.1
    · exact h.1
  apply readLoopX_spec len D _ x ByteArray.empty (by rw [hE]; exact h) (Nat.zero_le _)
  have : ByteArray.empty.size = 0 := rfl
  rw [hxi]
  split_ifs <;> omega

/-! ### schedules -/

def SeqPostX (BX : RdState × Status) (D : ByteArray) (lens : List Nat) (rs : List (ByteArray × RStat)) : Prop :=
  (∀ x ∈ rs, NotBad x.2) ∧
  (rs.length ≤ lens.length ∧ ∀ i (hi : i < rs.length), (rs[i]).1.size ≤ lens[i]! ∧ ((rs[i]).2 = .ok → (rs[i]).1.size = lens[i]!)) ∧
  (KX BX → (D ++ delivered rs).data.toList <+: BX.1.out.data.toList) ∧
  (LazyDec.lastStat rs = .eof → KX BX → BX.2 = .eof ∧ (D ++ delivered rs).data.toList = BX.1.out.data.toList) ∧
  (∀ e, LazyDec.lastStat rs = .err e → BX.2 ≠ .eof) ∧
  (LazyDec.lastStat rs = .ok → (delivered rs).size = lens.sum)

theorem XInv.pre {x : X} {D : ByteArray} (h : XInv capX single inp BX x D) (hK : KX BX) :
    D.data.toList <+: BX.1.out.data.toList := by
  rcases h with ⟨sr, _, h | ⟨b, h⟩⟩ | ⟨_, h⟩
  · obtain ⟨_, _, _, _, _, hKX⟩ := h
    obtain ⟨rs, bs, fB, fS, e1, e2, e3, e4⟩ := hKX hK
    have := (readBlocks_ext capX sr.flags fB rs bs sr.index).trans (contS_ext' capX single fS sr.flags _)
    rw [e4] at this
    have h2 := this.2
    rw [e3] at h2
    exact h2
  · obtain ⟨_, _, _, _, _, D0, Dblk, hD, _, _, _, _, _, hR2, hKX⟩ := h
    obtain ⟨rs, bs, fB, fS, e1, e2, e3, e4⟩ := hKX hK
    have hx := (contB_ext capX sr.flags fB b.hdr bs sr.index
      (blkOut sr.flags b.hdr { rs with pos := b.start }
        (Lzma2.decode false (max capX (dictSize b.hdr.dictCode)) inp b.start D0))).trans
      (contS_ext' capX single fS sr.flags _)
    rw [e4] at hx
    have h2 := hx.2
    rw [(blkOut_out _ _ _ _).1] at h2
    refine List.IsPrefix.trans ?_ h2
    -- what this block has delivered is a prefix of what the batch LZMA2 reader decodes
    generalize hB2 : Lzma2.decode false (max capX (dictSize b.hdr.dictCode)) inp b.start D0 = B2 at hR2
    have hKB2 : KB B2 := by rw [← hB2]; exact decode_fuel _ _ _ _
    have hpre0 : D0.data.toList <+: B2.1.h.out.data.toList := by rw [← hB2]; exact decode_prefix _ _ _ _
    have hpre : Dblk.data.toList = (B2.1.h.out.data.toList.drop D0.size).take Dblk.size := by
      rcases hR2 with ⟨_, hc, _⟩ | ⟨st, _, _, _, hf, _⟩
      · exact hc.pre hKB2
      · exact hf hKB2
    rw [hD, ByteArray.data_append, Array.toList_append, hpre]
    obtain ⟨t, ht⟩ := hpre0
    rw [← ht, List.drop_left' (by rw [length_toList])]
    exact (List.prefix_append_right_inj _).mpr (List.take_prefix _ _)
  · obtain ⟨_, _, _, _, hKX⟩ := h
    obtain ⟨rs, fS, e1, e2, e3, e4⟩ := hKX hK
    cases hsg : single with
    | true =>
      rw [hsg] at e4
      simp only [if_true] at e4
      split_ifs at e4 <;> (rw [← e4, e3]; exact List.prefix_refl _)
    | false =>
      rw [hsg] at e4
      simp only [Bool.false_eq_true, if_false] at e4
      have := (readStreams_ext capX false fS false rs).2
      rw [e4, e3] at this
      exact this

theorem seqX_final {D out : ByteArray} {st : RStat} {len : Nat} {rest : List Nat}
    (h1 : XFin BX (D ++ out) st) (h3 : st ≠ .ok) (h4 : out.size ≤ len) :
    SeqPostX BX D (len :: rest) [(out, st)] := by
  have hd1 : delivered [(out, st)] = out := by rw [delivered_cons, delivered_nil, ByteArray.append_empty]
  obtain ⟨a1, a2, a3, a4⟩ := h1
  refine ⟨?_, ⟨by simp, ?_⟩, by rw [hd1]; exact a2, ?_, ?_, ?_⟩
  · intro x hx
    rcases List.mem_cons.mp hx with rfl | hx
    · exact a1
    · cases hx
  · intro i hi
    have : i = 0 := by simpa using hi
    subst this
    simp only [List.getElem_cons_zero, List.getElem!_cons_zero]
    exact ⟨h4, fun h => absurd h h3⟩
  · intro hl hK
    have : st = .eof := hl
    rw [hd1]
    exact a3 this hK
  · intro e hl
    have : st = .err e := hl
    exact a4 e this
  · intro hl
    exact absurd hl h3

theorem readSeqX_spec : ∀ (lens : List Nat) (x : X) (D : ByteArray),
    XInv capX single inp BX x D → SeqPostX BX D lens (readSeq x lens) := by
  intro lens
  induction lens with
  | nil =>
    intro x D hinv
    simp only [readSeq]
    refine ⟨(fun x hx => by cases hx), ⟨Nat.le_refl _, (fun i hi => by cases hi)⟩, ?_, ?_, ?_, fun _ => rfl⟩
    · rw [delivered_nil, ByteArray.append_empty]; exact hinv.pre
    · intro h; cases h
    · intro e h; cases h
  | cons len rest ih =>
    intro x D hinv
    have hr := readX_spec hinv len
    rw [readSeq]
    rcases hrd : read x len with ⟨x', out, st⟩
    rw [hrd] at hr
    obtain ⟨q1, q2, q3⟩ := hr
    simp only at q1 q2 q3 ⊢
    cases st with
    | ok =>
      simp only
      obtain ⟨o1, o2⟩ := q2 rfl
      obtain ⟨i1, ⟨i2, i3⟩, i4, i5, i6, i7⟩ := ih x' (D ++ out) o2
      have hdl : D ++ delivered ((out, RStat.ok) :: readSeq x' rest) = D ++ out ++ delivered (readSeq x' rest) := by
        rw [delivered_cons, ByteArray.append_assoc]
      refine ⟨?_, ⟨?_, ?_⟩, ?_, ?_, ?_, ?_⟩
      · intro y hy
        rcases List.mem_cons.mp hy with rfl | hy
        · exact nb_ok
        · exact i1 y hy
      · simp only [List.length_cons]; omega
      · intro i hi
        cases i with
        | zero => simp only [List.getElem_cons_zero, List.getElem!_cons_zero]; exact ⟨q1, fun _ => o1⟩
        | succ i =>
          simp only [List.getElem_cons_succ, List.getElem!_cons_succ]
          exact i3 i (by simpa using hi)
      · rw [hdl]; exact i4
      · rw [hdl, lastStat_cons_ok]; exact i5
      · rw [lastStat_cons_ok]; exact i6
      · rw [lastStat_cons_ok, delivered_cons, ByteArray.size_append, List.sum_cons]
        intro h
        rw [i7 h, o1]
    | eof =>
      simp only
      exact seqX_final (q3 (by intro h; cases h)) (by intro h; cases h) q1
    | err e =>
      simp only
      exact seqX_final (q3 (by intro h; cases h)) (by intro h; cases h) q1

/-! ### `NewReader` -/

theorem rsh_fail_ne (inp : ByteArray) (pos : Nat) (st : Status) (h : readStreamHeader inp pos = .fail st) :
    st ≠ .eof := by
  unfold readStreamHeader at h
  split_ifs at h
  all_goals first
    | (cases h; intro hh; cases hh)
    | (split at h <;> first | (cases h; intro hh; cases hh) | cases h)

/-- the batch run of the whole file -/
def bx (capX : Nat) (single : Bool) (inp : ByteArray) : RdState × Status :=
  readStreams false capX single (inp.size / 4 + 3) true { inp := inp, pos := 0, out := .empty }

theorem xzread_eq (capX : Nat) (single : Bool) (inp : ByteArray) :
    (Xz.read false capX single inp).out = (bx capX single inp).1.out ∧
    (Xz.read false capX single inp).status = (bx capX single inp).2 := by
  unfold Xz.read bx
  exact ⟨rfl, rfl⟩

/-- with a failing source `newStreamReader` never reports a clean end -/
theorem nsE_ne_eof (inp : ByteArray) (p : Nat) : newStreamReaderE true inp p ≠ .fail .eof := by
  unfold newStreamReaderE
  cases hh : readStreamHeader inp p with
  | cleanEnd => intro h; cases h
  | padding => intro h; cases h
  | ok flags => intro h; cases h
  | fail st =>
    have hne := rsh_fail_ne _ _ _ hh
    cases st with
    | eof => exact absurd rfl hne
    | unexpectedEOF => intro h; cases h
    | err w => intro h; cases h

theorem skip_fail_eof (x : X) : ∀ (f p : Nat), readLoop.skip x f p = .fail .eof → x.srcErr = false := by
  intro f
  induction f with
  | zero => intro p h; rw [readLoop.skip.eq_1] at h; cases h
  | succ f ih =>
    intro p h
    rw [readLoop.skip.eq_2] at h
    cases hb : x.srcErr with
    | false => rfl
    | true =>
      exfalso
      rw [hb] at h
      cases hn : newStreamReaderE true x.inp p with
      | padding p' =>
        rw [hn] at h
        have := ih p' h
        rw [hb] at this; cases this
      | ok sr pos => rw [hn] at h; cases h
      | fail st =>
        rw [hn] at h
        simp only at h
        rw [h] at hn
        exact nsE_ne_eof _ _ hn

theorem newReader_init (cfgCap : Nat) (single : Bool) (inp : ByteArray) (x : X)
    (h : newReader cfgCap single inp = .ok x) :
    XInv cfgCap single inp (bx cfgCap single inp) x ByteArray.empty := by
  unfold newReader newReaderE newStreamReaderE at h
  simp only [Bool.false_eq_true, if_false] at h
  split_ifs at h with hc
  cases hh : readStreamHeader inp 0 with
  | cleanEnd => rw [hh] at h; cases h
  | padding => rw [hh] at h; cases h
  | fail st =>
    rw [hh] at h
    simp only at h
    cases st <;> cases h
  | ok flags =>
    rw [hh] at h
    simp only at h
    cases h
    refine Or.inl ⟨_, rfl, Or.inl ⟨rfl, rfl, rfl, rfl, rfl, fun hK => ?_⟩⟩
    refine ⟨{ inp := inp, pos := 0 + 12, out := .empty }, #[], inp.size - 0 + 2, inp.size / 4 + 2, rfl, rfl, rfl, ?_⟩
    unfold bx
    rw [readStreams_ok _ _ _ _ _ _ hh]

end LazyXz
