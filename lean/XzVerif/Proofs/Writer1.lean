import XzVerif.Model.Writer1
import XzVerif.Proofs.Writer2
import XzVerif.Proofs.Lzma1RoundTrip
import XzVerif.Proofs.Writer1Lemmas

/-!
  The classic .lzma writer model (Model/Writer1.lean) meets the explicit-size contract and produces streams
  the classic reader model (Model/Lzma1.lean) decodes to exactly the accepted bytes, for every valid
  configuration, every applicable match finder and every sequence of Write calls followed by Close.
-/
namespace W1
open Lzma Rc Lzma2 W2

variable {σ : Type}

/-- configurations `WriterConfig.Verify` accepts, after `fill` -/
def CfgOk (c : Cfg) : Prop :=
  c.props.lc ≤ 8 ∧ c.props.lp ≤ 4 ∧ c.props.pb ≤ 4 ∧ 1 ≤ c.dictCap ∧ c.dictCap ≤ Gen.lzma_MaxDictCap ∧
  Gen.lzma_maxMatchLen ≤ c.bufSize ∧ (c.size = none → c.marker = true) ∧ (∀ sz, c.size = some sz → sz < 2 ^ 63)

/-- the size contract as a specification: bytes accepted so far → per call (n, refused) -/
def specWrites (size : Option Nat) : Nat → List ByteArray → List (Nat × Option Err)
  | _, [] => []
  | acc, p :: ps =>
    let room := match size with
      | some sz => sz - acc
      | none => p.size
    let n := min p.size room
    (n, if n < p.size then some .noSpace else none) :: specWrites size (acc + n) ps

/-- the bytes the contract accepts -/
def acceptedData (size : Option Nat) : Nat → List ByteArray → ByteArray
  | _, [] => ByteArray.empty
  | acc, p :: ps =>
    let room := match size with
      | some sz => sz - acc
      | none => p.size
    let n := min p.size room
    p.extract 0 n ++ acceptedData size (acc + n) ps

/-! ## helper lemmas -/

theorem cfgOk1 {c : Cfg} (hc : CfgOk c) : CfgOk1 c :=
  ⟨hc.2.2.2.1, hc.2.2.2.2.1, hc.2.2.2.2.2.1⟩

theorem specWrites_length (size : Option Nat) : ∀ (ps : List ByteArray) (acc : Nat),
    (specWrites size acc ps).length = ps.length := by
  intro ps
  induction ps with
  | nil => intro acc; rfl
  | cons p ps ih => intro acc; simp only [specWrites, List.length_cons, ih]

theorem run_write (c : Cfg) (M : Matcher σ) (w : St σ) (p : ByteArray) (rest : List Call) :
    run c M w (.write p :: rest) =
      (((write c M w p).2.1, (write c M w p).2.2) :: (run c M (write c M w p).1 rest).1,
       (run c M (write c M w p).1 rest).2) := rfl

theorem run_spec (c : Cfg) (hc : CfgOk c) (M : Matcher σ) (hM : MatcherOk c.w2 M) :
    ∀ (ps : List ByteArray) (w : St σ), Inv c w →
      ∃ wf : St σ, Inv c wf ∧
        wf.hist ++ wf.look = w.hist ++ w.look ++ acceptedData c.size (w.hist.size + w.look.size) ps ∧
        (run c M w (ps.map .write ++ [.close])).1 =
          specWrites c.size (w.hist.size + w.look.size) ps ++ (run c M wf [.close]).1 ∧
        (run c M w (ps.map .write ++ [.close])).2 = (run c M wf [.close]).2 := by
  intro ps
  induction ps with
  | nil =>
    intro w hi
    refine ⟨w, hi, ?_, rfl, rfl⟩
    simp only [acceptedData, ByteArray.append_empty]
  | cons p ps ih =>
    intro w hi
    obtain ⟨room, hroom⟩ : ∃ room, (match c.size with
      | some sz => sz - (w.hist.size + w.look.size)
      | none => p.size) = room := ⟨_, rfl⟩
    obtain ⟨w', a1, a2, a3⟩ := write_ok c (cfgOk1 hc) M (W2.matcherOk' hM) w p hi room hroom.symm
    have hn : (p.extract 0 (min p.size room)).size = min p.size room := by
      rw [ByteArray.size_extract]; omega
    have hacc : w'.hist.size + w'.look.size = w.hist.size + w.look.size + min p.size room := by
      have := congrArg ByteArray.size a3
      simp only [ByteArray.size_append, hn] at this
      exact this
    obtain ⟨wf, b1, b2, b3, b4⟩ := ih w' a2
    rw [hacc] at b2 b3
    refine ⟨wf, b1, ?_, ?_, ?_⟩
    · rw [b2, a3]
      simp only [acceptedData, hroom, ByteArray.append_assoc]
    · simp only [List.map_cons, List.cons_append, run_write, a1, b3, specWrites, hroom, List.cons_append]
    · simp only [List.map_cons, List.cons_append, run_write, a1, b4]

theorem run_init (c : Cfg) (hc : CfgOk c) (M : Matcher σ) (hM : MatcherOk c.w2 M) (m0 : σ) (ps : List ByteArray) :
    ∃ wf : St σ, Inv c wf ∧ wf.hist ++ wf.look = acceptedData c.size 0 ps ∧
      (run c M (init c m0) (ps.map .write ++ [.close])).1 = specWrites c.size 0 ps ++ (run c M wf [.close]).1 ∧
      (run c M (init c m0) (ps.map .write ++ [.close])).2 = (run c M wf [.close]).2 := by
  obtain ⟨wf, b1, b2, b3, b4⟩ := run_spec c hc M hM ps (init c m0) (init_inv c m0)
  have h0 : (init c m0).hist.size + (init c m0).look.size = 0 := rfl
  have he : (init c m0).hist ++ (init c m0).look = ByteArray.empty := rfl
  rw [h0] at b2 b3
  rw [he, ByteArray.empty_append] at b2
  exact ⟨wf, b1, b2, b3, b4⟩

theorem run_close_err (c : Cfg) (M : Matcher σ) (w : St σ) (e : Err) (h : close c M w = .error e) :
    run c M w [.close] = ([(0, some e)], none) := by
  unfold run
  rw [h]

theorem run_close_ok (c : Cfg) (M : Matcher σ) (w wf : St σ) (o : ByteArray) (h : close c M w = .ok (wf, o)) :
    run c M w [.close] = ([(0, none)], some o) := by
  unfold run
  rw [h]

theorem encode_extract (hdr : Lzma1.Header) (ops : Array RawOp) (marker : Bool) :
    (Lzma1.encode hdr ops marker).extract 0 13 = Lzma1.headerBytes hdr := by
  have h13 := Lzma1.headerBytes_size hdr
  show (Lzma1.headerBytes hdr ++ _).extract 0 13 = _
  rw [W2.extract_append_le _ _ 13 (by omega)]
  have := ByteArray.extract_zero_size (b := Lzma1.headerBytes hdr)
  rw [h13] at this
  exact this

/-- the classic reader on the stream `close` emits -/
theorem read_close (c : Cfg) (hc : CfgOk c) (w1 : St σ) (hi : Inv c w1) (cfgCap : Nat)
    (hsz : ∀ sz, c.size = some sz → w1.hist.size = sz) :
    (Lzma1.read cfgCap (Lzma1.encode c.header w1.ops c.marker)).status = .eof ∧
    (Lzma1.read cfgCap (Lzma1.encode c.header w1.ops c.marker)).out = w1.hist ∧
    (Lzma1.read cfgCap (Lzma1.encode c.header w1.ops c.marker)).consumed =
      (Lzma1.encode c.header w1.ops c.marker).size ∧
    (Lzma1.read cfgCap (Lzma1.encode c.header w1.ops c.marker)).marker = c.marker ∧
    (Lzma1.read cfgCap (Lzma1.encode c.header w1.ops c.marker)).openError = false := by
  obtain ⟨hlc, hlp, hpb, hd1, hd2, hbuf, hmk, h63⟩ := hc
  have hdc : c.header.dictCap < 2 ^ 32 := by
    show c.dictCap < 2 ^ 32
    unfold Gen.lzma_MaxDictCap at hd2
    omega
  have hops : OpsOk {} (Lzma1.encHist c.header) w1.ops.toList := hi.ops
  have hfin : (finalH {} (Lzma1.encHist c.header) w1.ops.toList).out = w1.hist := by
    have hsh := encodeOps_sh c.props {} (initTable c.props.lc c.props.lp) (HK0 c) w1.ops.toList
    rw [hi.enc] at hsh
    rw [← HK0_eq, ← hsh.2]
    rfl
  have harr : w1.ops.toList.toArray = w1.ops := Array.toArray_toList
  cases hcs : c.size with
  | none =>
    have hm := hmk hcs
    rw [hm]
    have := Lzma1.read_encode_unknown cfgCap c.header w1.ops.toList hlc hlp hpb hdc hcs hops
    rw [harr] at this
    rw [this, hfin]
    exact ⟨rfl, rfl, rfl, rfl, rfl⟩
  | some sz =>
    have hs := hsz sz hcs
    have hsize : c.header.size = some (finalH {} (Lzma1.encHist c.header) w1.ops.toList).out.size := by
      rw [hfin, hs]; exact hcs
    have hlt : (finalH {} (Lzma1.encHist c.header) w1.ops.toList).out.size < 2 ^ 63 := by
      rw [hfin, hs]; exact h63 sz hcs
    cases hm : c.marker with
    | false =>
      have := Lzma1.read_encode_known cfgCap c.header w1.ops.toList hlc hlp hpb hdc hops hsize hlt
      rw [harr] at this
      rw [this, hfin]
      exact ⟨rfl, rfl, rfl, rfl, rfl⟩
    | true =>
      have := Lzma1.read_encode_known_marker cfgCap c.header w1.ops.toList hlc hlp hpb hdc hops hsize hlt
      rw [harr] at this
      rw [this, hfin]
      exact ⟨rfl, rfl, rfl, rfl, rfl⟩

/-! ## statements to prove (do not change them) -/

/-- `fill` produces configurations in which a missing size implies an end marker, and a positive size is always
    announced in the header -/
theorem fill_spec (r : RawCfg) :
    ((fill r).size = none → (fill r).marker = true) ∧
    (r.size > 0 → (fill r).size = some r.size) ∧
    (r.sizeInHeader = true → (fill r).size = some r.size) ∧
    (r.sizeInHeader = false → r.size = 0 → (fill r).size = none ∧ (fill r).marker = true) := by
  unfold fill
  dsimp only
  refine ⟨?_, ?_, ?_, ?_⟩
  · intro h
    split at h
    · exact absurd h (by simp)
    · rename_i hs
      simp only [hs, Bool.not_false, Bool.or_true]
  · intro h
    simp only [h, decide_true, Bool.or_true, if_true]
  · intro h
    simp only [h, Bool.true_or, if_true]
  · intro h1 h2
    simp only [h1, h2, Nat.lt_irrefl, gt_iff_lt, decide_false, Bool.or_self, Bool.false_eq_true, if_false,
      Bool.not_false, Bool.or_true, and_self]

/-- **Size contract, Write side.** Every Write accepts exactly the bytes that still fit the announced size and
    reports ErrNoSpace exactly when it had to refuse a surplus; without an announced size everything is accepted. -/
theorem writes_spec (c : Cfg) (hc : CfgOk c) (M : Matcher σ) (hM : MatcherOk c.w2 M) (m0 : σ)
    (ps : List ByteArray) :
    (run c M (init c m0) (ps.map .write ++ [.close])).1.take ps.length = specWrites c.size 0 ps := by
  obtain ⟨wf, _, _, h3, _⟩ := run_init c hc M hM m0 ps
  rw [h3]
  exact List.take_left' (specWrites_length c.size ps 0)

/-- **Size contract, Close side, and round trip.** Close fails (errSize, nothing usable emitted) exactly when an
    announced size was not reached; otherwise the emitted stream starts with the truthful 13-byte header and the
    classic reader model — whatever dictionary capacity `cfgCap` not above the header's the caller configures —
    decodes it to exactly the accepted bytes with a clean end, consuming every byte, the end marker being present
    exactly as configured. -/
theorem close_spec (c : Cfg) (hc : CfgOk c) (M : Matcher σ) (hM : MatcherOk c.w2 M) (m0 : σ)
    (ps : List ByteArray) (cfgCap : Nat) (hcap : cfgCap ≤ max c.dictCap 4096) :
    let res := run c M (init c m0) (ps.map .write ++ [.close])
    let data := acceptedData c.size 0 ps
    ((match c.size with
      | some sz => data.size ≠ sz
      | none => False) →
      (res.1.drop ps.length = [(0, some .size)] ∧ res.2 = none))
    ∧
    ((match c.size with
      | some sz => data.size = sz
      | none => True) →
      res.1.drop ps.length = [(0, none)] ∧
      ∃ o, res.2 = some o ∧ o.extract 0 13 = Lzma1.headerBytes c.header ∧
        (Lzma1.read cfgCap o).status = .eof ∧ (Lzma1.read cfgCap o).out = data ∧
        (Lzma1.read cfgCap o).consumed = o.size ∧ (Lzma1.read cfgCap o).marker = c.marker ∧
        (Lzma1.read cfgCap o).openError = false) := by
  intro res data
  have _ := hcap   -- not needed: `Lzma1.read_encode_*` hold for every reader capacity
  obtain ⟨wf, hi, hd, h3, h4⟩ := run_init c hc M hM m0 ps
  have hdrop : res.1.drop ps.length = (run c M wf [.close]).1 := by
    show (run c M (init c m0) (ps.map .write ++ [.close])).1.drop ps.length = _
    rw [h3]
    exact List.drop_left' (specWrites_length c.size ps 0)
  have hres2 : res.2 = (run c M wf [.close]).2 := h4
  have hsize : wf.hist.size + wf.look.size = data.size := by
    have := congrArg ByteArray.size hd
    simp only [ByteArray.size_append] at this
    exact this
  rw [hdrop, hres2]
  constructor
  · intro hne
    cases hcs : c.size with
    | none => rw [hcs] at hne; exact absurd hne id
    | some sz =>
      rw [hcs] at hne
      dsimp only at hne
      have := close_size c M wf sz hcs (by rw [hsize]; exact hne)
      rw [run_close_err c M wf _ this]
      exact ⟨rfl, rfl⟩
  · intro heq
    have hsz : ∀ sz, c.size = some sz → wf.hist.size + wf.look.size = sz := by
      intro sz hcs
      rw [hcs] at heq
      dsimp only at heq
      rw [hsize]; exact heq
    obtain ⟨w1, wf', hcl, hi1, hh1⟩ := close_ok c (cfgOk1 hc) M (W2.matcherOk' hM) wf hi hsz
    rw [run_close_ok c M wf wf' _ hcl]
    refine ⟨rfl, _, rfl, encode_extract _ _ _, ?_⟩
    have hdata : w1.hist = data := by rw [hh1, hd]
    have := read_close c hc w1 hi1 cfgCap (by
      intro sz hcs
      rw [hh1, ByteArray.size_append]
      exact hsz sz hcs)
    rw [hdata] at this
    exact this

#print axioms W1.fill_spec
#print axioms W1.writes_spec
#print axioms W1.close_spec

end W1
