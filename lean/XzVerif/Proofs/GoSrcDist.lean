import XzVerif.Gen.GoSrc
import XzVerif.Codec.LzmaDec
import XzVerif.Proofs.GoSrcMisc
import XzVerif.Proofs.GoSrcTreeEnc
import XzVerif.Proofs.GoSrcTreeDec
/-
  Proofs.GoSrcDist — the REGENERATED translation of lzma/distcodec.go (`distCodec.Encode` / `Decode`: position slot from
  `nlz32`, four slot trees selected by the length state, ten reverse trees for slots 4…13, direct bits + the align tree
  from slot 14 on; Go arrays with their bounds checks, a local pointer alias) refines `Lzma.distEnc` / `Lzma.distDec` of
  Codec/Lzma.lean over the flat table (slot tree ls at aDist+64·ls; reverse tree of slot s at aDist+256+posModelOff s;
  align tree at aAlign).  `dist` is the stored value (real distance − 1), any uint32, 0xFFFFFFFF = end marker.
  Statements are fixed; only proofs may change.
-/
namespace GoSrcP
open GoSrc Rc Lzma

/-- bits of the reverse tree of position slot `4 + i` -/
def posModelBits (i : Nat) : Nat := (4 + i) / 2 - 1

/-- the Go distance codec `dc` is the block `[aDist, aDist + 396)` of the model's flat table -/
structure DistRel (dc : T_distCodec) (tbl : Tbl) : Prop where
  inb : aDist + 396 ≤ tbl.size
  ssize : dc.posSlotCodecs.size = 4
  slot : ∀ ls, ls < 4 → ((dc.posSlotCodecs.getD ls default).probTree.bits = 6#8 ∧
           TreeRel (dc.posSlotCodecs.getD ls default).probTree.probs tbl (aDist + ls * 64) 64)
  msize : dc.posModel.size = 10
  model : ∀ i, i < 10 → ((dc.posModel.getD i default).probTree.bits.toNat = posModelBits i ∧
           TreeRel (dc.posModel.getD i default).probTree.probs tbl (aDist + 256 + posModelOff (4 + i)) (2 ^ posModelBits i))
  abits : dc.alignCodec.probTree.bits = 4#8
  align : TreeRel dc.alignCodec.probTree.probs tbl aAlign 16

/-! ### Go arrays -/

private theorem getD_setIfInBounds {α : Type} (a : Array α) (i j : Nat) (x d : α) :
    (a.setIfInBounds i x).getD j d = if i = j ∧ i < a.size then x else a.getD j d := by
  simp only [Array.getD_eq_getD_getElem?, Array.getElem?_setIfInBounds]
  by_cases h : i = j
  · subst h; by_cases h2 : i < a.size <;> simp [h2]
  · simp [h]

/-! ### frames: which part of the flat table a path / a tree can touch -/

/-- `t'` has the size of `t` and agrees with it outside `[lo, hi)` -/
private def Frame (t t' : Tbl) (lo hi : Nat) : Prop :=
  t'.size = t.size ∧ ∀ c, (c < lo ∨ hi ≤ c) → t'.get c = t.get c

private theorem Frame.refl (t : Tbl) (lo hi : Nat) : Frame t t lo hi := ⟨rfl, fun _ _ => rfl⟩

private theorem Frame.trans {t1 t2 t3 : Tbl} {lo hi : Nat} (h1 : Frame t1 t2 lo hi) (h2 : Frame t2 t3 lo hi) :
    Frame t1 t3 lo hi :=
  ⟨h2.1.trans h1.1, fun c hc => (h2.2 c hc).trans (h1.2 c hc)⟩

private theorem Frame.upd (t : Tbl) (a v lo hi : Nat) (h1 : lo ≤ a) (h2 : a < hi) : Frame t (t.upd a v) lo hi := by
  refine ⟨by unfold Tbl.upd; rw [Array.size_setIfInBounds], ?_⟩
  intro c hc
  rw [Tbl.get_upd, if_neg (by omega)]

private def pathIn (lo hi : Nat) (π : Path) : Prop := ∀ a b, (Ask.adaptive a, b) ∈ π → lo ≤ a ∧ a < hi

private theorem encPathL_frame (L lo hi : Nat) : ∀ (π : Path) (t : Tbl) (e : Enc) (t' : Tbl) (e' : Enc),
    pathIn lo hi π → encPathL L t e π = some (t', e') → Frame t t' lo hi := by
  intro π
  induction π with
  | nil =>
    intro t e t' e' _ h
    simp only [encPathL, Option.some.injEq, Prod.mk.injEq] at h
    rw [← h.1]; exact Frame.refl _ _ _
  | cons qb π ih =>
    intro t e t' e' hin h
    obtain ⟨q, b⟩ := qb
    have hin' : pathIn lo hi π := fun a b' hm => hin a b' (List.mem_cons_of_mem _ hm)
    cases q with
    | adaptive a =>
      simp only [encPathL] at h
      split at h
      · cases h
      · have := hin a b (List.mem_cons_self)
        exact (Frame.upd t a _ lo hi this.1 this.2).trans (ih _ _ _ _ hin' h)
    | direct =>
      simp only [encPathL] at h
      split at h
      · cases h
      · exact ih _ _ _ _ hin' h

private theorem encPathL_append (L : Nat) : ∀ (π₁ π₂ : Path) (t : Tbl) (e : Enc),
    encPathL L t e (π₁ ++ π₂) =
      match encPathL L t e π₁ with
      | none => none
      | some (t', e') => encPathL L t' e' π₂ := by
  intro π₁
  induction π₁ with
  | nil => intro π₂ t e; simp only [List.nil_append, encPathL]
  | cons qb π ih =>
    intro π₂ t e
    obtain ⟨q, b⟩ := qb
    cases q with
    | adaptive a =>
      simp only [List.cons_append, encPathL]
      split
      · rfl
      · exact ih _ _ _
    | direct =>
      simp only [List.cons_append, encPathL]
      split
      · rfl
      · exact ih _ _ _

private theorem node_bound (m n N c : Nat) (h : (m + 1) * 2 ^ (n + 1) ≤ 2 * N) (hc : c ≤ 1) :
    m < N ∧ (2 * m + c + 1) * 2 ^ n ≤ 2 * N := by
  have hp : 0 < 2 ^ n := Nat.pow_pos (by decide)
  have h1 : (m + 1) * 2 ^ (n + 1) = 2 * ((m + 1) * 2 ^ n) := by rw [Nat.pow_succ]; ring
  have h2 : m + 1 ≤ (m + 1) * 2 ^ n := Nat.le_mul_of_pos_right _ hp
  have h3 : (2 * m + c + 1) * 2 ^ n ≤ (2 * (m + 1)) * 2 ^ n := Nat.mul_le_mul_right _ (by omega)
  have h4 : (2 * (m + 1)) * 2 ^ n = 2 * ((m + 1) * 2 ^ n) := by ring
  omega

private theorem treeEncGo_in (base v N : Nat) : ∀ (n m : Nat), (m + 1) * 2 ^ n ≤ 2 * N →
    pathIn base (base + N) (treeEncGo base n m v) := by
  intro n
  induction n with
  | zero => intro m _ a b hm; simp only [treeEncGo, List.not_mem_nil] at hm
  | succ n ih =>
    intro m h a b hm
    simp only [treeEncGo, List.mem_cons, Prod.mk.injEq, Ask.adaptive.injEq] at hm
    rcases hm with ⟨rfl, _⟩ | hm
    · have := (node_bound m n N 0 h (by omega)).1; omega
    · refine ih _ ?_ a b hm
      split
      · exact (node_bound m n N 1 h (by omega)).2
      · exact (node_bound m n N 0 h (by omega)).2

private theorem rtreeEncGo_in (base N : Nat) : ∀ (n m v : Nat), (m + 1) * 2 ^ n ≤ 2 * N →
    pathIn base (base + N) (rtreeEncGo base n m v) := by
  intro n
  induction n with
  | zero => intro m v _ a b hm; simp only [rtreeEncGo, List.not_mem_nil] at hm
  | succ n ih =>
    intro m v h a b hm
    simp only [rtreeEncGo, List.mem_cons, Prod.mk.injEq, Ask.adaptive.injEq] at hm
    rcases hm with ⟨rfl, _⟩ | hm
    · have := (node_bound m n N 0 h (by omega)).1; omega
    · refine ih _ _ ?_ a b hm
      unfold bitOf
      split
      · exact (node_bound m n N 1 h (by omega)).2
      · exact (node_bound m n N 0 h (by omega)).2

private theorem treeEnc_in (base bits v : Nat) : pathIn base (base + 2 ^ bits) (treeEnc base bits v) :=
  treeEncGo_in base v _ bits 1 (by omega)

private theorem rtreeEnc_in (base bits v : Nat) : pathIn base (base + 2 ^ bits) (rtreeEnc base bits v) :=
  rtreeEncGo_in base _ bits 1 v (by omega)

/-- decision trees asking only adaptive addresses in `[lo, hi)` -/
private def treeIn {α : Type} (lo hi : Nat) : DecTree α → Prop
  | .ret _ => True
  | .ask q k => (∀ a, q = .adaptive a → lo ≤ a ∧ a < hi) ∧ ∀ b, treeIn lo hi (k b)

private theorem decTree_frame {α : Type} (lo hi : Nat) (t : DecTree α) : ∀ (tbl : Tbl) (d : Rc.Dec) (a : α) (tbl' : Tbl)
    (d' : Rc.Dec), treeIn lo hi t → decTree pm t tbl d = some (a, tbl', d') → Frame tbl tbl' lo hi := by
  induction t with
  | ret a0 =>
    intro tbl d a tbl' d' _ h
    simp only [decTree, Option.some.injEq, Prod.mk.injEq] at h
    rw [← h.2.1]; exact Frame.refl _ _ _
  | ask q k ih =>
    intro tbl d a tbl' d' hin h
    obtain ⟨hq, hk⟩ := hin
    cases q with
    | adaptive c =>
      simp only [decTree] at h
      split at h
      · cases h
      · have := hq c rfl
        exact (Frame.upd tbl c _ lo hi this.1 this.2).trans (ih _ _ _ _ _ _ (hk _) h)
    | direct =>
      simp only [decTree] at h
      split at h
      · cases h
      · exact ih _ _ _ _ _ _ (hk _) h

private theorem treeDecGo_in (base N : Nat) : ∀ (n m : Nat), (m + 1) * 2 ^ n ≤ 2 * N →
    treeIn base (base + N) (treeDecGo base n m) := by
  intro n
  induction n with
  | zero => intro m _; simp only [treeDecGo, treeIn]
  | succ n ih =>
    intro m h
    simp only [treeDecGo, treeIn]
    refine ⟨?_, ?_⟩
    · intro a ha
      simp only [Ask.adaptive.injEq] at ha
      have := (node_bound m n N 0 h (by omega)).1; omega
    · intro b
      apply ih
      split
      · exact (node_bound m n N 1 h (by omega)).2
      · exact (node_bound m n N 0 h (by omega)).2

private theorem rtreeDecGo_in (base N : Nat) : ∀ (n m j v : Nat), (m + 1) * 2 ^ n ≤ 2 * N →
    treeIn base (base + N) (rtreeDecGo base n m j v) := by
  intro n
  induction n with
  | zero => intro m j v _; simp only [rtreeDecGo, treeIn]
  | succ n ih =>
    intro m j v h
    simp only [rtreeDecGo, treeIn]
    refine ⟨?_, ?_⟩
    · intro a ha
      simp only [Ask.adaptive.injEq] at ha
      have := (node_bound m n N 0 h (by omega)).1; omega
    · intro b
      apply ih
      unfold bitOf
      split
      · exact (node_bound m n N 1 h (by omega)).2
      · exact (node_bound m n N 0 h (by omega)).2

private theorem decTree_map {α β : Type} (t : DecTree α) (f : α → β) (tbl : Tbl) (d : Rc.Dec) :
    decTree pm (DecTree.map t f) tbl d =
      match decTree pm t tbl d with
      | none => none
      | some (a, t', d') => some (f a, t', d') := by
  unfold DecTree.map
  rw [decTree_bind]
  cases decTree pm t tbl d with
  | none => rfl
  | some r => obtain ⟨a, t', d'⟩ := r; simp only [decTree]

/-! ### the layout of the distance block -/

private theorem TreeRel.frame {probs : Array (BitVec 16)} {tbl tbl' : Tbl} {base n lo hi : Nat}
    (tr : TreeRel probs tbl base n) (fr : Frame tbl tbl' lo hi) (hd : base + n ≤ lo ∨ hi ≤ base) :
    TreeRel probs tbl' base n := by
  obtain ⟨hs, hi', hv⟩ := tr
  refine ⟨hs, by rw [fr.1]; exact hi', ?_⟩
  intro m hm
  rw [hv m hm, fr.2 _ (by omega)]

private theorem model_layout : ∀ i, i < 10 → (1 ≤ posModelBits i ∧ posModelBits i ≤ 5 ∧
    posModelOff (4 + i) + 2 ^ posModelBits i ≤ 124 ∧
    ∀ j, j < 10 → i < j → posModelOff (4 + i) + 2 ^ posModelBits i ≤ posModelOff (4 + j)) := by
  decide

private theorem DistRel.upd_slot {dc : T_distCodec} {tbl tbl' : Tbl} (dr : DistRel dc tbl) (ls : Nat) (hls : ls < 4)
    (tc' : T_treeCodec) (fr : Frame tbl tbl' (aDist + ls * 64) (aDist + ls * 64 + 64))
    (hb : tc'.probTree.bits = 6#8) (tr : TreeRel tc'.probTree.probs tbl' (aDist + ls * 64) 64) :
    DistRel { dc with posSlotCodecs := dc.posSlotCodecs.setIfInBounds ls tc' } tbl' := by
  have hA : aAlign = aDist + 380 := rfl
  refine ⟨by rw [fr.1]; exact dr.inb, by simp only [Array.size_setIfInBounds]; exact dr.ssize, ?_, dr.msize, ?_,
    dr.abits, dr.align.frame fr (by omega)⟩
  · intro ls' hls'
    simp only [getD_setIfInBounds, dr.ssize]
    by_cases h : ls = ls'
    · subst h
      rw [if_pos ⟨rfl, hls⟩]
      exact ⟨hb, tr⟩
    · rw [if_neg (fun hh => h hh.1)]
      exact ⟨(dr.slot ls' hls').1, (dr.slot ls' hls').2.frame fr (by omega)⟩
  · intro i hi
    have := model_layout i hi
    exact ⟨(dr.model i hi).1, (dr.model i hi).2.frame fr (by omega)⟩

private theorem DistRel.upd_model {dc : T_distCodec} {tbl tbl' : Tbl} (dr : DistRel dc tbl) (i : Nat) (hi : i < 10)
    (tc' : T_treeReverseCodec)
    (fr : Frame tbl tbl' (aDist + 256 + posModelOff (4 + i)) (aDist + 256 + posModelOff (4 + i) + 2 ^ posModelBits i))
    (hb : tc'.probTree.bits.toNat = posModelBits i)
    (tr : TreeRel tc'.probTree.probs tbl' (aDist + 256 + posModelOff (4 + i)) (2 ^ posModelBits i)) :
    DistRel { dc with posModel := dc.posModel.setIfInBounds i tc' } tbl' := by
  have hA : aAlign = aDist + 380 := rfl
  have hl := model_layout i hi
  refine ⟨by rw [fr.1]; exact dr.inb, dr.ssize, ?_, by simp only [Array.size_setIfInBounds]; exact dr.msize, ?_,
    dr.abits, dr.align.frame fr (by omega)⟩
  · intro ls hls
    exact ⟨(dr.slot ls hls).1, (dr.slot ls hls).2.frame fr (by omega)⟩
  · intro j hj
    simp only [getD_setIfInBounds, dr.msize]
    by_cases h : i = j
    · subst h
      rw [if_pos ⟨rfl, hi⟩]
      exact ⟨hb, tr⟩
    · rw [if_neg (fun hh => h hh.1)]
      refine ⟨(dr.model j hj).1, (dr.model j hj).2.frame fr ?_⟩
      have hl' := model_layout j hj
      rcases Nat.lt_or_gt_of_ne h with h1 | h1
      · have := hl.2.2.2 j hj h1; omega
      · have := hl'.2.2.2 i hi h1; omega

private theorem DistRel.upd_align {dc : T_distCodec} {tbl tbl' : Tbl} (dr : DistRel dc tbl)
    (tc' : T_treeReverseCodec) (fr : Frame tbl tbl' aAlign (aAlign + 16))
    (hb : tc'.probTree.bits = 4#8) (tr : TreeRel tc'.probTree.probs tbl' aAlign 16) :
    DistRel { dc with alignCodec := tc' } tbl' := by
  have hA : aAlign = aDist + 380 := rfl
  refine ⟨by rw [fr.1]; exact dr.inb, dr.ssize, ?_, dr.msize, ?_, hb, tr⟩
  · intro ls hls
    exact ⟨(dr.slot ls hls).1, (dr.slot ls hls).2.frame fr (by omega)⟩
  · intro i hi
    have := model_layout i hi
    exact ⟨(dr.model i hi).1, (dr.model i hi).2.frame fr (by omega)⟩

/-! ### the paths depend on the value modulo `2 ^ bits` only -/

private theorem rtreeEncGo_mod (base : Nat) : ∀ (n m v : Nat), rtreeEncGo base n m (v % 2 ^ n) = rtreeEncGo base n m v := by
  intro n
  induction n with
  | zero => intro m v; simp only [rtreeEncGo]
  | succ n ih =>
    intro m v
    have h1 : v % 2 ^ (n + 1) % 2 = v % 2 := by
      rw [Nat.pow_succ']; exact Nat.mod_mul_right_mod _ _ _
    have h2 : v % 2 ^ (n + 1) / 2 = v / 2 % 2 ^ n := by
      rw [Nat.pow_succ']; exact Nat.mod_mul_right_div_self _ _ _
    simp only [rtreeEncGo, h1, h2, ih]

private theorem directEnc_mod (v : Nat) : ∀ (n k : Nat), n ≤ k → directEnc n (v % 2 ^ k) = directEnc n v := by
  intro n
  induction n with
  | zero => intro k _; simp only [directEnc]
  | succ n ih =>
    intro k hk
    have h1 : v % 2 ^ k / 2 ^ n % 2 = v / 2 ^ n % 2 := by
      obtain ⟨j, rfl⟩ : ∃ j, k = n + (j + 1) := ⟨k - n - 1, by omega⟩
      rw [Nat.pow_add, Nat.mod_mul_right_div_self, Nat.pow_succ']
      exact Nat.mod_mul_right_mod _ _ _
    simp only [directEnc, h1, ih k (by omega)]

/-! ### distCodec.Encode -/

/-- the part of `distCodec.Encode` that the two branches of the translation share -/
private def encTail (fuel : Nat) (dc : T_distCodec) (e : T_rangeEncoder) (dist l posSlot bits : BitVec 32) :
    Go.Res (Go.Err × T_distCodec × T_rangeEncoder) :=
  let i_18 := (GoSrc.lenState l).toNat
  if dc.posSlotCodecs.size ≤ i_18 then Go.Res.panic "index out of range" else
  Go.Res.bind (GoSrc.treeCodec_Encode fuel (dc.posSlotCodecs.getD i_18 (default : GoSrc.T_treeCodec)) e posSlot) (fun (r_19, m_20, m_21) =>
  let dc := { dc with posSlotCodecs := (dc.posSlotCodecs.setIfInBounds i_18 m_20) }
  let e := m_21
  let err := r_19
  if (err != Go.Err.nil) then
    Go.Res.ok (err, dc, e)
  else
    if (BitVec.ult posSlot (4#32)) then
      Go.Res.ok (Go.Err.nil, dc, e)
    else
      if (BitVec.ult posSlot (14#32)) then
        let i_22 := ((posSlot - (4#32))).toNat
        if dc.posModel.size ≤ i_22 then Go.Res.panic "index out of range" else
        let i_23 := ((posSlot - (4#32))).toNat
        if dc.posModel.size ≤ i_23 then Go.Res.panic "index out of range" else
        Go.Res.bind (GoSrc.treeReverseCodec_Encode fuel (dc.posModel.getD i_23 (default : GoSrc.T_treeReverseCodec)) dist e) (fun (r_24, m_25, m_26) =>
        let dc := { dc with posModel := (dc.posModel.setIfInBounds i_23 m_25) }
        let e := m_26
        Go.Res.ok (r_24, dc, e))
      else
        let dic : (BitVec 8) := (BitVec.setWidth 8 (bits - (4#32)))
        Go.Res.bind (GoSrc.directCodec_Encode fuel dic e (BitVec.ushiftRight dist 4)) (fun (r_27, m_28) =>
        let e := m_28
        let err := r_27
        if (err != Go.Err.nil) then
          Go.Res.ok (err, dc, e)
        else
          Go.Res.bind (GoSrc.treeReverseCodec_Encode fuel dc.alignCodec dist e) (fun (r_29, m_30, m_31) =>
          let dc := { dc with alignCodec := m_30 }
          let e := m_31
          Go.Res.ok (r_29, dc, e))))

private theorem distCodec_Encode_eq (fuel : Nat) (dc : T_distCodec) (e : T_rangeEncoder) (dist l : BitVec 32) :
    distCodec_Encode fuel dc e dist l =
      if BitVec.ult dist (4#32) then encTail fuel dc e dist l dist (0#32)
      else Go.Res.bind (GoSrc.nlz32 dist) (fun r_16 =>
        encTail fuel dc e dist l
          (((2#32) + (BitVec.shiftLeft (BitVec.setWidth 32 ((30#64) - r_16)) 1))
            + ((BitVec.ushiftRight dist ((BitVec.setWidth 64 (BitVec.setWidth 32 ((30#64) - r_16)))).toNat) &&& (1#32)))
          (BitVec.setWidth 32 ((30#64) - r_16))) := rfl

private theorem ult_lit (x : BitVec 32) (n : Nat) (hn : n < 2 ^ 32) :
    BitVec.ult x (BitVec.ofNat 32 n) = decide (x.toNat < n) := by
  rw [BitVec.ult_eq_decide, BitVec.toNat_ofNat, Nat.mod_eq_of_lt hn]

private theorem lenState_lt (n : Nat) : Lzma.lenState n < 4 := by
  unfold Lzma.lenState; split <;> omega

private theorem encTail_refines (fuel : Nat) (dc : T_distCodec) (g : T_rangeEncoder) (e : Enc) (Lim : Nat)
    (dist l posSlot bits : BitVec 32) (tbl : Tbl)
    (rel : EncRel g e Lim) (rest : e.Rest) (htbl : tbl.ok) (dr : DistRel dc tbl)
    (hcl : e.cacheLen + 300 < 2 ^ 62) (hL : Lim < 2 ^ 63) (hfuel : e.cacheLen + 300 ≤ fuel)
    (hslot : posSlot.toNat = Lzma.posSlot dist.toNat) (hs64 : posSlot.toNat < 64)
    (hbits : 4 ≤ posSlot.toNat → bits.toNat = posSlot.toNat / 2 - 1) :
    match encPathL Lim tbl e (distEnc dist.toNat l.toNat) with
    | none => ∃ dc' g', encTail fuel dc g dist l posSlot bits = Go.Res.ok (Go.Err.named "ErrLimit", dc', g')
    | some (tbl', e') =>
      ∃ dc' g', encTail fuel dc g dist l posSlot bits = Go.Res.ok (Go.Err.nil, dc', g')
        ∧ EncRel g' e' Lim ∧ e'.Rest ∧ tbl'.ok ∧ e'.cacheLen ≤ e.cacheLen + 40 ∧ DistRel dc' tbl' := by
  have happ : distEnc dist.toNat l.toNat = treeEnc (aDist + Lzma.lenState l.toNat * 64) 6 posSlot.toNat ++
      (if posSlot.toNat < 4 then [] else
        if posSlot.toNat < 14 then
          rtreeEnc (aDist + 256 + posModelOff posSlot.toNat) (posSlot.toNat / 2 - 1)
            (dist.toNat % 2 ^ (posSlot.toNat / 2 - 1))
        else directEnc (posSlot.toNat / 2 - 1 - 4) ((dist.toNat % 2 ^ (posSlot.toNat / 2 - 1)) / 16)
              ++ rtreeEnc aAlign 4 (dist.toNat % 16)) := by
    unfold distEnc
    simp only [← hslot]
    split
    · rw [List.append_nil]
    · split
      · rfl
      · rw [List.append_assoc]
  have hls : (GoSrc.lenState l).toNat = Lzma.lenState l.toNat := lenState_spec l
  have hls4 := lenState_lt l.toNat
  rw [happ, encPathL_append]
  unfold encTail
  rw [← hls] at hls4 ⊢
  generalize (GoSrc.lenState l).toNat = ls at hls4 ⊢
  clear happ hls hslot
  generalize hS : posSlot.toNat = S at *
  obtain ⟨hb0, tr0⟩ := dr.slot ls hls4
  have hsz : ¬ dc.posSlotCodecs.size ≤ ls := by rw [dr.ssize]; omega
  have h0 := treeCodec_Encode_refines fuel (dc.posSlotCodecs.getD ls default) g e Lim posSlot tbl
    (aDist + ls * 64) 6 rel rest htbl (by omega) (by omega) (by rw [hb0]; rfl) tr0 (by omega) hL (by omega)
  rw [hS] at h0
  rcases hp : encPathL Lim tbl e (treeEnc (aDist + ls * 64) 6 S) with _ | ⟨tbl1, e1⟩
  · rw [hp] at h0
    obtain ⟨tc', g', hg⟩ := h0
    simp only [hsz, if_false, hg, Go.Res.bind_ok, errLimit_bne, if_true]
    exact ⟨_, _, rfl⟩
  · rw [hp] at h0
    obtain ⟨tc1, g1, hg1, rel1, rest1, htbl1, hcl1, hb1, tr1⟩ := h0
    have fr1 := encPathL_frame Lim _ _ _ _ _ _ _ (treeEnc_in (aDist + ls * 64) 6 S) hp
    have dr1 := dr.upd_slot ls hls4 tc1 fr1 (hb1.trans hb0) tr1
    have hu4 : BitVec.ult posSlot (4#32) = decide (S < 4) := by rw [ult_lit _ _ (by decide), hS]
    have hu14 : BitVec.ult posSlot (14#32) = decide (S < 14) := by rw [ult_lit _ _ (by decide), hS]
    simp only [hsz, if_false, hg1, Go.Res.bind_ok, bne_self_eq_false, Bool.false_eq_true, hu4, hu14]
    by_cases h4 : S < 4
    · simp only [h4, decide_true, if_true, encPathL]
      exact ⟨_, _, rfl, rel1, rest1, htbl1, by omega, dr1⟩
    · have hB := hbits (by omega)
      have hi : (posSlot - 4#32).toNat = S - 4 := by
        rw [BitVec.toNat_sub, hS]; simp only [BitVec.toNat_ofNat]; omega
      by_cases h14 : S < 14
      · have hmsz : ¬ dc.posModel.size ≤ S - 4 := by rw [dr.msize]; omega
        simp only [h4, h14, decide_true, decide_false, if_true, if_false, Bool.false_eq_true, hi, hmsz]
        have e1' : 4 + (S - 4) = S := by omega
        have e2' : posModelBits (S - 4) = S / 2 - 1 := by unfold posModelBits; rw [e1']
        have hl := model_layout (S - 4) (by omega)
        have hm := dr1.model (S - 4) (by omega)
        dsimp only at hm
        rw [e1', e2'] at hm
        rw [e2'] at hl
        have h1 := treeReverseCodec_Encode_refines fuel (dc.posModel.getD (S - 4) default) g1 e1 Lim dist tbl1
          (aDist + 256 + posModelOff S) (S / 2 - 1) rel1 rest1 htbl1 hl.1 (by omega) hm.1 hm.2 (by omega) hL (by omega)
        have hpe : rtreeEnc (aDist + 256 + posModelOff S) (S / 2 - 1) (dist.toNat % 2 ^ (S / 2 - 1))
            = rtreeEnc (aDist + 256 + posModelOff S) (S / 2 - 1) dist.toNat := rtreeEncGo_mod _ _ _ _
        rw [hpe]
        rcases hp2 : encPathL Lim tbl1 e1 (rtreeEnc (aDist + 256 + posModelOff S) (S / 2 - 1) dist.toNat)
          with _ | ⟨tbl2, e2⟩
        · rw [hp2] at h1
          obtain ⟨tc', g', hg⟩ := h1
          simp only [hg, Go.Res.bind_ok]
          exact ⟨_, _, rfl⟩
        · rw [hp2] at h1
          obtain ⟨tc2, g2, hg2, rel2, rest2, htbl2, hcl2, hb2, tr2⟩ := h1
          have fr2 := encPathL_frame Lim _ _ _ _ _ _ _ (rtreeEnc_in (aDist + 256 + posModelOff S) (S / 2 - 1) dist.toNat) hp2
          have dr2 := dr1.upd_model (S - 4) (by omega) tc2 (by rw [e1', e2']; exact fr2)
            (by rw [e2', hb2]; exact hm.1) (by rw [e1', e2']; exact tr2)
          simp only [hg2, Go.Res.bind_ok]
          exact ⟨_, _, rfl, rel2, rest2, htbl2, by omega, dr2⟩
      · simp only [h4, h14, decide_false, if_false, Bool.false_eq_true]
        have hdic : (BitVec.setWidth 8 (bits - 4#32)).toNat = S / 2 - 1 - 4 := by
          rw [BitVec.toNat_setWidth, BitVec.toNat_sub, hB]; simp only [BitVec.toNat_ofNat]; omega
        have hsh : (BitVec.ushiftRight dist 4).toNat = dist.toNat / 16 := by
          rw [BitVec.ushiftRight_eq, BitVec.toNat_ushiftRight, Nat.shiftRight_eq_div_pow]
        have h1 := directCodec_Encode_refines fuel (BitVec.setWidth 8 (bits - 4#32)) g1 e1 Lim (BitVec.ushiftRight dist 4)
          tbl1 rel1 rest1 (by omega) (by omega) hL (by omega)
        rw [hdic, hsh] at h1
        have hpe : directEnc (S / 2 - 1 - 4) (dist.toNat % 2 ^ (S / 2 - 1) / 16)
            = directEnc (S / 2 - 1 - 4) (dist.toNat / 16) := by
          have hpw : 2 ^ (S / 2 - 1) = 16 * 2 ^ (S / 2 - 1 - 4) := by
            have : S / 2 - 1 = 4 + (S / 2 - 1 - 4) := by omega
            rw [this, Nat.pow_add]; simp only [Nat.add_sub_cancel_left]
          rw [hpw, Nat.mod_mul_right_div_self]
          exact directEnc_mod _ _ _ (Nat.le_refl _)
        have hpa : rtreeEnc aAlign 4 (dist.toNat % 16) = rtreeEnc aAlign 4 dist.toNat := rtreeEncGo_mod aAlign 4 1 dist.toNat
        rw [encPathL_append, hpe, hpa]
        rcases hp2 : encPathL Lim tbl1 e1 (directEnc (S / 2 - 1 - 4) (dist.toNat / 16)) with _ | ⟨tbl2, e2⟩
        · rw [hp2] at h1
          obtain ⟨g', hg⟩ := h1
          simp only [hg, Go.Res.bind_ok, errLimit_bne, if_true]
          exact ⟨_, _, rfl⟩
        · rw [hp2] at h1
          obtain ⟨g2, hg2, rfl, rel2, rest2, hcl2⟩ := h1
          have ha := dr1.align
          have hab := dr1.abits
          dsimp only at ha hab
          have h2 := treeReverseCodec_Encode_refines fuel dc.alignCodec g2 e2 Lim dist tbl2 aAlign 4 rel2 rest2 htbl1
            (by omega) (by omega) (by rw [hab]; rfl) ha (by omega) hL (by omega)
          simp only [hg2, Go.Res.bind_ok, bne_self_eq_false, Bool.false_eq_true, if_false]
          rcases hp3 : encPathL Lim tbl2 e2 (rtreeEnc aAlign 4 dist.toNat) with _ | ⟨tbl3, e3⟩
          · rw [hp3] at h2
            obtain ⟨tc', g', hg⟩ := h2
            simp only [hg, Go.Res.bind_ok]
            exact ⟨_, _, rfl⟩
          · rw [hp3] at h2
            obtain ⟨tc3, g3, hg3, rel3, rest3, htbl3, hcl3, hb3, tr3⟩ := h2
            have fr3 := encPathL_frame Lim _ _ _ _ _ _ _ (rtreeEnc_in aAlign 4 dist.toNat) hp3
            have dr3 := dr1.upd_align tc3 fr3 (hb3.trans hab) tr3
            simp only [hg3, Go.Res.bind_ok]
            exact ⟨_, _, rfl, rel3, rest3, htbl3, by omega, dr3⟩

theorem distCodec_Encode_refines (fuel : Nat) (dc : T_distCodec) (g : T_rangeEncoder) (e : Enc) (Lim : Nat)
    (dist l : BitVec 32) (tbl : Tbl)
    (rel : EncRel g e Lim) (rest : e.Rest) (htbl : tbl.ok) (dr : DistRel dc tbl)
    (hcl : e.cacheLen + 300 < 2 ^ 62) (hL : Lim < 2 ^ 63) (hfuel : e.cacheLen + 300 ≤ fuel) :
    match encPathL Lim tbl e (distEnc dist.toNat l.toNat) with
    | none => ∃ dc' g', distCodec_Encode fuel dc g dist l = Go.Res.ok (Go.Err.named "ErrLimit", dc', g')
    | some (tbl', e') =>
      ∃ dc' g', distCodec_Encode fuel dc g dist l = Go.Res.ok (Go.Err.nil, dc', g')
        ∧ EncRel g' e' Lim ∧ e'.Rest ∧ tbl'.ok ∧ e'.cacheLen ≤ e.cacheLen + 40 ∧ DistRel dc' tbl' := by
  rw [distCodec_Encode_eq]
  by_cases h4 : dist.toNat < 4
  · have hu : BitVec.ult dist (4#32) = true := by rw [ult_lit _ _ (by decide)]; exact decide_eq_true h4
    rw [hu, if_pos rfl]
    exact encTail_refines fuel dc g e Lim dist l dist (0#32) tbl rel rest htbl dr hcl hL hfuel
      (by unfold Lzma.posSlot; rw [if_pos h4]) (by omega) (fun h => by omega)
  · have hu : BitVec.ult dist (4#32) = false := by rw [ult_lit _ _ (by decide)]; exact decide_eq_false h4
    obtain ⟨n, hn, hb⟩ := nlz32_posSlot_bits dist (by omega)
    rw [hu, if_neg (by decide), hn, Go.Res.bind_ok]
    have hne : dist.toNat ≠ 0 := by omega
    have hk1 : Nat.log2 dist.toNat < 32 := (Nat.log2_lt hne).2 dist.isLt
    have hk2 : ¬ Nat.log2 dist.toNat < 2 := by rw [Nat.log2_lt hne]; omega
    have hps : Lzma.posSlot dist.toNat
        = 2 * (Lzma.log2 dist.toNat - 1 + 1) + dist.toNat / 2 ^ (Lzma.log2 dist.toNat - 1) % 2 := by
      unfold Lzma.posSlot; rw [if_neg h4]
    unfold Lzma.log2 at hps hb
    generalize Nat.log2 dist.toNat = k at *
    generalize BitVec.setWidth 32 (30#64 - n) = bits at *
    have hw : (BitVec.setWidth 64 bits).toNat = k - 1 := by rw [BitVec.toNat_setWidth, hb]; omega
    have hpar : dist.toNat / 2 ^ (k - 1) % 2 < 2 := Nat.mod_lt _ (by decide)
    have hslot : ((2#32) + (BitVec.shiftLeft bits 1) + ((BitVec.ushiftRight dist (k - 1)) &&& (1#32))).toNat
        = 2 * (k - 1 + 1) + dist.toNat / 2 ^ (k - 1) % 2 := by
      rw [BitVec.toNat_add, BitVec.toNat_add, (bit_facts dist (k - 1)).2, BitVec.shiftLeft_eq, BitVec.toNat_shiftLeft,
        Nat.shiftLeft_eq, hb]
      simp only [BitVec.toNat_ofNat]
      omega
    rw [hw]
    exact encTail_refines fuel dc g e Lim dist l _ bits tbl rel rest htbl dr hcl hL hfuel
      (by rw [hslot, hps]) (by rw [hslot]; omega) (fun _ => by rw [hslot, hb]; omega)

/-! ### distCodec.Decode -/

private theorem eof_bne : (Go.Err.named "io.EOF" != Go.Err.nil) = true := by decide

private theorem treeIn_bind {α β : Type} (lo hi : Nat) (t : DecTree α) (f : α → DecTree β)
    (ht : treeIn lo hi t) (hf : ∀ a, treeIn lo hi (f a)) : treeIn lo hi (t.bind f) := by
  induction t with
  | ret a => simp only [DecTree.bind]; exact hf a
  | ask q k ih =>
    simp only [DecTree.bind, treeIn] at ht ⊢
    exact ⟨ht.1, fun b => ih b (ht.2 b)⟩

private theorem treeDec_in (base bits : Nat) : treeIn base (base + 2 ^ bits) (treeDec base bits) := by
  unfold treeDec DecTree.map
  exact treeIn_bind _ _ _ _ (treeDecGo_in base _ bits 1 (by omega)) (fun _ => trivial)

private theorem rtreeDec_in (base bits : Nat) : treeIn base (base + 2 ^ bits) (rtreeDec base bits) :=
  rtreeDecGo_in base _ bits 1 0 0 (by omega)

private theorem dec_bv_facts : ∀ s, s < 64 → 4 ≤ s →
    ((BitVec.ushiftRight (BitVec.ofNat 32 s) 1) - 1#32).toNat = s / 2 - 1 ∧
    (BitVec.shiftLeft (2#32 ||| (BitVec.ofNat 32 s &&& 1#32)) (s / 2 - 1)).toNat = (2 + s % 2) * 2 ^ (s / 2 - 1) ∧
    (BitVec.ofNat 32 s - 4#32).toNat = s - 4 ∧
    (2 + s % 2) * 2 ^ (s / 2 - 1) + 2 ^ (s / 2 - 1) ≤ 2 ^ 32 ∧
    (14 ≤ s →
      (BitVec.setWidth 8 ((BitVec.ushiftRight (BitVec.ofNat 32 s) 1) - 1#32 - 4#32)).toNat = s / 2 - 1 - 4 ∧
      2 ^ (s / 2 - 1) = 2 ^ (s / 2 - 1 - 4) * 16) := by
  decide +kernel

theorem distCodec_Decode_refines (fuel : Nat) (dc : T_distCodec) (g : T_rangeDecoder) (d : Rc.Dec)
    (l : BitVec 32) (tbl : Tbl)
    (rel : DecRel g d) (inv : DecInv d) (htbl : tbl.ok) (dr : DistRel dc tbl) (hfuel : 80 ≤ fuel) :
    match decTree pm (distDec l.toNat) tbl d with
    | none => ∃ v dc' g', distCodec_Decode fuel dc g l = Go.Res.ok (v, Go.Err.named "io.EOF", dc', g')
    | some (v, tbl', d') =>
      ∃ dc' g', distCodec_Decode fuel dc g l = Go.Res.ok (BitVec.ofNat 32 v, Go.Err.nil, dc', g')
        ∧ DecRel g' d' ∧ DecInv d' ∧ tbl'.ok ∧ v < 2 ^ 32 ∧ DistRel dc' tbl' := by
  have hls : (GoSrc.lenState l).toNat = Lzma.lenState l.toNat := lenState_spec l
  have hls4 := lenState_lt l.toNat
  unfold distDec distCodec_Decode
  dsimp only
  rw [decTree_bind]
  rw [← hls] at hls4 ⊢
  generalize (GoSrc.lenState l).toNat = ls at hls4 ⊢
  clear hls
  obtain ⟨hb0, tr0⟩ := dr.slot ls hls4
  have hsz : ¬ dc.posSlotCodecs.size ≤ ls := by rw [dr.ssize]; omega
  have h0 := treeCodec_Decode_refines fuel (dc.posSlotCodecs.getD ls default) g d tbl
    (aDist + ls * 64) 6 rel inv htbl (by omega) (by omega) (by rw [hb0]; rfl) tr0 (by omega)
  rcases hp : decTree pm (treeDec (aDist + ls * 64) 6) tbl d with _ | ⟨slot, tbl1, d1⟩
  · rw [hp] at h0
    obtain ⟨v, tc', g', hg⟩ := h0
    simp only [hsz, if_false, hg, Go.Res.bind_ok, eof_bne, if_true]
    exact ⟨_, _, _, rfl⟩
  · rw [hp] at h0
    obtain ⟨tc1, g1, hg1, rel1, inv1, htbl1, hs64, hb1, tr1⟩ := h0
    have fr1 := decTree_frame _ _ _ _ _ _ _ _ (treeDec_in (aDist + ls * 64) 6) hp
    have dr1 := dr.upd_slot ls hls4 tc1 fr1 (hb1.trans hb0) tr1
    have hs64' : slot < 64 := hs64
    have hu4 : BitVec.ult (BitVec.ofNat 32 slot) (4#32) = decide (slot < 4) := by
      rw [ult_lit _ _ (by decide), BitVec.toNat_ofNat, Nat.mod_eq_of_lt (by omega)]
    have hu14 : BitVec.ult (BitVec.ofNat 32 slot) (14#32) = decide (slot < 14) := by
      rw [ult_lit _ _ (by decide), BitVec.toNat_ofNat, Nat.mod_eq_of_lt (by omega)]
    simp only [hsz, if_false, hg1, Go.Res.bind_ok, bne_self_eq_false, Bool.false_eq_true, hu4, hu14]
    by_cases h4 : slot < 4
    · simp only [h4, decide_true, if_true, decTree]
      exact ⟨_, _, rfl, rel1, inv1, htbl1, by omega, dr1⟩
    · obtain ⟨f1, f2, f3, f4, f5⟩ := dec_bv_facts slot hs64' (by omega)
      simp only [h4, decide_false, if_false, Bool.false_eq_true, f1, f3]
      by_cases h14 : slot < 14
      · have hmsz : ¬ dc.posModel.size ≤ slot - 4 := by rw [dr.msize]; omega
        simp only [h14, decide_true, if_true, hmsz, if_false]
        rw [decTree_map]
        have e1' : 4 + (slot - 4) = slot := by omega
        have e2' : posModelBits (slot - 4) = slot / 2 - 1 := by unfold posModelBits; rw [e1']
        have hl := model_layout (slot - 4) (by omega)
        have hm := dr1.model (slot - 4) (by omega)
        dsimp only at hm
        rw [e1', e2'] at hm
        rw [e2'] at hl
        have h1 := treeReverseCodec_Decode_refines fuel (dc.posModel.getD (slot - 4) default) g1 d1 tbl1
          (aDist + 256 + posModelOff slot) (slot / 2 - 1) rel1 inv1 htbl1 hl.1 (by omega) hm.1 hm.2 (by omega)
        rcases hp2 : decTree pm (rtreeDec (aDist + 256 + posModelOff slot) (slot / 2 - 1)) tbl1 d1
          with _ | ⟨u, tbl2, d2⟩
        · rw [hp2] at h1
          obtain ⟨v, tc', g', hg⟩ := h1
          simp only [hg, Go.Res.bind_ok, eof_bne, if_true]
          exact ⟨_, _, _, rfl⟩
        · rw [hp2] at h1
          obtain ⟨tc2, g2, hg2, rel2, inv2, htbl2, hu, hb2, tr2⟩ := h1
          have fr2 := decTree_frame _ _ _ _ _ _ _ _ (rtreeDec_in (aDist + 256 + posModelOff slot) (slot / 2 - 1)) hp2
          have dr2 := dr1.upd_model (slot - 4) (by omega) tc2 (by rw [e1', e2']; exact fr2)
            (by rw [e2', hb2]; exact hm.1) (by rw [e1', e2']; exact tr2)
          simp only [hg2, Go.Res.bind_ok, bne_self_eq_false, Bool.false_eq_true, if_false]
          refine ⟨_, _, congrArg Go.Res.ok (Prod.ext ?_ rfl), rel2, inv2, htbl2, by omega, dr2⟩
          dsimp only
          apply BitVec.eq_of_toNat_eq
          rw [BitVec.toNat_add, f2]
          simp only [BitVec.toNat_ofNat]
          omega
      · obtain ⟨f6, f7⟩ := f5 (by omega)
        simp only [h14, decide_false, if_false, Bool.false_eq_true]
        rw [decTree_bind]
        have h1 := directCodec_Decode_refines fuel
          (BitVec.setWidth 8 ((BitVec.ushiftRight (BitVec.ofNat 32 slot) 1) - 1#32 - 4#32)) g1 d1 tbl1 rel1 inv1
          (by omega) (by omega)
        rw [f6] at h1
        rcases hp2 : decTree pm (directDec (slot / 2 - 1 - 4)) tbl1 d1 with _ | ⟨u, tbl2, d2⟩
        · rw [hp2] at h1
          obtain ⟨v, g', hg⟩ := h1
          simp only [hg, Go.Res.bind_ok, eof_bne, if_true]
          exact ⟨_, _, _, rfl⟩
        · rw [hp2] at h1
          obtain ⟨g2, hg2, rfl, rel2, inv2, hu⟩ := h1
          have ha := dr1.align
          have hab := dr1.abits
          dsimp only at ha hab
          have h2 := treeReverseCodec_Decode_refines fuel dc.alignCodec g2 d2 tbl2 aAlign 4 rel2 inv2 htbl1
            (by omega) (by omega) (by rw [hab]; rfl) ha (by omega)
          simp only [hg2, Go.Res.bind_ok, bne_self_eq_false, Bool.false_eq_true, if_false]
          rw [decTree_map]
          rcases hp3 : decTree pm (rtreeDec aAlign 4) tbl2 d2 with _ | ⟨a, tbl3, d3⟩
          · rw [hp3] at h2
            obtain ⟨v, tc', g', hg⟩ := h2
            simp only [hg, Go.Res.bind_ok, eof_bne, if_true]
            exact ⟨_, _, _, rfl⟩
          · rw [hp3] at h2
            obtain ⟨tc3, g3, hg3, rel3, inv3, htbl3, ha16, hb3, tr3⟩ := h2
            have fr3 := decTree_frame _ _ _ _ _ _ _ _ (rtreeDec_in aAlign 4) hp3
            have dr3 := dr1.upd_align tc3 fr3 (hb3.trans hab) tr3
            simp only [hg3, Go.Res.bind_ok, bne_self_eq_false, Bool.false_eq_true, if_false]
            refine ⟨_, _, congrArg Go.Res.ok (Prod.ext ?_ rfl), rel3, inv3, htbl3, by omega, dr3⟩
            dsimp only
            apply BitVec.eq_of_toNat_eq
            rw [BitVec.toNat_add, BitVec.toNat_add, f2, BitVec.shiftLeft_eq, BitVec.toNat_shiftLeft, Nat.shiftLeft_eq]
            simp only [BitVec.toNat_ofNat]
            omega

end GoSrcP
