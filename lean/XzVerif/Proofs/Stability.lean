import XzVerif.Codec.LzmaDec
import XzVerif.Proofs.Segment

/-!
  Extension stability ("lockstep") of the range decoder and of the operation loop: a decoder run on an input `l`
  and the same decoder run on `l ++ x` make the same decisions for as long as the shorter run does not run out of
  bytes.  Consequently the run on the shorter input either *is* the run on the longer input (with `x` left over),
  or it ends with `unexpectedEOF` and has produced a prefix of what the longer run produces.
-/

namespace Rc

def Dec.ext (d : Dec) (x : List Nat) : Dec := { d with inp := d.inp ++ x }

@[simp] theorem Dec.ext_range (d : Dec) (x : List Nat) : (d.ext x).range = d.range := rfl
@[simp] theorem Dec.ext_code (d : Dec) (x : List Nat) : (d.ext x).code = d.code := rfl
@[simp] theorem Dec.ext_inp (d : Dec) (x : List Nat) : (d.ext x).inp = d.inp ++ x := rfl

theorem Dec.norm_ext (d d' : Dec) (x : List Nat) (h : d.norm = some d') : (d.ext x).norm = some (d'.ext x) := by
  obtain ⟨range, code, inp⟩ := d
  show Dec.norm ⟨range, code, inp ++ x⟩ = _
  unfold Dec.norm at h ⊢
  dsimp only at h ⊢
  by_cases hr : range < 2 ^ 24
  · rw [if_pos hr] at h ⊢
    cases inp with
    | nil => simp at h
    | cons a r =>
      simp only [Option.some.injEq] at h
      subst h
      rfl
  · rw [if_neg hr] at h ⊢
    simp only [Option.some.injEq] at h
    subst h
    rfl

theorem Dec.step_ext (d : Dec) (p : Option Nat) (b : Bool) (d' : Dec) (x : List Nat)
    (h : d.step p = some (b, d')) : (d.ext x).step p = some (b, d'.ext x) := by
  have key : ∀ (e : Dec) (bb : Bool), e.norm.map (fun d' => (bb, d')) = some (b, d') →
      (e.ext x).norm.map (fun d' => (bb, d')) = some (b, d'.ext x) := by
    intro e bb he
    cases hn : e.norm with
    | none => rw [hn] at he; simp at he
    | some e' =>
      rw [hn] at he
      simp only [Option.map_some, Option.some.injEq, Prod.mk.injEq] at he
      obtain ⟨rfl, rfl⟩ := he
      rw [Dec.norm_ext e e' x hn]
      rfl
  obtain ⟨range, code, inp⟩ := d
  show Dec.step ⟨range, code, inp ++ x⟩ p = _
  unfold Dec.step at h ⊢
  cases p with
  | some q =>
    dsimp only at h ⊢
    by_cases hc : code < range / 2048 * q
    · rw [if_pos hc] at h ⊢
      exact key _ _ h
    · rw [if_neg hc] at h ⊢
      exact key _ _ h
  | none =>
    dsimp only at h ⊢
    by_cases hc : 2 ^ 31 ≤ (2 ^ 32 + code - range / 2) % 2 ^ 32
    · rw [if_pos hc] at h ⊢
      exact key _ _ h
    · rw [if_neg hc] at h ⊢
      exact key _ _ h

theorem decTree_ext {α : Type} (pm : PM) (x : List Nat) (t : DecTree α) :
    ∀ (tbl : Tbl) (d : Dec) (a : α) (tbl' : Tbl) (d' : Dec),
      decTree pm t tbl d = some (a, tbl', d') → decTree pm t tbl (d.ext x) = some (a, tbl', d'.ext x) := by
  induction t with
  | ret a0 =>
    intro tbl d a tbl' d' h
    simp only [decTree, Option.some.injEq, Prod.mk.injEq] at h ⊢
    obtain ⟨rfl, rfl, rfl⟩ := h
    exact ⟨rfl, rfl, rfl⟩
  | ask q k ih =>
    intro tbl d a tbl' d' h
    cases q with
    | adaptive c =>
      simp only [decTree] at h ⊢
      cases hs : d.step (some (tbl.get c)) with
      | none => rw [hs] at h; simp at h
      | some v =>
        obtain ⟨b, d1⟩ := v
        rw [hs] at h
        rw [Dec.step_ext d _ b d1 x hs]
        exact ih b _ _ _ _ _ h
    | direct =>
      simp only [decTree] at h ⊢
      cases hs : d.step none with
      | none => rw [hs] at h; simp at h
      | some v =>
        obtain ⟨b, d1⟩ := v
        rw [hs] at h
        rw [Dec.step_ext d _ b d1 x hs]
        exact ih b _ _ _ _ _ h

theorem Dec.init_ext (l x : List Nat) (rd : Dec) (h : Dec.init l = some rd) :
    Dec.init (l ++ x) = some (rd.ext x) := by
  rcases l with _ | ⟨b0, _ | ⟨b1, _ | ⟨b2, _ | ⟨b3, _ | ⟨b4, r⟩⟩⟩⟩⟩
  all_goals first | (simp [Dec.init] at h; done) | skip
  simp only [Dec.init, List.cons_append] at h ⊢
  split at h
  · simp at h
  · rename_i h0
    rw [if_neg h0]
    split at h
    · simp at h
    · rename_i h1
      rw [if_neg h1]
      simp only [Option.some.injEq] at h ⊢
      subst h
      rfl

end Rc

namespace Lzma
open Rc

/-- `b` extends `a` -/
def Pfx (a b : ByteArray) : Prop := ∃ t, b = a ++ t

theorem Pfx.refl (a : ByteArray) : Pfx a a := ⟨ByteArray.empty, by rw [ByteArray.append_empty]⟩

theorem Pfx.trans {a b c : ByteArray} (h1 : Pfx a b) (h2 : Pfx b c) : Pfx a c := by
  obtain ⟨t1, rfl⟩ := h1
  obtain ⟨t2, rfl⟩ := h2
  exact ⟨t1 ++ t2, by rw [ByteArray.append_assoc]⟩

theorem Pfx.push (a : ByteArray) (x : UInt8) : Pfx a (a.push x) :=
  ⟨ByteArray.empty.push x, by apply ByteArray.ext; simp⟩

theorem Pfx.append (a t : ByteArray) : Pfx a (a ++ t) := ⟨t, rfl⟩

theorem Pfx.of_eq {a b : ByteArray} (h : a = b) : Pfx a b := h ▸ Pfx.refl a

theorem Pfx.size_le {a b : ByteArray} (h : Pfx a b) : a.size ≤ b.size := by
  obtain ⟨t, rfl⟩ := h
  rw [ByteArray.size_append]; omega

theorem Pfx.eq_extract {a b : ByteArray} (h : Pfx a b) : a = b.extract 0 a.size := by
  obtain ⟨t, rfl⟩ := h
  rw [ByteArray.extract_append_eq_left rfl]

theorem copyMatch_pfx (dist : Nat) : ∀ (n : Nat) (h : Hist), Pfx h.out (h.copyMatch dist n).out := by
  intro n
  induction n with
  | zero => intro h; exact Pfx.refl _
  | succ n ih =>
    intro h
    simp only [Hist.copyMatch]
    exact (Pfx.push _ _).trans (ih _)

def DecSt.ext (d : DecSt) (x : List Nat) : DecSt := { d with rd := d.rd.ext x }

@[simp] theorem DecSt.ext_h (d : DecSt) (x : List Nat) : (d.ext x).h = d.h := rfl

def StepRes.ext : StepRes → List Nat → StepRes
  | .cont d, x => .cont (d.ext x)
  | .marker d, x => .marker (d.ext x)
  | .fail d st, x => .fail (d.ext x) st

def SegRes.ext (r : SegRes) (x : List Nat) : SegRes := { r with d := r.d.ext x }

/-- one operation, in lockstep: the run on the longer input is the same, unless the shorter one runs dry
    (and then reports `unexpectedEOF` with the history untouched) -/
theorem decStep_lock (p : Props) (d : DecSt) (x : List Nat) :
    decStep p (d.ext x) = (decStep p d).ext x ∨ (∃ d', decStep p d = .fail d' .unexpectedEOF ∧ d'.h = d.h) := by
  obtain ⟨s, tbl, rd, h, ops⟩ := d
  cases hdt : decTree pm (opDec (mkCtx p s h)) tbl rd with
  | none =>
    right
    refine ⟨{ s := s, tbl := #[], rd := { range := 0, code := 0, inp := [] }, h := h, ops := ops }, ?_, rfl⟩
    simp only [decStep, hdt]
  | some v =>
    obtain ⟨op, tbl', rd'⟩ := v
    left
    have hx := decTree_ext pm x _ _ _ _ _ _ hdt
    simp only [decStep, DecSt.ext, hdt, hx]
    cases op with
    | lit b => rfl
    | mtch len dd =>
      simp only
      by_cases hdd : dd = eosDist
      · rw [if_pos hdd, if_pos hdd]; rfl
      · rw [if_neg hdd, if_neg hdd]
        simp only [DecSt.copy]
        split <;> rfl
    | rep g len =>
      simp only [DecSt.copy]
      split <;> rfl
    | shortRep =>
      simp only [DecSt.copy]
      split <;> rfl

theorem copy_mono (d : DecSt) (dist len : Nat) :
    match d.copy dist len with
    | .cont d' => Pfx d.h.out d'.h.out
    | .marker d' => d'.h = d.h
    | .fail d' _ => d'.h = d.h := by
  unfold DecSt.copy
  by_cases hc : 0 < dist ∧ dist ≤ d.h.dictLen
  · rw [if_pos hc]; exact copyMatch_pfx _ _ _
  · rw [if_neg hc]

/-- the history only grows in one operation -/
theorem decStep_mono (p : Props) (d : DecSt) :
    match decStep p d with
    | .cont d' => Pfx d.h.out d'.h.out
    | .marker d' => d'.h = d.h
    | .fail d' _ => d'.h = d.h := by
  obtain ⟨s, tbl, rd, h, ops⟩ := d
  cases hdt : decTree pm (opDec (mkCtx p s h)) tbl rd with
  | none => simp only [decStep, hdt]
  | some v =>
    obtain ⟨op, tbl', rd'⟩ := v
    simp only [decStep, hdt]
    cases op with
    | lit b => exact Pfx.push _ _
    | mtch len dd =>
      simp only
      by_cases hdd : dd = eosDist
      · rw [if_pos hdd]
      · rw [if_neg hdd]
        exact copy_mono ⟨s.apply (.mtch len dd), tbl', rd', h, ops.push (.mtch len dd)⟩ _ _
    | rep g len =>
      exact copy_mono ⟨s.apply (.rep g len), tbl', rd', h, ops.push (.rep g len)⟩ _ _
    | shortRep =>
      exact copy_mono ⟨s.apply .shortRep, tbl', rd', h, ops.push .shortRep⟩ _ _

theorem finish_mono (p : Props) (snm : Bool) (d : DecSt) : Pfx d.h.out (decSegment.finish p snm d).d.h.out := by
  unfold decSegment.finish
  split
  · exact Pfx.refl _
  · split
    · exact Pfx.refl _
    · have := decStep_mono p d
      cases hst : decStep p d with
      | cont d' => rw [hst] at this; exact this
      | marker d' => rw [hst] at this; exact Pfx.of_eq (by rw [this])
      | fail d' st => rw [hst] at this; exact Pfx.of_eq (by rw [this])

theorem decSegment_mono (p : Props) (size : Option Nat) (start : Nat) (snm : Bool) :
    ∀ (fuel : Nat) (d : DecSt), Pfx d.h.out (decSegment p size start snm fuel d).d.h.out := by
  intro fuel
  induction fuel with
  | zero => intro d; exact Pfx.refl _
  | succ f ih =>
    intro d
    rw [decSegment]
    split
    · exact finish_mono p snm d
    · have hm := decStep_mono p d
      cases hst : decStep p d with
      | fail d' st => rw [hst] at hm; exact Pfx.of_eq (by rw [hm])
      | marker d' =>
        rw [hst] at hm
        simp only
        have : Pfx d.h.out d'.h.out := Pfx.of_eq (by rw [hm])
        repeat' split
        all_goals exact this
      | cont d' =>
        rw [hst] at hm
        simp only
        cases size with
        | none => exact hm.trans (ih d')
        | some sz =>
          simp only
          split
          · split
            · exact hm
            · exact hm.trans (finish_mono p snm d')
          · exact hm.trans (ih d')

theorem finish_lock (p : Props) (snm : Bool) (d : DecSt) (x : List Nat) :
    decSegment.finish p snm (d.ext x) = (decSegment.finish p snm d).ext x ∨
    ((decSegment.finish p snm d).status = .unexpectedEOF ∧
      Pfx (decSegment.finish p snm d).d.h.out (decSegment.finish p snm (d.ext x)).d.h.out) := by
  by_cases hc : d.rd.code = 0
  · left
    unfold decSegment.finish
    have : (d.ext x).rd.code = d.rd.code := rfl
    rw [this, if_pos hc, if_pos hc]
    rfl
  · by_cases hs : snm = true
    · left
      unfold decSegment.finish
      have : (d.ext x).rd.code = d.rd.code := rfl
      rw [this, if_neg hc, if_neg hc, if_pos hs, if_pos hs]
      rfl
    · rcases decStep_lock p d x with hl | ⟨d', hd, hh⟩
      · left
        unfold decSegment.finish
        have : (d.ext x).rd.code = d.rd.code := rfl
        rw [this, if_neg hc, if_neg hc, if_neg hs, if_neg hs, hl]
        cases decStep p d <;> rfl
      · right
        have hshort : decSegment.finish p snm d = ⟨d', .unexpectedEOF, false⟩ := by
          unfold decSegment.finish
          rw [if_neg hc, if_neg hs, hd]
        rw [hshort]
        refine ⟨rfl, ?_⟩
        have := finish_mono p snm (d.ext x)
        simp only [DecSt.ext_h] at this
        rw [hh]
        exact this

theorem SegRes.ext_ite (c : Prop) [Decidable c] (a b : SegRes) (x : List Nat) :
    (if c then a else b).ext x = if c then a.ext x else b.ext x := by
  split <;> rfl

/-- **Lockstep of the operation loop.** -/
theorem decSegment_lock (p : Props) (size : Option Nat) (start : Nat) (snm : Bool) (x : List Nat) :
    ∀ (fuel : Nat) (d : DecSt),
      decSegment p size start snm fuel (d.ext x) = (decSegment p size start snm fuel d).ext x ∨
      ((decSegment p size start snm fuel d).status = .unexpectedEOF ∧
        Pfx (decSegment p size start snm fuel d).d.h.out (decSegment p size start snm fuel (d.ext x)).d.h.out) := by
  intro fuel
  induction fuel with
  | zero => intro d; left; rfl
  | succ f ih =>
    intro d
    by_cases hsz : size = some (d.h.out.size - start)
    · have hsz' : size = some ((d.ext x).h.out.size - start) := hsz
      rw [decSegment, decSegment, if_pos hsz', if_pos hsz]
      exact finish_lock p snm d x
    · have hsz' : ¬ size = some ((d.ext x).h.out.size - start) := hsz
      rcases decStep_lock p d x with hl | ⟨d', hd, hh⟩
      · cases hst : decStep p d with
        | fail d' st =>
          left
          rw [decSegment, decSegment, if_neg hsz', if_neg hsz, hl, hst]
          rfl
        | marker d' =>
          left
          rw [decSegment, decSegment, if_neg hsz', if_neg hsz, hl, hst]
          simp only [StepRes.ext]
          cases size with
          | none => simp only [SegRes.ext_ite]; rfl
          | some sz => simp only [SegRes.ext_ite]; rfl
        | cont d' =>
          cases size with
          | none =>
            rw [decSegment, decSegment, if_neg hsz', if_neg hsz, hl, hst]
            exact ih d'
          | some sz =>
            rw [decSegment, decSegment, if_neg hsz', if_neg hsz, hl, hst]
            simp only [StepRes.ext]
            by_cases hA : d'.h.out.size - start ≥ sz
            · have hA' : (d'.ext x).h.out.size - start ≥ sz := hA
              rw [if_pos hA', if_pos hA]
              by_cases hB : d'.h.out.size - start > sz
              · have hB' : (d'.ext x).h.out.size - start > sz := hB
                rw [if_pos hB', if_pos hB]
                left; rfl
              · have hB' : ¬ (d'.ext x).h.out.size - start > sz := hB
                rw [if_neg hB', if_neg hB]
                exact finish_lock p snm d' x
            · have hA' : ¬ (d'.ext x).h.out.size - start ≥ sz := hA
              rw [if_neg hA', if_neg hA]
              exact ih d'
      · right
        have hshort : decSegment p size start snm (f + 1) d = ⟨d', .unexpectedEOF, false⟩ := by
          rw [decSegment, if_neg hsz, hd]
        rw [hshort]
        refine ⟨rfl, ?_⟩
        show Pfx d'.h.out _
        rw [hh]
        exact decSegment_mono p size start snm (f + 1) (d.ext x)

/-- a `.eof` result does not depend on the fuel once it is reached -/
theorem decSegment_fuel_mono (p : Props) (size : Option Nat) (start : Nat) (snm : Bool) :
    ∀ (fuel : Nat) (d : DecSt), (decSegment p size start snm fuel d).status = .eof →
      ∀ fuel', fuel ≤ fuel' → decSegment p size start snm fuel' d = decSegment p size start snm fuel d := by
  intro fuel
  induction fuel with
  | zero => intro d h; simp [decSegment] at h
  | succ f ih =>
    intro d h fuel' hf
    obtain ⟨f', rfl⟩ : ∃ f', fuel' = f' + 1 := ⟨fuel' - 1, by omega⟩
    rw [decSegment] at h ⊢
    rw [decSegment]
    split
    · rfl
    · rename_i hsz
      rw [if_neg hsz] at h
      cases hst : decStep p d with
      | fail d' st => rfl
      | marker d' => rfl
      | cont d' =>
        rw [hst] at h
        simp only at h ⊢
        cases size with
        | none => exact ih d' h f' (by omega)
        | some sz =>
          simp only at h ⊢
          split
          · rfl
          · rename_i hn
            rw [if_neg hn] at h
            exact ih d' h f' (by omega)

end Lzma
