import XzVerif.Proofs.Lzma2RoundTrip
import XzVerif.Proofs.Lzma1RoundTrip
import XzVerif.Proofs.PrefixLzma2

/-! Capacity lifting at chunk level: a chunk list that is well-formed for a dictionary capacity is well-formed, with
    the same bytes and the same content, for every larger capacity (every distance used lies within the smaller
    capacity, so the coding contexts agree). -/

set_option linter.unusedSimpArgs false
set_option linter.unusedVariables false

namespace Lzma
open Rc Lzma1

def EncSt.capd (c : Nat) (x : EncSt) : EncSt := { x with h := withCap x.h c }

theorem encStep_cap (p : Props) (c : Nat) (x : EncSt) (op : RawOp) (hc : x.h.cap ≤ c) (h1 : 1 ≤ x.h.cap)
    (hr : x.s.r0 + 1 ≤ x.h.cap) : encStep p (x.capd c) op = (encStep p x op).capd c := by
  rw [encStep_eq, encStep_eq]
  simp only [EncSt.capd, mkCtx_withCap p x.s x.h c hc h1 hr, applyOp_withCap]

theorem foldl_encStep_cap (p : Props) (c : Nat) : ∀ (ops : List RawOp) (x : EncSt), OpsOk x.s x.h ops →
    x.h.cap ≤ c → 1 ≤ x.h.cap → x.s.r0 + 1 ≤ x.h.cap →
    ops.foldl (encStep p) (x.capd c) = (ops.foldl (encStep p) x).capd c := by
  intro ops
  induction ops with
  | nil => intro x _ _ _ _; rfl
  | cons op ops ih =>
    intro x hok hc h1 hr
    cases hok with
    | cons _ _ _ _ g1 g2 =>
      have hs : (encStep p x op).s = x.s.apply op := by rw [encStep_eq]
      have hh : (encStep p x op).h = x.h.applyOp (x.s.apply op) op := by rw [encStep_eq]
      have hcap : (encStep p x op).h.cap = x.h.cap := by rw [hh]; exact applyOp_cap _ _ _
      simp only [List.foldl_cons]
      rw [encStep_cap p c x op hc h1 hr, ih _ (by rw [hs, hh]; exact g2) (by rw [hcap]; exact hc)
        (by rw [hcap]; exact h1) (by rw [hcap, hs]; exact apply_r0_le x.h x.s op g1 hr)]

theorem encodeOps_cap (p : Props) (s : St) (tbl : Tbl) (c : Nat) (h : Hist) (ops : List RawOp)
    (hok : OpsOk s h ops) (hc : h.cap ≤ c) (h1 : 1 ≤ h.cap) (hr : s.r0 + 1 ≤ h.cap) :
    encodeOps p s tbl (withCap h c) ops = (encodeOps p s tbl h ops).capd c := by
  unfold encodeOps
  exact foldl_encStep_cap p c ops { s := s, tbl := tbl, e := Enc.init, bytes := ByteArray.empty, h := h } hok hc h1 hr

theorem encClose_capd (c : Nat) (x : EncSt) : encClose (x.capd c) = encClose x := rfl

end Lzma

namespace Lzma2
open Lzma Rc Spec Lzma1

def capE (c : Nat) (e : EState) : EState := { e with h := withCap e.h c }

/-- what the lifting needs of an emitter state -/
structure CapInv (e : EState) : Prop where
  one : 1 ≤ e.h.cap
  r0 : e.s.r0 + 1 ≤ e.h.cap
  tbl : e.tbl.ok

theorem lzH_cap (c : Nat) (e : EState) (k : ChunkKind) : lzH (capE c e) k = withCap (lzH e k) c := by
  unfold lzH
  by_cases hk : k = .lrnd
  · rw [if_pos hk, if_pos hk]; rfl
  · rw [if_neg hk, if_neg hk]; rfl

theorem lzH_capv (e : EState) (k : ChunkKind) : (lzH e k).cap = e.h.cap := by
  unfold lzH; split <;> rfl

theorem lzS_r0 (e : EState) (k : ChunkKind) (hi : CapInv e) : (lzS e k).r0 + 1 ≤ (lzH e k).cap := by
  rw [lzH_capv]
  unfold lzS
  split
  · show 0 + 1 ≤ _
    have := hi.one; omega
  · exact hi.r0

theorem lzEnc_cap (c : Nat) (e : EState) (ck : Chunk) (hi : CapInv e) (hc : e.h.cap ≤ c)
    (hok : OpsOk (lzS e ck.kind) (lzH e ck.kind) ck.ops.toList) :
    lzEnc (capE c e) ck = (lzEnc e ck).capd c := by
  unfold lzEnc
  rw [lzH_cap]
  exact encodeOps_cap _ _ _ c _ _ hok (by rw [lzH_capv]; exact hc) (by rw [lzH_capv]; exact hi.one) (lzS_r0 e _ hi)

theorem lzUsize_cap (c : Nat) (e : EState) (ck : Chunk) (hi : CapInv e) (hc : e.h.cap ≤ c)
    (hok : OpsOk (lzS e ck.kind) (lzH e ck.kind) ck.ops.toList) : lzUsize (capE c e) ck = lzUsize e ck := by
  unfold lzUsize
  rw [lzEnc_cap c e ck hi hc hok, lzH_cap]
  rfl

theorem lzBody_cap (c : Nat) (e : EState) (ck : Chunk) (hi : CapInv e) (hc : e.h.cap ≤ c)
    (hok : OpsOk (lzS e ck.kind) (lzH e ck.kind) ck.ops.toList) : lzBody (capE c e) ck = lzBody e ck := by
  unfold lzBody
  rw [lzEnc_cap c e ck hi hc hok, encClose_capd]

theorem lzHdr_cap (c : Nat) (e : EState) (ck : Chunk) (hi : CapInv e) (hc : e.h.cap ≤ c)
    (hok : OpsOk (lzS e ck.kind) (lzH e ck.kind) ck.ops.toList) : lzHdr (capE c e) ck = lzHdr e ck := by
  unfold lzHdr
  rw [lzUsize_cap c e ck hi hc hok, lzBody_cap c e ck hi hc hok]

theorem emitChunk_cap_lz (strict : Bool) (c : Nat) (e : EState) (ck : Chunk) (hk : isLz ck.kind) (hi : CapInv e)
    (hc : e.h.cap ≤ c) (hok : LzOk strict e ck) :
    emitChunk (capE c e) ck = capE c (emitChunk e ck) ∧ chunkBytes (capE c e) ck = chunkBytes e ck ∧
    LzOk strict (capE c e) ck ∧ CapInv (emitChunk e ck) ∧ (emitChunk e ck).h.cap = e.h.cap := by
  obtain ⟨g1, g2, g3, g4, g5, g6⟩ := hok
  have hHc : (lzH e ck.kind).cap ≤ c := by rw [lzH_capv]; exact hc
  have hH1 : 1 ≤ (lzH e ck.kind).cap := by rw [lzH_capv]; exact hi.one
  obtain ⟨a1, _, _, a4, a5⟩ := ops_withCap (lzProps e ck) c ck.ops.toList (lzS e ck.kind) (lzH e ck.kind) g3 hHc hH1
    (lzS_r0 e _ hi)
  have htbl := lzTbl_ok e ck hi.tbl
  obtain ⟨_, b2, b3, b4⟩ := encodeOps_bytes (lzProps e ck) (lzS e ck.kind) (lzTbl e ck.kind (lzProps e ck)) htbl
    (lzH e ck.kind) ck.ops.toList
  refine ⟨?_, ?_, ⟨g1, g2, ?_, ?_, ?_, g6⟩, ⟨?_, ?_, ?_⟩, ?_⟩
  · rw [emitChunk_lz _ _ hk, emitChunk_lz _ _ hk, lzHdr_cap c e ck hi hc g3, lzBody_cap c e ck hi hc g3,
      lzEnc_cap c e ck hi hc g3]
    rfl
  · rw [chunkBytes_lz _ _ hk, chunkBytes_lz _ _ hk, lzHdr_cap c e ck hi hc g3, lzBody_cap c e ck hi hc g3]
  · rw [lzH_cap]; exact a1
  · rw [lzUsize_cap c e ck hi hc g3]; exact g4
  · rw [lzBody_cap c e ck hi hc g3]; exact g5
  · rw [emitChunk_lz _ _ hk]
    show 1 ≤ (lzEnc e ck).h.cap
    have : (lzEnc e ck).h = _ := b4
    rw [this, a5, lzH_capv]; exact hi.one
  · rw [emitChunk_lz _ _ hk]
    show (lzEnc e ck).s.r0 + 1 ≤ (lzEnc e ck).h.cap
    have e1 : (lzEnc e ck).h = _ := b4
    have e2 : (lzEnc e ck).s = _ := b2
    rw [e1, e2, a5]; exact a4
  · rw [emitChunk_lz _ _ hk]
    show (lzEnc e ck).tbl.ok
    have e3 : (lzEnc e ck).tbl = _ := b3
    rw [e3]
    exact tblAfter_ok _ _ htbl
  · rw [emitChunk_lz _ _ hk]
    show (lzEnc e ck).h.cap = _
    have : (lzEnc e ck).h = _ := b4
    rw [this, a5, lzH_capv]

theorem emitChunk_cap_raw (c : Nat) (e : EState) (ck : Chunk) (hk : ck.kind = .ud ∨ ck.kind = .u) (hi : CapInv e) :
    emitChunk (capE c e) ck = capE c (emitChunk e ck) ∧ chunkBytes (capE c e) ck = chunkBytes e ck ∧
    CapInv (emitChunk e ck) ∧ (emitChunk e ck).h.cap = e.h.cap := by
  obtain ⟨kind, usize, csize, props, ops, raw, consumed, marker⟩ := ck
  obtain ⟨i1, i2, i3⟩ := hi
  dsimp only at hk
  rcases hk with rfl | rfl
  · exact ⟨rfl, rfl, ⟨i1, i2, i3⟩, rfl⟩
  · exact ⟨rfl, rfl, ⟨i1, i2, i3⟩, rfl⟩

theorem emitChunk_cap (strict : Bool) (c : Nat) (e : EState) (q : SeqState) (ck : Chunk) (hi : CapInv e)
    (hc : e.h.cap ≤ c) (hok : ChunkOk strict e q ck) :
    emitChunk (capE c e) ck = capE c (emitChunk e ck) ∧ chunkBytes (capE c e) ck = chunkBytes e ck ∧
    ChunkOk strict (capE c e) q ck ∧ CapInv (emitChunk e ck) ∧ (emitChunk e ck).h.cap = e.h.cap := by
  obtain ⟨hq, hrest⟩ := hok
  cases hck : ck.kind <;> rw [hck] at hrest <;> dsimp only at hrest
  · obtain ⟨a, b, d, f⟩ := emitChunk_cap_raw c e ck (Or.inl hck) hi
    refine ⟨a, b, ⟨hq, ?_⟩, d, f⟩
    rw [hck]; exact hrest
  · obtain ⟨a, b, d, f⟩ := emitChunk_cap_raw c e ck (Or.inr hck) hi
    refine ⟨a, b, ⟨hq, ?_⟩, d, f⟩
    rw [hck]; exact hrest
  · obtain ⟨a, b, l, d, f⟩ := emitChunk_cap_lz strict c e ck (Or.inl hck) hi hc hrest
    refine ⟨a, b, ⟨hq, ?_⟩, d, f⟩
    rw [hck]; exact l
  · obtain ⟨a, b, l, d, f⟩ := emitChunk_cap_lz strict c e ck (Or.inr (Or.inl hck)) hi hc hrest
    refine ⟨a, b, ⟨hq, ?_⟩, d, f⟩
    rw [hck]; exact l
  · obtain ⟨a, b, l, d, f⟩ := emitChunk_cap_lz strict c e ck (Or.inr (Or.inr (Or.inl hck))) hi hc hrest
    refine ⟨a, b, ⟨hq, ?_⟩, d, f⟩
    rw [hck]; exact l
  · obtain ⟨a, b, l, d, f⟩ := emitChunk_cap_lz strict c e ck (Or.inr (Or.inr (Or.inr hck))) hi hc hrest
    refine ⟨a, b, ⟨hq, ?_⟩, d, f⟩
    rw [hck]; exact l

/-- chunk lists -/
theorem chunks_cap (strict : Bool) (c : Nat) : ∀ (cs : List Chunk) (e : EState) (q : SeqState),
    CapInv e → e.h.cap ≤ c → ChunksOk strict e q cs →
    ChunksOk strict (capE c e) q cs ∧
    chunksBytes (capE c e) cs = chunksBytes e cs ∧
    cs.foldl emitChunk (capE c e) = capE c (cs.foldl emitChunk e) := by
  intro cs
  induction cs with
  | nil => intro e q _ _ _; exact ⟨.nil _ _, rfl, rfl⟩
  | cons ck cs ih =>
    intro e q hi hc hok
    cases hok with
    | cons _ _ q' _ _ hck hs hrest =>
      obtain ⟨a, b, d, f, g⟩ := emitChunk_cap strict c e q ck hi hc hck
      obtain ⟨i1, i2, i3⟩ := ih (emitChunk e ck) q' f (by rw [g]; exact hc) hrest
      refine ⟨.cons _ _ q' _ _ d hs (by rw [a]; exact i1), ?_, ?_⟩
      · simp only [chunksBytes]
        rw [a, b, i2]
      · simp only [List.foldl_cons]
        rw [a, i3]

/-- **Capacity lifting.** -/
theorem chunks_cap_e0 (strict : Bool) (cap cap' : Nat) (h1 : 1 ≤ cap) (hle : cap ≤ cap') (q : SeqState)
    (cs : List Chunk) (hok : ChunksOk strict (e0 cap) q cs) :
    ChunksOk strict (e0 cap') q cs ∧ chunksBytes (e0 cap') cs = chunksBytes (e0 cap) cs ∧
    (cs.foldl emitChunk (e0 cap')).out = (cs.foldl emitChunk (e0 cap)).out ∧
    (cs.foldl emitChunk (e0 cap')).h.out = (cs.foldl emitChunk (e0 cap)).h.out ∧
    (cs.foldl emitChunk (e0 cap')).s = (cs.foldl emitChunk (e0 cap)).s ∧
    (cs.foldl emitChunk (e0 cap')).tbl = (cs.foldl emitChunk (e0 cap)).tbl ∧
    (cs.foldl emitChunk (e0 cap')).props = (cs.foldl emitChunk (e0 cap)).props := by
  have hi : CapInv (e0 cap) := ⟨h1, by show 0 + 1 ≤ cap; omega, empty_tbl_ok⟩
  have he : capE cap' (e0 cap) = e0 cap' := rfl
  obtain ⟨a, b, d⟩ := chunks_cap strict cap' cs (e0 cap) q hi hle hok
  rw [he] at a b d
  refine ⟨a, b, ?_, ?_, ?_, ?_, ?_⟩ <;> rw [d] <;> rfl

#print axioms Lzma2.chunks_cap_e0

end Lzma2
