import XzVerif.Proofs.GoSrcOp
/-
  Proofs.GoSrcOpDec — see Proofs/GoSrcOp.lean (relations `StRel`, `ArrRel`, `ctxOf`, `goOpOf`).  Statements are fixed.
-/
namespace GoSrcP
open GoSrc Rc Lzma

/-! ### frames: a decision tree only updates the addresses it asks -/

/-- `t'` has the size of `t` and differs from it at most at addresses in `P` -/
structure Out (P : Nat → Prop) (t t' : Tbl) : Prop where
  size : t'.size = t.size
  get : ∀ c, ¬ P c → t'.get c = t.get c

theorem Out.refl (P : Nat → Prop) (t : Tbl) : Out P t t := ⟨rfl, fun _ _ => rfl⟩

theorem Out.upd (P : Nat → Prop) (t : Tbl) (a v : Nat) (h : P a) : Out P t (t.upd a v) :=
  ⟨Tbl.size_upd _ _ _, fun c hc => by
    rw [Tbl.get_upd, if_neg (fun (hh : c = a ∧ a < t.size) => hc (hh.1 ▸ h))]⟩

theorem Out.trans {P : Nat → Prop} {t t' t'' : Tbl} (a : Out P t t') (b : Out P t' t'') : Out P t t'' :=
  ⟨by rw [b.size, a.size], fun c hc => by rw [b.get c hc, a.get c hc]⟩

theorem Out.mono {P Q : Nat → Prop} {t t' : Tbl} (a : Out P t t') (h : ∀ c, P c → Q c) : Out Q t t' :=
  ⟨a.size, fun c hc => a.get c (fun hp => hc (h c hp))⟩

/-- all adaptive addresses a tree can ask satisfy `P` -/
def treeAsk {α : Type} (P : Nat → Prop) : DecTree α → Prop
  | .ret _ => True
  | .ask q k => (∀ a, q = .adaptive a → P a) ∧ ∀ b, treeAsk P (k b)

theorem decTree_out {α : Type} (P : Nat → Prop) (t : DecTree α) : ∀ (tbl : Tbl) (d : Rc.Dec) (a : α) (tbl' : Tbl)
    (d' : Rc.Dec), treeAsk P t → decTree pm t tbl d = some (a, tbl', d') → Out P tbl tbl' := by
  induction t with
  | ret a0 =>
    intro tbl d a tbl' d' _ h
    simp only [decTree, Option.some.injEq, Prod.mk.injEq] at h
    rw [← h.2.1]; exact Out.refl _ _
  | ask q k ih =>
    intro tbl d a tbl' d' hin h
    obtain ⟨hq, hk⟩ := hin
    cases q with
    | adaptive c =>
      simp only [decTree] at h
      split at h
      · cases h
      · exact (Out.upd P tbl c _ (hq c rfl)).trans (ih _ _ _ _ _ _ (hk _) h)
    | direct =>
      simp only [decTree] at h
      split at h
      · cases h
      · exact ih _ _ _ _ _ _ (hk _) h

theorem treeAsk_bind {α β : Type} (P : Nat → Prop) (t : DecTree α) (f : α → DecTree β)
    (ht : treeAsk P t) (hf : ∀ a, treeAsk P (f a)) : treeAsk P (t.bind f) := by
  induction t with
  | ret a => simp only [DecTree.bind]; exact hf a
  | ask q k ih =>
    simp only [DecTree.bind, treeAsk] at ht ⊢
    exact ⟨ht.1, fun b => ih b (ht.2 b)⟩

theorem treeAsk_map {α β : Type} (P : Nat → Prop) (t : DecTree α) (f : α → β)
    (ht : treeAsk P t) : treeAsk P (DecTree.map t f) := by
  unfold DecTree.map
  exact treeAsk_bind P t _ ht (fun _ => trivial)

theorem treeAsk_mono {α : Type} (P Q : Nat → Prop) (h : ∀ c, P c → Q c) (t : DecTree α)
    (ht : treeAsk P t) : treeAsk Q t := by
  induction t with
  | ret a => trivial
  | ask q k ih => exact ⟨fun a ha => h a (ht.1 a ha), fun b => ih b (ht.2 b)⟩

theorem node_bound' (m n N c : Nat) (h : (m + 1) * 2 ^ (n + 1) ≤ 2 * N) (hc : c ≤ 1) :
    m < N ∧ (2 * m + c + 1) * 2 ^ n ≤ 2 * N := by
  have hp : 0 < 2 ^ n := Nat.pow_pos (by decide)
  have h1 : (m + 1) * 2 ^ (n + 1) = 2 * ((m + 1) * 2 ^ n) := by
    rw [Nat.pow_succ, ← Nat.mul_assoc, Nat.mul_comm]
  have h2 : m + 1 ≤ (m + 1) * 2 ^ n := Nat.le_mul_of_pos_right _ hp
  have h3 : (2 * m + c + 1) * 2 ^ n ≤ (2 * (m + 1)) * 2 ^ n := Nat.mul_le_mul_right _ (by omega)
  have h4 : (2 * (m + 1)) * 2 ^ n = 2 * ((m + 1) * 2 ^ n) := Nat.mul_assoc _ _ _
  omega

def inBlk (lo n : Nat) : Nat → Prop := fun a => lo ≤ a ∧ a < lo + n

theorem treeDecGo_ask (base N : Nat) : ∀ (n m : Nat), (m + 1) * 2 ^ n ≤ 2 * N →
    treeAsk (inBlk base N) (treeDecGo base n m) := by
  intro n
  induction n with
  | zero => intro m _; simp only [treeDecGo, treeAsk]
  | succ n ih =>
    intro m h
    simp only [treeDecGo, treeAsk]
    refine ⟨?_, ?_⟩
    · intro a ha
      simp only [Ask.adaptive.injEq] at ha
      have := (node_bound' m n N 0 h (by omega)).1
      unfold inBlk; omega
    · intro b
      apply ih
      split
      · exact (node_bound' m n N 1 h (by omega)).2
      · exact (node_bound' m n N 0 h (by omega)).2

theorem rtreeDecGo_ask (base N : Nat) : ∀ (n m j v : Nat), (m + 1) * 2 ^ n ≤ 2 * N →
    treeAsk (inBlk base N) (rtreeDecGo base n m j v) := by
  intro n
  induction n with
  | zero => intro m j v _; simp only [rtreeDecGo, treeAsk]
  | succ n ih =>
    intro m j v h
    simp only [rtreeDecGo, treeAsk]
    refine ⟨?_, ?_⟩
    · intro a ha
      simp only [Ask.adaptive.injEq] at ha
      have := (node_bound' m n N 0 h (by omega)).1
      unfold inBlk; omega
    · intro b
      apply ih
      unfold bitOf
      split
      · exact (node_bound' m n N 1 h (by omega)).2
      · exact (node_bound' m n N 0 h (by omega)).2

theorem treeDec_ask (base bits : Nat) : treeAsk (inBlk base (2 ^ bits)) (treeDec base bits) := by
  unfold treeDec
  exact treeAsk_map _ _ _ (treeDecGo_ask base _ bits 1 (by omega))

theorem rtreeDec_ask (base bits : Nat) : treeAsk (inBlk base (2 ^ bits)) (rtreeDec base bits) :=
  rtreeDecGo_ask base _ bits 1 0 0 (by omega)

theorem directDecGo_ask (P : Nat → Prop) : ∀ (n v : Nat), treeAsk P (directDecGo n v) := by
  intro n
  induction n with
  | zero => intro v; simp only [directDecGo, treeAsk]
  | succ n ih =>
    intro v
    simp only [directDecGo, treeAsk]
    exact ⟨fun a ha => (by cases ha), fun b => ih _⟩

theorem blk_sub (lo n lo' n' : Nat) (h1 : lo' ≤ lo) (h2 : lo + n ≤ lo' + n') :
    ∀ c, inBlk lo n c → inBlk lo' n' c := by
  intro c hc; unfold inBlk at *; omega

theorem lenDec_ask (L ps : Nat) (hps : ps < 16) : treeAsk (inBlk L 514) (lenDec L ps) := by
  unfold lenDec
  refine ⟨fun a ha => ?_, fun b0 => ?_⟩
  · simp only [Ask.adaptive.injEq] at ha; unfold inBlk; omega
  · dsimp only
    split
    · exact treeAsk_mono _ _ (blk_sub _ _ _ _ (by omega) (by omega)) _ (treeDec_ask _ 3)
    · refine ⟨fun a ha => ?_, fun b1 => ?_⟩
      · simp only [Ask.adaptive.injEq] at ha; unfold inBlk; omega
      · dsimp only
        split
        · exact treeAsk_map _ _ _ (treeAsk_mono _ _ (blk_sub _ _ _ _ (by omega) (by omega)) _ (treeDec_ask _ 3))
        · exact treeAsk_map _ _ _ (treeAsk_mono _ _ (blk_sub _ _ _ _ (by omega) (by omega)) _ (treeDec_ask _ 8))

theorem posModel_layout : ∀ s, s < 14 → posModelOff s + 2 ^ (s / 2 - 1) ≤ 124 := by decide

theorem lenState_lt' (n : Nat) : Lzma.lenState n < 4 := by
  unfold Lzma.lenState; split <;> omega

theorem distDec_ask (l : Nat) : treeAsk (inBlk aDist 396) (distDec l) := by
  unfold distDec
  have hls := lenState_lt' l
  have hA : aAlign = aDist + 380 := rfl
  refine treeAsk_bind _ _ _ ?_ (fun slot => ?_)
  · exact treeAsk_mono _ _ (blk_sub _ _ _ _ (by omega) (by omega)) _ (treeDec_ask _ 6)
  · split
    · trivial
    · dsimp only
      split
      · rename_i h14
        have := posModel_layout slot h14
        exact treeAsk_map _ _ _ (treeAsk_mono _ _ (blk_sub _ _ _ _ (by omega) (by omega)) _ (rtreeDec_ask _ _))
      · refine treeAsk_bind _ _ _ (directDecGo_ask _ _ _) (fun u => ?_)
        exact treeAsk_map _ _ _ (treeAsk_mono _ _ (blk_sub _ _ _ _ (by omega) (by omega)) _ (rtreeDec_ask _ 4))

theorem litPlainDec_ask (lo base : Nat) (h : lo ≤ base) : ∀ (n sym : Nat),
    treeAsk (fun a => lo ≤ a) (litPlainDec base n sym) := by
  intro n
  induction n with
  | zero => intro sym; simp only [litPlainDec, treeAsk]
  | succ n ih =>
    intro sym
    simp only [litPlainDec, treeAsk]
    refine ⟨fun a ha => ?_, fun b => ih _⟩
    simp only [Ask.adaptive.injEq] at ha; omega

theorem litMatchedDec_ask (lo base : Nat) (h : lo ≤ base) : ∀ (n sym mb : Nat),
    treeAsk (fun a => lo ≤ a) (litMatchedDec base n sym mb) := by
  intro n
  induction n with
  | zero => intro sym mb; simp only [litMatchedDec, treeAsk]
  | succ n ih =>
    intro sym mb
    simp only [litMatchedDec, treeAsk]
    refine ⟨fun a ha => ?_, fun b => ?_⟩
    · simp only [Ask.adaptive.injEq] at ha; omega
    · split
      · exact ih _ _
      · exact litPlainDec_ask lo base h _ _

theorem litTree_ask (state ls mb : Nat) : treeAsk (fun a => aLit ≤ a) (litTree state ls mb) := by
  unfold litTree
  split
  · exact litMatchedDec_ask _ _ (by omega) _ _ _
  · exact litPlainDec_ask _ _ (by omega) _ _

theorem decTree_map' {α β : Type} (t : DecTree α) (f : α → β) (tbl : Tbl) (d : Rc.Dec) :
    decTree pm (DecTree.map t f) tbl d =
      match decTree pm t tbl d with
      | none => none
      | some (a, t', d') => some (f a, t', d') := by
  unfold DecTree.map
  rw [decTree_bind]
  cases decTree pm t tbl d with
  | none => rfl
  | some r => obtain ⟨a, t', d'⟩ := r; simp only [decTree]

theorem decTree_ask {α : Type} (c : Nat) (k : Bool → DecTree α) (tbl : Tbl) (d : Rc.Dec) :
    decTree pm (.ask (.adaptive c) k) tbl d =
      match d.step (some (tbl.get c)) with
      | none => none
      | some (b, d') => decTree pm (k b) (tbl.upd c (pm.next (tbl.get c) b)) d' := by
  cases h : d.step (some (tbl.get c)) with
  | none => simp only [decTree, h]
  | some bd => obtain ⟨b, d'⟩ := bd; simp only [decTree, h]

/-! ### the components of `StRel` under a frame -/

theorem layout : aIsMatch = 0 ∧ aIsRep = 192 ∧ aIsRepG0 = 204 ∧ aIsRepG1 = 216 ∧ aIsRepG2 = 228 ∧ aIsRepG0Long = 240
    ∧ aLen = 432 ∧ aRepLen = 946 ∧ aDist = 1460 ∧ aAlign = 1840 ∧ aLit = 1856 :=
  ⟨rfl, rfl, rfl, rfl, rfl, rfl, rfl, rfl, rfl, rfl, rfl⟩

macro "dj" : tactic =>
  `(tactic| (intro c hc; have hlay := layout; (try unfold inBlk at hc); omega))

theorem ArrRel.frame {a : Array (BitVec 16)} {tbl tbl' : Tbl} {base n : Nat} {P : Nat → Prop}
    (ar : ArrRel a tbl base n) (o : Out P tbl tbl') (hd : ∀ c, P c → c < base ∨ base + n ≤ c) :
    ArrRel a tbl' base n :=
  ⟨ar.size, by rw [o.size]; exact ar.inb, fun i hi => by
    rw [ar.val i hi, o.get _ (fun hp => by have := hd _ hp; omega)]⟩

theorem ArrRel.upd {a : Array (BitVec 16)} {tbl : Tbl} {base n : Nat} (ar : ArrRel a tbl base n)
    (i : Nat) (hi : i < n) (pv : BitVec 16) (q : Nat) (hp : pv.toNat = q) :
    ArrRel (a.setIfInBounds i pv) (tbl.upd (base + i) q) base n := by
  have tr : TreeRel a tbl base n := ⟨ar.size, ar.inb, ar.val⟩
  have := tr.upd i hi pv q hp
  exact ⟨this.size, this.inb, this.val⟩

theorem TreeRel.frame' {probs : Array (BitVec 16)} {tbl tbl' : Tbl} {base n : Nat} {P : Nat → Prop}
    (tr : TreeRel probs tbl base n) (o : Out P tbl tbl') (hd : ∀ c, P c → c < base ∨ base + n ≤ c) :
    TreeRel probs tbl' base n :=
  ⟨tr.size, by rw [o.size]; exact tr.inb, fun i hi => by
    rw [tr.val i hi, o.get _ (fun hp => by have := hd _ hp; omega)]⟩

theorem LenRel.frame {lc : T_lengthCodec} {tbl tbl' : Tbl} {L : Nat} {P : Nat → Prop}
    (lr : LenRel lc tbl L) (o : Out P tbl tbl') (hd : ∀ c, P c → c < L ∨ L + 514 ≤ c) : LenRel lc tbl' L := by
  refine ⟨by rw [o.size]; exact lr.inb, lr.csize, ?_, ?_, lr.lsize, lr.msize, ?_, ?_, lr.hbits, ?_⟩
  · rw [o.get _ (fun hp => by have := hd _ hp; omega)]; exact lr.c0
  · rw [o.get _ (fun hp => by have := hd _ hp; omega)]; exact lr.c1
  · intro ps hps
    exact ⟨(lr.low ps hps).1, (lr.low ps hps).2.frame' o (fun c hc => by have := hd c hc; omega)⟩
  · intro ps hps
    exact ⟨(lr.mid ps hps).1, (lr.mid ps hps).2.frame' o (fun c hc => by have := hd c hc; omega)⟩
  · exact lr.high.frame' o (fun c hc => by have := hd c hc; omega)

theorem model_layout' : ∀ i, i < 10 → posModelOff (4 + i) + 2 ^ posModelBits i ≤ 124 := by decide

theorem DistRel.frame {dc : T_distCodec} {tbl tbl' : Tbl} {P : Nat → Prop}
    (dr : DistRel dc tbl) (o : Out P tbl tbl') (hd : ∀ c, P c → c < aDist ∨ aDist + 396 ≤ c) : DistRel dc tbl' := by
  have hA : aAlign = aDist + 380 := rfl
  refine ⟨by rw [o.size]; exact dr.inb, dr.ssize, ?_, dr.msize, ?_, dr.abits, ?_⟩
  · intro ls hls
    exact ⟨(dr.slot ls hls).1, (dr.slot ls hls).2.frame' o (fun c hc => by have := hd c hc; omega)⟩
  · intro i hi
    have := model_layout' i hi
    exact ⟨(dr.model i hi).1, (dr.model i hi).2.frame' o (fun c hc => by have := hd c hc; omega)⟩
  · exact dr.align.frame' o (fun c hc => by have := hd c hc; omega)

theorem LitRel.frame {c : T_literalCodec} {tbl tbl' : Tbl} {n : Nat} {P : Nat → Prop}
    (lr : LitRel c tbl n) (o : Out P tbl tbl') (hd : ∀ c, P c → c < aLit) : LitRel c tbl' n :=
  ⟨lr.size, by rw [o.size]; exact lr.inb, fun i hi => by
    rw [lr.val i hi, o.get _ (fun hp => by have := hd _ hp; omega)]⟩

/-- change the table (and the Go arrays) inside `P`: every component is either untouched and outside `P`, or
    re-established -/
theorem StRel.retable {gs gs' : T_state} {s : St} {tbl tbl' : Tbl} {p : Props} (sr : StRel gs s tbl p)
    (P : Nat → Prop) (o : Out P tbl tbl') (tok : tbl'.ok)
    (hst : gs'.state = gs.state) (hrep : gs'.rep = gs.rep) (hmask : gs'.posBitMask = gs.posBitMask)
    (hprop : gs'.Properties = gs.Properties)
    (h1 : (gs'.isMatch = gs.isMatch ∧ ∀ c, P c → c < 0 ∨ 192 ≤ c) ∨ ArrRel gs'.isMatch tbl' aIsMatch 192)
    (h2 : (gs'.isRep = gs.isRep ∧ ∀ c, P c → c < 192 ∨ 204 ≤ c) ∨ ArrRel gs'.isRep tbl' aIsRep 12)
    (h3 : (gs'.isRepG0 = gs.isRepG0 ∧ ∀ c, P c → c < 204 ∨ 216 ≤ c) ∨ ArrRel gs'.isRepG0 tbl' aIsRepG0 12)
    (h4 : (gs'.isRepG1 = gs.isRepG1 ∧ ∀ c, P c → c < 216 ∨ 228 ≤ c) ∨ ArrRel gs'.isRepG1 tbl' aIsRepG1 12)
    (h5 : (gs'.isRepG2 = gs.isRepG2 ∧ ∀ c, P c → c < 228 ∨ 240 ≤ c) ∨ ArrRel gs'.isRepG2 tbl' aIsRepG2 12)
    (h6 : (gs'.isRepG0Long = gs.isRepG0Long ∧ ∀ c, P c → c < 240 ∨ 432 ≤ c)
            ∨ ArrRel gs'.isRepG0Long tbl' aIsRepG0Long 192)
    (h7 : (gs'.lenCodec = gs.lenCodec ∧ ∀ c, P c → c < 432 ∨ 946 ≤ c) ∨ LenRel gs'.lenCodec tbl' aLen)
    (h8 : (gs'.repLenCodec = gs.repLenCodec ∧ ∀ c, P c → c < 946 ∨ 1460 ≤ c) ∨ LenRel gs'.repLenCodec tbl' aRepLen)
    (h9 : (gs'.distCodec = gs.distCodec ∧ ∀ c, P c → c < 1460 ∨ 1856 ≤ c) ∨ DistRel gs'.distCodec tbl')
    (h10 : (gs'.litCodec = gs.litCodec ∧ ∀ c, P c → c < 1856) ∨ LitRel gs'.litCodec tbl' (0x300 * 2 ^ (p.lc + p.lp))) :
    StRel gs' s tbl' p := by
  refine ⟨by rw [hst]; exact sr.st, sr.stlt, by rw [hrep]; exact sr.rsize, by rw [hrep]; exact sr.r0,
    by rw [hrep]; exact sr.r1, by rw [hrep]; exact sr.r2, by rw [hrep]; exact sr.r3, sr.pb,
    by rw [hmask]; exact sr.mask, by rw [hprop]; exact sr.lc, by rw [hprop]; exact sr.lp, sr.lcle, sr.lple,
    ?_, ?_, ?_, ?_, ?_, ?_, ?_, ?_, ?_, ?_, tok⟩
  · rcases h1 with ⟨e, hd⟩ | h
    · rw [e]; exact sr.isMatch.frame o hd
    · exact h
  · rcases h2 with ⟨e, hd⟩ | h
    · rw [e]; exact sr.isRep.frame o hd
    · exact h
  · rcases h3 with ⟨e, hd⟩ | h
    · rw [e]; exact sr.isRepG0.frame o hd
    · exact h
  · rcases h4 with ⟨e, hd⟩ | h
    · rw [e]; exact sr.isRepG1.frame o hd
    · exact h
  · rcases h5 with ⟨e, hd⟩ | h
    · rw [e]; exact sr.isRepG2.frame o hd
    · exact h
  · rcases h6 with ⟨e, hd⟩ | h
    · rw [e]; exact sr.isRepG0Long.frame o hd
    · exact h
  · rcases h7 with ⟨e, hd⟩ | h
    · rw [e]; exact sr.len.frame o hd
    · exact h
  · rcases h8 with ⟨e, hd⟩ | h
    · rw [e]; exact sr.repLen.frame o hd
    · exact h
  · rcases h9 with ⟨e, hd⟩ | h
    · rw [e]; exact sr.dist.frame o hd
    · exact h
  · rcases h10 with ⟨e, hd⟩ | h
    · rw [e]; exact sr.lit.frame o hd
    · exact h

/-- change the state number and the rep registers only -/
theorem StRel.reregs {gs gs' : T_state} {s s' : St} {tbl : Tbl} {p : Props} (sr : StRel gs s tbl p)
    (h1 : gs'.isMatch = gs.isMatch) (h2 : gs'.isRep = gs.isRep) (h3 : gs'.isRepG0 = gs.isRepG0)
    (h4 : gs'.isRepG1 = gs.isRepG1) (h5 : gs'.isRepG2 = gs.isRepG2) (h6 : gs'.isRepG0Long = gs.isRepG0Long)
    (h7 : gs'.lenCodec = gs.lenCodec) (h8 : gs'.repLenCodec = gs.repLenCodec) (h9 : gs'.distCodec = gs.distCodec)
    (h10 : gs'.litCodec = gs.litCodec) (hmask : gs'.posBitMask = gs.posBitMask)
    (hprop : gs'.Properties = gs.Properties)
    (hst : gs'.state.toNat = s'.st) (hlt : s'.st < 12) (hrs : gs'.rep.size = 4)
    (r0 : (gs'.rep.getD 0 0#32).toNat = s'.r0) (r1 : (gs'.rep.getD 1 0#32).toNat = s'.r1)
    (r2 : (gs'.rep.getD 2 0#32).toNat = s'.r2) (r3 : (gs'.rep.getD 3 0#32).toNat = s'.r3) :
    StRel gs' s' tbl p :=
  ⟨hst, hlt, hrs, r0, r1, r2, r3, sr.pb, by rw [hmask]; exact sr.mask, by rw [hprop]; exact sr.lc,
    by rw [hprop]; exact sr.lp, sr.lcle, sr.lple, by rw [h1]; exact sr.isMatch, by rw [h2]; exact sr.isRep,
    by rw [h3]; exact sr.isRepG0, by rw [h4]; exact sr.isRepG1, by rw [h5]; exact sr.isRepG2,
    by rw [h6]; exact sr.isRepG0Long, by rw [h7]; exact sr.len, by rw [h8]; exact sr.repLen,
    by rw [h9]; exact sr.dist, by rw [h10]; exact sr.lit, sr.tok⟩

section sets
variable {gs : T_state} {s : St} {tbl : Tbl} {p : Props}

theorem StRel.set_isMatch (sr : StRel gs s tbl p) (i : Nat) (hi : i < 192) (pv : BitVec 16) (q : Nat)
    (hp : pv.toNat = q) (tok : (tbl.upd (aIsMatch + i) q).ok) :
    StRel { gs with isMatch := gs.isMatch.setIfInBounds i pv } s (tbl.upd (aIsMatch + i) q) p :=
  sr.retable (inBlk (aIsMatch + i) 1) (Out.upd _ _ _ _ ⟨Nat.le_refl _, by omega⟩) tok rfl rfl rfl rfl
    (Or.inr (sr.isMatch.upd i hi pv q hp)) (Or.inl ⟨rfl, by dj⟩) (Or.inl ⟨rfl, by dj⟩) (Or.inl ⟨rfl, by dj⟩)
    (Or.inl ⟨rfl, by dj⟩) (Or.inl ⟨rfl, by dj⟩) (Or.inl ⟨rfl, by dj⟩) (Or.inl ⟨rfl, by dj⟩) (Or.inl ⟨rfl, by dj⟩)
    (Or.inl ⟨rfl, by dj⟩)

theorem StRel.set_isRep (sr : StRel gs s tbl p) (i : Nat) (hi : i < 12) (pv : BitVec 16) (q : Nat)
    (hp : pv.toNat = q) (tok : (tbl.upd (aIsRep + i) q).ok) :
    StRel { gs with isRep := gs.isRep.setIfInBounds i pv } s (tbl.upd (aIsRep + i) q) p :=
  sr.retable (inBlk (aIsRep + i) 1) (Out.upd _ _ _ _ ⟨Nat.le_refl _, by omega⟩) tok rfl rfl rfl rfl
    (Or.inl ⟨rfl, by dj⟩) (Or.inr (sr.isRep.upd i hi pv q hp)) (Or.inl ⟨rfl, by dj⟩) (Or.inl ⟨rfl, by dj⟩)
    (Or.inl ⟨rfl, by dj⟩) (Or.inl ⟨rfl, by dj⟩) (Or.inl ⟨rfl, by dj⟩) (Or.inl ⟨rfl, by dj⟩) (Or.inl ⟨rfl, by dj⟩)
    (Or.inl ⟨rfl, by dj⟩)

theorem StRel.set_isRepG0 (sr : StRel gs s tbl p) (i : Nat) (hi : i < 12) (pv : BitVec 16) (q : Nat)
    (hp : pv.toNat = q) (tok : (tbl.upd (aIsRepG0 + i) q).ok) :
    StRel { gs with isRepG0 := gs.isRepG0.setIfInBounds i pv } s (tbl.upd (aIsRepG0 + i) q) p :=
  sr.retable (inBlk (aIsRepG0 + i) 1) (Out.upd _ _ _ _ ⟨Nat.le_refl _, by omega⟩) tok rfl rfl rfl rfl
    (Or.inl ⟨rfl, by dj⟩) (Or.inl ⟨rfl, by dj⟩) (Or.inr (sr.isRepG0.upd i hi pv q hp)) (Or.inl ⟨rfl, by dj⟩)
    (Or.inl ⟨rfl, by dj⟩) (Or.inl ⟨rfl, by dj⟩) (Or.inl ⟨rfl, by dj⟩) (Or.inl ⟨rfl, by dj⟩) (Or.inl ⟨rfl, by dj⟩)
    (Or.inl ⟨rfl, by dj⟩)

theorem StRel.set_isRepG1 (sr : StRel gs s tbl p) (i : Nat) (hi : i < 12) (pv : BitVec 16) (q : Nat)
    (hp : pv.toNat = q) (tok : (tbl.upd (aIsRepG1 + i) q).ok) :
    StRel { gs with isRepG1 := gs.isRepG1.setIfInBounds i pv } s (tbl.upd (aIsRepG1 + i) q) p :=
  sr.retable (inBlk (aIsRepG1 + i) 1) (Out.upd _ _ _ _ ⟨Nat.le_refl _, by omega⟩) tok rfl rfl rfl rfl
    (Or.inl ⟨rfl, by dj⟩) (Or.inl ⟨rfl, by dj⟩) (Or.inl ⟨rfl, by dj⟩) (Or.inr (sr.isRepG1.upd i hi pv q hp))
    (Or.inl ⟨rfl, by dj⟩) (Or.inl ⟨rfl, by dj⟩) (Or.inl ⟨rfl, by dj⟩) (Or.inl ⟨rfl, by dj⟩) (Or.inl ⟨rfl, by dj⟩)
    (Or.inl ⟨rfl, by dj⟩)

theorem StRel.set_isRepG2 (sr : StRel gs s tbl p) (i : Nat) (hi : i < 12) (pv : BitVec 16) (q : Nat)
    (hp : pv.toNat = q) (tok : (tbl.upd (aIsRepG2 + i) q).ok) :
    StRel { gs with isRepG2 := gs.isRepG2.setIfInBounds i pv } s (tbl.upd (aIsRepG2 + i) q) p :=
  sr.retable (inBlk (aIsRepG2 + i) 1) (Out.upd _ _ _ _ ⟨Nat.le_refl _, by omega⟩) tok rfl rfl rfl rfl
    (Or.inl ⟨rfl, by dj⟩) (Or.inl ⟨rfl, by dj⟩) (Or.inl ⟨rfl, by dj⟩) (Or.inl ⟨rfl, by dj⟩)
    (Or.inr (sr.isRepG2.upd i hi pv q hp)) (Or.inl ⟨rfl, by dj⟩) (Or.inl ⟨rfl, by dj⟩) (Or.inl ⟨rfl, by dj⟩)
    (Or.inl ⟨rfl, by dj⟩) (Or.inl ⟨rfl, by dj⟩)

theorem StRel.set_isRepG0Long (sr : StRel gs s tbl p) (i : Nat) (hi : i < 192) (pv : BitVec 16) (q : Nat)
    (hp : pv.toNat = q) (tok : (tbl.upd (aIsRepG0Long + i) q).ok) :
    StRel { gs with isRepG0Long := gs.isRepG0Long.setIfInBounds i pv } s (tbl.upd (aIsRepG0Long + i) q) p :=
  sr.retable (inBlk (aIsRepG0Long + i) 1) (Out.upd _ _ _ _ ⟨Nat.le_refl _, by omega⟩) tok rfl rfl rfl rfl
    (Or.inl ⟨rfl, by dj⟩) (Or.inl ⟨rfl, by dj⟩) (Or.inl ⟨rfl, by dj⟩) (Or.inl ⟨rfl, by dj⟩)
    (Or.inl ⟨rfl, by dj⟩) (Or.inr (sr.isRepG0Long.upd i hi pv q hp)) (Or.inl ⟨rfl, by dj⟩) (Or.inl ⟨rfl, by dj⟩)
    (Or.inl ⟨rfl, by dj⟩) (Or.inl ⟨rfl, by dj⟩)

theorem StRel.set_len (sr : StRel gs s tbl p) (lc' : T_lengthCodec) (tbl' : Tbl)
    (o : Out (inBlk aLen 514) tbl tbl') (tok : tbl'.ok) (lr : LenRel lc' tbl' aLen) :
    StRel { gs with lenCodec := lc' } s tbl' p :=
  sr.retable _ o tok rfl rfl rfl rfl
    (Or.inl ⟨rfl, by dj⟩) (Or.inl ⟨rfl, by dj⟩) (Or.inl ⟨rfl, by dj⟩) (Or.inl ⟨rfl, by dj⟩)
    (Or.inl ⟨rfl, by dj⟩) (Or.inl ⟨rfl, by dj⟩) (Or.inr lr) (Or.inl ⟨rfl, by dj⟩)
    (Or.inl ⟨rfl, by dj⟩) (Or.inl ⟨rfl, by dj⟩)

theorem StRel.set_repLen (sr : StRel gs s tbl p) (lc' : T_lengthCodec) (tbl' : Tbl)
    (o : Out (inBlk aRepLen 514) tbl tbl') (tok : tbl'.ok) (lr : LenRel lc' tbl' aRepLen) :
    StRel { gs with repLenCodec := lc' } s tbl' p :=
  sr.retable _ o tok rfl rfl rfl rfl
    (Or.inl ⟨rfl, by dj⟩) (Or.inl ⟨rfl, by dj⟩) (Or.inl ⟨rfl, by dj⟩) (Or.inl ⟨rfl, by dj⟩)
    (Or.inl ⟨rfl, by dj⟩) (Or.inl ⟨rfl, by dj⟩) (Or.inl ⟨rfl, by dj⟩) (Or.inr lr)
    (Or.inl ⟨rfl, by dj⟩) (Or.inl ⟨rfl, by dj⟩)

theorem StRel.set_dist (sr : StRel gs s tbl p) (dc' : T_distCodec) (tbl' : Tbl)
    (o : Out (inBlk aDist 396) tbl tbl') (tok : tbl'.ok) (dr : DistRel dc' tbl') :
    StRel { gs with distCodec := dc' } s tbl' p :=
  sr.retable _ o tok rfl rfl rfl rfl
    (Or.inl ⟨rfl, by dj⟩) (Or.inl ⟨rfl, by dj⟩) (Or.inl ⟨rfl, by dj⟩) (Or.inl ⟨rfl, by dj⟩)
    (Or.inl ⟨rfl, by dj⟩) (Or.inl ⟨rfl, by dj⟩) (Or.inl ⟨rfl, by dj⟩) (Or.inl ⟨rfl, by dj⟩)
    (Or.inr dr) (Or.inl ⟨rfl, by dj⟩)

theorem StRel.set_lit (sr : StRel gs s tbl p) (c' : T_literalCodec) (tbl' : Tbl)
    (o : Out (fun a => aLit ≤ a) tbl tbl') (tok : tbl'.ok) (lr : LitRel c' tbl' (0x300 * 2 ^ (p.lc + p.lp))) :
    StRel { gs with litCodec := c' } s tbl' p :=
  sr.retable _ o tok rfl rfl rfl rfl
    (Or.inl ⟨rfl, by dj⟩) (Or.inl ⟨rfl, by dj⟩) (Or.inl ⟨rfl, by dj⟩) (Or.inl ⟨rfl, by dj⟩)
    (Or.inl ⟨rfl, by dj⟩) (Or.inl ⟨rfl, by dj⟩) (Or.inl ⟨rfl, by dj⟩) (Or.inl ⟨rfl, by dj⟩)
    (Or.inl ⟨rfl, by dj⟩) (Or.inr lr)

end sets

/-! ### `decoder.readOp` cut into its branches -/

/-- the common tail of the four long-rep cases: the length, then the state update -/
def repTail (fuel : Nat) (d : GoSrc.T_decoder) (posState dist : BitVec 32) :
    Go.Res (GoSrc.S_operation × Go.Err × GoSrc.T_decoder) :=
  Go.Res.bind (GoSrc.lengthCodec_Decode fuel d.State.repLenCodec d.rd posState) (fun (r_41, r_42, m_43, m_44) =>
  let d := { d with State := { d.State with repLenCodec := m_43 } }
  let d := { d with rd := m_44 }
  let n_1 : (BitVec 32) := r_41
  let err := r_42
  if (err != Go.Err.nil) then
    Go.Res.ok (GoSrc.S_operation.none, err, d)
  else
    let m_45 := GoSrc.state_updateStateRep d.State
    let d := { d with State := m_45 }
    let op := (GoSrc.S_operation.match_ ({ distance := ((BitVec.setWidth 64 dist) + (1#64)), n := ((BitVec.setWidth 64 n_1) + (2#64)) } : GoSrc.T_match))
    Go.Res.ok (op, Go.Err.nil, d))

/-- after `isRep` said 0: a plain match -/
def matchTail (fuel : Nat) (d : GoSrc.T_decoder) (posState : BitVec 32) :
    Go.Res (GoSrc.S_operation × Go.Err × GoSrc.T_decoder) :=
  let t_18 := (d.State.rep.getD 2 (0#32))
  let t_19 := (d.State.rep.getD 1 (0#32))
  let t_20 := (d.State.rep.getD 0 (0#32))
  let d := { d with State := { d.State with rep := (d.State.rep.setIfInBounds 3 t_18) } }
  let d := { d with State := { d.State with rep := (d.State.rep.setIfInBounds 2 t_19) } }
  let d := { d with State := { d.State with rep := (d.State.rep.setIfInBounds 1 t_20) } }
  let m_21 := GoSrc.state_updateStateMatch d.State
  let d := { d with State := m_21 }
  Go.Res.bind (GoSrc.lengthCodec_Decode fuel d.State.lenCodec d.rd posState) (fun (r_22, r_23, m_24, m_25) =>
  let d := { d with State := { d.State with lenCodec := m_24 } }
  let d := { d with rd := m_25 }
  let n : (BitVec 32) := r_22
  let err_2 : Go.Err := r_23
  if (err_2 != Go.Err.nil) then
    Go.Res.ok (GoSrc.S_operation.none, err_2, d)
  else
    Go.Res.bind (GoSrc.distCodec_Decode fuel d.State.distCodec d.rd n) (fun (r_26, r_27, m_28, m_29) =>
    let d := { d with State := { d.State with distCodec := m_28 } }
    let d := { d with rd := m_29 }
    let d := { d with State := { d.State with rep := (d.State.rep.setIfInBounds 0 r_26) } }
    let err_2 := r_27
    if (err_2 != Go.Err.nil) then
      Go.Res.ok (GoSrc.S_operation.none, err_2, d)
    else
      if ((d.State.rep.getD 0 (0#32)) == (4294967295#32)) then
        let d := { d with eosMarker := true }
        Go.Res.ok (GoSrc.S_operation.none, (Go.Err.named "errEOS"), d)
      else
        let op := (GoSrc.S_operation.match_ ({ distance := ((BitVec.setWidth 64 (d.State.rep.getD 0 (0#32))) + (1#64)), n := ((BitVec.setWidth 64 n) + (2#64)) } : GoSrc.T_match))
        Go.Res.ok (op, Go.Err.nil, d)))

/-- after `isRepG0` said 0: short rep or rep0 -/
def g0Tail (fuel : Nat) (d : GoSrc.T_decoder) (state2 posState dist : BitVec 32) :
    Go.Res (GoSrc.S_operation × Go.Err × GoSrc.T_decoder) :=
  let i_35 := (state2).toNat
  if d.State.isRepG0Long.size ≤ i_35 then Go.Res.panic "index out of range" else
  let (r_36, r_37, m_38, m_39) := GoSrc.prob_Decode (d.State.isRepG0Long.getD i_35 (0#16)) d.rd
  let d := { d with State := { d.State with isRepG0Long := (d.State.isRepG0Long.setIfInBounds i_35 m_38) } }
  let d := { d with rd := m_39 }
  let b := r_36
  let err := r_37
  if (err != Go.Err.nil) then
    Go.Res.ok (GoSrc.S_operation.none, err, d)
  else
    if (b == (0#32)) then
      let m_40 := GoSrc.state_updateStateShortRep d.State
      let d := { d with State := m_40 }
      let op := (GoSrc.S_operation.match_ ({ distance := ((BitVec.setWidth 64 dist) + (1#64)), n := (1#64) } : GoSrc.T_match))
      Go.Res.ok (op, Go.Err.nil, d)
    else
      repTail fuel d posState dist

/-- after `isRepG1` said 1: rep2 or rep3 -/
def g2Tail (fuel : Nat) (d : GoSrc.T_decoder) (state posState : BitVec 32) :
    Go.Res (GoSrc.S_operation × Go.Err × GoSrc.T_decoder) :=
  let i_56 := (state).toNat
  if d.State.isRepG2.size ≤ i_56 then Go.Res.panic "index out of range" else
  let (r_57, r_58, m_59, m_60) := GoSrc.prob_Decode (d.State.isRepG2.getD i_56 (0#16)) d.rd
  let d := { d with State := { d.State with isRepG2 := (d.State.isRepG2.setIfInBounds i_56 m_59) } }
  let d := { d with rd := m_60 }
  let b := r_57
  let err := r_58
  if (err != Go.Err.nil) then
    Go.Res.ok (GoSrc.S_operation.none, err, d)
  else
    if (b == (0#32)) then
      let dist := (d.State.rep.getD 2 (0#32))
      let d := { d with State := { d.State with rep := (d.State.rep.setIfInBounds 2 (d.State.rep.getD 1 (0#32))) } }
      let d := { d with State := { d.State with rep := (d.State.rep.setIfInBounds 1 (d.State.rep.getD 0 (0#32))) } }
      let d := { d with State := { d.State with rep := (d.State.rep.setIfInBounds 0 dist) } }
      repTail fuel d posState dist
    else
      let dist := (d.State.rep.getD 3 (0#32))
      let d := { d with State := { d.State with rep := (d.State.rep.setIfInBounds 3 (d.State.rep.getD 2 (0#32))) } }
      let d := { d with State := { d.State with rep := (d.State.rep.setIfInBounds 2 (d.State.rep.getD 1 (0#32))) } }
      let d := { d with State := { d.State with rep := (d.State.rep.setIfInBounds 1 (d.State.rep.getD 0 (0#32))) } }
      let d := { d with State := { d.State with rep := (d.State.rep.setIfInBounds 0 dist) } }
      repTail fuel d posState dist

/-- after `isRepG0` said 1: rep1, rep2 or rep3 -/
def g1Tail (fuel : Nat) (d : GoSrc.T_decoder) (state posState : BitVec 32) :
    Go.Res (GoSrc.S_operation × Go.Err × GoSrc.T_decoder) :=
  let i_46 := (state).toNat
  if d.State.isRepG1.size ≤ i_46 then Go.Res.panic "index out of range" else
  let (r_47, r_48, m_49, m_50) := GoSrc.prob_Decode (d.State.isRepG1.getD i_46 (0#16)) d.rd
  let d := { d with State := { d.State with isRepG1 := (d.State.isRepG1.setIfInBounds i_46 m_49) } }
  let d := { d with rd := m_50 }
  let b := r_47
  let err := r_48
  if (err != Go.Err.nil) then
    Go.Res.ok (GoSrc.S_operation.none, err, d)
  else
    if (b == (0#32)) then
      let dist := (d.State.rep.getD 1 (0#32))
      let d := { d with State := { d.State with rep := (d.State.rep.setIfInBounds 1 (d.State.rep.getD 0 (0#32))) } }
      let d := { d with State := { d.State with rep := (d.State.rep.setIfInBounds 0 dist) } }
      repTail fuel d posState dist
    else
      g2Tail fuel d state posState

/-- after `isRep` said 1: one of the rep cases -/
def repBranch (fuel : Nat) (d : GoSrc.T_decoder) (state state2 posState : BitVec 32) :
    Go.Res (GoSrc.S_operation × Go.Err × GoSrc.T_decoder) :=
  let i_30 := (state).toNat
  if d.State.isRepG0.size ≤ i_30 then Go.Res.panic "index out of range" else
  let (r_31, r_32, m_33, m_34) := GoSrc.prob_Decode (d.State.isRepG0.getD i_30 (0#16)) d.rd
  let d := { d with State := { d.State with isRepG0 := (d.State.isRepG0.setIfInBounds i_30 m_33) } }
  let d := { d with rd := m_34 }
  let b := r_31
  let err := r_32
  if (err != Go.Err.nil) then
    Go.Res.ok (GoSrc.S_operation.none, err, d)
  else
    let dist : (BitVec 32) := (d.State.rep.getD 0 (0#32))
    if (b == (0#32)) then
      g0Tail fuel d state2 posState dist
    else
      g1Tail fuel d state posState

/-- after `isMatch` said 0: a literal -/
def litTail (fuel : Nat) (d : GoSrc.T_decoder) : Go.Res (GoSrc.S_operation × Go.Err × GoSrc.T_decoder) :=
  Go.Res.bind (GoSrc.decoder_decodeLiteral fuel d) (fun (r_9, r_10, m_11) =>
  let d := m_11
  let op_1 : GoSrc.S_operation := r_9
  let err_1 : Go.Err := r_10
  if (err_1 != Go.Err.nil) then
    Go.Res.ok (GoSrc.S_operation.none, err_1, d)
  else
    let m_12 := GoSrc.state_updateStateLiteral d.State
    let d := { d with State := m_12 }
    Go.Res.ok (op_1, Go.Err.nil, d))

/-- after `isMatch` said 1 -/
def matchBranch (fuel : Nat) (d : GoSrc.T_decoder) (state state2 posState : BitVec 32) :
    Go.Res (GoSrc.S_operation × Go.Err × GoSrc.T_decoder) :=
  let i_13 := (state).toNat
  if d.State.isRep.size ≤ i_13 then Go.Res.panic "index out of range" else
  let (r_14, r_15, m_16, m_17) := GoSrc.prob_Decode (d.State.isRep.getD i_13 (0#16)) d.rd
  let d := { d with State := { d.State with isRep := (d.State.isRep.setIfInBounds i_13 m_16) } }
  let d := { d with rd := m_17 }
  let b := r_14
  let err := r_15
  if (err != Go.Err.nil) then
    Go.Res.ok (GoSrc.S_operation.none, err, d)
  else
    if (b == (0#32)) then
      matchTail fuel d posState
    else
      repBranch fuel d state state2 posState

def readOpBody (fuel : Nat) (d : GoSrc.T_decoder) (state state2 posState : BitVec 32) :
    Go.Res (GoSrc.S_operation × Go.Err × GoSrc.T_decoder) :=
  let i_4 := (state2).toNat
  if d.State.isMatch.size ≤ i_4 then Go.Res.panic "index out of range" else
  let (r_5, r_6, m_7, m_8) := GoSrc.prob_Decode (d.State.isMatch.getD i_4 (0#16)) d.rd
  let d := { d with State := { d.State with isMatch := (d.State.isMatch.setIfInBounds i_4 m_7) } }
  let d := { d with rd := m_8 }
  let b : (BitVec 32) := r_5
  let err := r_6
  if (err != Go.Err.nil) then
    Go.Res.ok (GoSrc.S_operation.none, err, d)
  else
    if (b == (0#32)) then
      litTail fuel d
    else
      matchBranch fuel d state state2 posState

theorem readOp_eq (fuel : Nat) (d : GoSrc.T_decoder) :
    decoder_readOp fuel d =
      readOpBody fuel d (state_states d.State d.Dict.head).1 (state_states d.State d.Dict.head).2.1
        (state_states d.State d.Dict.head).2.2 := by
  unfold decoder_readOp readOpBody litTail matchBranch matchTail repBranch g0Tail g1Tail g2Tail repTail
  rfl

/-! ### small facts -/

theorem eofNe : (Go.Err.named "io.EOF" != Go.Err.nil) = true := by decide
theorem nilNe : (Go.Err.nil != Go.Err.nil) = false := by decide

theorem w64_add1 (x : BitVec 32) (n : Nat) (h : x.toNat = n) :
    BitVec.setWidth 64 x + 1#64 = BitVec.ofNat 64 (n + 1) := by
  have := x.isLt
  apply BitVec.eq_of_toNat_eq
  simp only [BitVec.toNat_add, BitVec.toNat_setWidth, BitVec.toNat_ofNat, h]
  omega

theorem w64_add2 (n : Nat) (h : n < 2 ^ 32) :
    BitVec.setWidth 64 (BitVec.ofNat 32 n) + 2#64 = BitVec.ofNat 64 (n + 2) := by
  apply BitVec.eq_of_toNat_eq
  simp only [BitVec.toNat_add, BitVec.toNat_setWidth, BitVec.toNat_ofNat]
  omega

theorem updRep_lt (n : Nat) : updRep n < 12 := by unfold updRep; split <;> omega
theorem updMatch_lt (n : Nat) : updMatch n < 12 := by unfold updMatch; split <;> omega
theorem updShortRep_lt (n : Nat) : updShortRep n < 12 := by unfold updShortRep; split <;> omega
theorem updLit_lt (n : Nat) (h : n < 12) : updLit n < 12 := by unfold updLit; split <;> (try split) <;> omega

theorem ofNat32_small (n : Nat) (h : n < 12) : (BitVec.ofNat 32 n).toNat = n := by
  simp only [BitVec.toNat_ofNat]; omega

/-! ### the branches -/

theorem repTail_spec (fuel : Nat) (gd : T_decoder) (sm : St) (tbl : Tbl) (p : Props) (d : Rc.Dec)
    (posState dist : BitVec 32) (ps : Nat)
    (sr : StRel gd.State sm tbl p) (rel : DecRel gd.rd d) (inv : DecInv d)
    (hps : posState.toNat = ps) (hps16 : ps < 16) (hfuel : 60 ≤ fuel) (hdist : dist.toNat = sm.r0) :
    match decTree pm (lenDec aRepLen ps) tbl d with
    | none => ∃ op g', repTail fuel gd posState dist = Go.Res.ok (op, Go.Err.named "io.EOF", g')
    | some (n, tbl', d') =>
      ∃ g', repTail fuel gd posState dist
          = Go.Res.ok (S_operation.match_ { distance := BitVec.ofNat 64 (sm.r0 + 1), n := BitVec.ofNat 64 (n + 2) },
              Go.Err.nil, g')
        ∧ g'.eosMarker = gd.eosMarker ∧ StRel g'.State { sm with st := updRep sm.st } tbl' p ∧ DecRel g'.rd d'
        ∧ DecInv d' ∧ g'.Dict = gd.Dict := by
  have h := lengthCodec_Decode_refines fuel gd.State.repLenCodec gd.rd d posState tbl aRepLen rel inv sr.tok
    sr.repLen (by omega) hfuel
  rw [hps] at h
  unfold repTail
  cases hp : decTree pm (lenDec aRepLen ps) tbl d with
  | none =>
    rw [hp] at h
    obtain ⟨v, lc', g', hg⟩ := h
    simp only [hg, Go.Res.bind_ok, eofNe, if_true]
    exact ⟨_, _, rfl⟩
  | some r =>
    obtain ⟨n, tbl', d'⟩ := r
    rw [hp] at h
    obtain ⟨lc', g', hg, rel', inv', tok', hn, lr'⟩ := h
    have o := decTree_out _ _ _ _ _ _ _ (lenDec_ask aRepLen ps hps16) hp
    have sr1 := sr.set_repLen lc' tbl' o tok' lr'
    simp only [hg, Go.Res.bind_ok, nilNe, Bool.false_eq_true, if_false, updateStateRep_spec]
    refine ⟨_, congrArg Go.Res.ok (Prod.ext ?_ rfl), rfl, ?_, rel', inv', rfl⟩
    · show S_operation.match_ _ = S_operation.match_ _
      rw [w64_add1 dist _ hdist, w64_add2 n (by omega)]
    · refine sr1.reregs rfl rfl rfl rfl rfl rfl rfl rfl rfl rfl rfl rfl ?_ (updRep_lt _) sr.rsize sr.r0 sr.r1 sr.r2 sr.r3
      show (BitVec.ofNat 32 (updRep gd.State.state.toNat)).toNat = updRep sm.st
      rw [sr.st, ofNat32_small _ (updRep_lt _)]

/-- the conclusion of `readOp_refines` for a result `res` of (a tail of) `readOp` against the model's result -/
def Post (s : St) (p : Props) (eos : Bool) (dict : T_decoderDict) (res : Go.Res (S_operation × Go.Err × T_decoder)) :
    Option (RawOp × Tbl × Rc.Dec) → Prop
  | none => ∃ op g', res = Go.Res.ok (op, Go.Err.named "io.EOF", g')
  | some (op, tbl', d') =>
    if op = RawOp.mtch (match op with | .mtch len _ => len | _ => 0) eosDist then
      ∃ g', res = Go.Res.ok (S_operation.none, Go.Err.named "errEOS", g')
        ∧ g'.eosMarker = true ∧ StRel g'.State (s.apply op) tbl' p ∧ DecRel g'.rd d' ∧ DecInv d' ∧ g'.Dict = dict
    else
      ∃ g', res = Go.Res.ok (goOpOf (s.apply op) op, Go.Err.nil, g')
        ∧ g'.eosMarker = eos ∧ StRel g'.State (s.apply op) tbl' p ∧ DecRel g'.rd d' ∧ DecInv d'
        ∧ g'.Dict = dict

theorem Post.eof {s : St} {p : Props} {eos : Bool} {dict : T_decoderDict}
    {res : Go.Res (S_operation × Go.Err × T_decoder)}
    (h : ∃ op g', res = Go.Res.ok (op, Go.Err.named "io.EOF", g')) : Post s p eos dict res none := h

theorem Post.of_ne {s : St} {p : Props} {eos : Bool} {dict : T_decoderDict}
    {res : Go.Res (S_operation × Go.Err × T_decoder)} (op : RawOp) (tbl' : Tbl) (d' : Rc.Dec)
    (hne : ∀ l, op ≠ RawOp.mtch l eosDist)
    (h : ∃ g', res = Go.Res.ok (goOpOf (s.apply op) op, Go.Err.nil, g')
        ∧ g'.eosMarker = eos ∧ StRel g'.State (s.apply op) tbl' p ∧ DecRel g'.rd d' ∧ DecInv d'
        ∧ g'.Dict = dict) : Post s p eos dict res (some (op, tbl', d')) := by
  show (if _ then _ else _)
  rw [if_neg (hne _)]
  exact h

theorem Post.of_eos {s : St} {p : Props} {eos : Bool} {dict : T_decoderDict}
    {res : Go.Res (S_operation × Go.Err × T_decoder)} (len : Nat) (tbl' : Tbl) (d' : Rc.Dec)
    (h : ∃ g', res = Go.Res.ok (S_operation.none, Go.Err.named "errEOS", g')
        ∧ g'.eosMarker = true ∧ StRel g'.State (s.apply (.mtch len eosDist)) tbl' p ∧ DecRel g'.rd d' ∧ DecInv d'
        ∧ g'.Dict = dict) : Post s p eos dict res (some (.mtch len eosDist, tbl', d')) := by
  show (if _ then _ else _)
  rw [if_pos rfl]
  exact h

/-- one of the four long-rep cases, after the registers were rotated into `sm` -/
theorem rep_case (fuel : Nat) (gd : T_decoder) (s sm : St) (tbl : Tbl) (p : Props) (d : Rc.Dec)
    (posState dist : BitVec 32) (c : Ctx) (gi : Nat)
    (sr : StRel gd.State sm tbl p) (rel : DecRel gd.rd d) (inv : DecInv d)
    (hps : posState.toNat = c.ps) (hps16 : c.ps < 16) (hfuel : 60 ≤ fuel) (hdist : dist.toNat = sm.r0)
    (happ : ∀ len, s.apply (.rep gi len) = { sm with st := updRep sm.st }) :
    Post s p gd.eosMarker gd.Dict (repTail fuel gd posState dist) (decTree pm (repLenDec c gi) tbl d) := by
  have h := repTail_spec fuel gd sm tbl p d posState dist c.ps sr rel inv hps hps16 hfuel hdist
  unfold repLenDec
  rw [decTree_map']
  cases hp : decTree pm (lenDec aRepLen c.ps) tbl d with
  | none =>
    rw [hp] at h
    exact Post.eof h
  | some r =>
    obtain ⟨n, tbl', d'⟩ := r
    rw [hp] at h
    obtain ⟨g', hg, h1, h2, h3, h4, h5⟩ := h
    refine Post.of_ne _ _ _ (fun l hh => by cases hh) ⟨g', ?_, h1, ?_, h3, h4, h5⟩
    · rw [hg, happ]; rfl
    · rw [happ]; exact h2

theorem g2Tail_spec (fuel : Nat) (gd : T_decoder) (s : St) (tbl : Tbl) (p : Props) (d : Rc.Dec)
    (state posState : BitVec 32) (pos : Nat) (bat : Nat → Nat)
    (sr : StRel gd.State s tbl p) (rel : DecRel gd.rd d) (inv : DecInv d)
    (hstate : state.toNat = s.st) (hps : posState.toNat = pos % 2 ^ p.pb) (hps16 : pos % 2 ^ p.pb < 16)
    (hfuel : 60 ≤ fuel) :
    Post s p gd.eosMarker gd.Dict (g2Tail fuel gd state posState)
      (decTree pm (.ask (.adaptive (aIsRepG2 + s.st)) (fun b =>
          if !b then repLenDec (ctxOf p s pos bat) 2 else repLenDec (ctxOf p s pos bat) 3)) tbl d) := by
  have hlt := sr.stlt
  have hsz : ¬ gd.State.isRepG2.size ≤ s.st := by rw [sr.isRepG2.size]; omega
  have key := choice_dec (gd.State.isRepG2.getD s.st 0#16) gd.rd d tbl (aIsRepG2 + s.st) rel inv sr.tok
    (sr.isRepG2.val _ hlt)
  unfold g2Tail
  rw [decTree_ask]
  cases hs : d.step (some (tbl.get (aIsRepG2 + s.st))) with
  | none =>
    rw [hs] at key
    obtain ⟨b, p', g', hg⟩ := key
    simp only [hstate, hsz, if_false, hg, eofNe, if_true]
    exact Post.eof ⟨_, _, rfl⟩
  | some bd =>
    obtain ⟨bit, d1⟩ := bd
    rw [hs] at key
    obtain ⟨p1, g1, hg, rel1, inv1, tok1, hp1⟩ := key
    have sr1 := sr.set_isRepG2 s.st hlt p1 _ hp1 tok1
    have hrs := sr.rsize
    simp only [hstate, hsz, if_false, hg, nilNe, Bool.false_eq_true]
    cases bit with
    | false =>
      simp only [bit0_beq, if_true, Bool.not_false]
      refine rep_case fuel _ s { s with r0 := s.r2, r1 := s.r0, r2 := s.r1 } _ p d1 posState _ (ctxOf p s pos bat) 2
        ?_ rel1 inv1 hps hps16 hfuel sr.r2 (fun _ => rfl)
      refine sr1.reregs rfl rfl rfl rfl rfl rfl rfl rfl rfl rfl rfl rfl sr.st hlt ?_ ?_ ?_ ?_ ?_
      · simp only [Array.size_setIfInBounds]; exact hrs
      · simpa [getD_setIfInBounds, hrs] using sr.r2
      · simpa [getD_setIfInBounds, hrs] using sr.r0
      · simpa [getD_setIfInBounds, hrs] using sr.r1
      · simpa [getD_setIfInBounds, hrs] using sr.r3
    | true =>
      simp only [bit1_beq, Bool.false_eq_true, if_false, Bool.not_true]
      refine rep_case fuel _ s { s with r0 := s.r3, r1 := s.r0, r2 := s.r1, r3 := s.r2 } _ p d1 posState _
        (ctxOf p s pos bat) 3 ?_ rel1 inv1 hps hps16 hfuel sr.r3 (fun _ => rfl)
      refine sr1.reregs rfl rfl rfl rfl rfl rfl rfl rfl rfl rfl rfl rfl sr.st hlt ?_ ?_ ?_ ?_ ?_
      · simp only [Array.size_setIfInBounds]; exact hrs
      · simpa [getD_setIfInBounds, hrs] using sr.r3
      · simpa [getD_setIfInBounds, hrs] using sr.r0
      · simpa [getD_setIfInBounds, hrs] using sr.r1
      · simpa [getD_setIfInBounds, hrs] using sr.r2

theorem g1Tail_spec (fuel : Nat) (gd : T_decoder) (s : St) (tbl : Tbl) (p : Props) (d : Rc.Dec)
    (state posState : BitVec 32) (pos : Nat) (bat : Nat → Nat)
    (sr : StRel gd.State s tbl p) (rel : DecRel gd.rd d) (inv : DecInv d)
    (hstate : state.toNat = s.st) (hps : posState.toNat = pos % 2 ^ p.pb) (hps16 : pos % 2 ^ p.pb < 16)
    (hfuel : 60 ≤ fuel) :
    Post s p gd.eosMarker gd.Dict (g1Tail fuel gd state posState)
      (decTree pm (.ask (.adaptive (aIsRepG1 + s.st)) (fun b =>
          if !b then repLenDec (ctxOf p s pos bat) 1
          else .ask (.adaptive (aIsRepG2 + s.st)) (fun b =>
            if !b then repLenDec (ctxOf p s pos bat) 2 else repLenDec (ctxOf p s pos bat) 3))) tbl d) := by
  have hlt := sr.stlt
  have hsz : ¬ gd.State.isRepG1.size ≤ s.st := by rw [sr.isRepG1.size]; omega
  have key := choice_dec (gd.State.isRepG1.getD s.st 0#16) gd.rd d tbl (aIsRepG1 + s.st) rel inv sr.tok
    (sr.isRepG1.val _ hlt)
  unfold g1Tail
  rw [decTree_ask]
  cases hs : d.step (some (tbl.get (aIsRepG1 + s.st))) with
  | none =>
    rw [hs] at key
    obtain ⟨b, p', g', hg⟩ := key
    simp only [hstate, hsz, if_false, hg, eofNe, if_true]
    exact Post.eof ⟨_, _, rfl⟩
  | some bd =>
    obtain ⟨bit, d1⟩ := bd
    rw [hs] at key
    obtain ⟨p1, g1, hg, rel1, inv1, tok1, hp1⟩ := key
    have sr1 := sr.set_isRepG1 s.st hlt p1 _ hp1 tok1
    have hrs := sr.rsize
    simp only [hstate, hsz, if_false, hg, nilNe, Bool.false_eq_true]
    cases bit with
    | false =>
      simp only [bit0_beq, if_true, Bool.not_false]
      refine rep_case fuel _ s { s with r0 := s.r1, r1 := s.r0 } _ p d1 posState _ (ctxOf p s pos bat) 1
        ?_ rel1 inv1 hps hps16 hfuel sr.r1 (fun _ => rfl)
      refine sr1.reregs rfl rfl rfl rfl rfl rfl rfl rfl rfl rfl rfl rfl sr.st hlt ?_ ?_ ?_ ?_ ?_
      · simp only [Array.size_setIfInBounds]; exact hrs
      · simpa [getD_setIfInBounds, hrs] using sr.r1
      · simpa [getD_setIfInBounds, hrs] using sr.r0
      · simpa [getD_setIfInBounds, hrs] using sr.r2
      · simpa [getD_setIfInBounds, hrs] using sr.r3
    | true =>
      simp only [bit1_beq, Bool.false_eq_true, if_false, Bool.not_true]
      exact g2Tail_spec fuel _ s _ p d1 state posState pos bat sr1 rel1 inv1 hstate hps hps16 hfuel

theorem g0Tail_spec (fuel : Nat) (gd : T_decoder) (s : St) (tbl : Tbl) (p : Props) (d : Rc.Dec)
    (state2 posState dist : BitVec 32) (pos : Nat) (bat : Nat → Nat)
    (sr : StRel gd.State s tbl p) (rel : DecRel gd.rd d) (inv : DecInv d)
    (hstate2 : state2.toNat = s.st * 16 + pos % 2 ^ p.pb) (hps : posState.toNat = pos % 2 ^ p.pb)
    (hps16 : pos % 2 ^ p.pb < 16) (hdist : dist.toNat = s.r0) (hfuel : 60 ≤ fuel) :
    Post s p gd.eosMarker gd.Dict (g0Tail fuel gd state2 posState dist)
      (decTree pm (.ask (.adaptive (aIsRepG0Long + s.st * 16 + pos % 2 ^ p.pb)) (fun b =>
          if !b then .ret .shortRep else repLenDec (ctxOf p s pos bat) 0)) tbl d) := by
  have hlt := sr.stlt
  have hi : s.st * 16 + pos % 2 ^ p.pb < 192 := by omega
  have hsz : ¬ gd.State.isRepG0Long.size ≤ s.st * 16 + pos % 2 ^ p.pb := by rw [sr.isRepG0Long.size]; omega
  have key := choice_dec (gd.State.isRepG0Long.getD (s.st * 16 + pos % 2 ^ p.pb) 0#16) gd.rd d tbl
    (aIsRepG0Long + s.st * 16 + pos % 2 ^ p.pb) rel inv sr.tok
    (by rw [Nat.add_assoc]; exact sr.isRepG0Long.val _ hi)
  unfold g0Tail
  rw [decTree_ask]
  cases hs : d.step (some (tbl.get (aIsRepG0Long + s.st * 16 + pos % 2 ^ p.pb))) with
  | none =>
    rw [hs] at key
    obtain ⟨b, p', g', hg⟩ := key
    simp only [hstate2, hsz, if_false, hg, eofNe, if_true]
    exact Post.eof ⟨_, _, rfl⟩
  | some bd =>
    obtain ⟨bit, d1⟩ := bd
    rw [hs] at key
    obtain ⟨p1, g1, hg, rel1, inv1, tok1, hp1⟩ := key
    have sr1 := sr.set_isRepG0Long (s.st * 16 + pos % 2 ^ p.pb) hi p1 _ hp1 (by rw [← Nat.add_assoc]; exact tok1)
    rw [← Nat.add_assoc] at sr1
    simp only [hstate2, hsz, if_false, hg, nilNe, Bool.false_eq_true]
    cases bit with
    | false =>
      simp only [bit0_beq, if_true, Bool.not_false, updateStateShortRep_spec, decTree]
      refine Post.of_ne _ _ _ (fun l hh => by cases hh) ⟨_, congrArg Go.Res.ok (Prod.ext ?_ rfl), rfl, ?_, rel1, inv1, rfl⟩
      · show S_operation.match_ _ = S_operation.match_ _
        rw [w64_add1 dist _ hdist]; rfl
      · refine sr1.reregs rfl rfl rfl rfl rfl rfl rfl rfl rfl rfl rfl rfl ?_ (updShortRep_lt _) sr.rsize sr.r0 sr.r1
          sr.r2 sr.r3
        show (BitVec.ofNat 32 (updShortRep gd.State.state.toNat)).toNat = updShortRep s.st
        rw [sr.st, ofNat32_small _ (updShortRep_lt _)]
    | true =>
      simp only [bit1_beq, Bool.false_eq_true, if_false, Bool.not_true]
      exact rep_case fuel _ s s _ p d1 posState dist (ctxOf p s pos bat) 0 sr1 rel1 inv1 hps hps16 hfuel hdist
        (fun _ => rfl)

theorem repBranch_spec (fuel : Nat) (gd : T_decoder) (s : St) (tbl : Tbl) (p : Props) (d : Rc.Dec)
    (state state2 posState : BitVec 32) (pos : Nat) (bat : Nat → Nat)
    (sr : StRel gd.State s tbl p) (rel : DecRel gd.rd d) (inv : DecInv d)
    (hstate : state.toNat = s.st) (hstate2 : state2.toNat = s.st * 16 + pos % 2 ^ p.pb)
    (hps : posState.toNat = pos % 2 ^ p.pb) (hps16 : pos % 2 ^ p.pb < 16) (hfuel : 60 ≤ fuel) :
    Post s p gd.eosMarker gd.Dict (repBranch fuel gd state state2 posState)
      (decTree pm (.ask (.adaptive (aIsRepG0 + s.st)) (fun b =>
        if !b then
          .ask (.adaptive (aIsRepG0Long + s.st * 16 + pos % 2 ^ p.pb)) (fun b =>
            if !b then .ret .shortRep else repLenDec (ctxOf p s pos bat) 0)
        else .ask (.adaptive (aIsRepG1 + s.st)) (fun b =>
          if !b then repLenDec (ctxOf p s pos bat) 1
          else .ask (.adaptive (aIsRepG2 + s.st)) (fun b =>
            if !b then repLenDec (ctxOf p s pos bat) 2 else repLenDec (ctxOf p s pos bat) 3)))) tbl d) := by
  have hlt := sr.stlt
  have hsz : ¬ gd.State.isRepG0.size ≤ s.st := by rw [sr.isRepG0.size]; omega
  have key := choice_dec (gd.State.isRepG0.getD s.st 0#16) gd.rd d tbl (aIsRepG0 + s.st) rel inv sr.tok
    (sr.isRepG0.val _ hlt)
  unfold repBranch
  rw [decTree_ask]
  cases hs : d.step (some (tbl.get (aIsRepG0 + s.st))) with
  | none =>
    rw [hs] at key
    obtain ⟨b, p', g', hg⟩ := key
    simp only [hstate, hsz, if_false, hg, eofNe, if_true]
    exact Post.eof ⟨_, _, rfl⟩
  | some bd =>
    obtain ⟨bit, d1⟩ := bd
    rw [hs] at key
    obtain ⟨p1, g1, hg, rel1, inv1, tok1, hp1⟩ := key
    have sr1 := sr.set_isRepG0 s.st hlt p1 _ hp1 tok1
    simp only [hstate, hsz, if_false, hg, nilNe, Bool.false_eq_true]
    cases bit with
    | false =>
      simp only [bit0_beq, if_true, Bool.not_false]
      exact g0Tail_spec fuel _ s _ p d1 state2 posState _ pos bat sr1 rel1 inv1 hstate2 hps hps16 sr.r0 hfuel
    | true =>
      simp only [bit1_beq, Bool.false_eq_true, if_false, Bool.not_true]
      exact g1Tail_spec fuel _ s _ p d1 state posState pos bat sr1 rel1 inv1 hstate hps hps16 hfuel

theorem eos_beq (dd : Nat) (h : dd < 2 ^ 32) : (BitVec.ofNat 32 dd == 4294967295#32) = decide (dd = eosDist) := by
  unfold eosDist
  by_cases hd : dd = 0xFFFFFFFF
  · subst hd; decide
  · rw [decide_eq_false hd]
    apply Bool.eq_false_iff.2
    intro hh
    have := congrArg BitVec.toNat (eq_of_beq hh)
    simp only [BitVec.toNat_ofNat] at this
    omega

theorem matchTail_spec (fuel : Nat) (gd : T_decoder) (s : St) (tbl : Tbl) (p : Props) (d : Rc.Dec)
    (posState : BitVec 32) (ps : Nat)
    (sr : StRel gd.State s tbl p) (rel : DecRel gd.rd d) (inv : DecInv d)
    (hps : posState.toNat = ps) (hps16 : ps < 16) (hfuel : 80 ≤ fuel) :
    Post s p gd.eosMarker gd.Dict (matchTail fuel gd posState)
      (decTree pm ((lenDec aLen ps).bind (fun n => DecTree.map (distDec n) (fun dd => RawOp.mtch (n + 2) dd)))
        tbl d) := by
  have h := lengthCodec_Decode_refines fuel gd.State.lenCodec gd.rd d posState tbl aLen rel inv sr.tok
    sr.len (by omega) (by omega)
  rw [hps] at h
  have hrs := sr.rsize
  unfold matchTail
  rw [decTree_bind]
  simp only [updateStateMatch_spec]
  cases hp : decTree pm (lenDec aLen ps) tbl d with
  | none =>
    rw [hp] at h
    obtain ⟨v, lc', g', hg⟩ := h
    simp only [hg, Go.Res.bind_ok, eofNe, if_true]
    exact Post.eof ⟨_, _, rfl⟩
  | some r =>
    obtain ⟨n, tbl1, d1⟩ := r
    rw [hp] at h
    obtain ⟨lc', g1, hg, rel1, inv1, tok1, hn, lr1⟩ := h
    have o1 := decTree_out _ _ _ _ _ _ _ (lenDec_ask aLen ps hps16) hp
    have sr1 := sr.set_len lc' tbl1 o1 tok1 lr1
    have hnn : (BitVec.ofNat 32 n).toNat = n := by simp only [BitVec.toNat_ofNat]; omega
    have h2 := distCodec_Decode_refines fuel gd.State.distCodec g1 d1 (BitVec.ofNat 32 n) tbl1 rel1 inv1 tok1
      sr1.dist (by omega)
    rw [hnn] at h2
    simp only [hg, Go.Res.bind_ok, nilNe, Bool.false_eq_true, if_false]
    rw [decTree_map']
    cases hp2 : decTree pm (distDec n) tbl1 d1 with
    | none =>
      rw [hp2] at h2
      obtain ⟨v, dc', g', hg2⟩ := h2
      simp only [hg2, Go.Res.bind_ok, eofNe, if_true]
      exact Post.eof ⟨_, _, rfl⟩
    | some r2 =>
      obtain ⟨dd, tbl2, d2⟩ := r2
      rw [hp2] at h2
      obtain ⟨dc', g2, hg2, rel2, inv2, tok2, hdd, dr2⟩ := h2
      have o2 := decTree_out _ _ _ _ _ _ _ (distDec_ask n) hp2
      have sr2 := sr1.set_dist dc' tbl2 o2 tok2 dr2
      have hddn : (BitVec.ofNat 32 dd).toNat = dd := by simp only [BitVec.toNat_ofNat]; omega
      have hrep0 : ∀ (a b c x : BitVec 32),
          ((((gd.State.rep.setIfInBounds 3 a).setIfInBounds 2 b).setIfInBounds 1 c).setIfInBounds 0 x).getD 0 0#32
            = x := by
        intro a b c x; simp [hrs]
      have hst' : StRel
          { gd.State with
              rep := (((gd.State.rep.setIfInBounds 3 (gd.State.rep.getD 2 0#32)).setIfInBounds 2
                (gd.State.rep.getD 1 0#32)).setIfInBounds 1 (gd.State.rep.getD 0 0#32)).setIfInBounds 0
                (BitVec.ofNat 32 dd),
              state := BitVec.ofNat 32 (updMatch gd.State.state.toNat),
              lenCodec := lc', distCodec := dc' }
          { st := updMatch s.st, r0 := dd, r1 := s.r0, r2 := s.r1, r3 := s.r2 } tbl2 p := by
        refine sr2.reregs (s' := { st := updMatch s.st, r0 := dd, r1 := s.r0, r2 := s.r1, r3 := s.r2 })
          rfl rfl rfl rfl rfl rfl rfl rfl rfl rfl rfl rfl ?_ (updMatch_lt s.st) ?_ ?_ ?_ ?_ ?_
        · show (BitVec.ofNat 32 (updMatch gd.State.state.toNat)).toNat = updMatch s.st
          rw [sr.st, ofNat32_small _ (updMatch_lt _)]
        · simp only [Array.size_setIfInBounds]; exact hrs
        · exact (congrArg BitVec.toNat (hrep0 _ _ _ _)).trans hddn
        · simpa [getD_setIfInBounds, hrs] using sr.r0
        · simpa [getD_setIfInBounds, hrs] using sr.r1
        · simpa [getD_setIfInBounds, hrs] using sr.r2
      simp only [hg2, Go.Res.bind_ok, nilNe, Bool.false_eq_true, if_false, hrep0, eos_beq dd hdd]
      by_cases he : dd = eosDist
      · subst he
        simp only [decide_true, if_true]
        exact Post.of_eos _ _ _ ⟨_, rfl, rfl, hst', rel2, inv2, rfl⟩
      · simp only [he, decide_false, Bool.false_eq_true, if_false]
        refine Post.of_ne _ _ _ (fun l hh => he (by injection hh))
          ⟨_, congrArg Go.Res.ok (Prod.ext ?_ rfl), rfl, hst', rel2, inv2, rfl⟩
        show S_operation.match_ _ = S_operation.match_ _
        rw [w64_add1 _ _ hddn, w64_add2 n (by omega)]

theorem matchBranch_spec (fuel : Nat) (gd : T_decoder) (s : St) (tbl : Tbl) (p : Props) (d : Rc.Dec)
    (state state2 posState : BitVec 32) (pos : Nat) (bat : Nat → Nat)
    (sr : StRel gd.State s tbl p) (rel : DecRel gd.rd d) (inv : DecInv d)
    (hstate : state.toNat = s.st) (hstate2 : state2.toNat = s.st * 16 + pos % 2 ^ p.pb)
    (hps : posState.toNat = pos % 2 ^ p.pb) (hps16 : pos % 2 ^ p.pb < 16) (hfuel : 80 ≤ fuel) :
    Post s p gd.eosMarker gd.Dict (matchBranch fuel gd state state2 posState)
      (decTree pm (.ask (.adaptive (aIsRep + s.st)) (fun b =>
        if !b then
          (lenDec aLen (pos % 2 ^ p.pb)).bind (fun n => DecTree.map (distDec n) (fun d => RawOp.mtch (n + 2) d))
        else .ask (.adaptive (aIsRepG0 + s.st)) (fun b =>
          if !b then
            .ask (.adaptive (aIsRepG0Long + s.st * 16 + pos % 2 ^ p.pb)) (fun b =>
              if !b then .ret .shortRep else repLenDec (ctxOf p s pos bat) 0)
          else .ask (.adaptive (aIsRepG1 + s.st)) (fun b =>
            if !b then repLenDec (ctxOf p s pos bat) 1
            else .ask (.adaptive (aIsRepG2 + s.st)) (fun b =>
              if !b then repLenDec (ctxOf p s pos bat) 2 else repLenDec (ctxOf p s pos bat) 3))))) tbl d) := by
  have hlt := sr.stlt
  have hsz : ¬ gd.State.isRep.size ≤ s.st := by rw [sr.isRep.size]; omega
  have key := choice_dec (gd.State.isRep.getD s.st 0#16) gd.rd d tbl (aIsRep + s.st) rel inv sr.tok
    (sr.isRep.val _ hlt)
  unfold matchBranch
  rw [decTree_ask]
  cases hs : d.step (some (tbl.get (aIsRep + s.st))) with
  | none =>
    rw [hs] at key
    obtain ⟨b, p', g', hg⟩ := key
    simp only [hstate, hsz, if_false, hg, eofNe, if_true]
    exact Post.eof ⟨_, _, rfl⟩
  | some bd =>
    obtain ⟨bit, d1⟩ := bd
    rw [hs] at key
    obtain ⟨p1, g1, hg, rel1, inv1, tok1, hp1⟩ := key
    have sr1 := sr.set_isRep s.st hlt p1 _ hp1 tok1
    simp only [hstate, hsz, if_false, hg, nilNe, Bool.false_eq_true]
    cases bit with
    | false =>
      simp only [bit0_beq, if_true, Bool.not_false]
      exact matchTail_spec fuel _ s _ p d1 posState _ sr1 rel1 inv1 hps hps16 hfuel
    | true =>
      simp only [bit1_beq, Bool.false_eq_true, if_false, Bool.not_true]
      exact repBranch_spec fuel _ s _ p d1 state state2 posState pos bat sr1 rel1 inv1 hstate hstate2 hps hps16
        (by omega)

theorem litState_lt (lc lp pos prev : Nat) (hlc : lc ≤ 8) (hprev : prev < 256) :
    litState lc lp pos prev < 2 ^ (lc + lp) := by
  unfold litState
  have hlp0 : 0 < 2 ^ lp := Nat.pow_pos (by omega)
  have hA : pos % 2 ^ lp + 1 ≤ 2 ^ lp := Nat.mod_lt _ hlp0
  have hB : prev / 2 ^ (8 - lc) < 2 ^ lc := by
    rw [Nat.div_lt_iff_lt_mul (Nat.pow_pos (by omega)), ← Nat.pow_add]
    have : lc + (8 - lc) = 8 := by omega
    rw [this]; exact hprev
  have h1 : (pos % 2 ^ lp + 1) * 2 ^ lc ≤ 2 ^ lp * 2 ^ lc := Nat.mul_le_mul_right _ hA
  rw [Nat.add_mul, Nat.one_mul] at h1
  have h2 : 2 ^ (lc + lp) = 2 ^ lp * 2 ^ lc := by rw [Nat.pow_add, Nat.mul_comm]
  omega

theorem litTail_spec (fuel : Nat) (gd : T_decoder) (s : St) (tbl : Tbl) (p : Props) (d : Rc.Dec)
    (pos : Nat) (bat : Nat → Nat)
    (sr : StRel gd.State s tbl p) (rel : DecRel gd.rd d) (inv : DecInv d)
    (hpos : gd.Dict.head.toNat = pos)
    (hbat : ∀ dist : BitVec 64,
      decoderDict_byteAt gd.Dict dist = Go.Res.ok (BitVec.ofNat 8 (bat dist.toInt.toNat)))
    (hbat256 : ∀ k, bat k < 256) (hfuel : 40 ≤ fuel) :
    Post s p gd.eosMarker gd.Dict (litTail fuel gd)
      (decTree pm (DecTree.map (litTree s.st (litState p.lc p.lp pos (bat 1)) (bat (s.r0 + 1))) RawOp.lit)
        tbl d) := by
  have hr0 := sr.r0
  have hd1 : (1#64).toInt.toNat = 1 := toInt1
  have hd2 : (BitVec.setWidth 64 (gd.State.rep.getD 0 0#32) + 1#64).toInt.toNat = s.r0 + 1 := by
    have hlt : (gd.State.rep.getD 0 0#32).toNat < 2 ^ 32 := BitVec.isLt _
    rw [hr0] at hlt
    rw [w64_add1 _ _ hr0, BitVec.toInt_eq_toNat_of_lt (by simp only [BitVec.toNat_ofNat]; omega)]
    simp only [BitVec.toNat_ofNat, Int.toNat_natCast]
    omega
  have hprev : (BitVec.ofNat 8 (bat 1)).toNat = bat 1 := by
    simp only [BitVec.toNat_ofNat]; have := hbat256 1; omega
  have hmb : (BitVec.ofNat 8 (bat (s.r0 + 1))).toNat = bat (s.r0 + 1) := by
    simp only [BitVec.toNat_ofNat]; have := hbat256 (s.r0 + 1); omega
  have hls := litState_spec gd.State (BitVec.ofNat 8 (bat 1)) gd.Dict.head (by rw [sr.lc]; exact sr.lcle)
    (by rw [sr.lp]; exact sr.lple)
  rw [sr.lc, sr.lp, hpos, hprev] at hls
  have hbound := litState_lt p.lc p.lp pos (bat 1) sr.lcle (hbat256 1)
  have hlclp : p.lc + p.lp ≤ 12 := by have := sr.lcle; have := sr.lple; omega
  have hpw : 2 ^ (p.lc + p.lp) ≤ 2 ^ 12 := Nat.pow_le_pow_right (by omega) hlclp
  have h := literalCodec_Decode_refines fuel gd.State.litCodec gd.rd d gd.State.state
    (BitVec.ofNat 8 (bat (s.r0 + 1))) (state_litState gd.State (BitVec.ofNat 8 (bat 1)) gd.Dict.head) tbl
    (0x300 * 2 ^ (p.lc + p.lp)) rel inv sr.tok sr.lit (by rw [hls]; omega) (by omega) hfuel
  rw [sr.st, hls, hmb] at h
  unfold litTail decoder_decodeLiteral
  simp only [hbat, Go.Res.bind_ok, hd1, hd2]
  rw [decTree_map']
  cases hp : decTree pm (litTree s.st (litState p.lc p.lp pos (bat 1)) (bat (s.r0 + 1))) tbl d with
  | none =>
    rw [hp] at h
    obtain ⟨v, c', g', hg⟩ := h
    simp only [hg, Go.Res.bind_ok, eofNe, if_true]
    exact Post.eof ⟨_, _, rfl⟩
  | some r =>
    obtain ⟨v, tbl', d'⟩ := r
    rw [hp] at h
    obtain ⟨c', g', hg, rel', inv', tok', hv, lr'⟩ := h
    have o := decTree_out _ _ _ _ _ _ _ (litTree_ask _ _ _) hp
    have sr1 := sr.set_lit c' tbl' o tok' lr'
    simp only [hg, Go.Res.bind_ok, nilNe, Bool.false_eq_true, if_false, updateStateLiteral_spec]
    refine Post.of_ne _ _ _ (fun l hh => by cases hh) ⟨_, rfl, rfl, ?_, rel', inv', rfl⟩
    refine sr1.reregs (s' := { s with st := updLit s.st }) rfl rfl rfl rfl rfl rfl rfl rfl rfl rfl rfl rfl ?_
      (updLit_lt _ sr.stlt) sr.rsize sr.r0 sr.r1 sr.r2 sr.r3
    show (BitVec.ofNat 32 (updLit gd.State.state.toNat)).toNat = updLit s.st
    rw [sr.st, ofNat32_small _ (updLit_lt _ sr.stlt)]

theorem decTree_ask' {α : Type} (c c' : Nat) (hc : c = c') (k : Bool → DecTree α) (tbl : Tbl) (d : Rc.Dec) :
    decTree pm (.ask (.adaptive c) k) tbl d =
      match d.step (some (tbl.get c')) with
      | none => none
      | some (b, d') => decTree pm (k b) (tbl.upd c' (pm.next (tbl.get c') b)) d' := by
  subst hc; exact decTree_ask _ _ _ _

theorem readOpBody_spec (fuel : Nat) (gd : T_decoder) (s : St) (tbl : Tbl) (p : Props) (d : Rc.Dec)
    (state state2 posState : BitVec 32) (pos : Nat) (bat : Nat → Nat)
    (sr : StRel gd.State s tbl p) (rel : DecRel gd.rd d) (inv : DecInv d)
    (hstate : state.toNat = s.st) (hstate2 : state2.toNat = s.st * 16 + pos % 2 ^ p.pb)
    (hps : posState.toNat = pos % 2 ^ p.pb) (hps16 : pos % 2 ^ p.pb < 16)
    (hpos : gd.Dict.head.toNat = pos)
    (hbat : ∀ dist : BitVec 64,
      decoderDict_byteAt gd.Dict dist = Go.Res.ok (BitVec.ofNat 8 (bat dist.toInt.toNat)))
    (hbat256 : ∀ k, bat k < 256) (hfuel : 80 ≤ fuel) :
    Post s p gd.eosMarker gd.Dict (readOpBody fuel gd state state2 posState)
      (decTree pm (opDec (ctxOf p s pos bat)) tbl d) := by
  have hlt := sr.stlt
  have hi : s.st * 16 + pos % 2 ^ p.pb < 192 := by omega
  have hsz : ¬ gd.State.isMatch.size ≤ s.st * 16 + pos % 2 ^ p.pb := by rw [sr.isMatch.size]; omega
  have key := choice_dec (gd.State.isMatch.getD (s.st * 16 + pos % 2 ^ p.pb) 0#16) gd.rd d tbl
    (aIsMatch + s.st * 16 + pos % 2 ^ p.pb) rel inv sr.tok
    (by rw [Nat.add_assoc]; exact sr.isMatch.val _ hi)
  unfold readOpBody opDec
  rw [decTree_ask' (aIsMatch + (ctxOf p s pos bat).st * 16 + (ctxOf p s pos bat).ps)
    (aIsMatch + s.st * 16 + pos % 2 ^ p.pb) rfl]
  cases hs : d.step (some (tbl.get (aIsMatch + s.st * 16 + pos % 2 ^ p.pb))) with
  | none =>
    rw [hs] at key
    obtain ⟨b, p', g', hg⟩ := key
    simp only [hstate2, hsz, if_false, hg, eofNe, if_true]
    exact Post.eof ⟨_, _, rfl⟩
  | some bd =>
    obtain ⟨bit, d1⟩ := bd
    rw [hs] at key
    obtain ⟨p1, g1, hg, rel1, inv1, tok1, hp1⟩ := key
    have sr1 := sr.set_isMatch (s.st * 16 + pos % 2 ^ p.pb) hi p1 _ hp1 (by rw [← Nat.add_assoc]; exact tok1)
    rw [← Nat.add_assoc] at sr1
    simp only [hstate2, hsz, if_false, hg, nilNe, Bool.false_eq_true]
    cases bit with
    | false =>
      simp only [bit0_beq, if_true, Bool.not_false]
      exact litTail_spec fuel _ s _ p d1 pos bat sr1 rel1 inv1 hpos hbat hbat256 (by omega)
    | true =>
      simp only [bit1_beq, Bool.false_eq_true, if_false, Bool.not_true]
      exact matchBranch_spec fuel _ s _ p d1 state state2 posState pos bat sr1 rel1 inv1 hstate hstate2 hps hps16
        hfuel

/-- `decoder.readOp`: one operation = `decTree pm (opDec ctx)` + `St.apply`; the end marker is `errEOS` with
    `eosMarker` set; running out of input is io.EOF; no panic; the dictionary is not touched. -/
theorem readOp_refines (fuel : Nat) (g : T_decoder) (s : St) (tbl : Tbl) (p : Props) (d : Rc.Dec)
    (pos : Nat) (bat : Nat → Nat)
    (sr : StRel g.State s tbl p) (rel : DecRel g.rd d) (inv : DecInv d)
    (hpos : g.Dict.head.toNat = pos) (hposlt : pos < 2 ^ 62)
    (hbat : ∀ dist : BitVec 64, decoderDict_byteAt g.Dict dist = Go.Res.ok (BitVec.ofNat 8 (bat dist.toInt.toNat)))
    (hbat256 : ∀ k, bat k < 256) (hfuel : 200 ≤ fuel) :
    match decTree pm (opDec (ctxOf p s pos bat)) tbl d with
    | none => ∃ op g', decoder_readOp fuel g = Go.Res.ok (op, Go.Err.named "io.EOF", g')
    | some (op, tbl', d') =>
      if op = RawOp.mtch (match op with | .mtch len _ => len | _ => 0) eosDist then
        ∃ g', decoder_readOp fuel g = Go.Res.ok (S_operation.none, Go.Err.named "errEOS", g')
          ∧ g'.eosMarker = true ∧ StRel g'.State (s.apply op) tbl' p ∧ DecRel g'.rd d' ∧ DecInv d' ∧ g'.Dict = g.Dict
      else
        ∃ g', decoder_readOp fuel g = Go.Res.ok (goOpOf (s.apply op) op, Go.Err.nil, g')
          ∧ g'.eosMarker = g.eosMarker ∧ StRel g'.State (s.apply op) tbl' p ∧ DecRel g'.rd d' ∧ DecInv d'
          ∧ g'.Dict = g.Dict := by
  have _ := hposlt
  obtain ⟨h1, h2, h3⟩ := states_spec g.State g.Dict.head p.pb sr.pb sr.mask (by rw [sr.st]; exact sr.stlt)
  rw [sr.st] at h1
  rw [sr.st, hpos] at h2
  rw [hpos] at h3
  have hps16 : pos % 2 ^ p.pb < 16 := by
    have h16 : 2 ^ p.pb ≤ 2 ^ 4 := Nat.pow_le_pow_right (by omega) sr.pb
    have h0 : 0 < 2 ^ p.pb := Nat.pow_pos (by omega)
    have := Nat.mod_lt pos h0
    omega
  have hpost := readOpBody_spec fuel g s tbl p d _ _ _ pos bat sr rel inv h1 h2 h3 hps16 hpos hbat hbat256
    (by omega)
  rw [← readOp_eq] at hpost
  cases hX : decTree pm (opDec (ctxOf p s pos bat)) tbl d with
  | none => rw [hX] at hpost; exact hpost
  | some r =>
    obtain ⟨op, tbl', d'⟩ := r
    rw [hX] at hpost
    exact hpost

end GoSrcP
