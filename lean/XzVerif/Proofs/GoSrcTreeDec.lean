import XzVerif.Gen.GoSrc
import XzVerif.Codec.LzmaDec
import XzVerif.Proofs.GoSrcDec
import XzVerif.Proofs.GoSrcTreeEnc
/-
  Proofs.GoSrcTreeDec — the REGENERATED translation of lzma/treecodecs.go (treeCodec.Decode, treeReverseCodec.Decode)
  and lzma/directcodec.go (directCodec.Decode) refines the DECISION TREES of Codec/Lzma.lean (`treeDec`, `rtreeDec`,
  `directDec`) interpreted by the Nat-level range decoder (`Rc.decTree`).  No index panic, no fuel exhaustion; running
  out of input is io.EOF.  Statements are fixed; only proofs may change.
-/
namespace GoSrcP
open GoSrc Rc Lzma

theorem decTree_bind {α β : Type} (t : DecTree α) (f : α → DecTree β) : ∀ (tbl : Tbl) (d : Rc.Dec),
    decTree pm (t.bind f) tbl d =
      match decTree pm t tbl d with
      | none => none
      | some (a, t', d') => decTree pm (f a) t' d' := by
  induction t with
  | ret a => intro tbl d; simp only [DecTree.bind, decTree]
  | ask q k ih =>
    intro tbl d
    cases q with
    | adaptive c =>
      simp only [DecTree.bind, decTree]
      cases d.step (some (tbl.get c)) with
      | none => rfl
      | some bd => obtain ⟨b, d'⟩ := bd; exact ih b _ _
    | direct =>
      simp only [DecTree.bind, decTree]
      cases d.step none with
      | none => rfl
      | some bd => obtain ⟨b, d'⟩ := bd; exact ih b _ _

theorem shl1_or_toNat (v : BitVec 32) (b : Bool) (hv : v.toNat < 2 ^ 31) :
    ((BitVec.shiftLeft v 1) ||| BitVec.ofNat 32 (bitOf b)).toNat = 2 * v.toNat + bitOf b := by
  have hb : bitOf b < 2 ^ 1 := by unfold bitOf; split <;> decide
  simp only [BitVec.shiftLeft_eq, BitVec.toNat_or, BitVec.toNat_shiftLeft, BitVec.toNat_ofNat]
  have h1 : v.toNat <<< 1 % 2 ^ 32 = v.toNat <<< 1 := by
    rw [Nat.shiftLeft_eq]; omega
  have h2 : bitOf b % 2 ^ 32 = bitOf b := Nat.mod_eq_of_lt (by omega)
  rw [h1, h2, ← Nat.shiftLeft_add_eq_or_of_lt hb, Nat.shiftLeft_eq]
  omega

theorem direct_loop_succ (f : Nat) (dc : BitVec 8) (g : T_rangeDecoder) (v : BitVec 32) (err : Go.Err)
    (i : BitVec 64) :
    directCodec_Decode_loop1 (f + 1) dc g v err i =
      if BitVec.sle (0#64) i then
        if ((rangeDecoder_DirectDecodeBit g).2.1 != Go.Err.nil) then
          Go.Res.ok (Sum.inl ((0#32), (rangeDecoder_DirectDecodeBit g).2.1, (rangeDecoder_DirectDecodeBit g).2.2))
        else
          directCodec_Decode_loop1 f dc (rangeDecoder_DirectDecodeBit g).2.2
            ((BitVec.shiftLeft v 1) ||| (rangeDecoder_DirectDecodeBit g).1) err (i - 1#64)
      else Go.Res.ok (Sum.inr (dc, g, v, err, i)) := rfl

theorem direct_loop (dc : BitVec 8) (err : Go.Err) : ∀ (n fuel k : Nat) (g : T_rangeDecoder) (d : Rc.Dec)
    (tbl : Tbl) (v : BitVec 32),
    DecRel g d → DecInv d → k + n ≤ 32 → v.toNat < 2 ^ k → n < fuel →
    match decTree pm (directDecGo n v.toNat) tbl d with
    | none => ∃ g', directCodec_Decode_loop1 fuel dc g v err (BitVec.ofNat 64 n - 1#64)
        = Go.Res.ok (Sum.inl (0#32, Go.Err.named "io.EOF", g'))
    | some (vf, tbl', d') => ∃ g' v' i', directCodec_Decode_loop1 fuel dc g v err (BitVec.ofNat 64 n - 1#64)
        = Go.Res.ok (Sum.inr (dc, g', v', err, i'))
        ∧ v'.toNat = vf ∧ tbl' = tbl ∧ DecRel g' d' ∧ DecInv d' ∧ vf < 2 ^ (k + n) := by
  intro n
  induction n with
  | zero =>
    intro fuel k g d tbl v rel inv hk hv hf
    obtain ⟨f, rfl⟩ : ∃ f, fuel = f + 1 := ⟨fuel - 1, by omega⟩
    simp only [directDecGo, decTree]
    rw [direct_loop_succ, if_neg (by decide)]
    exact ⟨g, v, _, rfl, rfl, trivial, rel, inv, hv⟩
  | succ n ih =>
    intro fuel k g d tbl v rel inv hk hv hf
    obtain ⟨f, rfl⟩ : ∃ f, fuel = f + 1 := ⟨fuel - 1, by omega⟩
    have hi0 : BitVec.ofNat 64 (n + 1) - 1#64 = BitVec.ofNat 64 n := by
      apply BitVec.eq_of_toNat_eq
      simp only [BitVec.toNat_sub, BitVec.toNat_ofNat]
      omega
    have hcond : BitVec.sle (0#64) (BitVec.ofNat 64 n) = true := by
      have h1 : (BitVec.ofNat 64 n).toInt = (n : Int) := by
        rw [BitVec.toInt_eq_toNat_of_lt (by simp only [BitVec.toNat_ofNat]; omega)]
        simp only [BitVec.toNat_ofNat]; omega
      rw [BitVec.sle_eq_decide, h1]
      simp only [BitVec.toInt_zero, decide_eq_true_eq]
      omega
    rw [hi0, direct_loop_succ, hcond, if_pos rfl]
    simp only [directDecGo, decTree]
    have key := DirectDecodeBit_refines g d rel inv
    cases hs : d.step none with
    | none =>
      rw [hs] at key
      obtain ⟨b, g', hg⟩ := key
      simp only [hg]
      exact ⟨g', rfl⟩
    | some bd =>
      obtain ⟨bit, d1⟩ := bd
      rw [hs] at key
      obtain ⟨g', hg, rel', inv'⟩ := key
      simp only [hg]
      rw [if_neg (by decide)]
      have hv2 : (2:Nat) ^ (k + 1) = 2 * 2 ^ k := by rw [Nat.pow_succ]; omega
      have hpk : (2:Nat) ^ k ≤ 2 ^ 31 := Nat.pow_le_pow_right (by decide) (by omega)
      have hvn := shl1_or_toNat v bit (by omega)
      have hb : bitOf bit < 2 := by unfold bitOf; split <;> decide
      have := ih f (k + 1) g' d1 tbl (BitVec.shiftLeft v 1 ||| BitVec.ofNat 32 (bitOf bit)) rel' inv'
        (by omega) (by omega) (by omega)
      rw [hvn] at this
      have e : k + 1 + n = k + (n + 1) := by omega
      rw [e] at this
      exact this

theorem directCodec_Decode_refines (fuel : Nat) (dc : BitVec 8) (g : T_rangeDecoder) (d : Rc.Dec) (tbl : Tbl)
    (rel : DecRel g d) (inv : DecInv d) (hdc : dc.toNat ≤ 32) (hfuel : 40 ≤ fuel) :
    match decTree pm (directDec dc.toNat) tbl d with
    | none => ∃ v g', directCodec_Decode fuel dc g = Go.Res.ok (v, Go.Err.named "io.EOF", g')
    | some (v, tbl', d') =>
      ∃ g', directCodec_Decode fuel dc g = Go.Res.ok (BitVec.ofNat 32 v, Go.Err.nil, g')
        ∧ tbl' = tbl ∧ DecRel g' d' ∧ DecInv d' ∧ v < 2 ^ dc.toNat := by
  have key := direct_loop dc Go.Err.nil dc.toNat fuel 0 g d tbl (0#32) rel inv (by omega) (by decide) (by omega)
  have e1 : BitVec.setWidth 64 dc = BitVec.ofNat 64 dc.toNat := (BitVec.ofNat_toNat 64 dc).symm
  unfold directCodec_Decode directDec
  simp only [e1]
  simp only [BitVec.toNat_ofNat, Nat.zero_mod, Nat.zero_add] at key
  cases hdt : decTree pm (directDecGo dc.toNat 0) tbl d with
  | none =>
    rw [hdt] at key
    obtain ⟨g', hg⟩ := key
    exact ⟨_, g', by rw [hg]; rfl⟩
  | some r =>
    obtain ⟨vf, tbl', d'⟩ := r
    rw [hdt] at key
    obtain ⟨g', v', i', hg, hv, ht, rel', inv', hlt⟩ := key
    refine ⟨g', ?_, ht, rel', inv', hlt⟩
    rw [hg, ← hv, BitVec.ofNat_toNat, BitVec.setWidth_eq]
    rfl

theorem TreeRel.upd {probs : Array (BitVec 16)} {tbl : Tbl} {base n : Nat} (tr : TreeRel probs tbl base n)
    (m : Nat) (hm : m < n) (p : BitVec 16) (q : Nat) (hp : p.toNat = q) :
    TreeRel (probs.setIfInBounds m p) (tbl.upd (base + m) q) base n := by
  obtain ⟨hs, hi, hv⟩ := tr
  refine ⟨by rw [Array.size_setIfInBounds]; exact hs, ?_, ?_⟩
  · unfold Tbl.upd; rw [Array.size_setIfInBounds]; exact hi
  · intro m' hm'
    rw [Tbl.get_upd]
    by_cases h : m' = m
    · subst h
      rw [if_pos ⟨rfl, by omega⟩]
      have hlt : m' < probs.size := by omega
      simp only [Array.getD_eq_getD_getElem?, Array.getElem?_setIfInBounds, if_true, hlt, Option.getD_some]
      exact hp
    · rw [if_neg (by omega)]
      rw [← hv m' hm']
      simp only [Array.getD_eq_getD_getElem?, Array.getElem?_setIfInBounds]
      rw [if_neg (fun e => h e.symm)]

theorem tree_loop_succ (f : Nat) (tc : T_treeCodec) (g : T_rangeDecoder) (v : BitVec 32) (err : Go.Err)
    (m : BitVec 32) (j : BitVec 64) :
    treeCodec_Decode_loop1 (f + 1) tc g v err m j =
      if BitVec.slt j (BitVec.setWidth 64 tc.probTree.bits) then
        if tc.probTree.probs.size ≤ m.toNat then Go.Res.panic "index out of range" else
        if ((rangeDecoder_DecodeBit g (tc.probTree.probs.getD m.toNat (0#16))).2.1 != Go.Err.nil) then
          Go.Res.ok (Sum.inl ((0#32), (rangeDecoder_DecodeBit g (tc.probTree.probs.getD m.toNat (0#16))).2.1,
            { tc with probTree := { tc.probTree with probs := (tc.probTree.probs.setIfInBounds m.toNat
              (rangeDecoder_DecodeBit g (tc.probTree.probs.getD m.toNat (0#16))).2.2.2) } },
            (rangeDecoder_DecodeBit g (tc.probTree.probs.getD m.toNat (0#16))).2.2.1))
        else
          treeCodec_Decode_loop1 f
            { tc with probTree := { tc.probTree with probs := (tc.probTree.probs.setIfInBounds m.toNat
              (rangeDecoder_DecodeBit g (tc.probTree.probs.getD m.toNat (0#16))).2.2.2) } }
            (rangeDecoder_DecodeBit g (tc.probTree.probs.getD m.toNat (0#16))).2.2.1 v err
            ((BitVec.shiftLeft m 1) ||| (rangeDecoder_DecodeBit g (tc.probTree.probs.getD m.toNat (0#16))).1)
            (j + 1#64)
      else Go.Res.ok (Sum.inr (tc, g, v, err, m, j)) := rfl

theorem slt_small (a b : Nat) (ha : a < 2 ^ 32) (hb : b < 2 ^ 32) :
    BitVec.slt (BitVec.ofNat 64 a) (BitVec.ofNat 64 b) = decide (a < b) := by
  have h1 : ∀ n, n < 2 ^ 32 → (BitVec.ofNat 64 n).toInt = (n : Int) := by
    intro n hn
    rw [BitVec.toInt_eq_toNat_of_lt (by simp only [BitVec.toNat_ofNat]; omega)]
    simp only [BitVec.toNat_ofNat]; omega
  rw [BitVec.slt_eq_decide, h1 a ha, h1 b hb]
  simp only [Int.ofNat_lt]

theorem ofNat64_succ (a : Nat) : BitVec.ofNat 64 a + 1#64 = BitVec.ofNat 64 (a + 1) := by
  rw [BitVec.ofNat_add]

theorem tree_loop (base bits : Nat) (hb2 : bits ≤ 31) (v : BitVec 32) (err : Go.Err) :
    ∀ (n fuel : Nat) (tc : T_treeCodec) (g : T_rangeDecoder) (d : Rc.Dec) (tbl : Tbl) (m : BitVec 32) (jn : Nat),
    DecRel g d → DecInv d → tbl.ok → tc.probTree.bits.toNat = bits →
    TreeRel tc.probTree.probs tbl base (2 ^ bits) →
    jn + n = bits → 2 ^ jn ≤ m.toNat → m.toNat < 2 ^ (jn + 1) → n < fuel →
    match decTree pm (treeDecGo base n m.toNat) tbl d with
    | none => ∃ tc' g', treeCodec_Decode_loop1 fuel tc g v err m (BitVec.ofNat 64 jn)
        = Go.Res.ok (Sum.inl (0#32, Go.Err.named "io.EOF", tc', g'))
    | some (mf, tbl', d') => ∃ tc' g' m' j', treeCodec_Decode_loop1 fuel tc g v err m (BitVec.ofNat 64 jn)
        = Go.Res.ok (Sum.inr (tc', g', v, err, m', j'))
        ∧ m'.toNat = mf ∧ DecRel g' d' ∧ DecInv d' ∧ tbl'.ok ∧ 2 ^ bits ≤ mf ∧ mf < 2 ^ (bits + 1)
        ∧ tc'.probTree.bits = tc.probTree.bits ∧ TreeRel tc'.probTree.probs tbl' base (2 ^ bits) := by
  intro n
  induction n with
  | zero =>
    intro fuel tc g d tbl m jn rel inv htbl hbits tr hj hm1 hm2 hf
    obtain ⟨f, rfl⟩ : ∃ f, fuel = f + 1 := ⟨fuel - 1, by omega⟩
    have e1 : BitVec.setWidth 64 tc.probTree.bits = BitVec.ofNat 64 bits := by
      rw [← hbits]; exact (BitVec.ofNat_toNat 64 _).symm
    have hjb : jn = bits := by omega
    subst hjb
    simp only [treeDecGo, decTree]
    rw [tree_loop_succ, e1, slt_small _ _ (by omega) (by omega), if_neg (by simp)]
    exact ⟨tc, g, m, _, rfl, rfl, rel, inv, htbl, hm1, hm2, rfl, tr⟩
  | succ n ih =>
    intro fuel tc g d tbl m jn rel inv htbl hbits tr hj hm1 hm2 hf
    obtain ⟨f, rfl⟩ : ∃ f, fuel = f + 1 := ⟨fuel - 1, by omega⟩
    have e1 : BitVec.setWidth 64 tc.probTree.bits = BitVec.ofNat 64 bits := by
      rw [← hbits]; exact (BitVec.ofNat_toNat 64 _).symm
    have hpw : (2:Nat) ^ (jn + 1) ≤ 2 ^ bits := Nat.pow_le_pow_right (by decide) (by omega)
    have hpw2 : (2:Nat) ^ bits ≤ 2 ^ 31 := Nat.pow_le_pow_right (by decide) hb2
    have hmlt : m.toNat < 2 ^ bits := by omega
    rw [tree_loop_succ, e1, slt_small _ _ (by omega) (by omega), if_pos (by simp; omega),
      if_neg (by rw [tr.size]; omega), ofNat64_succ]
    simp only [treeDecGo, decTree]
    have hpv := tr.val m.toNat hmlt
    have key := DecodeBit_refines g d (tc.probTree.probs.getD m.toNat 0#16) rel inv (by rw [hpv]; exact htbl _)
    rw [hpv] at key
    cases hs : d.step (some (tbl.get (base + m.toNat))) with
    | none =>
      rw [hs] at key
      obtain ⟨b, g', p', hg⟩ := key
      simp only [hg]
      exact ⟨_, g', rfl⟩
    | some bd =>
      obtain ⟨bit, d1⟩ := bd
      rw [hs] at key
      obtain ⟨g', hg, rel', inv'⟩ := key
      simp only [hg]
      have hbo : (if bit = true then 1 else 0) = bitOf bit := rfl
      rw [hbo, if_neg (by decide)]
      have hpok : POk (probNext (tbl.get (base + m.toNat)) bit) := pm.ok _ _ (htbl _)
      have hb : bitOf bit < 2 := by unfold bitOf; split <;> decide
      have hvn := shl1_or_toNat m bit (by omega)
      have hp2 : (2:Nat) ^ (jn + 1 + 1) = 2 * 2 ^ (jn + 1) := by rw [Nat.pow_succ]; omega
      have hp1 : (2:Nat) ^ (jn + 1) = 2 * 2 ^ jn := by rw [Nat.pow_succ]; omega
      have := ih f
        { tc with probTree := { tc.probTree with probs := (tc.probTree.probs.setIfInBounds m.toNat
            (BitVec.ofNat 16 (probNext (tbl.get (base + m.toNat)) bit))) } }
        g' d1 (tbl.upd (base + m.toNat) (pm.next (tbl.get (base + m.toNat)) bit))
        (BitVec.shiftLeft m 1 ||| BitVec.ofNat 32 (bitOf bit)) (jn + 1) rel' inv'
        (Tbl.upd_ok _ htbl _ _ hpok) hbits
        (tr.upd m.toNat hmlt _ _ (by
          simp only [BitVec.toNat_ofNat]
          obtain ⟨_, h2⟩ := hpok
          show _ % 2 ^ 16 = probNext _ _
          omega))
        (by omega) (by omega) (by omega) (by omega)
      rw [hvn] at this
      exact this

theorem treeCodec_Decode_refines (fuel : Nat) (tc : T_treeCodec) (g : T_rangeDecoder) (d : Rc.Dec)
    (tbl : Tbl) (base bits : Nat)
    (rel : DecRel g d) (inv : DecInv d) (htbl : tbl.ok) (hb1 : 1 ≤ bits) (hb2 : bits ≤ 31)
    (hbits : tc.probTree.bits.toNat = bits) (tr : TreeRel tc.probTree.probs tbl base (2 ^ bits))
    (hfuel : 40 ≤ fuel) :
    match decTree pm (treeDec base bits) tbl d with
    | none => ∃ v tc' g', treeCodec_Decode fuel tc g = Go.Res.ok (v, Go.Err.named "io.EOF", tc', g')
    | some (v, tbl', d') =>
      ∃ tc' g', treeCodec_Decode fuel tc g = Go.Res.ok (BitVec.ofNat 32 v, Go.Err.nil, tc', g')
        ∧ DecRel g' d' ∧ DecInv d' ∧ tbl'.ok ∧ v < 2 ^ bits
        ∧ tc'.probTree.bits = tc.probTree.bits ∧ TreeRel tc'.probTree.probs tbl' base (2 ^ bits) := by
  have key := tree_loop base bits hb2 (0#32) Go.Err.nil bits fuel tc g d tbl (1#32) 0 rel inv htbl hbits tr
    (by omega) (by decide) (by decide) (by omega)
  have e1 : (1#32).toNat = 1 := rfl
  rw [e1] at key
  unfold treeCodec_Decode treeDec DecTree.map
  rw [decTree_bind]
  dsimp only
  cases hdt : decTree pm (treeDecGo base bits 1) tbl d with
  | none =>
    rw [hdt] at key
    obtain ⟨tc', g', hg⟩ := key
    exact ⟨_, tc', g', by rw [hg]; rfl⟩
  | some r =>
    obtain ⟨mf, tbl', d'⟩ := r
    rw [hdt] at key
    obtain ⟨tc', g', m', j', hg, hm, rel', inv', htbl', hlo, hhi, hbits', tr'⟩ := key
    simp only [decTree]
    have hp : (2:Nat) ^ (bits + 1) = 2 * 2 ^ bits := by rw [Nat.pow_succ]; omega
    have hpw2 : (2:Nat) ^ bits ≤ 2 ^ 31 := Nat.pow_le_pow_right (by decide) hb2
    refine ⟨tc', g', ?_, rel', inv', htbl', by omega, hbits', tr'⟩
    rw [hg]
    simp only [Go.Res.bind_ok]
    have e2 : (BitVec.setWidth 64 tc'.probTree.bits).toNat = bits := by
      rw [hbits', BitVec.toNat_setWidth, hbits]; omega
    rw [e2]
    have e3 : m' - BitVec.shiftLeft 1#32 bits = BitVec.ofNat 32 (mf - 2 ^ bits) := by
      apply BitVec.eq_of_toNat_eq
      simp only [BitVec.shiftLeft_eq, BitVec.toNat_sub, BitVec.toNat_shiftLeft, BitVec.toNat_ofNat,
        Nat.shiftLeft_eq, hm]
      omega
    rw [e3]

theorem or_shl_bit_toNat (v : BitVec 32) (b : Bool) (jn : Nat) (hj : jn ≤ 31) (hv : v.toNat < 2 ^ jn) :
    (v ||| BitVec.shiftLeft (BitVec.ofNat 32 (bitOf b)) jn).toNat = v.toNat + bitOf b * 2 ^ jn := by
  cases b with
  | false =>
    have e : BitVec.ofNat 32 (bitOf false) = 0#32 := rfl
    rw [e, BitVec.shiftLeft_eq, BitVec.zero_shiftLeft, BitVec.or_zero]
    simp only [bitOf, Bool.false_eq_true, if_false, Nat.zero_mul, Nat.add_zero]
  | true =>
    have hp : (2:Nat) ^ jn < 2 ^ 32 := Nat.pow_lt_pow_right (by decide) (by omega)
    have e : BitVec.ofNat 32 (bitOf true) = 1#32 := rfl
    have e2 : bitOf true = 1 := rfl
    rw [e, e2]
    simp only [BitVec.shiftLeft_eq, BitVec.toNat_or, BitVec.toNat_shiftLeft, BitVec.toNat_ofNat, Nat.one_mul]
    rw [show 1 % 2 ^ 32 = 1 from rfl, Nat.mod_eq_of_lt (by rw [Nat.shiftLeft_eq, Nat.one_mul]; exact hp),
      Nat.or_comm, ← Nat.shiftLeft_add_eq_or_of_lt hv, Nat.shiftLeft_eq]
    omega

theorem rtree_loop_succ (f : Nat) (tc : T_treeReverseCodec) (g : T_rangeDecoder) (v : BitVec 32) (err : Go.Err)
    (m : BitVec 32) (j : BitVec 64) :
    treeReverseCodec_Decode_loop1 (f + 1) tc g v err m j =
      if BitVec.ult j (BitVec.setWidth 64 tc.probTree.bits) then
        if tc.probTree.probs.size ≤ m.toNat then Go.Res.panic "index out of range" else
        if ((rangeDecoder_DecodeBit g (tc.probTree.probs.getD m.toNat (0#16))).2.1 != Go.Err.nil) then
          Go.Res.ok (Sum.inl ((0#32), (rangeDecoder_DecodeBit g (tc.probTree.probs.getD m.toNat (0#16))).2.1,
            { tc with probTree := { tc.probTree with probs := (tc.probTree.probs.setIfInBounds m.toNat
              (rangeDecoder_DecodeBit g (tc.probTree.probs.getD m.toNat (0#16))).2.2.2) } },
            (rangeDecoder_DecodeBit g (tc.probTree.probs.getD m.toNat (0#16))).2.2.1))
        else
          treeReverseCodec_Decode_loop1 f
            { tc with probTree := { tc.probTree with probs := (tc.probTree.probs.setIfInBounds m.toNat
              (rangeDecoder_DecodeBit g (tc.probTree.probs.getD m.toNat (0#16))).2.2.2) } }
            (rangeDecoder_DecodeBit g (tc.probTree.probs.getD m.toNat (0#16))).2.2.1
            (v ||| (BitVec.shiftLeft (rangeDecoder_DecodeBit g (tc.probTree.probs.getD m.toNat (0#16))).1 j.toNat))
            err
            ((BitVec.shiftLeft m 1) ||| (rangeDecoder_DecodeBit g (tc.probTree.probs.getD m.toNat (0#16))).1)
            (j + 1#64)
      else Go.Res.ok (Sum.inr (tc, g, v, err, m, j)) := rfl

theorem ult_small (a b : Nat) (ha : a < 2 ^ 32) (hb : b < 2 ^ 32) :
    BitVec.ult (BitVec.ofNat 64 a) (BitVec.ofNat 64 b) = decide (a < b) := by
  rw [BitVec.ult_eq_decide]
  simp only [BitVec.toNat_ofNat]
  rw [Nat.mod_eq_of_lt (by omega), Nat.mod_eq_of_lt (by omega)]

theorem rtree_loop (base bits : Nat) (hb2 : bits ≤ 31) (err : Go.Err) :
    ∀ (n fuel : Nat) (tc : T_treeReverseCodec) (g : T_rangeDecoder) (d : Rc.Dec) (tbl : Tbl) (m v : BitVec 32)
      (jn : Nat),
    DecRel g d → DecInv d → tbl.ok → tc.probTree.bits.toNat = bits →
    TreeRel tc.probTree.probs tbl base (2 ^ bits) →
    jn + n = bits → 2 ^ jn ≤ m.toNat → m.toNat < 2 ^ (jn + 1) → v.toNat < 2 ^ jn → n < fuel →
    match decTree pm (rtreeDecGo base n m.toNat jn v.toNat) tbl d with
    | none => ∃ tc' g', treeReverseCodec_Decode_loop1 fuel tc g v err m (BitVec.ofNat 64 jn)
        = Go.Res.ok (Sum.inl (0#32, Go.Err.named "io.EOF", tc', g'))
    | some (vf, tbl', d') => ∃ tc' g' v' m' j', treeReverseCodec_Decode_loop1 fuel tc g v err m (BitVec.ofNat 64 jn)
        = Go.Res.ok (Sum.inr (tc', g', v', err, m', j'))
        ∧ v'.toNat = vf ∧ DecRel g' d' ∧ DecInv d' ∧ tbl'.ok ∧ vf < 2 ^ bits
        ∧ tc'.probTree.bits = tc.probTree.bits ∧ TreeRel tc'.probTree.probs tbl' base (2 ^ bits) := by
  intro n
  induction n with
  | zero =>
    intro fuel tc g d tbl m v jn rel inv htbl hbits tr hj hm1 hm2 hv hf
    obtain ⟨f, rfl⟩ : ∃ f, fuel = f + 1 := ⟨fuel - 1, by omega⟩
    have e1 : BitVec.setWidth 64 tc.probTree.bits = BitVec.ofNat 64 bits := by
      rw [← hbits]; exact (BitVec.ofNat_toNat 64 _).symm
    have hjb : jn = bits := by omega
    subst hjb
    simp only [rtreeDecGo, decTree]
    rw [rtree_loop_succ, e1, ult_small _ _ (by omega) (by omega), if_neg (by simp)]
    exact ⟨tc, g, v, m, _, rfl, rfl, rel, inv, htbl, hv, rfl, tr⟩
  | succ n ih =>
    intro fuel tc g d tbl m v jn rel inv htbl hbits tr hj hm1 hm2 hv hf
    obtain ⟨f, rfl⟩ : ∃ f, fuel = f + 1 := ⟨fuel - 1, by omega⟩
    have e1 : BitVec.setWidth 64 tc.probTree.bits = BitVec.ofNat 64 bits := by
      rw [← hbits]; exact (BitVec.ofNat_toNat 64 _).symm
    have hpw : (2:Nat) ^ (jn + 1) ≤ 2 ^ bits := Nat.pow_le_pow_right (by decide) (by omega)
    have hpw2 : (2:Nat) ^ bits ≤ 2 ^ 31 := Nat.pow_le_pow_right (by decide) hb2
    have hmlt : m.toNat < 2 ^ bits := by omega
    have ejn : (BitVec.ofNat 64 jn).toNat = jn := by
      rw [BitVec.toNat_ofNat]; exact Nat.mod_eq_of_lt (by omega)
    rw [rtree_loop_succ, e1, ult_small _ _ (by omega) (by omega), if_pos (by simp; omega),
      if_neg (by rw [tr.size]; omega), ofNat64_succ, ejn]
    simp only [rtreeDecGo, decTree]
    have hpv := tr.val m.toNat hmlt
    have key := DecodeBit_refines g d (tc.probTree.probs.getD m.toNat 0#16) rel inv (by rw [hpv]; exact htbl _)
    rw [hpv] at key
    cases hs : d.step (some (tbl.get (base + m.toNat))) with
    | none =>
      rw [hs] at key
      obtain ⟨b, g', p', hg⟩ := key
      simp only [hg]
      exact ⟨_, g', rfl⟩
    | some bd =>
      obtain ⟨bit, d1⟩ := bd
      rw [hs] at key
      obtain ⟨g', hg, rel', inv'⟩ := key
      simp only [hg]
      rw [if_neg (by decide)]
      have hpok : POk (probNext (tbl.get (base + m.toNat)) bit) := pm.ok _ _ (htbl _)
      have hb : bitOf bit < 2 := by unfold bitOf; split <;> decide
      have hvn := shl1_or_toNat m bit (by omega)
      have hvv := or_shl_bit_toNat v bit jn (by omega) hv
      have hp1 : (2:Nat) ^ (jn + 1) = 2 * 2 ^ jn := by rw [Nat.pow_succ]; omega
      have hp2 : (2:Nat) ^ (jn + 1 + 1) = 2 * 2 ^ (jn + 1) := by rw [Nat.pow_succ]; omega
      have hbm : bitOf bit * 2 ^ jn ≤ 1 * 2 ^ jn := Nat.mul_le_mul_right _ (by omega)
      have := ih f
        { tc with probTree := { tc.probTree with probs := (tc.probTree.probs.setIfInBounds m.toNat
            (BitVec.ofNat 16 (probNext (tbl.get (base + m.toNat)) bit))) } }
        g' d1 (tbl.upd (base + m.toNat) (pm.next (tbl.get (base + m.toNat)) bit))
        (BitVec.shiftLeft m 1 ||| BitVec.ofNat 32 (bitOf bit))
        (v ||| BitVec.shiftLeft (BitVec.ofNat 32 (bitOf bit)) jn) (jn + 1) rel' inv'
        (Tbl.upd_ok _ htbl _ _ hpok) hbits
        (tr.upd m.toNat hmlt _ _ (by
          simp only [BitVec.toNat_ofNat]
          obtain ⟨_, h2⟩ := hpok
          show _ % 2 ^ 16 = probNext _ _
          omega))
        (by omega) (by omega) (by omega) (by omega) (by omega)
      rw [hvn, hvv] at this
      exact this

theorem treeReverseCodec_Decode_refines (fuel : Nat) (tc : T_treeReverseCodec) (g : T_rangeDecoder) (d : Rc.Dec)
    (tbl : Tbl) (base bits : Nat)
    (rel : DecRel g d) (inv : DecInv d) (htbl : tbl.ok) (hb1 : 1 ≤ bits) (hb2 : bits ≤ 31)
    (hbits : tc.probTree.bits.toNat = bits) (tr : TreeRel tc.probTree.probs tbl base (2 ^ bits))
    (hfuel : 40 ≤ fuel) :
    match decTree pm (rtreeDec base bits) tbl d with
    | none => ∃ v tc' g', treeReverseCodec_Decode fuel tc g = Go.Res.ok (v, Go.Err.named "io.EOF", tc', g')
    | some (v, tbl', d') =>
      ∃ tc' g', treeReverseCodec_Decode fuel tc g = Go.Res.ok (BitVec.ofNat 32 v, Go.Err.nil, tc', g')
        ∧ DecRel g' d' ∧ DecInv d' ∧ tbl'.ok ∧ v < 2 ^ bits
        ∧ tc'.probTree.bits = tc.probTree.bits ∧ TreeRel tc'.probTree.probs tbl' base (2 ^ bits) := by
  have key := rtree_loop base bits hb2 Go.Err.nil bits fuel tc g d tbl (1#32) (0#32) 0 rel inv htbl hbits tr
    (by omega) (by decide) (by decide) (by decide) (by omega)
  have e1 : (1#32).toNat = 1 := rfl
  have e0 : (0#32).toNat = 0 := rfl
  rw [e1, e0] at key
  unfold treeReverseCodec_Decode rtreeDec
  dsimp only
  cases hdt : decTree pm (rtreeDecGo base bits 1 0 0) tbl d with
  | none =>
    rw [hdt] at key
    obtain ⟨tc', g', hg⟩ := key
    exact ⟨_, tc', g', by rw [hg]; rfl⟩
  | some r =>
    obtain ⟨vf, tbl', d'⟩ := r
    rw [hdt] at key
    obtain ⟨tc', g', v', m', j', hg, hv, rel', inv', htbl', hlt, hbits', tr'⟩ := key
    refine ⟨tc', g', ?_, rel', inv', htbl', hlt, hbits', tr'⟩
    rw [hg, ← hv, BitVec.ofNat_toNat, BitVec.setWidth_eq]
    rfl

end GoSrcP

