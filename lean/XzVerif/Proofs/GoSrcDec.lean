import XzVerif.Gen.GoSrc
import XzVerif.Codec.Lzma
import XzVerif.Proofs.Rc
import XzVerif.Proofs.GoSrcMisc
/-
  Proofs.GoSrcDec — the REGENERATED translation of lzma/rangecodec.go's DECODER half (uint32 `nrange` / `code`,
  the branch-free `DirectDecodeBit` with its sign-bit mask, `updateCode`, `newRangeDecoder`) refines the Nat-level
  range decoder `Rc.Dec` of Codec/Rc.lean.  Statements are fixed; only proofs may change.

  `Rc.Dec` computes in uint32 exactly as the Go code does (`norm` truncates the shifted code, the direct bit is the
  sign bit of the wrapped difference), so the refinement holds from EVERY state with `2^24 ≤ range < 2^32` and
  `code < 2^32` — in particular on corrupt input, where `code < range` is lost (`direct_breaks_code_lt_range`).
-/
namespace GoSrcP
open GoSrc

def bytesNat' (l : List (BitVec 8)) : List Nat := l.map BitVec.toNat

structure DecRel (g : T_rangeDecoder) (d : Rc.Dec) : Prop where
  range : g.nrange.toNat = d.range
  code : g.code.toNat = d.code
  inp : bytesNat' g.br.inp = d.inp

/-- rest-point invariant of the decoder -/
structure DecInv (d : Rc.Dec) : Prop where
  lo : 2 ^ 24 ≤ d.range
  hi : d.range < 2 ^ 32
  code : d.code < 2 ^ 32

/-! ### helpers -/

theorem updateCode_nil (g : T_rangeDecoder) (h : g.br.inp = []) :
    rangeDecoder_updateCode g = (Go.Err.named "io.EOF", g) := by
  obtain ⟨⟨inp⟩, r, c⟩ := g
  simp only at h
  subst h
  rfl

theorem updateCode_cons (g : T_rangeDecoder) (b : BitVec 8) (t : List (BitVec 8)) (h : g.br.inp = b :: t) :
    rangeDecoder_updateCode g
      = (Go.Err.nil, { br := { inp := t }, nrange := g.nrange,
                       code := (BitVec.shiftLeft g.code 8) ||| (BitVec.setWidth 32 b) }) := by
  obtain ⟨⟨inp⟩, r, c⟩ := g
  simp only at h
  subst h
  rfl

theorem shl8_or_toNat' (c : BitVec 32) (b : BitVec 8) :
    ((BitVec.shiftLeft c 8) ||| (BitVec.setWidth 32 b)).toNat = (c.toNat * 256 + b.toNat) % 2 ^ 32 := by
  have hb : b.toNat < 2 ^ 8 := b.isLt
  simp only [BitVec.shiftLeft_eq, BitVec.toNat_or, BitVec.toNat_shiftLeft, BitVec.toNat_setWidth]
  have h1 : c.toNat <<< 8 % 2 ^ 32 = (c.toNat % 2 ^ 24) <<< 8 := by
    rw [Nat.shiftLeft_eq, Nat.shiftLeft_eq]; omega
  have h2 : b.toNat % 2 ^ 32 = b.toNat := Nat.mod_eq_of_lt (by omega)
  rw [h1, h2, ← Nat.shiftLeft_add_eq_or_of_lt hb, Nat.shiftLeft_eq]
  omega

theorem shl8_or_toNat (c : BitVec 32) (b : BitVec 8) (hc : c.toNat < 2 ^ 24) :
    ((BitVec.shiftLeft c 8) ||| (BitVec.setWidth 32 b)).toNat = c.toNat * 256 + b.toNat := by
  have hb : b.toNat < 2 ^ 8 := b.isLt
  rw [shl8_or_toNat']
  apply Nat.mod_eq_of_lt
  omega

/-- the normalisation tail shared by `DecodeBit` and `DirectDecodeBit` -/
def gnorm (g : T_rangeDecoder) : Go.Err × T_rangeDecoder :=
  if BitVec.ule (16777216#32) g.nrange then (Go.Err.nil, g)
  else rangeDecoder_updateCode { g with nrange := BitVec.shiftLeft g.nrange 8 }

theorem gnorm_refines (g : T_rangeDecoder) (d : Rc.Dec) (rel : DecRel g d)
    (hlo : 2 ^ 16 ≤ d.range) (hhi : d.range < 2 ^ 32) (hc : d.code < 2 ^ 32) :
    match d.norm with
    | none => gnorm g = (Go.Err.named "io.EOF", { g with nrange := BitVec.shiftLeft g.nrange 8 })
    | some d' => ∃ g', gnorm g = (Go.Err.nil, g') ∧ DecRel g' d' ∧ DecInv d' := by
  obtain ⟨hr, hcode, hinp⟩ := rel
  unfold Rc.Dec.norm gnorm
  by_cases hlt : d.range < 2 ^ 24
  · have hule : BitVec.ule (16777216#32) g.nrange = false := by
      rw [BitVec.ule_eq_decide]; simp only [BitVec.toNat_ofNat, decide_eq_false_iff_not]; omega
    rw [if_pos hlt, hule]
    simp only [Bool.false_eq_true, if_false]
    cases hi : g.br.inp with
    | nil =>
      have : d.inp = [] := by rw [← hinp, hi]; rfl
      rw [this]
      exact updateCode_nil _ hi
    | cons b t =>
      have : d.inp = b.toNat :: bytesNat' t := by rw [← hinp, hi]; rfl
      rw [this]
      refine ⟨_, updateCode_cons _ b t hi, ⟨?_, ?_, rfl⟩, ⟨?_, ?_, ?_⟩⟩
      · simp only [BitVec.shiftLeft_eq, BitVec.toNat_shiftLeft, Nat.shiftLeft_eq]; omega
      · simp only []
        rw [shl8_or_toNat', hcode]
      · simp only []; omega
      · simp only []; omega
      · simp only []; exact Nat.mod_lt _ (by decide)
  · have hule : BitVec.ule (16777216#32) g.nrange = true := by
      rw [BitVec.ule_eq_decide]; simp only [BitVec.toNat_ofNat, decide_eq_true_eq]; omega
    rw [if_neg hlt, hule]
    simp only [if_true]
    exact ⟨g, rfl, ⟨hr, hcode, hinp⟩, ⟨by omega, hhi, hc⟩⟩

theorem DecodeBit_eq (g : T_rangeDecoder) (p : BitVec 16) :
    rangeDecoder_DecodeBit g p =
      if BitVec.ult g.code (prob_bound p g.nrange) then
        (0#32, (gnorm { g with nrange := prob_bound p g.nrange }).1,
          (gnorm { g with nrange := prob_bound p g.nrange }).2, prob_inc p)
      else
        (1#32, (gnorm { g with code := g.code - prob_bound p g.nrange,
                               nrange := g.nrange - prob_bound p g.nrange }).1,
          (gnorm { g with code := g.code - prob_bound p g.nrange,
                          nrange := g.nrange - prob_bound p g.nrange }).2, prob_dec p) := by
  unfold rangeDecoder_DecodeBit gnorm
  simp only []
  split <;> split <;> rfl

theorem prob_bound_toNat_dec (p : BitVec 16) (r : BitVec 32) (h : p.toNat ≤ 2048) :
    (prob_bound p r).toNat = (r.toNat / 2048) * p.toNat := by
  unfold prob_bound
  simp only [BitVec.ushiftRight_eq, BitVec.toNat_mul, BitVec.toNat_ushiftRight, BitVec.toNat_setWidth,
    Nat.shiftRight_eq_div_pow]
  have hr : r.toNat < 2 ^ 32 := r.isLt
  have h1 : p.toNat % 2 ^ 32 = p.toNat := Nat.mod_eq_of_lt (by omega)
  rw [h1]
  have h2 : r.toNat / 2 ^ 11 * p.toNat ≤ r.toNat / 2 ^ 11 * 2048 := Nat.mul_le_mul_left _ h
  have h3 : (2:Nat) ^ 11 = 2048 := by decide
  rw [h3] at h2 ⊢
  apply Nat.mod_eq_of_lt
  omega

theorem prob_inc_eq (p : BitVec 16) (h : p.toNat ≤ 2048) :
    prob_inc p = BitVec.ofNat 16 (Lzma.probNext p.toNat false) := by
  apply BitVec.eq_of_toNat_eq
  unfold prob_inc Lzma.probNext
  simp only [BitVec.ushiftRight_eq, BitVec.toNat_add, BitVec.toNat_ushiftRight, BitVec.toNat_sub,
    BitVec.toNat_ofNat, Nat.shiftRight_eq_div_pow, Bool.false_eq_true, if_false]
  omega

theorem prob_dec_eq (p : BitVec 16) :
    prob_dec p = BitVec.ofNat 16 (Lzma.probNext p.toNat true) := by
  apply BitVec.eq_of_toNat_eq
  have hp : p.toNat < 2 ^ 16 := p.isLt
  unfold prob_dec Lzma.probNext
  simp only [BitVec.ushiftRight_eq, BitVec.toNat_sub, BitVec.toNat_ushiftRight,
    BitVec.toNat_ofNat, Nat.shiftRight_eq_div_pow, if_true]
  omega

theorem DecodeBit_refines (g : T_rangeDecoder) (d : Rc.Dec) (p : BitVec 16)
    (rel : DecRel g d) (inv : DecInv d) (hp : Rc.POk p.toNat) :
    match d.step (some p.toNat) with
    | none => ∃ b g' p', rangeDecoder_DecodeBit g p = (b, Go.Err.named "io.EOF", g', p')
    | some (bit, d') =>
        ∃ g', rangeDecoder_DecodeBit g p
                = (BitVec.ofNat 32 (Lzma.bitOf bit), Go.Err.nil, g', BitVec.ofNat 16 (Lzma.probNext p.toNat bit))
              ∧ DecRel g' d' ∧ DecInv d' := by
  obtain ⟨hr, hcode, hinp⟩ := rel
  obtain ⟨ilo, ihi, ic⟩ := inv
  obtain ⟨hp1, hp2⟩ := hp
  have hb := prob_bound_toNat_dec p g.nrange (by omega)
  rw [hr] at hb
  have hq1 : d.range / 2048 * 31 ≤ d.range / 2048 * p.toNat := Nat.mul_le_mul_left _ hp1
  have hq2 : d.range / 2048 * p.toNat ≤ d.range / 2048 * 2017 := Nat.mul_le_mul_left _ hp2
  rw [DecodeBit_eq]
  unfold Rc.Dec.step
  simp only []
  by_cases hlt : d.code < d.range / 2048 * p.toNat
  · have hult : BitVec.ult g.code (prob_bound p g.nrange) = true := by
      rw [BitVec.ult_eq_decide, hb, hcode]; exact decide_eq_true hlt
    rw [if_pos hlt, hult, if_pos rfl]
    have key := gnorm_refines { g with nrange := prob_bound p g.nrange }
      { d with range := d.range / 2048 * p.toNat } ⟨hb, hcode, hinp⟩
      (by simp only []; omega) (by simp only []; omega) (by simp only []; omega)
    cases hn : Rc.Dec.norm { d with range := d.range / 2048 * p.toNat } with
    | none =>
      rw [hn] at key
      simp only [Option.map_none]
      exact ⟨_, _, _, by rw [key]⟩
    | some d' =>
      rw [hn] at key
      obtain ⟨g', hg, hrel, hinv⟩ := key
      simp only [Option.map_some]
      refine ⟨g', ?_, hrel, hinv⟩
      rw [hg, prob_inc_eq p (by omega)]
      rfl
  · have hult : BitVec.ult g.code (prob_bound p g.nrange) = false := by
      rw [BitVec.ult_eq_decide, hb, hcode]; exact decide_eq_false hlt
    rw [if_neg hlt, hult, if_neg (by simp)]
    have key := gnorm_refines { g with code := g.code - prob_bound p g.nrange,
                                       nrange := g.nrange - prob_bound p g.nrange }
      { d with code := d.code - d.range / 2048 * p.toNat, range := d.range - d.range / 2048 * p.toNat }
      ⟨by simp only [BitVec.toNat_sub, hb, hr]; omega,
       by simp only [BitVec.toNat_sub, hb, hcode]; omega, hinp⟩
      (by simp only []; omega) (by simp only []; omega) (by simp only []; omega)
    cases hn : Rc.Dec.norm { d with code := d.code - d.range / 2048 * p.toNat,
                                    range := d.range - d.range / 2048 * p.toNat } with
    | none =>
      rw [hn] at key
      simp only [Option.map_none]
      exact ⟨_, _, _, by rw [key]⟩
    | some d' =>
      rw [hn] at key
      obtain ⟨g', hg, hrel, hinv⟩ := key
      simp only [Option.map_some]
      refine ⟨g', ?_, hrel, hinv⟩
      rw [hg, prob_dec_eq p]
      rfl

theorem DirectDecodeBit_eq (g : T_rangeDecoder) :
    rangeDecoder_DirectDecodeBit g =
      let r := BitVec.ushiftRight g.nrange 1
      let c1 := g.code - r
      let t := (0#32) - (BitVec.ushiftRight c1 31)
      let g2 : T_rangeDecoder := { g with nrange := r, code := c1 + (r &&& t) }
      (((t + (1#32)) &&& (1#32)), (gnorm g2).1, (gnorm g2).2) := by
  unfold rangeDecoder_DirectDecodeBit gnorm
  simp only []
  split <;> rfl

theorem direct_hi (c1 : BitVec 32) (h : 2 ^ 31 ≤ c1.toNat) :
    (0#32) - (BitVec.ushiftRight c1 31) = BitVec.allOnes 32 := by
  apply BitVec.eq_of_toNat_eq
  have hn : c1.toNat < 2 ^ 32 := c1.isLt
  simp only [BitVec.ushiftRight_eq, BitVec.toNat_sub, BitVec.toNat_ushiftRight, BitVec.toNat_ofNat,
    BitVec.toNat_allOnes, Nat.shiftRight_eq_div_pow]
  omega

theorem direct_lo (c1 : BitVec 32) (h : ¬ 2 ^ 31 ≤ c1.toNat) :
    (0#32) - (BitVec.ushiftRight c1 31) = 0#32 := by
  apply BitVec.eq_of_toNat_eq
  simp only [BitVec.ushiftRight_eq, BitVec.toNat_sub, BitVec.toNat_ushiftRight, BitVec.toNat_ofNat,
    Nat.shiftRight_eq_div_pow]
  omega

/-- `DirectDecodeBit` (branch-free, sign-bit mask) against the uint32 model: exact from every rest point, also
    when `code ≥ range` (corrupt input). -/
theorem DirectDecodeBit_refines (g : T_rangeDecoder) (d : Rc.Dec)
    (rel : DecRel g d) (inv : DecInv d) :
    match d.step none with
    | none => ∃ b g', rangeDecoder_DirectDecodeBit g = (b, Go.Err.named "io.EOF", g')
    | some (bit, d') =>
        ∃ g', rangeDecoder_DirectDecodeBit g = (BitVec.ofNat 32 (Lzma.bitOf bit), Go.Err.nil, g')
              ∧ DecRel g' d' ∧ DecInv d' := by
  obtain ⟨hr, hcode, hinp⟩ := rel
  obtain ⟨ilo, ihi, ic⟩ := inv
  have hsr : (BitVec.ushiftRight g.nrange 1).toNat = d.range / 2 := by
    simp only [BitVec.ushiftRight_eq, BitVec.toNat_ushiftRight, Nat.shiftRight_eq_div_pow, hr]
  have hc1 : (g.code - BitVec.ushiftRight g.nrange 1).toNat = (2 ^ 32 + d.code - d.range / 2) % 2 ^ 32 := by
    rw [BitVec.toNat_sub, hsr, hcode]; omega
  rw [DirectDecodeBit_eq]
  unfold Rc.Dec.step
  simp only []
  by_cases hs : 2 ^ 31 ≤ (2 ^ 32 + d.code - d.range / 2) % 2 ^ 32
  · rw [if_pos hs, direct_hi _ (by rw [hc1]; exact hs)]
    have hc2 : g.code - BitVec.ushiftRight g.nrange 1
        + (BitVec.ushiftRight g.nrange 1 &&& BitVec.allOnes 32) = g.code := by
      rw [BitVec.and_allOnes]
      apply BitVec.eq_of_toNat_eq
      simp only [BitVec.toNat_add, BitVec.toNat_sub, hsr]
      have : g.code.toNat < 2 ^ 32 := g.code.isLt
      omega
    rw [hc2]
    have key := gnorm_refines { g with nrange := BitVec.ushiftRight g.nrange 1, code := g.code }
      { d with range := d.range / 2 } ⟨hsr, hcode, hinp⟩
      (by simp only []; omega) (by simp only []; omega) (by simp only []; omega)
    cases hn : Rc.Dec.norm { d with range := d.range / 2 } with
    | none =>
      rw [hn] at key
      simp only [Option.map_none]
      exact ⟨_, _, by rw [key]⟩
    | some d' =>
      rw [hn] at key
      obtain ⟨g', hg, hrel, hinv⟩ := key
      simp only [Option.map_some]
      refine ⟨g', ?_, hrel, hinv⟩
      rw [hg]
      rfl
  · rw [if_neg hs, direct_lo _ (by rw [hc1]; exact hs)]
    rw [BitVec.and_zero, BitVec.add_zero]
    have key := gnorm_refines { g with nrange := BitVec.ushiftRight g.nrange 1,
                                       code := g.code - BitVec.ushiftRight g.nrange 1 }
      { d with code := (2 ^ 32 + d.code - d.range / 2) % 2 ^ 32, range := d.range / 2 }
      ⟨hsr, hc1, hinp⟩
      (by simp only []; omega) (by simp only []; omega) (by simp only []; omega)
    cases hn : Rc.Dec.norm { d with code := (2 ^ 32 + d.code - d.range / 2) % 2 ^ 32, range := d.range / 2 } with
    | none =>
      rw [hn] at key
      simp only [Option.map_none]
      exact ⟨_, _, by rw [key]⟩
    | some d' =>
      rw [hn] at key
      obtain ⟨g', hg, hrel, hinv⟩ := key
      simp only [Option.map_some]
      refine ⟨g', ?_, hrel, hinv⟩
      rw [hg]
      rfl

/-! ### where `code < range` holds and where it breaks

  The valid-stream theorems (Proofs/Rc.lean: encoder/decoder synchronisation) keep `code < range`; adaptive bits
  preserve it from any state, a direct bit does not (odd `range`, `code = range - 1`).  Afterwards the excess grows
  by a factor 256 per normalisation and only the uint32 truncation keeps model and code together. -/

theorem norm_keeps_code_lt_range (d d' : Rc.Dec) (hc : d.code < d.range) (hin : ∀ x ∈ d.inp, x < 256)
    (h : d.norm = some d') : d'.code < d'.range := by
  unfold Rc.Dec.norm at h
  split at h
  · cases hi : d.inp with
    | nil => rw [hi] at h; cases h
    | cons x r =>
      rw [hi] at h
      simp only [Option.some.injEq] at h
      subst h
      have hx : x < 256 := hin x (by rw [hi]; simp)
      have := Nat.mod_le (d.code * 256 + x) (2 ^ 32)
      dsimp only
      omega
  · simp only [Option.some.injEq] at h
    subst h
    exact hc

set_option linter.unusedVariables false in
theorem adaptive_keeps_code_lt_range (d d' : Rc.Dec) (p : Nat) (b : Bool) (hp : Rc.POk p)
    (hlo : 2 ^ 24 ≤ d.range) (hhi : d.range < 2 ^ 32) (hc : d.code < d.range)
    (hin : ∀ x ∈ d.inp, x < 256) (h : d.step (some p) = some (b, d')) : d'.code < d'.range := by
  have key : ∀ (dm : Rc.Dec) (bb : Bool), dm.inp = d.inp → dm.code < dm.range →
      dm.norm.map (fun d' => (bb, d')) = some (b, d') → d'.code < d'.range := by
    intro dm bb hi hcm hn
    cases hnm : dm.norm with
    | none => rw [hnm] at hn; cases hn
    | some d1 =>
      rw [hnm] at hn
      simp only [Option.map_some, Option.some.injEq, Prod.mk.injEq] at hn
      obtain ⟨_, rfl⟩ := hn
      exact norm_keeps_code_lt_range dm d1 hcm (by rw [hi]; exact hin) hnm
  unfold Rc.Dec.step at h
  dsimp only at h
  split at h
  · rename_i hlt
    exact key { d with range := d.range / 2048 * p } _ rfl hlt h
  · rename_i hge
    exact key { d with code := d.code - d.range / 2048 * p, range := d.range - d.range / 2048 * p } _ rfl
      (by show d.code - _ < d.range - _; omega) h

theorem direct_breaks_code_lt_range :
    ∃ d d' : Rc.Dec, 2 ^ 24 ≤ d.range ∧ d.range < 2 ^ 32 ∧ d.code < d.range ∧
      d.step none = some (true, d') ∧ d'.code = d'.range :=
  ⟨{ range := 2 ^ 32 - 1, code := 2 ^ 32 - 2, inp := [] }, { range := 2 ^ 31 - 1, code := 2 ^ 31 - 1, inp := [] },
    by decide, by decide, by decide, rfl, rfl⟩

/-! ### newRangeDecoder -/

def sh (c : BitVec 32) (b : BitVec 8) : BitVec 32 := (BitVec.shiftLeft c 8) ||| (BitVec.setWidth 32 b)

theorem sh_toNat (c : BitVec 32) (b : BitVec 8) (hc : c.toNat < 2 ^ 24) : (sh c b).toNat = c.toNat * 256 + b.toNat :=
  shl8_or_toNat c b hc

theorem loop_run (f : Nat) (br0 : Go.ByteReader) (inp : List (BitVec 8)) (r c : BitVec 32) (err : Go.Err) (b : BitVec 8) :
    newRangeDecoder_loop1 (f + 5) br0 { br := { inp := inp }, nrange := r, code := c } err b (0#64) =
      match inp with
      | b1 :: b2 :: b3 :: b4 :: t =>
        Go.Res.ok (Sum.inr (br0, { br := { inp := t }, nrange := r, code := sh (sh (sh (sh c b1) b2) b3) b4 },
          Go.Err.nil, b, 4#64))
      | _ => Go.Res.ok (Sum.inl ((default : T_rangeDecoder), Go.Err.named "io.ErrUnexpectedEOF")) := by
  match inp with
  | [] => rfl
  | [_] => rfl
  | [_, _] => rfl
  | [_, _, _] => rfl
  | _ :: _ :: _ :: _ :: _ => rfl

theorem init_short (l : List Nat) (h : l.length < 5) : Rc.Dec.init l = none := by
  match l with
  | [] => rfl
  | [_] => rfl
  | [_, _] => rfl
  | [_, _, _] => rfl
  | [_, _, _, _] => rfl
  | _ :: _ :: _ :: _ :: _ :: _ => simp only [List.length_cons] at h; omega

theorem init_nz (x : Nat) (l : List Nat) (h : x ≠ 0) : Rc.Dec.init (x :: l) = none := by
  match l with
  | [] => rfl
  | [_] => rfl
  | [_, _] => rfl
  | [_, _, _] => rfl
  | _ :: _ :: _ :: _ :: _ => simp only [Rc.Dec.init, if_pos h]

theorem nrd_nz (fuel : Nat) (a : BitVec 8) (t : List (BitVec 8)) (h : a ≠ 0#8) :
    newRangeDecoder fuel { inp := a :: t }
      = Go.Res.ok ((default : T_rangeDecoder), Go.Err.new "newRangeDecoder: first byte not zero") := by
  have h1 : (a != 0#8) = true := by simpa using h
  have e : newRangeDecoder fuel { inp := a :: t } =
      if (a != 0#8) = true then
        Go.Res.ok ((default : T_rangeDecoder), Go.Err.new "newRangeDecoder: first byte not zero")
      else
        Go.Res.bind (newRangeDecoder_loop1 fuel { inp := a :: t }
            { br := { inp := t }, nrange := 4294967295#32, code := 0#32 } Go.Err.nil a (0#64)) (fun lr_6 =>
          match lr_6 with
          | Sum.inl lr_6 => Go.Res.ok lr_6
          | Sum.inr (br, d, err, b, i) =>
            if (BitVec.ule d.nrange d.code) then
              Go.Res.ok ((default : GoSrc.T_rangeDecoder), (Go.Err.new "newRangeDecoder: d.code >= d.nrange"))
            else
              Go.Res.ok (d, Go.Err.nil)) := rfl
  rw [e, if_pos h1]

theorem nrd_short0 (f : Nat) (inp : List (BitVec 8)) (hlen : inp.length < 5)
    (h0 : ∀ b ∈ inp.head?, b = 0#8) :
    ∃ g, newRangeDecoder (f + 5) { inp := inp } = Go.Res.ok (g, Go.Err.named "io.ErrUnexpectedEOF") := by
  match inp with
  | [] => exact ⟨_, rfl⟩
  | a :: t =>
    have ha : a = 0#8 := h0 a (by simp)
    subst ha
    match t with
    | [] => exact ⟨_, rfl⟩
    | [_] => exact ⟨_, rfl⟩
    | [_, _] => exact ⟨_, rfl⟩
    | [_, _, _] => exact ⟨_, rfl⟩
    | _ :: _ :: _ :: _ :: _ => simp only [List.length_cons] at hlen; omega

theorem nrd_full (f : Nat) (b1 b2 b3 b4 : BitVec 8) (t : List (BitVec 8)) :
    newRangeDecoder (f + 5) { inp := 0#8 :: b1 :: b2 :: b3 :: b4 :: t } =
      if BitVec.ule (4294967295#32) (sh (sh (sh (sh (0#32) b1) b2) b3) b4) then
        Go.Res.ok ((default : T_rangeDecoder), Go.Err.new "newRangeDecoder: d.code >= d.nrange")
      else
        Go.Res.ok ({ br := { inp := t }, nrange := 4294967295#32,
                     code := sh (sh (sh (sh (0#32) b1) b2) b3) b4 }, Go.Err.nil) := rfl

theorem newRangeDecoder_refines (fuel : Nat) (br : Go.ByteReader) (hfuel : 5 ≤ fuel) :
    match Rc.Dec.init (bytesNat' br.inp) with
    | some d => ∃ g, newRangeDecoder fuel br = Go.Res.ok (g, Go.Err.nil) ∧ DecRel g d ∧ DecInv d
    | none => ∃ g err, newRangeDecoder fuel br = Go.Res.ok (g, err) ∧ err ≠ Go.Err.nil := by
  obtain ⟨f, rfl⟩ : ∃ f, fuel = f + 5 := ⟨fuel - 5, by omega⟩
  obtain ⟨inp⟩ := br
  simp only []
  by_cases hlen : inp.length < 5
  · by_cases h0 : ∀ b ∈ inp.head?, b = 0#8
    · rw [init_short _ (by simpa [bytesNat'] using hlen)]
      obtain ⟨g, hg⟩ := nrd_short0 f inp hlen h0
      exact ⟨g, _, hg, by decide⟩
    · match inp with
      | [] => simp at h0
      | a :: t =>
        have ha : a ≠ 0#8 := by simpa using h0
        have ha' : a.toNat ≠ 0 := fun h => ha (BitVec.eq_of_toNat_eq h)
        simp only [bytesNat', List.map_cons]
        rw [init_nz _ _ ha']
        exact ⟨_, _, nrd_nz _ a t ha, by decide⟩
  · match inp with
    | [] | [_] | [_, _] | [_, _, _] | [_, _, _, _] => simp at hlen
    | a :: b1 :: b2 :: b3 :: b4 :: t =>
      by_cases ha : a = 0#8
      · subst ha
        have e1 := sh_toNat (0#32) b1 (by decide)
        have l1 : b1.toNat < 2 ^ 8 := b1.isLt
        have l2 : b2.toNat < 2 ^ 8 := b2.isLt
        have l3 : b3.toNat < 2 ^ 8 := b3.isLt
        have l4 : b4.toNat < 2 ^ 8 := b4.isLt
        simp only [BitVec.toNat_ofNat, Nat.zero_mod, Nat.zero_mul, Nat.zero_add] at e1
        have e2 := sh_toNat (sh (0#32) b1) b2 (by omega)
        have e3 := sh_toNat (sh (sh (0#32) b1) b2) b3 (by omega)
        have e4 := sh_toNat (sh (sh (sh (0#32) b1) b2) b3) b4 (by omega)
        rw [e3, e2, e1] at e4
        rw [nrd_full]
        simp only [bytesNat', List.map_cons, Rc.Dec.init, BitVec.toNat_ofNat, Nat.zero_mod,
          ne_eq, not_true_eq_false, if_false]
        by_cases hge : ((b1.toNat * 256 + b2.toNat) * 256 + b3.toNat) * 256 + b4.toNat ≥ 2 ^ 32 - 1
        · rw [if_pos hge]
          have : BitVec.ule (4294967295#32) (sh (sh (sh (sh (0#32) b1) b2) b3) b4) = true := by
            rw [BitVec.ule_eq_decide, e4]; simp only [BitVec.toNat_ofNat, decide_eq_true_eq]; omega
          rw [this, if_pos rfl]
          exact ⟨_, _, rfl, by decide⟩
        · rw [if_neg hge]
          have : BitVec.ule (4294967295#32) (sh (sh (sh (sh (0#32) b1) b2) b3) b4) = false := by
            rw [BitVec.ule_eq_decide, e4]; simp only [BitVec.toNat_ofNat, decide_eq_false_iff_not]; omega
          rw [this, if_neg (by decide)]
          refine ⟨_, rfl, ⟨rfl, e4, rfl⟩, ⟨?_, ?_, ?_⟩⟩ <;> simp only [] <;> omega
      · have ha' : a.toNat ≠ 0 := fun h => ha (BitVec.eq_of_toNat_eq h)
        simp only [bytesNat', List.map_cons]
        rw [init_nz _ _ ha']
        exact ⟨_, _, nrd_nz _ a _ ha, by decide⟩

theorem newRangeDecoder_short (fuel : Nat) (br : Go.ByteReader) (hfuel : 5 ≤ fuel) (hlen : br.inp.length < 5)
    (h0 : ∀ b ∈ br.inp.head?, b = 0#8) :
    ∃ g, newRangeDecoder fuel br = Go.Res.ok (g, Go.Err.named "io.ErrUnexpectedEOF") := by
  obtain ⟨f, rfl⟩ : ∃ f, fuel = f + 5 := ⟨fuel - 5, by omega⟩
  obtain ⟨inp⟩ := br
  exact nrd_short0 f inp hlen h0

theorem possiblyAtEnd_spec (g : T_rangeDecoder) (d : Rc.Dec) (rel : DecRel g d) :
    rangeDecoder_possiblyAtEnd g = decide (d.code = 0) := by
  unfold rangeDecoder_possiblyAtEnd
  rw [← rel.code]
  by_cases h : g.code = 0#32
  · rw [h]; rfl
  · have h2 : ¬ g.code.toNat = 0 := fun h3 => h (BitVec.eq_of_toNat_eq h3)
    rw [decide_eq_false h2]
    exact beq_false_of_ne h

end GoSrcP
