import XzVerif.Gen.ErrFlow
/-
  C09 — I/O failures are never masked.

  The mechanism of this property is "every error an I/O call can produce on the write and read
  paths is propagated".  `Gen.errFlow` is regenerated on every run from /repo with go/types: for
  every call that yields an `error` inside the files anchored by the property, how the result is
  consumed (`bound` to a variable that is then checked/returned, `returned` directly, `dropped`,
  assigned to `blank`, `dropped-in-defer`, or an error test whose body returns a literal nil:
  `replaced-by-nil`).  The theorems state that no error is replaced by nil and that the only
  dropped results are those of calls that cannot fail (hash and bytes.Buffer writes, the match
  finder's `Write`, the ring buffer's `Read`, string formatting).  A new dropped or nil-replaced
  error breaks them.  What the table cannot see — an error variable overwritten before it is
  tested, control flow that skips the test — is covered by the exhaustive fault enumeration of
  the correspondence check (every sink call index × 4 fault kinds, every source offset).
  Hence `_partial`: the dynamic part is exhaustive per base case, not a theorem.
-/
namespace Props.C09

/-- callees whose error result may be ignored, with the reason -/
def infallible : List String :=
  [ "buf.Write", "buf.WriteByte", "buf.WriteString"   -- bytes.Buffer: documented to return nil
  , "crc.Write"                                        -- hash.Hash.Write never returns an error
  , "fmt.Fprintf"                                      -- into a bytes.Buffer (String methods)
  , "d.m.Write"                                        -- match finder: (len(p), nil) always
  , "d.buf.Read" ]                                     -- ring buffer Peek: err is always nil

def dispositionOk (r : String × String × String × String × String) : Bool :=
  let (_, _, _, callee, disp) := r
  disp == "bound" || disp == "returned" ||
    ((disp == "dropped" || disp == "blank") && infallible.contains callee)

/-- No error on the anchored I/O paths is replaced by nil, dropped in a defer, or dropped at all
    unless the callee cannot fail. -/
theorem C09_errflow_ok : Gen.errFlow.all dispositionOk = true := by decide +kernel

theorem C09_no_replaced_by_nil :
    Gen.errFlow.all (fun r => r.2.2.2.2 != "replaced-by-nil") = true := by decide +kernel

/-- non-vacuity: the table is not empty and contains bound, returned and dropped entries -/
example : Gen.errFlow.length > 100 ∧ Gen.errFlow.any (fun r => r.2.2.2.2 == "dropped") = true ∧
    Gen.errFlow.any (fun r => r.2.2.2.2 == "returned") = true := by decide +kernel

end Props.C09
