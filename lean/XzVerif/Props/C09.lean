import XzVerif.Gen.ErrFlow
import XzVerif.Gen.SrcReads
import XzVerif.Proofs.Writer2F
import XzVerif.Proofs.XzWF
import XzVerif.Proofs.HashTable
import XzVerif.Proofs.BinTree
import XzVerif.Proofs.Writer1F
import XzVerif.Proofs.Writer1I
import XzVerif.Proofs.SrcFail
import XzVerif.Props.C05
/-
  C09 — I/O failures are never masked.

  The mechanism of this property is "every error an I/O call can produce on the write and read
  paths is propagated".  `Gen.errFlow` is regenerated on every run from /repo with go/types: for
  every call that yields an `error` inside the files anchored by the property, how the result is
  consumed (`bound` to a variable that is then checked/returned, `returned` directly, `dropped`,
  assigned to `blank`, `dropped-in-defer`, or an error test whose body returns a literal nil:
  `replaced-by-nil`).  The theorems state that no error is replaced by nil and that the only
  dropped results are those of calls that cannot fail (hash and bytes.Buffer writes, the match
  finder's `Write`, the ring buffer's `Read`, string formatting).  A new dropped or nil-replaced
  error breaks them.  What the table cannot see — an error variable overwritten before it is
  tested, control flow that skips the test — is covered by the exhaustive fault enumeration of
  the correspondence check (every sink call index × 4 fault kinds, every source offset).
  Hence `_partial`: the dynamic part is exhaustive per base case, not a theorem.

  **The LZMA2 writer on a failing sink as a theorem.**  `Model/Writer2F.lean` is the Writer2 model of C08 on a sink
  that may fail: a fault plan says for every sink `Write` call (header of a chunk, its payload — for a raw chunk in one
  or two pieces as `CopyN` cuts it at the end of the ring —, the end-of-stream byte) whether it succeeds or fails after
  accepting some of the bytes; the writer stores the error of a failed chunk write and returns it from every later
  call (the repair of F18); the explicit panics of `writeCompressedChunk`/`writeUncompressedChunk`/`Write` are
  outcomes of the model.  The correspondence check runs the real `Writer2` over a fault-injecting `io.Writer` and this
  model on the same histories for every sink call index and four fault kinds, all calls being issued also after the
  failure: per call the count, error class, sink length, and at the end sink bytes and number of sink calls are equal.
  Proved, for **every** fault plan (once, for ever, partial writes, any mixture), every valid configuration, every
  call history and both match finder models:
  * `C09_writer2_no_call_panics` — no call panics, not before, not during and not after a failure;
  * `C09_writer2_failure_surfaces_in_the_same_call` — the call during which a sink write fails returns an error;
    `C09_writer2_failure_never_masked` — hence a history in which the sink failed has a call that returned non-nil;
  * `C09_writer2_stored_error_is_final` — after a failed chunk write every call returns an error and nothing more
    reaches the sink;
  * `C09_writer2_success_only_with_valid_stream` — if every call of a history ending with Close returned nil, the sink
    holds a complete stream that decodes (strict rules and Go rules) to exactly the data written;
  * `C09_writer2_no_fault_no_difference` — a run in which no sink call failed is the fault-free run of C08.
  Before the F18 repair `no_call_panics` is false for the model of the old behaviour, and the real code panicked on the
  history recorded in known_findings.json.

  **The xz writer on a failing sink as a theorem.**  `Model/XzWF.lean` is writer.go call by call (NewWriter, Write with
  its block changes, Close, newBlockWriter / closeBlockWriter, blockWriter.Write/Close/record, writeIndex, footer) on
  top of `Writer2F`: ONE fault plan numbers all sink calls (stream header, per block: header, the Writer2's chunk
  writes and end-of-stream byte, padding + check, then index pieces, CRC, footer); the `closed` flags are set before
  the writes as in Go.  Tied to the real `xz.Writer` over the fault-injecting sink (2 800 runs quick: per-call
  results, sink bytes, number of sink calls).  Proved for EVERY fault plan, every valid configuration, every call
  history, both match finder models (`Proofs/XzWF*.lean`, `Writer2Pre.lean`, 1 600 lines):
  * `C09_xzwriter_no_call_panics` (incl. `record()`'s "block header not written" panic — defect F8 of the pinned tree —
    which is unreachable because the header length is recorded before the header write);
  * `C09_xzwriter_failure_surfaces_in_the_same_call`, `C09_xzwriter_failure_never_masked`, `C09_xzwriter_new_fails_on_fault`;
  * `C09_xzwriter_no_fault_no_difference`: a run without a failing sink call writes exactly the stream of the batch
    model of C01 (`XzW.run`), every call succeeding;
  * `C09_xzwriter_success_only_with_valid_stream`: NewWriter and every call of Write* Close returned nil ⇒ the sink
    decodes (strict rules and Go rules) to exactly the data written.
  Not covered by a theorem: the classic LZMA writer on failing sinks (bufio / the range encoder's byte writes), and the
  readers on failing sources (exhaustive fault enumeration only).
-/
namespace Props.C09

/-- callees whose error result may be ignored, with the reason -/
def infallible : List String :=
  [ "(bytes.Buffer).Write", "(bytes.Buffer).WriteByte", "(bytes.Buffer).WriteString"   -- documented to return nil
  , "(hash.Hash).Write", "(hash.Hash32).Write", "(hash.Hash64).Write"                    -- hash.Hash.Write never returns an error
  , "fmt.Fprintf"                                      -- into a bytes.Buffer (String methods)
  , "d.m.Write"                                        -- match finder: (len(p), nil) always
  , "d.buf.Read" ]                                     -- ring buffer Peek: err is always nil

def dispositionOk (r : String × String × String × String × String) : Bool :=
  let (_, _, _, callee, disp) := r
  disp == "bound" || disp == "returned" ||
    ((disp == "dropped" || disp == "blank") && infallible.contains callee)

/-- No error on the anchored I/O paths is replaced by nil, dropped in a defer, or dropped at all
    unless the callee cannot fail. -/
theorem C09_errflow_ok : Gen.errFlow.all dispositionOk = true := by decide +kernel

theorem C09_no_replaced_by_nil :
    Gen.errFlow.all (fun r => r.2.2.2.2 != "replaced-by-nil") = true := by decide +kernel

/-- non-vacuity: the table is not empty and contains bound, returned and dropped entries -/
example : Gen.errFlow.length > 100 ∧ Gen.errFlow.any (fun r => r.2.2.2.2 == "dropped") = true ∧
    Gen.errFlow.any (fun r => r.2.2.2.2 == "returned") = true := by decide +kernel

/-! ### the LZMA2 writer on a failing sink (Model/Writer2F.lean) -/

open W2 W2F in
theorem C09_writer2_no_call_panics {σ : Type} (c : Cfg) (hc : CfgOk c) (M : Matcher σ)
    (I : σ → ByteArray → ByteArray → Prop) (hI : MatcherInv c M I) (m0 : σ) (h0 : I m0 ByteArray.empty ByteArray.empty)
    (F : Plan) (calls : List Call) :
    ∀ r ∈ (W2F.run c M F (W2F.init c m0) calls).2, r.1.panic = false :=
  W2F.no_panic c hc M I hI m0 h0 F calls

open W2 W2F in
theorem C09_writer2_no_call_panics_hashtable4 (c : Cfg) (hc : CfgOk c) (F : Plan) (calls : List Call) :
    ∀ r ∈ (W2F.run c HT.HT4 F (W2F.init c (HT.St.new c.dictCap c.bufSize)) calls).2, r.1.panic = false :=
  W2F.no_panic c hc HT.HT4 (HT.Synced c) (HT.ht4_matcherInv c) _ (HT.synced_new c) F calls

open W2 W2F in
theorem C09_writer2_no_call_panics_bintree (c : Cfg) (hc : CfgOk c) (F : Plan) (calls : List Call) :
    ∀ r ∈ (W2F.run c BT.BT4 F (W2F.init c (BT.St.new c.dictCap c.bufSize)) calls).2, r.1.panic = false :=
  W2F.no_panic c hc BT.BT4 (BT.Synced c) (BT.bt4_matcherInv c) _ (BT.synced_new c) F calls

open W2 W2F in
/-- no hypothesis at all: whatever the configuration, the match finder and the state -/
theorem C09_writer2_failure_surfaces_in_the_same_call {σ : Type} (c : Cfg) (M : Matcher σ) (F : Plan) (s : FSt σ)
    (call : Call) (h0 : s.hit = false) (h1 : (W2F.step c M F s call).1.hit = true) :
    (W2F.step c M F s call).2.err ≠ none :=
  W2F.step_hit c M F s call h0 h1

open W2 W2F in
theorem C09_writer2_failure_never_masked {σ : Type} (c : Cfg) (M : Matcher σ) (F : Plan) (m0 : σ) (calls : List Call)
    (h : (W2F.run c M F (W2F.init c m0) calls).1.hit = true) :
    ∃ r ∈ (W2F.run c M F (W2F.init c m0) calls).2, r.1.err ≠ none :=
  W2F.hit_surfaces c M F m0 calls h

open W2 W2F in
theorem C09_writer2_stored_error_is_final {σ : Type} (c : Cfg) (M : Matcher σ) (F : Plan) (s : FSt σ) (call : Call)
    (h : s.err ≠ none) :
    (W2F.step c M F s call).1 = s ∧ (W2F.step c M F s call).2.err ≠ none ∧ (W2F.step c M F s call).2.panic = false :=
  W2F.step_sticky c M F s call h

open W2 W2F Lzma2 in
theorem C09_writer2_success_only_with_valid_stream {σ : Type} (strict : Bool) (c : Cfg) (hc : CfgOk c) (M : Matcher σ)
    (I : σ → ByteArray → ByteArray → Prop) (hI : MatcherInv c M I) (m0 : σ) (h0 : I m0 ByteArray.empty ByteArray.empty)
    (F : Plan) (calls : List Call) (hnc : ∀ call ∈ calls, ¬ (call matches .close))
    (hok : W2F.allOk (W2F.run c M F (W2F.init c m0) (calls ++ [.close])).2) :
    let s := (W2F.run c M F (W2F.init c m0) (calls ++ [.close])).1
    ∃ r, decode strict c.dictCap s.w.out 0 ByteArray.empty = (r, .eof) ∧
      r.h.out = payload calls ∧ r.pos = s.w.out.size ∧ r.seq = .ended :=
  W2F.all_nil_means_valid_stream strict c hc M I hI m0 h0 F calls hnc hok

open W2 W2F Lzma2 in
theorem C09_writer2_success_only_with_valid_stream_hashtable4 (strict : Bool) (c : Cfg) (hc : CfgOk c)
    (F : Plan) (calls : List Call) (hnc : ∀ call ∈ calls, ¬ (call matches .close))
    (hok : W2F.allOk (W2F.run c HT.HT4 F (W2F.init c (HT.St.new c.dictCap c.bufSize)) (calls ++ [.close])).2) :
    let s := (W2F.run c HT.HT4 F (W2F.init c (HT.St.new c.dictCap c.bufSize)) (calls ++ [.close])).1
    ∃ r, decode strict c.dictCap s.w.out 0 ByteArray.empty = (r, .eof) ∧
      r.h.out = payload calls ∧ r.pos = s.w.out.size ∧ r.seq = .ended :=
  W2F.all_nil_means_valid_stream strict c hc HT.HT4 (HT.Synced c) (HT.ht4_matcherInv c) _ (HT.synced_new c) F calls hnc hok

open W2 W2F in
theorem C09_writer2_no_fault_no_difference {σ : Type} (c : Cfg) (hc : CfgOk c) (M : Matcher σ)
    (I : σ → ByteArray → ByteArray → Prop) (hI : MatcherInv c M I) (m0 : σ) (h0 : I m0 ByteArray.empty ByteArray.empty)
    (F : Plan) (calls : List Call) (hnc : ∀ call ∈ calls.dropLast, ¬ (call matches .close))
    (hh : (W2F.run c M F (W2F.init c m0) calls).1.hit = false) :
    (W2F.run c M F (W2F.init c m0) calls).1.w = (W2.run c M (W2.init c m0) calls).1 ∧
    (W2F.run c M F (W2F.init c m0) calls).1.err = none ∧
    (W2F.run c M F (W2F.init c m0) calls).2.map (fun r => (r.1.n, r.1.err.isNone, r.2)) =
      (W2.run c M (W2.init c m0) calls).2.map (fun r => (r.1.n, r.1.err.isNone, r.2)) :=
  W2F.run_no_hit c hc M I hI m0 h0 F calls hnc hh

/-! ### the xz writer on a failing sink (Model/XzWF.lean) -/

open W2 W2F in
theorem C09_xzwriter_no_call_panics {σ : Type} (c : XzW.Cfg) (hc : XzW.CfgOk c) (M : Matcher σ)
    (I : σ → ByteArray → ByteArray → Prop) (hI : MatcherInv c.w2 M I) (m0 : σ) (h0 : I m0 ByteArray.empty ByteArray.empty)
    (F : Plan) (s0 : XzWF.St σ) (h : XzWF.new c F m0 = .ok s0) (calls : List XzWF.Call) :
    ∀ r ∈ (XzWF.run c M F m0 s0 calls).2, r.1.panic = false :=
  XzWF.no_panic c hc M I hI m0 h0 F s0 h calls

open W2 W2F in
theorem C09_xzwriter_no_call_panics_hashtable4 (c : XzW.Cfg) (hc : XzW.CfgOk c) (F : Plan)
    (s0 : XzWF.St (HT.St)) (h : XzWF.new c F (HT.St.new c.w2.dictCap c.w2.bufSize) = .ok s0) (calls : List XzWF.Call) :
    ∀ r ∈ (XzWF.run c HT.HT4 F (HT.St.new c.w2.dictCap c.w2.bufSize) s0 calls).2, r.1.panic = false :=
  XzWF.no_panic c hc HT.HT4 (HT.Synced c.w2) (HT.ht4_matcherInv c.w2) _ (HT.synced_new c.w2) F s0 h calls

open W2 W2F in
theorem C09_xzwriter_no_call_panics_bintree (c : XzW.Cfg) (hc : XzW.CfgOk c) (F : Plan)
    (s0 : XzWF.St (BT.St)) (h : XzWF.new c F (BT.St.new c.w2.dictCap c.w2.bufSize) = .ok s0) (calls : List XzWF.Call) :
    ∀ r ∈ (XzWF.run c BT.BT4 F (BT.St.new c.w2.dictCap c.w2.bufSize) s0 calls).2, r.1.panic = false :=
  XzWF.no_panic c hc BT.BT4 (BT.Synced c.w2) (BT.bt4_matcherInv c.w2) _ (BT.synced_new c.w2) F s0 h calls

open W2 W2F in
theorem C09_xzwriter_failure_surfaces_in_the_same_call {σ : Type} (c : XzW.Cfg) (M : Matcher σ) (F : Plan) (m0 : σ)
    (s : XzWF.St σ) (call : XzWF.Call) (h0 : s.f.hit = false) (h1 : (XzWF.step c M F m0 s call).1.f.hit = true) :
    (XzWF.step c M F m0 s call).2.err ≠ none :=
  XzWF.step_hit c M F m0 s call h0 h1

open W2 W2F in
/-- a sink call failing inside NewWriter makes NewWriter fail (contrapositive: success ⇒ no fault so far) -/
theorem C09_xzwriter_new_fails_on_fault {σ : Type} (c : XzW.Cfg) (F : Plan) (m0 : σ) (s : XzWF.St σ)
    (h : XzWF.new c F m0 = .ok s) : s.f.hit = false :=
  XzWF.new_ok_no_hit c F m0 s h

open W2 W2F in
theorem C09_xzwriter_failure_never_masked {σ : Type} (c : XzW.Cfg) (M : Matcher σ) (F : Plan) (m0 : σ)
    (s0 : XzWF.St σ) (h : XzWF.new c F m0 = .ok s0) (calls : List XzWF.Call)
    (hh : (XzWF.run c M F m0 s0 calls).1.f.hit = true) :
    ∃ r ∈ (XzWF.run c M F m0 s0 calls).2, r.1.err ≠ none :=
  XzWF.hit_surfaces c M F m0 s0 h calls hh

open W2 W2F in
theorem C09_xzwriter_no_fault_no_difference {σ : Type} (c : XzW.Cfg) (hc : XzW.CfgOk c) (M : Matcher σ)
    (I : σ → ByteArray → ByteArray → Prop) (hI : MatcherInv c.w2 M I) (m0 : σ) (h0 : I m0 ByteArray.empty ByteArray.empty)
    (F : Plan) (s0 : XzWF.St σ) (h : XzWF.new c F m0 = .ok s0) (writes : List ByteArray)
    (hh : (XzWF.run c M F m0 s0 (writes.map .write ++ [.close])).1.f.hit = false) :
    (XzWF.run c M F m0 s0 (writes.map .write ++ [.close])).1.f.w.out = XzW.run c M m0 writes ∧
    XzWF.allOk (XzWF.run c M F m0 s0 (writes.map .write ++ [.close])).2 :=
  XzWF.run_no_hit c hc M I hI m0 h0 F s0 h writes hh

open W2 W2F in
theorem C09_xzwriter_success_only_with_valid_stream {σ : Type} (strict : Bool) (c : XzW.Cfg) (hc : XzW.CfgOk c)
    (M : Matcher σ) (I : σ → ByteArray → ByteArray → Prop) (hI : MatcherInv c.w2 M I) (m0 : σ)
    (h0 : I m0 ByteArray.empty ByteArray.empty) (F : Plan) (s0 : XzWF.St σ) (h : XzWF.new c F m0 = .ok s0)
    (writes : List ByteArray) (hsize : (XzW.written writes).size < 2 ^ 40)
    (hblocks : (XzW.split c.blockSize writes).length < 2 ^ 28)
    (cfgCap : Nat) (hcap : strict = false → cfgCap ≤ Xz.dictSize (Model.encodeDictCap c.w2.dictCap))
    (hok : XzWF.allOk (XzWF.run c M F m0 s0 (writes.map .write ++ [.close])).2) :
    let out := (XzWF.run c M F m0 s0 (writes.map .write ++ [.close])).1.f.w.out
    (Xz.read strict cfgCap false out).status = .eof ∧ (Xz.read strict cfgCap false out).out = XzW.written writes :=
  XzWF.all_nil_means_valid_stream strict c hc M I hI m0 h0 F s0 h writes hsize hblocks cfgCap hcap hok

/-- non-vacuity: a fault plan that fails the second sink call once, and one that never fails, are plans; the premise
    `hit = true` of the masking theorem is met by a concrete run (one Write of 1 byte, Close, first sink call fails) -/
example : ((W2F.run { props := ⟨3, 0, 2⟩, dictCap := 4096, bufSize := 4096 } W2.Script (W2F.planOf 1 0)
    (W2F.init { props := ⟨3, 0, 2⟩, dictCap := 4096, bufSize := 4096 } [W2.GoOp.lit 1])
    [.write ⟨#[1]⟩, .close]).1.hit = true) := by decide +kernel

/-! ### where the writers touch the sink (pinned fact, regenerated from /repo with go/types)

  The fault plans of `Model.Writer2F`, `Model.XzWF` and `Model.Writer1F` number the sink calls; the models say in which
  functions the code hands bytes to a sink.  `Gen.sinkWrites` lists every call of `Write` / `WriteByte` / `Flush` on an
  interface-typed writer (hashes excluded) or a `bufio.Writer`, and of the io / bufio functions that write to one.  Every
  entry must be one of the reviewed (function, callee) pairs below — a new place where bytes reach a sink (or where its
  error could be lost) shows up here; the NUMBER of calls each place makes is tied dynamically (sink call counts of the
  fault ties). -/

def sinkSites : List (String × String) :=
  [("Writer2.Close", "(io.Writer).Write"),                       -- the end-of-stream byte
   ("Writer2.writeCompressedChunk", "(io.Writer).Write"),        -- chunk header
   ("Writer2.writeCompressedChunk", "io.Copy"),                  -- chunk body, one Write
   ("Writer2.writeUncompressedChunk", "(io.Writer).Write"),      -- chunk header
   ("encoderDict.CopyN", "(io.Writer).Write"),                   -- raw payload, cut at the ring's end
   ("encoderDict.Discard", "(github.com/ulikunitz/xz/lzma.matcher).Write"),   -- the match finder, not a sink
   ("LimitedByteWriter.WriteByte", "(io.ByteWriter).WriteByte"), -- every byte of the range encoder
   ("Writer.writeHeader", "(io.Writer).Write"),                  -- classic header
   ("WriterConfig.NewWriter", "bufio.NewWriter"),                -- classic writer: plain sinks behind bufio
   ("Writer.Close", "(*bufio.Writer).Flush"),                    -- classic Close: the final flush
   ("WriterConfig.NewWriter", "(io.Writer).Write"),              -- xz stream header
   ("WriterConfig.newBlockWriter", "io.MultiWriter"),            -- block data to the LZMA2 writer and the hash
   ("blockWriter.writeHeader", "(io.Writer).Write"),
   ("blockWriter.Write", "(io.Writer).Write"),
   ("blockWriter.Close", "(io.Writer).Write"),                   -- padding and check in one write
   ("countingWriter.Write", "(io.Writer).Write"),
   ("writeIndex", "(io.Writer).Write"), ("writeIndex", "io.MultiWriter"),
   ("Writer.Close", "(io.Writer).Write"),                        -- xz footer
   ("readBlockHeader", "io.CopyN"), ("uncompressedReader.fill", "io.CopyN")]   -- reader side: into a buffer / the dictionary

theorem C09_sink_reached_only_at_reviewed_sites :
    Gen.sinkWrites.all (fun r => sinkSites.contains (r.2.1, r.2.2)) = true := by decide +kernel

example : Gen.sinkWrites.length ≥ 20 ∧ Gen.sinkWrites.any (fun r => r.2.2 == "io.Copy") = true := by decide +kernel


/-! ### the classic .lzma writer on a failing sink (Model/Writer1F.lean, tied to the real lzma.Writer under fault injection)

  Sinks: a plain `io.Writer` behind bufio's 4096-byte buffer, or an `io.ByteWriter` reached byte by byte; ANY fault plan;
  histories `Write* Close`.  Until the first fault strikes the model is `Model.Writer1` itself (proved), the fault is
  reported by the call in which it strikes, and success of all calls means the sink holds a complete stream that the
  classic reader decodes to the accepted bytes.  What a half-encoded operation leaves behind is not modelled: later
  calls are only known to fail at `Close` (plain sink, bufio's stored error); that they never panic is searched, not
  proved. -/

open W1 W2 W2F in
theorem C09_lzma_writer_no_fault_no_difference {σ : Type} (c : W1.Cfg) (M : Matcher σ) (k : W1F.Kind) (F : Plan) (m0 : σ)
    (ws : List ByteArray) (hF : ∀ i, F i = none) :
    (W1F.new c k F m0).2 = true ∧
    ((W1F.run c M k F (W1F.new c k F m0).1 (W1F.hist ws)).2.map (·.1)).length =
      ((W1.run c M (W1.init c m0) (W1F.hist ws)).1).length ∧
    (∀ (i : Nat) (r : W1F.Res), ((W1F.run c M k F (W1F.new c k F m0).1 (W1F.hist ws)).2.map (·.1))[i]? = some r →
        ∃ (n : Nat) (e : Option W1.Err), r = W1F.Res.done n e ∧
          ((W1.run c M (W1.init c m0) (W1F.hist ws)).1)[i]? = some (n, e)) ∧
    (∀ out, (W1.run c M (W1.init c m0) (W1F.hist ws)).2 = some out →
        (W1F.run c M k F (W1F.new c k F m0).1 (W1F.hist ws)).1.sunk = out) :=
  W1F.no_fault_is_plain c M k F m0 ws hF

open W1 W2 W2F in
theorem C09_lzma_writer_failure_never_masked {σ : Type} (c : W1.Cfg) (M : Matcher σ) (k : W1F.Kind) (F : Plan) (m0 : σ)
    (calls : List W1.Call) (hnew : (W1F.new c k F m0).2 = true)
    (hf : (W1F.run c M k F (W1F.new c k F m0).1 calls).1.failed = true) :
    ∃ r ∈ (W1F.run c M k F (W1F.new c k F m0).1 calls).2, r.1.isSink = true :=
  W1F.fault_is_reported c M k F m0 calls hnew hf

open W1 W2 W2F in
/-- plain sink: bufio keeps the error — after the failing call no Close reports success, the sink is not called again -/
theorem C09_lzma_writer_close_after_failure {σ : Type} (c : W1.Cfg) (M : Matcher σ) (F : Plan) (s : W1F.FSt σ)
    (calls : List W1.Call) (hs : s.failed = true) :
    (∀ r ∈ (W1F.run c M .plain F s calls).2, r.1.isNil = false) ∧
    (W1F.run c M .plain F s calls).1.calls = s.calls ∧ (W1F.run c M .plain F s calls).1.sunk = s.sunk :=
  W1F.plain_close_after_fault c M F s calls hs

open W1 W2 W2F in
/-- **success is reported only when the sink accepted a complete valid stream** (HashTable4 model; every valid
    configuration, every partition, both sink kinds, EVERY fault plan): if NewWriter and all calls of `Write* Close`
    return nil, the classic reader decodes what the sink holds, with a clean end, to the bytes the writer accepted -/
theorem C09_lzma_writer_success_only_with_valid_stream (c : W1.Cfg) (hc : W1.CfgOk c) (k : W1F.Kind) (F : Plan)
    (ws : List ByteArray) (cfgCap : Nat)
    (hnew : (W1F.new c k F (HT.St.new c.w2.dictCap c.w2.bufSize)).2 = true)
    (hall : ∀ r ∈ (W1F.run c HT.HT4 k F (W1F.new c k F (HT.St.new c.w2.dictCap c.w2.bufSize)).1 (W1F.hist ws)).2,
      r.1.isNil = true) :
    let sunk := (W1F.run c HT.HT4 k F (W1F.new c k F (HT.St.new c.w2.dictCap c.w2.bufSize)).1 (W1F.hist ws)).1.sunk
    (Lzma1.read cfgCap sunk).status = .eof ∧ (Lzma1.read cfgCap sunk).out = W1.acceptedData c.size 0 ws := by
  intro sunk
  obtain ⟨out, hout, hsunk, _⟩ := W1F.all_nil_complete_stream c HT.HT4 k F _ ws hnew hall
  have hrt := W1.closes_I c hc HT.HT4 (HT.Synced c.w2) (W2.matcherInv' (HT.ht4_matcherInv c.w2)) _ (HT.synced_new c.w2) ws cfgCap
  have hsz : (match c.size with
      | some sz => (W1.acceptedData c.size 0 ws).size = sz
      | none => True) := by
    by_contra hne
    have hbad : (match c.size with
        | some sz => (W1.acceptedData c.size 0 ws).size ≠ sz
        | none => False) := by
      cases hcs : c.size with
      | none => simp [hcs] at hne
      | some sz => simpa [hcs] using hne
    have := (hrt.1 hbad).2
    unfold W1F.hist at hout
    rw [this] at hout
    exact absurd hout (by simp)
  obtain ⟨_, o, ho, _, hst, hres, _⟩ := hrt.2 hsz
  unfold W1F.hist at hout
  rw [ho] at hout
  have : o = out := Option.some.inj hout
  show (Lzma1.read cfgCap sunk).status = .eof ∧ _
  rw [show sunk = out from hsunk, ← this]
  exact ⟨hst, hres⟩

/-- non-vacuity: the never-failing plan is a plan, and `hist` of one write is `Write Close` -/
example : W1F.hist [⟨#[1, 2, 3]⟩] = [.write ⟨#[1, 2, 3]⟩, .close] := rfl


/-! ### READER SIDE: a source that fails (error other than io.EOF) where its bytes end

  "If the underlying source of a reader fails with an error other than EOF at any offset, opening or reading returns that
  error (or one wrapping it) and never a clean end of stream."  The three lazy reader models carry the failure
  (`newReaderE true …`: wherever the code runs out of source bytes the outcome is the source's error `.err .src`, because
  io.ReadFull, io.CopyN, io.LimitReader and the byte reader hand it on and only io.EOF is translated; tied to the real
  readers on failing, fragmenting sources per call).  Proved by a per-call SIMULATION: as long as a call does not return
  the source's error it returns exactly what the reader returns on the same bytes from a source that ends with io.EOF, so
  * every call before the source's error is the plain run's call (no data invented, none lost);
  * a clean end under a failing source is a clean end of the plain run on the same bytes — the stream was complete before
    the failing offset; for a proper prefix of a well-formed stream that is impossible (C05): the failing run never ends
    cleanly;
  * the xz reader never ends cleanly at all (it needs the source's io.EOF to know that no further stream follows);
  * no panic. -/

/-- classic reader: what opening reports -/
theorem C09_lzma_reader_open_on_failing_source (cfgCap : Nat) (inp : ByteArray) :
    (∀ l, LazyDec.newReaderE true cfgCap inp = .ok l → LazyDec.newReader cfgCap inp = .ok (SrcFail.plainL l)) ∧
    (∀ e, LazyDec.newReaderE true cfgCap inp = .error e → e = .src ∨ LazyDec.newReader cfgCap inp = .error e) :=
  SrcFail.lazy_open_sim cfgCap inp

/-- classic reader: the calls before the source's error are the plain run's calls; the error ends the schedule -/
theorem C09_lzma_reader_failing_source_is_plain_until_error (l : LazyDec.LSt) (lens : List Nat) :
    LazyDec.readSeq l lens = LazyDec.readSeq (SrcFail.plainL l) lens ∨
    ∃ pre out, LazyDec.readSeq l lens = pre ++ [(out, .err .src)] ∧
      ∃ rest, LazyDec.readSeq (SrcFail.plainL l) lens = pre ++ rest ∧ rest ≠ [] :=
  SrcFail.lazy_seq_prefix l lens

theorem C09_lzma2_reader_failing_source_is_plain_until_error (r : LazyDec2.R2) (lens : List Nat) :
    LazyDec2.readSeq r lens = LazyDec2.readSeq (SrcFail.plainR r) lens ∨
    ∃ pre out, LazyDec2.readSeq r lens = pre ++ [(out, .err .src)] ∧
      ∃ rest, LazyDec2.readSeq (SrcFail.plainR r) lens = pre ++ rest ∧ rest ≠ [] :=
  SrcFail.lazy2_seq_prefix r lens

/-- helper: a schedule that ends with `.err .src` does not end with io.EOF -/
theorem lastStat_src_ne_eof (pre : List (ByteArray × LazyDec.RStat)) (out : ByteArray) :
    LazyDec.lastStat (pre ++ [(out, .err .src)]) ≠ .eof := by
  unfold LazyDec.lastStat
  simp

/-- classic reader: a clean end under a failing source is the clean end of the plain run on the same bytes -/
theorem C09_lzma_reader_clean_end_only_if_stream_complete (cfgCap : Nat) (inp : ByteArray) (l : LazyDec.LSt)
    (h : LazyDec.newReaderE true cfgCap inp = .ok l) (lens : List Nat)
    (he : LazyDec.lastStat (LazyDec.readSeq l lens) = .eof) :
    ∃ lN, LazyDec.newReader cfgCap inp = .ok lN ∧ LazyDec.readSeq lN lens = LazyDec.readSeq l lens := by
  refine ⟨SrcFail.plainL l, (SrcFail.lazy_open_sim cfgCap inp).1 l h, ?_⟩
  rcases SrcFail.lazy_seq_prefix l lens with heq | ⟨pre, out, hpre, _⟩
  · exact heq.symm
  · rw [hpre] at he
    exact absurd he (lastStat_src_ne_eof pre out)

/-- LZMA2 reader: the same -/
theorem C09_lzma2_reader_clean_end_only_if_stream_complete (cfgCap : Nat) (inp : ByteArray) (lens : List Nat)
    (he : LazyDec.lastStat (LazyDec2.readSeq (LazyDec2.newReader2E true cfgCap inp) lens) = .eof) :
    LazyDec2.readSeq (LazyDec2.newReader2 cfgCap inp) lens =
      LazyDec2.readSeq (LazyDec2.newReader2E true cfgCap inp) lens := by
  have hopen : (LazyDec2.newReader2E true cfgCap inp).err ≠ some (.err .src) := by
    intro herr
    -- a stored source error is what the first call returns
    cases lens with
    | nil => simp [LazyDec2.readSeq, LazyDec.lastStat] at he
    | cons len rest =>
      have : LazyDec2.readSeq (LazyDec2.newReader2E true cfgCap inp) (len :: rest) =
          [(ByteArray.empty, .err .src)] := by
        simp [LazyDec2.readSeq, LazyDec2.read, herr]
      rw [this] at he
      simp [LazyDec.lastStat] at he
  have hplain := SrcFail.lazy2_open_sim cfgCap inp 0 hopen
  rcases SrcFail.lazy2_seq_prefix (LazyDec2.newReader2E true cfgCap inp) lens with heq | ⟨pre, out, hpre, _⟩
  · unfold LazyDec2.newReader2E at heq ⊢
    unfold LazyDec2.newReader2
    rw [← hplain]; exact heq.symm
  · rw [hpre] at he
    exact absurd he (lastStat_src_ne_eof pre out)

/-- **xz reader: with a failing source no call of any schedule reports a clean end**, and opening never does -/
theorem C09_xz_reader_failing_source_never_clean (cfgCap : Nat) (single : Bool) (inp : ByteArray) :
    (∀ x, LazyXz.newReaderE true cfgCap single inp = .ok x → ∀ lens, ∀ q ∈ LazyXz.readSeq x lens, q.2 ≠ .eof) ∧
    (∀ st, LazyXz.newReaderE true cfgCap single inp = .error st → st ≠ .eof) := by
  refine ⟨fun x hx lens => ?_, fun st hst => ((SrcFail.lazyxz_open_sim cfgCap single inp).2 st hst).1⟩
  exact SrcFail.lazyxz_seq_never_eof x lens ((SrcFail.lazyxz_open_sim cfgCap single inp).1 x hx).1

/-- xz reader: the calls that succeed are the plain run's calls (nothing invented, nothing lost before the failure) -/
theorem C09_xz_reader_failing_source_successful_calls_are_plain (x : LazyXz.X) (lens : List Nat)
    (h : ∀ q ∈ LazyXz.readSeq x lens, q.2 = .ok ∨ q.2 = .eof) :
    LazyXz.readSeq (SrcFail.plainX x) lens = LazyXz.readSeq x lens :=
  SrcFail.lazyxz_seq_sim x lens h

/-- classic reader on a failing source: never a panic, never ErrNoSpace, any input, any schedule -/
theorem C09_lzma_reader_failing_source_no_panic (cfgCap : Nat) (inp : ByteArray) (l : LazyDec.LSt) (lens : List Nat)
    (h : LazyDec.newReaderE true cfgCap inp = .ok l) :
    ∀ q ∈ LazyDec.readSeq l lens, q.2 ≠ .err .panic ∧ q.2 ≠ .err .noSpace :=
  SrcFail.lazy_srcfail_no_panic cfgCap inp l lens h

open Lzma LazyDec in
/-- **the property for the classic format**: the source fails at offset k inside a well-formed stream (unknown size, end
    marker) — no schedule ends cleanly -/
theorem C09_lzma_reader_source_failure_inside_stream_never_clean (cfgCap : Nat) (hdr : Lzma1.Header) (ops : List RawOp)
    (hlc : hdr.props.lc ≤ 8) (hlp : hdr.props.lp ≤ 4) (hpb : hdr.props.pb ≤ 4) (hdc : hdr.dictCap < 2 ^ 32)
    (hcfg : effCap cfgCap ≤ max hdr.dictCap 4096)
    (hops : OpsOk {} { out := .empty, dictStart := 0, cap := max (effCap cfgCap) (max hdr.dictCap 4096) } ops)
    (hsize : hdr.size = none) (k : Nat) (hk : k < (Lzma1.encode hdr ops.toArray true).size)
    (l : LSt) (h : newReaderE true cfgCap ((Lzma1.encode hdr ops.toArray true).extract 0 k) = .ok l) (lens : List Nat) :
    lastStat (readSeq l lens) ≠ .eof := by
  intro he
  obtain ⟨lN, hN, hseq⟩ := C09_lzma_reader_clean_end_only_if_stream_complete cfgCap _ l h lens he
  have := Props.C05.C05_lazy_lzma_prefix_never_clean_unknown cfgCap hdr ops hlc hlp hpb hdc hcfg hops hsize k hk lN hN lens
  rw [hseq] at this
  exact this he

open Lzma LazyDec in
/-- the same for a classic stream with a size in its header (with or without end marker) -/
theorem C09_lzma_reader_source_failure_inside_sized_stream_never_clean (cfgCap : Nat) (hdr : Lzma1.Header) (ops : List RawOp)
    (marker : Bool)
    (hlc : hdr.props.lc ≤ 8) (hlp : hdr.props.lp ≤ 4) (hpb : hdr.props.pb ≤ 4) (hdc : hdr.dictCap < 2 ^ 32)
    (hcfg : effCap cfgCap ≤ max hdr.dictCap 4096)
    (hops : OpsOk {} { out := .empty, dictStart := 0, cap := max (effCap cfgCap) (max hdr.dictCap 4096) } ops)
    (hsize : hdr.size = some
      (finalH {} { out := .empty, dictStart := 0, cap := max (effCap cfgCap) (max hdr.dictCap 4096) } ops).out.size)
    (h63 : (finalH {} { out := .empty, dictStart := 0, cap := max (effCap cfgCap) (max hdr.dictCap 4096) } ops).out.size
      < 2 ^ 63) (k : Nat) (hk : k < (Lzma1.encode hdr ops.toArray marker).size)
    (l : LSt) (h : newReaderE true cfgCap ((Lzma1.encode hdr ops.toArray marker).extract 0 k) = .ok l) (lens : List Nat) :
    lastStat (readSeq l lens) ≠ .eof := by
  intro he
  obtain ⟨lN, hN, hseq⟩ := C09_lzma_reader_clean_end_only_if_stream_complete cfgCap _ l h lens he
  have := Props.C05.C05_lazy_lzma_prefix_never_clean_known cfgCap hdr ops marker hlc hlp hpb hdc hcfg hops hsize h63 k hk
    lN hN lens
  rw [hseq] at this
  exact this he

open LazyDec LazyDec2 in
/-- **the property for LZMA2**: the source fails at offset k inside a well-formed chunk sequence (end-of-stream chunk
    included) — no schedule ends cleanly, and what was delivered is a prefix of the content -/
theorem C09_lzma2_reader_source_failure_inside_stream_never_clean (cfgCap : Nat) (hcap : 4096 ≤ effCap cfgCap)
    (cs : Array Lzma2.Chunk) (hok : Lzma2.ChunksOk false (Lzma2.e0 (effCap cfgCap)) .init cs.toList) (k : Nat)
    (hk : k < (Lzma2.emit (effCap cfgCap) (cs.push { kind := .eos, usize := 0 })).size) (lens : List Nat)
    (cut : ByteArray) (hcut : cut = (Lzma2.emit (effCap cfgCap) (cs.push { kind := .eos, usize := 0 })).extract 0 k) :
    lastStat (LazyDec2.readSeq (newReader2E true cfgCap cut) lens) ≠ .eof := by
  intro he
  have hseq := C09_lzma2_reader_clean_end_only_if_stream_complete cfgCap cut lens he
  have := (Props.C05.C05_lazy_lzma2_prefix_never_clean cfgCap hcap cs hok k hk lens cut _ hcut rfl).1
  rw [hseq] at this
  exact this he

/-- non-vacuity: on the empty input the failing-source reader reports the source's error when opened, the plain one an
    unexpected end -/
example : (LazyDec.newReaderE true 0 ByteArray.empty).toOption.isNone = true ∧
    (LazyXz.newReaderE true 0 false ByteArray.empty).toOption.isNone = true := by decide


end Props.C09
