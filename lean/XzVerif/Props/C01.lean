import XzVerif.Proofs.Segment
import XzVerif.Proofs.Tables
import XzVerif.Proofs.XzRoundTrip
/-
  C01 — xz write→read round trip is lossless for every input and configuration.

  Full statement aimed at (DESIGN.md §6 C01): for every configuration that passes Verify, every
  partition of every byte string over Write calls, the writer model emits bytes that the reader
  model decodes to exactly the input with a clean end.  What is proved here, for every input
  length and every operation sequence (no bound), is the range-coded core of that statement:

  * `C01_segment_roundtrip`: whatever *applicable* operations a match finder proposes (literals,
    matches, rep0–3, short reps; any state, probability table, properties, history), the decoder
    loop run on the encoder's bytes returns exactly those operations, reproduces the same
    history (= the input bytes), state and probabilities — so the next chunk starts in sync —
    consumes every byte and ends cleanly.
  * `C01_tables`: the state machine, length-state and probability-update tables of the Go code
    (regenerated complete graphs) are the ones this codec uses.

  * `C01_container_roundtrip`: whole .xz streams — stream header, any number of blocks (each a
    well-formed LZMA2 chunk list: any mixture of compressed and raw chunks, resets, optional size
    fields, header padding), block padding, check of any type, index, footer, stream padding —
    as laid out by the model emitter are read back by the reader model (Go rules and strict
    rules) to exactly the concatenated block contents, with a clean end.

  Not proved (hence `_partial` in the claim): (1) that the Go match finders only propose
  applicable operations (`OpsOk`) — tied by the correspondence check, which re-encodes the
  operations parsed from real output and compares bytes, and by the direct round-trip oracle;
  (2) the `opLenMargin` question (`OpsFit`, DESIGN.md §7); (3) LZMA2 chunk framing and the .xz
  container around the segments (see Props/C08, C16, C04 and the correspondence check).
-/
namespace Props.C01
open Lzma Rc

/-- Round trip of one range-coded segment (an LZMA2 chunk body or a classic stream body), for
    every list of applicable operations. -/
theorem C01_segment_roundtrip (p : Props) (strictNoMarker : Bool) (s : St) (tbl : Tbl) (htbl : tbl.ok)
    (h : Hist) (ops : List RawOp) (hops : OpsOk s h ops) (hne : ops ≠ []) :
    let x := encodeOps p s tbl h ops
    let body := encClose x
    let n := x.h.out.size - h.out.size
    ∃ rd, Dec.init (bytesToList body 0 body.size) = some rd ∧
      let res := decSegment p (some n) h.out.size strictNoMarker (n + 2) { s := s, tbl := tbl, rd := rd, h := h }
      res.status = .eof ∧ res.sawMarker = false ∧ res.d.h = x.h ∧ res.d.s = x.s ∧ res.d.tbl = x.tbl ∧
      res.d.ops = ops.toArray ∧ res.d.rd.inp = [] ∧ res.d.rd.code = 0 :=
  segment_roundtrip p strictNoMarker s tbl htbl h ops hops hne

/-- Whole-container round trip of the model: everything `emitStream` lays out for a well-formed
    stream is decoded by `read` to the stream's content, cleanly. -/
theorem C01_container_roundtrip (strict : Bool) (cfgCap : Nat) (s : Xz.Stream) (hok : Xz.StreamOk strict s)
    (hcap : Xz.CapOk strict cfgCap s) :
    (Xz.read strict cfgCap false (Xz.emitStream s)).status = .eof ∧
    (Xz.read strict cfgCap false (Xz.emitStream s)).out = Xz.content s :=
  Xz.read_emitStream strict cfgCap s hok hcap

/-- The bit-level mirror underneath: decoding the decisions written for an operation yields it. -/
theorem C01_op_codec_mirror (c : Ctx) (op : RawOp) (h : op.wf) (rest : Path) :
    (opDec c).follow (opEnc c op ++ rest) = some (op, rest) :=
  opDec_opEnc c op h rest

/-- The range coder itself: every decision is recovered, every byte consumed, final code 0. -/
theorem C01_range_coder_roundtrip (ds : List Decn) (hp : ∀ dn ∈ ds, dn.ok) :
    ∃ d0 d', Dec.init (encode ds) = some d0 ∧
      d0.decodeAll (ds.map (·.p)) = some (ds.map (·.b), d') ∧ d'.code = 0 ∧ d'.inp = [] :=
  rc_roundtrip ds hp

/-- The finite tables of the Go encoder/decoder (regenerated from /repo) are the codec's. -/
theorem C01_tables :
    Gen.updLit = (List.range 12).map updLit ∧ Gen.updMatch = (List.range 12).map updMatch ∧
    Gen.updRep = (List.range 12).map updRep ∧ Gen.updShortRep = (List.range 12).map updShortRep ∧
    Gen.lenState = (List.range 272).map lenState ∧
    Gen.probInc = (List.range 2048).map (fun p => probNext p false) ∧
    Gen.probDec = (List.range 2048).map (fun p => probNext p true) :=
  ⟨Proofs.Tables.updLit_table, Proofs.Tables.updMatch_table, Proofs.Tables.updRep_table,
   Proofs.Tables.updShortRep_table, Proofs.Tables.lenState_table, Proofs.Tables.probInc_table,
   Proofs.Tables.probDec_table⟩

/-- the fresh probability table satisfies the hypothesis of the round-trip theorem -/
theorem C01_init_table_ok (lc lp : Nat) : (initTable lc lp).ok := by
  intro c
  unfold Tbl.get initTable POk
  by_cases h : c < (Array.replicate (tableSize lc lp) 1024).size
  · simp [Array.getD, h]
  · simp [Array.getD, h]

/-- non-vacuity: a concrete applicable operation list with a literal, a match, a rep and a short rep -/
example : OpsOk {} { out := ByteArray.empty, dictStart := 0, cap := 4096 }
    [.lit 97, .lit 98, .mtch 2 1, .rep 0 3, .shortRep] := by
  repeat (first | exact OpsOk.nil _ _ | (refine OpsOk.cons _ _ _ _ ?_ ?_) | (refine ⟨?_, ?_⟩) | decide)

end Props.C01
