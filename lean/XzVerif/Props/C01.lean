import XzVerif.Proofs.Segment
import XzVerif.Proofs.GoSrcHash
import XzVerif.Proofs.GoSrcHash2
import XzVerif.Proofs.GoSrcTree2
import XzVerif.Proofs.GoSrcTree3
import XzVerif.Proofs.Tables
import XzVerif.Proofs.XzRoundTrip
import XzVerif.Proofs.Select
import XzVerif.Proofs.XzW
import XzVerif.Proofs.HashTable
import XzVerif.Proofs.BinTree
import XzVerif.Proofs.LazyXz
import XzVerif.Proofs.Fuel
/-
  C01 — xz write→read round trip is lossless for every input and configuration.

  Full statement aimed at (DESIGN.md §6 C01): for every configuration that passes Verify, every
  partition of every byte string over Write calls, the writer model emits bytes that the reader
  model decodes to exactly the input with a clean end.  What is proved here, for every input
  length and every operation sequence (no bound), is the range-coded core of that statement:

  * `C01_segment_roundtrip`: whatever *applicable* operations a match finder proposes (literals,
    matches, rep0–3, short reps; any state, probability table, properties, history), the decoder
    loop run on the encoder's bytes returns exactly those operations, reproduces the same
    history (= the input bytes), state and probabilities — so the next chunk starts in sync —
    consumes every byte and ends cleanly.
  * `C01_tables`: the state machine, length-state and probability-update tables of the Go code
    (regenerated complete graphs) are the ones this codec uses.

  * `C01_container_roundtrip`: whole .xz streams — stream header, any number of blocks (each a
    well-formed LZMA2 chunk list: any mixture of compressed and raw chunks, resets, optional size
    fields, header padding), block padding, check of any type, index, footer, stream padding —
    as laid out by the model emitter are read back by the reader model (Go rules and strict
    rules) to exactly the concatenated block contents, with a clean end.

  * `C01_hashtable4_proposals_applicable`, `C01_bintree_proposals_applicable`: **whatever candidate distances
    the search structures deliver**, what `hashTable.NextOp` / `binTree.NextOp` propose is applicable (literal =
    next byte; match inside the dictionary window and the look-ahead, codable length, bytes really repeat) —
    proved for the ring-level model of their candidate verification (Model/Select.lean: `DictLen` guard, one-byte
    quick reject, `buffer.matchLen` on the circular buffer), which is tied to the real finders on every run
    (real `NextOp` = model on the same candidates and the same ring state, 200 000+ proposals quick).
  * `C01_bintree_no_index_panic`, `C01_hashtable4_no_index_panic`: the quick-reject index never leaves the
    array — for BinaryTree because it wraps at both ends, for HashTable4 because `matchLen` stops at the
    physical end of the array and the candidates come in ascending distance.
  * The LZMA2 writer inside each block: Props/C08 (no call fails; output decodes to the input for every call
    history and every applicable match finder, also stateful ones: `MatcherInv`).

  * **`C01_xz_writer_roundtrip` — the property itself for the model of the whole xz writer** (`Model/XzW.lean`:
    distribution of the Write calls over blocks, one LZMA2 writer machine per block with a fresh match finder,
    block header with the dictionary size code of `EncodeDictCap`, padding, check of any type, index, footer): for
    every configuration `WriterConfig.Verify` accepts, every self-synchronising match finder, every list of Write
    calls (any partition, empty writes included), the emitted stream is read back by the reader model — under the
    format's strict rules and under the Go reader's rules, with any reader dictionary capacity up to the declared
    one — to exactly the bytes written, with a clean end.  `C01_xz_writer_roundtrip_hashtable4` and `_bintree`
    instantiate it with the complete models of the two match finders: **no hypothesis about the match finder is
    left**.  `C01_block_distribution`: every block but the last receives exactly `BlockSize` bytes.
    The model is tied to the real `xz.Writer` on every run: the stream it computes from the Write calls alone
    is byte-identical to the real output (700+ cases quick: both match finders, all check types, block sizes,
    partitions).  Size hypotheses: fewer than 2^40 bytes and 2^28 blocks.

  What remains outside the theorems (hence `partial`): model = Go is the correspondence (computed stream, replayed
  proposals, candidate lists, ring scripts, tables); calls after Close and failing sinks are decided by the oracles
  (C09); Go `int` arithmetic is unbounded in the model.
-/
namespace Props.C01
open Lzma Rc

/-- Round trip of one range-coded segment (an LZMA2 chunk body or a classic stream body), for
    every list of applicable operations. -/
theorem C01_segment_roundtrip (p : Props) (strictNoMarker : Bool) (s : St) (tbl : Tbl) (htbl : tbl.ok)
    (h : Hist) (ops : List RawOp) (hops : OpsOk s h ops) (hne : ops ≠ []) :
    let x := encodeOps p s tbl h ops
    let body := encClose x
    let n := x.h.out.size - h.out.size
    ∃ rd, Dec.init (bytesToList body 0 body.size) = some rd ∧
      let res := decSegment p (some n) h.out.size strictNoMarker (n + 2) { s := s, tbl := tbl, rd := rd, h := h }
      res.status = .eof ∧ res.sawMarker = false ∧ res.d.h = x.h ∧ res.d.s = x.s ∧ res.d.tbl = x.tbl ∧
      res.d.ops = ops.toArray ∧ res.d.rd.inp = [] ∧ res.d.rd.code = 0 :=
  segment_roundtrip p strictNoMarker s tbl htbl h ops hops hne

/-- Whole-container round trip of the model: everything `emitStream` lays out for a well-formed
    stream is decoded by `read` to the stream's content, cleanly. -/
theorem C01_container_roundtrip (strict : Bool) (cfgCap : Nat) (s : Xz.Stream) (hok : Xz.StreamOk strict s)
    (hcap : Xz.CapOk strict cfgCap s) :
    (Xz.read strict cfgCap false (Xz.emitStream s)).status = .eof ∧
    (Xz.read strict cfgCap false (Xz.emitStream s)).out = Xz.content s :=
  Xz.read_emitStream strict cfgCap s hok hcap

/-- The bit-level mirror underneath: decoding the decisions written for an operation yields it. -/
theorem C01_op_codec_mirror (c : Ctx) (op : RawOp) (h : op.wf) (rest : Path) :
    (opDec c).follow (opEnc c op ++ rest) = some (op, rest) :=
  opDec_opEnc c op h rest

/-- The range coder itself: every decision is recovered, every byte consumed, final code 0. -/
theorem C01_range_coder_roundtrip (ds : List Decn) (hp : ∀ dn ∈ ds, dn.ok) :
    ∃ d0 d', Dec.init (encode ds) = some d0 ∧
      d0.decodeAll (ds.map (·.p)) = some (ds.map (·.b), d') ∧ d'.code = 0 ∧ d'.inp = [] :=
  rc_roundtrip ds hp

/-- The finite tables of the Go encoder/decoder (regenerated from /repo) are the codec's. -/
theorem C01_tables :
    Gen.updLit = (List.range 12).map updLit ∧ Gen.updMatch = (List.range 12).map updMatch ∧
    Gen.updRep = (List.range 12).map updRep ∧ Gen.updShortRep = (List.range 12).map updShortRep ∧
    Gen.lenState = (List.range 272).map lenState ∧
    Gen.probInc = (List.range 2048).map (fun p => probNext p false) ∧
    Gen.probDec = (List.range 2048).map (fun p => probNext p true) :=
  ⟨Proofs.Tables.updLit_table, Proofs.Tables.updMatch_table, Proofs.Tables.updRep_table,
   Proofs.Tables.updShortRep_table, Proofs.Tables.lenState_table, Proofs.Tables.probInc_table,
   Proofs.Tables.probDec_table⟩

/-- HashTable4: any candidate list yields an applicable proposal -/
theorem C01_hashtable4_proposals_applicable (d : Ring.EDict) (a : Ring.Abs) (dc bs : Nat) (h : d.Rel a dc bs)
    (cands : List Nat) (rep0 : Nat) (g : W2.GoOp) (hr : Sel.nextOpHT d cands rep0 = .op g) :
    Sel.OpOkAbs a dc rep0 g :=
  Sel.nextOpHT_sound d a dc bs h cands rep0 g hr

/-- BinaryTree: any candidate lists (distances ≥ 1; the tree delivers distances ≥ 4) yield an applicable proposal -/
theorem C01_bintree_proposals_applicable (d : Ring.EDict) (a : Ring.Abs) (dc bs : Nat) (h : d.Rel a dc bs)
    (special : Bool) (ca cb : List Nat) (hca : ∀ x ∈ ca, 1 ≤ x) (hcb : ∀ x ∈ cb, 1 ≤ x) (rep0 : Nat) (g : W2.GoOp)
    (hr : Sel.nextOpBT d special ca cb rep0 = .op g) : Sel.OpOkAbs a dc rep0 g :=
  Sel.nextOpBT_sound d a dc bs h special ca cb rep0 g hca hcb hr

theorem C01_bintree_no_index_panic (d : Ring.EDict) (a : Ring.Abs) (dc bs : Nat) (h : d.Rel a dc bs)
    (hbuf : a.r < a.W.length) (special : Bool) (ca cb : List Nat) (rep0 : Nat) :
    Sel.nextOpBT d special ca cb rep0 ≠ .panic :=
  Sel.nextOpBT_no_panic d a dc bs h hbuf special ca cb rep0

theorem C01_hashtable4_no_index_panic (d : Ring.EDict) (a : Ring.Abs) (dc bs : Nat) (h : d.Rel a dc bs)
    (hbuf : a.r < a.W.length) (cands : List Nat)
    (hasc : ((cands.filter (fun x => x > 8))).Pairwise (· < ·)) (rep0 : Nat) :
    Sel.nextOpHT d cands rep0 ≠ .panic :=
  Sel.nextOpHT_no_panic d a dc bs h hbuf cands hasc rep0

/-- an abstractly applicable proposal is what the Writer2 theorems ask of a match finder (`W2.GoOpOk`) -/
theorem C01_applicable_is_goOpOk (a : Ring.Abs) (c : W2.Cfg) (hist look : ByteArray) (s : Lzma.St) (g : W2.GoOp)
    (hh : hist.data.toList = a.W.take a.r) (hl : look.data.toList = a.W.drop a.r) (hr : a.r ≤ a.W.length)
    (hok : Sel.OpOkAbs a c.dictCap s.r0 g) : W2.GoOpOk c hist look s g :=
  Sel.opOkAbs_goOpOk a c hist look s g hh hl hr hok

/-- the whole xz writer model: what is written is what is read back -/
theorem C01_xz_writer_roundtrip {σ : Type} (strict : Bool) (c : XzW.Cfg) (hc : XzW.CfgOk c) (M : W2.Matcher σ)
    (I : σ → ByteArray → ByteArray → Prop) (hI : W2.MatcherInv c.w2 M I) (m0 : σ) (h0 : I m0 ByteArray.empty ByteArray.empty)
    (writes : List ByteArray) (hsize : (XzW.written writes).size < 2 ^ 40)
    (hblocks : (XzW.split c.blockSize writes).length < 2 ^ 28)
    (cfgCap : Nat) (hcap : strict = false → cfgCap ≤ Xz.dictSize (Model.encodeDictCap c.w2.dictCap)) :
    (Xz.read strict cfgCap false (XzW.run c M m0 writes)).status = .eof ∧
    (Xz.read strict cfgCap false (XzW.run c M m0 writes)).out = XzW.written writes :=
  XzW.xz_writer_roundtrip strict c hc M I hI m0 h0 writes hsize hblocks cfgCap hcap

theorem C01_xz_writer_roundtrip_hashtable4 (strict : Bool) (c : XzW.Cfg) (hc : XzW.CfgOk c)
    (writes : List ByteArray) (hsize : (XzW.written writes).size < 2 ^ 40)
    (hblocks : (XzW.split c.blockSize writes).length < 2 ^ 28)
    (cfgCap : Nat) (hcap : strict = false → cfgCap ≤ Xz.dictSize (Model.encodeDictCap c.w2.dictCap)) :
    let out := XzW.run c HT.HT4 (HT.St.new c.w2.dictCap c.w2.bufSize) writes
    (Xz.read strict cfgCap false out).status = .eof ∧ (Xz.read strict cfgCap false out).out = XzW.written writes :=
  XzW.xz_writer_roundtrip strict c hc HT.HT4 (HT.Synced c.w2) (HT.ht4_matcherInv c.w2) _ (HT.synced_new c.w2)
    writes hsize hblocks cfgCap hcap

theorem C01_xz_writer_roundtrip_bintree (strict : Bool) (c : XzW.Cfg) (hc : XzW.CfgOk c)
    (writes : List ByteArray) (hsize : (XzW.written writes).size < 2 ^ 40)
    (hblocks : (XzW.split c.blockSize writes).length < 2 ^ 28)
    (cfgCap : Nat) (hcap : strict = false → cfgCap ≤ Xz.dictSize (Model.encodeDictCap c.w2.dictCap)) :
    let out := XzW.run c BT.BT4 (BT.St.new c.w2.dictCap c.w2.bufSize) writes
    (Xz.read strict cfgCap false out).status = .eof ∧ (Xz.read strict cfgCap false out).out = XzW.written writes :=
  XzW.xz_writer_roundtrip strict c hc BT.BT4 (BT.Synced c.w2) (BT.bt4_matcherInv c.w2) _ (BT.synced_new c.w2)
    writes hsize hblocks cfgCap hcap

/-- block distribution: the pieces are exactly the bytes written; every block but the last gets `bs` bytes -/
theorem C01_block_distribution (bs : Nat) (hbs : 1 ≤ bs) (writes : List ByteArray) :
    XzW.written ((XzW.split bs writes).flatten) = XzW.written writes ∧
    (∀ b ∈ (XzW.split bs writes).dropLast, (XzW.written b).size = bs) ∧
    (∀ b, (XzW.split bs writes).getLast? = some b → (XzW.written b).size ≤ bs) ∧
    XzW.split bs writes ≠ [] :=
  XzW.split_spec bs hbs writes

/-- the hypotheses are satisfiable: the default configuration (8 MiB dictionary, CRC64, no block size) -/
example : XzW.CfgOk { w2 := { props := ⟨3, 0, 2⟩, dictCap := 8388608, bufSize := 4096 }, blockSize := 2 ^ 63 - 1, flags := 4 } := by
  unfold XzW.CfgOk W2.CfgOk Lzma2.PropsOk; decide

/-- the fresh probability table satisfies the hypothesis of the round-trip theorem -/
theorem C01_init_table_ok (lc lp : Nat) : (initTable lc lp).ok := by
  intro c
  unfold Tbl.get initTable POk
  by_cases h : c < (Array.replicate (tableSize lc lp) 1024).size
  · simp [Array.getD, h]
  · simp [Array.getD, h]

/-- non-vacuity: a concrete applicable operation list with a literal, a match, a rep and a short rep -/
example : OpsOk {} { out := ByteArray.empty, dictStart := 0, cap := 4096 }
    [.lit 97, .lit 98, .mtch 2 1, .rep 0 3, .shortRep] := by
  repeat (first | exact OpsOk.nil _ _ | (refine OpsOk.cons _ _ _ _ ?_ ?_) | (refine ⟨?_, ?_⟩) | decide)

/-! ### write → read with BOTH sides at the level the code runs

  The writer model (`XzW.run`, tied byte for byte to the real `xz.Writer`) followed by the LAZY xz reader model
  (`Model/LazyXz.lean`: reader.go as it runs, ring level, tied per call to the real `xz.Reader`): for every valid
  configuration, every partition into Write calls, both match finder models, every reader capacity the header covers and
  EVERY schedule of Read buffer lengths asking for more than the data, the reader opens the stream and delivers exactly
  the bytes written, followed by `io.EOF`. -/

/-- NewReader of the lazy model never fails with the clean-end value -/
theorem lazyxz_newReader_not_eof (cfgCap : Nat) (single : Bool) (inp : ByteArray) :
    LazyXz.newReader cfgCap single inp ≠ .error .eof := by
  intro hn
  unfold LazyXz.newReader LazyXz.newReaderE LazyXz.newStreamReaderE at hn
  simp only [Bool.false_eq_true, if_false, LazyXz.ofStatusE_false] at hn
  split at hn
  · cases hn
  · cases hh : Xz.readStreamHeader inp 0 with
    | cleanEnd => rw [hh] at hn; simp at hn
    | padding => rw [hh] at hn; simp [LazyXz.oerr] at hn
    | ok flags => rw [hh] at hn; simp at hn
    | fail st0 =>
      rw [hh] at hn
      have hne := LazyXz.rsh_fail_ne inp 0 st0 hh
      cases st0 with
      | eof => exact hne rfl
      | unexpectedEOF => simp [LazyXz.ofStatus] at hn
      | err w => simp [LazyXz.ofStatus] at hn

open LazyDec in
/-- when the batch reader decodes `inp` cleanly to `content`, the lazy xz reader opens it and delivers exactly `content`
    followed by `io.EOF`, under every schedule asking for more than `content` -/
theorem lazyxz_of_batch (cfgCap : Nat) (hcfg : cfgCap = 0 ∨ (4096 ≤ cfgCap ∧ cfgCap ≤ 2 ^ 32 - 1)) (inp content : ByteArray)
    (hst : (Xz.read false cfgCap false inp).status = .eof) (hout : (Xz.read false cfgCap false inp).out = content)
    (lens : List Nat) (hsum : content.size < lens.sum) :
    ∃ x, LazyXz.newReader cfgCap false inp = .ok x ∧ LazyXz.lastStat (LazyXz.readSeq x lens) = .eof ∧
      delivered (LazyXz.readSeq x lens) = content := by
  have hb : LazyXz.batch cfgCap false inp = Xz.read false cfgCap false inp := rfl
  cases hn : LazyXz.newReader cfgCap false inp with
  | error st =>
    have h1 := (LazyXz.newReader_err cfgCap hcfg false inp st hn).1
    rw [hb, hst] at h1
    cases st with
    | ok => simp [LazyXz.statusOfR, Lzma.Status.cls] at h1
    | eof => exact absurd hn (lazyxz_newReader_not_eof cfgCap false inp)
    | err e => cases e <;> simp [LazyXz.statusOfR, statusOf, Lzma.Status.cls] at h1
  | ok x =>
    have hclean : (LazyXz.batch cfgCap false inp).status = .eof := by rw [hb]; exact hst
    have hbo : (LazyXz.batch cfgCap false inp).out = content := by rw [hb]; exact hout
    have heof := LazyXz.reaches_eof cfgCap false inp x hn lens hclean (by rw [hbo]; exact hsum)
    have hf : (LazyXz.batch cfgCap false inp).status ≠ .err "fuel exhausted" := by
      rw [hclean]; intro hh; cases hh
    exact ⟨x, rfl, heof, by rw [(LazyXz.eof_complete cfgCap false inp x hn lens hf heof).2, hbo]⟩

theorem C01_roundtrip_lazy_reader {σ : Type} (c : XzW.Cfg) (hc : XzW.CfgOk c) (M : W2.Matcher σ)
    (I : σ → ByteArray → ByteArray → Prop) (hI : W2.MatcherInv c.w2 M I) (m0 : σ) (h0 : I m0 ByteArray.empty ByteArray.empty)
    (writes : List ByteArray) (hsize : (XzW.written writes).size < 2 ^ 40)
    (hblocks : (XzW.split c.blockSize writes).length < 2 ^ 28)
    (cfgCap : Nat) (hcap : cfgCap ≤ Xz.dictSize (Model.encodeDictCap c.w2.dictCap))
    (hcfg : cfgCap = 0 ∨ (4096 ≤ cfgCap ∧ cfgCap ≤ 2 ^ 32 - 1))
    (lens : List Nat) (hsum : (XzW.written writes).size < lens.sum) :
    ∃ x, LazyXz.newReader cfgCap false (XzW.run c M m0 writes) = .ok x ∧
      LazyXz.lastStat (LazyXz.readSeq x lens) = .eof ∧
      LazyDec.delivered (LazyXz.readSeq x lens) = XzW.written writes := by
  obtain ⟨hst, hout⟩ := XzW.xz_writer_roundtrip false c hc M I hI m0 h0 writes hsize hblocks cfgCap (fun _ => hcap)
  exact lazyxz_of_batch cfgCap hcfg _ _ hst hout lens hsum

/-! ### The HashTable4 match finder's table, from the SOURCE (regenerated translation, Gen/GoSrc.lean)

  The match finder model `HT.HT4` (Model/HashTable.lean) — the one the end-to-end theorems above are instantiated with and
  whose computed streams equal the real writer's — maintains its hash chains exactly as lzma/hashtable.go does: the table
  update of `Tab.writeByte` is `putEntry` as written in Go (slot `h & mask`, position + 1 in the slot, the delta to the
  previous word with the same hash in the circular list, 0 when that word is out of reach or beyond 2^32 − 1), and the
  table exponent is `hashTableExponent` (through `nlz32`). -/

theorem C01_source_hashtable_maintenance :
    (∀ n : BitVec 32, GoSrc.hashTableExponent n = Go.Res.ok (BitVec.ofNat 64 (HT.tableExponent n.toNat))) ∧
    (∀ (t : HT.Tab) (c : UInt8), t.writeByte c =
      (let t' := { t with n := t.n + 1, b1 := t.b2, b2 := t.b3, b3 := c }
       if t'.n < 4 then t' else GoSrcP.putEntryM t' (HT.hash4 t.b1 t.b2 t.b3 c).toNat)) ∧
    (∀ (g : GoSrc.T_hashTable) (t : HT.Tab), GoSrcP.TabRel g t → ∀ (h : BitVec 64), 4 ≤ t.n →
      (∀ i, i < t.t.size → t.t.getD i 0 ≤ t.n - 4 + 1) →
      ∃ g', GoSrc.hashTable_putEntry g h (BitVec.ofNat 64 (t.n - 4)) = Go.Res.ok g' ∧ GoSrcP.TabRel g' (GoSrcP.putEntryM t h.toNat)) ∧
    (∀ (g : GoSrc.T_hashTable) (h pos : BitVec 64), pos.toInt < 0 → GoSrc.hashTable_putEntry g h pos = Go.Res.ok g) ∧
    (∀ (g : GoSrc.T_hashTable) (t : HT.Tab), GoSrcP.TabRel g t → (GoSrc.hashTable_buffered g).toNat = t.buffered) :=
  ⟨GoSrcP.hashTableExponent_spec, GoSrcP.writeByte_eq_putEntryM,
   fun g t rel h hn hord => GoSrcP.putEntry_refines g t rel h hn hord,
   GoSrcP.putEntry_early, GoSrcP.buffered_refines⟩

/-- `hashTable.getMatches` from the source (the walk along the delta chain of a hash slot, the ring index `rear + delta` with
    its wrap, the out-parameter) lists the positions of `Tab.getMatches` (Model/HashTable.lean), most recent first, at most
    16; no index panic on a well-formed table -/
theorem C01_source_hashtable_getMatches (fuel : Nat) (g : GoSrc.T_hashTable) (t : HT.Tab) (rel : GoSrcP.TabRel g t)
    (h : BitVec 64) (positions : Array (BitVec 64)) (hsz : positions.size = 16) (hfuel : 20 ≤ fuel)
    (hord : ∀ i, i < t.t.size → t.t.getD i 0 ≤ t.n - 4 + 1) :
    ∃ n pos', GoSrc.hashTable_getMatches fuel g h positions = Go.Res.ok (BitVec.ofNat 64 n, pos') ∧
      n = (t.getMatches (UInt64.ofNat h.toNat)).length ∧ pos'.size = 16 ∧
      ∀ k, k < n → (pos'.getD k 0#64).toNat = (t.getMatches (UInt64.ofNat h.toNat)).getD k 0 :=
  GoSrcP.getMatches_refines fuel g t rel h positions hsz hfuel hord

/-- the BinaryTree match finder's read-only walkers from the source (`binTree.max`, `min`, `distance` over the node slice)
    are those of the hand-written model (Model/BinTree.lean) on a tree without cycles; no index panic. (`search`, `add`,
    `remove`, `pred`, `succ` hold pointers into the node slice across assignments — outside the translator's subset; the
    BinaryTree model is tied by candidate lists and computed streams.) -/
theorem C01_source_bintree_walkers (fuel : Nat) (g : GoSrc.T_binTree) (t : BT.Tree) (rel : GoSrcP.BTRel g t) (v : BitVec 32)
    (hfuel : t.node.size + 2 ≤ fuel) :
    (v.toNat < t.node.size → t.front < 2 ^ 31 → (GoSrc.binTree_distance g v).toNat = t.distance v.toNat) ∧
    ((v.toNat = BT.null ∨ v.toNat < t.node.size) → (v.toNat ≠ BT.null → (t.nd (t.max v.toNat)).r = BT.null) →
      GoSrc.binTree_max fuel g v = Go.Res.ok (BitVec.ofNat 32 (t.max v.toNat))) ∧
    ((v.toNat = BT.null ∨ v.toNat < t.node.size) → (v.toNat ≠ BT.null → (t.nd (t.min v.toNat)).l = BT.null) →
      GoSrc.binTree_min fuel g v = Go.Res.ok (BitVec.ofNat 32 (t.min v.toNat))) :=
  ⟨fun hv hf => GoSrcP.binTree_distance_spec g t rel v hv hf,
   fun hv ht => GoSrcP.binTree_max_spec fuel g t rel v hv hfuel ht,
   fun hv ht => GoSrcP.binTree_min_spec fuel g t rel v hv hfuel ht⟩

/-- `binTree.pred` / `succ` from the source (in-order neighbours: extreme node of a subtree, else climb the parent links) are
    the model's on a tree with acyclic parent links (a rank decreasing towards the root) — the iterators of `NextOp` -/
theorem C01_source_bintree_neighbours (fuel : Nat) (g : GoSrc.T_binTree) (t : BT.Tree) (rel : GoSrcP.BTRel g t) (v : BitVec 32)
    (hv : v.toNat = BT.null ∨ v.toNat < t.node.size) (hfuel : t.node.size + 3 ≤ fuel)
    (wp : ∀ i, i < t.node.size → (t.nd i).p = BT.null ∨ (t.nd i).p < t.node.size)
    (rank : Nat → Nat) (hrb : ∀ i, rank i ≤ t.node.size)
    (hrank : ∀ i, i < t.node.size → (t.nd i).p ≠ BT.null → rank (t.nd i).p < rank i) :
    ((∀ u, u < t.node.size → (t.nd (t.max u)).r = BT.null) →
      GoSrc.binTree_pred fuel g v = Go.Res.ok (BitVec.ofNat 32 (t.pred v.toNat))) ∧
    ((∀ u, u < t.node.size → (t.nd (t.min u)).l = BT.null) →
      GoSrc.binTree_succ fuel g v = Go.Res.ok (BitVec.ofNat 32 (t.succ v.toNat))) :=
  ⟨fun ht => GoSrcP.binTree_pred_spec fuel g t rel v hv hfuel wp rank hrb hrank ht,
   fun ht => GoSrcP.binTree_succ_spec fuel g t rel v hv hfuel wp rank hrb hrank ht⟩

-- (that every function on the translation list was translated is required once, in Props/C02 and Props/C03; a function of
-- this property that fell out of the translator's subset would make the theorems above fail to elaborate)

end Props.C01
