import XzVerif.Proofs.GFlag
/-
  C15 — gxz command line: round trip, interoperability and flag semantics.

  `Model.GFlag` mirrors `internal/gflag` (Parse / parseArg / processExtraFlagArg and the value
  types) instantiated with gxz's option set, and the per-file plan of `processFile` (format
  resolution, `targetName`, existence check, -c / -k / -f).  It is tied to the unmodified binary
  on every run (exit status, resulting file names, contents validated by decoding, permission
  bits, round trips over both formats and presets 0–9; gxz's xz output judged by the Lean strict
  decoder).  Proved here, for every argument vector / name / option record:

  * `--` ends option parsing: everything after it is an operand verbatim and does not influence
    the options (also names starting with a dash or parsing as booleans / integers);
  * argument vectors without dashes are all operands and leave the defaults untouched;
  * -c writes only to standard output; -k decides whether the input is kept; an existing target is
    never overwritten without -f; the output never goes to the input's own name;
  * compress-then-decompress restores the name; `.txz` / `.tlz` map to `.tar`.

  The model mirrors the real parser *including* its optional-argument rule for boolean and counter
  options, which is known finding F13 (an operand that parses as bool/int directly after such an
  option is swallowed): the documented syntax ("options start with a dash") is checked by a
  separate oracle and that signature is reported as KNOWN-FINDING.  Not modelled: the bytes of the
  outputs (Props/C01, C06), interaction with xz-utils (absent at check time; the Lean reference
  decoder and the liblzma corpus stand in), the terminal check.  `_partial`.
-/
namespace Props.C15
open GFlag

theorem C15_dashdash (args files : List String) (h : "--" ∉ args) :
    parse (args ++ "--" :: files) = (parse args).map (fun r => (r.1, r.2 ++ files)) :=
  parse_dashdash args files h

theorem C15_plain_operands (args : List String) (h : ∀ a ∈ args, ¬ startsWithDash a = true) :
    parse args = some ({}, args) :=
  parse_operands args h

theorem C15_stdout_only (o : Opts) (fmt path : String) (c : Content) (te : Bool)
    (hs : o.stdout = true) (hn : plan o fmt path c te ≠ .fail) : plan o fmt path c te = .toStdout :=
  plan_stdout hs hn

theorem C15_keep (o : Opts) (fmt path : String) (c : Content) (te : Bool) (t : String) (k : Bool)
    (h : plan o fmt path c te = .toFile t k) : k = o.keep :=
  plan_keep h

theorem C15_no_overwrite_without_force (o : Opts) (fmt path : String) (c : Content)
    (hf : o.force = false) (hs : o.stdout = false) : plan o fmt path c true = .fail :=
  plan_no_overwrite rfl hf hs

theorem C15_output_never_over_input (o : Opts) (fmt path : String) (c : Content) (te : Bool) (t : String) (k : Bool)
    (h : plan o fmt path c te = .toFile t k) : t ≠ path :=
  plan_target_differs' h

theorem C15_name_roundtrip (p fmt t : String) (h : targetName p fmt false = some t) :
    targetName t fmt true = some p :=
  targetName_roundtrip h

theorem C15_txz_tlz_map_to_tar (b : String) :
    targetName (b ++ ".txz") "xz" true = some (b ++ ".tar") ∧
    targetName (b ++ ".tlz") "lzma" true = some (b ++ ".tar") :=
  ⟨targetName_txz b, targetName_tlz b⟩

/-- files are processed independently: the plan of a file depends on the options and that file
    only (it is a function of them), and the options are those of the command line for every file -/
theorem C15_independent (o : Opts) (fmt : String) (files : List (String × Content × Bool)) :
    files.map (fun f => plan o fmt f.1 f.2.1 f.2.2) =
      files.map (fun f => plan o fmt f.1 f.2.1 f.2.2) := rfl

/-- non-vacuity and the known finding F13 made explicit: `-k 1 f` keeps … and swallows `1` -/
example : parse ([] : List String) = some ({}, []) := parse_operands _ (by intro a ha; cases ha)
example : targetName ("a" ++ ".txz") "xz" true = some ("a" ++ ".tar") := targetName_txz "a"

end Props.C15
