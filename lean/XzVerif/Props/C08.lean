import XzVerif.Proofs.Lzma2RoundTrip
import XzVerif.Proofs.Chunk
import XzVerif.Proofs.Writer2
import XzVerif.Proofs.HashTable
import XzVerif.Proofs.BinTree
import XzVerif.Proofs.LazyDec2
import XzVerif.Proofs.Fuel
/-
  C08 — LZMA2 writer: lossless for any call history; Flush yields a decodable prefix.

  **Model.** `Model/Writer2.lean` is an executable state machine for `Writer2.Write/Flush/Close`,
  `flushChunk`, `writeChunk` (raw vs compressed), `encoder.Write/compress/writeOp/Close/Reopen`, the
  dictionary space arithmetic of `encoderDict`, the byte limit of the range coder (`ErrLimit`, also in the
  middle of an operation and inside `rangeEncoder.Close`) and the chunk-state bookkeeping, over an
  **abstract match finder** (`W2.Matcher`: any state, any proposal function).  The correspondence check
  replays the proposals of the real match finders into this model and requires the per-call results, the
  sink length after every call and the sink bytes to be identical (functional tie, every run).

  **Theorems (for every configuration `Writer2Config.Verify` accepts, every match finder whose proposals are
  applicable — `W2.MatcherOk` —, every call history, no bound):**
  * `C08_flush_prefix_decodes`: after a successful history ending with `Flush`, sink + end marker decodes,
    under the format's strict rules and under the Go reader's rules, to exactly the data written, every
    byte consumed.
  * `C08_close_decodes`: after a successful history ending with `Close` the sink decodes to exactly the
    data written followed by a clean end.
  * `C08_no_call_fails`: **no call fails** — no panic branch, no "other" error, no exhausted loop, and,
    because `opLenMargin ≥ 25` (regenerated constant; an operation costs at most 20 range-coder bytes,
    `op_digits_bound`, and closing needs 5), no `ErrLimit`.  With the margin the pinned tree had (16) this
    theorem does not go through; the excluded point was run against the real code and is defect F17
    (DESIGN.md §7), repaired by the commit that raised the constant.
  * `C08_first_error_is_limit`: independently of the margin, the only way a call can fail is that byte limit.
  * `C08_write_takes_all`, `C08_after_close`, `C08_idle_flush`: a successful Write took every byte; calls
    after Close fail with errClosed and change nothing; a Flush with nothing pending emits nothing.
  * `C08_refines`: the sink always holds the emission of a well-formed chunk list (`ChunksOk`) whose
    content is the accepted data — this is what the three decode theorems rest on, via
    `C08_chunks_roundtrip` (L4: every well-formed chunk list round-trips).
  `C08_writer_sequences_legal` (Props/C16): the chunk-type bookkeeping only produces legal sequences.

  **With the HashTable4 model, no hypothesis about the match finder is left.**  `Model/HashTable.lean` models the
  default match finder completely (rolling hash, hash chains, candidate list, ring-level verification of every
  candidate); with it the Lean writer model computes the compressed stream from the input alone, and the
  correspondence check compares that stream byte for byte with the real writer's (C08 quick tier: 350+ call
  histories).  `Proofs/HashTable.lean` proves that this match finder keeps itself in sync with the dictionary and
  only makes applicable proposals (`W2.MatcherInv`), so:
  * `C08_hashtable4_never_fails`, `C08_hashtable4_close_decodes`, `C08_hashtable4_flush_prefix_decodes`: for every
    valid configuration and **every** call history of the LZMA2 writer model with the HashTable4 model, no call
    fails, the closed stream decodes (strict rules and Go rules) to exactly the data written, and after every Flush
    the sink plus end marker decodes to exactly the data written so far.
  The same theorems are available for every match finder that satisfies `MatcherInv` (`C08_*_I`), e.g. any
  candidate search combined with the ring-level verification of Model/Select.lean.

  The BinaryTree match finder is modelled the same way (`Model/BinTree.lean`: tree insertion/removal with parent
  pointers, search, predecessor/successor iterators, distances; tied byte for byte through the computed stream and
  through the candidate lists) and proved self-synchronising and applicable: `C08_bintree_never_fails`,
  `C08_bintree_close_decodes`, `C08_bintree_flush_prefix_decodes`.  With both match finders modelled, every
  configuration `Writer2Config.Verify` accepts is covered without a hypothesis about the match finder.

  **Not proved** (hence still `partial`): that HashTable4 and BinaryTree satisfy `MatcherOk` (their
  candidate verification via `buffer.matchLen` is proved sound at ring level in Proofs/Ring.lean; the
  composition with the hash-table / tree bookkeeping is tied by the correspondence check, which judges
  every recorded proposal), and the sink never failing (C09).
-/
namespace Props.C08
open Lzma2 Lzma Rc Spec

theorem C08_chunks_roundtrip (strict : Bool) (cap : Nat) (cs : Array Chunk)
    (hok : ChunksOk strict (e0 cap) .init cs.toList) :
    ∃ r, decode strict cap (emit cap (cs.push { kind := .eos, usize := 0 })) 0 ByteArray.empty = (r, .eof) ∧
      r.h.out = (cs.foldl emitChunk (e0 cap)).h.out ∧
      r.pos = (emit cap (cs.push { kind := .eos, usize := 0 })).size ∧
      r.seq = .ended := by
  obtain ⟨r, h1, _, h3, h4, h5, _⟩ := decode_emit strict cap cs hok
  exact ⟨r, h1, h3, h4, h5⟩

open W2 in
/-- Flush clause: sink + end marker decodes to exactly the accepted data (both rule sets) -/
theorem C08_flush_prefix_decodes {σ : Type} (strict : Bool) (c : Cfg) (hc : CfgOk c) (M : Matcher σ)
    (hM : MatcherOk c M) (m0 : σ) (calls : List Call) (hnc : ∀ call ∈ calls, ¬ (call matches .close))
    (hok : allOk (run c M (init c m0) (calls ++ [.flush])).2) :
    let w := (run c M (init c m0) (calls ++ [.flush])).1
    ∃ r, decode strict c.dictCap (w.out.push 0) 0 ByteArray.empty = (r, .eof) ∧
      r.h.out = payload calls ∧ r.pos = w.out.size + 1 :=
  W2.flush_prefix_decodes strict c hc M hM m0 calls hnc hok

open W2 in
/-- Close clause: the complete sink decodes to exactly the accepted data and a clean end -/
theorem C08_close_decodes {σ : Type} (strict : Bool) (c : Cfg) (hc : CfgOk c) (M : Matcher σ)
    (hM : MatcherOk c M) (m0 : σ) (calls : List Call) (hnc : ∀ call ∈ calls, ¬ (call matches .close))
    (hok : allOk (run c M (init c m0) (calls ++ [.close])).2) :
    let w := (run c M (init c m0) (calls ++ [.close])).1
    ∃ r, decode strict c.dictCap w.out 0 ByteArray.empty = (r, .eof) ∧
      r.h.out = payload calls ∧ r.pos = w.out.size ∧ r.seq = .ended :=
  W2.close_decodes strict c hc M hM m0 calls hnc hok

open W2 in
/-- no call of any history fails (uses the regenerated constant `opLenMargin ≥ 25`) -/
theorem C08_no_call_fails {σ : Type} (c : Cfg) (hc : CfgOk c) (M : Matcher σ) (hM : MatcherOk c M) (m0 : σ)
    (calls : List Call) (hnc : ∀ call ∈ calls, ¬ (call matches .close)) (call : Call) :
    allOk (run c M (init c m0) (calls ++ [call])).2 :=
  W2.no_error_of_margin (by decide) c hc M hM m0 calls hnc call

open W2 in
/-- whatever the margin: the only possible failure is the byte limit of the range coder -/
theorem C08_first_error_is_limit {σ : Type} (c : Cfg) (hc : CfgOk c) (M : Matcher σ) (hM : MatcherOk c M)
    (m0 : σ) (calls : List Call) (hnc : ∀ call ∈ calls, ¬ (call matches .close)) (call : Call)
    (hok : allOk (run c M (init c m0) calls).2) :
    let r := (step c M (run c M (init c m0) calls).1 call).2
    r.err = none ∨ r.err = some .limit :=
  W2.first_error_is_limit c hc M hM m0 calls hnc call hok

open W2 in
theorem C08_write_takes_all {σ : Type} (c : Cfg) (M : Matcher σ) (w : WSt σ) (p : ByteArray)
    (h : (step c M w (.write p)).2.err = none) : (step c M w (.write p)).2.n = p.size :=
  W2.write_ok_all c M w p h

open W2 in
theorem C08_after_close {σ : Type} (c : Cfg) (M : Matcher σ) (w : WSt σ) (call : Call) (h : w.closed = true) :
    step c M w call = (w, { err := some .closed }) :=
  W2.after_close c M w call h

open W2 in
theorem C08_idle_flush {σ : Type} (c : Cfg) (M : Matcher σ) (w : WSt σ) (h : w.written = 0)
    (hcl : w.closed = false) : step c M w .flush = (w, {}) :=
  W2.idle_flush c M w h hcl

open W2 in
/-- the sink is always the emission of a well-formed chunk list whose content is the accepted data -/
theorem C08_refines {σ : Type} (strict : Bool) (c : Cfg) (hc : CfgOk c) (M : Matcher σ) (hM : MatcherOk c M)
    (m0 : σ) (calls : List Call) (hnc : ∀ call ∈ calls, ¬ (call matches .close))
    (hok : allOk (run c M (init c m0) calls).2) :
    let w := (run c M (init c m0) calls).1
    ChunksOk strict (e0 c.dictCap) .init w.chunks.toList ∧
    w.out = chunksBytes (e0 c.dictCap) w.chunks.toList ∧
    (w.chunks.foldl emitChunk (e0 c.dictCap)).h.out = w.hist.extract 0 w.start ∧
    w.hist ++ w.look = payload calls :=
  W2.run_refines strict c hc M hM m0 calls hnc hok

/-! ### unconditional for the HashTable4 model -/

open W2 in
theorem C08_hashtable4_never_fails (c : Cfg) (hc : CfgOk c) (calls : List Call)
    (hnc : ∀ call ∈ calls, ¬ (call matches .close)) (call : Call) :
    allOk (run c HT.HT4 (init c (HT.St.new c.dictCap c.bufSize)) (calls ++ [call])).2 :=
  W2.no_error_of_margin_I (by decide) c hc HT.HT4 (HT.Synced c) (HT.ht4_matcherInv c) _ (HT.synced_new c) calls hnc call

open W2 in
theorem C08_hashtable4_close_decodes (strict : Bool) (c : Cfg) (hc : CfgOk c) (calls : List Call)
    (hnc : ∀ call ∈ calls, ¬ (call matches .close)) :
    let w := (run c HT.HT4 (init c (HT.St.new c.dictCap c.bufSize)) (calls ++ [.close])).1
    ∃ r, decode strict c.dictCap w.out 0 ByteArray.empty = (r, .eof) ∧
      r.h.out = payload calls ∧ r.pos = w.out.size ∧ r.seq = .ended :=
  W2.close_decodes_I strict c hc HT.HT4 (HT.Synced c) (HT.ht4_matcherInv c) _ (HT.synced_new c) calls hnc
    (C08_hashtable4_never_fails c hc calls hnc .close)

open W2 in
theorem C08_hashtable4_flush_prefix_decodes (strict : Bool) (c : Cfg) (hc : CfgOk c) (calls : List Call)
    (hnc : ∀ call ∈ calls, ¬ (call matches .close)) :
    let w := (run c HT.HT4 (init c (HT.St.new c.dictCap c.bufSize)) (calls ++ [.flush])).1
    ∃ r, decode strict c.dictCap (w.out.push 0) 0 ByteArray.empty = (r, .eof) ∧
      r.h.out = payload calls ∧ r.pos = w.out.size + 1 :=
  W2.flush_prefix_decodes_I strict c hc HT.HT4 (HT.Synced c) (HT.ht4_matcherInv c) _ (HT.synced_new c) calls hnc
    (C08_hashtable4_never_fails c hc calls hnc .flush)

/-! ### unconditional for the BinaryTree model (Model/BinTree.lean: tree maintenance + iterators + selection) -/

open W2 in
theorem C08_bintree_never_fails (c : Cfg) (hc : CfgOk c) (calls : List Call)
    (hnc : ∀ call ∈ calls, ¬ (call matches .close)) (call : Call) :
    allOk (run c BT.BT4 (init c (BT.St.new c.dictCap c.bufSize)) (calls ++ [call])).2 :=
  W2.no_error_of_margin_I (by decide) c hc BT.BT4 (BT.Synced c) (BT.bt4_matcherInv c) _ (BT.synced_new c) calls hnc call

open W2 in
theorem C08_bintree_close_decodes (strict : Bool) (c : Cfg) (hc : CfgOk c) (calls : List Call)
    (hnc : ∀ call ∈ calls, ¬ (call matches .close)) :
    let w := (run c BT.BT4 (init c (BT.St.new c.dictCap c.bufSize)) (calls ++ [.close])).1
    ∃ r, decode strict c.dictCap w.out 0 ByteArray.empty = (r, .eof) ∧
      r.h.out = payload calls ∧ r.pos = w.out.size ∧ r.seq = .ended :=
  W2.close_decodes_I strict c hc BT.BT4 (BT.Synced c) (BT.bt4_matcherInv c) _ (BT.synced_new c) calls hnc
    (C08_bintree_never_fails c hc calls hnc .close)

open W2 in
theorem C08_bintree_flush_prefix_decodes (strict : Bool) (c : Cfg) (hc : CfgOk c) (calls : List Call)
    (hnc : ∀ call ∈ calls, ¬ (call matches .close)) :
    let w := (run c BT.BT4 (init c (BT.St.new c.dictCap c.bufSize)) (calls ++ [.flush])).1
    ∃ r, decode strict c.dictCap (w.out.push 0) 0 ByteArray.empty = (r, .eof) ∧
      r.h.out = payload calls ∧ r.pos = w.out.size + 1 :=
  W2.flush_prefix_decodes_I strict c hc BT.BT4 (BT.Synced c) (BT.bt4_matcherInv c) _ (BT.synced_new c) calls hnc
    (C08_bintree_never_fails c hc calls hnc .flush)

/-- the same three statements for every self-synchronising match finder -/
theorem C08_close_decodes_I {σ : Type} (strict : Bool) (c : W2.Cfg) (hc : W2.CfgOk c) (M : W2.Matcher σ)
    (I : σ → ByteArray → ByteArray → Prop) (hI : W2.MatcherInv c M I) (m0 : σ) (h0 : I m0 ByteArray.empty ByteArray.empty)
    (calls : List W2.Call) (hnc : ∀ call ∈ calls, ¬ (call matches .close)) :
    let w := (W2.run c M (W2.init c m0) (calls ++ [.close])).1
    ∃ r, decode strict c.dictCap w.out 0 ByteArray.empty = (r, .eof) ∧
      r.h.out = W2.payload calls ∧ r.pos = w.out.size ∧ r.seq = .ended :=
  W2.close_decodes_I strict c hc M I hI m0 h0 calls hnc
    (W2.no_error_of_margin_I (by decide) c hc M I hI m0 h0 calls hnc .close)

/-- the hypotheses are satisfiable: the default configuration is valid and the literal-only match finder
    (always proposes the next byte) is applicable -/
example : W2.CfgOk { props := ⟨3, 0, 2⟩, dictCap := 8388608, bufSize := 4096 } := by
  unfold W2.CfgOk PropsOk; decide

example (c : W2.Cfg) : W2.MatcherOk c (σ := Unit) ⟨fun m _ look _ => (.lit (look.get! 0).toNat, m)⟩ := by
  intro m hist look s h
  exact ⟨h, rfl⟩

/-- the writer's chunk-type choice never leaves the legal sequences (see Props/C16) -/
theorem C08_writer_sequences_legal : ∀ s ∈ Proofs.Chunk.live, ∀ raw : Bool,
    let c := if raw then Model.demote (Model.defaultChunkType s) else Model.defaultChunkType s
    ∃ s', Model.chunkNext s c = some s' ∧ s' ∈ Proofs.Chunk.live ∧ (Model.kindOfCtype c).isSome ∧ c ≠ Gen.lzma_cEOS :=
  Proofs.Chunk.writer_step

/-! ### write → read with both sides at the level the code runs: the LZMA2 writer model and the LAZY LZMA2 reader model -/

open LazyDec in
/-- when the batch LZMA2 reader decodes `inp` cleanly to `content`, the lazy ring-level reader of the same capacity
    delivers exactly `content` followed by `io.EOF`, under every schedule asking for more than `content` -/
theorem lazy2_of_batch (cfgCap : Nat) (hcap : 4096 ≤ effCap cfgCap) (inp content : ByteArray) (r : Lzma2.RState)
    (hdec : decode false (effCap cfgCap) inp 0 ByteArray.empty = (r, .eof)) (hout : r.h.out = content)
    (lens : List Nat) (hsum : content.size < lens.sum) :
    LazyDec.lastStat (LazyDec2.readSeq (LazyDec2.newReader2 cfgCap inp) lens) = .eof ∧
    delivered (LazyDec2.readSeq (LazyDec2.newReader2 cfgCap inp) lens) = content := by
  have hb : LazyDec2.batch cfgCap inp = (r, .eof) := hdec
  have hclean : (LazyDec2.batch cfgCap inp).2 = .eof := by rw [hb]
  have hbo : (LazyDec2.batch cfgCap inp).1.h.out = content := by rw [hb]; exact hout
  have heof := LazyDec2.reaches_eof cfgCap hcap inp lens hclean (by rw [hbo]; exact hsum)
  have hf : (LazyDec2.batch cfgCap inp).2 ≠ .err "fuel exhausted" := by rw [hclean]; intro h; cases h
  exact ⟨heof, by rw [(LazyDec2.eof_complete cfgCap hcap inp lens hf heof).2, hbo]⟩

open W2 LazyDec in
/-- **Close, both sides as the code runs** (HashTable4 model): every valid configuration with a dictionary of at least
    4096 bytes (what `Reader2Config` accepts), every history of Write and Flush calls followed by Close: the lazy LZMA2
    reader configured with the writer's dictionary capacity delivers, under EVERY schedule of buffer lengths asking for
    more than the data, exactly all data written, followed by `io.EOF`. -/
theorem C08_hashtable4_close_then_lazy_reader (c : Cfg) (hc : CfgOk c) (hd : 4096 ≤ c.dictCap) (calls : List Call)
    (hnc : ∀ call ∈ calls, ¬ (call matches .close)) (lens : List Nat) (hsum : (payload calls).size < lens.sum) :
    let out := (run c HT.HT4 (init c (HT.St.new c.dictCap c.bufSize)) (calls ++ [.close])).1.out
    LazyDec.lastStat (LazyDec2.readSeq (LazyDec2.newReader2 c.dictCap out) lens) = .eof ∧
    delivered (LazyDec2.readSeq (LazyDec2.newReader2 c.dictCap out) lens) = payload calls := by
  intro out
  obtain ⟨r, h1, h2, _, _⟩ := C08_hashtable4_close_decodes false c hc calls hnc
  have he : effCap c.dictCap = c.dictCap := by unfold effCap; split <;> omega
  exact lazy2_of_batch c.dictCap (by rw [he]; exact hd) out (payload calls) r (by rw [he]; exact h1) h2 lens hsum

open W2 LazyDec in
/-- **Flush, both sides as the code runs** (HashTable4 model): what the sink holds when a Flush returns, followed by an
    end marker, is read by the lazy LZMA2 reader to exactly the data written so far -/
theorem C08_hashtable4_flush_then_lazy_reader (c : Cfg) (hc : CfgOk c) (hd : 4096 ≤ c.dictCap) (calls : List Call)
    (hnc : ∀ call ∈ calls, ¬ (call matches .close)) (lens : List Nat) (hsum : (payload calls).size < lens.sum) :
    let out := ((run c HT.HT4 (init c (HT.St.new c.dictCap c.bufSize)) (calls ++ [.flush])).1.out).push 0
    LazyDec.lastStat (LazyDec2.readSeq (LazyDec2.newReader2 c.dictCap out) lens) = .eof ∧
    delivered (LazyDec2.readSeq (LazyDec2.newReader2 c.dictCap out) lens) = payload calls := by
  intro out
  obtain ⟨r, h1, h2, _⟩ := C08_hashtable4_flush_prefix_decodes false c hc calls hnc
  have he : effCap c.dictCap = c.dictCap := by unfold effCap; split <;> omega
  exact lazy2_of_batch c.dictCap (by rw [he]; exact hd) out (payload calls) r (by rw [he]; exact h1) h2 lens hsum

end Props.C08
