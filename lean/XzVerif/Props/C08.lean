import XzVerif.Proofs.Lzma2RoundTrip
import XzVerif.Proofs.Chunk
/-
  C08 — LZMA2 writer: lossless for any call history; Flush yields a decodable prefix.

  The LZMA2 writer emits a sequence of chunks; a Flush ends the current chunk.  What the sink
  holds after a successful Flush is `chunksBytes` of the chunks so far, and after Close the same
  followed by the end marker.  `C08_chunks_roundtrip` proves, for *every* chunk list that is
  well-formed (`ChunksOk`: legal kind sequence, applicable operations, field widths respected) —
  any number of chunks, raw or compressed in any mixture, with or without state/dictionary
  resets — that the reader model (Go rules and strict format rules alike) decodes the emitted
  bytes plus end marker to exactly the emitter's content, consumes every byte and ends cleanly,
  the coder state carrying over from chunk to chunk (also across raw chunks).  Since every
  prefix of a `ChunksOk` list is `ChunksOk`, this is also the Flush clause.
  `C08_writer_sequences_legal` (from Props/C16) shows that the writer's chunk-type bookkeeping
  only produces legal sequences.

  Not proved: that Writer2's Write/Flush/Close bookkeeping produces exactly such chunk lists from
  a call history (what ends up in which chunk, `written()`, the 64 KiB / 2 MiB cuts, `OpsFit`),
  and that the match finders deliver applicable operations.  Both are tied by the correspondence
  check (byte-identical re-encoding of the parsed chunks of real outputs over generated call
  histories; prefix decoding after every Flush).  Hence `_partial`.
-/
namespace Props.C08
open Lzma2 Lzma Rc Spec

theorem C08_chunks_roundtrip (strict : Bool) (cap : Nat) (cs : Array Chunk)
    (hok : ChunksOk strict (e0 cap) .init cs.toList) :
    ∃ r, decode strict cap (emit cap (cs.push { kind := .eos, usize := 0 })) 0 ByteArray.empty = (r, .eof) ∧
      r.h.out = (cs.foldl emitChunk (e0 cap)).h.out ∧
      r.pos = (emit cap (cs.push { kind := .eos, usize := 0 })).size ∧
      r.seq = .ended := by
  obtain ⟨r, h1, _, h3, h4, h5, _⟩ := decode_emit strict cap cs hok
  exact ⟨r, h1, h3, h4, h5⟩

/-- the writer's chunk-type choice never leaves the legal sequences (see Props/C16) -/
theorem C08_writer_sequences_legal : ∀ s ∈ Proofs.Chunk.live, ∀ raw : Bool,
    let c := if raw then Model.demote (Model.defaultChunkType s) else Model.defaultChunkType s
    ∃ s', Model.chunkNext s c = some s' ∧ s' ∈ Proofs.Chunk.live ∧ (Model.kindOfCtype c).isSome ∧ c ≠ Gen.lzma_cEOS :=
  Proofs.Chunk.writer_step

end Props.C08
