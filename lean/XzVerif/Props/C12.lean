import XzVerif.Proofs.XzSound
import XzVerif.Proofs.XzRoundTrip
import XzVerif.Proofs.LazyXz
import XzVerif.Proofs.Fuel
/-
  C12 — Concatenated xz streams decode to the concatenation; SingleStream takes just one.

  Proved for the reader model (every input): padding before the first stream is an error
  (`C12_leading_padding_rejected`), an input without any stream is an error, a clean end is only
  reported at the very end of the input (so trailing bytes that are neither a whole stream nor
  4-byte zero groups — in particular padding whose length is not a multiple of four and trailing
  non-zero bytes — cannot be silently ignored: `C12_clean_end_consumes_all`, which also covers
  SingleStream: with it a clean end means the first stream ends exactly at the end of the input),
  and the input is never modified while streams are read.  `C12_concatenation`: any non-empty
  list of well-formed streams, each followed by zero padding of a multiple of four bytes, decodes
  to the concatenation of their contents with a clean end (the reader parsers are
  extension-stable: proved with explicit `pre ++ bytes ++ post` decompositions).
  `C12_single_stream`: with SingleStream the first stream's content is delivered and the end is
  clean iff not a single byte follows.  `_partial` only in that "well-formed stream" is the
  model emitter's layout (tied to real streams — library-, liblzma- and spec-encoder-written — by
  the correspondence check on generated chains with paddings 0…16 and SingleStream on/off).
-/
namespace Props.C12
open Xz Lzma

theorem C12_leading_padding_rejected (strict : Bool) (cap : Nat) (single : Bool) (inp : ByteArray)
    (h4 : 4 ≤ inp.size) (hz : allZero inp 0 4 = true) :
    (read strict cap single inp).status ≠ .eof :=
  leading_padding_rejected strict cap single inp h4 hz

theorem C12_no_stream_rejected (strict : Bool) (cap : Nat) (single : Bool) :
    (read strict cap single ByteArray.empty).status ≠ .eof :=
  empty_rejected strict cap single

theorem C12_clean_end_consumes_all (strict : Bool) (cap : Nat) (single : Bool) (inp : ByteArray)
    (h : (read strict cap single inp).status = .eof) :
    (read strict cap single inp).pos ≥ inp.size ∧ (read strict cap single inp).streams.size ≥ 1 :=
  ⟨read_clean_consumes_all strict cap single inp h, clean_needs_stream strict cap single inp h⟩

/-- concatenated streams (with 4-byte-multiple zero padding after each) decode to the
    concatenation of the contents -/
theorem C12_concatenation (strict : Bool) (cfgCap : Nat) (ss : List Stream) (hne : ss ≠ [])
    (hok : ∀ s ∈ ss, StreamOk strict s ∧ CapOk strict cfgCap s) :
    (read strict cfgCap false (emit ss.toArray)).status = .eof ∧
    (read strict cfgCap false (emit ss.toArray)).out = (ss.map content).foldl (· ++ ·) .empty :=
  read_emit strict cfgCap ss hne hok

/-- SingleStream: exactly the first stream's content; clean end iff nothing follows -/
theorem C12_single_stream (strict : Bool) (cfgCap : Nat) (s : Stream) (hok : StreamOk strict s)
    (hcap : CapOk strict cfgCap s) (hpad : s.padAfter = 0) (t : ByteArray) :
    ((read strict cfgCap true (emitStream s ++ t)).status = .eof ↔ t = ByteArray.empty) ∧
    (read strict cfgCap true (emitStream s ++ t)).out = content s :=
  read_single strict cfgCap s hok hcap hpad t

/-- the loop that walks over streams and padding never changes the input it reads from -/
theorem C12_input_preserved (strict : Bool) (cap : Nat) (single : Bool) (fuel : Nat) (first : Bool) (r : RdState) :
    (readStreams strict cap single fuel first r).1.inp = r.inp :=
  readStreams_inp strict cap single fuel first r

/-! ### at the level the code runs: the lazy xz reader (Model/LazyXz.lean, tied per call to the real xz.Reader) -/

open LazyDec LazyXz in
/-- Every chain of well-formed streams (zero padding in multiples of four after each) is read by the lazy xz reader model,
    under EVERY schedule of buffer lengths asking for more than the content, to exactly the concatenation of the contents
    followed by `io.EOF`: composition of the concatenation law with the refinement theorem. -/
theorem C12_lazy_reader_concatenation (cfgCap : Nat) (ss : List Stream) (hne : ss ≠ [])
    (hok : ∀ s ∈ ss, StreamOk false s ∧ CapOk false cfgCap s) (x : X)
    (h : LazyXz.newReader cfgCap false (emit ss.toArray) = .ok x) (lens : List Nat)
    (hsum : ((ss.map content).foldl (· ++ ·) ByteArray.empty).size < lens.sum) :
    LazyXz.lastStat (LazyXz.readSeq x lens) = .eof ∧
    delivered (LazyXz.readSeq x lens) = (ss.map content).foldl (· ++ ·) ByteArray.empty := by
  obtain ⟨hst, hout⟩ := read_emit false cfgCap ss hne hok
  have hb : LazyXz.batch cfgCap false (emit ss.toArray) = Xz.read false cfgCap false (emit ss.toArray) := rfl
  have hclean : (LazyXz.batch cfgCap false (emit ss.toArray)).status = .eof := by rw [hb]; exact hst
  have hbo : (LazyXz.batch cfgCap false (emit ss.toArray)).out = (ss.map content).foldl (· ++ ·) ByteArray.empty := by
    rw [hb]; exact hout
  have heof := LazyXz.reaches_eof cfgCap false (emit ss.toArray) x h lens hclean (by rw [hbo]; exact hsum)
  have hf : (LazyXz.batch cfgCap false (emit ss.toArray)).status ≠ .err "fuel exhausted" := by
    rw [hclean]; intro hh; cases hh
  exact ⟨heof, by rw [(LazyXz.eof_complete cfgCap false (emit ss.toArray) x h lens hf heof).2, hbo]⟩

open LazyDec LazyXz in
/-- SingleStream at the level the code runs: if anything follows the first stream, no schedule ever ends with `io.EOF`;
    and whatever is delivered is a prefix of the first stream's content. -/
theorem C12_lazy_single_stream_rejects_trailing (cfgCap : Nat) (s : Stream) (hok : StreamOk false s)
    (hcap : CapOk false cfgCap s) (hpad : s.padAfter = 0) (t : ByteArray) (ht : t ≠ ByteArray.empty) (x : X)
    (h : LazyXz.newReader cfgCap true (emitStream s ++ t) = .ok x) (lens : List Nat) :
    LazyXz.lastStat (LazyXz.readSeq x lens) ≠ .eof := by
  intro he
  have hf : (LazyXz.batch cfgCap true (emitStream s ++ t)).status ≠ .err "fuel exhausted" := Fuel.xz_read_fuel _ _ _ _
  have hc := (LazyXz.eof_complete cfgCap true (emitStream s ++ t) x h lens hf he).1
  have hb : LazyXz.batch cfgCap true (emitStream s ++ t) = Xz.read false cfgCap true (emitStream s ++ t) := rfl
  rw [hb] at hc
  exact ht ((read_single false cfgCap s hok hcap hpad t).1.mp hc)

end Props.C12
