import XzVerif.Proofs.XzSound
/-
  C12 — Concatenated xz streams decode to the concatenation; SingleStream takes just one.

  Proved for the reader model (every input): padding before the first stream is an error
  (`C12_leading_padding_rejected`), an input without any stream is an error, a clean end is only
  reported at the very end of the input (so trailing bytes that are neither a whole stream nor
  4-byte zero groups — in particular padding whose length is not a multiple of four and trailing
  non-zero bytes — cannot be silently ignored: `C12_clean_end_consumes_all`, which also covers
  SingleStream: with it a clean end means the first stream ends exactly at the end of the input),
  and the input is never modified while streams are read.  The concatenation law itself
  (decode (A ++ pad ++ B) = decode A ++ decode B) needs the extension-stability of the
  single-stream parser, which is not proved yet; it is tied by the correspondence check on
  generated chains (library-, liblzma- and spec-encoder-written streams, paddings 0…16,
  SingleStream on/off).  Hence `_partial`.
-/
namespace Props.C12
open Xz Lzma

theorem C12_leading_padding_rejected (strict : Bool) (cap : Nat) (single : Bool) (inp : ByteArray)
    (h4 : 4 ≤ inp.size) (hz : allZero inp 0 4 = true) :
    (read strict cap single inp).status ≠ .eof :=
  leading_padding_rejected strict cap single inp h4 hz

theorem C12_no_stream_rejected (strict : Bool) (cap : Nat) (single : Bool) :
    (read strict cap single ByteArray.empty).status ≠ .eof :=
  empty_rejected strict cap single

theorem C12_clean_end_consumes_all (strict : Bool) (cap : Nat) (single : Bool) (inp : ByteArray)
    (h : (read strict cap single inp).status = .eof) :
    (read strict cap single inp).pos ≥ inp.size ∧ (read strict cap single inp).streams.size ≥ 1 :=
  ⟨read_clean_consumes_all strict cap single inp h, clean_needs_stream strict cap single inp h⟩

/-- the loop that walks over streams and padding never changes the input it reads from -/
theorem C12_input_preserved (strict : Bool) (cap : Nat) (single : Bool) (fuel : Nat) (first : Bool) (r : RdState) :
    (readStreams strict cap single fuel first r).1.inp = r.inp :=
  readStreams_inp strict cap single fuel first r

end Props.C12
