import XzVerif.Proofs.Segment
import XzVerif.Proofs.GoSrcHdr
import XzVerif.Proofs.Tables
import XzVerif.Proofs.Lzma1RoundTrip
import XzVerif.Proofs.LazyDec
import XzVerif.Proofs.Fuel
/-
  C07 — Classic .lzma streams interoperate with the reference implementation both ways.

  The reference of this property is the Lean decoder/encoder pair written from the format
  (validated against liblzma 5.8.2 on the frozen corpus, and against the LZMA SDK samples).
  Reader side: `C07_reader_decodes_every_legal_body` — the reader model decodes the range coding
  of every list of applicable operations (any encoder), any lc/lp/pb.  Writer side: the
  correspondence check shows that the real writer's bytes are exactly the model encoder's bytes
  for the operations it chose (also under a scripted match finder proposing arbitrary legal
  operations), and the model's bytes are decoded by the reference (same theorem).  The tables
  both directions rely on are the format's (`C07_tables`).  Header truthfulness is judged per
  run.  `C07_reader_reads_every_legal_stream`: whole streams (header + body + optional marker) in
  all three end modes, any lc/lp/pb, zero-length content included, every byte consumed.
-/
namespace Props.C07
open Lzma Rc

theorem C07_reader_decodes_every_legal_body (p : Props) (s : St) (tbl : Tbl) (htbl : tbl.ok)
    (h : Hist) (ops : List RawOp) (hops : OpsOk s h ops) (hne : ops ≠ []) :
    let x := encodeOps p s tbl h ops
    let body := encClose x
    let n := x.h.out.size - h.out.size
    ∃ rd, Dec.init (bytesToList body 0 body.size) = some rd ∧
      let res := decSegment p (some n) h.out.size false (n + 2) { s := s, tbl := tbl, rd := rd, h := h }
      res.status = .eof ∧ res.d.h = x.h ∧ res.d.ops = ops.toArray := by
  intro x body n
  obtain ⟨rd, h1, h2⟩ := segment_roundtrip p false s tbl htbl h ops hops hne
  exact ⟨rd, h1, h2.1, h2.2.2.1, h2.2.2.2.2.2.1⟩

theorem C07_tables :
    Gen.updLit = (List.range 12).map updLit ∧ Gen.updMatch = (List.range 12).map updMatch ∧
    Gen.updRep = (List.range 12).map updRep ∧ Gen.updShortRep = (List.range 12).map updShortRep ∧
    Gen.lenState = (List.range 272).map lenState ∧
    Gen.probInc = (List.range 2048).map (fun p => probNext p false) ∧
    Gen.probDec = (List.range 2048).map (fun p => probNext p true) ∧
    Gen.propsForCode = (List.range 256).map (fun b => (Lzma2.propsOfByte b).map (fun p => (p.lc, p.lp, p.pb))) :=
  ⟨Proofs.Tables.updLit_table, Proofs.Tables.updMatch_table, Proofs.Tables.updRep_table,
   Proofs.Tables.updShortRep_table, Proofs.Tables.lenState_table, Proofs.Tables.probInc_table,
   Proofs.Tables.probDec_table, Proofs.Tables.propsForCode_table⟩

/-- Reader side, whole streams: what any encoder following the format writes for a list of
    applicable operations is decoded to their content (shown for the mode "explicit size, no
    marker", which includes the SDK's empty file; the other two modes are in Props/C06). -/
theorem C07_reader_reads_every_legal_stream (cfgCap : Nat) (hdr : Lzma1.Header) (ops : List RawOp)
    (hlc : hdr.props.lc ≤ 8) (hlp : hdr.props.lp ≤ 4) (hpb : hdr.props.pb ≤ 4) (hdc : hdr.dictCap < 2 ^ 32)
    (hops : OpsOk {} (Lzma1.encHist hdr) ops)
    (hsize : hdr.size = some (finalH {} (Lzma1.encHist hdr) ops).out.size)
    (h63 : (finalH {} (Lzma1.encHist hdr) ops).out.size < 2 ^ 63) :
    (Lzma1.read cfgCap (Lzma1.encode hdr ops.toArray false)).status = .eof ∧
    (Lzma1.read cfgCap (Lzma1.encode hdr ops.toArray false)).out = (finalH {} (Lzma1.encHist hdr) ops).out ∧
    (Lzma1.read cfgCap (Lzma1.encode hdr ops.toArray false)).consumed = (Lzma1.encode hdr ops.toArray false).size := by
  rw [Lzma1.read_encode_known cfgCap hdr ops hlc hlp hpb hdc hops hsize h63]
  exact ⟨rfl, rfl, rfl⟩

/-! ### the reader as the code runs it (Model/LazyDec.lean: lazy, ring level), every legal stream, every read schedule -/

open LazyDec in
/-- helper: when the batch reader decodes `stream` cleanly to `content`, the lazy ring-level reader opens it and, under
    every schedule of buffer lengths asking for more than the content, delivers exactly the content and ends with
    `io.EOF` -/
theorem lazy_of_batch (cfgCap : Nat) (stream content : ByteArray)
    (hst : (Lzma1.read (effCap cfgCap) stream).status = .eof) (hout : (Lzma1.read (effCap cfgCap) stream).out = content)
    (hopen : (Lzma1.read (effCap cfgCap) stream).openError = false) (lens : List Nat) (hsum : content.size < lens.sum) :
    ∃ l, newReader cfgCap stream = .ok l ∧ lastStat (readSeq l lens) = .eof ∧ delivered (readSeq l lens) = content := by
  have hiff := LazyDec.newReader_ok_iff cfgCap stream
  rw [hopen] at hiff
  cases hn : newReader cfgCap stream with
  | error e => rw [hn] at hiff; simp [Except.toOption] at hiff
  | ok l =>
    have heof := LazyDec.reaches_eof cfgCap stream l hn lens hst (by rw [hout]; exact hsum)
    have hf := Fuel.lzma1_read_fuel (effCap cfgCap) stream
    exact ⟨l, rfl, heof, by rw [(LazyDec.eof_complete cfgCap stream l hn lens hf heof).2, hout]⟩

open LazyDec in
/-- explicit size, no end marker (includes the SDK's empty file) -/
theorem C07_lazy_reader_reads_every_legal_stream_known (cfgCap : Nat) (hdr : Lzma1.Header) (ops : List RawOp)
    (hlc : hdr.props.lc ≤ 8) (hlp : hdr.props.lp ≤ 4) (hpb : hdr.props.pb ≤ 4) (hdc : hdr.dictCap < 2 ^ 32)
    (hops : OpsOk {} (Lzma1.encHist hdr) ops)
    (hsize : hdr.size = some (finalH {} (Lzma1.encHist hdr) ops).out.size)
    (h63 : (finalH {} (Lzma1.encHist hdr) ops).out.size < 2 ^ 63)
    (lens : List Nat) (hsum : (finalH {} (Lzma1.encHist hdr) ops).out.size < lens.sum) :
    ∃ l, newReader cfgCap (Lzma1.encode hdr ops.toArray false) = .ok l ∧ lastStat (readSeq l lens) = .eof ∧
      delivered (readSeq l lens) = (finalH {} (Lzma1.encHist hdr) ops).out := by
  have h := Lzma1.read_encode_known (effCap cfgCap) hdr ops hlc hlp hpb hdc hops hsize h63
  exact lazy_of_batch cfgCap _ _ (by rw [h]) (by rw [h]) (by rw [h]) lens hsum

open LazyDec in
/-- explicit size with an end marker -/
theorem C07_lazy_reader_reads_every_legal_stream_known_marker (cfgCap : Nat) (hdr : Lzma1.Header) (ops : List RawOp)
    (hlc : hdr.props.lc ≤ 8) (hlp : hdr.props.lp ≤ 4) (hpb : hdr.props.pb ≤ 4) (hdc : hdr.dictCap < 2 ^ 32)
    (hops : OpsOk {} (Lzma1.encHist hdr) ops)
    (hsize : hdr.size = some (finalH {} (Lzma1.encHist hdr) ops).out.size)
    (h63 : (finalH {} (Lzma1.encHist hdr) ops).out.size < 2 ^ 63)
    (lens : List Nat) (hsum : (finalH {} (Lzma1.encHist hdr) ops).out.size < lens.sum) :
    ∃ l, newReader cfgCap (Lzma1.encode hdr ops.toArray true) = .ok l ∧ lastStat (readSeq l lens) = .eof ∧
      delivered (readSeq l lens) = (finalH {} (Lzma1.encHist hdr) ops).out := by
  have h := Lzma1.read_encode_known_marker (effCap cfgCap) hdr ops hlc hlp hpb hdc hops hsize h63
  exact lazy_of_batch cfgCap _ _ (by rw [h]) (by rw [h]) (by rw [h]) lens hsum

open LazyDec in
/-- unknown size, end marker -/
theorem C07_lazy_reader_reads_every_legal_stream_unknown (cfgCap : Nat) (hdr : Lzma1.Header) (ops : List RawOp)
    (hlc : hdr.props.lc ≤ 8) (hlp : hdr.props.lp ≤ 4) (hpb : hdr.props.pb ≤ 4) (hdc : hdr.dictCap < 2 ^ 32)
    (hsize : hdr.size = none) (hops : OpsOk {} (Lzma1.encHist hdr) ops)
    (lens : List Nat) (hsum : (finalH {} (Lzma1.encHist hdr) ops).out.size < lens.sum) :
    ∃ l, newReader cfgCap (Lzma1.encode hdr ops.toArray true) = .ok l ∧ lastStat (readSeq l lens) = .eof ∧
      delivered (readSeq l lens) = (finalH {} (Lzma1.encHist hdr) ops).out := by
  have h := Lzma1.read_encode_unknown (effCap cfgCap) hdr ops hlc hlp hpb hdc hsize hops
  exact lazy_of_batch cfgCap _ _ (by rw [h]) (by rw [h]) (by rw [h]) lens hsum

/-! ### From the SOURCE: the classic header, lzma/header.go translated on every run (Gen/GoSrc.lean) -/

/-- `header.unmarshalBinary` from the source: a 13-byte classic header yields the properties of its first byte (codes above
    224 rejected), the little-endian dictionary size, and the little-endian uncompressed size with 2^64 − 1 = "unknown" and
    values ≥ 2^63 rejected; any other length is an error; no index or slice-bounds panic -/
theorem C07_source_header_fields (h : GoSrc.T_header) (data : Array (BitVec 8)) :
    (data.size ≠ 13 → data.size < 2 ^ 62 →
      GoSrc.header_unmarshalBinary h data = Go.Res.ok (Go.Err.new "lzma.unmarshalBinary: data has wrong length", h)) ∧
    (data.size = 13 →
      let c := (data.getD 0 0#8).toNat
      let dc := GoSrcP.leVal data 1 4
      let sz := GoSrcP.leVal data 5 8
      if 224 < c then
        ∃ h', GoSrc.header_unmarshalBinary h data = Go.Res.ok (Go.Err.new "lzma: invalid properties code", h')
      else if sz ≠ 2 ^ 64 - 1 ∧ 2 ^ 63 ≤ sz then
        ∃ h', GoSrc.header_unmarshalBinary h data
                = Go.Res.ok (Go.Err.new "LZMA header: uncompressed size out of int64 range", h')
      else
        ∃ h', GoSrc.header_unmarshalBinary h data = Go.Res.ok (Go.Err.nil, h') ∧
          h'.properties = (GoSrc.PropertiesForCode (data.getD 0 0#8)).1 ∧
          h'.dictCap.toNat = dc ∧
          h'.size = (if sz = 2 ^ 64 - 1 then BitVec.ofInt 64 (-1) else BitVec.ofNat 64 sz)) :=
  ⟨fun hl hs => GoSrcP.header_unmarshal_wrong_length h data hl hs, fun hl => GoSrcP.header_unmarshal_spec h data hl⟩

/-- `validDictCap` (used by `ValidHeader`): 2^32 − 1, 2^n or 2^n + 2^(n−1) for 10 ≤ n < 32 -/
theorem C07_source_validDictCap (d : BitVec 64) (fuel : Nat) (hf : 40 ≤ fuel) :
    GoSrc.validDictCap fuel d = Go.Res.ok (decide (d.toNat = 2 ^ 32 - 1) ||
      (List.range 32).any (fun n => decide (10 ≤ n) && (decide (d.toNat = 2 ^ n) || decide (d.toNat = 2 ^ n + 2 ^ (n - 1))))) :=
  GoSrcP.validDictCap_spec d fuel hf

-- (that every function on the translation list was translated is required once, in Props/C02 and Props/C03; a function of
-- this property that fell out of the translator's subset would make the theorems above fail to elaborate)

end Props.C07
