import XzVerif.Proofs.XzSound
import XzVerif.Proofs.GoSrcXz
import XzVerif.Proofs.GoSrcXz2
import XzVerif.Proofs.LazyXz
import XzVerif.Proofs.Fuel
/-
  C04 — A damaged .xz stream never decodes "successfully" to different content.

  The reader model `Xz.read` (Model/Xz.lean) mirrors reader.go / format.go and is tied to the real
  reader by the correspondence check on every generated mutant (same accept/reject, same bytes).
  Proved here for every input: acceptance implies that every redundant piece of metadata has been
  verified (second sentence of the property), in particular that each block's stored check equals
  the check computed over exactly the bytes delivered for that block.  Consequently a modified
  stream that is accepted with *different* content for some block must carry a stored check that
  matches the different content — a collision or a consistent re-write of the check field.  That
  is the collision-free core of the first sentence ("never" holds for CRC32/CRC64/SHA-256 only up
  to collisions); the theorem names say `_modulo_collisions` where this applies.
-/
namespace Props.C04
open Xz Lzma Lzma2

/-- A block is accepted only with zero padding, a stored check equal to the check of the
    delivered bytes, and declared sizes equal to the measured ones. -/
theorem C04_block_checks_verified (strict : Bool) (cap flags : Nat) (hdr : BlockHeader) (r r' : RdState)
    (st : Status) (b : Block) (h : readBlock strict cap flags hdr r = (r', st, some b)) :
    st = .eof ∧
    b.check.toList = (checkValue flags r'.out r.out.size r'.out.size).toList ∧
    b.check = r'.inp.extract (r'.pos - (checkSize flags).getD 0) r'.pos ∧
    (∀ u, hdr.usize = some u → b.usize = u) ∧ (∀ c, hdr.csize = some c → b.csize = c) :=
  readBlock_sound strict cap flags hdr r r' st b h

/-- First sentence, collision-free core: if a block is accepted and its delivered bytes differ
    from some other byte string, the stored check is the check of the delivered bytes — so it can
    equal the original's check only if the two contents collide under the check function. -/
theorem C04_no_silent_change_modulo_collisions (strict : Bool) (cap flags : Nat) (hdr : BlockHeader)
    (r r' : RdState) (st : Status) (b : Block)
    (h : readBlock strict cap flags hdr r = (r', st, some b)) (origCheck : ByteArray)
    (hstored : b.check.toList = origCheck.toList) :
    (checkValue flags r'.out r.out.size r'.out.size).toList = origCheck.toList := by
  have := (readBlock_sound strict cap flags hdr r r' st b h).2.1
  rw [← this]; exact hstored

/-- A block header is accepted only with a matching CRC32, clear reserved bits, exactly one
    filter, a valid dictionary size code, and size fields below 2^63. -/
theorem C04_block_header_verified (strict : Bool) (inp : ByteArray) (pos : Nat) (hd : BlockHeader)
    (h : readBlockHeader strict inp pos = .ok hd) :
    pos + hd.len ≤ inp.size ∧ hd.len = (get inp pos + 1) * 4 ∧
    (Hash.crc32 inp pos (pos + hd.len - 4)).toNat = le32At inp (pos + hd.len - 4) ∧
    get inp (pos + 1) &&& 0x3C = 0 ∧ get inp (pos + 1) &&& 0x03 = 0 ∧ hd.dictCode ≤ 40 := by
  have := readBlockHeader_ok_sound strict inp pos hd h
  obtain ⟨a1, a2, _, a4, a5, a6, a7, _⟩ := this
  exact ⟨a1, a2, a4, a5, a6, a7⟩

/-- The stream tail is accepted only if index CRC32 and footer CRC32 match, the footer magic is
    right, footer flags equal header flags (and are a supported check), the reserved byte is zero,
    the backward size equals the real index size, index padding is zero and the index lists
    exactly the blocks that were read (count and every record). -/
theorem C04_tail_verified (flags : Nat) (recs : Array (Nat × Nat)) (r r' : RdState)
    (h : readTail flags recs r = (r', .eof)) :
    get r.inp (r'.pos - 3) = flags ∧ get r.inp (r'.pos - 4) = 0 ∧
    sliceEq r.inp (r'.pos - 2) footerMagic = true ∧
    (Hash.crc32 r.inp (r'.pos - 8) (r'.pos - 2)).toNat = le32At r.inp (r'.pos - 12) ∧
    (le32At r.inp (r'.pos - 8) + 1) * 4 = r'.pos - 12 - r.pos ∧
    (Hash.crc32 r.inp r.pos (r'.pos - 16)).toNat = le32At r.inp (r'.pos - 16) ∧
    (checkSize flags).isSome = true := by
  have := readTail_sound flags recs r r' h
  exact ⟨this.2.2.2.2.2.1, this.2.2.2.2.2.2.1, this.2.2.2.2.2.2.2.1, this.2.2.2.2.2.2.2.2.1,
    this.2.2.2.2.2.2.2.2.2.1, this.2.2.2.2.2.2.2.2.2.2.1, this.2.2.2.2.2.2.2.2.2.2.2.1⟩

/-- A clean end of stream is reported only after at least one complete stream was verified and
    the whole input was consumed. -/
theorem C04_clean_means_verified_and_consumed (strict : Bool) (cap : Nat) (single : Bool) (inp : ByteArray)
    (h : (read strict cap single inp).status = .eof) :
    (read strict cap single inp).streams.size ≥ 1 ∧ (read strict cap single inp).pos ≥ inp.size :=
  ⟨clean_needs_stream strict cap single inp h, read_clean_consumes_all strict cap single inp h⟩

/-! ### at the level the code runs: a clean end of the lazy xz reader is a clean end of the batch reader

  `Model/LazyXz.lean` is reader.go as it runs (tied per call to the real `xz.Reader`, also on structural mutants with
  re-sealed checksums).  Whatever the input and the schedule of buffer lengths: if the lazy reader ever reports
  `io.EOF`, the batch reader ends cleanly on the same input and the delivered bytes are exactly its output — so every
  verification theorem above (block checks, header, tail, "clean means verified and consumed") applies to what the lazy
  reader accepted. -/

open LazyDec LazyXz in
theorem C04_lazy_clean_end_is_verified (cfgCap : Nat) (single : Bool) (inp : ByteArray) (x : X)
    (h : LazyXz.newReader cfgCap single inp = .ok x) (lens : List Nat)
    (he : LazyXz.lastStat (LazyXz.readSeq x lens) = .eof) :
    (Xz.read false cfgCap single inp).status = .eof ∧
    delivered (LazyXz.readSeq x lens) = (Xz.read false cfgCap single inp).out ∧
    (Xz.read false cfgCap single inp).pos ≥ inp.size ∧ (Xz.read false cfgCap single inp).streams.size ≥ 1 := by
  have hf : (LazyXz.batch cfgCap single inp).status ≠ .err "fuel exhausted" := Fuel.xz_read_fuel _ _ _ _
  obtain ⟨h1, h2⟩ := LazyXz.eof_complete cfgCap single inp x h lens hf he
  have hb : LazyXz.batch cfgCap single inp = Xz.read false cfgCap single inp := rfl
  rw [hb] at h1 h2
  exact ⟨h1, h2, Xz.read_clean_consumes_all false cfgCap single inp h1, Xz.clean_needs_stream false cfgCap single inp h1⟩

/-! ### From the SOURCE: bits.go `readUvarint` and format.go `padLen` (regenerated translation, Gen/GoSrc.lean)

  Every size field of the container (block header sizes, index records, their count) enters the cross-checks through
  `readUvarint`; the reader model's `Xz.readUvarint` is what the source computes — uint64 shift accumulation, the rule
  for the tenth byte, an eleventh byte read before the overflow is reported, io.EOF with the count of bytes consumed —
  and the padding arithmetic is the model's. -/

theorem C04_source_readUvarint (b : ByteArray) (pos lim : Nat) (hl : lim ≤ b.size) (fuel : Nat) (hf : 12 ≤ fuel) :
    match Xz.readUvarint b pos lim with
    | .ok x n => ∃ r', GoSrc.readUvarint fuel { inp := GoSrcP.sliceBV b pos lim }
                        = Go.Res.ok (BitVec.ofNat 64 x, BitVec.ofNat 64 n, Go.Err.nil, r')
                      ∧ r'.inp = GoSrcP.sliceBV b (pos + n) lim ∧ x < 2 ^ 64
    | .eof n => ∃ x r', GoSrc.readUvarint fuel { inp := GoSrcP.sliceBV b pos lim }
                        = Go.Res.ok (x, BitVec.ofNat 64 n, Go.Err.named "io.EOF", r')
    | .overflow => ∃ x n r', GoSrc.readUvarint fuel { inp := GoSrcP.sliceBV b pos lim }
                        = Go.Res.ok (x, n, Go.Err.named "errOverflowU64", r') :=
  GoSrcP.readUvarint_spec b pos lim hl fuel hf

theorem C04_source_padLen (n : BitVec 64) (h : n.toNat < 2 ^ 63) : (GoSrc.padLen n).toNat = Xz.padLen n.toNat :=
  GoSrcP.padLen_spec n h

/-- format.go from the source: the optional size fields of a block header (`readSizeInBlockHeader`: absent = −1; 2^63 and
    above rejected — the boundary two seeded changes moved), an index record (`readRecord`: two uvarints, a set top bit
    rejected) and the check ids (`verifyFlags` = `Xz.checkSize` defined) are the reader model's rules -/
theorem C04_source_size_fields_and_records (b : ByteArray) (pos lim : Nat) (hl : lim ≤ b.size) (fuel : Nat) (hf : 12 ≤ fuel) :
    (∀ r : Go.ByteReader, GoSrc.readSizeInBlockHeader fuel r false = Go.Res.ok (BitVec.ofInt 64 (-1), Go.Err.nil, r)) ∧
    (match Xz.readUvarint b pos lim with
     | .ok x n =>
       if 2 ^ 63 ≤ x then
         ∃ r', GoSrc.readSizeInBlockHeader fuel { inp := GoSrcP.sliceBV b pos lim } true
                 = Go.Res.ok (0#64, Go.Err.new "xz: size overflow in block header", r')
       else
         ∃ r', GoSrc.readSizeInBlockHeader fuel { inp := GoSrcP.sliceBV b pos lim } true
                 = Go.Res.ok (BitVec.ofNat 64 x, Go.Err.nil, r') ∧ r'.inp = GoSrcP.sliceBV b (pos + n) lim
     | .eof _ => ∃ r', GoSrc.readSizeInBlockHeader fuel { inp := GoSrcP.sliceBV b pos lim } true
                 = Go.Res.ok (0#64, Go.Err.named "io.EOF", r')
     | .overflow => ∃ r', GoSrc.readSizeInBlockHeader fuel { inp := GoSrcP.sliceBV b pos lim } true
                 = Go.Res.ok (0#64, Go.Err.named "errOverflowU64", r')) ∧
    (match GoSrcP.modelRecord b pos lim with
     | .ok a c n => ∃ r', GoSrc.readRecord fuel { inp := GoSrcP.sliceBV b pos lim }
           = Go.Res.ok ({ unpaddedSize := BitVec.ofNat 64 a, uncompressedSize := BitVec.ofNat 64 c }, BitVec.ofNat 64 n, Go.Err.nil, r')
           ∧ r'.inp = GoSrcP.sliceBV b (pos + n) lim
     | .eof => ∃ rc n r', GoSrc.readRecord fuel { inp := GoSrcP.sliceBV b pos lim } = Go.Res.ok (rc, n, Go.Err.named "io.EOF", r')
     | .overflow => ∃ rc n r', GoSrc.readRecord fuel { inp := GoSrcP.sliceBV b pos lim }
           = Go.Res.ok (rc, n, Go.Err.named "errOverflowU64", r')
     | .negUnpadded => ∃ rc n r', GoSrc.readRecord fuel { inp := GoSrcP.sliceBV b pos lim }
           = Go.Res.ok (rc, n, Go.Err.new "xz: unpadded size negative", r')
     | .negUncompressed => ∃ rc n r', GoSrc.readRecord fuel { inp := GoSrcP.sliceBV b pos lim }
           = Go.Res.ok (rc, n, Go.Err.new "xz: uncompressed size negative", r')) ∧
    (∀ f : BitVec 8, GoSrc.verifyFlags f = Go.Err.nil ↔ (Xz.checkSize f.toNat).isSome) :=
  ⟨fun r => GoSrcP.readSizeInBlockHeader_absent fuel r, GoSrcP.readSizeInBlockHeader_spec b pos lim hl fuel hf,
   GoSrcP.readRecord_spec b pos lim hl fuel hf, fun f => (GoSrcP.verifyFlags_spec f).1⟩

-- (that every function on the translation list was translated is required once, in Props/C02 and Props/C03; a function of
-- this property that fell out of the translator's subset would make the theorems above fail to elaborate)

end Props.C04
