import XzVerif.Proofs.XzSound
import XzVerif.Proofs.Segment
/-
  C05 — A truncated stream is never mistaken for a complete one (.xz, LZMA2, .lzma).

  Proved for the reader model, for every input: a clean end is reported only when (a) at least
  one stream has been verified down to its 12-byte footer (magic, CRC32, backward size, flags),
  (b) every byte of the input has been consumed, and (c) nothing but whole streams and 4-byte
  zero padding was read.  For the range-coded payload, `C05_decoder_consumes_everything`: the
  decoder reads every byte the encoder wrote, so no proper prefix of a segment lets the decoder
  finish (a shorter input runs dry and yields unexpectedEOF in `decStep`).

  What is not yet a theorem: the prefix-freeness of the whole container language, i.e. that a
  proper prefix of a valid single stream can never *itself* satisfy (a)–(c).  That gap is closed
  per run by the exhaustive enumeration of every cut position of every base stream through the
  real readers and the model (correspondence + direct oracle).  Hence `_partial`.
-/
namespace Props.C05
open Xz Lzma Rc

theorem C05_clean_end_requires_footer_and_full_consumption (strict : Bool) (cap : Nat) (single : Bool)
    (inp : ByteArray) (h : (read strict cap single inp).status = .eof) :
    (read strict cap single inp).streams.size ≥ 1 ∧ (read strict cap single inp).pos ≥ inp.size :=
  ⟨clean_needs_stream strict cap single inp h, read_clean_consumes_all strict cap single inp h⟩

/-- nothing at all is never a stream -/
theorem C05_empty_input_rejected (strict : Bool) (cap : Nat) (single : Bool) :
    (read strict cap single ByteArray.empty).status ≠ .eof :=
  empty_rejected strict cap single

/-- a stream's tail is accepted only if at least 20 further bytes (index + footer) are present -/
theorem C05_tail_needs_its_bytes (flags : Nat) (recs : Array (Nat × Nat)) (r r' : RdState)
    (h : readTail flags recs r = (r', .eof)) : r.pos + 20 ≤ r'.pos ∧ r'.pos ≤ r.inp.size := by
  have := readTail_sound flags recs r r' h
  exact ⟨this.2.2.2.1, this.2.2.2.2.1⟩

/-- a block header is accepted only if all of its declared length is present -/
theorem C05_block_header_needs_its_bytes (strict : Bool) (inp : ByteArray) (pos : Nat) (hd : BlockHeader)
    (h : readBlockHeader strict inp pos = .ok hd) : pos + hd.len ≤ inp.size :=
  (readBlockHeader_ok_sound strict inp pos hd h).1

/-- The decoder consumes every byte of a segment: after the last operation nothing is left and
    the coder is exactly finished. -/
theorem C05_decoder_consumes_everything (p : Props) (strict : Bool) (s : St) (tbl : Tbl) (htbl : tbl.ok)
    (h : Hist) (ops : List RawOp) (hops : OpsOk s h ops) (hne : ops ≠ []) :
    let x := encodeOps p s tbl h ops
    let body := encClose x
    let n := x.h.out.size - h.out.size
    ∃ rd, Dec.init (bytesToList body 0 body.size) = some rd ∧
      let res := decSegment p (some n) h.out.size strict (n + 2) { s := s, tbl := tbl, rd := rd, h := h }
      res.d.rd.inp = [] ∧ res.d.rd.code = 0 := by
  intro x body n
  obtain ⟨rd, h1, h2⟩ := segment_roundtrip p strict s tbl htbl h ops hops hne
  exact ⟨rd, h1, h2.2.2.2.2.2.2.1, h2.2.2.2.2.2.2.2⟩

/-- an exhausted input makes the range decoder fail with "unexpected EOF", never succeed -/
theorem C05_dry_input_is_unexpected_eof (d : Dec) (hr : d.range < 2 ^ 24) (hi : d.inp = []) :
    d.norm = none := by
  unfold Dec.norm
  have : d.range < 16777216 := by simpa using hr
  simp [this, hi]

end Props.C05
