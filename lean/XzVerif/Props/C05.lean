import XzVerif.Proofs.XzSound
import XzVerif.Proofs.Segment
import XzVerif.Proofs.Prefix
import XzVerif.Proofs.LazyDec2
import XzVerif.Proofs.Fuel
import XzVerif.Proofs.LazyXz
import XzVerif.Proofs.LazyDec
/-
  C05 — A truncated stream is never mistaken for a complete one (.xz, LZMA2, .lzma).

  Proved for the reader model, for every input: a clean end is reported only when (a) at least
  one stream has been verified down to its 12-byte footer (magic, CRC32, backward size, flags),
  (b) every byte of the input has been consumed, and (c) nothing but whole streams and 4-byte
  zero padding was read.  For the range-coded payload, `C05_decoder_consumes_everything`: the
  decoder reads every byte the encoder wrote, so no proper prefix of a segment lets the decoder
  finish (a shorter input runs dry and yields unexpectedEOF in `decStep`).

  **Prefix-freeness** (the property itself, for the reader models, every stream, every cut — no bound):
  * `C05_lzma2_prefix_rejected` / `C05_lzma2_prefix_output`: decoding any proper prefix of a well-formed LZMA2
    chunk sequence never ends cleanly (format rules and Go rules), and what is delivered before the failure is a
    prefix of the content;
  * `C05_lzma_prefix_rejected_unknown` / `_known`: the same for classic .lzma streams in all three end modes;
  * `C05_xz_prefix_rejected`: no proper prefix of a single .xz stream is accepted, in multi-stream and in
    SingleStream mode;
  * `C05_xz_chain_cut_only_at_boundaries`: in a chain of streams with padding a cut is accepted only at the end
    of a stream or at a 4-byte step of the padding behind it (the accepted prefix is itself a well-formed chain).
  The proofs rest on extension stability of every reader function (`Proofs/Stability.lean`: the range decoder
  run on `l ++ x` either equals the run on `l` with `x` left over or the short run ends with unexpectedEOF and a
  history that is a prefix of the long run's) and on the round-trip theorems.
  What remains `partial`: "well-formed" is the model emitter's layout (any chunk/block/container layout the
  format allows, but foreign byte-level encodings of the same operations are covered by correspondence: every
  cut of every base stream incl. the liblzma corpus runs through the real readers and the model), and
  model = Go is the correspondence.
-/
namespace Props.C05
open Xz Lzma Rc

theorem C05_clean_end_requires_footer_and_full_consumption (strict : Bool) (cap : Nat) (single : Bool)
    (inp : ByteArray) (h : (read strict cap single inp).status = .eof) :
    (read strict cap single inp).streams.size ≥ 1 ∧ (read strict cap single inp).pos ≥ inp.size :=
  ⟨clean_needs_stream strict cap single inp h, read_clean_consumes_all strict cap single inp h⟩

/-- nothing at all is never a stream -/
theorem C05_empty_input_rejected (strict : Bool) (cap : Nat) (single : Bool) :
    (read strict cap single ByteArray.empty).status ≠ .eof :=
  empty_rejected strict cap single

/-- a stream's tail is accepted only if at least 20 further bytes (index + footer) are present -/
theorem C05_tail_needs_its_bytes (flags : Nat) (recs : Array (Nat × Nat)) (r r' : RdState)
    (h : readTail flags recs r = (r', .eof)) : r.pos + 20 ≤ r'.pos ∧ r'.pos ≤ r.inp.size := by
  have := readTail_sound flags recs r r' h
  exact ⟨this.2.2.2.1, this.2.2.2.2.1⟩

/-- a block header is accepted only if all of its declared length is present -/
theorem C05_block_header_needs_its_bytes (strict : Bool) (inp : ByteArray) (pos : Nat) (hd : BlockHeader)
    (h : readBlockHeader strict inp pos = .ok hd) : pos + hd.len ≤ inp.size :=
  (readBlockHeader_ok_sound strict inp pos hd h).1

/-- The decoder consumes every byte of a segment: after the last operation nothing is left and
    the coder is exactly finished. -/
theorem C05_decoder_consumes_everything (p : Props) (strict : Bool) (s : St) (tbl : Tbl) (htbl : tbl.ok)
    (h : Hist) (ops : List RawOp) (hops : OpsOk s h ops) (hne : ops ≠ []) :
    let x := encodeOps p s tbl h ops
    let body := encClose x
    let n := x.h.out.size - h.out.size
    ∃ rd, Dec.init (bytesToList body 0 body.size) = some rd ∧
      let res := decSegment p (some n) h.out.size strict (n + 2) { s := s, tbl := tbl, rd := rd, h := h }
      res.d.rd.inp = [] ∧ res.d.rd.code = 0 := by
  intro x body n
  obtain ⟨rd, h1, h2⟩ := segment_roundtrip p strict s tbl htbl h ops hops hne
  exact ⟨rd, h1, h2.2.2.2.2.2.2.1, h2.2.2.2.2.2.2.2⟩

/-- an exhausted input makes the range decoder fail with "unexpected EOF", never succeed -/
theorem C05_dry_input_is_unexpected_eof (d : Dec) (hr : d.range < 2 ^ 24) (hi : d.inp = []) :
    d.norm = none := by
  unfold Dec.norm
  have : d.range < 16777216 := by simpa using hr
  simp [this, hi]

/-! ### prefix-freeness -/

theorem C05_lzma2_prefix_rejected (strict : Bool) (cap : Nat) (cs : Array Lzma2.Chunk)
    (hok : Lzma2.ChunksOk strict (Lzma2.e0 cap) .init cs.toList) (k : Nat)
    (hk : k < (Lzma2.emit cap (cs.push { kind := .eos, usize := 0 })).size) :
    (Lzma2.decode strict cap ((Lzma2.emit cap (cs.push { kind := .eos, usize := 0 })).extract 0 k) 0 ByteArray.empty).2 ≠ .eof :=
  Lzma2.lzma2_prefix_rejected strict cap cs hok k hk

theorem C05_lzma2_prefix_output (strict : Bool) (cap : Nat) (cs : Array Lzma2.Chunk)
    (hok : Lzma2.ChunksOk strict (Lzma2.e0 cap) .init cs.toList) (k : Nat)
    (hk : k < (Lzma2.emit cap (cs.push { kind := .eos, usize := 0 })).size) :
    let full := (cs.foldl Lzma2.emitChunk (Lzma2.e0 cap)).h.out
    let got := (Lzma2.decode strict cap ((Lzma2.emit cap (cs.push { kind := .eos, usize := 0 })).extract 0 k) 0 ByteArray.empty).1.h.out
    got.size ≤ full.size ∧ got = full.extract 0 got.size :=
  Lzma2.lzma2_prefix_output strict cap cs hok k hk

theorem C05_lzma_prefix_rejected_unknown (cfgCap : Nat) (hdr : Lzma1.Header) (ops : List RawOp)
    (hlc : hdr.props.lc ≤ 8) (hlp : hdr.props.lp ≤ 4) (hpb : hdr.props.pb ≤ 4) (hdc : hdr.dictCap < 2 ^ 32)
    (hcfg : cfgCap ≤ max hdr.dictCap 4096)
    (hops : OpsOk {} { out := .empty, dictStart := 0, cap := max cfgCap (max hdr.dictCap 4096) } ops)
    (hsize : hdr.size = none) (k : Nat) (hk : k < (Lzma1.encode hdr ops.toArray true).size) :
    (Lzma1.read cfgCap ((Lzma1.encode hdr ops.toArray true).extract 0 k)).status ≠ .eof :=
  Lzma1.lzma_prefix_rejected_unknown cfgCap hdr ops hlc hlp hpb hdc hcfg hops hsize k hk

theorem C05_lzma_prefix_rejected_known (cfgCap : Nat) (hdr : Lzma1.Header) (ops : List RawOp) (marker : Bool)
    (hlc : hdr.props.lc ≤ 8) (hlp : hdr.props.lp ≤ 4) (hpb : hdr.props.pb ≤ 4) (hdc : hdr.dictCap < 2 ^ 32)
    (hcfg : cfgCap ≤ max hdr.dictCap 4096)
    (hops : OpsOk {} { out := .empty, dictStart := 0, cap := max cfgCap (max hdr.dictCap 4096) } ops)
    (hsize : hdr.size = some
      (finalH {} { out := .empty, dictStart := 0, cap := max cfgCap (max hdr.dictCap 4096) } ops).out.size)
    (h63 : (finalH {} { out := .empty, dictStart := 0, cap := max cfgCap (max hdr.dictCap 4096) } ops).out.size
      < 2 ^ 63) (k : Nat) (hk : k < (Lzma1.encode hdr ops.toArray marker).size) :
    (Lzma1.read cfgCap ((Lzma1.encode hdr ops.toArray marker).extract 0 k)).status ≠ .eof :=
  Lzma1.lzma_prefix_rejected_known cfgCap hdr ops marker hlc hlp hpb hdc hcfg hops hsize h63 k hk

theorem C05_xz_prefix_rejected (strict : Bool) (cfgCap : Nat) (single : Bool) (s : Stream) (hok : StreamOk strict s)
    (hcap : CapOk strict cfgCap s) (hpad : s.padAfter = 0) (k : Nat) (hk : k < (emitStream s).size) :
    (read strict cfgCap single ((emitStream s).extract 0 k)).status ≠ .eof :=
  xz_prefix_rejected strict cfgCap single s hok hcap hpad k hk

theorem C05_xz_chain_cut_only_at_boundaries (strict : Bool) (cfgCap : Nat) (ss : List Stream) (hne : ss ≠ [])
    (hok : ∀ s ∈ ss, StreamOk strict s ∧ CapOk strict cfgCap s) (k : Nat) (hk : k ≤ (emitL ss).size)
    (hclean : (read strict cfgCap false ((emitL ss).extract 0 k)).status = .eof) :
    ∃ ss' : List Stream, ss' ≠ [] ∧ (∀ s ∈ ss', StreamOk strict s ∧ CapOk strict cfgCap s) ∧
      (emitL ss).extract 0 k = emitL ss' ∧ ss'.length ≤ ss.length :=
  xz_chain_prefix_accepted_only_at_boundaries strict cfgCap ss hne hok k hk hclean

theorem extract_of_prefix (b full : ByteArray) (m : Nat) (h : b = full.extract 0 b.size) (hm : m ≤ b.size) :
    b.extract 0 m = full.extract 0 m := by
  have h2 : b.extract 0 m = (full.extract 0 b.size).extract 0 m := by rw [← h]
  rw [h2, ByteArray.extract_extract]
  congr 1
  omega

/-! ### truncation at the level the code runs: the lazy ring-level LZMA2 reader (Model/LazyDec2.lean) -/

theorem batch_eq (cfgCap : Nat) (inp : ByteArray) :
    LazyDec2.batch cfgCap inp = Lzma2.decode false (LazyDec.effCap cfgCap) inp 0 ByteArray.empty := rfl

open LazyDec LazyDec2 in
/-- No proper prefix of a well-formed LZMA2 chunk sequence is ever reported as a clean end by the lazy ring-level reader
    model, under ANY schedule of buffer lengths; and whatever it delivers before failing is a prefix of the content. -/
theorem C05_lazy_lzma2_prefix_never_clean (cfgCap : Nat) (hcap : 4096 ≤ effCap cfgCap) (cs : Array Lzma2.Chunk)
    (hok : Lzma2.ChunksOk false (Lzma2.e0 (effCap cfgCap)) .init cs.toList) (k : Nat)
    (hk : k < (Lzma2.emit (effCap cfgCap) (cs.push { kind := .eos, usize := 0 })).size) (lens : List Nat)
    (cut full : ByteArray)
    (hcut : cut = (Lzma2.emit (effCap cfgCap) (cs.push { kind := .eos, usize := 0 })).extract 0 k)
    (hfull : full = (cs.foldl Lzma2.emitChunk (Lzma2.e0 (effCap cfgCap))).h.out) :
    LazyDec.lastStat (LazyDec2.readSeq (newReader2 cfgCap cut) lens) ≠ .eof ∧
    (delivered (LazyDec2.readSeq (newReader2 cfgCap cut) lens)).size ≤ full.size ∧
    delivered (LazyDec2.readSeq (newReader2 cfgCap cut) lens) =
      full.extract 0 (delivered (LazyDec2.readSeq (newReader2 cfgCap cut) lens)).size := by
  have hf0 : (LazyDec2.batch cfgCap cut).2 ≠ .err "fuel exhausted" := by
    rw [batch_eq]; exact Fuel.lzma2_decode_fuel _ _ _ _ _
  obtain ⟨hd1, hd2⟩ := LazyDec2.delivered_prefix cfgCap hcap cut lens hf0
  have heofc := LazyDec2.eof_complete cfgCap hcap cut lens hf0
  have hrej : (LazyDec2.batch cfgCap cut).2 ≠ .eof := by
    rw [batch_eq, hcut]; exact Lzma2.lzma2_prefix_rejected false (effCap cfgCap) cs hok k hk
  have hpo := Lzma2.lzma2_prefix_output false (effCap cfgCap) cs hok k hk
  obtain ⟨hp1, hp2⟩ : (LazyDec2.batch cfgCap cut).1.h.out.size ≤ full.size ∧
      (LazyDec2.batch cfgCap cut).1.h.out = full.extract 0 (LazyDec2.batch cfgCap cut).1.h.out.size := by
    rw [batch_eq, hcut, hfull]; exact hpo
  exact ⟨fun he => hrej (heofc he).1, Nat.le_trans hd1 hp1, hd2.trans (extract_of_prefix _ _ _ hp2 hd1)⟩


open LazyDec LazyXz in
/-- No proper prefix of a well-formed single .xz stream is ever reported as a clean end by the lazy xz reader model
    (multi-stream mode or SingleStream), under ANY schedule of buffer lengths. -/
theorem C05_lazy_xz_prefix_never_clean (cfgCap : Nat) (single : Bool) (s : Xz.Stream) (hok : Xz.StreamOk false s)
    (hcap : Xz.CapOk false cfgCap s) (hpad : s.padAfter = 0) (k : Nat) (hk : k < (Xz.emitStream s).size) (x : X)
    (h : LazyXz.newReader cfgCap single ((Xz.emitStream s).extract 0 k) = .ok x) (lens : List Nat) :
    LazyXz.lastStat (LazyXz.readSeq x lens) ≠ .eof := by
  intro he
  have hf : (LazyXz.batch cfgCap single ((Xz.emitStream s).extract 0 k)).status ≠ .err "fuel exhausted" :=
    Fuel.xz_read_fuel _ _ _ _
  have hc := (LazyXz.eof_complete cfgCap single _ x h lens hf he).1
  exact Xz.xz_prefix_rejected false cfgCap single s hok hcap hpad k hk hc

open LazyDec in
/-- helper: the lazy classic reader never reports `io.EOF` on an input on which the batch reader does not end cleanly -/
theorem lazy_lzma_not_clean (cfgCap : Nat) (inp : ByteArray) (hb : (Lzma1.read (effCap cfgCap) inp).status ≠ .eof)
    (l : LSt) (h : newReader cfgCap inp = .ok l) (lens : List Nat) : lastStat (readSeq l lens) ≠ .eof :=
  fun he => hb (LazyDec.eof_complete cfgCap inp l h lens (Fuel.lzma1_read_fuel _ _) he).1

open LazyDec in
/-- classic .lzma, unknown size with end marker: no proper prefix is ever reported as a clean end by the lazy ring-level
    reader model, under any schedule (reader capacity not above the header's, as for the batch theorem) -/
theorem C05_lazy_lzma_prefix_never_clean_unknown (cfgCap : Nat) (hdr : Lzma1.Header) (ops : List RawOp)
    (hlc : hdr.props.lc ≤ 8) (hlp : hdr.props.lp ≤ 4) (hpb : hdr.props.pb ≤ 4) (hdc : hdr.dictCap < 2 ^ 32)
    (hcfg : effCap cfgCap ≤ max hdr.dictCap 4096)
    (hops : OpsOk {} { out := .empty, dictStart := 0, cap := max (effCap cfgCap) (max hdr.dictCap 4096) } ops)
    (hsize : hdr.size = none) (k : Nat) (hk : k < (Lzma1.encode hdr ops.toArray true).size)
    (l : LSt) (h : newReader cfgCap ((Lzma1.encode hdr ops.toArray true).extract 0 k) = .ok l) (lens : List Nat) :
    lastStat (readSeq l lens) ≠ .eof :=
  lazy_lzma_not_clean cfgCap _
    (Lzma1.lzma_prefix_rejected_unknown (effCap cfgCap) hdr ops hlc hlp hpb hdc hcfg hops hsize k hk) l h lens

open LazyDec in
/-- classic .lzma, known size, with or without end marker -/
theorem C05_lazy_lzma_prefix_never_clean_known (cfgCap : Nat) (hdr : Lzma1.Header) (ops : List RawOp) (marker : Bool)
    (hlc : hdr.props.lc ≤ 8) (hlp : hdr.props.lp ≤ 4) (hpb : hdr.props.pb ≤ 4) (hdc : hdr.dictCap < 2 ^ 32)
    (hcfg : effCap cfgCap ≤ max hdr.dictCap 4096)
    (hops : OpsOk {} { out := .empty, dictStart := 0, cap := max (effCap cfgCap) (max hdr.dictCap 4096) } ops)
    (hsize : hdr.size = some
      (finalH {} { out := .empty, dictStart := 0, cap := max (effCap cfgCap) (max hdr.dictCap 4096) } ops).out.size)
    (h63 : (finalH {} { out := .empty, dictStart := 0, cap := max (effCap cfgCap) (max hdr.dictCap 4096) } ops).out.size
      < 2 ^ 63) (k : Nat) (hk : k < (Lzma1.encode hdr ops.toArray marker).size)
    (l : LSt) (h : newReader cfgCap ((Lzma1.encode hdr ops.toArray marker).extract 0 k) = .ok l) (lens : List Nat) :
    lastStat (readSeq l lens) ≠ .eof :=
  lazy_lzma_not_clean cfgCap _
    (Lzma1.lzma_prefix_rejected_known (effCap cfgCap) hdr ops marker hlc hlp hpb hdc hcfg hops hsize h63 k hk) l h lens

end Props.C05
