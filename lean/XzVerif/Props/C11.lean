import XzVerif.Gen.PanicSites
import XzVerif.Proofs.GoSrcOpDec
import XzVerif.Proofs.GoSrcRing
import XzVerif.Gen.Tables
import XzVerif.Model.ReadLoop
import XzVerif.Codec.Lzma2
import XzVerif.Proofs.Ring
import XzVerif.Proofs.LazyDec
import XzVerif.Proofs.Fuel
/-
  C11 — Readers never panic or stall on arbitrary input.

  `Gen.panicSites` (regenerated with go/ast on every run) lists every explicit `panic(` of
  packages xz and lzma.  `C11_panic_sites_reviewed` pins that list from above: a new panic site breaks it (a removed one does not).
  The sites on the reader path and why no input reaches them:
    decoder.Read              — ring buffer `Read` never returns an error (`Peek` returns nil)
    decoder.apply             — `readOp` only returns `match` or `lit`
    decoderDict.writeMatch    — guarded by `length > d.buf.Available()` just above
    headerLen                 — argument comes from `headerChunkType`, values 0…6 (`C11_headerLen_total`)
    literalCodec.init         — lc ≤ 8, lp ≤ 4 for every accepted properties byte (`C11_props_in_range`)
    makeProbTree              — constant arguments 3, 6, 8, 1…5, 4
  Every function of the reader model is structurally recursive over explicit fuel that is linear
  in the input (`Lzma2.decode`: inp.size − pos + 2 chunks; a chunk: usize + 2 operations; the
  container: inp.size/4 + 3 streams), so the model returns for every input; that the real readers
  agree with the model on arbitrary inputs (accept/reject, delivered prefix) and neither panic nor
  exceed a time-out is what the correspondence check observes.  `_partial`: index/slice bounds of
  the Go code are not modelled (the model uses total accessors), wall-clock time is not a theorem.
-/
namespace Props.C11

def reviewed : List (String × String × Nat) :=
  [("./format.go", "blockHeader.MarshalBinary", 2),
   ("./writer.go", "blockWriter.unpaddedSize", 1),
   ("lzma/bintree.go", "binTree.NextOp", 1),
   ("lzma/decoder.go", "decoder.Read", 1),
   ("lzma/decoder.go", "decoder.apply", 1),
   ("lzma/decoderdict.go", "decoderDict.writeMatch", 1),
   ("lzma/encoder.go", "encoder.writeMatch", 2),
   ("lzma/encoder.go", "encoder.writeOp", 1),
   ("lzma/encoderdict.go", "encoderDict.Discard", 1),
   ("lzma/hashtable.go", "hashTable.Matches", 1),
   ("lzma/hashtable.go", "newHashTable", 1),
   ("lzma/header2.go", "headerLen", 1),
   ("lzma/literalcodec.go", "literalCodec.init", 2),
   ("lzma/rangecodec.go", "rangeEncoder.shiftLow", 1),
   ("lzma/treecodecs.go", "makeProbTree", 1),
   ("lzma/writer2.go", "Writer2.Write", 1),
   ("lzma/writer2.go", "Writer2.writeCompressedChunk", 4),
   ("lzma/writer2.go", "Writer2.writeUncompressedChunk", 1)]

/-- every explicit panic of the current source is one of the reviewed ones (same file and function, not more of them than
    reviewed): a NEW panic site breaks this, a removed one does not -/
theorem C11_panic_sites_reviewed :
    Gen.panicSites.all (fun s => reviewed.any (fun r => r.1 == s.1 && r.2.1 == s.2.1 && decide (s.2.2 ≤ r.2.2))) = true := by decide

/-- `headerLen` is defined (does not panic) on every chunk type `headerChunkType` can return. -/
theorem C11_headerLen_total :
    Gen.headerChunkType.all (fun r => match r with
      | none => true
      | some c => (Gen.headerLen.getD c none).isSome) = true := by decide +kernel

/-- every accepted properties byte yields lc ≤ 8, lp ≤ 4, pb ≤ 4 (no `literalCodec.init` panic) -/
theorem C11_props_in_range :
    Gen.propsForCode.all (fun r => match r with
      | none => true
      | some (lc, lp, pb) => lc ≤ 8 && lp ≤ 4 && pb ≤ 4) = true := by decide +kernel

/-- a reader never delivers more bytes than requested -/
theorem C11_n_le_len {α : Type} (content : List α) (n : Nat) : (ReadLoop.readCall content n).1.length ≤ n := by
  unfold ReadLoop.readCall
  by_cases h0 : n = 0
  · simp [h0]
  · by_cases hl : content.length < n
    · simp [h0, hl] <;> omega
    · simp [h0, hl] <;> omega

/-- `decoderDict.writeMatch` at the level of the ring array and its indices (Model/Ring.lean, tied to the real
    type by operation scripts): for every reachable ring state, every distance and length the outcome is one of
    the three reported errors or the LZ copy — the `panic` in its copy loop ("d.buf.Write returned error") is
    unreachable, and the ring afterwards represents exactly the history the list-level model has. -/
theorem C11_writeMatch_never_panics (d : Ring.DDict) (a : Ring.Abs) (cap : Nat) (h : d.Rel a cap) (dist len : Nat) :
    d.writeMatch dist len = .distRange ∨ d.writeMatch dist len = .lenRange ∨ d.writeMatch dist len = .noSpace ∨
    ∃ d', d.writeMatch dist len = .ok d' ∧ d'.Rel ⟨Ring.copyMatchList a.W dist len, a.r⟩ cap := by
  obtain ⟨h1, h2, h3, h4⟩ := Ring.ddict_writeMatch d a cap h dist len
  by_cases hd : 0 < dist ∧ dist ≤ min a.W.length cap
  · by_cases hl : 0 < len ∧ len ≤ 273
    · by_cases hs : len ≤ cap - (a.W.length - a.r)
      · exact Or.inr (Or.inr (Or.inr (h4 hd hl hs)))
      · exact Or.inr (Or.inr (Or.inl (h3 hd hl (by omega))))
    · exact Or.inr (Or.inl (h2 hd hl))
  · exact Or.inl (h1 hd)

/-- reading never delivers more than asked and never more than is buffered, at ring level -/
theorem C11_ring_read_bounded (b : Ring.Buf) (a : Ring.Abs) (cap : Nat) (h : b.Rel a cap) (l : Nat) :
    (b.read l).2.data.toList.length ≤ l := by
  rw [(Ring.read_rel b a cap h l).1]
  simp only [List.length_take]
  omega

example : 5 ≤ Gen.panicSites.length := by decide

example : (Ring.DDict.new 8).Rel ⟨[], 0⟩ 8 := ⟨Ring.new_rel 8, rfl, by decide⟩

/-! ### the classic reader as it runs (Model/LazyDec.lean: lazy, ring level), arbitrary input -/

open LazyDec in
/-- For EVERY byte string and EVERY schedule of buffer lengths: no call of the lazy classic reader model ends in a
    panic, in `ErrNoSpace` or in "length out of range" — outcomes are data, end of stream, or one of the reader's
    error values — and no call delivers more bytes than requested. -/
theorem C11_classic_reader_outcomes (cfgCap : Nat) (inp : ByteArray) (l : LSt) (h : newReader cfgCap inp = .ok l)
    (lens : List Nat) :
    (∀ r ∈ readSeq l lens, r.2 ≠ .err .noSpace ∧ r.2 ≠ .err .lenRange ∧ r.2 ≠ .err .panic) ∧
    (∀ i (hi : i < (readSeq l lens).length), ((readSeq l lens)[i]).1.size ≤ lens[i]!) :=
  ⟨LazyDec.never_noSpace cfgCap inp l h lens, fun i hi => ((LazyDec.call_sizes cfgCap inp l h lens).2 i hi).1⟩

/-! ### the reader models end because the data ends or an error occurs — never because a recursion bound was reached

  The batch reader models are structurally recursive over a fuel argument sized from the input length.  For EVERY input
  the fuel is not exhausted: a chunk / block / stream / padding word consumes at least 1 / 8 / 12 / 4 bytes, an
  operation of a chunk with a declared size produces at least one byte, and — for the classic stream of unknown size —
  the range decoder reads at least one byte every 384 decoded bits (no probability exceeds 2017/2048, so every decoded
  bit shrinks the range at least by that factor, and it is renormalised whenever it falls below 2^24), every operation
  decoding at least one bit.  This is the model-level content of "every Read call returns": the amount of work is
  bounded by a linear function of the input length. -/

theorem C11_classic_reader_model_terminates (cfgCap : Nat) (inp : ByteArray) :
    (Lzma1.read cfgCap inp).status ≠ .err "fuel exhausted" :=
  Fuel.lzma1_read_fuel cfgCap inp

theorem C11_lzma2_reader_model_terminates (strict : Bool) (cap : Nat) (inp : ByteArray) (pos : Nat) (out : ByteArray) :
    (Lzma2.decode strict cap inp pos out).2 ≠ .err "fuel exhausted" :=
  Fuel.lzma2_decode_fuel strict cap inp pos out

theorem C11_xz_reader_model_terminates (strict : Bool) (cfgCap : Nat) (single : Bool) (inp : ByteArray) :
    (Xz.read strict cfgCap single inp).status ≠ .err "fuel exhausted" :=
  Fuel.xz_read_fuel strict cfgCap single inp

/-! ### From the SOURCE: no panic in the per-operation decoder (regenerated translation, Gen/GoSrc.lean)

  `decoder.readOp` with everything below it — the six probability arrays indexed by state and position state, the length /
  distance / literal codecs with their Go slices and arrays, the range decoder — as written in Go: whatever the input bytes,
  a call on a well-formed coder state returns (an operation, the end marker, or io.EOF); none of Go's index or slice-bounds
  checks fires and the loop bounds of the translation are not reached.  `decoderDict.byteAt` never panics on a well-formed
  ring.  (The translation makes every bounds check of the source explicit as `Go.Res.panic`.) -/

open Lzma Rc in
theorem C11_source_readOp_no_panic (fuel : Nat) (g : GoSrc.T_decoder) (s : St) (tbl : Tbl) (p : Props) (d : Rc.Dec)
    (pos : Nat) (bat : Nat → Nat)
    (sr : GoSrcP.StRel g.State s tbl p) (rel : GoSrcP.DecRel g.rd d) (inv : GoSrcP.DecInv d)
    (hpos : g.Dict.head.toNat = pos) (hposlt : pos < 2 ^ 62)
    (hbat : ∀ dist : BitVec 64, GoSrc.decoderDict_byteAt g.Dict dist = Go.Res.ok (BitVec.ofNat 8 (bat dist.toInt.toNat)))
    (hbat256 : ∀ k, bat k < 256) (hfuel : 200 ≤ fuel) :
    ∃ r, GoSrc.decoder_readOp fuel g = Go.Res.ok r := by
  have h := GoSrcP.readOp_refines fuel g s tbl p d pos bat sr rel inv hpos hposlt hbat hbat256 hfuel
  cases hd : decTree pm (opDec (GoSrcP.ctxOf p s pos bat)) tbl d with
  | none =>
    rw [hd] at h
    obtain ⟨op, g', hg⟩ := h
    exact ⟨_, hg⟩
  | some r =>
    obtain ⟨op, tbl', d'⟩ := r
    rw [hd] at h
    dsimp only at h
    rcases (ite_prop_iff_or.mp h) with ⟨_, g', hg, _⟩ | ⟨_, g', hg, _⟩
    · exact ⟨_, hg⟩
    · exact ⟨_, hg⟩

theorem C11_source_byteAt_no_panic (g : GoSrc.T_decoderDict) (m : Ring.DDict) (hb : GoSrcP.BufRel g.buf m.buf)
    (hh : g.head.toNat = m.head) (hhl : m.head < 2 ^ 62) (dist : BitVec 64) :
    ∃ b, GoSrc.decoderDict_byteAt g dist = Go.Res.ok b :=
  ⟨_, GoSrcP.decoderDict_byteAt_ring g m hb hh hhl dist⟩

end Props.C11
