import XzVerif.Proofs.Segment
import XzVerif.Proofs.Tables
import XzVerif.Proofs.DictCap
import XzVerif.Proofs.XzRoundTrip
import XzVerif.Proofs.XzWriter
import XzVerif.Proofs.XzW
import XzVerif.Proofs.HashTable
import XzVerif.Proofs.BinTree
import XzVerif.Proofs.GoSrcEnc
import XzVerif.Proofs.GoSrcTreeEnc
import XzVerif.Proofs.GoSrcLen
import XzVerif.Proofs.GoSrcDist
import XzVerif.Proofs.GoSrcLit
import XzVerif.Proofs.GoSrcOpEnc
import XzVerif.Proofs.GoSrcOp2
import XzVerif.Proofs.GoSrcRing
/-
  C02 — Everything the xz writer emits is a valid .xz file for other implementations.

  The reference decoder of this property is the `strict` instantiation of the Lean decoders
  (format rules: no end marker inside LZMA2, range decoder exactly finished, compressed size
  consumed exactly, lc+lp ≤ 4, declared dictionary size bounds every distance), validated against
  liblzma 5.8.2 on the frozen corpus in both directions (DESIGN.md §2.1).

  Proved here for all inputs: the strict segment decoder accepts what the model encoder writes
  and recovers the operations (`C02_strict_segment`); the Go tables, constants and field layouts
  entering the emitted bytes are the format's (`C02_tables_are_format`, `C02_padding`,
  `C02_dict_size_covers`).  Not proved: chunk/container assembly of the writer (tied by the
  byte-identical re-encoding correspondence and judged per run by the strict decoder), `OpsFit`.
-/
namespace Props.C02
open Lzma Rc

/-- The strict (format-rule) decoder accepts every segment the encoder produces. -/
theorem C02_strict_segment (p : Props) (s : St) (tbl : Tbl) (htbl : tbl.ok)
    (h : Hist) (ops : List RawOp) (hops : OpsOk s h ops) (hne : ops ≠ []) :
    let x := encodeOps p s tbl h ops
    let body := encClose x
    let n := x.h.out.size - h.out.size
    ∃ rd, Dec.init (bytesToList body 0 body.size) = some rd ∧
      let res := decSegment p (some n) h.out.size true (n + 2) { s := s, tbl := tbl, rd := rd, h := h }
      res.status = .eof ∧ res.sawMarker = false ∧ res.d.h = x.h ∧ res.d.rd.inp = [] ∧ res.d.rd.code = 0 := by
  intro x body n
  obtain ⟨rd, h1, h2⟩ := segment_roundtrip p true s tbl htbl h ops hops hne
  exact ⟨rd, h1, h2.1, h2.2.1, h2.2.2.1, h2.2.2.2.2.2.2.1, h2.2.2.2.2.2.2.2⟩

/-- The strict reference decoder accepts every well-formed container the model emitter lays out
    (stream header and footer, block headers, index records, backward size, paddings and checks
    mutually consistent) and recovers the content. -/
theorem C02_strict_container (cfgCap : Nat) (s : Xz.Stream) (hok : Xz.StreamOk true s) :
    (Xz.read true cfgCap false (Xz.emitStream s)).status = .eof ∧
    (Xz.read true cfgCap false (Xz.emitStream s)).out = Xz.content s :=
  Xz.read_emitStream true cfgCap s hok (by intro h; cases h)

/-- Every finite table of the Go code that shapes the emitted bits and bytes is the format's. -/
theorem C02_tables_are_format :
    Gen.updLit = (List.range 12).map updLit ∧ Gen.updMatch = (List.range 12).map updMatch ∧
    Gen.updRep = (List.range 12).map updRep ∧ Gen.updShortRep = (List.range 12).map updShortRep ∧
    Gen.lenState = (List.range 272).map lenState ∧
    Gen.probInc = (List.range 2048).map (fun p => probNext p false) ∧
    Gen.probDec = (List.range 2048).map (fun p => probNext p true) ∧
    Gen.propsCode.all (fun (lc, lp, pb, c) => Lzma2.byteOfProps ⟨lc, lp, pb⟩ == c) = true ∧
    Gen.verifyFlags = (List.range 256).map (fun f => (Xz.checkSize f).isSome) ∧
    Gen.padLen = (List.range 64).map Xz.padLen :=
  ⟨Proofs.Tables.updLit_table, Proofs.Tables.updMatch_table, Proofs.Tables.updRep_table,
   Proofs.Tables.updShortRep_table, Proofs.Tables.lenState_table, Proofs.Tables.probInc_table,
   Proofs.Tables.probDec_table, Proofs.Tables.propsCode_table, Proofs.Tables.verifyFlags_table,
   Proofs.Tables.padLen_table⟩

/-- Block and index padding: padded lengths are multiples of four, padding is shorter than four. -/
theorem C02_padding (n : Nat) : (n + Xz.padLen n) % 4 = 0 ∧ Xz.padLen n < 4 :=
  Proofs.Tables.padLen_spec n

/-- The dictionary size declared in the block header covers the configured capacity, hence (the
    encoder never looks further back than its capacity) every match distance. -/
theorem C02_dict_size_covers (n : Nat) (h1 : 1 ≤ n) (h2 : n ≤ 2 ^ 32 - 1) :
    n ≤ Spec.dictSize (Model.encodeDictCap n) :=
  (Proofs.DictCap.encode_least n h1 h2).2.1

/-- Chunk size limits are built into the header fields: 16 and 21 bits plus one. -/
theorem C02_field_limits (c lo hi : Nat) (hlo : lo < 256) (hhi : hi < 256) :
    (c % 32) * 65536 + hi * 256 + lo + 1 ≤ 2 ^ 21 ∧ hi * 256 + lo + 1 ≤ 2 ^ 16 := by
  omega

/-- **Block discipline** ("every block except the last carries exactly the configured block size"): for the model
    of the xz writer's block bookkeeping (`Model/XzWriter.lean`: the loop of `Writer.Write` around
    `blockWriter.Write`, `closeBlockWriter`, `newBlockWriter`, `Close`; tied to the real writer by predicting the
    block sizes of every output), every block size ≥ 1 and every history of Write lengths followed by Close: the
    block sizes add up to the bytes written, every block but the last holds exactly `bs` bytes, the last at most
    `bs` and at least one byte unless it is the only block. -/
theorem C02_block_discipline (bs : Nat) (hbs : 1 ≤ bs) (lens : List Nat) :
    let st := XW.run bs lens
    st.closed = true ∧ st.blocks.sum = lens.sum ∧ st.blocks ≠ [] ∧
    (∀ b ∈ st.blocks.dropLast, b = bs) ∧
    (∀ b, st.blocks.getLast? = some b → b ≤ bs ∧ (2 ≤ st.blocks.length → 1 ≤ b)) :=
  XW.run_spec bs hbs lens

example : (XW.run 10 [3, 7, 0, 25, 1]).blocks = [10, 10, 10, 6] := by decide

example : Xz.padLen 5 = 3 ∧ Xz.padLen 8 = 0 := by decide

/-- **The property itself for the model of the whole xz writer**: whatever is written in whatever pieces, with any
    valid configuration (lc/lp/pb, dictionary capacity, look-ahead, block size, check) and either match finder model,
    the emitted bytes are accepted by the reference decoder under the STRICT rules of the format — exactly one stream,
    block headers and index consistent, every match distance inside the declared dictionary, no end marker inside
    LZMA2, range coder exactly finished, padding and checks right — and decode to exactly the bytes written.
    (`XzW.run` is tied to the real `xz.Writer` byte for byte: C01's computed-stream correspondence.) -/
theorem C02_writer_output_valid_strict_hashtable4 (c : XzW.Cfg) (hc : XzW.CfgOk c) (writes : List ByteArray)
    (hsize : (XzW.written writes).size < 2 ^ 40) (hblocks : (XzW.split c.blockSize writes).length < 2 ^ 28) (cfgCap : Nat) :
    (Xz.read true cfgCap false (XzW.run c HT.HT4 (HT.St.new c.w2.dictCap c.w2.bufSize) writes)).status = .eof ∧
    (Xz.read true cfgCap false (XzW.run c HT.HT4 (HT.St.new c.w2.dictCap c.w2.bufSize) writes)).out = XzW.written writes :=
  XzW.xz_writer_roundtrip true c hc HT.HT4 (HT.Synced c.w2) (HT.ht4_matcherInv c.w2) _ (HT.synced_new c.w2)
    writes hsize hblocks cfgCap (fun h => by cases h)

theorem C02_writer_output_valid_strict_bintree (c : XzW.Cfg) (hc : XzW.CfgOk c) (writes : List ByteArray)
    (hsize : (XzW.written writes).size < 2 ^ 40) (hblocks : (XzW.split c.blockSize writes).length < 2 ^ 28) (cfgCap : Nat) :
    (Xz.read true cfgCap false (XzW.run c BT.BT4 (BT.St.new c.w2.dictCap c.w2.bufSize) writes)).status = .eof ∧
    (Xz.read true cfgCap false (XzW.run c BT.BT4 (BT.St.new c.w2.dictCap c.w2.bufSize) writes)).out = XzW.written writes :=
  XzW.xz_writer_roundtrip true c hc BT.BT4 (BT.Synced c.w2) (BT.bt4_matcherInv c.w2) _ (BT.synced_new c.w2)
    writes hsize hblocks cfgCap (fun h => by cases h)

/-! ### The encoder's arithmetic core, from the SOURCE (regenerated translation, Gen/GoSrc.lean)

  `xzh gen` re-translates lzma/rangecodec.go (encoder half), bytewriter.go, prob.go, state.go's arithmetic and
  bitops.go into Lean on every run (uint32 / uint64 / int64 as BitVec, Go's wrap-around and shifts); the theorems
  below say that what the source computes is what the Nat-level codec of this framework (Codec/Rc.lean,
  Codec/Lzma.lean — the objects of `C02_strict_segment` and of the writer theorems) computes, including the byte limit
  of the LZMA2 chunk writer.  A change to the source changes the generated definitions and these proofs are re-checked
  against it. -/

/-- every function on the translation list was translated (nothing fell outside the translator's subset) -/
theorem C02_source_translation_complete : GoSrc.failures = [] := by decide

/-- `rangeEncoder.EncodeBit` as written in Go = one adaptive step of the Nat-level encoder plus the probability
    update, and it answers ErrLimit exactly when the step writes while `Available() < 1`; never panics. -/
theorem C02_source_EncodeBit (fuel : Nat) (g : GoSrc.T_rangeEncoder) (e : Rc.Enc) (L : Nat) (b : BitVec 32) (p : BitVec 16)
    (rel : GoSrcP.EncRel g e L) (rest : e.Rest) (hp : Rc.POk p.toNat)
    (hcl : e.cacheLen < 2 ^ 62) (hL : L < 2 ^ 63) (hfuel : e.cacheLen ≤ fuel) :
    let bit := b.getLsbD 0
    let e' := e.step ⟨some p.toNat, bit⟩
    if e'.out.length > e.out.length ∧ GoSrcP.noRoom e L then
      ∃ g' p', GoSrc.rangeEncoder_EncodeBit fuel g b p = Go.Res.ok (Go.Err.named "ErrLimit", g', p')
    else
      ∃ g', GoSrc.rangeEncoder_EncodeBit fuel g b p
              = Go.Res.ok (Go.Err.nil, g', BitVec.ofNat 16 (Lzma.probNext p.toNat bit))
            ∧ GoSrcP.EncRel g' e' L ∧ e'.Rest :=
  GoSrcP.EncodeBit_refines fuel g e L b p rel rest hp hcl hL hfuel

theorem C02_source_DirectEncodeBit (fuel : Nat) (g : GoSrc.T_rangeEncoder) (e : Rc.Enc) (L : Nat) (b : BitVec 32)
    (rel : GoSrcP.EncRel g e L) (rest : e.Rest)
    (hcl : e.cacheLen < 2 ^ 62) (hL : L < 2 ^ 63) (hfuel : e.cacheLen ≤ fuel) :
    let bit := b.getLsbD 0
    let e' := e.step ⟨none, bit⟩
    if e'.out.length > e.out.length ∧ GoSrcP.noRoom e L then
      ∃ g', GoSrc.rangeEncoder_DirectEncodeBit fuel g b = Go.Res.ok (Go.Err.named "ErrLimit", g')
    else
      ∃ g', GoSrc.rangeEncoder_DirectEncodeBit fuel g b = Go.Res.ok (Go.Err.nil, g')
            ∧ GoSrcP.EncRel g' e' L ∧ e'.Rest :=
  GoSrcP.DirectEncodeBit_refines fuel g e L b rel rest hcl hL hfuel

/-- `rangeEncoder.Close` = five checked shiftLows; with room for them the bytes are `Rc.Enc.close` -/
theorem C02_source_Close (fuel : Nat) (g : GoSrc.T_rangeEncoder) (e : Rc.Enc) (L : Nat)
    (rel : GoSrcP.EncRel g e L) (inv : e.Inv) (hcl : e.cacheLen < 2 ^ 62) (hL : L < 2 ^ 63) (hfuel : e.cacheLen + 10 ≤ fuel) :
    (match GoSrcP.closeL L 5 e with
     | none => ∃ g', GoSrc.rangeEncoder_Close fuel g = Go.Res.ok (Go.Err.named "ErrLimit", g')
     | some e' => ∃ g', GoSrc.rangeEncoder_Close fuel g = Go.Res.ok (Go.Err.nil, g') ∧ GoSrcP.EncRel g' e' L) ∧
    (e.out.length + e.cacheLen + 9 ≤ L →
      ∃ g', GoSrc.rangeEncoder_Close fuel g = Go.Res.ok (Go.Err.nil, g') ∧ GoSrcP.bytesNat g'.lbw.BW.out = e.close) :=
  ⟨GoSrcP.Close_refines fuel g e L rel inv hcl hL hfuel,
   fun room => GoSrcP.Close_refines_noLimit fuel g e L rel inv hcl hL hfuel room⟩

/-- the state `newRangeEncoder` builds represents the initial Nat-level encoder -/
theorem C02_source_encoder_init (N : BitVec 64) : GoSrcP.EncRel (GoSrcP.encInit N) Rc.Enc.init N.toNat :=
  GoSrcP.encInit_rel N

/-- the byte-limit test of the LZMA2 writer model (`W2.overflow`, Model/Writer2.lean) IS the source's: with the
    limited writer admitting `maxCompressed − base` bytes the source answers ErrLimit iff `overflow` -/
theorem C02_source_byte_limit_is_the_models (base : Nat) (e e' : Rc.Enc) (hb : base ≤ Gen.lzma_maxCompressed) :
    W2.overflow base e e' = decide (e'.out.length > e.out.length ∧ GoSrcP.noRoom e (Gen.lzma_maxCompressed - base)) := by
  unfold W2.overflow GoSrcP.noRoom
  by_cases h1 : e'.out.length > e.out.length <;> by_cases h2 : Gen.lzma_maxCompressed < base + e.out.length + e.cacheLen + 5 <;>
    simp [h1, h2] <;> omega

/-- probability update, bound, length state, the four state transitions, position / literal state and `nlz32`
    (hence the position slot of a distance) as the SOURCE computes them are the codec's functions -/
theorem C02_source_arithmetic :
    (∀ p : BitVec 16, (GoSrc.prob_dec p).toNat = Lzma.probNext p.toNat true) ∧
    (∀ p : BitVec 16, p.toNat ≤ 2048 → (GoSrc.prob_inc p).toNat = Lzma.probNext p.toNat false) ∧
    (∀ (p : BitVec 16) (r : BitVec 32), p.toNat ≤ 2048 → (GoSrc.prob_bound p r).toNat = (r.toNat / 2048) * p.toNat) ∧
    (∀ l : BitVec 32, (GoSrc.lenState l).toNat = Lzma.lenState l.toNat) ∧
    (∀ s : GoSrc.T_state, GoSrc.state_updateStateLiteral s = { s with state := BitVec.ofNat 32 (Lzma.updLit s.state.toNat) }) ∧
    (∀ s : GoSrc.T_state, GoSrc.state_updateStateMatch s = { s with state := BitVec.ofNat 32 (Lzma.updMatch s.state.toNat) }) ∧
    (∀ s : GoSrc.T_state, GoSrc.state_updateStateRep s = { s with state := BitVec.ofNat 32 (Lzma.updRep s.state.toNat) }) ∧
    (∀ s : GoSrc.T_state, GoSrc.state_updateStateShortRep s = { s with state := BitVec.ofNat 32 (Lzma.updShortRep s.state.toNat) }) ∧
    (∀ x : BitVec 32, GoSrc.nlz32 x = Go.Res.ok (BitVec.ofNat 64 (if x.toNat = 0 then 32 else 31 - Nat.log2 x.toNat))) :=
  ⟨GoSrcP.prob_dec_spec, GoSrcP.prob_inc_spec, GoSrcP.prob_bound_spec, GoSrcP.lenState_spec,
   GoSrcP.updateStateLiteral_spec, GoSrcP.updateStateMatch_spec, GoSrcP.updateStateRep_spec,
   GoSrcP.updateStateShortRep_spec, GoSrcP.nlz32_spec⟩

theorem C02_source_context_addresses (s : GoSrc.T_state) (prev : BitVec 8) (head : BitVec 64) (pb : Nat) (hpb : pb ≤ 4)
    (hm : s.posBitMask = BitVec.ofNat 32 (2 ^ pb - 1)) (hs : s.state.toNat < 12)
    (hlc : s.Properties.LC.toNat ≤ 8) (hlp : s.Properties.LP.toNat ≤ 4) :
    (GoSrc.state_states s head).2.1.toNat = s.state.toNat * 16 + head.toNat % 2 ^ pb ∧
    (GoSrc.state_states s head).2.2.toNat = head.toNat % 2 ^ pb ∧
    (GoSrc.state_litState s prev head).toNat
      = Lzma.litState s.Properties.LC.toNat s.Properties.LP.toNat head.toNat prev.toNat :=
  ⟨(GoSrcP.states_spec s head pb hpb hm hs).2.1, (GoSrcP.states_spec s head pb hpb hm hs).2.2,
   GoSrcP.litState_spec s prev head hlc hlp⟩

/-- lzma/treecodecs.go and directcodec.go from the source: `treeCodec.Encode`, `treeReverseCodec.Encode`,
    `directCodec.Encode` (loops over the bits, node index `m = m<<1 | b`, Go's slice bounds check) run the PATHS
    `treeEnc` / `rtreeEnc` / `directEnc` of Codec/Lzma.lean through the Nat-level encoder, with the byte limit; the
    probability slice stays the model's table segment; no index panic. -/
theorem C02_source_tree_encoders (fuel : Nat) (g : GoSrc.T_rangeEncoder) (e : Rc.Enc) (L : Nat) (v : BitVec 32)
    (tbl : Tbl) (base bits : Nat)
    (rel : GoSrcP.EncRel g e L) (rest : e.Rest) (htbl : tbl.ok) (hb1 : 1 ≤ bits) (hb2 : bits ≤ 32)
    (hcl : e.cacheLen + 80 < 2 ^ 62) (hL : L < 2 ^ 63) (hfuel : e.cacheLen + 80 ≤ fuel) :
    (∀ tc : GoSrc.T_treeCodec, tc.probTree.bits.toNat = bits → GoSrcP.TreeRel tc.probTree.probs tbl base (2 ^ bits) →
      match GoSrcP.encPathL L tbl e (treeEnc base bits v.toNat) with
      | none => ∃ tc' g', GoSrc.treeCodec_Encode fuel tc g v = Go.Res.ok (Go.Err.named "ErrLimit", tc', g')
      | some (tbl', e') =>
        ∃ tc' g', GoSrc.treeCodec_Encode fuel tc g v = Go.Res.ok (Go.Err.nil, tc', g')
          ∧ GoSrcP.EncRel g' e' L ∧ e'.Rest ∧ tbl'.ok ∧ e'.cacheLen ≤ e.cacheLen + bits
          ∧ tc'.probTree.bits = tc.probTree.bits ∧ GoSrcP.TreeRel tc'.probTree.probs tbl' base (2 ^ bits)) ∧
    (∀ tc : GoSrc.T_treeReverseCodec, tc.probTree.bits.toNat = bits → GoSrcP.TreeRel tc.probTree.probs tbl base (2 ^ bits) →
      match GoSrcP.encPathL L tbl e (rtreeEnc base bits v.toNat) with
      | none => ∃ tc' g', GoSrc.treeReverseCodec_Encode fuel tc v g = Go.Res.ok (Go.Err.named "ErrLimit", tc', g')
      | some (tbl', e') =>
        ∃ tc' g', GoSrc.treeReverseCodec_Encode fuel tc v g = Go.Res.ok (Go.Err.nil, tc', g')
          ∧ GoSrcP.EncRel g' e' L ∧ e'.Rest ∧ tbl'.ok ∧ e'.cacheLen ≤ e.cacheLen + bits
          ∧ tc'.probTree.bits = tc.probTree.bits ∧ GoSrcP.TreeRel tc'.probTree.probs tbl' base (2 ^ bits)) ∧
    (∀ dc : BitVec 8, dc.toNat ≤ 32 →
      match GoSrcP.encPathL L tbl e (directEnc dc.toNat v.toNat) with
      | none => ∃ g', GoSrc.directCodec_Encode fuel dc g v = Go.Res.ok (Go.Err.named "ErrLimit", g')
      | some (tbl', e') =>
        ∃ g', GoSrc.directCodec_Encode fuel dc g v = Go.Res.ok (Go.Err.nil, g')
          ∧ tbl' = tbl ∧ GoSrcP.EncRel g' e' L ∧ e'.Rest ∧ e'.cacheLen ≤ e.cacheLen + dc.toNat) :=
  ⟨fun tc hb tr => GoSrcP.treeCodec_Encode_refines fuel tc g e L v tbl base bits rel rest htbl hb1 hb2 hb tr hcl hL hfuel,
   fun tc hb tr => GoSrcP.treeReverseCodec_Encode_refines fuel tc g e L v tbl base bits rel rest htbl hb1 hb2 hb tr hcl hL hfuel,
   fun dc hdc => GoSrcP.directCodec_Encode_refines fuel dc g e L v tbl rel rest hdc hcl hL hfuel⟩

/-- lzma/lengthcodec.go and lzma/distcodec.go from the source: `lengthCodec.Encode` (choices, 16 + 16 + 1 trees in Go
    arrays) runs `lenEnc`, `distCodec.Encode` (position slot by `nlz32`, slot trees, reverse trees through a pointer alias,
    direct bits, align tree) runs `distEnc` of Codec/Lzma.lean over the model's flat table, with the byte limit; the Go
    arrays stay the model's table blocks; no index panic; a length above 271 is refused before anything is written. -/
theorem C02_source_length_and_distance_encoders (fuel : Nat) (g : GoSrc.T_rangeEncoder) (e : Rc.Enc) (Lim : Nat) (tbl : Tbl)
    (rel : GoSrcP.EncRel g e Lim) (rest : e.Rest) (htbl : tbl.ok)
    (hcl : e.cacheLen + 300 < 2 ^ 62) (hL : Lim < 2 ^ 63) (hfuel : e.cacheLen + 300 ≤ fuel) :
    (∀ (lc : GoSrc.T_lengthCodec) (l posState : BitVec 32) (L : Nat), GoSrcP.LenRel lc tbl L → l.toNat ≤ 271 →
      posState.toNat < 16 →
      match GoSrcP.encPathL Lim tbl e (lenEnc L posState.toNat l.toNat) with
      | none => ∃ lc' g', GoSrc.lengthCodec_Encode fuel lc g l posState = Go.Res.ok (Go.Err.named "ErrLimit", lc', g')
      | some (tbl', e') =>
        ∃ lc' g', GoSrc.lengthCodec_Encode fuel lc g l posState = Go.Res.ok (Go.Err.nil, lc', g')
          ∧ GoSrcP.EncRel g' e' Lim ∧ e'.Rest ∧ tbl'.ok ∧ e'.cacheLen ≤ e.cacheLen + 10 ∧ GoSrcP.LenRel lc' tbl' L) ∧
    (∀ (lc : GoSrc.T_lengthCodec) (l posState : BitVec 32), 271 < l.toNat →
      GoSrc.lengthCodec_Encode fuel lc g l posState
        = Go.Res.ok (Go.Err.new "lengthCodec.Encode: l out of range", lc, g)) ∧
    (∀ (dc : GoSrc.T_distCodec) (dist l : BitVec 32), GoSrcP.DistRel dc tbl →
      match GoSrcP.encPathL Lim tbl e (distEnc dist.toNat l.toNat) with
      | none => ∃ dc' g', GoSrc.distCodec_Encode fuel dc g dist l = Go.Res.ok (Go.Err.named "ErrLimit", dc', g')
      | some (tbl', e') =>
        ∃ dc' g', GoSrc.distCodec_Encode fuel dc g dist l = Go.Res.ok (Go.Err.nil, dc', g')
          ∧ GoSrcP.EncRel g' e' Lim ∧ e'.Rest ∧ tbl'.ok ∧ e'.cacheLen ≤ e.cacheLen + 40 ∧ GoSrcP.DistRel dc' tbl') :=
  ⟨fun lc l ps L lr hl hps => GoSrcP.lengthCodec_Encode_refines fuel lc g e Lim l ps tbl L rel rest htbl lr hl hps
      (by omega) hL (by omega),
   fun lc l ps hl => GoSrcP.lengthCodec_Encode_refuses fuel lc g l ps hl,
   fun dc dist l dr => GoSrcP.distCodec_Encode_refines fuel dc g e Lim dist l tbl rel rest htbl dr hcl hL hfuel⟩

/-- lzma/literalcodec.go from the source: `literalCodec.Encode` (the 0x300 probabilities of the literal state as a view
    `c.probs[k : k+0x300]`, the matched-literal loop with its two exits, the plain loop) runs `litMatchedEnc` /
    `litPlainEnc` of Codec/Lzma.lean; a literal state outside the slice is exactly Go's slice-bounds panic. -/
theorem C02_source_literal_encoder (fuel : Nat) (c : GoSrc.T_literalCodec) (g : GoSrc.T_rangeEncoder) (e : Rc.Enc) (Lim : Nat)
    (s : BitVec 8) (state : BitVec 32) (mtch : BitVec 8) (litState : BitVec 32) (tbl : Tbl) (n : Nat)
    (rel : GoSrcP.EncRel g e Lim) (rest : e.Rest) (htbl : tbl.ok) (lr : GoSrcP.LitRel c tbl n)
    (hn : n ≤ 0x300 * 2 ^ 12)
    (hcl : e.cacheLen + 100 < 2 ^ 62) (hL : Lim < 2 ^ 63) (hfuel : e.cacheLen + 100 ≤ fuel) :
    (0x300 * (litState.toNat + 1) ≤ n →
      match GoSrcP.encPathL Lim tbl e (GoSrcP.litPath state.toNat litState.toNat mtch.toNat s.toNat) with
      | none => ∃ c' g', GoSrc.literalCodec_Encode fuel c g s state mtch litState = Go.Res.ok (Go.Err.named "ErrLimit", c', g')
      | some (tbl', e') =>
        ∃ c' g', GoSrc.literalCodec_Encode fuel c g s state mtch litState = Go.Res.ok (Go.Err.nil, c', g')
          ∧ GoSrcP.EncRel g' e' Lim ∧ e'.Rest ∧ tbl'.ok ∧ e'.cacheLen ≤ e.cacheLen + 8 ∧ GoSrcP.LitRel c' tbl' n) ∧
    (c.probs.size < 0x300 * (litState.toNat + 1) → litState.toNat < 2 ^ 20 →
      GoSrc.literalCodec_Encode fuel c g s state mtch litState = Go.Res.panic "slice bounds out of range") :=
  ⟨fun hls => GoSrcP.literalCodec_Encode_refines fuel c g e Lim s state mtch litState tbl n rel rest htbl lr hls hn hcl hL hfuel,
   fun h hlt => GoSrcP.literalCodec_Encode_bounds fuel c g s state mtch litState h hlt⟩

/-- **`encoder.writeLiteral` / `encoder.writeMatch` from the source** (lzma/encoder.go: the whole per-operation encoder —
    the search of the rep registers, short rep, the isMatch / isRep / isRepG0 / isRepG0Long / isRepG1 / isRepG2 decisions,
    length, distance and literal codecs, the rotation of the registers, the state transitions): one call = the path
    `opEnc ctx op` of Codec/Lzma.lean through the checked Nat-level encoder + `St.apply`, where `op` is the model's
    classification `W2.classify` of the match (Model/Writer2.lean); ErrLimit exactly where the checked encoder stops; the Go
    state stays the model's `(s, tbl)`; never one of `writeMatch`'s two panics for an operation the encoder accepts. -/
theorem C02_source_write_operations (fuel : Nat) (g : GoSrc.T_encoder) (s : St) (tbl : Tbl) (p : Props) (e : Rc.Enc) (Lim : Nat)
    (pos : Nat) (bat : Nat → Nat)
    (sr : GoSrcP.StRel g.state s tbl p) (rel : GoSrcP.EncRel g.re e Lim) (rest : e.Rest)
    (hpos : (GoSrc.encoderDict_Pos g.dict).toNat = pos) (hposlt : pos < 2 ^ 62)
    (hbat : ∀ dist : BitVec 64, GoSrc.encoderDict_ByteAt g.dict dist = Go.Res.ok (BitVec.ofNat 8 (bat dist.toInt.toNat)))
    (hbat256 : ∀ k, bat k < 256)
    (hcl : e.cacheLen + 400 < 2 ^ 62) (hL : Lim < 2 ^ 63) (hfuel : e.cacheLen + 400 ≤ fuel) :
    (∀ l : GoSrc.T_lit,
      match GoSrcP.encPathL Lim tbl e (opEnc (GoSrcP.ctxOf p s pos bat) (.lit l.b.toNat)) with
      | none => ∃ g', GoSrc.encoder_writeLiteral fuel g l = Go.Res.ok (Go.Err.named "ErrLimit", g')
      | some (tbl', e') =>
        ∃ g', GoSrc.encoder_writeLiteral fuel g l = Go.Res.ok (Go.Err.nil, g')
          ∧ GoSrcP.StRel g'.state (s.apply (.lit l.b.toNat)) tbl' p ∧ GoSrcP.EncRel g'.re e' Lim ∧ e'.Rest ∧ g'.dict = g.dict) ∧
    (∀ (m : GoSrc.T_match) (dist n : Nat), m.distance = BitVec.ofNat 64 dist → m.n = BitVec.ofNat 64 n →
      1 ≤ dist → dist ≤ 2 ^ 32 → ((2 ≤ n ∧ n ≤ 273) ∨ (dist - 1 = s.r0 ∧ n = 1)) →
      let op := W2.classify s (.mtch dist n)
      match GoSrcP.encPathL Lim tbl e (opEnc (GoSrcP.ctxOf p s pos bat) op) with
      | none => ∃ g', GoSrc.encoder_writeMatch fuel g m = Go.Res.ok (Go.Err.named "ErrLimit", g')
      | some (tbl', e') =>
        ∃ g', GoSrc.encoder_writeMatch fuel g m = Go.Res.ok (Go.Err.nil, g')
          ∧ GoSrcP.StRel g'.state (s.apply op) tbl' p ∧ GoSrcP.EncRel g'.re e' Lim ∧ e'.Rest ∧ g'.dict = g.dict) :=
  ⟨fun l => GoSrcP.writeLiteral_refines fuel g l s tbl p e Lim pos bat sr rel rest hpos hposlt hbat hbat256 hcl hL hfuel,
   fun m dist n hd hn hd1 hd2 hnr =>
     GoSrcP.writeMatch_refines fuel g m s tbl p e Lim pos bat dist n sr rel rest hd hn hd1 hd2 hnr hpos hposlt hbat hbat256 hcl hL hfuel⟩

/-- `encoder.writeOp` from the source: an operation is refused — with NOTHING changed — exactly when
    `Available() = N − (cacheLen + 4)` is below the margin, i.e. `Lim < digits + 4 + margin`, the test of `W2.encodeOp`
    (Model/Writer2.lean) whose constant `opLenMargin ≥ 25` the no-failure theorem of C08 needs (defect F17); otherwise it
    is `writeLiteral` / `writeMatch` by the operation's dynamic type -/
theorem C02_source_writeOp_margin (fuel : Nat) (g : GoSrc.T_encoder) (op : GoSrc.S_operation) (e : Rc.Enc) (Lim m : Nat)
    (rel : GoSrcP.EncRel g.re e Lim) (hm : g.margin.toNat = m) (hm' : m < 2 ^ 32)
    (hcl : e.cacheLen < 2 ^ 62) (hL : Lim < 2 ^ 63) :
    GoSrc.encoder_writeOp fuel g op =
      if Lim < e.out.length + e.cacheLen + 4 + m then Go.Res.ok (Go.Err.named "ErrLimit", g)
      else match op with
        | .lit x => GoSrc.encoder_writeLiteral fuel g x
        | .match_ x => GoSrc.encoder_writeMatch fuel g x
        | .none => Go.Res.panic "unexpected operation" :=
  GoSrcP.writeOp_spec fuel g op e Lim m rel hm hm' hcl hL

/-- lzma/properties.go from the source: `PropertiesForCode` / `Properties.Code` are the format's
    `code = (pb·5 + lp)·9 + lc` and its inverse on the 225 codes -/
theorem C02_source_properties_code :
    (∀ c : BitVec 8, if c.toNat ≤ 224 then
        GoSrc.PropertiesForCode c = ({ LC := BitVec.ofNat 64 (c.toNat % 9), LP := BitVec.ofNat 64 (c.toNat / 9 % 5),
                                       PB := BitVec.ofNat 64 (c.toNat / 45 % 5) }, Go.Err.nil)
      else (GoSrc.PropertiesForCode c).2 = Go.Err.new "lzma: invalid properties code") ∧
    (∀ p : GoSrc.T_Properties, p.LC.toNat ≤ 8 → p.LP.toNat ≤ 4 → p.PB.toNat ≤ 4 →
      (GoSrc.Properties_Code p).toNat = (p.PB.toNat * 5 + p.LP.toNat) * 9 + p.LC.toNat) ∧
    (∀ c : BitVec 8, c.toNat ≤ 224 → GoSrc.Properties_Code (GoSrc.PropertiesForCode c).1 = c) :=
  ⟨GoSrcP.PropertiesForCode_spec, GoSrcP.Properties_Code_spec, GoSrcP.Properties_Code_roundtrip⟩

/-- the encoder dictionary's accessors from the source (`encoderDict.ByteAt` / `Pos` / `Len`, `buffer.Available` / `Cap`)
    are those of the hand-written ring model (Model/Ring.lean) — the objects of the ring theorems and of the match-finder
    models; no index panic on a well-formed ring -/
theorem C02_source_encoder_dictionary (g : GoSrc.T_encoderDict) (m : Ring.EDict) (hb : GoSrcP.BufRel g.buf m.buf)
    (hh : g.head.toNat = m.head) (hhl : m.head < 2 ^ 62) (dist : BitVec 64) :
    GoSrc.encoderDict_ByteAt g dist = Go.Res.ok (BitVec.ofNat 8 (m.byteAt dist.toInt.toNat).toNat)
    ∧ (GoSrc.encoderDict_Pos g).toNat = m.head ∧ (GoSrc.encoderDict_Len g).toNat = m.len
    ∧ (GoSrc.buffer_Available g.buf).toNat = m.buf.available ∧ (GoSrc.buffer_Cap g.buf).toNat = m.buf.cap :=
  ⟨(GoSrcP.encoderDict_ByteAt_ring g m hb hh hhl dist).1, (GoSrcP.encoderDict_ByteAt_ring g m hb hh hhl dist).2.1,
   (GoSrcP.encoderDict_ByteAt_ring g m hb hh hhl dist).2.2, (GoSrcP.buffer_Available_ring g.buf m.buf hb).1,
   (GoSrcP.buffer_Available_ring g.buf m.buf hb).2⟩

/-- composition: the write operations from the source on an encoder dictionary given at ring level (its `ByteAt` / `Pos`
    from the source = the ring model's): context = position and bytes of the ring model `m` -/
theorem C02_source_write_operations_on_ring (fuel : Nat) (g : GoSrc.T_encoder) (m : Ring.EDict) (s : St) (tbl : Tbl) (p : Props)
    (e : Rc.Enc) (Lim : Nat)
    (sr : GoSrcP.StRel g.state s tbl p) (rel : GoSrcP.EncRel g.re e Lim) (rest : e.Rest)
    (hb : GoSrcP.BufRel g.dict.buf m.buf) (hh : g.dict.head.toNat = m.head) (hhl : m.head < 2 ^ 62)
    (hcl : e.cacheLen + 400 < 2 ^ 62) (hL : Lim < 2 ^ 63) (hfuel : e.cacheLen + 400 ≤ fuel) (l : GoSrc.T_lit) :
    match GoSrcP.encPathL Lim tbl e (opEnc (GoSrcP.ctxOf p s m.head (fun k => (m.byteAt k).toNat)) (.lit l.b.toNat)) with
    | none => ∃ g', GoSrc.encoder_writeLiteral fuel g l = Go.Res.ok (Go.Err.named "ErrLimit", g')
    | some (tbl', e') =>
      ∃ g', GoSrc.encoder_writeLiteral fuel g l = Go.Res.ok (Go.Err.nil, g')
        ∧ GoSrcP.StRel g'.state (s.apply (.lit l.b.toNat)) tbl' p ∧ GoSrcP.EncRel g'.re e' Lim ∧ e'.Rest ∧ g'.dict = g.dict :=
  (C02_source_write_operations fuel g s tbl p e Lim m.head (fun k => (m.byteAt k).toNat) sr rel rest
    (GoSrcP.encoderDict_ByteAt_ring g.dict m hb hh hhl 0#64).2.1 hhl
    (fun dist => (GoSrcP.encoderDict_ByteAt_ring g.dict m hb hh hhl dist).1)
    (fun k => (m.byteAt k).toNat_lt) hcl hL hfuel).1 l

/-- composition with the operation-level encoder of this framework (`encStep`, Codec/LzmaDec.lean — the object of
    `C02_strict_segment` and of the writer theorems): when position and `ByteAt` of the encoder dictionary are the history's and
    the byte limit is not hit, one `writeLiteral` / `writeMatch` call from the source computes exactly the pair
    `encPath tbl e (opEnc (mkCtx p s h) op)` and the state `s.apply op` that `encStep` computes for that operation -/
theorem C02_source_write_is_encStep (fuel : Nat) (g : GoSrc.T_encoder) (s : St) (tbl : Tbl) (p : Props) (e : Rc.Enc) (Lim : Nat)
    (h : Hist)
    (sr : GoSrcP.StRel g.state s tbl p) (rel : GoSrcP.EncRel g.re e Lim) (rest : e.Rest)
    (hpos : (GoSrc.encoderDict_Pos g.dict).toNat = h.pos) (hposlt : h.pos < 2 ^ 62)
    (hbat : ∀ dist : BitVec 64, GoSrc.encoderDict_ByteAt g.dict dist = Go.Res.ok (BitVec.ofNat 8 (h.byteAt dist.toInt.toNat)))
    (hbat256 : ∀ k, h.byteAt k < 256)
    (hcl : e.cacheLen + 400 < 2 ^ 62) (hL : Lim < 2 ^ 63) (hfuel : e.cacheLen + 400 ≤ fuel) :
    (∀ (l : GoSrc.T_lit) (tbl' : Tbl) (e' : Rc.Enc),
      GoSrcP.encPathL Lim tbl e (opEnc (mkCtx p s h) (.lit l.b.toNat)) = some (tbl', e') →
      encPath tbl e (opEnc (mkCtx p s h) (.lit l.b.toNat)) = (tbl', e') ∧
      ∃ g', GoSrc.encoder_writeLiteral fuel g l = Go.Res.ok (Go.Err.nil, g')
        ∧ GoSrcP.StRel g'.state (s.apply (.lit l.b.toNat)) tbl' p ∧ GoSrcP.EncRel g'.re e' Lim ∧ e'.Rest) ∧
    (∀ (m : GoSrc.T_match) (dist n : Nat) (tbl' : Tbl) (e' : Rc.Enc),
      m.distance = BitVec.ofNat 64 dist → m.n = BitVec.ofNat 64 n → 1 ≤ dist → dist ≤ 2 ^ 32 →
      ((2 ≤ n ∧ n ≤ 273) ∨ (dist - 1 = s.r0 ∧ n = 1)) →
      GoSrcP.encPathL Lim tbl e (opEnc (mkCtx p s h) (W2.classify s (.mtch dist n))) = some (tbl', e') →
      encPath tbl e (opEnc (mkCtx p s h) (W2.classify s (.mtch dist n))) = (tbl', e') ∧
      ∃ g', GoSrc.encoder_writeMatch fuel g m = Go.Res.ok (Go.Err.nil, g')
        ∧ GoSrcP.StRel g'.state (s.apply (W2.classify s (.mtch dist n))) tbl' p ∧ GoSrcP.EncRel g'.re e' Lim ∧ e'.Rest) := by
  have hw := C02_source_write_operations fuel g s tbl p e Lim h.pos h.byteAt sr rel rest hpos hposlt hbat hbat256 hcl hL hfuel
  have hctx : GoSrcP.ctxOf p s h.pos h.byteAt = mkCtx p s h := rfl
  rw [hctx] at hw
  constructor
  · intro l tbl' e' hp
    have h1 := hw.1 l
    rw [hp] at h1
    obtain ⟨g', hg, hs, hr, hrest, _⟩ := h1
    exact ⟨GoSrcP.encPathL_eq_encPath Lim tbl e _ tbl' e' hp, g', hg, hs, hr, hrest⟩
  · intro m dist n tbl' e' hd hn hd1 hd2 hnr hp
    have h1 := hw.2 m dist n hd hn hd1 hd2 hnr
    dsimp only at h1
    rw [hp] at h1
    obtain ⟨g', hg, hs, hr, hrest, _⟩ := h1
    exact ⟨GoSrcP.encPathL_eq_encPath Lim tbl e _ tbl' e' hp, g', hg, hs, hr, hrest⟩

/-- the checked path is the codec's path whenever the limit is not hit (`encPath` of Codec/LzmaDec.lean) -/
theorem C02_source_checked_path (L : Nat) (t : Tbl) (e : Rc.Enc) (π : Path) (t' : Tbl) (e' : Rc.Enc)
    (h : GoSrcP.encPathL L t e π = some (t', e')) : encPath t e π = (t', e') :=
  GoSrcP.encPathL_eq_encPath L t e π t' e' h

/-- premises satisfiable: the freshly built encoder with the chunk writer's limit meets every hypothesis -/
example : GoSrcP.EncRel (GoSrcP.encInit 65536#64) Rc.Enc.init 65536 ∧ Rc.Enc.init.Rest ∧ Rc.POk (1024#16).toNat ∧
    Rc.Enc.init.cacheLen < 2 ^ 62 := by
  refine ⟨GoSrcP.encInit_rel _, Rc.init_rest, ?_, ?_⟩
  · unfold Rc.POk; decide
  · decide

end Props.C02
