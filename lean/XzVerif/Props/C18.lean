import XzVerif.Spec.DictCap
import XzVerif.Model.DictCap
import XzVerif.Gen.Tables
import XzVerif.Proofs.DictCap
import XzVerif.Proofs.GoSrcXz
/-
  C18 — Declared LZMA2 dictionary size is the smallest representable one ≥ the capacity.

  Property theorems only.  `Gen.decodeDictCap` is the complete graph of the real
  `lzma.DecodeDictCap` on all 256 bytes, regenerated from /repo on every run; the encoder model
  `Model.encodeDictCap` mirrors the binary-search loop of `lzma.EncodeDictCap` and is tied to the
  real function by exhaustive evaluation of the whole domain 1 … 2^32−1 in the harness.
-/
namespace Props.C18

/-- The real decoder (its regenerated graph) is exactly the format's table: codes 0…40 are
    accepted with the format's sizes and every other byte value is rejected. -/
theorem decode_table_is_spec :
    Gen.decodeDictCap = (List.range 256).map Spec.dictSizeOfByte := by decide +kernel

/-- The hand-written decoder model agrees with the regenerated graph of the real function. -/
theorem decode_model_is_table :
    (List.range 256).map Model.decodeDictCap = Gen.decodeDictCap := by decide +kernel

/-- Decoding is strictly increasing on 0…40, from 4 KiB to 4 GiB − 1. -/
theorem decode_strict_mono : ∀ c, c < 40 → Spec.dictSize c < Spec.dictSize (c + 1) :=
  Proofs.DictCap.dictSize_strictMono

theorem decode_ends : Spec.dictSize 0 = 4096 ∧ Spec.dictSize 40 = 2 ^ 32 - 1 := by decide

/-- Encoding: for every capacity 1 ≤ n ≤ 2^32−1 the code chosen by the binary search is ≤ 40,
    decodes to a size ≥ n, and no smaller code does. -/
theorem C18_encode (n : Nat) (h1 : 1 ≤ n) (h2 : n ≤ 2 ^ 32 - 1) :
    let c := Model.encodeDictCap n
    c ≤ 40 ∧ n ≤ Spec.dictSize c ∧ ∀ c', c' ≤ 40 → n ≤ Spec.dictSize c' → c ≤ c' :=
  Proofs.DictCap.encode_least n h1 h2

/-- … hence (strict monotonicity) the decoded size is the smallest representable one ≥ n. -/
theorem C18_encode_smallest_size (n : Nat) (h1 : 1 ≤ n) (h2 : n ≤ 2 ^ 32 - 1) :
    ∀ c', c' ≤ 40 → n ≤ Spec.dictSize c' →
      Spec.dictSize (Model.encodeDictCap n) ≤ Spec.dictSize c' :=
  Proofs.DictCap.encode_smallest_size n h1 h2

/-- The boundary samples taken from the real `EncodeDictCap` agree with the model. -/
theorem encode_samples_agree :
    Gen.encodeDictCapSamples.all (fun (n, c) => Model.encodeDictCap n == c) = true := by decide +kernel

/-- non-vacuity: a capacity strictly between two representable sizes -/
example : Model.encodeDictCap 5000 = 1 ∧ Spec.dictSize 1 = 6144 ∧ Spec.dictSize 0 < 5000 := by decide

/-! ### From the SOURCE: the regenerated translation of lzma/header2.go (Gen/GoSrc.lean)

  `EncodeDictCap` / `DecodeDictCap` as written in Go — byte arithmetic for the codes, a signed 64-bit comparison of the
  capacity, the shift expression of `decodeDictCap` — re-translated on every run; so the statements of this property
  hold of what the source says, for EVERY capacity, not only of a hand model tied by a sweep. -/

/-- the whole property, for the source: for every capacity 1 ≤ n ≤ 2^32 − 1 `EncodeDictCap(n)` terminates (loop bound
    never reached), returns a code ≤ 40 whose size is ≥ n, and no smaller code has a size ≥ n -/
theorem C18_source_encode (n : Nat) (h1 : 1 ≤ n) (h2 : n ≤ 2 ^ 32 - 1) (fuel : Nat) (hf : 8 ≤ fuel) :
    ∃ c : BitVec 8, GoSrc.EncodeDictCap fuel (BitVec.ofNat 64 n) = Go.Res.ok c ∧
      c.toNat ≤ 40 ∧ n ≤ Spec.dictSize c.toNat ∧ ∀ c', c' ≤ 40 → n ≤ Spec.dictSize c' → c.toNat ≤ c' := by
  have hn : (BitVec.ofNat 64 n).toNat = n := by
    simp only [BitVec.toNat_ofNat]; omega
  have hs := GoSrcP.EncodeDictCap_spec (BitVec.ofNat 64 n) (by omega) fuel hf
  rw [hn] at hs
  obtain ⟨ha, hb, hc⟩ := Proofs.DictCap.encode_least n h1 h2
  refine ⟨_, hs, ?_⟩
  have hm : (BitVec.ofNat 8 (Model.encodeDictCap n)).toNat = Model.encodeDictCap n := by
    simp only [BitVec.toNat_ofNat]
    have : Model.encodeDictCap n ≤ 40 := ha
    omega
  rw [hm]
  exact ⟨ha, hb, hc⟩

/-- `DecodeDictCap` of the source accepts exactly the codes 0 … 40 with the format's sizes and rejects every other byte -/
theorem C18_source_decode (c : BitVec 8) :
    match Spec.dictSizeOfByte c.toNat with
    | some n => GoSrc.DecodeDictCap c = (BitVec.ofNat 64 n, Go.Err.nil)
    | none => ∃ e, GoSrc.DecodeDictCap c = (0#64, e) ∧ e ≠ Go.Err.nil := by
  have h := GoSrcP.DecodeDictCap_spec c
  have hm : Model.decodeDictCap c.toNat = Spec.dictSizeOfByte c.toNat := by
    have := congrArg (fun l => l.getD c.toNat none) (decode_model_is_table.trans decode_table_is_spec)
    have hc : c.toNat < 256 := c.isLt
    simpa [List.getD, hc] using this
  rw [hm] at h
  exact h

-- (that every function on the translation list was translated is required once, in Props/C02 and Props/C03; a function of
-- this property that fell out of the translator's subset would make the theorems above fail to elaborate)

end Props.C18
