import XzVerif.Proofs.Segment
import XzVerif.Proofs.Tables
/-
  C06 — Classic .lzma round trip is lossless and the explicit-size contract is enforced.

  Proved: the range-coded body of a classic stream round-trips for every list of applicable
  operations, every lc ≤ 8 / lp ≤ 4 / pb ≤ 4 (the theorem is parametric in `Props`), any
  dictionary capacity (`C06_body_roundtrip`); the properties byte of every one of the 225 valid
  configurations is encoded as the format says and decoded back (`C06_properties_byte`).
  Stream-level theorems (header fields, the three end modes incl. size 0) are in
  Proofs/Lzma1RoundTrip.lean when present.  The explicit-size contract of `lzma.Writer`
  (`Write` refusing surplus bytes, `Close` failing when short) is bookkeeping of the Go writer
  that is not modelled; it is decided by the size-contract oracle of the check.  `_partial`.
-/
namespace Props.C06
open Lzma Rc

theorem C06_body_roundtrip (p : Props) (s : St) (tbl : Tbl) (htbl : tbl.ok)
    (h : Hist) (ops : List RawOp) (hops : OpsOk s h ops) (hne : ops ≠ []) :
    let x := encodeOps p s tbl h ops
    let body := encClose x
    let n := x.h.out.size - h.out.size
    ∃ rd, Dec.init (bytesToList body 0 body.size) = some rd ∧
      let res := decSegment p (some n) h.out.size false (n + 2) { s := s, tbl := tbl, rd := rd, h := h }
      res.status = .eof ∧ res.d.h = x.h ∧ res.d.rd.inp = [] ∧ res.d.rd.code = 0 := by
  intro x body n
  obtain ⟨rd, h1, h2⟩ := segment_roundtrip p false s tbl htbl h ops hops hne
  exact ⟨rd, h1, h2.1, h2.2.2.1, h2.2.2.2.2.2.2.1, h2.2.2.2.2.2.2.2⟩

/-- all 225 property codes: the Go encoding (regenerated) is the format's and decodes back -/
theorem C06_properties_byte :
    Gen.propsCode.all (fun (lc, lp, pb, c) => Lzma2.byteOfProps ⟨lc, lp, pb⟩ == c) = true ∧
    Gen.propsCode.all (fun (lc, lp, pb, c) => Lzma2.propsOfByte c == some ⟨lc, lp, pb⟩) = true ∧
    Gen.propsCode.length = 225 := by
  refine ⟨Proofs.Tables.propsCode_table, ?_, ?_⟩ <;> decide +kernel

end Props.C06
