import XzVerif.Proofs.Segment
import XzVerif.Proofs.Tables
import XzVerif.Proofs.Lzma1RoundTrip
import XzVerif.Proofs.Writer1
import XzVerif.Proofs.Writer1I
import XzVerif.Proofs.LazyDec
import XzVerif.Proofs.Fuel
/-
  C06 — Classic .lzma round trip is lossless and the explicit-size contract is enforced.

  Proved: the range-coded body of a classic stream round-trips for every list of applicable
  operations, every lc ≤ 8 / lp ≤ 4 / pb ≤ 4 (the theorem is parametric in `Props`), any
  dictionary capacity (`C06_body_roundtrip`); the properties byte of every one of the 225 valid
  configurations is encoded as the format says and decoded back (`C06_properties_byte`).
  `C06_stream_roundtrip_*`: the whole classic stream of the model (13-byte header, body, optional
  end marker) is read back by the reader model to exactly the content, in the three end modes
  (end marker only; explicit size only, including size 0; both), for every lc ≤ 8, lp ≤ 4, pb ≤ 4,
  every dictionary size and every reader configuration, with every byte of the stream consumed.

  **The writer itself** (`Model/Writer1.lean`: `WriterConfig.fill`, the header, `Writer.Write`, `Writer.Close`, the
  encoder loop without byte limit, over an abstract match finder; tied to the real `lzma.Writer` on every run by
  replaying the real match finder's proposals: every call's (n, error) and the stream bytes must be predicted):
  * `C06_fill`: a positive size is always announced; no announced size implies an end marker;
  * `C06_size_contract_write`: for every valid configuration, every applicable match finder and every sequence of
    Write calls, each Write accepts exactly the bytes that still fit the announced size and reports ErrNoSpace
    exactly when it refused a surplus;
  * `C06_size_contract_close_and_roundtrip`: Close fails with errSize exactly when an announced size was not
    reached; otherwise the stream starts with the truthful header and the reader model decodes it to exactly the
    accepted bytes, clean end, every byte consumed, end marker present exactly as configured.
  Not proved (`partial`): that HashTable4 / BinaryTree satisfy `MatcherOk` (tied: every recorded proposal is
  replayed and judged); `bufio` buffering of the sink; behaviour after Close (not specified).
-/
namespace Props.C06
open Lzma Rc

theorem C06_body_roundtrip (p : Props) (s : St) (tbl : Tbl) (htbl : tbl.ok)
    (h : Hist) (ops : List RawOp) (hops : OpsOk s h ops) (hne : ops ≠ []) :
    let x := encodeOps p s tbl h ops
    let body := encClose x
    let n := x.h.out.size - h.out.size
    ∃ rd, Dec.init (bytesToList body 0 body.size) = some rd ∧
      let res := decSegment p (some n) h.out.size false (n + 2) { s := s, tbl := tbl, rd := rd, h := h }
      res.status = .eof ∧ res.d.h = x.h ∧ res.d.rd.inp = [] ∧ res.d.rd.code = 0 := by
  intro x body n
  obtain ⟨rd, h1, h2⟩ := segment_roundtrip p false s tbl htbl h ops hops hne
  exact ⟨rd, h1, h2.1, h2.2.2.1, h2.2.2.2.2.2.2.1, h2.2.2.2.2.2.2.2⟩

/-- all 225 property codes: the Go encoding (regenerated) is the format's and decodes back -/
theorem C06_properties_byte :
    Gen.propsCode.all (fun (lc, lp, pb, c) => Lzma2.byteOfProps ⟨lc, lp, pb⟩ == c) = true ∧
    Gen.propsCode.all (fun (lc, lp, pb, c) => Lzma2.propsOfByte c == some ⟨lc, lp, pb⟩) = true ∧
    Gen.propsCode.length = 225 := by
  refine ⟨Proofs.Tables.propsCode_table, ?_, ?_⟩ <;> decide +kernel

/-- end marker, unknown size -/
theorem C06_stream_roundtrip_marker (cfgCap : Nat) (hdr : Lzma1.Header) (ops : List RawOp)
    (hlc : hdr.props.lc ≤ 8) (hlp : hdr.props.lp ≤ 4) (hpb : hdr.props.pb ≤ 4) (hdc : hdr.dictCap < 2 ^ 32)
    (hsize : hdr.size = none) (hops : OpsOk {} (Lzma1.encHist hdr) ops) :
    Lzma1.read cfgCap (Lzma1.encode hdr ops.toArray true) =
      { out := (finalH {} (Lzma1.encHist hdr) ops).out, status := .eof, header := some hdr, marker := true,
        ops := (ops ++ [Lzma1.eosOp]).toArray, consumed := (Lzma1.encode hdr ops.toArray true).size } :=
  Lzma1.read_encode_unknown cfgCap hdr ops hlc hlp hpb hdc hsize hops

/-- explicit size (any, including 0 with `ops = []`), no end marker -/
theorem C06_stream_roundtrip_size (cfgCap : Nat) (hdr : Lzma1.Header) (ops : List RawOp)
    (hlc : hdr.props.lc ≤ 8) (hlp : hdr.props.lp ≤ 4) (hpb : hdr.props.pb ≤ 4) (hdc : hdr.dictCap < 2 ^ 32)
    (hops : OpsOk {} (Lzma1.encHist hdr) ops)
    (hsize : hdr.size = some (finalH {} (Lzma1.encHist hdr) ops).out.size)
    (h63 : (finalH {} (Lzma1.encHist hdr) ops).out.size < 2 ^ 63) :
    Lzma1.read cfgCap (Lzma1.encode hdr ops.toArray false) =
      { out := (finalH {} (Lzma1.encHist hdr) ops).out, status := .eof, header := some hdr, marker := false,
        ops := ops.toArray, consumed := (Lzma1.encode hdr ops.toArray false).size } :=
  Lzma1.read_encode_known cfgCap hdr ops hlc hlp hpb hdc hops hsize h63

/-- explicit size and end marker -/
theorem C06_stream_roundtrip_size_and_marker (cfgCap : Nat) (hdr : Lzma1.Header) (ops : List RawOp)
    (hlc : hdr.props.lc ≤ 8) (hlp : hdr.props.lp ≤ 4) (hpb : hdr.props.pb ≤ 4) (hdc : hdr.dictCap < 2 ^ 32)
    (hops : OpsOk {} (Lzma1.encHist hdr) ops)
    (hsize : hdr.size = some (finalH {} (Lzma1.encHist hdr) ops).out.size)
    (h63 : (finalH {} (Lzma1.encHist hdr) ops).out.size < 2 ^ 63) :
    Lzma1.read cfgCap (Lzma1.encode hdr ops.toArray true) =
      { out := (finalH {} (Lzma1.encHist hdr) ops).out, status := .eof, header := some hdr, marker := true,
        ops := (ops ++ [Lzma1.eosOp]).toArray, consumed := (Lzma1.encode hdr ops.toArray true).size } :=
  Lzma1.read_encode_known_marker cfgCap hdr ops hlc hlp hpb hdc hops hsize h63

/-- non-vacuity: the empty stream with explicit size 0 (the F5/F6 case) -/
theorem C06_fill (r : W1.RawCfg) :
    ((W1.fill r).size = none → (W1.fill r).marker = true) ∧
    (r.size > 0 → (W1.fill r).size = some r.size) ∧
    (r.sizeInHeader = true → (W1.fill r).size = some r.size) ∧
    (r.sizeInHeader = false → r.size = 0 → (W1.fill r).size = none ∧ (W1.fill r).marker = true) :=
  W1.fill_spec r

theorem C06_size_contract_write {σ : Type} (c : W1.Cfg) (hc : W1.CfgOk c) (M : W2.Matcher σ)
    (hM : W2.MatcherOk c.w2 M) (m0 : σ) (ps : List ByteArray) :
    (W1.run c M (W1.init c m0) (ps.map .write ++ [.close])).1.take ps.length = W1.specWrites c.size 0 ps :=
  W1.writes_spec c hc M hM m0 ps

theorem C06_size_contract_close_and_roundtrip {σ : Type} (c : W1.Cfg) (hc : W1.CfgOk c) (M : W2.Matcher σ)
    (hM : W2.MatcherOk c.w2 M) (m0 : σ) (ps : List ByteArray) (cfgCap : Nat) (hcap : cfgCap ≤ max c.dictCap 4096) :
    let res := W1.run c M (W1.init c m0) (ps.map .write ++ [.close])
    let data := W1.acceptedData c.size 0 ps
    ((match c.size with
      | some sz => data.size ≠ sz
      | none => False) →
      (res.1.drop ps.length = [(0, some .size)] ∧ res.2 = none))
    ∧
    ((match c.size with
      | some sz => data.size = sz
      | none => True) →
      res.1.drop ps.length = [(0, none)] ∧
      ∃ o, res.2 = some o ∧ o.extract 0 13 = Lzma1.headerBytes c.header ∧
        (Lzma1.read cfgCap o).status = .eof ∧ (Lzma1.read cfgCap o).out = data ∧
        (Lzma1.read cfgCap o).consumed = o.size ∧ (Lzma1.read cfgCap o).marker = c.marker ∧
        (Lzma1.read cfgCap o).openError = false) :=
  W1.close_spec c hc M hM m0 ps cfgCap hcap

/-- the hypotheses are satisfiable: explicit size 0 without end marker is a valid configuration -/
example : W1.CfgOk (W1.fill { props := ⟨3, 0, 2⟩, dictCap := 4096, bufSize := 4096, sizeInHeader := true, size := 0, eosMarker := false }) := by
  unfold W1.CfgOk W1.fill; decide

example : OpsOk {} (Lzma1.encHist { props := ⟨3, 0, 2⟩, dictCap := 4096, size := some 0 }) [] := OpsOk.nil _ _

/-! ### without a hypothesis about the match finder: the HashTable4 and BinaryTree models (Proofs/Writer1I.lean) -/

theorem C06_size_contract_write_hashtable4 (c : W1.Cfg) (hc : W1.CfgOk c) (ps : List ByteArray) :
    (W1.run c HT.HT4 (W1.init c (HT.St.new c.w2.dictCap c.w2.bufSize)) (ps.map .write ++ [.close])).1.take ps.length =
      W1.specWrites c.size 0 ps :=
  W1.writes_spec_I c hc HT.HT4 (HT.Synced c.w2) (HT.ht4_matcherInv c.w2) _ (HT.synced_new c.w2) ps

theorem C06_size_contract_write_bintree (c : W1.Cfg) (hc : W1.CfgOk c) (ps : List ByteArray) :
    (W1.run c BT.BT4 (W1.init c (BT.St.new c.w2.dictCap c.w2.bufSize)) (ps.map .write ++ [.close])).1.take ps.length =
      W1.specWrites c.size 0 ps :=
  W1.writes_spec_I c hc BT.BT4 (BT.Synced c.w2) (BT.bt4_matcherInv c.w2) _ (BT.synced_new c.w2) ps

/-- **The property itself for the classic writer model with the HashTable4 model**: every valid configuration (all 225
    property codes, any dictionary capacity / look-ahead, the three end modes), every partition into Write calls:
    Close fails with errSize exactly when an announced size was not reached; otherwise the stream starts with the truthful
    header and the classic reader model decodes it to exactly the accepted bytes with a clean end, every byte consumed,
    the end marker present exactly as configured. -/
theorem C06_close_and_roundtrip_hashtable4 (c : W1.Cfg) (hc : W1.CfgOk c) (ps : List ByteArray) (cfgCap : Nat)
    (hcap : cfgCap ≤ max c.dictCap 4096) :
    let res := W1.run c HT.HT4 (W1.init c (HT.St.new c.w2.dictCap c.w2.bufSize)) (ps.map .write ++ [.close])
    let data := W1.acceptedData c.size 0 ps
    ((match c.size with
      | some sz => data.size ≠ sz
      | none => False) →
      (res.1.drop ps.length = [(0, some .size)] ∧ res.2 = none))
    ∧
    ((match c.size with
      | some sz => data.size = sz
      | none => True) →
      res.1.drop ps.length = [(0, none)] ∧
      ∃ o, res.2 = some o ∧ o.extract 0 13 = Lzma1.headerBytes c.header ∧
        (Lzma1.read cfgCap o).status = .eof ∧ (Lzma1.read cfgCap o).out = data ∧
        (Lzma1.read cfgCap o).consumed = o.size ∧ (Lzma1.read cfgCap o).marker = c.marker ∧
        (Lzma1.read cfgCap o).openError = false) :=
  W1.close_spec_I c hc HT.HT4 (HT.Synced c.w2) (HT.ht4_matcherInv c.w2) _ (HT.synced_new c.w2) ps cfgCap hcap

theorem C06_close_and_roundtrip_bintree (c : W1.Cfg) (hc : W1.CfgOk c) (ps : List ByteArray) (cfgCap : Nat)
    (hcap : cfgCap ≤ max c.dictCap 4096) :
    let res := W1.run c BT.BT4 (W1.init c (BT.St.new c.w2.dictCap c.w2.bufSize)) (ps.map .write ++ [.close])
    let data := W1.acceptedData c.size 0 ps
    ((match c.size with
      | some sz => data.size ≠ sz
      | none => False) →
      (res.1.drop ps.length = [(0, some .size)] ∧ res.2 = none))
    ∧
    ((match c.size with
      | some sz => data.size = sz
      | none => True) →
      res.1.drop ps.length = [(0, none)] ∧
      ∃ o, res.2 = some o ∧ o.extract 0 13 = Lzma1.headerBytes c.header ∧
        (Lzma1.read cfgCap o).status = .eof ∧ (Lzma1.read cfgCap o).out = data ∧
        (Lzma1.read cfgCap o).consumed = o.size ∧ (Lzma1.read cfgCap o).marker = c.marker ∧
        (Lzma1.read cfgCap o).openError = false) :=
  W1.close_spec_I c hc BT.BT4 (BT.Synced c.w2) (BT.bt4_matcherInv c.w2) _ (BT.synced_new c.w2) ps cfgCap hcap

/-! ### write → read with both sides at the level the code runs: the classic writer model and the LAZY classic reader -/

open LazyDec in
theorem lazy1_of_batch (cfgCap : Nat) (stream content : ByteArray)
    (hst : (Lzma1.read (effCap cfgCap) stream).status = .eof) (hout : (Lzma1.read (effCap cfgCap) stream).out = content)
    (hopen : (Lzma1.read (effCap cfgCap) stream).openError = false) (lens : List Nat) (hsum : content.size < lens.sum) :
    ∃ l, newReader cfgCap stream = .ok l ∧ lastStat (readSeq l lens) = .eof ∧ delivered (readSeq l lens) = content := by
  have hiff := LazyDec.newReader_ok_iff cfgCap stream
  rw [hopen] at hiff
  cases hn : newReader cfgCap stream with
  | error e => rw [hn] at hiff; simp [Except.toOption] at hiff
  | ok l =>
    have heof := LazyDec.reaches_eof cfgCap stream l hn lens hst (by rw [hout]; exact hsum)
    have hf := Fuel.lzma1_read_fuel (effCap cfgCap) stream
    exact ⟨l, rfl, heof, by rw [(LazyDec.eof_complete cfgCap stream l hn lens hf heof).2, hout]⟩

open LazyDec in
/-- **The round trip with both sides as the code runs** (HashTable4 model): every valid classic configuration (all 225
    property codes, any dictionary / look-ahead, the three end modes), every partition into Write calls whose accepted
    bytes meet an announced size: the stream Close emits is opened by the lazy ring-level reader model — whatever reader
    capacity is configured — and delivered, under EVERY schedule of buffer lengths asking for more than the data, as
    exactly the accepted bytes followed by `io.EOF`. -/
theorem C06_roundtrip_lazy_reader_hashtable4 (c : W1.Cfg) (hc : W1.CfgOk c) (ps : List ByteArray) (cfgCap : Nat)
    (hsz : match c.size with
      | some sz => (W1.acceptedData c.size 0 ps).size = sz
      | none => True)
    (lens : List Nat) (hsum : (W1.acceptedData c.size 0 ps).size < lens.sum) :
    ∃ o, (W1.run c HT.HT4 (W1.init c (HT.St.new c.w2.dictCap c.w2.bufSize)) (ps.map .write ++ [.close])).2 = some o ∧
      ∃ l, newReader cfgCap o = .ok l ∧ lastStat (readSeq l lens) = .eof ∧
        delivered (readSeq l lens) = W1.acceptedData c.size 0 ps := by
  obtain ⟨_, o, ho, _, hst, hout, _, _, hopen⟩ :=
    (W1.closes_I c hc HT.HT4 (HT.Synced c.w2) (W2.matcherInv' (HT.ht4_matcherInv c.w2)) _ (HT.synced_new c.w2) ps
      (effCap cfgCap)).2 hsz
  exact ⟨o, ho, lazy1_of_batch cfgCap o _ hst hout hopen lens hsum⟩

end Props.C06
