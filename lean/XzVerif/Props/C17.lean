import XzVerif.Proofs.SizeBound
import XzVerif.Proofs.Writer2Size
import XzVerif.Proofs.HashTable
import XzVerif.Proofs.RunCost
import XzVerif.Proofs.RunCostBT
import XzVerif.Proofs.RunCost128
import XzVerif.Proofs.RunCost15
import XzVerif.Proofs.RunCostXz
/-
  C17 — Compression is effective on redundancy and never expands data noticeably.

  What is proved (for every input, no bound) concerns the third clause, "output exceeds the input
  by at most n/500 (+ allowance) because incompressible chunks are stored raw":

  * `C17_operation_cost`: one operation makes the range coder emit at most 20 bytes, whatever the
    adaptive probabilities (every adaptive decision shrinks the range by a factor ≤ 67, a direct
    bit by ≤ 2 + 2^-22; an operation asks at most 23 adaptive and 26 direct questions).
  * `C17_segment_fill`: a compressed chunk of `c` bytes therefore carries at least `(c − 5)/20`
    bytes of content — a chunk that was ended by the 64 KiB compressed-size limit carries ≥ 3000.
  * `C17_expansion_accounting`: if every chunk is stored in a form not larger than its raw form
    (+3, the writer's rule `u + 3 < c + hdr → raw`) and every chunk but the last carries ≥ 3000
    bytes, the LZMA2 stream is at most `n + n/500 + 128` bytes long.

  * `C17_lzma2_no_expansion` — **the third clause itself for the LZMA2 writer model** (Model/Writer2.lean, tied
    to the real Writer2 by the functional correspondence of C08): for every valid configuration with a dictionary
    of at least 64 KiB, every applicable match finder and every history of Writes followed by Close (no Flush),
    the emitted stream is at most `n + n/500 + 128` bytes for `n` bytes written.  The two premises of the
    accounting theorem are now *proved* about the writer model: every chunk is stored in a form not larger than
    its raw form (`3 + u`), and every chunk but the last was ended by the compressed-size or the 2 MiB limit and
    therefore carries ≥ 3000 bytes (the real bound obtained is `n + n/1000 + 4`).
  The check still measures both premises on every chunk of every real output, together with the size oracle of
  all three clauses over the three input families, dictionary/look-ahead sizes, lc/lp/pb and both match finders
  (xz adds a constant container overhead per block that is measured, not proved).  The first two clauses (runs, X‖X) depend on what the
  match finders find; no theorem is claimed for them — they are decided by the size oracle only.
  Hence `_partial`.
-/
namespace Props.C17
open Lzma Rc

/-- one operation costs at most 20 bytes of range-coder output -/
theorem C17_operation_cost (c : Ctx) (op : RawOp) (hwf : op.wf) (tbl : Tbl) (e : Enc)
    (htbl : tbl.ok) (he : e.Rest) :
    (e.encodeAll (toDecns pm tbl (opEnc c op))).digits ≤ e.digits + 20 :=
  op_digits_bound c op hwf tbl e htbl he

/-- a segment of `c` compressed bytes holds at least `(c − 5) / 20` bytes of content -/
theorem C17_segment_fill (p : Props) (s : St) (tbl : Tbl) (htbl : tbl.ok) (h : Hist) (ops : List RawOp)
    (hok : OpsOk s h ops) :
    ((encClose (encodeOps p s tbl h ops)).size - 5) / 20 ≤ (finalH s h ops).out.size - h.out.size :=
  segment_out_ge p s tbl htbl h ops hok

/-- a chunk that filled the compressed-size budget (≥ 65 515 bytes when the encoder stops
    admitting operations 16 + 5 bytes before 65 536) carries at least 3000 bytes of content -/
theorem C17_full_chunk_carries_3000 (p : Props) (s : St) (tbl : Tbl) (htbl : tbl.ok) (h : Hist)
    (ops : List RawOp) (hok : OpsOk s h ops) (hfull : 65515 ≤ (encClose (encodeOps p s tbl h ops)).size) :
    3000 ≤ (finalH s h ops).out.size - h.out.size := by
  have := segment_out_ge p s tbl htbl h ops hok
  omega

/-- expansion accounting over a chunk list `(u, c, raw)` -/
theorem C17_expansion_accounting (l : List Expansion.Chunk) (h : ∀ ch ∈ l, ch.rule)
    (hbig : ∀ ch ∈ l.dropLast, 3000 ≤ ch.u) :
    Expansion.sumSz l + 1 ≤ Expansion.sumU l + Expansion.sumU l / 500 + 128 :=
  Expansion.sumSz_small l h hbig

/-- the third clause for the LZMA2 writer model: no noticeable expansion without intermediate Flush -/
theorem C17_lzma2_no_expansion {σ : Type} (c : W2.Cfg) (hc : W2.CfgOk c) (hdict : 65536 ≤ c.dictCap)
    (M : W2.Matcher σ) (hM : W2.MatcherOk c M) (m0 : σ) (ps : List ByteArray)
    (hok : W2.allOk (W2.run c M (W2.init c m0) (ps.map .write ++ [.close])).2) :
    let w := (W2.run c M (W2.init c m0) (ps.map .write ++ [.close])).1
    let n := (W2.payload (ps.map .write)).size
    w.out.size ≤ n + n / 500 + 128 :=
  W2.no_flush_size_bound c hc hdict M hM m0 ps hok

/-- … and without any hypothesis for the HashTable4 model of the default match finder -/
theorem C17_lzma2_no_expansion_hashtable4 (c : W2.Cfg) (hc : W2.CfgOk c) (hdict : 65536 ≤ c.dictCap)
    (ps : List ByteArray) :
    let w := (W2.run c HT.HT4 (W2.init c (HT.St.new c.dictCap c.bufSize)) (ps.map .write ++ [.close])).1
    let n := (W2.payload (ps.map .write)).size
    w.out.size ≤ n + n / 500 + 128 :=
  W2.no_flush_size_bound_I c hc hdict HT.HT4 (HT.Synced c) (HT.ht4_matcherInv c) _ (HT.synced_new c) ps
    (W2.no_error_of_margin_I (by decide) c hc HT.HT4 (HT.Synced c) (HT.ht4_matcherInv c) _ (HT.synced_new c)
      (ps.map .write) (by intro call hc'; simp only [List.mem_map] at hc'; obtain ⟨p, _, rfl⟩ := hc'; simp) .close)

/-- … and for the BinaryTree model -/
theorem C17_lzma2_no_expansion_bintree (c : W2.Cfg) (hc : W2.CfgOk c) (hdict : 65536 ≤ c.dictCap)
    (ps : List ByteArray) :
    let w := (W2.run c BT.BT4 (W2.init c (BT.St.new c.dictCap c.bufSize)) (ps.map .write ++ [.close])).1
    let n := (W2.payload (ps.map .write)).size
    w.out.size ≤ n + n / 500 + 128 :=
  W2.no_flush_size_bound_I c hc hdict BT.BT4 (BT.Synced c) (BT.bt4_matcherInv c) _ (BT.synced_new c) ps
    (W2.no_error_of_margin_I (by decide) c hc BT.BT4 (BT.Synced c) (BT.bt4_matcherInv c) _ (BT.synced_new c)
      (ps.map .write) (by intro call hc'; simp only [List.mem_map] at hc'; obtain ⟨p, _, rfl⟩ := hc'; simp) .close)

example : Expansion.sumSz [(65000, 65536, true), (100, 40, false)] = 65003 + 46 := by decide

/-! ### clause 1 — "a run of n equal bytes compresses to at most n/500 bytes" — as a theorem (partial in the constant)

  For the LZMA2 writer model with the HashTable4 model (both tied to the real code), one Write of a run followed by
  Close: what the match finder proposes inside a run is PROVED (distance 1 over the whole look-ahead, except where the
  match source would cross the physical end of the ring array — `buffer.matchLen` does not wrap there, a compression
  inefficiency of the real code that the proof attempt exposed: once per ring revolution a shorter match at another
  distance is proposed), and the cost of the resulting operations is bounded by an amortised potential over the adaptive
  probabilities (a 2048-entry weight table checked by kernel evaluation; 44 steady-state contexts adapt for at most 137
  bytes in total, an expected symbol costs the factor 2048·8192/(2017·8191), any other decision at most 7 bits).
  **Proved: `≤ n/500 + 251` for every n, every byte value, every valid configuration with a dictionary ≥ 64 KiB.**
  The property allows 128 bytes per stream: the constant 251 (137 adaptation + 102 for four irregular operations charged
  crudely + 12 framing) is what keeps THIS theorem `_partial` (the second development below reaches 112 / 128); the real writer stays below n/500 + 30 (measured by the size
  oracle on every run).  A match-finder-generic version (`RunSpec`: what a finder must propose in a run) gives 213 for HashTable4 and 229 for
  **BinaryTree** (which settles on distance 3), and the xz container adds at most 100.  Dictionaries below 64 KiB (more
  frequent ring wraps) and clause 2 (X‖X) are measured only. -/

open W2 in
theorem C17_run_proposal_inside_the_ring (c : Cfg) (hc : CfgOk c) (b : UInt8) (m : HT.St) (hist look : ByteArray) (s : Lzma.St)
    (hI : HT.Synced c m hist look) (hr0 : s.r0 = 0) (hh : 1 ≤ hist.size) (hl : 1 ≤ look.size)
    (hsp : look.size + min hist.size c.dictCap ≤ c.dictCap + c.bufSize)
    (hlast : hist.get! (hist.size - 1) = b) (hall : ∀ i, i < look.size → look.get! i = b)
    (hphys : hist.size % (c.dictCap + c.bufSize + 1) = 0 ∨
      hist.size % (c.dictCap + c.bufSize + 1) + min 273 look.size ≤ c.dictCap + c.bufSize + 2) :
    (HT.HT4.next m hist look s).1 = .mtch 1 (min 273 look.size) :=
  RunCost.run_proposal' c hc b m hist look s hI hr0 hh hl hsp hlast hall hphys

open W2 in
theorem C17_run_proposal_at_the_ring_end (c : Cfg) (hc : CfgOk c) (b : UInt8) (m : HT.St) (hist look : ByteArray) (s : Lzma.St)
    (hI : HT.Synced c m hist look) (hh : 1 ≤ hist.size) (hl : 1 ≤ look.size)
    (hsp : look.size + min hist.size c.dictCap ≤ c.dictCap + c.bufSize)
    (hlast : hist.get! (hist.size - 1) = b) (hall : ∀ i, i < look.size → look.get! i = b)
    (hphys : 1 ≤ hist.size % (c.dictCap + c.bufSize + 1) ∧
      c.dictCap + c.bufSize + 2 < hist.size % (c.dictCap + c.bufSize + 1) + min 273 look.size) :
    ∃ dist n, (HT.HT4.next m hist look s).1 = .mtch dist n ∧
      c.dictCap + c.bufSize + 2 - hist.size % (c.dictCap + c.bufSize + 1) ≤ n :=
  RunCost.run_proposal_wrap c hc b m hist look s hI hh hl hsp hlast hall hphys

open W2 in
/-- full statement aimed at: `≤ n / 500 + 128` (the property's allowance per stream) for every valid configuration;
    proved: -/
theorem C17_run_compresses_partial (c : Cfg) (hc : CfgOk c) (hd : 65536 ≤ c.dictCap) (b : UInt8) (n : Nat) :
    (RunCost.lzma2OfRun c b n).size ≤ n / 500 + 251 :=
  RunCost.run_compresses_partial c hc hd b n

open W2 in
/-- the same with the sharper constant of the match-finder-generic development (irregular operations counted in bits) -/
theorem C17_run_compresses_partial_213 (c : Cfg) (hc : CfgOk c) (hd : 65536 ≤ c.dictCap) (b : UInt8) (n : Nat) :
    (RunCost.lzma2OfRun c b n).size ≤ n / 500 + 213 :=
  RunCost.run_compresses_partial_213 c hc hd b n

open W2 in
/-- **BinaryTree**: inside a run it settles on distance 3 (it tries 3, 2, 1 first), which then is rep0; same method -/
theorem C17_run_compresses_partial_bintree (c : Cfg) (hc : CfgOk c) (hd : 65536 ≤ c.dictCap) (b : UInt8) (n : Nat) :
    (RunCost.lzma2OfRunBT c b n).size ≤ n / 500 + 229 :=
  RunCost.run_compresses_partial_bt_229 c hc hd b n

/-- the whole xz writer model (one block, HashTable4): container overhead ≤ 100 bytes on top (the property allows
    128 + 64 = 192 in all; proved: 351) -/
theorem C17_xz_run_compresses_partial (c : XzW.Cfg) (hc : XzW.CfgOk c) (hd : 65536 ≤ c.w2.dictCap) (b : UInt8) (n : Nat)
    (hblk : n ≤ c.blockSize) (hn : n < 2 ^ 40) :
    (XzW.run c HT.HT4 (HT.St.new c.w2.dictCap c.w2.bufSize) [RunCost.runOf b n]).size ≤ n / 500 + 251 + 100 :=
  RunCost.xz_run_compresses_partial c hc hd b n hblk hn

/-! #### clause 1 at the property's own allowance (128 bytes per stream)

  A second potential charges the 32 position-state contexts one bit per use instead of pre-paying their adaptation (initial
  potential 299 bits instead of 1094); the per-chunk overhead and the ring wraps are paid from the slope n/500.  This
  gives `n/500 + 112` for HashTable4 and `n/500 + 128` for BinaryTree — **clause 1 as stated, for the LZMA2 writer model
  with either match finder, every n, every byte value, every valid configuration with a dictionary ≥ 64 KiB**.  For the
  xz writer model (one block) the container adds 63 bytes plus the check: inside 128 + 64 for no check, CRC32 and CRC64;
  with the constant 97 of the third development (irregular operations charged by kind) also for SHA-256.  With the first potential the dictionary bound goes down to 32 KiB (constants 213 / 229); below that the
  cost of the once-per-revolution ring-end operations would have to be bounded by their real cost (measured: ≈ 2.5 bytes;
  charged: 57), which is what keeps dictionaries < 32 KiB `measured only`. -/

open W2 in
theorem C17_run_compresses_hashtable4 (c : Cfg) (hc : CfgOk c) (hd : 65536 ≤ c.dictCap) (b : UInt8) (n : Nat) :
    (RunCost.lzma2OfRun c b n).size ≤ n / 500 + 128 :=
  RunCost.run_compresses_128 c hc hd b n

open W2 in
theorem C17_run_compresses_hashtable4_112 (c : Cfg) (hc : CfgOk c) (hd : 65536 ≤ c.dictCap) (b : UInt8) (n : Nat) :
    (RunCost.lzma2OfRun c b n).size ≤ n / 500 + 112 :=
  RunCost.run_compresses_112 c hc hd b n

open W2 in
theorem C17_run_compresses_bintree (c : Cfg) (hc : CfgOk c) (hd : 65536 ≤ c.dictCap) (b : UInt8) (n : Nat) :
    (RunCost.lzma2OfRunBT c b n).size ≤ n / 500 + 128 :=
  RunCost.run_compresses_128_bt c hc hd b n

/-- the xz writer model, one block, HashTable4: inside the allowance 128 + 64 unless the check is SHA-256 -/
theorem C17_xz_run_compresses (c : XzW.Cfg) (hc : XzW.CfgOk c) (hd : 65536 ≤ c.w2.dictCap) (b : UInt8) (n : Nat)
    (hblk : n ≤ c.blockSize) (hn : n < 2 ^ 40) (hck : (Xz.checkSize c.flags).getD 0 ≤ 17) :
    (XzW.run c HT.HT4 (HT.St.new c.w2.dictCap c.w2.bufSize) [RunCost.runOf b n]).size ≤ n / 500 + 128 + 64 :=
  RunCost.xz_run_compresses_192 c hc hd b n hblk hn hck

theorem C17_xz_run_compresses_any_check_partial (c : XzW.Cfg) (hc : XzW.CfgOk c) (hd : 65536 ≤ c.w2.dictCap) (b : UInt8) (n : Nat)
    (hblk : n ≤ c.blockSize) (hn : n < 2 ^ 40) :
    (XzW.run c HT.HT4 (HT.St.new c.w2.dictCap c.w2.bufSize) [RunCost.runOf b n]).size ≤
      n / 500 + 112 + 63 + (Xz.checkSize c.flags).getD 0 :=
  RunCost.xz_run_compresses_check c hc hd b n hblk hn

open W2 in
/-- dictionaries from 32 KiB on (first potential, larger constants) -/
theorem C17_run_compresses_partial_32k (c : Cfg) (hc : CfgOk c) (hd : 32768 ≤ c.dictCap) (b : UInt8) (n : Nat) :
    (RunCost.lzma2OfRun c b n).size ≤ n / 500 + 213 :=
  RunCost.run_compresses_213_d15 c hc hd b n

open W2 in
theorem C17_run_compresses_partial_32k_bintree (c : Cfg) (hc : CfgOk c) (hd : 32768 ≤ c.dictCap) (b : UInt8) (n : Nat) :
    (RunCost.lzma2OfRunBT c b n).size ≤ n / 500 + 229 :=
  RunCost.run_compresses_229_bt_d15 c hc hd b n

open W2 in
/-- per-kind charging of the irregular operations (literal 9 decisions, rep0 14, others ≤ 18): **97 for HashTable4**, which
    is tight for this method at n = 0, and 117 for BinaryTree -/
theorem C17_run_compresses_hashtable4_97 (c : Cfg) (hc : CfgOk c) (hd : 65536 ≤ c.dictCap) (b : UInt8) (n : Nat) :
    (RunCost.lzma2OfRun c b n).size ≤ n / 500 + 97 :=
  RunCost.run_compresses_97 c hc hd b n

open W2 in
theorem C17_run_compresses_bintree_117 (c : Cfg) (hc : CfgOk c) (hd : 65536 ≤ c.dictCap) (b : UInt8) (n : Nat) :
    (RunCost.lzma2OfRunBT c b n).size ≤ n / 500 + 117 :=
  RunCost.run_compresses_117_bt c hc hd b n

/-- **clause 1 for the xz writer model (one block, HashTable4) with ANY check, SHA-256 included: inside 128 + 64** -/
theorem C17_xz_run_compresses_any_check (c : XzW.Cfg) (hc : XzW.CfgOk c) (hd : 65536 ≤ c.w2.dictCap) (b : UInt8) (n : Nat)
    (hblk : n ≤ c.blockSize) (hn : n < 2 ^ 40) :
    (XzW.run c HT.HT4 (HT.St.new c.w2.dictCap c.w2.bufSize) [RunCost.runOf b n]).size ≤ n / 500 + 128 + 64 :=
  RunCost.xz_run_compresses_full c hc hd b n hblk hn

/-- the xz writer model with BinaryTree, one block: inside 128 + 64 for no check, CRC32 and CRC64 (117 + 63 + check) -/
theorem C17_xz_run_compresses_bintree (c : XzW.Cfg) (hc : XzW.CfgOk c) (hd : 65536 ≤ c.w2.dictCap) (b : UInt8) (n : Nat)
    (hblk : n ≤ c.blockSize) (hn : n < 2 ^ 40) (hck : (Xz.checkSize c.flags).getD 0 ≤ 12) :
    (XzW.run c BT.BT4 (BT.St.new c.w2.dictCap c.w2.bufSize) [RunCost.runOf b n]).size ≤ n / 500 + 128 + 64 :=
  RunCost.xz_run_compresses_192_bt c hc hd b n hblk hn hck

/-- the hypotheses are satisfiable: CRC64 (flags 4) has an 8-byte check -/
example : (Xz.checkSize 4).getD 0 ≤ 17 := by decide

/-- non-vacuity of the ring-end case: the counterexample to "always distance 1" (dictCap 1000, bufSize 273, 1273 bytes
    of history, a full look-ahead: the proposal is distance 19, length 20) is evaluated in Proofs/RunCost.lean (`#guard`). -/
example : W2.CfgOk { props := ⟨3, 0, 2⟩, dictCap := 65536, bufSize := 4096 } := by
  unfold W2.CfgOk Lzma2.PropsOk; decide

end Props.C17
