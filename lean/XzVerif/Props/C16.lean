import XzVerif.Proofs.Chunk
import XzVerif.Proofs.GoSrcChunk
import XzVerif.Proofs.LazyReject
import XzVerif.Proofs.Lzma2RoundTrip
/-
  C16 — LZMA2 chunk discipline: the reader accepts exactly the legal chunk sequences; the writer
  only emits legal ones.

  Property theorems only.  `Gen.chunkNext`, `Gen.headerChunkType`, `Gen.defaultChunkType` are the
  complete graphs of the real `chunkState.next`, `headerChunkType`, `defaultChunkType`,
  regenerated from /repo on every run; `Spec.seqStep` / `Spec.ctrl` are the format's rules.
  (Decoding accepted sequences to the right bytes and the three size limits are tied by the
  correspondence check over realised streams, see DESIGN.md §C16.)
-/
namespace Props.C16
open Spec Model

/-- Control bytes: the real classifier equals the format's on all 256 values; in particular
    0x03 … 0x7F are invalid. -/
theorem C16_ctrl_byte :
    Gen.headerChunkType = (List.range 256).map (fun b => (Spec.ctrl b).map ctypeOf) := by
  decide +kernel

theorem C16_ctrl_invalid : ∀ b, 3 ≤ b → b < 0x80 → Spec.ctrl b = none := by
  intro b h1 h2; unfold Spec.ctrl
  have : ¬ b = 0 := by omega
  have : ¬ b = 1 := by omega
  have : ¬ b = 2 := by omega
  simp [*]

/-- The reader's state machine accepts a sequence of chunk headers iff the format allows it,
    for sequences of every length. -/
theorem C16_reader_iff_legal (ks : List ChunkKind) :
    readerAccepts ks = Spec.legal ks := by
  unfold readerAccepts Spec.legal
  exact (Proofs.Chunk.run_refines ks Gen.lzma_stateStart (by decide) SeqState.init (by decide)).1

/-- … and an illegal sequence is rejected exactly at the offending chunk. -/
theorem C16_reject_position (ks : List ChunkKind) :
    readerFirstReject Gen.lzma_stateStart ks 0 = Spec.firstIllegal .init ks 0 :=
  (Proofs.Chunk.run_refines ks Gen.lzma_stateStart (by decide) SeqState.init (by decide)).2 0

/-- Writer side: whatever mixture of compressed and raw chunks `flushChunk` produces, every
    `cstate.next` succeeds, no end marker is produced before `Close`, and the emitted sequence
    followed by the final end marker is legal for the format. -/
theorem C16_writer_legal (choices : List Bool) :
    ∃ cs sf, writerRun Gen.lzma_stateStart choices = some (cs, sf) ∧
      ∃ ks, cs.mapM kindOfCtype = some ks ∧ Spec.legal (ks ++ [.eos]) = true := by
  suffices h : ∀ s ∈ Proofs.Chunk.live, ∃ cs sf, writerRun s choices = some (cs, sf) ∧
      sf ∈ Proofs.Chunk.live ∧
      ∃ ks, cs.mapM kindOfCtype = some ks ∧ readerRun s ks = some sf by
    obtain ⟨cs, sf, h1, h2, ks, h3, h4⟩ := h Gen.lzma_stateStart (by decide)
    refine ⟨cs, sf, h1, ks, h3, ?_⟩
    rw [← C16_reader_iff_legal]
    unfold readerAccepts
    have hend : ∀ s ∈ Proofs.Chunk.live, (chunkNext s (ctypeOf .eos)).isSome = true := by decide
    have happ : ∀ (ks : List ChunkKind) s sf, readerRun s ks = some sf →
        readerRun s (ks ++ [.eos]) = readerRun sf [.eos] := by
      intro ks; induction ks with
      | nil => intro s sf h; simp [readerRun] at h; subst h; rfl
      | cons k ks ih =>
        intro s sf h
        simp only [readerRun, List.cons_append] at h ⊢
        cases hn : chunkNext s (ctypeOf k) with
        | none => rw [hn] at h; simp at h
        | some s' => rw [hn] at h; simp only at h ⊢; exact ih s' sf h
    rw [happ ks _ sf h4]
    have := hend sf h2
    simp only [readerRun]
    cases hn : chunkNext sf (ctypeOf .eos) with
    | none => rw [hn] at this; simp at this
    | some _ => rfl
  induction choices with
  | nil => intro s hs; exact ⟨[], s, rfl, hs, [], rfl, rfl⟩
  | cons raw rs ih =>
    intro s hs
    obtain ⟨s', h1, h2, h3, _⟩ := Proofs.Chunk.writer_step s hs raw
    obtain ⟨cs, sf, h4, h5, ks, h6, h7⟩ := ih s' h2
    cases hk : kindOfCtype (if raw then demote (defaultChunkType s) else defaultChunkType s) with
    | none => rw [hk] at h3; simp at h3
    | some k =>
      refine ⟨(if raw then demote (defaultChunkType s) else defaultChunkType s) :: cs, sf, ?_, h5,
        k :: ks, ?_, ?_⟩
      · simp only [writerRun, h1, h4]
      · simp [List.mapM_cons, hk, h6]
      · have hck : ctypeOf k = (if raw then demote (defaultChunkType s) else defaultChunkType s) := by
          have := List.find?_some hk
          simpa using this
        simp only [readerRun, hck, h1, h7]

/-- non-vacuity: a legal sequence that uses a mid-stream dictionary reset, and two illegal ones -/
example : Spec.legal [.lrnd, .u, .l, .ud, .lrn, .lr, .eos] = true := by decide
example : Spec.legal [.l, .eos] = false ∧ Spec.legal [.ud, .l] = false ∧
    Spec.legal [.lrnd, .eos, .u] = false := by decide
example : writerRun Gen.lzma_stateStart [true, false, true, false] =
    some ([Gen.lzma_cUD, Gen.lzma_cLRN, Gen.lzma_cU, Gen.lzma_cL], 76) := by decide

/-! ### at the level the code runs: the lazy LZMA2 reader (Model/LazyDec2.lean, tied per call to the real Reader2)

  The automaton theorems above are about chunk KINDS.  With the refinement of the lazy ring-level reader model to the
  batch reader they become statements about what the reader delivers: -/

open LazyDec LazyDec2 Lzma2 in
/-- every accepted (legal, well-formed) sequence is decoded to the right bytes, under every schedule of buffer lengths -/
theorem C16_lazy_reader_decodes_every_legal_sequence (cfgCap : Nat) (hcap : 4096 ≤ effCap cfgCap) (cs : Array Chunk)
    (hok : ChunksOk false (e0 (effCap cfgCap)) .init cs.toList) (lens : List Nat)
    (hsum : ((cs.foldl emitChunk (e0 (effCap cfgCap))).h.out).size < lens.sum) :
    LazyDec.lastStat (LazyDec2.readSeq (newReader2 cfgCap (emit (effCap cfgCap) (cs.push { kind := .eos, usize := 0 }))) lens) = .eof ∧
    delivered (LazyDec2.readSeq (newReader2 cfgCap (emit (effCap cfgCap) (cs.push { kind := .eos, usize := 0 }))) lens) =
      (cs.foldl emitChunk (e0 (effCap cfgCap))).h.out := by
  obtain ⟨r, h1, _, h3, _⟩ := decode_emit false (effCap cfgCap) cs hok
  have hb : LazyDec2.batch cfgCap (emit (effCap cfgCap) (cs.push { kind := .eos, usize := 0 })) = (r, .eof) := h1
  have hclean : (LazyDec2.batch cfgCap (emit (effCap cfgCap) (cs.push { kind := .eos, usize := 0 }))).2 = .eof := by rw [hb]
  have hout : (LazyDec2.batch cfgCap (emit (effCap cfgCap) (cs.push { kind := .eos, usize := 0 }))).1.h.out =
      (cs.foldl emitChunk (e0 (effCap cfgCap))).h.out := by rw [hb]; exact h3
  have heof := LazyDec2.reaches_eof cfgCap hcap _ lens hclean (by rw [hout]; exact hsum)
  have hf : (LazyDec2.batch cfgCap (emit (effCap cfgCap) (cs.push { kind := .eos, usize := 0 }))).2 ≠ .err "fuel exhausted" := by
    rw [hclean]; intro h; cases h
  exact ⟨heof, by rw [(LazyDec2.eof_complete cfgCap hcap _ lens hf heof).2, hout]⟩

open LazyDec LazyDec2 Lzma2 Spec in
/-- **an illegal sequence is rejected at the offending chunk**: after a well-formed list `pre` (not ended), a chunk whose
    kind the format does not allow there — whatever it contains (up to the 2 MiB a header can announce) and whatever
    follows — makes every schedule end with an error (not unexpected-EOF, never `io.EOF`), after delivering exactly the
    content of `pre`: all of it, and no byte of the offending chunk or of anything behind it. -/
theorem C16_lazy_reader_rejects_at_offending_chunk (cfgCap : Nat) (hcap : 4096 ≤ effCap cfgCap)
    (pre : Array Chunk) (bad : Chunk) (rest : Array Chunk)
    (hok : ChunksOk false (e0 (effCap cfgCap)) .init pre.toList)
    (hne : LazyReject.seqAfter pre.toList ≠ .ended)
    (hbad : seqStep (LazyReject.seqAfter pre.toList) bad.kind = none)
    (hsz : lzUsize (pre.foldl emitChunk (e0 (effCap cfgCap))) bad ≤ 2 ^ 21)
    (lens : List Nat) (hsum : ((pre.foldl emitChunk (e0 (effCap cfgCap))).h.out).size < lens.sum) :
    (∃ e, LazyDec.lastStat (LazyDec2.readSeq (newReader2 cfgCap (emit (effCap cfgCap) (pre ++ #[bad] ++ rest))) lens) = .err e ∧
      e ≠ .unexpectedEOF) ∧
    delivered (LazyDec2.readSeq (newReader2 cfgCap (emit (effCap cfgCap) (pre ++ #[bad] ++ rest))) lens) =
      (pre.foldl emitChunk (e0 (effCap cfgCap))).h.out :=
  LazyReject.lazy_rejects_at_offending_chunk cfgCap hcap pre bad rest hok hne hbad hsz lens hsum

/-! ### From the SOURCE: lzma/header2.go translated on every run (Gen/GoSrc.lean)

  The chunk automaton and the control-byte table of this property are regenerated twice from /repo: as GRAPHS, by calling
  the real functions (Gen/Tables.lean — what the theorems above are about), and as TRANSLATED SOURCE; the two must agree. -/

theorem C16_source_chunk_automaton :
    (Gen.chunkNext.all (fun r =>
      let res := GoSrc.chunkState_next (BitVec.ofNat 8 r.1) (BitVec.ofNat 8 r.2.1)
      match r.2.2 with
      | some s' => res == (Go.Err.nil, BitVec.ofNat 8 s')
      | none => res.1 != Go.Err.nil && res.2 == BitVec.ofNat 8 r.1) = true) ∧
    (Gen.defaultChunkType.all (fun r => (GoSrc.chunkState_defaultChunkType (BitVec.ofNat 8 r.1)).toNat == r.2) = true) ∧
    ((List.range 256).map (fun b =>
      match GoSrc.headerChunkType (BitVec.ofNat 8 b) with
      | (c, Go.Err.nil) => some c.toNat
      | _ => none) = Gen.headerChunkType) ∧
    ((List.range 8).map (fun c =>
      match GoSrc.headerLen (BitVec.ofNat 8 c) with
      | Go.Res.ok n => some n.toNat
      | _ => none) = Gen.headerLen) :=
  ⟨GoSrcP.chunkState_next_graph, GoSrcP.defaultChunkType_graph, GoSrcP.headerChunkType_graph, GoSrcP.headerLen_graph⟩

/-- `chunkHeader.UnmarshalBinary` from the source: a chunk header of exactly the right length yields the 16-bit big-endian
    sizes, bits 16…20 of the uncompressed size from the control byte (hence at most 2 MiB / 64 KiB once the reader adds 1),
    and the properties byte of LRN / LRND chunks; wrong lengths and control bytes 0x03…0x7F are errors; no panic -/
theorem C16_source_chunk_header_fields (h : GoSrc.T_chunkHeader) (data : Array (BitVec 8)) (hne : data.size ≠ 0)
    (hsz : data.size < 2 ^ 62) :
    let b0 := (data.getD 0 0#8).toNat
    let u16 (i : Nat) : Nat := (data.getD i 0#8).toNat * 256 + (data.getD (i + 1) 0#8).toNat
    match Gen.headerChunkType.getD b0 none with
    | none => GoSrc.chunkHeader_UnmarshalBinary h data = Go.Res.ok (Go.Err.named "errHeaderByte", h)
    | some c =>
      let n := (Gen.headerLen.getD c none).getD 0
      if data.size < n then GoSrc.chunkHeader_UnmarshalBinary h data = Go.Res.ok (Go.Err.new "incomplete data", h)
      else if n < data.size then GoSrc.chunkHeader_UnmarshalBinary h data = Go.Res.ok (Go.Err.new "invalid data length", h)
      else ∃ err h', GoSrc.chunkHeader_UnmarshalBinary h data = Go.Res.ok (err, h') ∧
        h'.ctype.toNat = c ∧
        h'.uncompressed.toNat = (if c = Gen.lzma_cEOS then 0 else u16 1 + (if c > Gen.lzma_cU then (b0 % 32) * 65536 else 0)) ∧
        h'.compressed.toNat = (if c > Gen.lzma_cU then u16 3 else 0) ∧
        (c > Gen.lzma_cLR → (h'.props, err) = GoSrc.PropertiesForCode (data.getD 5 0#8)) ∧
        (c ≤ Gen.lzma_cLR → err = Go.Err.nil) :=
  GoSrcP.chunkHeader_Unmarshal_spec h data hne hsz

-- (that every function on the translation list was translated is required once, in Props/C02 and Props/C03; a function of
-- this property that fell out of the translator's subset would make the theorems above fail to elaborate)

end Props.C16
