import XzVerif.Model.Gxz
/-
  C10 — gxz never loses data: the input is removed only after the complete output is in place.

  `Gxz.run` models `processFile` (cmd/gxz/file.go, after fixes F9/F10/F12) as a straight-line
  program over an abstract file system (input, target, temporary file), with one faulting system
  call and a kill point as parameters.  The theorems quantify over every configuration
  (-k, -f, bad input, underivable target name), every initial state of target and temporary path,
  every faulting step and every kill point (`decide` over the complete finite space).

  Modelled, not verified: POSIX atomicity of the individual calls (in particular `rename`), the Go
  runtime's use of them, "at most one primary fault with working clean-up".  The tie to the real
  binary is the correspondence check: gxz is run under `strace` with fault injection at every
  file-system call and SIGKILL before every such call; the resulting directory and exit status
  must be what `Gxz.run` predicts, and `DataSafe` is evaluated on the real directory.  `_partial`.
-/
namespace Props.C10
open Gxz

def cfgs : List Cfg :=
  [true, false].flatMap fun d => [true, false].flatMap fun k => [true, false].flatMap fun f =>
    [true, false].flatMap fun b => [true, false].map fun n => ⟨d, k, f, b, n⟩

def inits : List FS :=
  FState.all.flatMap fun t => FState.all.map fun m => ⟨.orig, t, m⟩

def opts : List (Option Step) := none :: Step.all.map some

/-- At every instant (kill before any step) and after every run, whatever fails, the user's data
    exists in at least one complete form. -/
theorem C10_data_safe :
    cfgs.all (fun c => inits.all (fun fs => opts.all (fun fault => opts.all (fun crash =>
      decide (DataSafe (run c fs fault crash).fs))))) = true := by decide +kernel

/-- A run that fails (exit 1, not killed) leaves the input untouched and no partial file under
    the target name (the target is what it was, or the complete output). -/
theorem C10_failure_clean :
    cfgs.all (fun c => inits.all (fun fs => opts.all (fun fault =>
      let r := run c fs fault none
      r.exit = 0 || (r.fs.inp == .orig && (r.fs.tgt == fs.tgt || r.fs.tgt == .complete)
        && (fs.tgt == .part || r.fs.tgt != .part))))) = true := by decide +kernel

/-- Unless the process is killed, no temporary file of this run remains. -/
theorem C10_no_debris :
    cfgs.all (fun c => inits.all (fun fs => opts.all (fun fault =>
      (run c fs fault none).fs.tmp == fs.tmp || (run c fs fault none).fs.tmp == .absent))) = true := by
  decide +kernel

/-- Success means: complete output in place; input kept with -k and removed otherwise. -/
theorem C10_success :
    cfgs.all (fun c => inits.all (fun fs => opts.all (fun fault =>
      let r := run c fs fault none
      r.exit != 0 || (r.fs.tgt == .complete && r.fs.tmp == .absent &&
        (r.fs.inp == (if c.keep then FState.orig else FState.absent))))) ) = true := by decide +kernel

/-- The input is removed only in a run in which the rename has happened. -/
theorem C10_remove_after_rename :
    cfgs.all (fun c => inits.all (fun fs => opts.all (fun fault => opts.all (fun crash =>
      let r := run c fs fault crash
      r.fs.inp == .orig || r.fs.tgt == .complete)))) = true := by decide +kernel

example : run ⟨false, false, false, false, false⟩ ⟨.orig, .absent, .absent⟩ none none = ⟨⟨.absent, .complete, .absent⟩, 0⟩ := by decide
example : run ⟨false, false, true, false, false⟩ ⟨.orig, .other, .absent⟩ (some .rename) none = ⟨⟨.orig, .other, .absent⟩, 1⟩ := by decide
example : (run ⟨false, false, false, false, false⟩ ⟨.orig, .absent, .absent⟩ none (some .closeInp)).fs = ⟨.orig, .complete, .absent⟩ := by decide

end Props.C10
