import XzVerif.Model.ReadLoop
import XzVerif.Proofs.ReadLoops
/-
  C13 — Decoded output is independent of read sizes and source fragmentation; EOF is stable.

  Full statement aimed at: for every valid stream, every sequence of Read buffer lengths and every
  fragmentation of the source, the real reader's results are `readSeq content sizes`.  What is
  proved here is (1) the caller-visible contract `ReadLoop.readSeq` for every content and every
  schedule (no bound), and (2) that the *mechanisms* refine it: the loop of `lzma.decoder.Read`
  over a dictionary that is refilled by `decompress` in arbitrary batches (`C13_decoder_loop_*`,
  including the zero-length case that was defect F11), and the chaining loops of `Reader2.Read`
  (chunk readers), `streamReader.Read` (blocks) and `Reader.Read` (streams) over parts that each
  satisfy the contract (`C13_chain_*`) — whatever the batch sizes and part boundaries.  That the
  Go code is these loops, under every source fragmentation, is established by the correspondence
  check (per-call (n, status) sequences).  `_partial`: ring-buffer indexing and the source side
  (`io.ReadFull` over fragmented sources) are not modelled.
-/
namespace Props.C13
open ReadLoop

variable {α : Type}

theorem readCall_nil (n : Nat) : (readCall ([] : List α) n).1 = [] ∧ (readCall ([] : List α) n).2.2 = [] := by
  unfold readCall
  by_cases h0 : n = 0
  · simp [h0]
  · have : 0 < n := by omega
    simp [h0, this]

/-- end-of-stream is stable: on an exhausted reader every read returns zero bytes -/
theorem C13_eof_stable (sizes : List Nat) :
    ∀ r ∈ readSeq ([] : List α) sizes, r.1 = [] := by
  induction sizes with
  | nil => simp [readSeq]
  | cons n ns ih =>
    intro r hr
    simp only [readSeq, List.mem_cons] at hr
    rcases hr with rfl | hr
    · exact (readCall_nil n).1
    · rw [(readCall_nil (α := α) n).2] at hr
      exact ih r hr

theorem delivered_nil (sizes : List Nat) : delivered (readSeq ([] : List α) sizes) = [] := by
  unfold delivered
  apply List.flatten_eq_nil_iff.mpr
  intro l hl
  simp only [List.mem_map] at hl
  obtain ⟨r, hr, rfl⟩ := hl
  exact C13_eof_stable sizes r hr

/-- the bytes delivered so far plus what is left are always the content -/
theorem C13_delivered_prefix (content : List α) (sizes : List Nat) :
    ∃ rest, delivered (readSeq content sizes) ++ rest = content := by
  induction sizes generalizing content with
  | nil => exact ⟨content, by simp [readSeq, delivered]⟩
  | cons n ns ih =>
    by_cases h0 : n = 0
    · obtain ⟨rest, hr⟩ := ih content
      refine ⟨rest, ?_⟩
      simp only [readSeq, readCall, h0, if_true, delivered, List.map_cons, List.flatten_cons, List.nil_append]
      simpa [delivered] using hr
    · by_cases hl : content.length < n
      · refine ⟨[], ?_⟩
        have hnil := delivered_nil (α := α) ns
        simp only [delivered] at hnil
        simp [readSeq, readCall, h0, hl, delivered, hnil]
      · obtain ⟨rest, hr⟩ := ih (content.drop n)
        refine ⟨rest, ?_⟩
        simp only [delivered] at hr
        simp only [readSeq, readCall, h0, hl, if_false, delivered, List.map_cons, List.flatten_cons]
        rw [List.append_assoc, hr, List.take_append_drop]

/-- once end-of-stream has been reported, nothing is left -/
theorem C13_eof_means_all (content : List α) (n : Nat) :
    (readCall content n).2.1 = true → (readCall content n).1 = content ∧ (readCall content n).2.2 = [] := by
  unfold readCall
  by_cases h0 : n = 0
  · simp [h0]
  · by_cases hl : content.length < n <;> simp [h0, hl]

theorem C13_eof_again (n : Nat) (h : 0 < n) : readCall ([] : List α) n = ([], true, []) := by
  unfold readCall
  have : ¬ n = 0 := by omega
  simp [this, h]

/-- never more bytes than requested -/
theorem C13_n_le_len (content : List α) (n : Nat) : (readCall content n).1.length ≤ n := by
  unfold readCall
  by_cases h0 : n = 0
  · simp [h0]
  · by_cases hl : content.length < n
    · simp [h0, hl]; omega
    · simp [h0, hl]; omega

/-- schedule independence: if the schedule asks for at least one byte more than the content
    holds, everything is delivered, whatever the individual sizes (including 0 and 1) -/
theorem C13_schedule_independent (content : List α) (sizes : List Nat)
    (h : content.length < sizes.sum) : delivered (readSeq content sizes) = content := by
  induction sizes generalizing content with
  | nil => simp at h
  | cons n ns ih =>
    by_cases h0 : n = 0
    · have := ih content (by simpa [h0] using h)
      simp only [readSeq, readCall, h0, if_true, delivered, List.map_cons, List.flatten_cons, List.nil_append]
      simpa [delivered] using this
    · by_cases hl : content.length < n
      · have hnil := delivered_nil (α := α) ns
        simp only [delivered] at hnil
        simp [readSeq, readCall, h0, hl, delivered, hnil]
      · have hlen : (content.drop n).length < ns.sum := by
          simp only [List.length_drop]; simp only [List.sum_cons] at h; omega
        have := ih (content.drop n) hlen
        simp only [delivered] at this
        simp only [readSeq, readCall, h0, hl, if_false, delivered, List.map_cons, List.flatten_cons]
        rw [this, List.take_append_drop]

/-- the length view printed by the driver agrees with the content view -/
theorem C13_lens_agree (content : List α) (sizes : List Nat) :
    (readSeq content sizes).map (fun r => (r.1.length, r.2)) = readSeqLens content.length sizes := by
  induction sizes generalizing content with
  | nil => rfl
  | cons n ns ih =>
    simp only [readSeq, readSeqLens, List.map_cons]
    unfold readCall
    by_cases h0 : n = 0
    · simp [h0, ih]
    · by_cases hl : content.length < n
      · simp only [h0, hl, if_true, if_false]
        have := ih ([] : List α)
        simp at this
        simp [this]
      · simp only [h0, hl, if_false]
        have := ih (content.drop n)
        simp only [List.length_drop] at this
        have hmin : min n content.length = n := by omega
        simp [this, hmin]

/-- `lzma.decoder.Read`: whatever batches `decompress` produces, a call delivers exactly what the
    contract says, reports EOF exactly when the content is shorter than the request, keeps the
    rest, and preserves the decoder invariant -/
theorem C13_decoder_loop_refines (d : ReadLoops.Dec α) (n : Nat) (hinv : d.eos = true → d.pending = []) :
    let r := d.read n
    r.1 = (readCall d.content n).1 ∧ r.2.1 = (readCall d.content n).2.1 ∧
    r.2.2.content = (readCall d.content n).2.2 ∧ (r.2.2.eos = true → r.2.2.pending = []) :=
  ReadLoops.Dec.read_refines d n hinv

/-- a zero-length read never reports end-of-stream (the repaired F11) -/
theorem C13_decoder_zero_length (d : ReadLoops.Dec α) : d.read 0 = ([], false, d) :=
  ReadLoops.Dec.read_zero d

/-- whole schedules through the decoder loop equal the contract -/
theorem C13_decoder_loop_schedule (sizes : List Nat) (d : ReadLoops.Dec α) (hinv : d.eos = true → d.pending = []) :
    ReadLoops.Dec.readSeq d sizes = readSeq d.content sizes :=
  ReadLoops.Dec.readSeq_refines sizes d hinv

/-- chaining loops (chunks, blocks, streams): independent of where the part boundaries lie -/
theorem C13_chain_refines (parts : List (List α)) (n : Nat) :
    let r := ReadLoops.chainReadCall parts n
    r.1 = (readCall parts.flatten n).1 ∧ r.2.1 = (readCall parts.flatten n).2.1 ∧
    r.2.2.flatten = (readCall parts.flatten n).2.2 :=
  ReadLoops.chainReadCall_refines parts n

theorem C13_chain_schedule (sizes : List Nat) (parts : List (List α)) :
    ReadLoops.chainReadSeq parts sizes = readSeq parts.flatten sizes :=
  ReadLoops.chainReadSeq_refines sizes parts

/-- non-vacuity: a schedule with zero- and one-byte reads over a 5-byte content -/
example : readSeq [1, 2, 3, 4, 5] [0, 1, 0, 3, 4, 2, 0] =
    [([], false), ([1], false), ([], false), ([2, 3, 4], false), ([5], true), ([], true), ([], false)] := by
  decide

end Props.C13
