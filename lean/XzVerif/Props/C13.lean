import XzVerif.Model.ReadLoop
import XzVerif.Proofs.ReadLoops
import XzVerif.Proofs.LazyDec
import XzVerif.Proofs.Fuel
import XzVerif.Proofs.LazyDec2
import XzVerif.Proofs.LazyXz
import XzVerif.Proofs.EofStable
import XzVerif.Proofs.Src
import XzVerif.Proofs.SrcLink
import XzVerif.Proofs.SrcProg
import XzVerif.Gen.SrcReads
/-
  C13 — Decoded output is independent of read sizes and source fragmentation; EOF is stable.

  Full statement aimed at: for every valid stream, every sequence of Read buffer lengths and every
  fragmentation of the source, the real reader's results are `readSeq content sizes`.  What is
  proved here is (1) the caller-visible contract `ReadLoop.readSeq` for every content and every
  schedule (no bound), and (2) that the *mechanisms* refine it: the loop of `lzma.decoder.Read`
  over a dictionary that is refilled by `decompress` in arbitrary batches (`C13_decoder_loop_*`,
  including the zero-length case that was defect F11), and the chaining loops of `Reader2.Read`
  (chunk readers), `streamReader.Read` (blocks) and `Reader.Read` (streams) over parts that each
  satisfy the contract (`C13_chain_*`) — whatever the batch sizes and part boundaries.  That the
  Go code is these loops, under every source fragmentation, is established by the correspondence
  check (per-call (n, status) sequences).  `_partial`: the source side (`io.ReadFull` over fragmented sources) is not modelled.

  **The classic reader at ring level.**  `Model/LazyDec.lean` is lzma/decoder.go + lzma/reader.go as the code runs:
  `decompress` refills the decoder dictionary's RING only while a maximal match fits (`Available() ≥ 273`), `Read`
  drains the ring into the caller's buffer, the coding contexts are read off the ring; every error and panic branch of
  the Go code is an outcome.  It agrees call by call (count, nil / EOF / which error, bytes) with the real `lzma.Reader`
  on valid, truncated, bit-flipped, wrong-size and extended streams under read-length schedules (every run).  Proved
  (`Proofs/LazyDec*.lean`, 1 300 lines) for EVERY input — valid or not — and EVERY schedule of buffer lengths:
  * `C13_lazy_delivered_prefix`, `C13_lazy_eof_complete`: whatever the buffer lengths, the bytes delivered are a prefix
    of what the batch reader decodes, and a schedule that reaches `io.EOF` has delivered exactly that — the decoded
    output does not depend on the read sizes;
  * `C13_lazy_call_sizes`: never more than requested; a call returning nil filled its buffer;
  * `C13_lazy_reaches_eof`: a schedule asking for more than the content of a cleanly ending stream ends with `io.EOF`;
  * `C13_lazy_errors_agree`: a schedule that ends with an error ends with the batch reader's error class;
  * `C13_lazy_never_no_space` (also C11 / C03): the ring never lacks space for an operation, no length is out of
    range, the copy loop's panic is unreachable.
  **The LZMA2 reader at the same level** (`Model/LazyDec2.lean`: `startChunk` with the regenerated chunk automaton, ONE
  ring shared by compressed and uncompressed chunks, `Reset()` clearing only the head counter, the uncompressed reader
  copying in pieces of `Available()`, a lazy decoder per chunk limited to the declared compressed bytes, the stored
  error) refines the batch LZMA2 reader for every input and schedule: `C13_lazy2_*` (`Proofs/LazyDec2*.lean`,
  `RingD.lean`: the ring relation after a dictionary reset; 1 800 lines).  **The xz reader** (`Model/LazyXz.lean`:
  `Reader.Read` with the multi-stream / padding / SingleStream logic, `streamReader.Read`, `blockReader.Read` with its size
  checks on every call, padding and check verification, index records, `readTail`) refines the batch xz reader in the
  same sense: `C13_lazyxz_*` (`Proofs/LazyXz*.lean`, `LazyDec2Pos.lean`, 1 900 lines).  Errors agree only as "error vs
  clean end": the proof exposed two corners in which the BATCH model names a different error than the Go reader (it
  counts bytes decoded but never delivered, and the position before a half-read chunk header); both inputs are kept as
  evaluated `#guard`s next to the theorem, the lazy model agrees with Go on them.
-/
namespace Props.C13
open ReadLoop

variable {α : Type}

theorem readCall_nil (n : Nat) : (readCall ([] : List α) n).1 = [] ∧ (readCall ([] : List α) n).2.2 = [] := by
  unfold readCall
  by_cases h0 : n = 0
  · simp [h0]
  · have : 0 < n := by omega
    simp [h0, this]

/-- end-of-stream is stable: on an exhausted reader every read returns zero bytes -/
theorem C13_eof_stable (sizes : List Nat) :
    ∀ r ∈ readSeq ([] : List α) sizes, r.1 = [] := by
  induction sizes with
  | nil => simp [readSeq]
  | cons n ns ih =>
    intro r hr
    simp only [readSeq, List.mem_cons] at hr
    rcases hr with rfl | hr
    · exact (readCall_nil n).1
    · rw [(readCall_nil (α := α) n).2] at hr
      exact ih r hr

theorem delivered_nil (sizes : List Nat) : delivered (readSeq ([] : List α) sizes) = [] := by
  unfold delivered
  apply List.flatten_eq_nil_iff.mpr
  intro l hl
  simp only [List.mem_map] at hl
  obtain ⟨r, hr, rfl⟩ := hl
  exact C13_eof_stable sizes r hr

/-- the bytes delivered so far plus what is left are always the content -/
theorem C13_delivered_prefix (content : List α) (sizes : List Nat) :
    ∃ rest, delivered (readSeq content sizes) ++ rest = content := by
  induction sizes generalizing content with
  | nil => exact ⟨content, by simp [readSeq, delivered]⟩
  | cons n ns ih =>
    by_cases h0 : n = 0
    · obtain ⟨rest, hr⟩ := ih content
      refine ⟨rest, ?_⟩
      simp only [readSeq, readCall, h0, if_true, delivered, List.map_cons, List.flatten_cons, List.nil_append]
      simpa [delivered] using hr
    · by_cases hl : content.length < n
      · refine ⟨[], ?_⟩
        have hnil := delivered_nil (α := α) ns
        simp only [delivered] at hnil
        simp [readSeq, readCall, h0, hl, delivered, hnil]
      · obtain ⟨rest, hr⟩ := ih (content.drop n)
        refine ⟨rest, ?_⟩
        simp only [delivered] at hr
        simp only [readSeq, readCall, h0, hl, if_false, delivered, List.map_cons, List.flatten_cons]
        rw [List.append_assoc, hr, List.take_append_drop]

/-- once end-of-stream has been reported, nothing is left -/
theorem C13_eof_means_all (content : List α) (n : Nat) :
    (readCall content n).2.1 = true → (readCall content n).1 = content ∧ (readCall content n).2.2 = [] := by
  unfold readCall
  by_cases h0 : n = 0
  · simp [h0]
  · by_cases hl : content.length < n <;> simp [h0, hl]

theorem C13_eof_again (n : Nat) (h : 0 < n) : readCall ([] : List α) n = ([], true, []) := by
  unfold readCall
  have : ¬ n = 0 := by omega
  simp [this, h]

/-- never more bytes than requested -/
theorem C13_n_le_len (content : List α) (n : Nat) : (readCall content n).1.length ≤ n := by
  unfold readCall
  by_cases h0 : n = 0
  · simp [h0]
  · by_cases hl : content.length < n
    · simp [h0, hl] <;> omega
    · simp [h0, hl] <;> omega

/-- schedule independence: if the schedule asks for at least one byte more than the content
    holds, everything is delivered, whatever the individual sizes (including 0 and 1) -/
theorem C13_schedule_independent (content : List α) (sizes : List Nat)
    (h : content.length < sizes.sum) : delivered (readSeq content sizes) = content := by
  induction sizes generalizing content with
  | nil => simp at h
  | cons n ns ih =>
    by_cases h0 : n = 0
    · have := ih content (by simpa [h0] using h)
      simp only [readSeq, readCall, h0, if_true, delivered, List.map_cons, List.flatten_cons, List.nil_append]
      simpa [delivered] using this
    · by_cases hl : content.length < n
      · have hnil := delivered_nil (α := α) ns
        simp only [delivered] at hnil
        simp [readSeq, readCall, h0, hl, delivered, hnil]
      · have hlen : (content.drop n).length < ns.sum := by
          simp only [List.length_drop]; simp only [List.sum_cons] at h; omega
        have := ih (content.drop n) hlen
        simp only [delivered] at this
        simp only [readSeq, readCall, h0, hl, if_false, delivered, List.map_cons, List.flatten_cons]
        rw [this, List.take_append_drop]

/-- the length view printed by the driver agrees with the content view -/
theorem C13_lens_agree (content : List α) (sizes : List Nat) :
    (readSeq content sizes).map (fun r => (r.1.length, r.2)) = readSeqLens content.length sizes := by
  induction sizes generalizing content with
  | nil => rfl
  | cons n ns ih =>
    simp only [readSeq, readSeqLens, List.map_cons]
    unfold readCall
    by_cases h0 : n = 0
    · simp [h0, ih]
    · by_cases hl : content.length < n
      · simp only [h0, hl, if_true, if_false]
        have := ih ([] : List α)
        simp at this
        simp [this]
      · simp only [h0, hl, if_false]
        have := ih (content.drop n)
        simp only [List.length_drop] at this
        have hmin : min n content.length = n := by omega
        simp [this, hmin]

/-- `lzma.decoder.Read`: whatever batches `decompress` produces, a call delivers exactly what the
    contract says, reports EOF exactly when the content is shorter than the request, keeps the
    rest, and preserves the decoder invariant -/
theorem C13_decoder_loop_refines (d : ReadLoops.Dec α) (n : Nat) (hinv : d.eos = true → d.pending = []) :
    let r := d.read n
    r.1 = (readCall d.content n).1 ∧ r.2.1 = (readCall d.content n).2.1 ∧
    r.2.2.content = (readCall d.content n).2.2 ∧ (r.2.2.eos = true → r.2.2.pending = []) :=
  ReadLoops.Dec.read_refines d n hinv

/-- a zero-length read never reports end-of-stream (the repaired F11) -/
theorem C13_decoder_zero_length (d : ReadLoops.Dec α) : d.read 0 = ([], false, d) :=
  ReadLoops.Dec.read_zero d

/-- whole schedules through the decoder loop equal the contract -/
theorem C13_decoder_loop_schedule (sizes : List Nat) (d : ReadLoops.Dec α) (hinv : d.eos = true → d.pending = []) :
    ReadLoops.Dec.readSeq d sizes = readSeq d.content sizes :=
  ReadLoops.Dec.readSeq_refines sizes d hinv

/-- chaining loops (chunks, blocks, streams): independent of where the part boundaries lie -/
theorem C13_chain_refines (parts : List (List α)) (n : Nat) :
    let r := ReadLoops.chainReadCall parts n
    r.1 = (readCall parts.flatten n).1 ∧ r.2.1 = (readCall parts.flatten n).2.1 ∧
    r.2.2.flatten = (readCall parts.flatten n).2.2 :=
  ReadLoops.chainReadCall_refines parts n

theorem C13_chain_schedule (sizes : List Nat) (parts : List (List α)) :
    ReadLoops.chainReadSeq parts sizes = readSeq parts.flatten sizes :=
  ReadLoops.chainReadSeq_refines sizes parts

/-- non-vacuity: a schedule with zero- and one-byte reads over a 5-byte content -/
example : readSeq [1, 2, 3, 4, 5] [0, 1, 0, 3, 4, 2, 0] =
    [([], false), ([1], false), ([], false), ([2, 3, 4], false), ([5], true), ([], true), ([], false)] := by
  decide

/-! ### the lazy, ring-level classic reader refines the batch reader (Model/LazyDec.lean) -/

open LazyDec in
theorem C13_lazy_delivered_prefix (cfgCap : Nat) (inp : ByteArray) (l : LSt) (h : newReader cfgCap inp = .ok l)
    (lens : List Nat) (hfuel : (Lzma1.read (effCap cfgCap) inp).status ≠ .err "fuel exhausted") :
    let out := (Lzma1.read (effCap cfgCap) inp).out
    (delivered (readSeq l lens)).size ≤ out.size ∧
    delivered (readSeq l lens) = out.extract 0 (delivered (readSeq l lens)).size :=
  LazyDec.delivered_prefix cfgCap inp l h lens hfuel

open LazyDec in
theorem C13_lazy_eof_complete (cfgCap : Nat) (inp : ByteArray) (l : LSt) (h : newReader cfgCap inp = .ok l)
    (lens : List Nat) (hfuel : (Lzma1.read (effCap cfgCap) inp).status ≠ .err "fuel exhausted")
    (he : lastStat (readSeq l lens) = .eof) :
    (Lzma1.read (effCap cfgCap) inp).status = .eof ∧
    delivered (readSeq l lens) = (Lzma1.read (effCap cfgCap) inp).out :=
  LazyDec.eof_complete cfgCap inp l h lens hfuel he

open LazyDec in
/-- two schedules that both reach the end deliver the same bytes: independence of the read sizes -/
theorem C13_lazy_schedule_independent (cfgCap : Nat) (inp : ByteArray) (l : LSt) (h : newReader cfgCap inp = .ok l)
    (lens1 lens2 : List Nat) (hfuel : (Lzma1.read (effCap cfgCap) inp).status ≠ .err "fuel exhausted")
    (h1 : lastStat (readSeq l lens1) = .eof) (h2 : lastStat (readSeq l lens2) = .eof) :
    delivered (readSeq l lens1) = delivered (readSeq l lens2) := by
  rw [(LazyDec.eof_complete cfgCap inp l h lens1 hfuel h1).2, (LazyDec.eof_complete cfgCap inp l h lens2 hfuel h2).2]

open LazyDec in
theorem C13_lazy_call_sizes (cfgCap : Nat) (inp : ByteArray) (l : LSt) (h : newReader cfgCap inp = .ok l) (lens : List Nat) :
    (readSeq l lens).length ≤ lens.length ∧
    ∀ i (hi : i < (readSeq l lens).length),
      ((readSeq l lens)[i]).1.size ≤ lens[i]! ∧
      (((readSeq l lens)[i]).2 = .ok → ((readSeq l lens)[i]).1.size = lens[i]!) :=
  LazyDec.call_sizes cfgCap inp l h lens

open LazyDec in
theorem C13_lazy_reaches_eof (cfgCap : Nat) (inp : ByteArray) (l : LSt) (h : newReader cfgCap inp = .ok l) (lens : List Nat)
    (hclean : (Lzma1.read (effCap cfgCap) inp).status = .eof)
    (hsum : (Lzma1.read (effCap cfgCap) inp).out.size < lens.sum) :
    lastStat (readSeq l lens) = .eof :=
  LazyDec.reaches_eof cfgCap inp l h lens hclean hsum

open LazyDec in
theorem C13_lazy_errors_agree (cfgCap : Nat) (inp : ByteArray) (l : LSt) (h : newReader cfgCap inp = .ok l) (lens : List Nat)
    (hfuel : (Lzma1.read (effCap cfgCap) inp).status ≠ .err "fuel exhausted")
    (e : Err) (he : lastStat (readSeq l lens) = .err e) :
    (Lzma1.read (effCap cfgCap) inp).status.cls = (statusOf e).cls :=
  LazyDec.err_agrees cfgCap inp l h lens hfuel e he

open LazyDec in
theorem C13_lazy_never_no_space (cfgCap : Nat) (inp : ByteArray) (l : LSt) (h : newReader cfgCap inp = .ok l) (lens : List Nat) :
    ∀ r ∈ readSeq l lens, r.2 ≠ .err .noSpace ∧ r.2 ≠ .err .lenRange ∧ r.2 ≠ .err .panic :=
  LazyDec.never_noSpace cfgCap inp l h lens

/-! the same without the fuel hypothesis: the recursion bound of the batch model is never reached (Proofs/Fuel.lean) -/

open LazyDec in
/-- **Independence of the read sizes, unconditionally**: for EVERY input, any two schedules of buffer lengths that both
    run into `io.EOF` deliver the same bytes — the batch reader's output, which ends cleanly. -/
theorem C13_lazy_schedule_independent_uncond (cfgCap : Nat) (inp : ByteArray) (l : LSt) (h : newReader cfgCap inp = .ok l)
    (lens1 lens2 : List Nat)
    (h1 : lastStat (readSeq l lens1) = .eof) (h2 : lastStat (readSeq l lens2) = .eof) :
    delivered (readSeq l lens1) = delivered (readSeq l lens2) ∧
    delivered (readSeq l lens1) = (Lzma1.read (effCap cfgCap) inp).out ∧
    (Lzma1.read (effCap cfgCap) inp).status = .eof := by
  have hf := Fuel.lzma1_read_fuel (effCap cfgCap) inp
  have e1 := LazyDec.eof_complete cfgCap inp l h lens1 hf h1
  have e2 := LazyDec.eof_complete cfgCap inp l h lens2 hf h2
  exact ⟨by rw [e1.2, e2.2], e1.2, e1.1⟩

open LazyDec in
theorem C13_lazy_delivered_prefix_uncond (cfgCap : Nat) (inp : ByteArray) (l : LSt) (h : newReader cfgCap inp = .ok l)
    (lens : List Nat) :
    let out := (Lzma1.read (effCap cfgCap) inp).out
    (delivered (readSeq l lens)).size ≤ out.size ∧
    delivered (readSeq l lens) = out.extract 0 (delivered (readSeq l lens)).size :=
  LazyDec.delivered_prefix cfgCap inp l h lens (Fuel.lzma1_read_fuel (effCap cfgCap) inp)

open LazyDec in
theorem C13_lazy_errors_agree_uncond (cfgCap : Nat) (inp : ByteArray) (l : LSt) (h : newReader cfgCap inp = .ok l) (lens : List Nat)
    (e : Err) (he : lastStat (readSeq l lens) = .err e) :
    (Lzma1.read (effCap cfgCap) inp).status.cls = (statusOf e).cls :=
  LazyDec.err_agrees cfgCap inp l h lens (Fuel.lzma1_read_fuel (effCap cfgCap) inp) e he

open LazyDec in
theorem C13_lazy_open_agrees (cfgCap : Nat) (inp : ByteArray) :
    (newReader cfgCap inp).toOption.isSome = !(Lzma1.read (effCap cfgCap) inp).openError :=
  LazyDec.newReader_ok_iff cfgCap inp

/-! ### the lazy LZMA2 reader refines the batch LZMA2 reader (Model/LazyDec2.lean), unconditionally -/

open LazyDec LazyDec2 in
theorem C13_lazy2_schedule_independent (cfgCap : Nat) (hcap : 4096 ≤ effCap cfgCap) (inp : ByteArray) (lens1 lens2 : List Nat)
    (h1 : LazyDec.lastStat (LazyDec2.readSeq (newReader2 cfgCap inp) lens1) = .eof)
    (h2 : LazyDec.lastStat (LazyDec2.readSeq (newReader2 cfgCap inp) lens2) = .eof) :
    delivered (LazyDec2.readSeq (newReader2 cfgCap inp) lens1) = delivered (LazyDec2.readSeq (newReader2 cfgCap inp) lens2) ∧
    delivered (LazyDec2.readSeq (newReader2 cfgCap inp) lens1) = (LazyDec2.batch cfgCap inp).1.h.out ∧
    (LazyDec2.batch cfgCap inp).2 = .eof := by
  have hf : (LazyDec2.batch cfgCap inp).2 ≠ .err "fuel exhausted" := Fuel.lzma2_decode_fuel _ _ _ _ _
  have e1 := LazyDec2.eof_complete cfgCap hcap inp lens1 hf h1
  have e2 := LazyDec2.eof_complete cfgCap hcap inp lens2 hf h2
  exact ⟨by rw [e1.2, e2.2], e1.2, e1.1⟩

open LazyDec LazyDec2 in
theorem C13_lazy2_delivered_prefix (cfgCap : Nat) (hcap : 4096 ≤ effCap cfgCap) (inp : ByteArray) (lens : List Nat) :
    let out := (LazyDec2.batch cfgCap inp).1.h.out
    (delivered (LazyDec2.readSeq (newReader2 cfgCap inp) lens)).size ≤ out.size ∧
    delivered (LazyDec2.readSeq (newReader2 cfgCap inp) lens) =
      out.extract 0 (delivered (LazyDec2.readSeq (newReader2 cfgCap inp) lens)).size :=
  LazyDec2.delivered_prefix cfgCap hcap inp lens (Fuel.lzma2_decode_fuel _ _ _ _ _)

open LazyDec LazyDec2 in
theorem C13_lazy2_call_sizes (cfgCap : Nat) (hcap : 4096 ≤ effCap cfgCap) (inp : ByteArray) (lens : List Nat) :
    (LazyDec2.readSeq (newReader2 cfgCap inp) lens).length ≤ lens.length ∧
    ∀ i (hi : i < (LazyDec2.readSeq (newReader2 cfgCap inp) lens).length),
      ((LazyDec2.readSeq (newReader2 cfgCap inp) lens)[i]).1.size ≤ lens[i]! ∧
      (((LazyDec2.readSeq (newReader2 cfgCap inp) lens)[i]).2 = .ok →
        ((LazyDec2.readSeq (newReader2 cfgCap inp) lens)[i]).1.size = lens[i]!) :=
  LazyDec2.call_sizes cfgCap hcap inp lens

open LazyDec LazyDec2 in
theorem C13_lazy2_reaches_eof (cfgCap : Nat) (hcap : 4096 ≤ effCap cfgCap) (inp : ByteArray) (lens : List Nat)
    (hclean : (LazyDec2.batch cfgCap inp).2 = .eof) (hsum : (LazyDec2.batch cfgCap inp).1.h.out.size < lens.sum) :
    LazyDec.lastStat (LazyDec2.readSeq (newReader2 cfgCap inp) lens) = .eof :=
  LazyDec2.reaches_eof cfgCap hcap inp lens hclean hsum

open LazyDec LazyDec2 in
theorem C13_lazy2_errors_agree (cfgCap : Nat) (hcap : 4096 ≤ effCap cfgCap) (inp : ByteArray) (lens : List Nat)
    (e : Err) (he : LazyDec.lastStat (LazyDec2.readSeq (newReader2 cfgCap inp) lens) = .err e) :
    (LazyDec2.batch cfgCap inp).2.cls = (statusOf e).cls :=
  LazyDec2.err_agrees cfgCap hcap inp lens (Fuel.lzma2_decode_fuel _ _ _ _ _) e he

open LazyDec LazyDec2 in
theorem C13_lazy2_never_no_space (cfgCap : Nat) (hcap : 4096 ≤ effCap cfgCap) (inp : ByteArray) (lens : List Nat) :
    ∀ r ∈ LazyDec2.readSeq (newReader2 cfgCap inp) lens, r.2 ≠ .err .noSpace ∧ r.2 ≠ .err .lenRange ∧ r.2 ≠ .err .panic :=
  LazyDec2.never_noSpace cfgCap hcap inp lens

/-! ### the lazy xz reader refines the batch xz reader (Model/LazyXz.lean), unconditionally -/

open LazyDec LazyXz in
/-- **Independence of the read sizes for the xz reader, every input**: two schedules of buffer lengths that both run into
    `io.EOF` deliver the same bytes — the batch reader's output, which ends cleanly (multi-stream or SingleStream). -/
theorem C13_lazyxz_schedule_independent (cfgCap : Nat) (single : Bool) (inp : ByteArray) (x : X)
    (h : LazyXz.newReader cfgCap single inp = .ok x) (lens1 lens2 : List Nat)
    (h1 : LazyXz.lastStat (LazyXz.readSeq x lens1) = .eof) (h2 : LazyXz.lastStat (LazyXz.readSeq x lens2) = .eof) :
    delivered (LazyXz.readSeq x lens1) = delivered (LazyXz.readSeq x lens2) ∧
    delivered (LazyXz.readSeq x lens1) = (LazyXz.batch cfgCap single inp).out ∧
    (LazyXz.batch cfgCap single inp).status = .eof := by
  have hf : (LazyXz.batch cfgCap single inp).status ≠ .err "fuel exhausted" := Fuel.xz_read_fuel _ _ _ _
  have e1 := LazyXz.eof_complete cfgCap single inp x h lens1 hf h1
  have e2 := LazyXz.eof_complete cfgCap single inp x h lens2 hf h2
  exact ⟨by rw [e1.2, e2.2], e1.2, e1.1⟩

open LazyDec LazyXz in
theorem C13_lazyxz_delivered_prefix (cfgCap : Nat) (single : Bool) (inp : ByteArray) (x : X)
    (h : LazyXz.newReader cfgCap single inp = .ok x) (lens : List Nat) :
    let out := (LazyXz.batch cfgCap single inp).out
    (delivered (LazyXz.readSeq x lens)).size ≤ out.size ∧
    delivered (LazyXz.readSeq x lens) = out.extract 0 (delivered (LazyXz.readSeq x lens)).size :=
  LazyXz.delivered_prefix cfgCap single inp x h lens (Fuel.xz_read_fuel _ _ _ _)

open LazyDec LazyXz in
theorem C13_lazyxz_call_sizes (cfgCap : Nat) (single : Bool) (inp : ByteArray) (x : X)
    (h : LazyXz.newReader cfgCap single inp = .ok x) (lens : List Nat) :
    (LazyXz.readSeq x lens).length ≤ lens.length ∧
    ∀ i (hi : i < (LazyXz.readSeq x lens).length),
      ((LazyXz.readSeq x lens)[i]).1.size ≤ lens[i]! ∧
      (((LazyXz.readSeq x lens)[i]).2 = .ok → ((LazyXz.readSeq x lens)[i]).1.size = lens[i]!) :=
  LazyXz.call_sizes cfgCap single inp x h lens

open LazyDec LazyXz in
theorem C13_lazyxz_reaches_eof (cfgCap : Nat) (single : Bool) (inp : ByteArray) (x : X)
    (h : LazyXz.newReader cfgCap single inp = .ok x) (lens : List Nat)
    (hclean : (LazyXz.batch cfgCap single inp).status = .eof) (hsum : (LazyXz.batch cfgCap single inp).out.size < lens.sum) :
    LazyXz.lastStat (LazyXz.readSeq x lens) = .eof :=
  LazyXz.reaches_eof cfgCap single inp x h lens hclean hsum

open LazyDec LazyXz in
/-- an error of the lazy reader is an error of the batch reader (never a clean end) -/
theorem C13_lazyxz_error_is_error (cfgCap : Nat) (single : Bool) (inp : ByteArray) (x : X)
    (h : LazyXz.newReader cfgCap single inp = .ok x) (lens : List Nat) (e : Err)
    (he : LazyXz.lastStat (LazyXz.readSeq x lens) = .err e) :
    (LazyXz.batch cfgCap single inp).status ≠ .eof :=
  LazyXz.err_agrees cfgCap single inp x h lens e he

open LazyDec LazyXz in
theorem C13_lazyxz_never_no_space (cfgCap : Nat) (single : Bool) (inp : ByteArray) (x : X)
    (h : LazyXz.newReader cfgCap single inp = .ok x) (lens : List Nat) :
    ∀ r ∈ LazyXz.readSeq x lens, r.2 ≠ .err .noSpace ∧ r.2 ≠ .err .lenRange ∧ r.2 ≠ .err .panic :=
  LazyXz.never_noSpace cfgCap single inp x h lens

/-! ### end of stream is stable — for the three lazy reader models, every input, every schedule that goes on reading

  "Once end of stream has been reported, every further read into a non-empty buffer returns zero bytes and end of stream
  again."  The schedules `EofStable.seq1/seq2/seqX` thread the reader state through whatever a call returns (also errors);
  `StableAfterEof`: after the first `io.EOF` every later call delivers nothing and answers `io.EOF` (a zero-length read may
  answer nil for the classic and the xz reader; the LZMA2 reader returns its stored `io.EOF` also then) — exactly what the
  real readers do (the per-call ties go on reading after `io.EOF`). -/

theorem C13_lzma_eof_stable (cfgCap : Nat) (inp : ByteArray) (l : LazyDec.LSt) (h : LazyDec.newReader cfgCap inp = .ok l)
    (lens : List Nat) : EofStable.StableAfterEof true lens (EofStable.seq1 l lens) :=
  EofStable.lzma_eof_stable cfgCap inp l h lens

theorem C13_lzma2_eof_stable (cfgCap : Nat) (hcap : 4096 ≤ LazyDec.effCap cfgCap) (inp : ByteArray) (lens : List Nat) :
    EofStable.StableAfterEof false lens (EofStable.seq2 (LazyDec2.newReader2 cfgCap inp) lens) :=
  EofStable.lzma2_eof_stable cfgCap hcap inp lens

theorem C13_xz_eof_stable (cfgCap : Nat) (single : Bool) (inp : ByteArray) (x : LazyXz.X)
    (h : LazyXz.newReader cfgCap single inp = .ok x) (lens : List Nat) :
    EofStable.StableAfterEof true lens (EofStable.seqX x lens) :=
  EofStable.xz_eof_stable cfgCap single inp x h lens

/-! ### SRC-BLOCK: the source may fragment its data in any way

  "… however the underlying source fragments its data (one byte at a time, short reads, data returned together with
  EOF)".  The reader models above read from the whole input at a position.  That this is what the code sees whatever the
  source does rests on two things, both checked on every run:

  1. a pinned fact, regenerated from /repo with go/types (`Gen.srcReads`): the packages never call `Read` on a
     caller-supplied source except through `io.ReadFull`, `io.CopyN`, `io.LimitReader`, `io.TeeReader` and the
     one-byte reads of `breader.ReadByte` (plus the counting pass-through wrapper; the remaining interface `Read` calls
     are on the block's own LZMA2 reader and on the current chunk reader, not on the source);
  2. theorems about those access functions as the Go standard library implements them (Model/Src.lean, tied to the real
     functions by the harness on fragmenting sources): for EVERY fragmentation (`frag : Nat → Nat`, any number of bytes
     ≥ 1 per call), with the end reported alone or together with the last bytes, and for a source that ends with io.EOF
     or fails, each access returns exactly the next bytes of the whole input and the status the reader models assume
     (`Src.view…`).  One exception exists and is stated: the doubly limited copy of an uncompressed LZMA2 chunk when a
     FAILING source hands out its error together with the chunk's last bytes (the error is then reported one access
     earlier; never a clean end) — not a fragmentation of a source that ends with io.EOF. -/

/-- functions of io that the reader side may hand a source to -/
def accessFns : List String := ["io.ReadFull", "io.CopyN", "io.LimitReader", "io.TeeReader", "io.Copy"]

/-- (function, callee): the direct `Read` / `ReadByte` calls on interface-typed values, each reviewed -/
def directReaders : List (String × String) :=
  [("blockReader.Read", "(io.Reader).Read"),        -- the block's filter chain (the LZMA2 reader), not the source
   ("Reader2.Read", "(io.Reader).Read"),            -- the current chunk reader (decoder or uncompressedReader)
   ("countingReader.Read", "(io.Reader).Read"),     -- pass-through wrapper that counts the bytes
   ("breader.ReadByte", "(io.Reader).Read"),        -- one byte per call: `Src.readByte`
   ("readUvarint", "(io.ByteReader).ReadByte"),
   ("newRangeDecoder", "(io.ByteReader).ReadByte"),
   ("rangeDecoder.updateCode", "(io.ByteReader).ReadByte")]

theorem C13_source_reached_only_through_the_access_layer :
    Gen.srcReads.all (fun r => accessFns.contains r.2.2 || directReaders.contains (r.2.1, r.2.2)) = true := by
  decide +kernel

example : Gen.srcReads.length ≥ 20 ∧ Gen.srcReads.any (fun r => r.2.2 == "io.ReadFull") = true ∧
    Gen.srcReads.any (fun r => r.2.2 == "(io.Reader).Read") = true := by decide +kernel

open Src in
theorem C13_readFull_any_fragmentation (s : S) (n : Nat) (h : s.pos ≤ s.data.size) :
    ((readFull s n).1.pos, (readFull s n).2.1, (readFull s n).2.2) = viewReadFull s.data s.pos s.ends n ∧
    Same s (readFull s n).1 :=
  readFull_view s n h

open Src in
theorem C13_readByte_any_fragmentation (s : S) (h : s.pos ≤ s.data.size) :
    ((readByte s).1.pos, (readByte s).2.1, (readByte s).2.2) = viewReadByte s.data s.pos s.ends ∧
    Same s (readByte s).1 :=
  readByte_view s h

open Src in
theorem C13_copyN_any_fragmentation (s : S) (n : Nat) (h : s.pos ≤ s.data.size) :
    ((copyN s n).1.pos, (copyN s n).2.1, (copyN s n).2.2) = viewCopyN s.data s.pos s.ends n ∧
    Same s (copyN s n).1 :=
  copyN_view s n h

open Src in
theorem C13_chunk_copy_any_fragmentation (s : S) (N want : Nat) (h : s.pos ≤ s.data.size) (hx : ¬ LimException s N want) :
    ((copyLim s N want).1.pos, (copyLim s N want).2.1, (copyLim s N want).2.2.1, (copyLim s N want).2.2.2) =
      viewCopyLim s.data s.pos s.ends N want ∧
    Same s (copyLim s N want).1 :=
  copyLim_view s N want h hx

open Src in
/-- the exception: same bytes, the source's error (never a clean status) -/
theorem C13_chunk_copy_exception (s : S) (N want : Nat) (h : s.pos ≤ s.data.size) (hx : LimException s N want) :
    ((copyLim s N want).1.pos, (copyLim s N want).2.1, (copyLim s N want).2.2.1, (copyLim s N want).2.2.2) =
      (s.pos + N, 0, s.data.extract s.pos (s.pos + N), St.src) ∧
    Same s (copyLim s N want).1 :=
  copyLim_exception s N want h hx

open Src in
/-- two sources with the same bytes, position and kind of end, fragmenting in any two ways, ending with io.EOF: every
    access gives the same bytes and status and leaves them in the same relation — so does every sequence of accesses -/
theorem C13_accesses_fragmentation_independent (a b : S) (ha : a.pos ≤ a.data.size) (hab : SameView a b) (he : a.ends = .eof) :
    (∀ n, (readFull a n).2 = (readFull b n).2 ∧ SameView (readFull a n).1 (readFull b n).1) ∧
    ((readByte a).2 = (readByte b).2 ∧ SameView (readByte a).1 (readByte b).1) ∧
    (∀ n, (copyN a n).2 = (copyN b n).2 ∧ SameView (copyN a n).1 (copyN b n).1) ∧
    (∀ N want, (copyLim a N want).2 = (copyLim b N want).2 ∧ SameView (copyLim a N want).1 (copyLim b N want).1) :=
  ⟨fun n => readFull_frag_independent a b n ha hab, readByte_frag_independent a b ha hab,
   fun n => copyN_frag_independent a b n ha hab, fun N want => copyLim_frag_independent_eof a b N want ha hab he⟩

/-- non-vacuity: a source of seven bytes, one byte per call and the end together with the last byte -/
example : (Src.readFull (Src.exSrc (fun _ => 1) true .eof) 5).2.2 = .ok ∧
    (Src.readFull (Src.exSrc (fun i => i + 1) false .eof) 9).2.2 = .unexpectedEOF := by decide

open LazyDec LazyDec2 in
/-- the link on the model side: where the LZMA2 reader model copies uncompressed chunk data (`ufill`) it uses exactly the
    access layer's view of the doubly limited copy — position, remaining limit, bytes written to the dictionary, status -/
theorem C13_reader_model_chunk_copy_is_the_access_layers_view (r : R2) (h : r.uEof = false) (hp : r.pos ≤ r.inp.size) :
    (ufill r).1.pos = (Src.viewCopyLim r.inp r.pos (SrcLink.endOf r.srcErr) r.uN r.l.dict.buf.available).1 ∧
    (ufill r).1.uN = (Src.viewCopyLim r.inp r.pos (SrcLink.endOf r.srcErr) r.uN r.l.dict.buf.available).2.1 ∧
    (ufill r).1.l.dict =
      (r.l.dict.write (Src.viewCopyLim r.inp r.pos (SrcLink.endOf r.srcErr) r.uN r.l.dict.buf.available).2.2.1).1 ∧
    (ufill r).2 =
      (match (Src.viewCopyLim r.inp r.pos (SrcLink.endOf r.srcErr) r.uN r.l.dict.buf.available).2.2.2 with
       | .ok => RStat.ok
       | .src => RStat.err .src
       | _ =>
         if 0 < (Src.viewCopyLim r.inp r.pos (SrcLink.endOf r.srcErr) r.uN r.l.dict.buf.available).2.2.1.size then RStat.ok
         else if (ufill r).1.uN ≠ 0 then RStat.err .unexpectedEOF else RStat.eof) :=
  SrcLink.ufill_is_viewCopyLim r h hp

/-- **the composition, for every client at once**: a reader is a deterministic program whose only contact with its source
    are calls of the access layer, each continuing with what the call returned (`Src.Prog`: all such programs, arbitrary
    continuations).  On two sources with the same bytes that end with io.EOF and fragment in ANY two ways (also: the end
    reported together with the last bytes or alone), every such program computes the same result. -/
theorem C13_every_client_of_the_access_layer_is_fragmentation_independent {α : Type} (p : Src.Prog α) (a b : Src.S)
    (ha : a.pos ≤ a.data.size) (hab : Src.SameView a b) (he : a.ends = .eof) :
    (Src.run p a).1 = (Src.run p b).1 ∧ Src.SameView (Src.run p a).2 (Src.run p b).2 :=
  Src.run_frag_independent p a b ha hab he

/-- the same for sources that fail at their end with the error arriving alone (C09's sources) -/
theorem C13_every_client_failing_source_fragmentation_independent {α : Type} (p : Src.Prog α) (a b : Src.S)
    (ha : a.pos ≤ a.data.size) (hab : Src.SameView a b) (hta : a.together = false) (htb : b.together = false) :
    (Src.run p a).1 = (Src.run p b).1 ∧ Src.SameView (Src.run p a).2 (Src.run p b).2 :=
  Src.run_frag_independent_fail p a b ha hab hta htb

/-! ### END-SRC-BLOCK -/

end Props.C13
