import XzVerif.Gen.Globals
/-
  C14 — Independent readers/writers are safe concurrently; output is deterministic.

  (i) `C14_interleave_commutes`: a generic theorem — if every step of an instance reads only an
  immutable environment and its own state, then under every interleaving of the steps of N
  instances each instance produces exactly the outputs of running alone.  (ii) The premise is a
  fact about the source: `Gen.globals` (regenerated with go/ast on every run) lists every
  package-level variable of xz, lzma, internal/hash, internal/xlog with the places that could
  write to it after initialisation; `C14_no_shared_mutable_state` says there are none, and
  `C14_logger_guarded` that the only shared object with mutable fields, the default logger, is
  modified under its mutex only.  (iii) Determinism: the model is a function; on the Go side
  `C14_no_nondeterminism_sources` excludes random numbers, clocks and iteration over package-level
  maps in the packages that produce output.

  Partial: escape of instance state through interfaces, the Go memory model and the scheduler are
  not exhibited by this model; the race-detector runs of the correspondence check search there.
-/
namespace Props.C14

/-- a system of independent instances: shared immutable environment `E`, per-instance state `S` -/
structure Sys (E S A O : Type) where
  step : E → S → A → S × O

variable {E S A O : Type}

def runAlone (sys : Sys E S A O) (e : E) : S → List A → S × List O
  | s, [] => (s, [])
  | s, a :: as =>
    let (s', o) := sys.step e s a
    let (sf, os) := runAlone sys e s' as
    (sf, o :: os)

def upd (st : Nat → S) (i : Nat) (s : S) : Nat → S := fun j => if j = i then s else st j

/-- run a schedule: a list of (instance, action) in the order the scheduler picked them -/
def run (sys : Sys E S A O) (e : E) : (Nat → S) → List (Nat × A) → (Nat → S) × List (Nat × O)
  | st, [] => (st, [])
  | st, (i, a) :: rest =>
    let (s', o) := sys.step e (st i) a
    let (stf, os) := run sys e (upd st i s') rest
    (stf, (i, o) :: os)

def proj {X : Type} (i : Nat) (l : List (Nat × X)) : List X := (l.filter (fun p => p.1 = i)).map (·.2)

/-- Every interleaving gives each instance exactly the result of running alone. -/
theorem C14_interleave_commutes (sys : Sys E S A O) (e : E) (sched : List (Nat × A)) :
    ∀ (st : Nat → S) (i : Nat),
      proj i (run sys e st sched).2 = (runAlone sys e (st i) (proj i sched)).2 ∧
      (run sys e st sched).1 i = (runAlone sys e (st i) (proj i sched)).1 := by
  induction sched with
  | nil => intro st i; simp [run, runAlone, proj]
  | cons hd rest ih =>
    intro st i
    obtain ⟨j, a⟩ := hd
    by_cases hji : j = i
    · subst hji
      have := ih (upd st j (sys.step e (st j) a).1) j
      simp only [upd, if_true] at this
      simp only [run, proj, List.filter_cons, decide_true, if_true, List.map_cons, runAlone]
      simp only [proj] at this
      exact ⟨by rw [this.1], this.2⟩
    · have := ih (upd st j (sys.step e (st j) a).1) i
      have hne : ¬ i = j := fun h => hji h.symm
      simp only [upd, hne, if_false] at this
      simp only [run, proj, List.filter_cons, hji, decide_false, Bool.false_eq_true, if_false]
      simp only [proj] at this
      exact this

/-- No package-level variable of the four packages is written after initialisation. -/
theorem C14_no_shared_mutable_state : Gen.globals.all (fun g => g.2.2.isEmpty) = true := by decide

/-- Methods of the logger that assign to its fields take its mutex; the one exception is the
    unexported helper `formatHeader`, which is only called from `output` while the mutex is held. -/
theorem C14_logger_guarded :
    Gen.loggerMethods.all (fun m => !m.2.1 || m.2.2 || m.1 == "formatHeader") = true := by decide

/-- The packages that produce compressed output import no source of nondeterminism and do not
    iterate over package-level maps. -/
theorem C14_no_nondeterminism_sources :
    Gen.imports.all (fun (pkg, imp) =>
      pkg == "internal/xlog" ||
      !(["math/rand", "math/rand/v2", "crypto/rand", "time", "os", "runtime", "unsafe", "sync", "sync/atomic"].contains imp)) = true ∧
    Gen.globalRanges = [] := by decide

/-- non-vacuity: two instances, three interleaved steps -/
example : let sys : Sys Nat Nat Nat Nat := ⟨fun e s a => (s + a, e + s + a)⟩
    proj 1 (run sys 10 (fun _ => 0) [(0, 5), (1, 7), (0, 1)]).2 = (runAlone sys 10 0 [7]).2 := by decide

end Props.C14
