def hello := "world"
