/-
  Model.Ring — the circular buffer of lzma/buffer.go and the two dictionaries built on it
  (lzma/decoderdict.go, lzma/encoderdict.go) at the level of the array and its two indices,
  i.e. with the wrap-around arithmetic the rest of the model abstracts away (history lists).
  Proofs/Ring.lean shows that this level refines the list level; the correspondence check runs
  random operation scripts on the real types and on this model.  Core-only.
-/
namespace Ring

structure Buf where
  data : ByteArray      -- len(b.data) = capacity + 1
  front : Nat
  rear : Nat

def zeros : Nat → ByteArray → ByteArray
  | 0, a => a
  | n + 1, a => zeros n (a.push 0)

/-- `newBuffer(size)` -/
def Buf.new (size : Nat) : Buf := { data := zeros (size + 1) ByteArray.empty, front := 0, rear := 0 }

def Buf.len (b : Buf) : Nat := b.data.size
def Buf.cap (b : Buf) : Nat := b.data.size - 1

/-- `Buffered`: `delta := front - rear; if delta < 0 { delta += len }` -/
def Buf.buffered (b : Buf) : Nat :=
  if b.rear ≤ b.front then b.front - b.rear else b.front + b.len - b.rear

/-- `Available`: `delta := rear - 1 - front; if delta < 0 { delta += len }` -/
def Buf.available (b : Buf) : Nat :=
  if b.front + 1 ≤ b.rear then b.rear - 1 - b.front else b.rear + b.len - 1 - b.front

/-- `addIndex`: `i += n - len; if i < 0 { i += len }` -/
def Buf.addIndex (b : Buf) (i n : Nat) : Nat :=
  if b.len ≤ i + n then i + n - b.len else i + n

/-- `Peek` into a slice of length `l` -/
def Buf.peek (b : Buf) (l : Nat) : ByteArray :=
  let n := min l b.buffered
  let k := min n (b.len - b.rear)
  b.data.extract b.rear (b.rear + k) ++ b.data.extract 0 (n - k)

def Buf.read (b : Buf) (l : Nat) : Buf × ByteArray :=
  let p := b.peek l
  ({ b with rear := b.addIndex b.rear p.size }, p)

/-- `Discard(n)` for `n ≥ 0`: (buffer, discarded, error) -/
def Buf.discard (b : Buf) (n : Nat) : Buf × Nat × Bool :=
  let m := b.buffered
  let k := min n m
  ({ b with rear := b.addIndex b.rear k }, k, decide (m < n))

/-- overwrite `dst[at …]` with `src[lo, hi)` (Go `copy(dst[at:], src[lo:hi])`, nothing cut off here) -/
def blit (dst : ByteArray) (at_ : Nat) (src : ByteArray) (lo hi : Nat) : ByteArray :=
  src.copySlice lo dst at_ (hi - lo)

/-- `Write`: (buffer, written, ErrNoSpace) -/
def Buf.write (b : Buf) (p : ByteArray) : Buf × Nat × Bool :=
  let m := b.available
  let n := min p.size m
  let k := min n (b.len - b.front)
  let d1 := blit b.data b.front p 0 k
  let d2 := if k < n then blit d1 0 p k n else d1
  ({ b with data := d2, front := b.addIndex b.front n }, n, decide (m < p.size))

/-- `WriteByte`: `none` = ErrNoSpace -/
def Buf.writeByte (b : Buf) (c : UInt8) : Option Buf :=
  if b.available < 1 then none
  else some { b with data := b.data.set! b.front c, front := b.addIndex b.front 1 }

/-- `prefixLen(a[ao:], b[bo:bhi])` -/
def prefixLen (a : ByteArray) (ao : Nat) (b : ByteArray) (bo bhi : Nat) : Nat → Nat → Nat
  | 0, acc => acc
  | fuel + 1, acc =>
    if ao + acc < a.size ∧ bo + acc < bhi ∧ a.get! (ao + acc) = b.get! (bo + acc) then
      prefixLen a ao b bo bhi fuel (acc + 1)
    else acc

/-- `matchLen(distance, p)`; Go indexes `data[len+i:]` with `i = rear − distance`, which panics unless
    `distance ≤ rear + len`; the callers guarantee `1 ≤ distance ≤ len` -/
def Buf.matchLen (b : Buf) (dist : Nat) (p : ByteArray) : Nat :=
  if dist ≤ b.rear then
    prefixLen p 0 b.data (b.rear - dist) b.len p.size 0
  else
    let neg := dist - b.rear                       -- −i
    let n := prefixLen p 0 b.data (b.len - neg) b.len p.size 0
    if n < neg then n
    else n + prefixLen p n b.data 0 b.len p.size 0

/-! ### decoderDict -/

structure DDict where
  buf : Buf
  head : Nat

def DDict.new (dictCap : Nat) : DDict := { buf := Buf.new dictCap, head := 0 }

def DDict.dictLen (d : DDict) : Nat := if d.head ≥ d.buf.cap then d.buf.cap else d.head

def DDict.byteAt (d : DDict) (dist : Nat) : UInt8 :=
  if 0 < dist ∧ dist ≤ d.dictLen then
    d.buf.data.get! (if dist ≤ d.buf.front then d.buf.front - dist else d.buf.front + d.buf.len - dist)
  else 0

def DDict.writeByte (d : DDict) (c : UInt8) : Option DDict :=
  match d.buf.writeByte c with
  | none => none
  | some b => some { buf := b, head := d.head + 1 }

inductive WMRes where
  | ok (d : DDict)
  | distRange
  | lenRange
  | noSpace
  | panic

/-- the copy loop of `writeMatch` -/
def DDict.copyLoop : Nat → Buf → Nat → Nat → Option Buf
  | 0, b, _, len => if len = 0 then some b else none
  | fuel + 1, b, i, len =>
    if len = 0 then some b else
    let hi := if i ≥ b.front then b.len else b.front
    let i' := if i ≥ b.front then 0 else b.front
    let n := min (hi - i) len
    let p := b.data.extract i (i + n)
    let (b', _, err) := b.write p
    if err then none else DDict.copyLoop fuel b' i' (len - n)

def DDict.writeMatch (d : DDict) (dist len : Nat) : WMRes :=
  if ¬ (0 < dist ∧ dist ≤ d.dictLen) then .distRange
  else if ¬ (0 < len ∧ len ≤ 273) then .lenRange
  else if len > d.buf.available then .noSpace
  else
    let i := if dist ≤ d.buf.front then d.buf.front - dist else d.buf.front + d.buf.len - dist
    match DDict.copyLoop (len + 1) d.buf i len with
    | none => .panic
    | some b => .ok { buf := b, head := d.head + len }

def DDict.write (d : DDict) (p : ByteArray) : DDict × Nat × Bool :=
  let (b, n, err) := d.buf.write p
  ({ buf := b, head := d.head + n }, n, err)

def DDict.read (d : DDict) (l : Nat) : DDict × ByteArray :=
  let (b, p) := d.buf.read l
  ({ d with buf := b }, p)

/-! ### encoderDict (without the match finder) -/

structure EDict where
  buf : Buf
  head : Nat
  capacity : Nat

def EDict.new (dictCap bufSize : Nat) : EDict := { buf := Buf.new (dictCap + bufSize), head := 0, capacity := dictCap }

def EDict.len (d : EDict) : Nat := min d.buf.available d.head
def EDict.dictLen (d : EDict) : Nat := if d.head < d.capacity then d.head else d.capacity
def EDict.available (d : EDict) : Nat := d.buf.available - d.dictLen
def EDict.buffered (d : EDict) : Nat := d.buf.buffered

def EDict.write (d : EDict) (p : ByteArray) : EDict × Nat × Bool :=
  let m := d.available
  let q := if p.size > m then p.extract 0 m else p
  let (b, n, e) := d.buf.write q
  ({ d with buf := b }, n, decide (p.size > m) || e)

/-- `Discard(n)`: `none` = panic (n > 273 or fewer bytes buffered) -/
def EDict.discard (d : EDict) (n : Nat) : Option (EDict × ByteArray) :=
  if n > 273 then none else
  let (b, p) := d.buf.read n
  if p.size < n then none else some ({ d with buf := b, head := d.head + n }, p)

def EDict.byteAt (d : EDict) (dist : Nat) : UInt8 :=
  if 0 < dist ∧ dist ≤ d.len then
    d.buf.data.get! (if dist ≤ d.buf.rear then d.buf.rear - dist else d.buf.rear + d.buf.len - dist)
  else 0

/-- `CopyN(w, n)` with a sink that never fails: (bytes, ErrNoSpace) -/
def EDict.copyN (d : EDict) (n : Nat) : ByteArray × Bool :=
  if n = 0 then (ByteArray.empty, false) else
  let m := d.len
  let k := min n m
  let out :=
    if k ≤ d.buf.rear then d.buf.data.extract (d.buf.rear - k) d.buf.rear
    else d.buf.data.extract (d.buf.rear + d.buf.len - k) d.buf.len ++ d.buf.data.extract 0 d.buf.rear
  (out, decide (n > m))

end Ring
