import XzVerif.Model.ReadLoop
/-
  Model.ReadLoops — the mechanism behind the Read contract: the loops of `lzma.decoder.Read`
  (decoder.go, after the zero-length fix), `lzma.Reader2.Read` (reader2.go) and
  `xz.streamReader.Read` / `xz.Reader.Read` (reader.go), written over abstract sources.
  Theorems (Proofs/ReadLoops.lean) show that each loop, given parts that satisfy the contract
  `ReadLoop.readCall`, satisfies the contract for the concatenated content.  Core-only.
-/
namespace ReadLoops
open ReadLoop

/-! ### lzma.decoder.Read over a dictionary fed by `decompress` -/

/-- decoder state as `Read` sees it: bytes decoded but not yet delivered, what the following
    `decompress` calls will produce (one list per call), and the `eos` flag -/
structure Dec (α : Type) where
  buffered : List α
  pending : List (List α)
  eos : Bool

/-- `decompress()`: returns io.EOF immediately when `eos`; otherwise decodes the next batch into
    the dictionary and sets `eos` when the stream ends with it -/
def Dec.decompress {α : Type} (d : Dec α) : Dec α :=
  if d.eos then d else
  match d.pending with
  | [] => { d with eos := true }
  | c :: rest => { buffered := d.buffered ++ c, pending := rest, eos := rest.isEmpty }

def Dec.content {α : Type} (d : Dec α) : List α := d.buffered ++ d.pending.flatten

/-- the loop of `decoder.Read(p)` with `len p = n`, `got` bytes already copied; `fuel` bounds the
    iterations (every iteration delivers bytes, consumes a pending batch or terminates) -/
def Dec.readLoop {α : Type} : Nat → Dec α → Nat → List α → List α × Bool × Dec α
  | 0, d, _, acc => (acc, false, d)
  | fuel + 1, d, n, acc =>
    let k := min (n - acc.length) d.buffered.length
    let out := acc ++ d.buffered.take k
    let d1 := { d with buffered := d.buffered.drop k }
    if k = 0 ∧ d.eos then (acc, true, d)
    else if out.length ≥ n then (out, false, d1)
    else Dec.readLoop fuel d1.decompress n out

/-- `decoder.Read(p)`: a zero-length buffer returns (0, nil) -/
def Dec.read {α : Type} (d : Dec α) (n : Nat) : List α × Bool × Dec α :=
  if n = 0 then ([], false, d) else Dec.readLoop (d.pending.length + 3) d n []

/-! ### a reader that chains parts (Reader2 over chunk readers, streamReader over blocks,
        Reader over streams): each part satisfies the contract on its own content -/

/-- `for n < len(p) { k, err = part.Read(p[n:]); n += k; if err == EOF { next part; continue } … }`.
    `parts` are the contents of the current and the following parts; the current part is read with
    the contract `readCall`.  `(k, EOF)` from a part moves on to the next part; when no part is
    left the reader reports EOF together with the bytes collected so far. -/
def chainRead {α : Type} : Nat → List (List α) → Nat → List α → List α × Bool × List (List α)
  | 0, parts, _, acc => (acc, false, parts)
  | fuel + 1, parts, n, acc =>
    if acc.length ≥ n then (acc, false, parts) else
    match parts with
    | [] => (acc, true, [])
    | cur :: rest =>
      let r := readCall cur (n - acc.length)
      if r.2.1 then chainRead fuel rest n (acc ++ r.1)      -- part ended: start the next one
      else chainRead fuel (r.2.2 :: rest) n (acc ++ r.1)

def chainReadCall {α : Type} (parts : List (List α)) (n : Nat) : List α × Bool × List (List α) :=
  if n = 0 then ([], false, parts) else chainRead (parts.length + n + 2) parts n []

end ReadLoops
