import XzVerif.Gen.Hash
import XzVerif.Model.Select
/-
  Model.HashTable — the candidate search of the HashTable4 match finder (lzma/hashtable.go: `newHashTable`,
  `WriteByte`/`putEntry`/`putDelta`, `getMatches`, `Matches`, the distance list of `NextOp`) with the rolling hash
  of internal/hash/cyclic_poly.go, and the complete match finder as an instance of `W2.Matcher`
  (`HT4`): hash chains + ring-level selection (Model/Select.lean).  With it the Lean model of the LZMA2 / classic
  writer computes the compressed stream from the input alone; the correspondence check compares it byte for byte
  with the real writer using its default match finder.  Core-only.
-/
namespace HT
open Ring W2

def hashTbl : Array UInt64 := (Gen.cyclicHash.map (fun n => n.toUInt64)).toArray

def ror (x : UInt64) (s : UInt64) : UInt64 := (x >>> s) ||| (x <<< (64 - s))

/-- cyclic polynomial hash of a four-byte window: what `CyclicPoly.RollByte` returns once four bytes are in -/
def hash4 (b0 b1 b2 b3 : UInt8) : UInt64 :=
  let y (b : UInt8) : UInt64 := hashTbl.getD b.toNat 0
  ror (y b0) 3 ^^^ ror (y b1) 2 ^^^ ror (y b2) 1 ^^^ y b3

/-- `hashTableExponent`: `30 − nlz32(n)` clamped to 9 … 20, i.e. `log2 n − 1` clamped -/
def tableExponent (n : Nat) : Nat :=
  let e := if n = 0 then 0 else Nat.log2 n - 1
  if e < 9 then 9 else if e > 20 then 20 else e

structure Tab where
  t : Array Nat          -- 2^exp slots: position + 1 of the most recent word with this hash, 0 = none
  data : Array Nat       -- ring of `capacity` deltas to the previous word with the same hash (0 = end of chain)
  front : Nat
  mask : Nat
  n : Nat                -- bytes written so far (`hoff = n − 4`)
  b1 : UInt8 := 0        -- the last three bytes written
  b2 : UInt8 := 0
  b3 : UInt8 := 0

def Tab.new (capacity : Nat) : Tab :=
  let exp := tableExponent capacity
  { t := Array.replicate (2 ^ exp) 0, data := Array.replicate capacity 0, front := 0, mask := 2 ^ exp - 1, n := 0 }

/-- `buffered()`: number of word positions still described by `data` -/
def Tab.buffered (t : Tab) : Nat :=
  if t.n < 4 then 0 else if t.n - 3 ≥ t.data.size then t.data.size else t.n - 3

/-- `WriteByte` -/
def Tab.writeByte (t : Tab) (c : UInt8) : Tab :=
  let h := hash4 t.b1 t.b2 t.b3 c
  let t := { t with n := t.n + 1, b1 := t.b2, b2 := t.b3, b3 := c }
  if t.n < 4 then t else
  let pos := t.n - 4
  let i := h.toNat % (t.mask + 1)
  let old := t.t.getD i 0          -- old position + 1
  let delta :=
    if old = 0 then 0 else
    let d := pos - (old - 1)
    if d > 2 ^ 32 - 1 ∨ d > t.buffered then 0 else d
  { t with t := t.t.setIfInBounds i (pos + 1), data := t.data.setIfInBounds t.front delta,
           front := if t.front + 1 ≥ t.data.size then 0 else t.front + 1 }

def Tab.write (t : Tab) (p : ByteArray) (lo hi : Nat) : Tab :=
  (List.range (hi - lo)).foldl (fun t k => t.writeByte (p.get! (lo + k))) t

/-- `getMatches`: up to 16 positions of earlier words with the hash `h`, most recent first -/
def Tab.getMatches (t : Tab) (h : UInt64) : List Nat :=
  if t.n < 4 then [] else
  let buffered := t.buffered
  let tailPos := t.n - 3 - buffered
  let entry := t.t.getD (h.toNat % (t.mask + 1)) 0
  if entry = 0 then [] else
  let pos := entry - 1
  if pos < tailPos then [] else
  -- delta = pos − tailPos ≥ 0; the delta of position tailPos + delta sits at data[(front − buffered + delta) mod len]
  let rec go : Nat → Nat → List Nat → List Nat
    | 0, _, acc => acc.reverse
    | fuel + 1, delta, acc =>
      let acc := (tailPos + delta) :: acc
      if fuel = 0 then acc.reverse else
      let i := (t.front + t.data.size - buffered + delta) % t.data.size
      let u := t.data.getD i 0
      if u = 0 ∨ u > delta then acc.reverse else go fuel (delta - u) acc
  go 16 (pos - tailPos) []

/-- the candidate distances `hashTable.NextOp` derives for the look-ahead `look` -/
def Tab.cands (t : Tab) (look : ByteArray) : List Nat :=
  if look.size < 4 then [] else
  (t.getMatches (hash4 (look.get! 0) (look.get! 1) (look.get! 2) (look.get! 3))).map (fun pos => t.n - pos)

/-! ### the complete match finder as a `W2.Matcher` -/

/-- state of the match finder: hash table and the encoder dictionary's ring, both synchronised lazily with the
    (history, look-ahead) pair the encoder model passes in -/
structure St where
  tab : Tab
  d : EDict
  wlen : Nat := 0      -- bytes of `hist ++ look` already in the ring
  rlen : Nat := 0      -- bytes of `hist` already discarded / written into the hash table

def St.new (dictCap bufSize : Nat) : St := { tab := Tab.new dictCap, d := EDict.new dictCap bufSize }

/-- store `p[lo, hi)` at ring positions `at, at+1, …` modulo the array length -/
def ringStore (data : ByteArray) (at_ : Nat) (p : ByteArray) (lo hi : Nat) : ByteArray :=
  (List.range (hi - lo)).foldl (fun a k => a.set! ((at_ + k) % data.size) (p.get! (lo + k))) data

/-- bring ring and hash table up to date with `hist ++ look` / `hist` -/
def St.sync (s : St) (hist look : ByteArray) : St :=
  let L := s.d.buf.len
  -- new bytes of hist ++ look: first those of hist beyond wlen, then those of look
  let hs := hist.size
  let data1 := if s.wlen < hs then ringStore s.d.buf.data (s.wlen % L) hist s.wlen hs else s.d.buf.data
  let w1 := max s.wlen hs
  let data2 := ringStore data1 (w1 % L) look (w1 - hs) look.size
  let w2 := hs + look.size
  let tab := s.tab.write hist s.rlen hs
  { tab := tab, wlen := w2, rlen := hs,
    d := { s.d with head := hs, buf := { data := data2, front := w2 % L, rear := hs % L } } }

/-- HashTable4: `NextOp` on the synchronised state; an index panic of the real code shows as a proposal that
    `writeMatch` refuses (never produced when the candidates ascend, see Proofs/Select.lean) -/
def HT4 : Matcher St where
  next := fun s hist look st =>
    let s := s.sync hist look
    match Sel.nextOpHT s.d (s.tab.cands look) st.r0 with
    | .op g => (g, s)
    | .panic => (.mtch 0 0, s)

end HT
