/-
  Model.Src — the SOURCE of a reader and the four ways the reader code touches it (property C13: "however the
  underlying source fragments its data: one byte at a time, short reads, data returned together with EOF"; property
  C09: a source that fails).

  A source is its bytes, a position, the way it fragments (`frag i` = the most bytes its i-th Read call hands out,
  at least one), whether it reports its end together with the last bytes or on the next call, and whether its end is
  io.EOF or an error of its own.  `S.read` is `io.Reader.Read` on it.

  The reader code (reader.go, format.go, lzma/reader.go, reader2.go, header2.go, breader.go) never calls the source's
  Read directly (pinned fact, Props/C13.lean) but only through
    * `io.ReadFull`                         — `readFull`
    * `lzma.ByteReader(src).ReadByte`, also over `io.LimitReader` / `io.TeeReader`   — `readByte`
    * `io.CopyN(dst, src, n)`               — `copyN`
    * `io.CopyN(dict, &io.LimitedReader{src, N}, want)` (uncompressed LZMA2 chunks)  — `copyLim`
  modelled here as the Go standard library implements them (loops over `S.read`).  Proofs/Src.lean shows that each of
  them returns what the reader MODELS assume — the next bytes of the whole input, and at its end io.EOF /
  io.ErrUnexpectedEOF / the source's error — for every fragmentation; the one exception is stated there (`copyLim`
  when a failing source hands out its error together with the last bytes of the chunk).  Core-only.
-/
namespace Src

inductive End where
  | eof
  | fail
  deriving DecidableEq, Repr, Inhabited

structure S where
  data : ByteArray
  pos : Nat := 0
  calls : Nat := 0                 -- Read calls so far (indexes `frag`)
  frag : Nat → Nat                 -- most bytes per call (0 is read as 1)
  together : Bool := false         -- the end is reported together with the last bytes
  ends : End := .eof

inductive St where
  | ok                 -- nil
  | eof                -- io.EOF
  | unexpectedEOF      -- io.ErrUnexpectedEOF
  | src                -- the source's own error
  | noData             -- breader: "no data"
  deriving DecidableEq, Repr, Inhabited

def S.avail (s : S) : Nat := s.data.size - s.pos

def S.endSt (s : S) : St := match s.ends with | .eof => .eof | .fail => .src

/-- `src.Read(p)` with `len(p) = len` -/
def S.read (s : S) (len : Nat) : S × ByteArray × St :=
  if len = 0 then (s, ByteArray.empty, .ok) else
  if s.avail = 0 then ({ s with calls := s.calls + 1 }, ByteArray.empty, s.endSt) else
  let n := min len (min (max 1 (s.frag s.calls)) s.avail)
  let s' := { s with pos := s.pos + n, calls := s.calls + 1 }
  (s', s.data.extract s.pos (s.pos + n), if s.together ∧ s'.avail = 0 then s.endSt else .ok)

/-- `io.ReadFull(src, buf)`, `len(buf) = n`: the loop of `io.ReadAtLeast` -/
def readFullLoop (n : Nat) : Nat → S → ByteArray → S × ByteArray × St
  | 0, s, acc => (s, acc, .noData)
  | fuel + 1, s, acc =>
    if acc.size ≥ n then (s, acc, .ok) else
    let (s', chunk, st) := s.read (n - acc.size)
    let acc := acc ++ chunk
    match st with
    | .ok => readFullLoop n fuel s' acc
    | e =>
      if acc.size ≥ n then (s', acc, .ok)
      else if acc.size > 0 ∧ e = .eof then (s', acc, .unexpectedEOF)
      else (s', acc, e)

def readFull (s : S) (n : Nat) : S × ByteArray × St := readFullLoop n (n + 1) s ByteArray.empty

/-- `breader.ReadByte`: one Read of one byte; an error that comes with the byte is dropped -/
def readByte (s : S) : S × Option UInt8 × St :=
  let (s', chunk, st) := s.read 1
  if chunk.size < 1 then (s', none, if st = .ok then .noData else st)
  else (s', some (chunk.get! 0), .ok)

/-- `io.LimitedReader{src, N}.Read(p)` -/
def limRead (s : S) (N : Nat) (len : Nat) : S × Nat × ByteArray × St :=
  if N = 0 then (s, N, ByteArray.empty, .eof) else
  let (s', chunk, st) := s.read (min len N)
  (s', N - chunk.size, chunk, st)

/-- the copy loop of `io.Copy(dst, &LimitedReader{src, N})` with a buffer of `bufSize` bytes (dst never fails):
    returns the bytes written and the error of the copy (io.EOF of the reader is not an error of io.Copy) -/
def copyLoop (bufSize : Nat) : Nat → S → Nat → ByteArray → S × Nat × ByteArray × St
  | 0, s, N, acc => (s, N, acc, .noData)
  | fuel + 1, s, N, acc =>
    let (s', N', chunk, st) := limRead s N bufSize
    let acc := acc ++ chunk
    match st with
    | .ok => copyLoop bufSize fuel s' N' acc
    | .eof => (s', N', acc, .ok)
    | e => (s', N', acc, e)

/-- `io.CopyN(dst, src, n)` -/
def copyN (s : S) (n : Nat) : S × ByteArray × St :=
  let bufSize := if n < 32 * 1024 then (if n < 1 then 1 else n) else 32 * 1024
  let (s', _, acc, st) := copyLoop bufSize (n + 2) s n ByteArray.empty
  if acc.size = n then (s', acc, .ok)
  else if st = .ok then (s', acc, .eof) else (s', acc, st)

/-- `io.CopyN(dict, &lr, want)` where `lr = io.LimitedReader{src, N}` (uncompressedReader.fill): the copy reads
    through TWO limits; returns the new `lr.N` too -/
def copyLim (s : S) (N want : Nat) : S × Nat × ByteArray × St :=
  let bufSize := if want < 32 * 1024 then (if want < 1 then 1 else want) else 32 * 1024
  -- outer limit `want` around the inner limited reader
  let rec loop : Nat → S → Nat → Nat → ByteArray → S × Nat × ByteArray × St
    | 0, s, N, _, acc => (s, N, acc, .noData)
    | fuel + 1, s, N, W, acc =>
      if W = 0 then (s, N, acc, .ok) else
      let (s', N', chunk, st) := limRead s N (min bufSize W)
      let acc := acc ++ chunk
      match st with
      | .ok => loop fuel s' N' (W - chunk.size) acc
      | .eof => (s', N', acc, .ok)
      | e => (s', N', acc, e)
  let (s', N', acc, st) := loop (want + 2) s N want ByteArray.empty
  if acc.size = want then (s', N', acc, .ok)
  else if st = .ok then (s', N', acc, .eof) else (s', N', acc, st)

/-! ### what the reader models assume: the whole input, a position, and what its end means -/

/-- `io.ReadFull` as the reader models see it -/
def viewReadFull (data : ByteArray) (pos : Nat) (ends : End) (n : Nat) : Nat × ByteArray × St :=
  let avail := data.size - pos
  if n ≤ avail then (pos + n, data.extract pos (pos + n), .ok)
  else (data.size, data.extract pos data.size,
        match ends with
        | .fail => .src
        | .eof => if avail = 0 then .eof else .unexpectedEOF)

def viewReadByte (data : ByteArray) (pos : Nat) (ends : End) : Nat × Option UInt8 × St :=
  if pos < data.size then (pos + 1, some (data.get! pos), .ok)
  else (pos, none, match ends with | .fail => .src | .eof => .eof)

def viewCopyN (data : ByteArray) (pos : Nat) (ends : End) (n : Nat) : Nat × ByteArray × St :=
  let avail := data.size - pos
  if n ≤ avail then (pos + n, data.extract pos (pos + n), .ok)
  else (data.size, data.extract pos data.size, match ends with | .fail => .src | .eof => .eof)

/-- `uncompressedReader.fill`'s copy as Model/LazyDec2.lean (`ufill`) has it: k = min want (min N avail) bytes;
    nil when k = want, the source's error when the source (not a limit) stopped the copy, else io.EOF -/
def viewCopyLim (data : ByteArray) (pos : Nat) (ends : End) (N want : Nat) : Nat × Nat × ByteArray × St :=
  let avail := data.size - pos
  let k := min want (min N avail)
  (pos + k, N - k, data.extract pos (pos + k),
    if k = want then .ok
    else if ends = .fail ∧ avail < min want N then .src
    else .eof)

end Src
