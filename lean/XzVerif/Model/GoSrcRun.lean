import XzVerif.Gen.GoSrc
/-
  Model.GoSrcRun — runs the REGENERATED translation of the Go source (Gen/GoSrc.lean) on scripts, for the driver.
  Purpose: validation of the TRANSLATOR (harness/xlate.go, part of the trusted base): the real Go functions and their
  translations are executed on the same scripts and every observation must be equal (`xlate-exec` tie).  Core-only.
-/
namespace GoSrcRun
open GoSrc

def errName : Go.Err → String
  | .nil => "nil"
  | .named s => s
  | .new s => "new:" ++ s

def hexDigit (n : Nat) : Char := if n < 10 then Char.ofNat (48 + n) else Char.ofNat (87 + n)

def hexOf (l : List (BitVec 8)) : String :=
  String.ofList (l.flatMap (fun b => [hexDigit (b.toNat / 16), hexDigit (b.toNat % 16)]))

def encInit (limit : Nat) : T_rangeEncoder :=
  { lbw := { BW := { out := [] }, N := BitVec.ofNat 64 limit }, nrange := 0xffffffff#32, low := 0#64,
    cacheLen := 1#64, cache := 0#8 }

def encLine (err : Go.Err) (g : T_rangeEncoder) (p : BitVec 16) : String :=
  s!"{errName err} {g.low.toNat} {g.nrange.toNat} {g.cacheLen.toInt} {g.cache.toNat} {g.lbw.N.toInt} {g.lbw.BW.out.length} {p.toNat}"

def digit (c : Char) : Nat := c.toNat - 48

/-- encoder script: "a<i><bit>", "d<bit>", "c" -/
def encScript (limit : Nat) (script : List String) : List String := Id.run do
  let mut g := encInit limit
  let mut probs : Array (BitVec 16) := Array.replicate 8 1024#16
  let mut out : Array String := #[]
  for tok in script do
    let cs := tok.toList
    let fuel := g.cacheLen.toNat + 16
    match cs with
    | 'a' :: i :: b :: _ =>
      let pi := digit i
      match rangeEncoder_EncodeBit fuel g (BitVec.ofNat 32 (digit b)) (probs.getD pi 0#16) with
      | .ok (err, g', p') =>
        g := g'
        probs := probs.setIfInBounds pi p'
        out := out.push (encLine err g p')
      | .panic m => out := out.push ("panic:" ++ m); break
      | .fuel => out := out.push "fuel"; break
    | 'd' :: b :: _ =>
      match rangeEncoder_DirectEncodeBit fuel g (BitVec.ofNat 32 (digit b)) with
      | .ok (err, g') =>
        g := g'
        out := out.push (encLine err g (probs.getD 0 0#16))
      | .panic m => out := out.push ("panic:" ++ m); break
      | .fuel => out := out.push "fuel"; break
    | 'c' :: _ =>
      match rangeEncoder_Close fuel g with
      | .ok (err, g') =>
        g := g'
        out := out.push (encLine err g (probs.getD 0 0#16))
      | .panic m => out := out.push ("panic:" ++ m); break
      | .fuel => out := out.push "fuel"; break
    | _ => out := out.push "bad-token"
  out := out.push ("out=" ++ hexOf g.lbw.BW.out)
  return out.toList

def b01 (b : Bool) : String := if b then "1" else "0"

/-- decoder script: "a<i>", "d" -/
def decScript (data : List (BitVec 8)) (script : List String) : List String := Id.run do
  match newRangeDecoder 8 { inp := data } with
  | .panic m => return ["panic:" ++ m]
  | .fuel => return ["fuel"]
  | .ok (g0, err) =>
    if err != Go.Err.nil then return ["init " ++ errName err]
    let mut g := g0
    let mut probs : Array (BitVec 16) := Array.replicate 8 1024#16
    let mut out : Array String := #[s!"init nil {g.nrange.toNat} {g.code.toNat} {g.br.inp.length}"]
    for tok in script do
      match tok.toList with
      | 'a' :: i :: _ =>
        let pi := digit i
        let (b, err, g', p') := rangeDecoder_DecodeBit g (probs.getD pi 0#16)
        g := g'
        probs := probs.setIfInBounds pi p'
        out := out.push s!"{b.toNat} {errName err} {g.nrange.toNat} {g.code.toNat} {g.br.inp.length} {p'.toNat} {b01 (rangeDecoder_possiblyAtEnd g)}"
      | 'd' :: _ =>
        let (b, err, g') := rangeDecoder_DirectDecodeBit g
        g := g'
        out := out.push s!"{b.toNat} {errName err} {g.nrange.toNat} {g.code.toNat} {g.br.inp.length} {(probs.getD 0 0#16).toNat} {b01 (rangeDecoder_possiblyAtEnd g)}"
      | _ => out := out.push "bad-token"
    return out.toList

def unhexList (s : String) : List (BitVec 8) :=
  let v (c : Char) : Nat := if c.toNat ≥ 97 then c.toNat - 87 else c.toNat - 48
  let rec go : List Char → List (BitVec 8)
    | a :: b :: r => BitVec.ofNat 8 (v a * 16 + v b) :: go r
    | _ => []
  go s.toList

/-- pure functions: one request, one reply -/
def fn (args : List String) : String :=
  match args with
  | ["probstep", p] => match p.toNat? with
    | some p => s!"{(prob_inc (BitVec.ofNat 16 p)).toNat} {(prob_dec (BitVec.ofNat 16 p)).toNat}"
    | none => "bad-op"
  | ["probbound", p, r] => match p.toNat?, r.toNat? with
    | some p, some r => toString (prob_bound (BitVec.ofNat 16 p) (BitVec.ofNat 32 r)).toNat
    | _, _ => "bad-op"
  | ["lenstate", l] => match l.toNat? with
    | some l => toString (lenState (BitVec.ofNat 32 l)).toNat
    | none => "bad-op"
  | ["upd", k, s] => match k.toNat?, s.toNat? with
    | some k, some s =>
      let st : T_state := { (default : T_state) with state := BitVec.ofNat 32 s }
      let r := match k with
        | 0 => state_updateStateLiteral st
        | 1 => state_updateStateMatch st
        | 2 => state_updateStateRep st
        | _ => state_updateStateShortRep st
      toString r.state.toNat
    | _, _ => "bad-op"
  | ["nlz32", x] => match x.toNat? with
    | some x => match nlz32 (BitVec.ofNat 32 x) with
      | .ok n => toString n.toInt
      | .panic m => "panic:" ++ m
      | .fuel => "fuel"
    | none => "bad-op"
  | ["litstate", lc, lp, prev, head] => match lc.toNat?, lp.toNat?, prev.toNat?, head.toNat? with
    | some lc, some lp, some prev, some head =>
      let st : T_state := { (default : T_state) with Properties := { LC := BitVec.ofNat 64 lc, LP := BitVec.ofNat 64 lp, PB := 0#64 } }
      toString (state_litState st (BitVec.ofNat 8 prev) (BitVec.ofNat 64 head)).toNat
    | _, _, _, _ => "bad-op"
  | ["states", s, m, head] => match s.toNat?, m.toNat?, head.toNat? with
    | some s, some m, some head =>
      let st : T_state := { (default : T_state) with state := BitVec.ofNat 32 s, posBitMask := BitVec.ofNat 32 m }
      let (a, b, c) := state_states st (BitVec.ofNat 64 head)
      s!"{a.toNat} {b.toNat} {c.toNat}"
    | _, _, _ => "bad-op"
  | ["padlen", n] => match n.toNat? with
    | some n => toString (padLen (BitVec.ofNat 64 n)).toInt
    | none => "bad-op"
  | ["decdict", c] => match c.toNat? with
    | some c => let (n, e) := DecodeDictCap (BitVec.ofNat 8 c); s!"{n.toInt} {errName e}"
    | none => "bad-op"
  | ["encdict", n] => match n.toNat? with
    | some n => match EncodeDictCap 64 (BitVec.ofNat 64 n) with
      | .ok c => toString c.toNat
      | .panic m => "panic:" ++ m
      | .fuel => "fuel"
    | none => "bad-op"
  | ["verifyflags", c] => match c.toNat? with
    | some c => errName (verifyFlags (BitVec.ofNat 8 c))
    | none => "bad-op"
  | ["propsforcode", c] => match c.toNat? with
    | some c => let (p, e) := PropertiesForCode (BitVec.ofNat 8 c); s!"{p.LC.toInt} {p.LP.toInt} {p.PB.toInt} {errName e}"
    | none => "bad-op"
  | ["propscode", lc, lp, pb] => match lc.toNat?, lp.toNat?, pb.toNat? with
    | some lc, some lp, some pb =>
      toString (Properties_Code { LC := BitVec.ofNat 64 lc, LP := BitVec.ofNat 64 lp, PB := BitVec.ofNat 64 pb }).toNat
    | _, _, _ => "bad-op"
  | ["uvarint", h] => match readUvarint 64 { inp := unhexList h } with
    | .ok (x, n, e, r) => s!"{x.toNat} {n.toInt} {errName e} {r.inp.length}"
    | .panic m => "panic:" ++ m
    | .fuel => "fuel"
  | _ => "bad-op"

/-! ### the bit-level codecs (tree, reverse tree, direct, length, distance) on scripts -/

def mkTree (bits : Nat) : T_treeCodec := { probTree := { probs := Array.replicate (2 ^ bits) 1024#16, bits := BitVec.ofNat 8 bits } }
def mkRTree (bits : Nat) : T_treeReverseCodec := { probTree := { probs := Array.replicate (2 ^ bits) 1024#16, bits := BitVec.ofNat 8 bits } }

structure Side where
  t : Array T_treeCodec
  r : Array T_treeReverseCodec
  lc : T_lengthCodec
  dc : T_distCodec
  lit : T_literalCodec

def mkSide : Side :=
  { t := #[mkTree 3, mkTree 6, mkTree 8, mkTree 1],
    r := #[mkRTree 4, mkRTree 1, mkRTree 5, mkRTree 2],
    lc := { choice := #[1024#16, 1024#16], low := Array.replicate 16 (mkTree 3), mid := Array.replicate 16 (mkTree 3), high := mkTree 8 },
    dc := { posSlotCodecs := Array.replicate 4 (mkTree 6),
            posModel := (Array.range 10).map (fun i => mkRTree (((4 + i) / 2) - 1)),
            alignCodec := mkRTree 4 },
    lit := { probs := Array.replicate (0x300 * 4) 1024#16 } }

def encObs (err : Go.Err) (g : T_rangeEncoder) : String :=
  s!"{errName err} {g.low.toNat} {g.nrange.toNat} {g.cacheLen.toInt} {g.lbw.BW.out.length}"

def decObs (err : Go.Err) (v : BitVec 32) (d : T_rangeDecoder) : String :=
  s!"{errName err} {v.toNat} {d.nrange.toNat} {d.code.toNat} {d.br.inp.length}"

/-- script steps are separated by `;`, fields by `,` -/
def codecScript (limit : Nat) (steps : List (List String)) : List String := Id.run do
  let mut g := encInit limit
  let mut es := mkSide
  let mut ds := mkSide
  let mut d : T_rangeDecoder := default
  let mut out : Array String := #[]
  let nat (s : String) : Nat := s.toNat?.getD 0
  let u32 (s : String) : BitVec 32 := BitVec.ofNat 32 (nat s)
  for st in steps do
    let fuel := g.cacheLen.toNat + 200
    match st with
    | ["te", k, v] =>
      match treeCodec_Encode fuel (es.t.getD (nat k) default) g (u32 v) with
      | .ok (err, tc, g') => g := g'; es := { es with t := es.t.setIfInBounds (nat k) tc }; out := out.push (encObs err g)
      | .panic m => return (out.push ("panic:" ++ m)).toList
      | .fuel => out := out.push "fuel"; break
    | ["re", k, v] =>
      match treeReverseCodec_Encode fuel (es.r.getD (nat k) default) (u32 v) g with
      | .ok (err, tc, g') => g := g'; es := { es with r := es.r.setIfInBounds (nat k) tc }; out := out.push (encObs err g)
      | .panic m => return (out.push ("panic:" ++ m)).toList
      | .fuel => out := out.push "fuel"; break
    | ["de", n, v] =>
      match directCodec_Encode fuel (BitVec.ofNat 8 (nat n)) g (u32 v) with
      | .ok (err, g') => g := g'; out := out.push (encObs err g)
      | .panic m => return (out.push ("panic:" ++ m)).toList
      | .fuel => out := out.push "fuel"; break
    | ["le", l, ps] =>
      match lengthCodec_Encode fuel es.lc g (u32 l) (u32 ps) with
      | .ok (err, lc, g') => g := g'; es := { es with lc := lc }; out := out.push (encObs err g)
      | .panic m => return (out.push ("panic:" ++ m)).toList
      | .fuel => out := out.push "fuel"; break
    | ["De", dist, l] =>
      match distCodec_Encode fuel es.dc g (u32 dist) (u32 l) with
      | .ok (err, dc, g') => g := g'; es := { es with dc := dc }; out := out.push (encObs err g)
      | .panic m => return (out.push ("panic:" ++ m)).toList
      | .fuel => out := out.push "fuel"; break
    | ["Le", sy, stt, mb, ls] =>
      match literalCodec_Encode fuel es.lit g (BitVec.ofNat 8 (nat sy)) (u32 stt) (BitVec.ofNat 8 (nat mb)) (u32 ls) with
      | .ok (err, c, g') => g := g'; es := { es with lit := c }; out := out.push (encObs err g)
      | .panic m => return (out.push ("panic:" ++ m)).toList
      | .fuel => out := out.push "fuel"; break
    | ["Ld", stt, mb, ls] =>
      match literalCodec_Decode 200 ds.lit d (u32 stt) (BitVec.ofNat 8 (nat mb)) (u32 ls) with
      | .ok (v, err, c, d') => d := d'; ds := { ds with lit := c }; out := out.push (decObs err (BitVec.setWidth 32 v) d)
      | .panic m => return (out.push ("panic:" ++ m)).toList
      | .fuel => out := out.push "fuel"; break
    | ["close"] =>
      match rangeEncoder_Close fuel g with
      | .ok (err, g') => g := g'; out := out.push (encObs err g)
      | .panic m => return (out.push ("panic:" ++ m)).toList
      | .fuel => out := out.push "fuel"; break
    | ["open"] =>
      match newRangeDecoder 8 { inp := g.lbw.BW.out } with
      | .ok (d', err) =>
        if err != Go.Err.nil then
          out := out.push ("open " ++ errName err)
          return out.toList
        d := d'
        out := out.push s!"open nil {d.nrange.toNat} {d.code.toNat} {d.br.inp.length}"
      | .panic m => return (out.push ("panic:" ++ m)).toList
      | .fuel => out := out.push "fuel"; break
    | ["td", k] =>
      match treeCodec_Decode 200 (ds.t.getD (nat k) default) d with
      | .ok (v, err, tc, d') => d := d'; ds := { ds with t := ds.t.setIfInBounds (nat k) tc }; out := out.push (decObs err v d)
      | .panic m => return (out.push ("panic:" ++ m)).toList
      | .fuel => out := out.push "fuel"; break
    | ["rd", k] =>
      match treeReverseCodec_Decode 200 (ds.r.getD (nat k) default) d with
      | .ok (v, err, tc, d') => d := d'; ds := { ds with r := ds.r.setIfInBounds (nat k) tc }; out := out.push (decObs err v d)
      | .panic m => return (out.push ("panic:" ++ m)).toList
      | .fuel => out := out.push "fuel"; break
    | ["dd", n] =>
      match directCodec_Decode 200 (BitVec.ofNat 8 (nat n)) d with
      | .ok (v, err, d') => d := d'; out := out.push (decObs err v d)
      | .panic m => return (out.push ("panic:" ++ m)).toList
      | .fuel => out := out.push "fuel"; break
    | ["ld", ps] =>
      match lengthCodec_Decode 200 ds.lc d (u32 ps) with
      | .ok (v, err, lc, d') => d := d'; ds := { ds with lc := lc }; out := out.push (decObs err v d)
      | .panic m => return (out.push ("panic:" ++ m)).toList
      | .fuel => out := out.push "fuel"; break
    | ["Dd", l] =>
      match distCodec_Decode 200 ds.dc d (u32 l) with
      | .ok (v, err, dc, d') => d := d'; ds := { ds with dc := dc }; out := out.push (decObs err v d)
      | .panic m => return (out.push ("panic:" ++ m)).toList
      | .fuel => out := out.push "fuel"; break
    | _ => out := out.push "bad-token"
  out := out.push ("out=" ++ hexOf g.lbw.BW.out)
  return out.toList

/-! ### the operation level: encoder.writeLiteral / writeMatch, decoder.readOp on empty dictionaries -/

def mkLen : T_lengthCodec :=
  { choice := #[1024#16, 1024#16], low := Array.replicate 16 (mkTree 3), mid := Array.replicate 16 (mkTree 3), high := mkTree 8 }

/-- `newState(props)` -/
def mkState (lc lp pb : Nat) : T_state :=
  { rep := #[0#32, 0#32, 0#32, 0#32], isMatch := Array.replicate 192 1024#16, isRepG0Long := Array.replicate 192 1024#16,
    isRep := Array.replicate 12 1024#16, isRepG0 := Array.replicate 12 1024#16, isRepG1 := Array.replicate 12 1024#16,
    isRepG2 := Array.replicate 12 1024#16, litCodec := { probs := Array.replicate (0x300 * 2 ^ (lc + lp)) 1024#16 },
    lenCodec := mkLen, repLenCodec := mkLen, distCodec := mkSide.dc, state := 0#32,
    posBitMask := BitVec.ofNat 32 (2 ^ pb - 1),
    Properties := { LC := BitVec.ofNat 64 lc, LP := BitVec.ofNat 64 lp, PB := BitVec.ofNat 64 pb } }

def stateSum (s : T_state) : Nat := Id.run do
  let md := 2 ^ 61 - 1
  let add (h : Nat) (a : Array (BitVec 16)) : Nat := a.foldl (fun h x => ((h * 1000003 + x.toNat) % 2 ^ 64) % md) h
  let lcs (h : Nat) (c : T_lengthCodec) : Nat :=
    let h := add h c.choice
    let h := c.low.foldl (fun h t => add h t.probTree.probs) h
    let h := c.mid.foldl (fun h t => add h t.probTree.probs) h
    add h c.high.probTree.probs
  let mut h := 7
  h := add h s.isMatch
  h := add h s.isRep
  h := add h s.isRepG0
  h := add h s.isRepG1
  h := add h s.isRepG2
  h := add h s.isRepG0Long
  h := add h s.litCodec.probs
  h := lcs h s.lenCodec
  h := lcs h s.repLenCodec
  h := s.distCodec.posSlotCodecs.foldl (fun h t => add h t.probTree.probs) h
  h := s.distCodec.posModel.foldl (fun h t => add h t.probTree.probs) h
  h := add h s.distCodec.alignCodec.probTree.probs
  return h

def stObs (s : T_state) : String :=
  s!"{s.state.toNat} {(s.rep.getD 0 0).toNat} {(s.rep.getD 1 0).toNat} {(s.rep.getD 2 0).toNat} {(s.rep.getD 3 0).toNat}"

def emptyBuf : T_buffer := { data := Array.replicate 4097 0#8, front := 0#64, rear := 0#64 }

def opScript (limit lc lp pb : Nat) (steps : List (List String)) : List String := Id.run do
  let ed0 : T_encoderDict := default
  let edict : T_encoderDict := { ed0 with buf := emptyBuf, head := 0#64, capacity := 4096#64 }
  let e0 : T_encoder := default
  let mut e : T_encoder := { e0 with dict := edict, state := mkState lc lp pb, re := encInit limit }
  let mut d : T_decoder := default
  let mut out : Array String := #[]
  let nat (s : String) : Nat := s.toNat?.getD 0
  for st in steps do
    let fuel := e.re.cacheLen.toNat + 600
    match st with
    | ["wl", b] =>
      match encoder_writeLiteral fuel e { b := BitVec.ofNat 8 (nat b) } with
      | .ok (err, e') => e := e'; out := out.push s!"{errName err} {e.re.low.toNat} {e.re.nrange.toNat} {e.re.cacheLen.toInt} {e.re.lbw.BW.out.length} {stObs e.state}"
      | .panic m => return (out.push ("panic:" ++ m)).toList
      | .fuel => return (out.push "fuel").toList
    | ["wm", dist, n] =>
      match encoder_writeMatch fuel e { distance := BitVec.ofNat 64 (nat dist), n := BitVec.ofNat 64 (nat n) } with
      | .ok (err, e') => e := e'; out := out.push s!"{errName err} {e.re.low.toNat} {e.re.nrange.toNat} {e.re.cacheLen.toInt} {e.re.lbw.BW.out.length} {stObs e.state}"
      | .panic m => return (out.push ("panic:" ++ m)).toList
      | .fuel => return (out.push "fuel").toList
    | ["sume"] => out := out.push s!"sum {stateSum e.state}"
    | ["sumd"] => out := out.push s!"sum {stateSum d.State}"
    | ["close"] =>
      match rangeEncoder_Close fuel e.re with
      | .ok (err, r) => e := { e with re := r }; out := out.push s!"{errName err} {r.low.toNat} {r.nrange.toNat} {r.cacheLen.toInt} {r.lbw.BW.out.length}"
      | .panic m => return (out.push ("panic:" ++ m)).toList
      | .fuel => return (out.push "fuel").toList
    | ["open"] =>
      match newRangeDecoder 8 { inp := e.re.lbw.BW.out } with
      | .ok (rd, err) =>
        if err != Go.Err.nil then return (out.push ("open " ++ errName err)).toList
        let dict0 : T_decoderDict := { buf := emptyBuf, head := 0#64 }
        let d0 : T_decoder := default
        d := { d0 with Dict := dict0, State := mkState lc lp pb, rd := rd, size := BitVec.ofInt 64 (-1) }
        out := out.push "open nil"
      | .panic m => return (out.push ("panic:" ++ m)).toList
      | .fuel => return (out.push "fuel").toList
    | ["ro"] =>
      match decoder_readOp 600 d with
      | .ok (op, err, d') =>
        d := d'
        let ops := match op with
          | .none => "none"
          | .lit v => s!"lit:{v.b.toNat}"
          | .match_ v => s!"match:{v.distance.toInt}:{v.n.toInt}"
        out := out.push s!"{errName err} {ops} {d.rd.nrange.toNat} {d.rd.code.toNat} {d.rd.br.inp.length} {stObs d.State} {b01 d.eosMarker}"
      | .panic m => return (out.push ("panic:" ++ m)).toList
      | .fuel => return (out.push "fuel").toList
    | _ => out := out.push "bad-token"
  return out.toList

/-- `byteat <enc 0|1> <hex data> <front> <rear> <head> <capacity> <dist>` -/
def byteAt (args : List String) : String :=
  match args with
  | [enc, h, fr, re, hd, cp, dist] =>
    let nat (s : String) : Nat := s.toNat?.getD 0
    let buf : T_buffer := { data := (unhexList h).toArray, front := BitVec.ofNat 64 (nat fr), rear := BitVec.ofNat 64 (nat re) }
    let ed0 : T_encoderDict := default
    let ed : T_encoderDict := { ed0 with buf := buf, head := BitVec.ofNat 64 (nat hd), capacity := BitVec.ofNat 64 (nat cp) }
    let dd : T_decoderDict := { buf := buf, head := BitVec.ofNat 64 (nat hd) }
    let dv : BitVec 64 := BitVec.ofInt 64 (dist.toInt?.getD 0)
    let r := if enc == "1" then encoderDict_ByteAt ed dv else decoderDict_byteAt dd dv
    match r with
    | .ok b => toString b.toNat
    | .panic m => "panic:" ++ m
    | .fuel => "fuel"
  | _ => "bad-op"

/-! ### the HashTable4 table maintenance: putEntry / getMatches on scripts -/

def htScript (capacity exp : Nat) (steps : List (List String)) : List String := Id.run do
  let g0 : T_hashTable := default
  let mut g : T_hashTable := { g0 with t := Array.replicate (2 ^ exp) 0#64, data := Array.replicate capacity 0#32, front := 0#64,
                                       mask := BitVec.ofNat 64 (2 ^ exp - 1), hoff := BitVec.ofInt 64 (-4), wordLen := 4#64 }
  let mut out : Array String := #[]
  for st in steps do
    match st with
    | ["p", h] =>
      g := { g with hoff := g.hoff + 1#64 }
      match hashTable_putEntry g (BitVec.ofNat 64 (h.toNat?.getD 0)) g.hoff with
      | .ok g' => g := g'; out := out.push s!"{g.front.toInt} {(hashTable_buffered g).toInt}"
      | .panic m => return (out.push ("panic:" ++ m)).toList
      | .fuel => return (out.push "fuel").toList
    | ["g", h] =>
      match hashTable_getMatches 40 g (BitVec.ofNat 64 (h.toNat?.getD 0)) (Array.replicate 16 0#64) with
      | .ok (n, pos) =>
        out := out.push (" ".intercalate (toString n.toInt :: (List.range n.toNat).map (fun k => toString (pos.getD k 0#64).toInt)))
      | .panic m => return (out.push ("panic:" ++ m)).toList
      | .fuel => return (out.push "fuel").toList
    | _ => out := out.push "bad-token"
  return out.toList

def handle (args : List String) : String :=
  match args with
  | "enc" :: limit :: script => match limit.toNat? with
    | some l => "|".intercalate (encScript l script)
    | none => "bad-op"
  | "dec" :: h :: script => "|".intercalate (decScript (unhexList h) script)
  | "fn" :: rest => fn rest
  | "op" :: limit :: lc :: lp :: pb :: steps => match limit.toNat?, lc.toNat?, lp.toNat?, pb.toNat? with
    | some l, some lc, some lp, some pb => "|".intercalate (opScript l lc lp pb (steps.map (fun st => st.splitOn ",")))
    | _, _, _, _ => "bad-op"
  | "byteat" :: rest => byteAt rest
  | "ht" :: cap :: exp :: steps => match cap.toNat?, exp.toNat? with
    | some c, some e => "|".intercalate (htScript c e (steps.map (fun st => st.splitOn ",")))
    | _, _ => "bad-op"
  | "codec" :: limit :: steps => match limit.toNat? with
    | some l => "|".intercalate (codecScript l (steps.map (fun st => st.splitOn ",")))
    | none => "bad-op"
  | _ => "bad-op"

end GoSrcRun
