import XzVerif.Gen.GoSrc
/-
  Model.GoSrcRun — runs the REGENERATED translation of the Go source (Gen/GoSrc.lean) on scripts, for the driver.
  Purpose: validation of the TRANSLATOR (harness/xlate.go, part of the trusted base): the real Go functions and their
  translations are executed on the same scripts and every observation must be equal (`xlate-exec` tie).  Core-only.
-/
namespace GoSrcRun
open GoSrc

def errName : Go.Err → String
  | .nil => "nil"
  | .named s => s
  | .new s => "new:" ++ s

def hexDigit (n : Nat) : Char := if n < 10 then Char.ofNat (48 + n) else Char.ofNat (87 + n)

def hexOf (l : List (BitVec 8)) : String :=
  String.ofList (l.flatMap (fun b => [hexDigit (b.toNat / 16), hexDigit (b.toNat % 16)]))

def encInit (limit : Nat) : T_rangeEncoder :=
  { lbw := { BW := { out := [] }, N := BitVec.ofNat 64 limit }, nrange := 0xffffffff#32, low := 0#64,
    cacheLen := 1#64, cache := 0#8 }

def encLine (err : Go.Err) (g : T_rangeEncoder) (p : BitVec 16) : String :=
  s!"{errName err} {g.low.toNat} {g.nrange.toNat} {g.cacheLen.toInt} {g.cache.toNat} {g.lbw.N.toInt} {g.lbw.BW.out.length} {p.toNat}"

def digit (c : Char) : Nat := c.toNat - 48

/-- encoder script: "a<i><bit>", "d<bit>", "c" -/
def encScript (limit : Nat) (script : List String) : List String := Id.run do
  let mut g := encInit limit
  let mut probs : Array (BitVec 16) := Array.replicate 8 1024#16
  let mut out : Array String := #[]
  for tok in script do
    let cs := tok.toList
    let fuel := g.cacheLen.toNat + 16
    match cs with
    | 'a' :: i :: b :: _ =>
      let pi := digit i
      match rangeEncoder_EncodeBit fuel g (BitVec.ofNat 32 (digit b)) (probs.getD pi 0#16) with
      | .ok (err, g', p') =>
        g := g'
        probs := probs.setIfInBounds pi p'
        out := out.push (encLine err g p')
      | .panic m => out := out.push ("panic:" ++ m); break
      | .fuel => out := out.push "fuel"; break
    | 'd' :: b :: _ =>
      match rangeEncoder_DirectEncodeBit fuel g (BitVec.ofNat 32 (digit b)) with
      | .ok (err, g') =>
        g := g'
        out := out.push (encLine err g (probs.getD 0 0#16))
      | .panic m => out := out.push ("panic:" ++ m); break
      | .fuel => out := out.push "fuel"; break
    | 'c' :: _ =>
      match rangeEncoder_Close fuel g with
      | .ok (err, g') =>
        g := g'
        out := out.push (encLine err g (probs.getD 0 0#16))
      | .panic m => out := out.push ("panic:" ++ m); break
      | .fuel => out := out.push "fuel"; break
    | _ => out := out.push "bad-token"
  out := out.push ("out=" ++ hexOf g.lbw.BW.out)
  return out.toList

def b01 (b : Bool) : String := if b then "1" else "0"

/-- decoder script: "a<i>", "d" -/
def decScript (data : List (BitVec 8)) (script : List String) : List String := Id.run do
  match newRangeDecoder 8 { inp := data } with
  | .panic m => return ["panic:" ++ m]
  | .fuel => return ["fuel"]
  | .ok (g0, err) =>
    if err != Go.Err.nil then return ["init " ++ errName err]
    let mut g := g0
    let mut probs : Array (BitVec 16) := Array.replicate 8 1024#16
    let mut out : Array String := #[s!"init nil {g.nrange.toNat} {g.code.toNat} {g.br.inp.length}"]
    for tok in script do
      match tok.toList with
      | 'a' :: i :: _ =>
        let pi := digit i
        let (b, err, g', p') := rangeDecoder_DecodeBit g (probs.getD pi 0#16)
        g := g'
        probs := probs.setIfInBounds pi p'
        out := out.push s!"{b.toNat} {errName err} {g.nrange.toNat} {g.code.toNat} {g.br.inp.length} {p'.toNat} {b01 (rangeDecoder_possiblyAtEnd g)}"
      | 'd' :: _ =>
        let (b, err, g') := rangeDecoder_DirectDecodeBit g
        g := g'
        out := out.push s!"{b.toNat} {errName err} {g.nrange.toNat} {g.code.toNat} {g.br.inp.length} {(probs.getD 0 0#16).toNat} {b01 (rangeDecoder_possiblyAtEnd g)}"
      | _ => out := out.push "bad-token"
    return out.toList

def unhexList (s : String) : List (BitVec 8) :=
  let v (c : Char) : Nat := if c.toNat ≥ 97 then c.toNat - 87 else c.toNat - 48
  let rec go : List Char → List (BitVec 8)
    | a :: b :: r => BitVec.ofNat 8 (v a * 16 + v b) :: go r
    | _ => []
  go s.toList

/-- pure functions: one request, one reply -/
def fn (args : List String) : String :=
  match args with
  | ["probstep", p] => match p.toNat? with
    | some p => s!"{(prob_inc (BitVec.ofNat 16 p)).toNat} {(prob_dec (BitVec.ofNat 16 p)).toNat}"
    | none => "bad-op"
  | ["probbound", p, r] => match p.toNat?, r.toNat? with
    | some p, some r => toString (prob_bound (BitVec.ofNat 16 p) (BitVec.ofNat 32 r)).toNat
    | _, _ => "bad-op"
  | ["lenstate", l] => match l.toNat? with
    | some l => toString (lenState (BitVec.ofNat 32 l)).toNat
    | none => "bad-op"
  | ["upd", k, s] => match k.toNat?, s.toNat? with
    | some k, some s =>
      let st : T_state := { (default : T_state) with state := BitVec.ofNat 32 s }
      let r := match k with
        | 0 => state_updateStateLiteral st
        | 1 => state_updateStateMatch st
        | 2 => state_updateStateRep st
        | _ => state_updateStateShortRep st
      toString r.state.toNat
    | _, _ => "bad-op"
  | ["nlz32", x] => match x.toNat? with
    | some x => match nlz32 (BitVec.ofNat 32 x) with
      | .ok n => toString n.toInt
      | .panic m => "panic:" ++ m
      | .fuel => "fuel"
    | none => "bad-op"
  | ["litstate", lc, lp, prev, head] => match lc.toNat?, lp.toNat?, prev.toNat?, head.toNat? with
    | some lc, some lp, some prev, some head =>
      let st : T_state := { (default : T_state) with Properties := { LC := BitVec.ofNat 64 lc, LP := BitVec.ofNat 64 lp, PB := 0#64 } }
      toString (state_litState st (BitVec.ofNat 8 prev) (BitVec.ofNat 64 head)).toNat
    | _, _, _, _ => "bad-op"
  | ["states", s, m, head] => match s.toNat?, m.toNat?, head.toNat? with
    | some s, some m, some head =>
      let st : T_state := { (default : T_state) with state := BitVec.ofNat 32 s, posBitMask := BitVec.ofNat 32 m }
      let (a, b, c) := state_states st (BitVec.ofNat 64 head)
      s!"{a.toNat} {b.toNat} {c.toNat}"
    | _, _, _ => "bad-op"
  | ["padlen", n] => match n.toNat? with
    | some n => toString (padLen (BitVec.ofNat 64 n)).toInt
    | none => "bad-op"
  | ["decdict", c] => match c.toNat? with
    | some c => let (n, e) := DecodeDictCap (BitVec.ofNat 8 c); s!"{n.toInt} {errName e}"
    | none => "bad-op"
  | ["encdict", n] => match n.toNat? with
    | some n => match EncodeDictCap 64 (BitVec.ofNat 64 n) with
      | .ok c => toString c.toNat
      | .panic m => "panic:" ++ m
      | .fuel => "fuel"
    | none => "bad-op"
  | ["uvarint", h] => match readUvarint 64 { inp := unhexList h } with
    | .ok (x, n, e, r) => s!"{x.toNat} {n.toInt} {errName e} {r.inp.length}"
    | .panic m => "panic:" ++ m
    | .fuel => "fuel"
  | _ => "bad-op"

def handle (args : List String) : String :=
  match args with
  | "enc" :: limit :: script => match limit.toNat? with
    | some l => "|".intercalate (encScript l script)
    | none => "bad-op"
  | "dec" :: h :: script => "|".intercalate (decScript (unhexList h) script)
  | "fn" :: rest => fn rest
  | _ => "bad-op"

end GoSrcRun
