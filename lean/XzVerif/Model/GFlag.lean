/-
  Model.GFlag — the command line of gxz: `internal/gflag` (Parse, parseArg, processExtraFlagArg,
  the value types) instantiated with the option set of cmd/gxz/main.go, and the per-file plan of
  `processFile` / `targetName` / `newWriter` (cmd/gxz/file.go after fixes F9, F12).  Core-only.
-/
namespace GFlag

inductive HasArg where
  | required | noArg | optional
  deriving DecidableEq, Repr

/-- the options of gxz -/
inductive Opt where
  | help | stdout | decompress | force | keep | license | version   -- bool, optional argument
  | quiet | verbose                                                  -- counter, optional argument
  | format | cpuprofile                                              -- string, required argument
  | preset (n : Nat)                                                 -- -0 … -9, no argument
  deriving DecidableEq, Repr

def Opt.hasArg : Opt → HasArg
  | .format | .cpuprofile => .required
  | .preset _ => .noArg
  | _ => .optional

def longOpt (name : String) : Option Opt :=
  match name with
  | "help" => some .help | "stdout" => some .stdout | "decompress" => some .decompress
  | "force" => some .force | "format" => some .format | "keep" => some .keep
  | "license" => some .license | "version" => some .version | "quiet" => some .quiet
  | "verbose" => some .verbose | "cpuprofile" => some .cpuprofile | _ => none

def shortOpt (c : Char) : Option Opt :=
  match c with
  | 'h' => some .help | 'c' => some .stdout | 'd' => some .decompress | 'f' => some .force
  | 'F' => some .format | 'k' => some .keep | 'L' => some .license | 'V' => some .version
  | 'q' => some .quiet | 'v' => some .verbose
  | '0' => some (.preset 0) | '1' => some (.preset 1) | '2' => some (.preset 2) | '3' => some (.preset 3)
  | '4' => some (.preset 4) | '5' => some (.preset 5) | '6' => some (.preset 6) | '7' => some (.preset 7)
  | '8' => some (.preset 8) | '9' => some (.preset 9) | _ => none

structure Opts where
  help : Bool := false
  stdout : Bool := false
  decompress : Bool := false
  force : Bool := false
  keep : Bool := false
  license : Bool := false
  version : Bool := false
  quiet : Int := 0
  verbose : Int := 0
  preset : Nat := 6
  format : String := "auto"
  cpuprofile : String := ""
  deriving DecidableEq, Repr

/-- strconv.ParseBool -/
def parseBool (s : String) : Option Bool :=
  if s ∈ ["1", "t", "T", "TRUE", "true", "True"] then some true
  else if s ∈ ["0", "f", "F", "FALSE", "false", "False"] then some false
  else none

/-- the decimal subset of strconv.ParseInt(s, 0, 0): optional sign, digits without a leading
    zero (a leading zero selects another base in Go; the generator avoids those forms) -/
def parseInt (s : String) : Option Int :=
  let (neg, body) :=
    if s.startsWith "-" then (true, (s.drop 1).toString) else if s.startsWith "+" then (false, (s.drop 1).toString) else (false, s)
  if body.isEmpty ∨ !body.all Char.isDigit ∨ (body.length > 1 ∧ body.startsWith "0") ∨ body.length > 18 then none
  else match body.toNat? with
    | some n => some (if neg then -(n : Int) else n)
    | none => none

/-- `Value.Update` -/
def update (o : Opts) : Opt → Opts
  | .help => { o with help := true } | .stdout => { o with stdout := true }
  | .decompress => { o with decompress := true } | .force => { o with force := true }
  | .keep => { o with keep := true } | .license => { o with license := true }
  | .version => { o with version := true }
  | .quiet => { o with quiet := o.quiet + 1 } | .verbose => { o with verbose := o.verbose + 1 }
  | .format => o | .cpuprofile => o
  | .preset n => { o with preset := n }

/-- `Value.Set`; none = error -/
def set (o : Opts) (f : Opt) (s : String) : Option Opts :=
  let b (g : Bool → Opts) := (parseBool s).map g
  match f with
  | .help => b (fun v => { o with help := v }) | .stdout => b (fun v => { o with stdout := v })
  | .decompress => b (fun v => { o with decompress := v }) | .force => b (fun v => { o with force := v })
  | .keep => b (fun v => { o with keep := v }) | .license => b (fun v => { o with license := v })
  | .version => b (fun v => { o with version := v })
  | .quiet => (parseInt s).map (fun v => { o with quiet := v })
  | .verbose => (parseInt s).map (fun v => { o with verbose := v })
  | .format => some { o with format := s }
  | .cpuprofile => some { o with cpuprofile := s }
  | .preset _ => (parseInt s).map (fun v => { o with preset := v.toNat })

def startsWithDash (s : String) : Bool := s.startsWith "-"

/-- `processExtraFlagArg`: the flag may take the next argument. `rest` are the arguments from
    position i on. Returns the options and the remaining arguments, or none on error. -/
def processExtra (o : Opts) (f : Opt) (rest : List String) : Option (Opts × List String) :=
  match f.hasArg with
  | .noArg => some (update o f, rest)
  | .required =>
    match rest with
    | a :: rest' => if a.isEmpty ∨ !startsWithDash a then (set o f a).map (fun o' => (o', rest')) else none
    | [] => none
  | .optional =>
    match rest with
    | a :: rest' =>
      if a.isEmpty ∨ !startsWithDash a then
        match set o f a with
        | some o' => some (o', rest')
        | none => some (update o f, rest)
      else some (update o f, rest)
    | [] => some (update o f, rest)

/-- the short options bundled in one argument -/
def processShorts (o : Opts) : List Char → List String → Option (Opts × List String)
  | [], rest => some (o, rest)
  | c :: cs, rest =>
    match shortOpt c with
    | none => none
    | some f =>
      match processExtra o f rest with
      | none => none
      | some (o', rest') => processShorts o' cs rest'

/-- `FlagSet.Parse`: returns options and operands (in order), or none = usage error (exit 2).
    `acc` are the operands kept so far (reversed). -/
def parseGo : Nat → Opts → List String → List String → Option (Opts × List String)
  | 0, _, _, _ => none
  | _ + 1, o, acc, [] => some (o, acc.reverse)
  | fuel + 1, o, acc, arg :: rest =>
    if arg.length < 2 ∨ !startsWithDash arg then parseGo fuel o (arg :: acc) rest
    else if arg.startsWith "--" then
      if arg.length = 2 then some (o, acc.reverse ++ rest)
      else
        let body := (arg.drop 2).toString
        match body.splitOn "=" with
        | [name] =>
          if name.length < 2 then none else
          match longOpt name with
          | none => none
          | some f =>
            match processExtra o f rest with
            | none => none
            | some (o', rest') => parseGo fuel o' acc rest'
        | name :: vparts =>
          if name.length < 2 then none else
          match longOpt name with
          | none => none
          | some f =>
            if f.hasArg = .noArg then none
            else match set o f ("=".intercalate vparts) with
              | none => none
              | some o' => parseGo fuel o' acc rest
        | [] => none
    else
      match processShorts o (arg.drop 1).toString.toList rest with
      | none => none
      | some (o', rest') => parseGo fuel o' acc rest'

def parse (args : List String) : Option (Opts × List String) :=
  parseGo (2 * args.length + 2) {} [] args

/-! ### per-file plan -/

def normalizeFormat (o : Opts) : Option String :=
  match o.format with
  | "xz" => some "xz" | "lzma" => some "lzma" | "alone" => some "lzma"
  | "auto" => if o.decompress then some "auto" else some "xz"
  | _ => none

/-- what a file's first bytes look like -/
inductive Content where
  | plain | xz | lzma
  deriving DecidableEq, Repr

inductive Action where
  | fail                                   -- message, exit status 1, nothing changes
  | toStdout                               -- output on stdout, input kept
  | toFile (target : String) (keep : Bool) -- output under `target`, input kept or removed
  deriving DecidableEq, Repr

def hasSuffix (s suf : String) : Bool := s.endsWith suf
def dropSuffix (s suf : String) : String := (s.dropEnd suf.length).toString

/-- `targetName` for a format already resolved to "xz" or "lzma" -/
def targetName (path fmt : String) (decompress : Bool) : Option String :=
  if path.isEmpty then none else
  let ext := "." ++ fmt
  let tarExt := if fmt = "lzma" then ".tlz" else ".txz"
  if !decompress then
    if hasSuffix path ext ∨ hasSuffix path tarExt then none else some (path ++ ext)
  else if hasSuffix path ext then some (dropSuffix path ext)
  else if hasSuffix path tarExt then some (dropSuffix path tarExt ++ ".tar")
  else none

/-- the plan for one regular, readable file operand -/
def plan (o : Opts) (fmt : String) (path : String) (content : Content) (targetExists : Bool) : Action :=
  -- format: fixed, or detected from the content when decompressing with "auto"
  let fmt? : Option String :=
    if o.decompress then
      match fmt, content with
      | "auto", .xz => some "xz"
      | "auto", .lzma => some "lzma"
      | "auto", .plain => none
      | "xz", .xz => some "xz"
      | "lzma", .lzma => some "lzma"
      | _, _ => none
    else some fmt
  match fmt? with
  | none => .fail
  | some f =>
    if o.stdout then .toStdout
    else match targetName path f o.decompress with
      | none => .fail
      | some t => if targetExists ∧ !o.force then .fail else .toFile t o.keep

end GFlag
