import XzVerif.Model.LazyDec2
import XzVerif.Model.Xz
/-
  Model.LazyXz — the xz reader as the code runs it: reader.go (`NewReader`, `Reader.Read` with the multi-stream /
  padding / SingleStream logic, `newStreamReader`, `streamReader.Read`, `readTail`, `newBlockReader`,
  `blockReader.Read` with its size checks on every call, padding and check verification, `record`) and
  lzmafilter.go (`reader`: dictionary = max(header, config)), on top of the lazy LZMA2 reader of
  Model/LazyDec2.lean.  The parsers of headers, index and footer are those of Model/Xz.lean (`readStreamHeader`,
  `readBlockHeader`, `readTail`).  What the batch model `Xz.read` cannot express is here: which call returns what —
  a Read that ends exactly at a block or stream boundary, the checks made before an LZMA2-level error surfaces, the
  clean end only after the source reported end of input.  The source delivers the whole input and then io.EOF or —
  `srcErr` — an error of its own (C09): no clean end is possible then.  Core-only.
-/
namespace LazyXz
open Lzma Xz LazyDec LazyDec2

structure Blk where
  hdr : BlockHeader
  start : Nat                    -- source position where the block's LZMA2 data starts (countingReader at 0)
  n : Nat := 0                   -- blockReader.n
  r2 : R2
  data : ByteArray := ByteArray.empty   -- what the hash has seen

structure Sr where
  flags : Nat
  index : Array (Nat × Nat) := #[]
  br : Option Blk := none

structure X where
  inp : ByteArray
  pos : Nat                      -- source position while no block reader is active
  cfgCap : Nat                   -- ReaderConfig.DictCap after fill
  single : Bool
  sr : Option Sr
  srcErr : Bool := false         -- the source fails (error other than io.EOF) where `inp` ends

def oerr (s : String) : RStat := .err (.other s)

def ofStatus : Status → RStat
  | .eof => .eof
  | .unexpectedEOF => .err .unexpectedEOF
  | .err w => .err (.other w)

/-- the parsers of Model/Xz.lean report `.unexpectedEOF` exactly where they run out of input: with a failing source
    that is the source's error (io.ReadFull and the byte reader hand it on; only io.EOF is translated) -/
def ofStatusE (srcErr : Bool) : Status → RStat
  | .unexpectedEOF => if srcErr then .err .src else .err .unexpectedEOF
  | st => ofStatus st

/-- `newStreamReader`: `.ok sr`, or padding, or an error (`.eof` = no byte left) -/
inductive NS where
  | ok (sr : Sr) (pos : Nat)
  | padding (pos : Nat)
  | fail (st : RStat)

def newStreamReaderE (srcErr : Bool) (inp : ByteArray) (pos : Nat) : NS :=
  match readStreamHeader inp pos with
  | .cleanEnd => .fail (if srcErr then .err .src else .eof)
  | .padding => .padding (pos + 4)
  | .fail st => .fail (ofStatusE srcErr st)
  | .ok flags => .ok { flags := flags } (pos + 12)

def newStreamReader (inp : ByteArray) (pos : Nat) : NS := newStreamReaderE false inp pos

/-- `ReaderConfig{DictCap, SingleStream}.NewReader` -/
def newReaderE (srcErr : Bool) (cfgCap : Nat) (single : Bool) (inp : ByteArray) : Except RStat X :=
  -- `ReaderConfig.Verify` checks the capacity through a temporary lzma.Reader2Config (0 is accepted as "default") but
  -- does NOT store a default: with DictCap 0 the dictionary of a block is just the size its header declares
  if cfgCap ≠ 0 ∧ (cfgCap < 4096 ∨ cfgCap > 2 ^ 32 - 1) then .error (oerr "dictionary capacity is out of range") else
  let cap := cfgCap
  match newStreamReaderE srcErr inp 0 with
  | .fail .eof => .error (.err .unexpectedEOF)
  | .fail st => .error st
  | .padding _ => .error (oerr "padding (4 zero bytes) encountered")
  | .ok sr pos => .ok { inp := inp, pos := pos, cfgCap := cap, single := single, sr := some sr, srcErr := srcErr }

def newReader (cfgCap : Nat) (single : Bool) (inp : ByteArray) : Except RStat X := newReaderE false cfgCap single inp

/-- `blockReader.Read` for `len > 0`: (state, bytes, status); `none` state = the block is finished -/
def blockRead (x : X) (sr : Sr) (b : Blk) (len : Nat) : X × Sr × ByteArray × RStat :=
  let (r2', out, st) := LazyDec2.read b.r2 len
  let b := { b with r2 := r2', n := b.n + out.size, data := b.data ++ out }
  let csz := r2'.srcPos - b.start
  let keep (st : RStat) : X × Sr × ByteArray × RStat := (x, { sr with br := some b }, out, st)
  let tooBigU : Bool := match b.hdr.usize with | some u => decide (b.n > u) | none => false
  let tooBigC : Bool := match b.hdr.csize with | some c => decide (csz > c) | none => false
  if tooBigU then keep (oerr "wrong uncompressed size for block")
  else if tooBigC then keep (oerr "wrong compressed size for block")
  else if st ≠ .eof then keep st
  else
  let shortU : Bool := match b.hdr.usize with | some u => decide (b.n < u) | none => false
  let shortC : Bool := match b.hdr.csize with | some c => decide (csz < c) | none => false
  if shortU || shortC then keep (.err .unexpectedEOF) else
  let s := (checkSize sr.flags).getD 0
  let k := padLen csz
  let p := r2'.srcPos
  if p + k + s > x.inp.size then keep (if x.srcErr then .err .src else .err .unexpectedEOF) else
  if !allZero x.inp p (p + k) then keep (oerr "non-zero block padding") else
  let stored := x.inp.extract (p + k) (p + k + s)
  let computed := checkValue sr.flags b.data 0 b.data.size
  if stored.toList ≠ computed.toList then keep (oerr "checksum error for block") else
  -- io.EOF: streamReader.Read appends the record and drops the block reader
  ({ x with pos := p + k + s },
   { sr with br := none, index := sr.index.push (b.hdr.len + csz + s, b.n) }, out, .eof)

/-- `streamReader.Read` for `len > 0`; `.eof` = the stream is finished (tail verified) -/
def streamRead (len : Nat) : Nat → X → Sr → ByteArray → X × Sr × ByteArray × RStat
  | 0, x, sr, acc => (x, sr, acc, .err .panic)
  | fuel + 1, x, sr, acc =>
    if acc.size < len then
      match sr.br with
      | none =>
        match readBlockHeader false x.inp x.pos with
        | .fail st => (x, sr, acc, ofStatusE x.srcErr st)
        | .index =>
          let (rd, st) := readTail sr.flags sr.index { inp := x.inp, pos := x.pos, out := ByteArray.empty }
          if st = .eof then ({ x with pos := rd.pos }, sr, acc, .eof) else (x, sr, acc, ofStatusE x.srcErr st)
        | .ok hdr =>
          let cap := max x.cfgCap (dictSize hdr.dictCode)
          let body := x.pos + hdr.len
          let b : Blk := { hdr := hdr, start := body, r2 := newReader2AtE x.srcErr cap x.inp body }
          streamRead len fuel x { sr with br := some b } acc
      | some b =>
        let (x', sr', out, st) := blockRead x sr b (len - acc.size)
        let acc := acc ++ out
        match st with
        | .ok => streamRead len fuel x' sr' acc
        | .eof => streamRead len fuel x' sr' acc
        | e => (x', sr', acc, e)
    else (x, sr, acc, .ok)

/-- the loop of `Reader.Read` -/
def readLoop (len : Nat) : Nat → X → ByteArray → X × ByteArray × RStat
  | 0, x, acc => (x, acc, .err .panic)
  | fuel + 1, x, acc =>
    if acc.size < len then
      match x.sr with
      | none =>
        if x.single then
          if x.pos < x.inp.size then ({ x with pos := x.pos + 1 }, acc, oerr "unexpected data after stream")
          else (x, acc, if x.srcErr then .err .src else .eof)
        else
          -- skip padding words, then a stream header or the end of the input
          let rec skip : Nat → Nat → NS
            | 0, p => .padding p
            | f + 1, p => match newStreamReaderE x.srcErr x.inp p with
              | .padding p' => skip f p'
              | r => r
          match skip (x.inp.size / 4 + 2) x.pos with
          | .ok sr pos => readLoop len fuel { x with pos := pos, sr := some sr } acc
          | .fail st => (x, acc, st)
          | .padding _ => (x, acc, .err .panic)
      | some sr =>
        let (x', sr', out, st) := streamRead (len - acc.size) (len - acc.size + x.inp.size + 4) x sr ByteArray.empty
        let acc := acc ++ out
        match st with
        | .ok => readLoop len fuel { x' with sr := some sr' } acc
        | .eof => readLoop len fuel { x' with sr := none } acc
        | e => ({ x' with sr := some sr' }, acc, e)
    else (x, acc, .ok)

def read (x : X) (len : Nat) : X × ByteArray × RStat := readLoop len (len + x.inp.size + 4) x ByteArray.empty

def readSeq : X → List Nat → List (ByteArray × RStat)
  | _, [] => []
  | x, len :: rest =>
    let (x', out, st) := read x len
    match st with
    | .ok => (out, st) :: readSeq x' rest
    | _ => [(out, st)]

end LazyXz
