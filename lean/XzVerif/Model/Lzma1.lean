import XzVerif.Codec.Lzma2
/-
  Model.Lzma1 — the classic .lzma reader (lzma/reader.go, lzma/header.go) in batch form and the
  classic stream encoder at operation level.
-/
namespace Lzma1
open Lzma Rc Lzma2

def le (b : ByteArray) (off n : Nat) : Nat :=
  (List.range n).foldr (fun i acc => acc * 256 + get b (off + i)) 0

structure Header where
  props : Props
  dictCap : Nat
  size : Option Nat     -- none = unknown (all ones)
  deriving Repr

structure Result where
  out : ByteArray
  status : Status
  openError : Bool := false      -- the error was reported by NewReader, not by Read
  header : Option Header := none
  marker : Bool := false
  ops : Array RawOp := #[]
  consumed : Nat := 0            -- bytes of the input read by the decoder

def minDictCap : Nat := 4096

/-- `ReaderConfig{DictCap: cfgCap}.NewReader` followed by reading to the end.
    `strict`: reject lc + lp > 4 never (classic LZMA allows lc up to 8); kept for symmetry. -/
def read (cfgCap : Nat) (inp : ByteArray) : Result :=
  if inp.size < 13 then
    { out := .empty, status := if inp.size = 0 then .err "unexpected EOF" else .unexpectedEOF, openError := true }
  else
  match propsOfByte (get inp 0) with
  | none => { out := .empty, status := .err "invalid properties code", openError := true }
  | some p =>
    let dc := le inp 1 4
    let sz := le inp 5 8
    if sz ≠ 2 ^ 64 - 1 ∧ sz ≥ 2 ^ 63 then
      { out := .empty, status := .err "uncompressed size out of int64 range", openError := true }
    else
    let size : Option Nat := if sz = 2 ^ 64 - 1 then none else some sz
    let hdr : Header := { props := p, dictCap := dc, size := size }
    let cap := max cfgCap (max dc minDictCap)
    let body := bytesToList inp 13 inp.size
    match Dec.init body with
    | none =>
      { out := .empty, status := initStatus body,
        openError := true, header := some hdr }
    | some rd =>
      let h : Hist := { out := .empty, dictStart := 0, cap := cap }
      let d0 : DecSt := { s := {}, tbl := initTable p.lc p.lp, rd := rd, h := h }
      let fuel := match size with
        | some n => n + 2
        | none => (inp.size + 8) * 400
      let res := decSegment p size 0 false fuel d0
      { out := res.d.h.out, status := res.status, header := some hdr, marker := res.sawMarker,
        ops := res.d.ops, consumed := inp.size - res.d.rd.inp.length }

/-- header of lzma/header.go `marshalBinary` -/
def headerBytes (h : Header) : ByteArray := Id.run do
  let mut o := ByteArray.empty.push (byteOfProps h.props).toUInt8
  for i in [0:4] do
    o := o.push ((h.dictCap / 256 ^ i) % 256).toUInt8
  let s := match h.size with
    | some n => n
    | none => 2 ^ 64 - 1
  for i in [0:8] do
    o := o.push ((s / 256 ^ i) % 256).toUInt8
  return o

/-- operation-level classic encoder: header, operations, optional end marker, flush -/
def encode (h : Header) (ops : Array RawOp) (marker : Bool) : ByteArray :=
  let p := h.props
  let x0 : EncSt := { s := {}, tbl := initTable p.lc p.lp, e := Enc.init, bytes := .empty,
                      h := { out := .empty, dictStart := 0, cap := max h.dictCap minDictCap } }
  let x := ops.foldl (encStep p) x0
  let x := if marker then encStep p x (.mtch 2 eosDist) else x
  headerBytes h ++ encClose x

end Lzma1
