import XzVerif.Model.Writer1
import XzVerif.Model.Writer2F
/-
  Model.Writer1F — the classic .lzma writer of Model/Writer1.lean on a sink that may FAIL (property C09), up to and
  including the call in which the first fault strikes.

  lzma/writer.go reaches the sink in two ways:
  * `plain`: the sink is an `io.Writer` only: `NewWriter` wraps it in a `bufio.Writer` (4096 bytes).  The 13 header
    bytes and every byte of the range encoder go into that buffer; the sink sees one `Write` of exactly 4096 bytes
    each time a byte arrives while the buffer is full, and one final `Write` of what is left from `Close`
    (`buf.Flush()`).  An error of the sink is stored by bufio (sticky): it comes back out of the `WriteByte` that
    triggered the flush — in the middle of an operation of the encoder — and out of every later one, and `Close`
    returns it (from `encoder.Close` or, at the latest, from `buf.Flush()`).
  * `byteWriter`: the sink is an `io.ByteWriter` too: the header is one `Write` of 13 bytes, then every byte of the
    range encoder is one `WriteByte` call on the sink itself.
  A fault plan (Model/Writer2F.lean `Plan`) numbers the sink calls.

  Until a fault strikes the writer is `Model.Writer1` itself (same loops; after every encoded operation the bytes it
  produced are handed on, which is where a fault can surface): which call fails, the count it returns and what the sink
  holds then are exact.  What the half-encoded operation leaves behind (adaptive probabilities, the encoder's cache
  bookkeeping) is NOT modelled: after the failing call only what follows from bufio's sticky error is claimed — with a
  plain sink every later `Close` fails — and the results of other later calls are left open (`.open`); that they never
  panic is searched by the fault enumeration on the real writer, not proved.  Core-only.
-/
namespace W1F
open W1 Lzma Rc Lzma2 W2 W2F

inductive Kind where
  | plain
  | byteWriter
  deriving DecidableEq, Repr, Inhabited

def bufioSize : Nat := 4096

structure FSt (σ : Type) where
  w : W1.St σ
  sunk : ByteArray := ByteArray.empty    -- what the sink has accepted
  calls : Nat := 0                       -- sink calls so far
  given : Nat := 0                       -- bytes of the stream handed to the sink so far (plain: a multiple of 4096)
  failed : Bool := false

variable {σ : Type}

/-- the bytes the writer has produced so far: header and the range encoder's output -/
def produced (c : W1.Cfg) (w : W1.St σ) : ByteArray := Lzma1.headerBytes c.header ++ w.body

/-- one sink call with the bytes `p` -/
def sinkCall (F : Plan) (s : FSt σ) (p : ByteArray) : FSt σ × Bool :=
  match F s.calls with
  | none => ({ s with sunk := s.sunk ++ p, calls := s.calls + 1, given := s.given + p.size }, true)
  | some g => ({ s with sunk := s.sunk ++ p.extract 0 (min (g p.size) p.size), calls := s.calls + 1, failed := true }, false)

/-- hand on what has been produced: plain — a full buffer is written out when one more byte arrives; byteWriter — every
    byte is a call -/
def deliver (k : Kind) (F : Plan) (all : ByteArray) : Nat → FSt σ → FSt σ × Bool
  | 0, s => (s, true)
  | fuel + 1, s =>
    match k with
    | .plain =>
      if all.size > s.given + bufioSize then
        match sinkCall F s (all.extract s.given (s.given + bufioSize)) with
        | (s', true) => deliver k F all fuel s'
        | (s', false) => (s', false)
      else (s, true)
    | .byteWriter =>
      if all.size > s.given then
        match sinkCall F s (all.extract s.given (s.given + 1)) with
        | (s', true) => deliver k F all fuel s'
        | (s', false) => (s', false)
      else (s, true)

def deliverAll (c : W1.Cfg) (k : Kind) (F : Plan) (s : FSt σ) : FSt σ × Bool :=
  let all := produced c s.w
  deliver k F all (all.size + 1) s

inductive Res where
  | done (n : Nat) (e : Option W1.Err)    -- the call returned (n, e) without any sink fault
  | sink (n : Nat)                         -- the call returned (n, the sink's error)
  | open_                                  -- after a fault: not modelled
  | err                                    -- after a fault, plain sink: some error (bufio's stored one)
  deriving Inhabited

/-- `compress` with the produced bytes handed on after every operation; `none` = proposal not encodable -/
def compress (c : W1.Cfg) (M : Matcher σ) (k : Kind) (F : Plan) (all : Bool) : Nat → FSt σ → Option (FSt σ × Bool)
  | 0, s => some (s, true)
  | fuel + 1, s =>
    if s.w.look.size > (if all then 0 else Gen.lzma_maxMatchLen - 1) then
      let (g, m') := M.next s.w.m s.w.hist s.w.look s.w.s
      match W1.encodeOp c { s.w with m := m' } g with
      | none => none
      | some w' =>
        match deliverAll c k F { s with w := w' } with
        | (s', true) => compress c M k F all fuel s'
        | (s', false) => some (s', false)
    else some (s, true)

/-- `encoder.Write`: (state, bytes taken, sink still fine) -/
def encWrite (c : W1.Cfg) (M : Matcher σ) (k : Kind) (F : Plan) (p : ByteArray) : Nat → FSt σ → Nat → Option (FSt σ × Nat × Bool)
  | 0, _, _ => none
  | fuel + 1, s, n =>
    let t := min (p.size - n) (s.w.dictAvail c)
    let s1 := { s with w := { s.w with look := s.w.look ++ p.extract n (n + t) } }
    let n1 := n + t
    if n1 < p.size then
      match compress c M k F false (s1.w.look.size + 1) s1 with
      | none => none
      | some (s2, true) => encWrite c M k F p fuel s2 n1
      | some (s2, false) => some (s2, n1, false)
    else some (s1, n1, true)

/-- `NewWriter`: the header -/
def new (c : W1.Cfg) (k : Kind) (F : Plan) (m0 : σ) : FSt σ × Bool :=
  let s : FSt σ := { w := W1.init c m0 }
  match k with
  | .plain => (s, true)                                      -- into bufio's buffer
  | .byteWriter => sinkCall F s (Lzma1.headerBytes c.header)

/-- `Writer.Write` -/
def write (c : W1.Cfg) (M : Matcher σ) (k : Kind) (F : Plan) (s : FSt σ) (p : ByteArray) : FSt σ × Res :=
  if s.failed then (s, .open_) else
  let (q, cut) : ByteArray × Bool :=
    match c.size with
    | some sz =>
      let m := sz - (s.w.hist.size + s.w.look.size)
      if m < p.size then (p.extract 0 m, true) else (p, false)
    | none => (p, false)
  match encWrite c M k F q (q.size + 2) s 0 with
  | none => (s, .done 0 (some (.other "match finder proposal not encodable")))
  | some (s', n, true) => (s', .done n (if cut then some .noSpace else none))
  | some (s', n, false) => (s', .sink n)

/-- `Writer.Close` -/
def close (c : W1.Cfg) (M : Matcher σ) (k : Kind) (F : Plan) (s : FSt σ) : FSt σ × Res :=
  if s.failed then (s, if k = .plain then .err else .open_) else
  let sizeOk := match c.size with
    | some sz => decide (s.w.hist.size + s.w.look.size = sz)
    | none => true
  if !sizeOk then (s, .done 0 (some .size)) else
  match compress c M k F true (s.w.look.size + 1) s with
  | none => (s, .done 0 (some (.other "match finder proposal not encodable")))
  | some (s1, false) => (s1, .sink 0)
  | some (s1, true) =>
    let (tbl', e') :=
      if c.marker then encPath s1.w.tbl s1.w.e (opEnc (s1.w.ctx c) (.mtch 2 eosDist)) else (s1.w.tbl, s1.w.e)
    let body := (flushOut { e' with out := e'.close } s1.w.body).2
    let s2 := { s1 with w := { s1.w with tbl := tbl', e := e', body := body } }
    match deliverAll c k F s2 with
    | (s3, false) => (s3, .sink 0)
    | (s3, true) =>
      match k with
      | .byteWriter => (s3, .done 0 none)
      | .plain =>
        -- buf.Flush(): what is left, in one call (nothing to do for an empty buffer)
        let all := produced c s3.w
        if all.size > s3.given then
          match sinkCall F s3 (all.extract s3.given all.size) with
          | (s4, true) => (s4, .done 0 none)
          | (s4, false) => (s4, .sink 0)
        else (s3, .done 0 none)

/-- a history `Write* Close …` (every call is issued); per call the result and the sink length after it -/
def run (c : W1.Cfg) (M : Matcher σ) (k : Kind) (F : Plan) : FSt σ → List W1.Call → FSt σ × List (Res × Nat)
  | s, [] => (s, [])
  | s, .write p :: rest =>
    let (s', r) := write c M k F s p
    let (sf, rs) := run c M k F s' rest
    (sf, (r, s'.sunk.size) :: rs)
  | s, .close :: rest =>
    let (s', r) := close c M k F s
    -- a successful Close ends the history (the writer has no closed flag: a second Close is not modelled); after
    -- errSize nothing has happened and the writer goes on
    match r with
    | .done _ none => (s', [(r, s'.sunk.size)])
    | _ =>
      let (sf, rs) := run c M k F s' rest
      (sf, (r, s'.sunk.size) :: rs)

end W1F
