import XzVerif.Model.XzW
import XzVerif.Model.Writer2F
/-
  Model.XzWF — the xz writer (writer.go: `NewWriter`, `Writer.Write`, `Writer.Close`, `newBlockWriter`,
  `closeBlockWriter`, `blockWriter.Write/Close/writeHeader/record`, format.go `writeIndex`) call by call on a sink
  that may FAIL (property C09), on top of the LZMA2 writer on a failing sink (Model/Writer2F.lean).

  Sink calls issued, in order: stream header (1); per block: block header (1), the chunk writes of its Writer2,
  the end-of-stream byte of its Writer2, padding + check in ONE write (possibly of zero bytes); at Close: index
  indicator (1), record count (1), one write per record, index padding (1, possibly empty), index CRC (1), footer (1).
  One fault plan (Model/Writer2F.lean `Plan`) numbers all of them.

  Kept as in Go: `Writer.closed` is set before anything is written by Close, `blockWriter.closed` before its Writer2 is
  closed, so after a failed closing step later calls fail with errClosed; `newBlockWriter` installs the new block
  writer (and its header length) before the header write, so after a failed block header write later calls go on
  with the new block; the Writer2 of a block keeps the error of a failed chunk write; the uncompressed bytes reach
  the check only when the Writer2 took them; `record()` panics when the header length is not positive.
  `f.w.out` of the open block's Writer2 state holds ALL bytes the sink accepted (the writer model never reads it).
  Core-only.
-/
namespace XzWF
open W2 W2F

structure St (σ : Type) where
  f : FSt σ                      -- Writer2 of the current block; `f.w.out` = sink bytes, `f.calls`, `f.hit` global
  blockStart : Nat               -- sink length when the block's LZMA2 writer was created (cxz.n = out.size − blockStart)
  n : Nat := 0                   -- blockWriter.n
  bwClosed : Bool := false       -- blockWriter.closed
  hdrLen : Nat := 0              -- blockWriter.headerLen
  data : ByteArray := ByteArray.empty   -- what the block's hash has seen
  index : List (Nat × Nat) := []
  closed : Bool := false         -- Writer.closed

inductive XErr where
  | closed            -- xz: writer already closed
  | sink
  | w (e : W2.Err)
  deriving Inhabited

def ofF : FErr → XErr
  | .sink => .sink
  | .w e => .w e

variable {σ : Type}

def blockHeader (c : XzW.Cfg) : ByteArray :=
  Xz.blockHeaderBytes { len := 12, csize := none, usize := none, dictCode := Model.encodeDictCap c.w2.dictCap }

/-- one sink call at container level -/
def sw (F : Plan) (s : St σ) (p : ByteArray) : St σ × Bool :=
  let (f', ok) := sinkWrite F s.f p
  ({ s with f := f' }, ok)

/-- `newBlockWriter`: fresh block writer, header length recorded, then the header written -/
def newBlock (c : XzW.Cfg) (F : Plan) (m0 : σ) (s : St σ) : St σ × Bool :=
  let hdr := blockHeader c
  let (f', ok) := sinkWrite F { s.f with w := { W2.init c.w2 m0 with out := s.f.w.out }, err := none } hdr
  ({ s with f := f', blockStart := f'.w.out.size, n := 0, bwClosed := false, hdrLen := hdr.size,
            data := ByteArray.empty }, ok)

/-- `NewWriter` -/
def new (c : XzW.Cfg) (F : Plan) (m0 : σ) : Except XErr (St σ) :=
  let f0 : FSt σ := W2F.init c.w2 m0
  match sinkWrite F f0 (Xz.streamHeader c.flags) with
  | (_, false) => .error .sink
  | (f1, true) =>
    match newBlock c F m0 { f := f1, blockStart := f1.w.out.size } with
    | (_, false) => .error .sink
    | (s, true) => .ok s

structure CallRes where
  n : Nat := 0
  err : Option XErr := none
  panic : Bool := false

/-- `blockWriter.Close` followed by the index record (`closeBlockWriter`) -/
def closeBlock (c : XzW.Cfg) (M : Matcher σ) (F : Plan) (s : St σ) : St σ × CallRes :=
  if s.bwClosed then (s, { err := some .closed }) else
  let s := { s with bwClosed := true }
  let (f', r) := W2F.step c.w2 M F s.f .close
  let s := { s with f := f' }
  if r.panic then (s, { panic := true }) else
  match r.err with
  | some e => (s, { err := some (ofF e) })
  | none =>
    let cn := s.f.w.out.size - s.blockStart
    let pad := Xz.zeros (Xz.padLen cn) ++ Xz.checkValue c.flags s.data 0 s.data.size
    match sw F s pad with
    | (s', false) => (s', { err := some .sink })
    | (s', true) =>
      if s'.hdrLen = 0 then (s', { panic := true }) else
      ({ s' with index := s'.index ++ [(s'.hdrLen + cn + (Xz.checkSize c.flags).getD 0, s'.n)] }, {})

/-- `Writer.Write` (after the closed test) -/
def write (c : XzW.Cfg) (M : Matcher σ) (F : Plan) (m0 : σ) (p : ByteArray) : Nat → St σ → Nat → St σ × CallRes
  | 0, s, n => (s, { n := n, err := some (.w (.other "Write: fuel exhausted")) })
  | fuel + 1, s, n =>
    if s.bwClosed then (s, { n := n, err := some .closed }) else
    let t := c.blockSize - s.n
    let noSpace := decide (p.size - n > t)
    let q := p.extract n (if noSpace then n + t else p.size)
    let (f', r) := W2F.step c.w2 M F s.f (.write q)
    let s := { s with f := f', n := s.n + r.n }
    if r.panic then (s, { n := n + r.n, panic := true }) else
    match r.err with
    | some e => (s, { n := n + r.n, err := some (ofF e) })
    | none =>
      -- the hash sees the bytes only after the LZMA2 writer took all of them
      let s := { s with data := s.data ++ q }
      if noSpace then
        let (s', rc) := closeBlock c M F s
        if rc.panic then (s', { n := n + r.n, panic := true }) else
        match rc.err with
        | some e => (s', { n := n + r.n, err := some e })
        | none =>
          match newBlock c F m0 s' with
          | (s'', false) => (s'', { n := n + r.n, err := some .sink })
          | (s'', true) => write c M F m0 p fuel s'' (n + r.n)
      else (s, { n := n + r.n })

def uvar (n : Nat) : ByteArray := Xz.putUvarint n

/-- `writeIndex` and the footer -/
def finish (c : XzW.Cfg) (F : Plan) (s : St σ) : St σ × CallRes :=
  let recs := s.index
  let pieces : List ByteArray :=
    [ByteArray.empty.push 0, uvar recs.length] ++ recs.map (fun r => uvar r.1 ++ uvar r.2)
  let body := pieces.foldl (· ++ ·) ByteArray.empty
  let padded := body ++ Xz.zeros (Xz.padLen body.size)
  let crc := Hash.le32 (Hash.crc32 padded 0 padded.size)
  let isize := padded.size + 4
  let ft := (Hash.le32 (isize / 4 - 1).toUInt32).push 0 |>.push c.flags.toUInt8
  let footer := Hash.le32 (Hash.crc32 ft 0 6) ++ ft ++ (Xz.footerMagic.foldl (fun a x => a.push x.toUInt8) ByteArray.empty)
  let all := pieces ++ [Xz.zeros (Xz.padLen body.size), crc, footer]
  match sinkWrites F s.f all with
  | (f', false) => ({ s with f := f' }, { err := some .sink })
  | (f', true) => ({ s with f := f' }, {})

inductive Call where
  | write (p : ByteArray)
  | close

def step (c : XzW.Cfg) (M : Matcher σ) (F : Plan) (m0 : σ) (s : St σ) : Call → St σ × CallRes
  | .write p =>
    if s.closed then (s, { err := some .closed }) else
    write c M F m0 p (p.size + 2) s 0
  | .close =>
    if s.closed then (s, { err := some .closed }) else
    let s := { s with closed := true }
    let (s', rc) := closeBlock c M F s
    if rc.panic then (s', { panic := true }) else
    match rc.err with
    | some e => (s', { err := some e })
    | none => finish c F s'

def run (c : XzW.Cfg) (M : Matcher σ) (F : Plan) (m0 : σ) : St σ → List Call → St σ × List (CallRes × Nat)
  | s, [] => (s, [])
  | s, call :: rest =>
    let (s', r) := step c M F m0 s call
    let (sf, rs) := run c M F m0 s' rest
    (sf, (r, s'.f.w.out.size) :: rs)

end XzWF
