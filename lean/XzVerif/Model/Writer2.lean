import XzVerif.Codec.Lzma2
import XzVerif.Model.Chunk
/-
  Model.Writer2 — lzma/writer2.go (`Writer2.Write/Flush/Close`, `flushChunk`, `writeChunk`,
  `writeUncompressedChunk`, `writeCompressedChunk`), lzma/encoder.go (`encoder.Write`, `compress`,
  `writeOp`, `Close`, `Reopen`), lzma/encoderdict.go (the dictionary seen as *history* + *look-ahead*)
  and the byte limit of lzma/rangecodec.go + lzma/bytewriter.go (`Available`, `ErrLimit`) as one
  executable state machine over an **abstract match finder**.

  The match finder is a parameter (`Matcher σ`): any state `σ` with a `next` function that sees what
  Go's `NextOp` can see (the bytes behind the read position, the buffered bytes, the rep registers)
  and proposes a Go `operation` (literal or (distance, length)).  HashTable4, BinaryTree and the
  scripted matcher of the verif shim are instances; the correspondence check replays the operations
  the real matcher returned (`Script`), so the model predicts the sink bytes, the per-call results
  and the chunk layout of the real writer byte for byte without fixing any match-finder heuristic.

  What is kept exactly as in Go (each is a place where a change to the code moves the model):
  * dictionary space: ring capacity `DictCap + BufSize`, `Available = cap − buffered − DictLen`,
    `Len = min(cap − buffered, head)` (used by `ByteAt` and by the raw-chunk decision);
  * `encoder.Write`: fill, on `ErrNoSpace` run `compress(0)` (keep 272 bytes of look-ahead), loop;
  * `writeOp`: the operation is requested first, then refused with `ErrLimit` when
    `Available() < opLenMargin` where `Available = maxCompressed − (bytes written + cacheLen + 4)`;
  * a range-coder byte write fails when `Available() < 1` — also in the middle of an operation and
    inside `rangeEncoder.Close` (`broken` below);
  * `Writer2.Write`: at most `maxUncompressed − written()` bytes per round; chunk flushed on `ErrLimit`
    or when the round was filled completely;
  * `writeChunk`: raw iff `3 + u < headerLen(ctype) + c` and `u ≤ dict.Len()`; raw demotes the chunk
    type (`cLRND → cUD`, else `cU`) and restores the state snapshot; size fields are truncated to
    their width exactly like `uint16(…)`;
  * `flushChunk`: `cstate.next(ctype)` (regenerated graph), `defaultChunkType`, new snapshot.
  Sink writes never fail here (C09 covers failing sinks).  Core-only.
-/
namespace W2
open Lzma Rc Lzma2 Spec

structure Cfg where
  props : Props
  dictCap : Nat
  bufSize : Nat

/-- Go's `operation` as proposed by a match finder: a literal or a match (distance ≥ 1, length) -/
inductive GoOp where
  | lit (b : Nat)
  | mtch (dist len : Nat)
  deriving DecidableEq, Repr, Inhabited

def GoOp.len : GoOp → Nat
  | .lit _ => 1
  | .mtch _ n => n

/-- `encoder.writeMatch`: search the rep registers for the distance (first hit wins) -/
def classify (s : St) : GoOp → RawOp
  | .lit b => .lit b
  | .mtch dist n =>
    let d := dist - 1
    if d = s.r0 then (if n = 1 then .shortRep else .rep 0 n)
    else if d = s.r1 then .rep 1 n
    else if d = s.r2 then .rep 2 n
    else if d = s.r3 then .rep 3 n
    else .mtch n d

/-- the panics of `writeMatch` / `encoderDict.Discard`: what an operation must satisfy to be encoded at all -/
def GoOp.encodable (s : St) (buffered : Nat) : GoOp → Bool
  | .lit b => decide (b < 256) && decide (1 ≤ buffered)
  | .mtch dist n =>
    decide (1 ≤ dist) && decide (dist ≤ 2 ^ 32) &&
    (decide (2 ≤ n ∧ n ≤ Gen.lzma_maxMatchLen) || decide (dist - 1 = s.r0 ∧ n = 1)) &&
    decide (n ≤ buffered)

structure Matcher (σ : Type) where
  /-- state, history (everything behind the read position), look-ahead, coder state → proposal -/
  next : σ → ByteArray → ByteArray → St → GoOp × σ

inductive Err where
  | closed          -- errClosed
  | limit           -- ErrLimit surfaced to the caller (range coder ran into the byte limit)
  | other (what : String)
  deriving DecidableEq, Repr, Inhabited

structure WSt (σ : Type) where
  out : ByteArray := ByteArray.empty     -- bytes handed to the sink
  s : St := {}                           -- encoder.state (state machine + reps)
  tbl : Tbl                              -- encoder.state (probabilities)
  e : Enc := Enc.init                    -- range encoder; `e.out` is moved to `body` after every operation
  body : ByteArray := ByteArray.empty    -- w.buf: range-coded bytes of the open chunk
  hist : ByteArray := ByteArray.empty    -- every byte discarded from the look-ahead (head = hist.size)
  look : ByteArray := ByteArray.empty    -- buffered bytes
  start : Nat := 0                       -- encoder.start
  snapS : St := {}                       -- w.start
  snapTbl : Tbl
  cstate : Nat := Gen.lzma_stateStart
  ctype : Nat := Model.defaultChunkType Gen.lzma_stateStart
  m : σ
  -- ghost state (never read by the machine): chunk list emitted so far and operations of the open chunk
  chunks : Array Chunk := #[]
  curOps : Array RawOp := #[]

variable {σ : Type}

def init (c : Cfg) (m0 : σ) : WSt σ :=
  { tbl := initTable c.props.lc c.props.lp, snapTbl := initTable c.props.lc c.props.lp, m := m0 }

/-! ### dictionary arithmetic (encoderdict.go, buffer.go) -/

def ringCap (c : Cfg) : Nat := c.dictCap + c.bufSize
def WSt.dictLen (c : Cfg) (w : WSt σ) : Nat := min w.hist.size c.dictCap          -- DictLen()
def WSt.bufAvail (c : Cfg) (w : WSt σ) : Nat := ringCap c - w.look.size           -- buf.Available()
def WSt.dictAvail (c : Cfg) (w : WSt σ) : Nat := w.bufAvail c - w.dictLen c       -- Available()
def WSt.lenE (c : Cfg) (w : WSt σ) : Nat := min (w.bufAvail c) w.hist.size        -- Len()
def WSt.compressed (w : WSt σ) : Nat := w.hist.size - w.start                     -- encoder.Compressed()
def WSt.written (w : WSt σ) : Nat := w.compressed + w.look.size                   -- Writer2.written()

def WSt.byteAtE (c : Cfg) (w : WSt σ) (dist : Nat) : Nat :=
  if 0 < dist ∧ dist ≤ w.lenE c then (w.hist.get! (w.hist.size - dist)).toNat else 0

def WSt.ctx (c : Cfg) (w : WSt σ) : Ctx :=
  { st := w.s.st
    ps := w.hist.size % 2 ^ c.props.pb
    litBase := aLit + 0x300 * litState c.props.lc c.props.lp w.hist.size (w.byteAtE c 1)
    matchByte := w.byteAtE c (w.s.r0 + 1) }

/-- `encoderDict.Write`: returns the number of bytes taken -/
def WSt.dictWrite (c : Cfg) (w : WSt σ) (p : ByteArray) (from_ : Nat) : WSt σ × Nat :=
  let k := min (p.size - from_) (w.dictAvail c)
  ({ w with look := w.look ++ p.extract from_ (from_ + k) }, k)

/-! ### range coder with the byte limit -/

/-- bytes the closed range coder would occupy minus 4: `lbw` bytes written + `cacheLen` -/
def WSt.digits (w : WSt σ) : Nat := w.body.size + w.e.out.length + w.e.cacheLen

/-- `rangeEncoder.writeByte` refused: a shiftLow that writes while `Available() < 1` -/
def overflow (base : Nat) (e e' : Enc) : Bool :=
  decide (e'.out.length > e.out.length) && decide (Gen.lzma_maxCompressed < base + e.out.length + e.cacheLen + 5)

def encPathChk (base : Nat) : Tbl → Enc → Path → Option (Tbl × Enc)
  | t, e, [] => some (t, e)
  | t, e, (.adaptive a, b) :: π =>
    let e' := e.step ⟨some (t.get a), b⟩
    if overflow base e e' then none else encPathChk base (t.upd a (pm.next (t.get a) b)) e' π
  | t, e, (.direct, b) :: π =>
    let e' := e.step ⟨none, b⟩
    if overflow base e e' then none else encPathChk base t e' π

/-- `rangeEncoder.Close`: five checked shiftLows; `none` = ErrLimit -/
def closeChk (base : Nat) : Nat → Enc → Option Enc
  | 0, e => some e
  | n + 1, e =>
    let e' := e.shiftLow
    if overflow base e e' then none else closeChk base n e'

inductive OpRes (σ : Type) where
  | ok (w : WSt σ)
  | limit (w : WSt σ)       -- ErrLimit before anything was encoded
  | broken (w : WSt σ)      -- ErrLimit in the middle of an operation / panic: the writer is unusable
  | bad (w : WSt σ) (what : String)   -- the match finder proposed something writeMatch/Discard panic on

/-- `writeOp` after the margin test + `Discard` -/
def encodeOp (c : Cfg) (w : WSt σ) (g : GoOp) : OpRes σ :=
  if !g.encodable w.s w.look.size then .bad w "operation not encodable" else
  let op := classify w.s g
  match encPathChk w.body.size w.tbl w.e (opEnc (w.ctx c) op) with
  | none => .broken w
  | some (tbl', e') =>
    let (e'', body') := flushOut e' w.body
    let n := g.len
    .ok { w with s := w.s.apply op, tbl := tbl', e := e'', body := body',
                 hist := w.hist ++ w.look.extract 0 n, look := w.look.extract n w.look.size,
                 curOps := w.curOps.push op }

/-- `encoder.compress`: `all = false` keeps `maxMatchLen − 1` bytes of look-ahead -/
def compress (c : Cfg) (M : Matcher σ) (all : Bool) : Nat → WSt σ → OpRes σ
  | 0, w => .ok w
  | fuel + 1, w =>
    if w.look.size > (if all then 0 else Gen.lzma_maxMatchLen - 1) then
      let (g, m') := M.next w.m w.hist w.look w.s
      let w := { w with m := m' }
      if Gen.lzma_maxCompressed < w.digits + 4 + Gen.lzma_opLenMargin then .limit w
      else match encodeOp c w g with
        | .ok w' => compress c M all fuel w'
        | r => r
    else .ok w

/-- `encoder.Write`: (state, bytes taken, result) -/
def encWrite (c : Cfg) (M : Matcher σ) (p : ByteArray) : Nat → WSt σ → Nat → OpRes σ × Nat
  | 0, w, n => (.bad w "encoder.Write: fuel exhausted", n)
  | fuel + 1, w, n =>
    let (w1, k) := w.dictWrite c p n
    let n1 := n + k
    if n1 < p.size then
      -- ErrNoSpace
      match compress c M false (w1.look.size + 1) w1 with
      | .ok w2 => encWrite c M p fuel w2 n1
      | .limit w2 => (.limit w2, n1)
      | .broken w2 => (.broken w2, n1)
      | .bad w2 s => (.bad w2 s, n1)
    else (.ok w1, n1)

/-! ### chunks -/

def hdrByte (ctype : Nat) : Nat :=
  if ctype = Gen.lzma_cUD then Gen.lzma_hUD else if ctype = Gen.lzma_cU then Gen.lzma_hU
  else if ctype = Gen.lzma_cL then Gen.lzma_hL else if ctype = Gen.lzma_cLR then Gen.lzma_hLR
  else if ctype = Gen.lzma_cLRN then Gen.lzma_hLRN else if ctype = Gen.lzma_cLRND then Gen.lzma_hLRND
  else Gen.lzma_hEOS

def headerLenOf (ctype : Nat) : Nat := (Gen.headerLen.getD ctype none).getD 0

def kindOf (ctype : Nat) : ChunkKind := (Model.kindOfCtype ctype).getD .eos

/-- `writeUncompressedChunk` (sink writes succeed) -/
def writeRaw (c : Cfg) (w : WSt σ) : Except Err (WSt σ) :=
  let u := w.compressed
  if u = 0 then .error (.other "can't write empty uncompressed chunk") else
  let ctype := Model.demote w.ctype
  let raw := w.hist.extract (w.hist.size - min u (w.lenE c)) w.hist.size
  let hdr := (ByteArray.empty.push (hdrByte ctype).toUInt8) ++ be16 ((u - 1) % 65536)
  let w' := { w with ctype := ctype, s := w.snapS, tbl := w.snapTbl, out := w.out ++ hdr ++ raw,
                     chunks := w.chunks.push { kind := kindOf ctype, usize := raw.size, raw := raw } }
  if u > w.lenE c then .error (.other "insufficient space") else .ok w'

/-- `writeCompressedChunk` -/
def writeLz (c : Cfg) (w : WSt σ) : Except Err (WSt σ) :=
  let u := w.compressed
  if u = 0 then .error (.other "writeCompressedChunk: empty chunk") else
  let hasProps := decide (w.ctype = Gen.lzma_cLRN) || decide (w.ctype = Gen.lzma_cLRND)
  let hdr := (ByteArray.empty.push (hdrByte w.ctype + ((u - 1) / 65536) % 32).toUInt8) ++
    be16 ((u - 1) % 65536) ++ be16 ((w.body.size - 1) % 65536)
  let hdr := if hasProps then hdr.push (byteOfProps c.props).toUInt8 else hdr
  .ok { w with out := w.out ++ hdr ++ w.body,
               chunks := w.chunks.push { kind := kindOf w.ctype, usize := 0,
                                         props := if hasProps then some c.props else none, ops := w.curOps } }

def writeChunk (c : Cfg) (w : WSt σ) : Except Err (WSt σ) :=
  let u := 3 + w.compressed
  let cc := headerLenOf w.ctype + w.body.size
  if u < cc ∧ w.compressed ≤ w.lenE c then writeRaw c w else writeLz c w

/-- `encoder.Close` (no end marker in LZMA2) -/
def encClose (c : Cfg) (M : Matcher σ) (w : WSt σ) : Except Err (WSt σ) :=
  let fin (w : WSt σ) : Except Err (WSt σ) :=
    match closeChk w.body.size 5 w.e with
    | none => .error .limit
    | some e' =>
      let (e'', body') := flushOut e' w.body
      .ok { w with e := e'', body := body' }
  match compress c M true (w.look.size + 1) w with
  | .ok w' => fin w'
  | .limit w' => fin w'
  | .broken _ => .error .limit
  | .bad _ s => .error (.other s)

def flushChunk (c : Cfg) (M : Matcher σ) (w : WSt σ) : Except Err (WSt σ) :=
  if w.written = 0 then .ok w else
  match encClose c M w with
  | .error e => .error e
  | .ok w1 =>
    match writeChunk c w1 with
    | .error e => .error e
    | .ok w2 =>
      match Model.chunkNext w2.cstate w2.ctype with
      | none => .error (.other "unexpected chunk type")
      | some cs' =>
        .ok { w2 with body := ByteArray.empty, e := Enc.init, start := w2.hist.size, cstate := cs',
                      ctype := Model.defaultChunkType cs', snapS := w2.s, snapTbl := w2.tbl, curOps := #[] }

/-- `Writer2.Write` -/
def write (c : Cfg) (M : Matcher σ) (p : ByteArray) : Nat → WSt σ → Nat → WSt σ × Nat × Option Err
  | 0, w, n => (w, n, some (.other "Write: fuel exhausted"))
  | fuel + 1, w, n =>
    if n < p.size then
      let m := Gen.lzma_maxUncompressed - w.written
      if m = 0 then (w, n, some (.other "maxUncompressed reached")) else
      let hi := if n + m < p.size then n + m else p.size
      let q := p.extract n hi
      match encWrite c M q (q.size + 2) w 0 with
      | (.bad w' s, k) => (w', n + k, some (.other s))
      | (.broken w', k) =>
        -- ErrLimit from the middle of an operation: flushChunk → encoder.Close → compress(all) asks the match
        -- finder once more, refuses the operation, and rangeEncoder.Close fails
        (if w'.look.size > 0 then { w' with m := (M.next w'.m w'.hist w'.look w'.s).2 } else w', n + k, some .limit)
      | (.limit w', k) =>
        match flushChunk c M w' with
        | .error e => (w', n + k, some e)
        | .ok w'' => write c M p fuel w'' (n + k)
      | (.ok w', k) =>
        if k = m then
          match flushChunk c M w' with
          | .error e => (w', n + k, some e)
          | .ok w'' => write c M p fuel w'' (n + k)
        else write c M p fuel w' (n + k)
    else (w, n, none)

def flushLoop (c : Cfg) (M : Matcher σ) : Nat → WSt σ → Except Err (WSt σ)
  | 0, _ => .error (.other "Flush: fuel exhausted")
  | fuel + 1, w =>
    if w.written > 0 then
      match flushChunk c M w with
      | .error e => .error e
      | .ok w' => flushLoop c M fuel w'
    else .ok w

inductive Call where
  | write (p : ByteArray)
  | flush
  | close

structure CallRes where
  n : Nat := 0
  err : Option Err := none

def WSt.closed (w : WSt σ) : Bool := w.cstate = Gen.lzma_stateStop

def step (c : Cfg) (M : Matcher σ) (w : WSt σ) : Call → WSt σ × CallRes
  | .write p =>
    if w.closed then (w, { err := some .closed }) else
    let (w', n, err) := write c M p (2 * p.size + w.written + 2) w 0
    (w', { n := n, err := err })
  | .flush =>
    if w.closed then (w, { err := some .closed }) else
    match flushLoop c M (w.written + 1) w with
    | .error e => (w, { err := some e })
    | .ok w' => (w', {})
  | .close =>
    if w.closed then (w, { err := some .closed }) else
    match flushLoop c M (w.written + 1) w with
    | .error e => (w, { err := some e })
    | .ok w' => ({ w' with out := w'.out.push 0, cstate := Gen.lzma_stateStop,
                           chunks := w'.chunks.push { kind := .eos, usize := 0 } }, {})

/-- run a call history; returns the final state and, per call, the result and the sink length after it -/
def run (c : Cfg) (M : Matcher σ) : WSt σ → List Call → WSt σ × List (CallRes × Nat)
  | w, [] => (w, [])
  | w, call :: rest =>
    let (w', r) := step c M w call
    let (wf, rs) := run c M w' rest
    (wf, (r, w'.out.size) :: rs)

/-! ### the scripted match finder: replays a recorded list of proposals -/

def Script : Matcher (List GoOp) where
  next := fun l _ _ _ =>
    match l with
    | [] => (.mtch 0 0, [])      -- exhausted: not encodable, the run stops with `bad`
    | g :: r => (g, r)

end W2
