import XzVerif.Gen.Consts
import XzVerif.Gen.Tables
import XzVerif.Spec.Lzma2Chunks
/-
  Model.Chunk — the chunk state machine of lzma/header2.go (`chunkState.next`,
  `defaultChunkType`, `headerChunkType`) taken from the regenerated graphs of the real
  functions, and the chunk-type choice of lzma/writer2.go (`flushChunk` / `writeChunk` /
  `writeUncompressedChunk`).
-/
namespace Model
open Spec

/-- Go's numbering of chunk types (constants regenerated from the source) -/
def ctypeOf : ChunkKind → Nat
  | .eos => Gen.lzma_cEOS | .ud => Gen.lzma_cUD | .u => Gen.lzma_cU | .l => Gen.lzma_cL
  | .lr => Gen.lzma_cLR | .lrn => Gen.lzma_cLRN | .lrnd => Gen.lzma_cLRND

def kindOfCtype (c : Nat) : Option ChunkKind := ChunkKind.all.find? (fun k => ctypeOf k = c)

/-- `chunkState.next` as a lookup in the regenerated graph; `none` = error -/
def chunkNext (s c : Nat) : Option Nat :=
  match Gen.chunkNext.find? (fun r => r.1 = s ∧ r.2.1 = c) with
  | some r => r.2.2
  | none => none

def defaultChunkType (s : Nat) : Nat :=
  match Gen.defaultChunkType.find? (fun r => r.1 = s) with
  | some r => r.2
  | none => Gen.lzma_cEOS

/-- Reader2: run `next` over a sequence of chunk headers, starting in state `start` -/
def readerRun : Nat → List ChunkKind → Option Nat
  | s, [] => some s
  | s, k :: ks => match chunkNext s (ctypeOf k) with
    | none => none
    | some s' => readerRun s' ks

def readerAccepts (ks : List ChunkKind) : Bool := (readerRun Gen.lzma_stateStart ks).isSome

def readerFirstReject : Nat → List ChunkKind → Nat → Option Nat
  | _, [], _ => none
  | s, k :: ks, i => match chunkNext s (ctypeOf k) with
    | none => some i
    | some s' => readerFirstReject s' ks (i + 1)

/-- `writeUncompressedChunk`: `switch w.ctype { case cLRND: cUD; default: cU }` -/
def demote (c : Nat) : Nat := if c = Gen.lzma_cLRND then Gen.lzma_cUD else Gen.lzma_cU

/-- Writer2's chunk-type bookkeeping over a sequence of flushed chunks; `raw = true` means
    `writeChunk` chose the uncompressed form.  Returns the emitted chunk types and the final
    state, or `none` if `cstate.next` failed (the writer would return an error). -/
def writerRun : Nat → List Bool → Option (List Nat × Nat)
  | s, [] => some ([], s)
  | s, raw :: rs =>
    let c := if raw then demote (defaultChunkType s) else defaultChunkType s
    match chunkNext s c with
    | none => none
    | some s' => match writerRun s' rs with
      | none => none
      | some (cs, sf) => some (c :: cs, sf)

end Model
