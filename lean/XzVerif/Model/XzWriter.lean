/-
  Model.XzWriter — the block bookkeeping of writer.go (`Writer.Write`, `blockWriter.Write`, `closeBlockWriter`,
  `newBlockWriter`, `Writer.Close`): how the bytes of a call history are distributed over blocks.  The LZMA2
  payload of each block is the Writer2 machine (Model/Writer2.lean), the container around the blocks is
  `Xz.buildStream` (Model/Xz.lean); this file is the part in between: which bytes go to which block.
  Core-only.
-/
namespace XW

structure St where
  blocks : List Nat := []     -- uncompressed sizes of the closed blocks, oldest first
  cur : Nat := 0              -- bytes in the open block (`bw.n`)
  closed : Bool := false
  deriving Repr, DecidableEq

/-- `Writer.Write` for `len` bytes with block size `bs`: the loop around `blockWriter.Write`
    (`t := blockSize − n; if len(p) > t { p = p[:t]; err = errNoSpace }`), closing the block and opening a new
    one on `errNoSpace` -/
def writeLoop (bs : Nat) : Nat → St → Nat → St
  | 0, st, _ => st
  | fuel + 1, st, len =>
    let t := bs - st.cur
    if len > t then
      writeLoop bs fuel { st with blocks := st.blocks ++ [st.cur + t], cur := 0 } (len - t)
    else { st with cur := st.cur + len }

inductive Res where
  | ok (n : Nat)
  | closed            -- errClosed
  deriving Repr, DecidableEq

def write (bs : Nat) (st : St) (len : Nat) : St × Res :=
  if st.closed then (st, .closed) else (writeLoop bs (len + 2) st len, .ok len)

/-- `Writer.Close`: the open block is closed whatever it holds -/
def close (st : St) : St × Res :=
  if st.closed then (st, .closed) else ({ blocks := st.blocks ++ [st.cur], cur := 0, closed := true }, .ok 0)

/-- a history of Write lengths followed by Close -/
def run (bs : Nat) (lens : List Nat) : St :=
  (close (lens.foldl (fun st l => (write bs st l).1) {})).1

end XW
