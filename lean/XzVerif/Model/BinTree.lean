import XzVerif.Model.HashTable
/-
  Model.BinTree — the candidate search of the BinaryTree match finder (lzma/bintree.go: `WriteByte`, `add`,
  `remove`, `parent`, `search`, `min`/`max`, `pred`/`succ`, `distance`, `xval`, and the iterators of `NextOp`)
  and the complete match finder as an instance of `W2.Matcher` (`BT4`): binary search tree over the four-byte
  words of the last `capacity` positions + ring-level selection (Model/Select.lean).  Core-only.
-/
namespace BT
open Ring W2

def null : Nat := 2 ^ 32 - 1

structure Node where
  x : Nat := 0
  p : Nat := 0
  l : Nat := 0
  r : Nat := 0
  deriving Inhabited

structure Tree where
  node : Array Node
  n : Nat := 0          -- bytes written (`hoff = n − 4`)
  front : Nat := 0
  root : Nat := null
  x : Nat := 0          -- the last four bytes, big endian (uint32)

def Tree.new (capacity : Nat) : Tree := { node := Array.replicate capacity {} }

def Tree.nd (t : Tree) (v : Nat) : Node := t.node.getD v {}

def Tree.setL (t : Tree) (v l : Nat) : Tree := { t with node := t.node.setIfInBounds v { t.nd v with l := l } }
def Tree.setR (t : Tree) (v r : Nat) : Tree := { t with node := t.node.setIfInBounds v { t.nd v with r := r } }
def Tree.setP (t : Tree) (v p : Nat) : Tree := { t with node := t.node.setIfInBounds v { t.nd v with p := p } }

/-- `add(v)`: descend from the root (`x ≤ pn.x` goes left) -/
def Tree.add (t : Tree) (v : Nat) : Tree :=
  let t := (t.setL v null).setR v null
  if t.root = null then { t.setP v null with root := v } else
  let x := (t.nd v).x
  let rec go : Nat → Tree → Nat → Tree
    | 0, t, _ => t
    | fuel + 1, t, p =>
      let pn := t.nd p
      if x ≤ pn.x then
        if pn.l = null then (t.setL p v).setP v p else go fuel t pn.l
      else
        if pn.r = null then (t.setR p v).setP v p else go fuel t pn.r
  go (t.node.size + 1) t t.root

/-- `*ptr = c` for the pointer `parent(v)` returned (taken before any modification) -/
def Tree.setPtr (t : Tree) (isRoot : Bool) (p : Nat) (left : Bool) (c : Nat) : Tree :=
  if isRoot then { t with root := c } else if left then t.setL p c else t.setR p c

/-- `remove(v)` -/
def Tree.remove (t : Tree) (v : Nat) : Tree :=
  let vn := t.nd v
  let isRoot := decide (t.root = v)
  let p := if isRoot then null else vn.p
  let left := decide ((t.nd p).l = v)
  let l := vn.l
  let r := vn.r
  if l = null then
    let t := t.setPtr isRoot p left r
    if r ≠ null then t.setP r p else t
  else if r = null then
    (t.setPtr isRoot p left l).setP l p
  else
    let ur := (t.nd l).r
    if ur = null then
      ((((t.setR l r).setP r l).setP l p).setPtr isRoot p left l)
    else
      let rec rightmost : Nat → Nat → Nat
        | 0, u => u
        | fuel + 1, u => let ur := (t.nd u).r; if ur = null then u else rightmost fuel ur
      let u := rightmost (t.node.size + 1) ur
      let ul := (t.nd u).l
      let up := (t.nd u).p
      let t := t.setR up ul
      let t := if ul ≠ null then t.setP ul up else t
      let t := (t.setL u l).setR u r
      let t := (t.setP l u).setP r u
      (t.setPtr isRoot p left u).setP u p

/-- `WriteByte` -/
def Tree.writeByte (t : Tree) (c : UInt8) : Tree :=
  let t := { t with x := (t.x * 256 + c.toNat) % 2 ^ 32, n := t.n + 1 }
  if t.n < 4 then t else
  let hoff := t.n - 4
  let v := t.front
  let t := if v < hoff then t.remove v else t
  let t := { t with node := t.node.setIfInBounds v { t.nd v with x := t.x } }
  let t := t.add v
  { t with front := if t.front + 1 ≥ t.node.size then 0 else t.front + 1 }

def Tree.write (t : Tree) (p : ByteArray) (lo hi : Nat) : Tree :=
  (List.range (hi - lo)).foldl (fun t k => t.writeByte (p.get! (lo + k))) t

/-- `search(v, x)`: (largest node < x on the path or null, smallest node ≥ x on the path or null; equal on a hit) -/
def Tree.search (t : Tree) (v x : Nat) : Nat × Nat :=
  if v = null then (null, null) else
  let rec go : Nat → Nat → Nat → Nat → Nat × Nat
    | 0, _, a, b => (a, b)
    | fuel + 1, v, a, b =>
      let vn := t.nd v
      if x ≤ vn.x then
        if x = vn.x then (v, v)
        else if vn.l = null then (a, v) else go fuel vn.l a v
      else
        if vn.r = null then (v, b) else go fuel vn.r v b
  go (t.node.size + 1) v null null

def Tree.max (t : Tree) (v : Nat) : Nat :=
  if v = null then null else
  let rec go : Nat → Nat → Nat
    | 0, v => v
    | fuel + 1, v => let r := (t.nd v).r; if r = null then v else go fuel r
  go (t.node.size + 1) v

def Tree.min (t : Tree) (v : Nat) : Nat :=
  if v = null then null else
  let rec go : Nat → Nat → Nat
    | 0, v => v
    | fuel + 1, v => let l := (t.nd v).l; if l = null then v else go fuel l
  go (t.node.size + 1) v

def Tree.pred (t : Tree) (v : Nat) : Nat :=
  if v = null then null else
  let u := t.max (t.nd v).l
  if u ≠ null then u else
  let rec go : Nat → Nat → Nat
    | 0, _ => null
    | fuel + 1, v =>
      let p := (t.nd v).p
      if p = null then null else if (t.nd p).r = v then p else go fuel p
  go (t.node.size + 1) v

def Tree.succ (t : Tree) (v : Nat) : Nat :=
  if v = null then null else
  let u := t.min (t.nd v).r
  if u ≠ null then u else
  let rec go : Nat → Nat → Nat
    | 0, _ => null
    | fuel + 1, v =>
      let p := (t.nd v).p
      if p = null then null else if (t.nd p).l = v then p else go fuel p
  go (t.node.size + 1) v

/-- `distance(v)`: the word of node `v` starts `distance` bytes before the head -/
def Tree.distance (t : Tree) (v : Nat) : Nat :=
  (if t.front > v then t.front - v else t.front + t.node.size - v) + 3

/-- `xval`: the first up to four bytes, big endian, left aligned -/
def xval (a : ByteArray) : Nat :=
  (if a.size ≥ 1 then (a.get! 0).toNat * 2 ^ 24 else 0) + (if a.size ≥ 2 then (a.get! 1).toNat * 2 ^ 16 else 0) +
  (if a.size ≥ 3 then (a.get! 2).toNat * 2 ^ 8 else 0) + (if a.size ≥ 4 then (a.get! 3).toNat else 0)

/-- the candidate lists `binTree.NextOp` draws from its iterators for the look-ahead `data` (≤ 273 bytes),
    each cut after 40 entries (more than the check budget of 32) -/
def Tree.cands (t : Tree) (data : ByteArray) : Bool × List Nat × List Nat :=
  let x := xval data
  let (u, v) := t.search t.root x
  if u = v ∧ data.size = 4 then
    let rec sp : Nat → Nat → List Nat → List Nat
      | 0, _, acc => acc.reverse
      | fuel + 1, u, acc =>
        if u = null then acc.reverse else
        let acc := t.distance u :: acc
        let (u', v') := t.search (t.nd u).l x
        sp fuel (if u' ≠ v' then null else u') acc
    (true, sp 40 u [], [])
  else
    let rec su : Nat → Nat → List Nat → List Nat
      | 0, _, acc => acc.reverse
      | fuel + 1, v, acc => if v = null then acc.reverse else su fuel (t.succ v) (t.distance v :: acc)
    let rec pr : Nat → Nat → List Nat → List Nat
      | 0, _, acc => acc.reverse
      | fuel + 1, u, acc => if u = null then acc.reverse else pr fuel (t.pred u) (t.distance u :: acc)
    (false, su 40 v [], pr 40 u [])

/-! ### the complete match finder as a `W2.Matcher` -/

structure St where
  tree : Tree
  d : EDict
  wlen : Nat := 0
  rlen : Nat := 0

def St.new (dictCap bufSize : Nat) : St := { tree := Tree.new dictCap, d := EDict.new dictCap bufSize }

/-- bring ring and tree up to date with `hist ++ look` / `hist` (same scheme as `HT.St.sync`) -/
def St.sync (s : St) (hist look : ByteArray) : St :=
  let L := s.d.buf.len
  let hs := hist.size
  let data1 := if s.wlen < hs then HT.ringStore s.d.buf.data (s.wlen % L) hist s.wlen hs else s.d.buf.data
  let w1 := max s.wlen hs
  let data2 := HT.ringStore data1 (w1 % L) look (w1 - hs) look.size
  let w2 := hs + look.size
  let tree := s.tree.write hist s.rlen hs
  { tree := tree, wlen := w2, rlen := hs,
    d := { s.d with head := hs, buf := { data := data2, front := w2 % L, rear := hs % L } } }

def BT4 : Matcher St where
  next := fun s hist look st =>
    let s := s.sync hist look
    let data := s.d.buf.peek 273
    let (special, a, b) := s.tree.cands data
    match Sel.nextOpBT s.d special a b st.r0 with
    | .op g => (g, s)
    | .panic => (.mtch 0 0, s)

end BT
