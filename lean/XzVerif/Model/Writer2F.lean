import XzVerif.Model.Writer2
/-
  Model.Writer2F — the LZMA2 writer of Model/Writer2.lean on a sink that may FAIL (property C09).

  lzma/writer2.go hands bytes to the underlying `io.Writer` in exactly three places:
  * `writeUncompressedChunk`: the 3-byte header (one `Write`), then `encoderDict.CopyN`, which cuts the chunk's bytes
    at the physical end of the ring (`DictCap + BufSize + 1` cells, read pointer `rear = head mod cells`): one `Write`
    when the `u` bytes before `rear` do not wrap, otherwise two (`u − rear` bytes, then `rear` bytes — the second
    possibly empty);
  * `writeCompressedChunk`: the header (one `Write`), then `io.Copy(w.w, &w.buf)` = one `Write` of the whole body;
  * `Close`: the end-of-stream byte (one `Write`).
  A *fault plan* `F` says for the k-th sink call (k = 0, 1, …) whether it succeeds (`none`) or fails after accepting
  `g len` bytes (`some g`, clamped to `len`).  Every plan is allowed: fail once, fail for ever, partial writes, any
  mixture — the theorems quantify over all of them.

  What is kept as in Go: the error of a failed chunk write is stored (`Writer2.err`, set in `flushChunk`; the
  repair of F18) and returned by every later `Write`, `Flush` and `Close`; `Close` whose end-of-stream byte fails
  returns the error, stays open and is not sticky; the explicit panics of `writeCompressedChunk` /
  `writeUncompressedChunk` are outcomes of the model (`panic := true`), so "no call panics" is a statement about it.
  Everything that does not touch the sink is `Model.Writer2` itself (`encWrite`, `encClose`, `writeChunk`, the chunk
  automaton).  Core-only.
-/
namespace W2F
open W2 Lzma Rc Lzma2

/-- fault plan: behaviour of the k-th sink `Write` call -/
abbrev Plan := Nat → Option (Nat → Nat)

inductive FErr where
  | sink                 -- the error the sink returned
  | w (e : W2.Err)       -- an error of the writer itself
  deriving Inhabited

structure FSt (σ : Type) where
  w : WSt σ                      -- state of the writer; `w.out` = the bytes the sink has accepted
  calls : Nat := 0               -- number of sink `Write` calls so far
  err : Option FErr := none      -- Writer2.err
  hit : Bool := false            -- ghost: some sink call has failed

variable {σ : Type}

def init (c : Cfg) (m0 : σ) : FSt σ := { w := W2.init c m0 }

/-- one `Write` call on the sink; `true` = success -/
def sinkWrite (F : Plan) (s : FSt σ) (p : ByteArray) : FSt σ × Bool :=
  match F s.calls with
  | none => ({ s with w := { s.w with out := s.w.out ++ p }, calls := s.calls + 1 }, true)
  | some g => ({ s with w := { s.w with out := s.w.out ++ p.extract 0 (min (g p.size) p.size) },
                        calls := s.calls + 1, hit := true }, false)

def sinkWrites (F : Plan) : FSt σ → List ByteArray → FSt σ × Bool
  | s, [] => (s, true)
  | s, p :: ps =>
    match sinkWrite F s p with
    | (s', true) => sinkWrites F s' ps
    | (s', false) => (s', false)

/-- the raw-chunk decision of `writeChunk` -/
def rawChosen (c : Cfg) (w : WSt σ) : Bool :=
  decide (3 + w.compressed < headerLenOf w.ctype + w.body.size ∧ w.compressed ≤ w.lenE c)

/-- the explicit panics on the path of `writeChunk` (state after `encoder.Close`) -/
def panics (c : Cfg) (w : WSt σ) : Bool :=
  decide (0 < w.compressed) &&
  (decide (Gen.lzma_maxUncompressed < w.compressed) ||
   (!rawChosen c w &&
     (decide (w.ctype = Gen.lzma_cU) || decide (w.ctype = Gen.lzma_cUD) || decide (w.body.size = 0) ||
      decide (Gen.lzma_maxCompressed < w.body.size))))

/-- the sink calls `writeChunk` issues: `w` before, `w2` after the (fault-free) `W2.writeChunk` -/
def segments (c : Cfg) (w w2 : WSt σ) : List ByteArray :=
  let nb := w2.out.extract w.out.size w2.out.size
  if rawChosen c w then
    let hdr := nb.extract 0 3
    let pay := nb.extract 3 nb.size
    let rear := w.hist.size % (ringCap c + 1)
    if pay.size > rear then [hdr, pay.extract 0 (pay.size - rear), pay.extract (pay.size - rear) pay.size]
    else [hdr, pay]
  else
    let hl := headerLenOf w.ctype
    [nb.extract 0 hl, nb.extract hl nb.size]

inductive Res (σ : Type) where
  | ok (s : FSt σ)
  | err (s : FSt σ) (e : FErr)
  | panic (s : FSt σ)

/-- `flushChunk` -/
def flushChunk (c : Cfg) (M : Matcher σ) (F : Plan) (s : FSt σ) : Res σ :=
  if s.w.written = 0 then .ok s else
  match encClose c M s.w with
  | .error e => .err s (.w e)
  | .ok w1 =>
    if panics c w1 then .panic s else
    match writeChunk c w1 with
    | .error e => .err { s with w := w1, err := some (.w e) } (.w e)
    | .ok w2 =>
      match sinkWrites F { s with w := w1 } (segments c w1 w2) with
      | (s', false) => .err { s' with err := some .sink } .sink
      | (s', true) =>
        match Model.chunkNext w2.cstate w2.ctype with
        | none => .err { s' with w := { w2 with out := s'.w.out } } (.w (.other "unexpected chunk type"))
        | some cs' =>
          .ok { s' with w := { w2 with out := s'.w.out, body := ByteArray.empty, e := Enc.init, start := w2.hist.size,
                                       cstate := cs', ctype := Model.defaultChunkType cs', snapS := w2.s,
                                       snapTbl := w2.tbl, curOps := #[] } }

structure WRes (σ : Type) where
  s : FSt σ
  n : Nat
  err : Option FErr := none
  panic : Bool := false

/-- `Writer2.Write` (after the closed / stored-error tests) -/
def write (c : Cfg) (M : Matcher σ) (F : Plan) (p : ByteArray) : Nat → FSt σ → Nat → WRes σ
  | 0, s, n => { s := s, n := n, err := some (.w (.other "Write: fuel exhausted")) }
  | fuel + 1, s, n =>
    if n < p.size then
      let m := Gen.lzma_maxUncompressed - s.w.written
      if m = 0 then { s := s, n := n, panic := true } else
      let hi := if n + m < p.size then n + m else p.size
      let q := p.extract n hi
      match encWrite c M q (q.size + 2) s.w 0 with
      | (.bad w' what, k) => { s := { s with w := w' }, n := n + k, err := some (.w (.other what)) }
      | (.broken w', k) =>
        { s := { s with w := if w'.look.size > 0 then { w' with m := (M.next w'.m w'.hist w'.look w'.s).2 } else w' },
          n := n + k, err := some (.w .limit) }
      | (.limit w', k) =>
        match flushChunk c M F { s with w := w' } with
        | .err s' e => { s := s', n := n + k, err := some e }
        | .panic s' => { s := s', n := n + k, panic := true }
        | .ok s' => write c M F p fuel s' (n + k)
      | (.ok w', k) =>
        if k = m then
          match flushChunk c M F { s with w := w' } with
          | .err s' e => { s := s', n := n + k, err := some e }
          | .panic s' => { s := s', n := n + k, panic := true }
          | .ok s' => write c M F p fuel s' (n + k)
        else write c M F p fuel { s with w := w' } (n + k)
    else { s := s, n := n }

def flushLoop (c : Cfg) (M : Matcher σ) (F : Plan) : Nat → FSt σ → Res σ
  | 0, s => .err s (.w (.other "Flush: fuel exhausted"))
  | fuel + 1, s =>
    if s.w.written > 0 then
      match flushChunk c M F s with
      | .ok s' => flushLoop c M F fuel s'
      | r => r
    else .ok s

structure CallRes where
  n : Nat := 0
  err : Option FErr := none
  panic : Bool := false

def step (c : Cfg) (M : Matcher σ) (F : Plan) (s : FSt σ) : Call → FSt σ × CallRes
  | .write p =>
    if s.w.closed then (s, { err := some (.w .closed) }) else
    match s.err with
    | some e => (s, { err := some e })
    | none =>
      let r := write c M F p (2 * p.size + s.w.written + 2) s 0
      (r.s, { n := r.n, err := r.err, panic := r.panic })
  | .flush =>
    if s.w.closed then (s, { err := some (.w .closed) }) else
    match s.err with
    | some e => (s, { err := some e })
    | none =>
      match flushLoop c M F (s.w.written + 1) s with
      | .ok s' => (s', {})
      | .err s' e => (s', { err := some e })
      | .panic s' => (s', { panic := true })
  | .close =>
    if s.w.closed then (s, { err := some (.w .closed) }) else
    match s.err with
    | some e => (s, { err := some e })
    | none =>
      match flushLoop c M F (s.w.written + 1) s with
      | .err s' e => (s', { err := some e })
      | .panic s' => (s', { panic := true })
      | .ok s' =>
        match sinkWrite F s' (ByteArray.empty.push 0) with
        | (s'', false) => (s'', { err := some .sink })
        | (s'', true) =>
          ({ s'' with w := { s''.w with cstate := Gen.lzma_stateStop,
                                        chunks := s''.w.chunks.push { kind := .eos, usize := 0 } } }, {})

/-- run a call history: final state and, per call, the result and the sink length after it -/
def run (c : Cfg) (M : Matcher σ) (F : Plan) : FSt σ → List Call → FSt σ × List (CallRes × Nat)
  | s, [] => (s, [])
  | s, call :: rest =>
    let (s', r) := step c M F s call
    let (sf, rs) := run c M F s' rest
    (sf, (r, s'.w.out.size) :: rs)

/-- the fault plans of the harness: the k-th call (1-based) fails; mode 0 once, 1 for ever, 2 once after half of the
    bytes (when there are at least two), 3 for ever after half of the bytes -/
def planOf (k mode : Nat) : Plan := fun i =>
  if k = 0 then none else
  if i + 1 = k ∨ (i + 1 > k ∧ (mode = 1 ∨ mode = 3)) then
    some (fun len => if mode ≥ 2 ∧ len > 1 then len / 2 else 0)
  else none

end W2F
