/-
  Model.Gxz — `processFile` of cmd/gxz/file.go (after the fixes F9, F10, F12) as a straight-line
  program over an abstract file system with three relevant paths: the input, the target (always a
  different name: a suffix is added when compressing and a known suffix removed when
  decompressing; names without known suffix are refused) and the temporary file
  (`<target>.compress` / `.decompress`).  Every system call that touches the file system is a
  step; a step may fail (fault) and the process may be killed before any step (crash).  Core-only.
-/
namespace Gxz

/-- what a path holds -/
inductive FState where
  | absent
  | orig      -- the user's original input
  | other     -- some unrelated pre-existing file
  | part      -- an incomplete output
  | complete  -- the complete output
  deriving DecidableEq, Repr, Inhabited

structure FS where
  inp : FState
  tgt : FState
  tmp : FState
  deriving DecidableEq, Repr, Inhabited

structure Cfg where
  decompress : Bool  -- -d: the input's header is read (format detection) before the writer is created
  keep : Bool      -- -k
  force : Bool     -- -f
  badInput : Bool  -- corrupt / truncated input or unknown format: the codec reports an error
  badName : Bool   -- target name cannot be derived (suffix rules)
  deriving DecidableEq, Repr, Inhabited

/-- the system calls of one run, in program order -/
inductive Step where
  | openInp      -- lstat + open + fstat of the input
  | probe        -- (decompression) first read of the input: header / format detection
  | statTgt      -- stat of the target name
  | openTmp      -- open(tmp, O_WRONLY|O_CREATE|O_EXCL)
  | copy         -- read input / write temporary file (any of the calls)
  | finish       -- final writes of the compressor and the buffered writer
  | closeTmp
  | removeTmp    -- unlink(tmp) on the failure path
  | rename       -- rename(tmp, target)
  | closeInp
  | removeInp
  deriving DecidableEq, Repr, Inhabited

def Step.all : List Step :=
  [.openInp, .probe, .statTgt, .openTmp, .copy, .finish, .closeTmp, .removeTmp, .rename, .closeInp, .removeInp]

structure Result where
  fs : FS
  exit : Nat          -- 0 success, 1 failure, 137 killed
  deriving DecidableEq, Repr

/-- discard the temporary file (writer.Close on the failure path / F10 clean-up) -/
def dropTmp (fs : FS) : FS := { fs with tmp := .absent }

/-- Run `processFile`. `fault` = the step whose system call fails (at most one primary fault; the
    clean-up that follows is assumed to work), `crash` = the step before which the process is
    killed.  The input path holds `orig` initially. -/
def run (c : Cfg) (fs : FS) (fault crash : Option Step) : Result :=
  let killed (s : Step) := crash = some s
  let fails (s : Step) := fault = some s
  -- every exit after the input has been opened closes it (deferred `r.Close()`); a kill at that
  -- close changes the exit status only
  let failExit (fs : FS) : Result := if killed .closeInp then ⟨fs, 137⟩ else ⟨fs, 1⟩
  -- failure after the temporary file was created: `writer.Close()` closes it (a failing close is
  -- ignored for the removal, fix F16), removes it, then the input is closed
  let cleanup (fs : FS) (closed : Bool) : Result :=
    if ¬ closed ∧ killed .closeTmp then ⟨fs, 137⟩ else
    if killed .removeTmp then ⟨fs, 137⟩ else
    failExit (dropTmp fs)
  -- openInp
  if killed .openInp then ⟨fs, 137⟩ else
  if fails .openInp then ⟨fs, 1⟩ else
  -- probe (decompression only)
  if c.decompress ∧ killed .probe then ⟨fs, 137⟩ else
  if c.decompress ∧ fails .probe then failExit fs else
  if c.badName then failExit fs else
  -- for decompression the header is inspected before the writer is created
  -- statTgt
  if killed .statTgt then ⟨fs, 137⟩ else
  if (fails .statTgt ∨ fs.tgt ≠ .absent) ∧ ¬ c.force then failExit fs else
  -- openTmp (O_EXCL: a leftover temporary file makes it fail)
  if killed .openTmp then ⟨fs, 137⟩ else
  if fails .openTmp ∨ fs.tmp ≠ .absent then failExit fs else
  let fs1 := { fs with tmp := .part }
  -- copy
  if killed .copy then ⟨fs1, 137⟩ else
  if fails .copy ∨ c.badInput then cleanup fs1 false else
  -- finish
  if killed .finish then ⟨fs1, 137⟩ else
  if fails .finish then cleanup fs1 false else
  let fs2 := { fs1 with tmp := .complete }
  -- closeTmp
  if killed .closeTmp then ⟨fs2, 137⟩ else
  if fails .closeTmp then cleanup fs2 false else
  -- rename
  if killed .rename then ⟨fs2, 137⟩ else
  if fails .rename then cleanup fs2 true else
  let fs3 := { fs2 with tgt := .complete, tmp := .absent }
  -- closeInp
  if killed .closeInp then ⟨fs3, 137⟩ else
  if fails .closeInp then ⟨fs3, 1⟩ else
  if c.keep then ⟨fs3, 0⟩ else
  -- removeInp
  if killed .removeInp then ⟨fs3, 137⟩ else
  if fails .removeInp then ⟨fs3, 1⟩ else
  ⟨{ fs3 with inp := .absent }, 0⟩

/-- the user's data exists in at least one complete form -/
def DataSafe (fs : FS) : Prop := fs.inp = .orig ∨ fs.tgt = .complete

instance (fs : FS) : Decidable (DataSafe fs) := by unfold DataSafe; infer_instance

def FState.all : List FState := [.absent, .orig, .other, .part, .complete]

end Gxz
