import XzVerif.Codec.Lzma2
import XzVerif.Codec.Hash
/-
  Model.Xz — the .xz container: reader.go / format.go in batch form over a byte array
  (`strict = false`), the format's own rules (`strict = true`, used as Spec), and the
  container emitter used to re-encode parsed streams.
-/
namespace Xz
open Lzma Lzma2 Rc

def headerMagic : List Nat := [0xFD, 0x37, 0x7A, 0x58, 0x5A, 0x00]
def footerMagic : List Nat := [0x59, 0x5A]

def checkSize (flags : Nat) : Option Nat :=
  if flags = 0 then some 0 else if flags = 1 then some 4 else if flags = 4 then some 8
  else if flags = 10 then some 32 else none

def checkValue (flags : Nat) (b : ByteArray) (lo hi : Nat) : ByteArray :=
  if flags = 1 then Hash.le32 (Hash.crc32 b lo hi)
  else if flags = 4 then Hash.le64 (Hash.crc64 b lo hi)
  else if flags = 10 then Hash.sha256 b lo hi
  else ByteArray.empty

def padLen (n : Nat) : Nat := (4 - n % 4) % 4

def le32At (b : ByteArray) (i : Nat) : Nat :=
  get b i + 256 * get b (i + 1) + 65536 * get b (i + 2) + 16777216 * get b (i + 3)

def sliceEq (b : ByteArray) (i : Nat) (l : List Nat) : Bool :=
  (List.range l.length).all (fun k => get b (i + k) == l.getD k 0)

def allZero (b : ByteArray) (lo hi : Nat) : Bool :=
  (List.range (hi - lo)).all (fun k => get b (lo + k) == 0)

/-- readUvarint of bits.go over `b[pos, lim)`: value, bytes read; error on overflow / end -/
inductive UvRes where
  | ok (x n : Nat)
  | eof (n : Nat)
  | overflow

def readUvarint (b : ByteArray) (pos lim : Nat) : UvRes :=
  go 11 0 0 0
where
  go : Nat → Nat → Nat → Nat → UvRes
  | 0, _, _, _ => .overflow
  | fuel + 1, i, x, s =>
    if pos + i ≥ lim then .eof i else
    -- an eleventh byte is READ before the overflow is reported (so ten continuation bytes at the end of the input are
    -- an unexpected end, not an overflow)
    if i ≥ 10 then .overflow else
    let c := get b (pos + i)
    if c < 0x80 then
      if i + 1 = 10 ∧ c > 1 then .overflow else .ok (x + c * 2 ^ s) (i + 1)
    else go fuel (i + 1) (x + (c % 128) * 2 ^ s) (s + 7)

def putUvarint (x : Nat) : ByteArray :=
  go 10 x ByteArray.empty
where
  go : Nat → Nat → ByteArray → ByteArray
  | 0, _, o => o
  | fuel + 1, x, o => if x ≥ 0x80 then go fuel (x / 128) (o.push (x % 128 + 128).toUInt8) else o.push x.toUInt8

structure BlockHeader where
  len : Nat
  csize : Option Nat
  usize : Option Nat
  dictCode : Nat
  deriving Repr

structure Block where
  hdr : BlockHeader
  chunks : Array Chunk
  usize : Nat      -- measured
  csize : Nat      -- measured (LZMA2 data incl. end marker)
  check : ByteArray

structure Stream where
  flags : Nat
  blocks : Array Block
  padAfter : Nat := 0

inductive HdrRes where
  | ok (h : BlockHeader)
  | index
  | fail (st : Status)

/-- readBlockHeader + blockHeader.UnmarshalBinary -/
def readBlockHeader (strict : Bool) (inp : ByteArray) (pos : Nat) : HdrRes :=
  if pos ≥ inp.size then .fail .unexpectedEOF else
  let s := get inp pos
  if s = 0 then .index else
  let len := (s + 1) * 4
  if pos + len > inp.size then .fail .unexpectedEOF else
  let n := len - 4
  if (Hash.crc32 inp pos (pos + n)).toNat ≠ le32At inp (pos + n) then .fail (.err "block header checksum") else
  let flags := get inp (pos + 1)
  if flags &&& 0x3C ≠ 0 then .fail (.err "reserved block header flags") else
  let lim := pos + n
  let p0 := pos + 2
  -- compressed size
  let r1 : Option (Option Nat × Nat) :=
    if flags &&& 0x40 ≠ 0 then
      match readUvarint inp p0 lim with
      | .ok x k => if x ≥ 2 ^ 63 then none else some (some x, p0 + k)
      | _ => none
    else some (none, p0)
  match r1 with
  | none => .fail (.err "compressed size field")
  | some (cs, p1) =>
  let r2 : Option (Option Nat × Nat) :=
    if flags &&& 0x80 ≠ 0 then
      match readUvarint inp p1 lim with
      | .ok x k => if x ≥ 2 ^ 63 then none else some (some x, p1 + k)
      | _ => none
    else some (none, p1)
  match r2 with
  | none => .fail (.err "uncompressed size field")
  | some (us, p2) =>
  if flags &&& 0x03 ≠ 0 then .fail (.err "unsupported filter count") else
  match readUvarint inp p2 lim with
  | .ok id k =>
    if id ≠ 0x21 then .fail (.err "invalid filter id") else
    let p3 := p2 + k
    if p3 + 2 > lim then .fail (.err "filter data truncated") else
    if get inp p3 ≠ 1 then .fail (.err "wrong LZMA2 filter size") else
    let dc := get inp (p3 + 1)
    if dc > 40 then .fail (.err "wrong dictionary size property") else
    if !allZero inp (p3 + 2) lim then .fail (.err "block header padding") else
    if strict ∧ (cs = some 0) then .fail (.err "compressed size zero") else
    .ok { len := len, csize := cs, usize := us, dictCode := dc }
  | _ => .fail (.err "filter id")

def dictSize (c : Nat) : Nat := if c = 40 then 2 ^ 32 - 1 else (2 + c % 2) * 2 ^ (c / 2 + 11)

structure RdState where
  inp : ByteArray
  pos : Nat
  out : ByteArray
  streams : Array Stream := #[]

/-- one block: LZMA2 data, size checks, padding, check value (blockReader.Read) -/
def readBlock (strict : Bool) (cfgCap : Nat) (flags : Nat) (hdr : BlockHeader) (r : RdState) :
    RdState × Status × Option Block :=
  let cap := max cfgCap (dictSize hdr.dictCode)
  let cap := if strict then dictSize hdr.dictCode else cap
  let start := r.pos
  let ostart := r.out.size
  let (l2, st) := Lzma2.decode strict cap r.inp r.pos r.out
  let r1 := { r with pos := l2.pos, out := l2.h.out }
  let usz := r1.out.size - ostart
  let csz := r1.pos - start
  -- size checks are made on every Read, i.e. also before an error of the LZMA2 layer surfaces
  let tooBigU : Bool := match hdr.usize with | some u => decide (usz > u) | none => false
  let tooBigC : Bool := match hdr.csize with | some c => decide (csz > c) | none => false
  if tooBigU then (r1, .err "wrong uncompressed size for block", none)
  else if tooBigC then (r1, .err "wrong compressed size for block", none)
  else if st ≠ .eof then (r1, st, none)
  else
  let shortU : Bool := match hdr.usize with | some u => decide (usz < u) | none => false
  let shortC : Bool := match hdr.csize with | some c => decide (csz < c) | none => false
  if shortU || shortC then (r1, .unexpectedEOF, none) else
  let s := (checkSize flags).getD 0
  let k := padLen csz
  if r1.pos + k + s > r1.inp.size then (r1, .unexpectedEOF, none) else
  if !allZero r1.inp r1.pos (r1.pos + k) then (r1, .err "non-zero block padding", none) else
  let stored := r1.inp.extract (r1.pos + k) (r1.pos + k + s)
  let computed := checkValue flags r1.out ostart r1.out.size
  if stored.toList ≠ computed.toList then (r1, .err "checksum error for block", none) else
  ({ r1 with pos := r1.pos + k + s }, .eof,
   some { hdr := hdr, chunks := l2.chunks, usize := usz, csize := csz, check := stored })

/-- index + footer (readTail) -/
def readTail (flags : Nat) (recs : Array (Nat × Nat)) (r : RdState) : RdState × Status :=
  let inp := r.inp
  let p0 := r.pos + 1   -- index indicator already seen
  match readUvarint inp p0 inp.size with
  | .eof _ => (r, .unexpectedEOF)
  | .overflow => (r, .err "uvarint overflow")
  | .ok cnt k =>
    if cnt ≠ recs.size then (r, .err "index length") else
    -- the records are parsed first (readIndexBody) and compared with the blocks seen only after padding and CRC32 of
    -- the index have been read and verified (streamReader.readTail), so a damaged or cut index is reported as such
    let rec recLoop : Nat → Nat → Array (Nat × Nat) → Option (Nat × Status × Array (Nat × Nat))
      | 0, p, acc => some (p, .eof, acc)
      | n + 1, p, acc =>
        match readUvarint inp p inp.size with
        | .eof _ => some (p, .unexpectedEOF, acc)
        | .overflow => some (p, .err "uvarint overflow", acc)
        | .ok a ka =>
          if a ≥ 2 ^ 63 then some (p, .err "unpadded size negative", acc) else
          match readUvarint inp (p + ka) inp.size with
          | .eof _ => some (p, .unexpectedEOF, acc)
          | .overflow => some (p, .err "uvarint overflow", acc)
          | .ok b kb =>
            if b ≥ 2 ^ 63 then some (p, .err "uncompressed size negative", acc) else
            recLoop n (p + ka + kb) (acc.push (a, b))
    match recLoop cnt (p0 + k) #[] with
    | none => (r, .err "unreachable")
    | some (_, .unexpectedEOF, _) => (r, .unexpectedEOF)
    | some (p1, .eof, parsed) =>
      let n := p1 - p0          -- bytes of the index body after the indicator
      let pad := padLen (n + 1)
      if p1 + pad > inp.size then (r, .unexpectedEOF) else
      if !allZero inp p1 (p1 + pad) then (r, .err "non-zero byte in index padding") else
      let pc := p1 + pad
      if pc + 4 > inp.size then (r, .unexpectedEOF) else
      if (Hash.crc32 inp r.pos pc).toNat ≠ le32At inp pc then (r, .err "wrong checksum for index") else
      if parsed.toList ≠ recs.toList then (r, .err "index record mismatch") else
      let indexSize := pc + 4 - r.pos
      let pf := pc + 4
      if pf + 12 > inp.size then (r, .unexpectedEOF) else
      if !sliceEq inp (pf + 10) footerMagic then (r, .err "footer magic invalid") else
      if (Hash.crc32 inp (pf + 4) (pf + 10)).toNat ≠ le32At inp pf then (r, .err "footer checksum error") else
      if get inp (pf + 8) ≠ 0 then (r, .err "invalid flags") else
      if (checkSize (get inp (pf + 9))).isNone then (r, .err "invalid flags") else
      if get inp (pf + 9) ≠ flags then (r, .err "footer flags incorrect") else
      if (le32At inp (pf + 4) + 1) * 4 ≠ indexSize then (r, .err "index size in footer wrong") else
      ({ r with pos := pf + 12 }, .eof)
    | some (_, st, _) => (r, st)

inductive SHdr where
  | ok (flags : Nat)
  | padding
  | cleanEnd          -- no byte left
  | fail (st : Status)

/-- newStreamReader: 12-byte stream header, or 4 bytes of padding -/
def readStreamHeader (inp : ByteArray) (pos : Nat) : SHdr :=
  if pos ≥ inp.size then .cleanEnd else
  if pos + 4 > inp.size then .fail .unexpectedEOF else
  if allZero inp pos (pos + 4) then .padding else
  if pos + 12 > inp.size then .fail .unexpectedEOF else
  if !sliceEq inp pos headerMagic then .fail (.err "invalid header magic bytes") else
  if (Hash.crc32 inp (pos + 6) (pos + 8)).toNat ≠ le32At inp (pos + 8) then .fail (.err "invalid checksum for file header") else
  if get inp (pos + 6) ≠ 0 then .fail (.err "invalid flags") else
  match checkSize (get inp (pos + 7)) with
  | none => .fail (.err "invalid flags")
  | some _ => .ok (get inp (pos + 7))

/-- blocks of one stream until the index, then the tail (streamReader.Read) -/
def readBlocks (strict : Bool) (cfgCap flags : Nat) :
    Nat → RdState → Array Block → Array (Nat × Nat) → RdState × Status × Array Block
  | 0, r, bs, _ => (r, .err "fuel exhausted", bs)
  | fuel + 1, r, bs, recs =>
    match readBlockHeader strict r.inp r.pos with
    | .fail st => (r, st, bs)
    | .index =>
      let (r', st) := readTail flags recs r
      (r', st, bs)
    | .ok hdr =>
      let (r1, st, blk) := readBlock strict cfgCap flags hdr { r with pos := r.pos + hdr.len }
      match st, blk with
      | .eof, some b =>
        let unpadded := hdr.len + b.csize + (checkSize flags).getD 0
        readBlocks strict cfgCap flags fuel r1 (bs.push b) (recs.push (unpadded, b.usize))
      | st, _ => (r1, if st = .eof then .err "unreachable" else st, bs)

/-- the multi-stream loop of Reader.Read -/
def readStreams (strict : Bool) (cfgCap : Nat) (single : Bool) :
    Nat → Bool → RdState → RdState × Status
  | 0, _, r => (r, .err "fuel exhausted")
  | fuel + 1, first, r =>
    match readStreamHeader r.inp r.pos with
    | .cleanEnd => if first then (r, .unexpectedEOF) else (r, .eof)
    | .padding =>
      if first then (r, .err "padding encountered")
      else
        let r' := { r with pos := r.pos + 4 }
        let r' := match r'.streams.back? with
          | some s => { r' with streams := r'.streams.pop.push { s with padAfter := s.padAfter + 4 } }
          | none => r'
        readStreams strict cfgCap single fuel false r'
    | .fail st => (r, st)
    | .ok flags =>
      let (r1, st, bs) := readBlocks strict cfgCap flags (r.inp.size - r.pos + 2) { r with pos := r.pos + 12 } #[] #[]
      if st ≠ .eof then (r1, st) else
      let r2 := { r1 with streams := r1.streams.push { flags := flags, blocks := bs } }
      if single then
        if r2.pos < r2.inp.size then (r2, .err "unexpected data after stream") else (r2, .eof)
      else readStreams strict cfgCap single fuel false r2

structure Result where
  out : ByteArray
  status : Status
  streams : Array Stream
  pos : Nat

/-- `ReaderConfig{DictCap, SingleStream}.NewReader` followed by reading to the end -/
def read (strict : Bool) (cfgCap : Nat) (single : Bool) (inp : ByteArray) : Result :=
  let (r, st) := readStreams strict cfgCap single (inp.size / 4 + 3) true { inp := inp, pos := 0, out := .empty }
  { out := r.out, status := st, streams := r.streams, pos := r.pos }

/-! ### emitter -/

def streamHeader (flags : Nat) : ByteArray :=
  let b := (headerMagic.foldl (fun a x => a.push x.toUInt8) ByteArray.empty).push 0 |>.push flags.toUInt8
  b ++ Hash.le32 (Hash.crc32 b 6 8)

def blockHeaderBytes (h : BlockHeader) : ByteArray :=
  let flags := (if h.csize.isSome then 0x40 else 0) + (if h.usize.isSome then 0x80 else 0)
  let b := ByteArray.empty.push ((h.len / 4) - 1).toUInt8 |>.push flags.toUInt8
  let b := match h.csize with | some c => b ++ putUvarint c | none => b
  let b := match h.usize with | some u => b ++ putUvarint u | none => b
  let b := b.push 0x21 |>.push 1 |>.push h.dictCode.toUInt8
  let b := (List.range (h.len - 4 - b.size)).foldl (fun a _ => a.push 0) b
  b ++ Hash.le32 (Hash.crc32 b 0 b.size)

def zeros (n : Nat) : ByteArray := (List.range n).foldl (fun a _ => a.push 0) ByteArray.empty

/-- re-emit a parsed stream: headers and index are rebuilt from the measured sizes, LZMA2 data is
    re-encoded from the operations, the check is recomputed from the re-decoded content -/
def emitStream (s : Stream) : ByteArray := Id.run do
  let mut o := streamHeader s.flags
  let mut recs : Array (Nat × Nat) := #[]
  for b in s.blocks do
    o := o ++ blockHeaderBytes b.hdr
    -- blocks do not share history: each block starts a fresh LZMA2 stream
    let st := b.chunks.foldl emitChunk { h := { out := .empty, dictStart := 0, cap := dictSize b.hdr.dictCode } }
    o := o ++ st.out
    o := o ++ zeros (padLen st.out.size)
    o := o ++ checkValue s.flags st.h.out 0 st.h.out.size
    recs := recs.push (b.hdr.len + st.out.size + (checkSize s.flags).getD 0, st.h.out.size)
  let istart := o.size
  o := o.push 0
  o := o ++ putUvarint recs.size
  for (a, b) in recs do
    o := o ++ putUvarint a ++ putUvarint b
  o := o ++ zeros (padLen (o.size - istart))
  o := o ++ Hash.le32 (Hash.crc32 o istart o.size)
  let isize := o.size - istart
  let f := (Hash.le32 (isize / 4 - 1).toUInt32).push 0 |>.push s.flags.toUInt8
  o := o ++ Hash.le32 (Hash.crc32 f 0 6) ++ f ++ (footerMagic.foldl (fun a x => a.push x.toUInt8) ByteArray.empty)
  o := o ++ zeros s.padAfter
  return o

def emit (ss : Array Stream) : ByteArray := ss.foldl (fun a s => a ++ emitStream s) ByteArray.empty

end Xz

namespace Xz
open Lzma Lzma2 Rc

/-- specification of a block to build: extra header padding (in 4-byte words), presence of the
    two optional size fields, dictionary size code, chunks -/
structure BlockSpec where
  extraPad : Nat
  withCs : Bool
  withUs : Bool
  dictCode : Nat
  chunks : Array Chunk

/-- spec encoder for the container: builds a stream around arbitrary chunk sequences with any
    legal layout (optional size fields, header padding, several blocks, stream padding) -/
def buildStream (flags : Nat) (blocks : Array BlockSpec) (padAfter : Nat) : ByteArray :=
  let parsed : Array Block := blocks.map (fun bs =>
    let st := bs.chunks.foldl emitChunk { h := { out := .empty, dictStart := 0, cap := dictSize bs.dictCode } }
    let cs := if bs.withCs then some st.out.size else none
    let us := if bs.withUs then some st.h.out.size else none
    let fields := 2 + (match cs with | some c => (putUvarint c).size | none => 0) +
      (match us with | some u => (putUvarint u).size | none => 0) + 3
    let len := (fields + 3) / 4 * 4 + 4 + 4 * bs.extraPad
    { hdr := { len := len, csize := cs, usize := us, dictCode := bs.dictCode }, chunks := bs.chunks,
      usize := st.h.out.size, csize := st.out.size, check := .empty })
  emitStream { flags := flags, blocks := parsed, padAfter := padAfter }

end Xz
