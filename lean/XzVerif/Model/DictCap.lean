import XzVerif.Gen.Consts
/-
  Model.DictCap — mirrors lzma/header2.go: decodeDictCap, DecodeDictCap, EncodeDictCap
  (the binary-search loop, with fuel because Lean wants structural recursion).
-/
namespace Model

/-- `(2 | int64(c)&1) << (11 + (c>>1)&0x1f)` -/
def decodeDictCapRaw (c : Nat) : Nat :=
  (2 ||| (c &&& 1)) <<< (11 + ((c >>> 1) &&& 0x1f))

/-- `DecodeDictCap`: none = error -/
def decodeDictCap (c : Nat) : Option Nat :=
  if c ≥ Gen.lzma_maxDictCapCode then
    if c = Gen.lzma_maxDictCapCode then some (2 ^ 32 - 1) else none
  else some (decodeDictCapRaw c)

/-- loop of `EncodeDictCap`: `for a < b { c := a + (b-a)>>1; m := decodeDictCap(c); … }` -/
def encodeLoop : Nat → Nat → Nat → Nat → Nat
  | 0, a, _, _ => a
  | fuel + 1, a, b, n =>
    if a < b then
      let c := a + (b - a) / 2
      let m := decodeDictCapRaw c
      if n ≤ m then
        if n = m then c else encodeLoop fuel a c n
      else encodeLoop fuel (c + 1) b n
    else a

def encodeDictCap (n : Nat) : Nat := encodeLoop 41 0 40 n

end Model
