import XzVerif.Model.Writer2
import XzVerif.Model.Lzma1
/-
  Model.Writer1 — the classic .lzma writer (lzma/writer.go: `WriterConfig.fill`, `header()`,
  `NewWriter`, `Writer.Write`, `Writer.Close`) on top of the encoder loop of lzma/encoder.go
  without a byte limit (`LimitedByteWriter.N = maxInt64`), over the same abstract match finder
  as Model.Writer2.  Models the explicit-size contract: with a size in the header `Write` accepts
  at most the missing bytes (`ErrNoSpace` for a surplus) and `Close` fails with `errSize` when
  fewer were written.  Sink writes never fail here (C09).  Core-only.
-/
namespace W1
open Lzma Rc Lzma2 W2

/-- `WriterConfig` as the caller passes it (before `fill`) -/
structure RawCfg where
  props : Props
  dictCap : Nat
  bufSize : Nat
  sizeInHeader : Bool
  size : Nat
  eosMarker : Bool

/-- the configuration after `fill()`: a positive size implies a size in the header, no size implies an end marker -/
structure Cfg where
  props : Props
  dictCap : Nat
  bufSize : Nat
  size : Option Nat      -- `header.size`: none = −1 (unknown)
  marker : Bool

def fill (r : RawCfg) : Cfg :=
  let sih := r.sizeInHeader || decide (r.size > 0)
  { props := r.props, dictCap := r.dictCap, bufSize := r.bufSize,
    size := if sih then some r.size else none,
    marker := r.eosMarker || !sih }

def Cfg.header (c : Cfg) : Lzma1.Header := { props := c.props, dictCap := c.dictCap, size := c.size }

def Cfg.w2 (c : Cfg) : W2.Cfg := { props := c.props, dictCap := c.dictCap, bufSize := c.bufSize }

inductive Err where
  | noSpace        -- ErrNoSpace: surplus bytes refused
  | size           -- errSize: Close with fewer bytes than announced
  | other (what : String)
  deriving DecidableEq, Repr, Inhabited

structure St (σ : Type) where
  s : Lzma.St := {}
  tbl : Tbl
  e : Enc := Enc.init
  body : ByteArray := ByteArray.empty    -- range-coded bytes so far
  hist : ByteArray := ByteArray.empty
  look : ByteArray := ByteArray.empty
  m : σ
  ops : Array RawOp := #[]               -- ghost: operations encoded so far

variable {σ : Type}

def init (c : Cfg) (m0 : σ) : St σ := { tbl := initTable c.props.lc c.props.lp, m := m0 }

def St.lenE (c : Cfg) (w : St σ) : Nat := min (c.dictCap + c.bufSize - w.look.size) w.hist.size
def St.dictAvail (c : Cfg) (w : St σ) : Nat := c.dictCap + c.bufSize - w.look.size - min w.hist.size c.dictCap

def St.byteAtE (c : Cfg) (w : St σ) (dist : Nat) : Nat :=
  if 0 < dist ∧ dist ≤ w.lenE c then (w.hist.get! (w.hist.size - dist)).toNat else 0

def St.ctx (c : Cfg) (w : St σ) : Ctx :=
  { st := w.s.st
    ps := w.hist.size % 2 ^ c.props.pb
    litBase := aLit + 0x300 * litState c.props.lc c.props.lp w.hist.size (w.byteAtE c 1)
    matchByte := w.byteAtE c (w.s.r0 + 1) }

/-- `writeOp` + `Discard` without byte limit; `none` = the proposal makes writeMatch / Discard panic -/
def encodeOp (c : Cfg) (w : St σ) (g : GoOp) : Option (St σ) :=
  if !g.encodable w.s w.look.size then none else
  let op := classify w.s g
  let (tbl', e') := encPath w.tbl w.e (opEnc (w.ctx c) op)
  let (e'', body') := flushOut e' w.body
  let n := g.len
  some { w with s := w.s.apply op, tbl := tbl', e := e'', body := body',
                hist := w.hist ++ w.look.extract 0 n, look := w.look.extract n w.look.size,
                ops := w.ops.push op }

def compress (c : Cfg) (M : Matcher σ) (all : Bool) : Nat → St σ → Option (St σ)
  | 0, w => some w
  | fuel + 1, w =>
    if w.look.size > (if all then 0 else Gen.lzma_maxMatchLen - 1) then
      let (g, m') := M.next w.m w.hist w.look w.s
      match encodeOp c { w with m := m' } g with
      | some w' => compress c M all fuel w'
      | none => none
    else some w

/-- `encoder.Write` -/
def encWrite (c : Cfg) (M : Matcher σ) (p : ByteArray) : Nat → St σ → Nat → Option (St σ × Nat)
  | 0, _, _ => none
  | fuel + 1, w, n =>
    let k := min (p.size - n) (w.dictAvail c)
    let w1 := { w with look := w.look ++ p.extract n (n + k) }
    let n1 := n + k
    if n1 < p.size then
      match compress c M false (w1.look.size + 1) w1 with
      | some w2 => encWrite c M p fuel w2 n1
      | none => none
    else some (w1, n1)

/-- `Writer.Write`: (state, n, error) -/
def write (c : Cfg) (M : Matcher σ) (w : St σ) (p : ByteArray) : St σ × Nat × Option Err :=
  let (q, cut) : ByteArray × Bool :=
    match c.size with
    | some sz =>
      let m := sz - (w.hist.size + w.look.size)
      if m < p.size then (p.extract 0 m, true) else (p, false)
    | none => (p, false)
  match encWrite c M q (q.size + 2) w 0 with
  | none => (w, 0, some (.other "match finder proposal not encodable"))
  | some (w', n) => (w', n, if cut then some .noSpace else none)

/-- `Writer.Close`: the complete stream -/
def close (c : Cfg) (M : Matcher σ) (w : St σ) : Except Err (St σ × ByteArray) :=
  let sizeOk := match c.size with
    | some sz => decide (w.hist.size + w.look.size = sz)
    | none => true
  if !sizeOk then .error .size else
  match compress c M true (w.look.size + 1) w with
  | none => .error (.other "match finder proposal not encodable")
  | some w1 =>
    let (tbl', e') :=
      if c.marker then encPath w1.tbl w1.e (opEnc (w1.ctx c) (.mtch 2 eosDist)) else (w1.tbl, w1.e)
    let body := (flushOut { e' with out := e'.close } w1.body).2
    .ok ({ w1 with tbl := tbl', e := e' }, Lzma1.headerBytes c.header ++ body)

inductive Call where
  | write (p : ByteArray)
  | close

/-- run a history `Write* Close`; per call (n, error) and the stream if Close succeeded -/
def run (c : Cfg) (M : Matcher σ) : St σ → List Call → List (Nat × Option Err) × Option ByteArray
  | _, [] => ([], none)
  | w, .write p :: rest =>
    let (w', n, e) := write c M w p
    let (rs, out) := run c M w' rest
    ((n, e) :: rs, out)
  | w, .close :: _ =>
    match close c M w with
    | .error e => ([(0, some e)], none)
    | .ok (_, out) => ([(0, none)], some out)

end W1
